(* Proofs/PermAux.v — helpers for Proofs/PermProps.v (C07):
   (A) ty_cmp is a total order consistent with equality; sort_by is invariant under permutation; canon lemmas;
       sem_eqb is an equivalence relation.
   (B) mk_union depends only on the set of flattened members. *)
From Coq Require Import List Bool Arith NArith ZArith Lia Permutation.
From J2M.Model Require Import Base Union Merge Optimize Detect Canon.
From J2M.Sem Require Import NF.
From J2M.Proofs Require Import Sound NormalForm.
Import ListNotations.

(* ------------------------------------------------------------------ *)
(* A.1 comparisons                                                      *)
Lemma lex_eq a b : lex a b = Eq <-> a = Eq /\ b = Eq.
Proof. destruct a; simpl; intuition congruence. Qed.
Lemma lex_opp a b : lex (CompOpp a) (CompOpp b) = CompOpp (lex a b).
Proof. destruct a; reflexivity. Qed.
Lemma lex_lt a b : lex a b = Lt <-> a = Lt \/ (a = Eq /\ b = Lt).
Proof. destruct a; simpl; intuition congruence. Qed.

Lemma pa_str_cmp_refl : forall a, str_cmp a a = Eq.
Proof. induction a as [|c a IH]; simpl; [reflexivity|]. rewrite N.compare_refl. exact IH. Qed.
Lemma pa_str_cmp_eq : forall a b, str_cmp a b = Eq -> a = b.
Proof.
  induction a as [|c a IH]; destruct b as [|d b]; simpl; try discriminate; [reflexivity|].
  destruct (N.compare c d) eqn:E; try discriminate. intros H. apply N.compare_eq in E. subst. f_equal. auto.
Qed.
Lemma pa_str_cmp_opp a b : str_cmp b a = CompOpp (str_cmp a b).
Proof. apply NormalForm.str_cmp_antisym. Qed.
Lemma pa_str_cmp_trans a b c : str_cmp a b = Lt -> str_cmp b c = Lt -> str_cmp a c = Lt.
Proof. apply NormalForm.str_cmp_lt_trans. Qed.

Lemma strs_cmp_refl : forall a, strs_cmp a a = Eq.
Proof. induction a as [|c a IH]; simpl; [reflexivity|]. rewrite pa_str_cmp_refl. exact IH. Qed.
Lemma strs_cmp_eq : forall a b, strs_cmp a b = Eq -> a = b.
Proof.
  induction a as [|c a IH]; destruct b as [|d b]; simpl; try discriminate; [reflexivity|].
  intros H. apply lex_eq in H. destruct H as [H1 H2]. apply pa_str_cmp_eq in H1. subst. f_equal. auto.
Qed.
Lemma strs_cmp_opp : forall a b, strs_cmp b a = CompOpp (strs_cmp a b).
Proof.
  induction a as [|c a IH]; destruct b as [|d b]; simpl; try reflexivity.
  rewrite (pa_str_cmp_opp c d), IH. apply lex_opp.
Qed.
Lemma strs_cmp_trans : forall a b c, strs_cmp a b = Lt -> strs_cmp b c = Lt -> strs_cmp a c = Lt.
Proof.
  induction a as [|x a IH]; destruct b as [|y b]; destruct c as [|z c]; simpl; try discriminate; try reflexivity.
  rewrite !lex_lt. intros [H1|[H1 H2]] [G1|[G1 G2]].
  - left. eapply pa_str_cmp_trans; eassumption.
  - apply pa_str_cmp_eq in G1. subst. auto.
  - apply pa_str_cmp_eq in H1. subst. auto.
  - apply pa_str_cmp_eq in H1. apply pa_str_cmp_eq in G1. subst. right. split; [apply pa_str_cmp_refl | eauto].
Qed.

Lemma bool_cmp_eq a b : Bool.compare a b = Eq -> a = b.
Proof. destruct a, b; simpl; congruence. Qed.
Lemma bool_cmp_opp a b : Bool.compare b a = CompOpp (Bool.compare a b).
Proof. destruct a, b; reflexivity. Qed.
Lemma bool_cmp_trans a b c : Bool.compare a b = Lt -> Bool.compare b c = Lt -> Bool.compare a c = Lt.
Proof. destruct a, b, c; simpl; congruence. Qed.
Lemma pseudo_rank_inj p q : pseudo_rank p = pseudo_rank q -> p = q.
Proof. destruct p, q; simpl; congruence. Qed.

(* ------------------------------------------------------------------ *)
(* A.2 ty_cmp                                                           *)
Definition cmp_tys : list ty -> list ty -> comparison :=
  fix go l1 l2 := match l1, l2 with
                  | [], [] => Eq | [], _ => Lt | _, [] => Gt
                  | x :: r, y :: r' => lex (ty_cmp x y) (go r r') end.
Definition cmp_flds : fields -> fields -> comparison :=
  fix go l1 l2 := match l1, l2 with
                  | [], [] => Eq | [], _ => Lt | _, [] => Gt
                  | (k, x) :: r, (k', y) :: r' => lex (str_cmp k k') (lex (ty_cmp x y) (go r r')) end.
Lemma ty_cmp_union xs ys : ty_cmp (TUnion xs) (TUnion ys) = cmp_tys xs ys.
Proof. reflexivity. Qed.
Lemma ty_cmp_obj xs ys : ty_cmp (TObj xs) (TObj ys) = cmp_flds xs ys.
Proof. reflexivity. Qed.

Lemma ty_cmp_rank a b : ty_rank a <> ty_rank b -> ty_cmp a b = Nat.compare (ty_rank a) (ty_rank b).
Proof. destruct a, b; simpl; intros H; try reflexivity; congruence. Qed.

Lemma ty_cmp_refl : forall a, ty_cmp a a = Eq.
Proof.
  induction a using ty_ind2; try reflexivity; simpl; try assumption.
  - apply Nat.compare_refl.
  - rewrite (proj2 (lex_eq _ _)); [reflexivity|]. split; [destruct o; reflexivity | apply strs_cmp_refl].
  - induction H as [|x r Hx Hr IH]; [reflexivity|]. rewrite Hx. exact IH.
  - induction H as [|[k x] r Hx Hr IH]; [reflexivity|]. simpl in Hx. rewrite pa_str_cmp_refl, Hx. exact IH.
  - apply N.compare_refl.
Qed.

Lemma ty_cmp_eq : forall a b, ty_cmp a b = Eq -> a = b.
Proof.
  induction a using ty_ind2; intros b; destruct b; simpl; intros E;
    try reflexivity; try discriminate;
    try (apply Nat.compare_eq in E; discriminate).
  - apply Nat.compare_eq in E. apply pseudo_rank_inj in E. congruence.
  - apply lex_eq in E. destruct E as [E1 E2]. apply bool_cmp_eq in E1. apply strs_cmp_eq in E2. congruence.
  - f_equal. auto.
  - f_equal. auto.
  - f_equal. auto.
  - f_equal. revert ts0 E. induction H as [|x r Hx Hr IH]; intros [|y r'] E; try discriminate; [reflexivity|].
    apply lex_eq in E. destruct E as [E1 E2]. f_equal; [apply Hx; exact E1 | apply IH; exact E2].
  - f_equal. revert fs0 E. induction H as [|[k x] r Hx Hr IH]; intros [|[k' y] r'] E; try discriminate; [reflexivity|].
    apply lex_eq in E. destruct E as [E1 E2]. apply lex_eq in E2. destruct E2 as [E2 E3].
    apply pa_str_cmp_eq in E1. simpl in Hx. apply Hx in E2. subst. f_equal. apply IH. exact E3.
  - apply N.compare_eq in E. congruence.
Qed.
Lemma ty_cmp_eq_iff a b : ty_cmp a b = Eq <-> a = b.
Proof. split; [apply ty_cmp_eq | intros ->; apply ty_cmp_refl]. Qed.

Lemma ty_cmp_opp : forall a b, ty_cmp b a = CompOpp (ty_cmp a b).
Proof.
  induction a using ty_ind2; intros b; destruct b; simpl; try reflexivity.
  - apply Nat.compare_antisym.
  - rewrite (bool_cmp_opp o overflow), (strs_cmp_opp ls ls0). apply lex_opp.
  - auto.
  - auto.
  - auto.
  - revert ts0. induction H as [|x r Hx Hr IH]; intros [|y r']; try reflexivity.
    rewrite (Hx y), (IH r'). apply lex_opp.
  - revert fs0. induction H as [|[k x] r Hx Hr IH]; intros [|[k' y] r']; try reflexivity.
    simpl in Hx. rewrite (pa_str_cmp_opp k k'), (Hx y), (IH r'), lex_opp. apply lex_opp.
  - apply N.compare_antisym.
Qed.

Lemma ty_cmp_lt_rank a b : ty_cmp a b = Lt -> ty_rank a <= ty_rank b.
Proof.
  destruct (Nat.eq_dec (ty_rank a) (ty_rank b)) as [E|E]; [lia|].
  rewrite (ty_cmp_rank a b E). intros H. apply Nat.compare_lt_iff in H. lia.
Qed.

Lemma ty_cmp_trans : forall a b c, ty_cmp a b = Lt -> ty_cmp b c = Lt -> ty_cmp a c = Lt.
Proof.
  induction a using ty_ind2; intros b c Hab Hbc;
    pose proof (ty_cmp_lt_rank _ _ Hab) as R1; pose proof (ty_cmp_lt_rank _ _ Hbc) as R2.
  all: match goal with
       | _ : ty_cmp ?a ?b = Lt, _ : ty_cmp ?b ?c = Lt |- ty_cmp ?a ?c = Lt =>
         destruct (Nat.eq_dec (ty_rank a) (ty_rank b)) as [E1|E1];
         [ destruct (Nat.eq_dec (ty_rank b) (ty_rank c)) as [E2|E2];
           [ | rewrite ty_cmp_rank by lia; apply Nat.compare_lt_iff; lia ]
         | rewrite ty_cmp_rank by lia; apply Nat.compare_lt_iff; lia ]
       end.
  all: destruct b; try discriminate E1; destruct c; try discriminate E2; simpl in Hab, Hbc |- *;
       try discriminate Hab; try discriminate Hbc.
  - apply Nat.compare_lt_iff in Hab, Hbc. apply Nat.compare_lt_iff. lia.
  - rewrite lex_lt in *. destruct Hab as [H1|[H1 H2]], Hbc as [G1|[G1 G2]].
    + left. eapply bool_cmp_trans; eassumption.
    + apply bool_cmp_eq in G1. subst. auto.
    + apply bool_cmp_eq in H1. subst. auto.
    + apply bool_cmp_eq in H1. apply bool_cmp_eq in G1. subst. right. split; [destruct overflow0; reflexivity|].
      eapply strs_cmp_trans; eassumption.
  - eauto.
  - eauto.
  - eauto.
  - clear R1 R2 E1 E2. revert ts0 ts1 Hab Hbc.
    induction H as [|x r Hx Hr IH]; intros [|y r'] [|z r''] Hab Hbc; try discriminate; try reflexivity.
    rewrite lex_lt in *. destruct Hab as [H1|[H1 H2]], Hbc as [G1|[G1 G2]].
    + left. eapply Hx; eassumption.
    + apply ty_cmp_eq in G1. subst. auto.
    + apply ty_cmp_eq in H1. subst. auto.
    + apply ty_cmp_eq in H1. apply ty_cmp_eq in G1. subst. right. split; [apply ty_cmp_refl | eapply IH; eassumption].
  - clear R1 R2 E1 E2. revert fs0 fs1 Hab Hbc.
    induction H as [|[k x] r Hx Hr IH]; intros [|[k' y] r'] [|[k'' z] r''] Hab Hbc; try discriminate; try reflexivity.
    simpl in Hx. rewrite !lex_lt in *.
    destruct Hab as [H1|[H1 [H2|[H2 H3]]]], Hbc as [G1|[G1 [G2|[G2 G3]]]];
      try (apply pa_str_cmp_eq in H1; subst k'); try (apply pa_str_cmp_eq in G1; subst k'');
      try (apply ty_cmp_eq in H2; subst y); try (apply ty_cmp_eq in G2; subst z).
    all: try solve [left; eapply pa_str_cmp_trans; eassumption]; try solve [left; assumption].
    all: right; (split; [apply pa_str_cmp_refl|]).
    all: try solve [left; eapply Hx; eassumption]; try solve [left; assumption].
    all: right; split; [apply ty_cmp_refl|]; eapply IH; eassumption.
  - rewrite N.compare_lt_iff in *. eapply N.lt_trans; eassumption.
Qed.

Theorem ty_cmp_total a b : ty_cmp a b = Lt \/ a = b \/ ty_cmp b a = Lt.
Proof.
  destruct (ty_cmp a b) eqn:E; [right; left; apply ty_cmp_eq; exact E | left; reflexivity|].
  right. right. rewrite ty_cmp_opp, E. reflexivity.
Qed.

(* ------------------------------------------------------------------ *)
(* A.3 insertion sort: sorted, a permutation, and canonical             *)
Section Sort.
  Context {A : Type} (cmp : A -> A -> comparison).
  Hypothesis cmp_opp : forall a b, cmp b a = CompOpp (cmp a b).
  Hypothesis le_trans : forall a b c, cmp a b <> Gt -> cmp b c <> Gt -> cmp a c <> Gt.
  Definition cle (a b : A) : Prop := cmp a b <> Gt.
  Inductive ssort : list A -> Prop :=
  | ss_nil : ssort []
  | ss_cons a l : (forall b, In b l -> cle a b) -> ssort l -> ssort (a :: l).

  Lemma insert_by_perm x : forall l, Permutation (insert_by cmp x l) (x :: l).
  Proof.
    induction l as [|y r IH]; simpl; [apply Permutation_refl|].
    destruct (cmp x y); try apply Permutation_refl.
    eapply perm_trans; [apply perm_skip; exact IH | apply perm_swap].
  Qed.
  Lemma insert_by_sorted x : forall l, ssort l -> ssort (insert_by cmp x l).
  Proof.
    induction l as [|y r IH]; intros Hs; simpl.
    - constructor; [intros b []|constructor].
    - inversion Hs as [|y' r' Hy Hr]; subst.
      assert (G : cmp x y <> Gt -> ssort (x :: y :: r)).
      { intros Hxy. constructor; [|exact Hs]. intros b [<-|Hb]; [exact Hxy|]. eapply le_trans; [exact Hxy | apply Hy; exact Hb]. }
      destruct (cmp x y) eqn:E; try (apply G; congruence).
      constructor; [|apply IH; exact Hr].
      intros b Hb. apply (Permutation_in _ (insert_by_perm x r)) in Hb. destruct Hb as [<-|Hb]; [|apply Hy; exact Hb].
      unfold cle. rewrite cmp_opp, E. discriminate.
  Qed.
  Lemma sort_by_perm : forall l, Permutation (sort_by cmp l) l.
  Proof.
    induction l as [|x r IH]; simpl; [constructor|].
    eapply perm_trans; [apply insert_by_perm | apply perm_skip; exact IH].
  Qed.
  Lemma sort_by_sorted : forall l, ssort (sort_by cmp l).
  Proof. induction l as [|x r IH]; simpl; [constructor | apply insert_by_sorted; exact IH]. Qed.
  Lemma ssort_fix : forall l, ssort l -> sort_by cmp l = l.
  Proof.
    induction l as [|x r IH]; intros Hs; [reflexivity|]. inversion Hs as [|x' r' Hx Hr]; subst. simpl. rewrite (IH Hr).
    destruct r as [|y r2]; [reflexivity|]. simpl. specialize (Hx y (or_introl eq_refl)). unfold cle in Hx.
    destruct (cmp x y); try reflexivity. congruence.
  Qed.
  Lemma sort_by_idem l : sort_by cmp (sort_by cmp l) = sort_by cmp l.
  Proof. apply ssort_fix. apply sort_by_sorted. Qed.

  Lemma ssort_unique : forall l l', ssort l -> ssort l' -> Permutation l l' ->
    (forall a b, In a l -> In b l -> cle a b -> cle b a -> a = b) -> l = l'.
  Proof.
    induction l as [|a r IH]; intros l' Hs Hs' Hp Ha.
    - apply Permutation_nil in Hp. subst. reflexivity.
    - destruct l' as [|a' r']; [apply Permutation_sym, Permutation_nil in Hp; discriminate|].
      inversion Hs as [|x1 x2 Hx Hr]; subst. inversion Hs' as [|y1 y2 Hy Hr']; subst.
      assert (a = a') as <-.
      { assert (In a (a' :: r')) as I1 by (apply (Permutation_in _ Hp); left; reflexivity).
        assert (In a' (a :: r)) as I2 by (apply (Permutation_in _ (Permutation_sym Hp)); left; reflexivity).
        destruct I1 as [->|I1]; [reflexivity|]. destruct I2 as [->|I2]; [reflexivity|].
        apply Ha; [left; reflexivity | right; exact I2 | apply Hx; exact I2 | apply Hy; exact I1]. }
      f_equal. apply IH; [exact Hr | exact Hr' | apply Permutation_cons_inv in Hp; exact Hp|].
      intros x y Hx' Hy'. apply Ha; right; assumption.
  Qed.
  Theorem sort_by_perm_eq l l' : Permutation l l' ->
    (forall a b, In a l -> In b l -> cle a b -> cle b a -> a = b) -> sort_by cmp l = sort_by cmp l'.
  Proof.
    intros Hp Ha. apply ssort_unique; try apply sort_by_sorted.
    - eapply perm_trans; [apply sort_by_perm|]. eapply perm_trans; [exact Hp|]. apply Permutation_sym, sort_by_perm.
    - intros a b Ia Ib. apply Ha; apply (Permutation_in _ (sort_by_perm l)); assumption.
  Qed.
End Sort.

Lemma ty_cle_trans a b c : ty_cmp a b <> Gt -> ty_cmp b c <> Gt -> ty_cmp a c <> Gt.
Proof.
  intros H1 H2. destruct (ty_cmp a b) eqn:E1; [apply ty_cmp_eq in E1; subst; exact H2 | | congruence].
  destruct (ty_cmp b c) eqn:E2; [apply ty_cmp_eq in E2; subst; congruence | | congruence].
  rewrite (ty_cmp_trans _ _ _ E1 E2). discriminate.
Qed.
Lemma ty_cle_antisym a b : ty_cmp a b <> Gt -> ty_cmp b a <> Gt -> a = b.
Proof.
  intros H1 H2. rewrite ty_cmp_opp in H2. destruct (ty_cmp a b) eqn:E; [apply ty_cmp_eq; exact E | | congruence].
  simpl in H2. congruence.
Qed.
Theorem sort_ty_perm l l' : Permutation l l' -> sort_by ty_cmp l = sort_by ty_cmp l'.
Proof.
  intros Hp. apply sort_by_perm_eq; [apply ty_cmp_opp | apply ty_cle_trans | exact Hp|].
  intros a b _ _. apply ty_cle_antisym.
Qed.

Definition kcmp (a b : str * ty) : comparison := str_cmp (fst a) (fst b).
Lemma kcmp_opp a b : kcmp b a = CompOpp (kcmp a b).
Proof. apply pa_str_cmp_opp. Qed.
Lemma kcmp_le_trans a b c : kcmp a b <> Gt -> kcmp b c <> Gt -> kcmp a c <> Gt.
Proof.
  unfold kcmp. intros H1 H2. destruct (str_cmp (fst a) (fst b)) eqn:E1; [apply pa_str_cmp_eq in E1; rewrite E1; exact H2 | | congruence].
  destruct (str_cmp (fst b) (fst c)) eqn:E2; [apply pa_str_cmp_eq in E2; rewrite <- E2, E1; discriminate | | congruence].
  rewrite (pa_str_cmp_trans _ _ _ E1 E2). discriminate.
Qed.
Lemma NoDup_fst_inj {A B} (l : list (A * B)) a b : NoDup (map fst l) -> In a l -> In b l -> fst a = fst b -> a = b.
Proof.
  induction l as [|x r IH]; intros Hn Ia Ib E; [destruct Ia|]. simpl in Hn. inversion Hn as [|y s Hy Hs]; subst.
  destruct Ia as [->|Ia], Ib as [->|Ib]; try reflexivity.
  - exfalso. apply Hy. rewrite E. apply in_map. exact Ib.
  - exfalso. apply Hy. rewrite <- E. apply in_map. exact Ia.
  - apply IH; assumption.
Qed.
Theorem sort_flds_perm (l l' : fields) : Permutation l l' -> NoDup (map fst l) -> sort_by kcmp l = sort_by kcmp l'.
Proof.
  intros Hp Hn. apply sort_by_perm_eq; [apply kcmp_opp | apply kcmp_le_trans | exact Hp|].
  intros a b Ia Ib H1 H2. apply (NoDup_fst_inj l); try assumption.
  unfold cle, kcmp in *. rewrite pa_str_cmp_opp in H2. destruct (str_cmp (fst a) (fst b)) eqn:E; [apply pa_str_cmp_eq; exact E | | congruence].
  simpl in H2. congruence.
Qed.

(* ------------------------------------------------------------------ *)
(* A.4 canon and sem_eqb                                                *)
Definition kcanon (kv : str * ty) : str * ty := (fst kv, canon (snd kv)).
Lemma canon_union ts : canon (TUnion ts) = TUnion (sort_by ty_cmp (map canon ts)).
Proof. reflexivity. Qed.
Lemma canon_obj fs : canon (TObj fs) = TObj (sort_by kcmp (map kcanon fs)).
Proof. reflexivity. Qed.

Theorem sem_eqb_iff a b : sem_eqb a b = true <-> canon a = canon b.
Proof. unfold sem_eqb. apply ty_eqb_eq. Qed.
Theorem sem_eqb_refl a : sem_eqb a a = true.
Proof. apply sem_eqb_iff. reflexivity. Qed.
Theorem sem_eqb_sym a b : sem_eqb a b = sem_eqb b a.
Proof.
  destruct (sem_eqb a b) eqn:E1, (sem_eqb b a) eqn:E2; try reflexivity.
  - apply sem_eqb_iff in E1. symmetry in E1. apply sem_eqb_iff in E1. congruence.
  - apply sem_eqb_iff in E2. symmetry in E2. apply sem_eqb_iff in E2. congruence.
Qed.
Theorem sem_eqb_trans a b c : sem_eqb a b = true -> sem_eqb b c = true -> sem_eqb a c = true.
Proof. rewrite !sem_eqb_iff. congruence. Qed.

Theorem canon_idem : forall t, canon (canon t) = canon t.
Proof.
  induction t using ty_ind2; try reflexivity; try (simpl; congruence).
  - rewrite canon_union. rewrite canon_union. f_equal.
    assert (E : map canon (sort_by ty_cmp (map canon ts)) = sort_by ty_cmp (map canon ts)).
    { assert (G : forall x, In x (sort_by ty_cmp (map canon ts)) -> canon x = x).
      { intros x Hx. apply (Permutation_in _ (sort_by_perm ty_cmp (map canon ts))) in Hx.
        apply in_map_iff in Hx. destruct Hx as [y [<- Hy]]. rewrite Forall_forall in H. apply H. exact Hy. }
      induction (sort_by ty_cmp (map canon ts)) as [|x r IH]; [reflexivity|]. simpl.
      rewrite (G x (or_introl eq_refl)), IH; [reflexivity|]. intros y Hy. apply G. right. exact Hy. }
    rewrite E. apply sort_by_idem; [apply ty_cmp_opp | apply ty_cle_trans].
  - rewrite canon_obj. rewrite canon_obj. f_equal.
    assert (E : map kcanon (sort_by kcmp (map kcanon fs)) = sort_by kcmp (map kcanon fs)).
    { assert (G : forall x, In x (sort_by kcmp (map kcanon fs)) -> kcanon x = x).
      { intros x Hx. apply (Permutation_in _ (sort_by_perm kcmp (map kcanon fs))) in Hx.
        apply in_map_iff in Hx. destruct Hx as [y [<- Hy]]. rewrite Forall_forall in H. unfold kcanon. simpl.
        rewrite (H y Hy). reflexivity. }
      induction (sort_by kcmp (map kcanon fs)) as [|x r IH]; [reflexivity|]. simpl.
      rewrite (G x (or_introl eq_refl)), IH; [reflexivity|]. intros y Hy. apply G. right. exact Hy. }
    rewrite E. apply sort_by_idem; [apply kcmp_opp | apply kcmp_le_trans].
Qed.

Theorem canon_union_perm l l' : Permutation (map canon l) (map canon l') -> canon (TUnion l) = canon (TUnion l').
Proof. intros H. rewrite !canon_union. f_equal. apply sort_ty_perm. exact H. Qed.
Corollary canon_union_perm' l l' : Permutation l l' -> canon (TUnion l) = canon (TUnion l').
Proof. intros H. apply canon_union_perm. apply Permutation_map. exact H. Qed.

(* head constructors survive canon *)
Lemma canon_atom t : is_union t = false -> is_obj t = false -> is_list t = false -> is_dict t = false -> is_opt t = false ->
  canon t = t.
Proof. destruct t; simpl; intros; try reflexivity; discriminate. Qed.

(* ------------------------------------------------------------------ *)
(* B.1 sorted string sets are determined by their elements              *)
Lemma pa_In_insert_sorted s x : forall l, In s (insert_sorted x l) <-> s = x \/ In s l.
Proof.
  induction l as [|y r IH]; simpl; [intuition|].
  destruct (str_cmp x y) eqn:E; simpl.
  - apply pa_str_cmp_eq in E. subst. intuition.
  - intuition.
  - rewrite IH. intuition.
Qed.
Lemma pa_In_ins_all : forall l ls s, In s (ins_all l ls) <-> In s l \/ In s ls.
Proof.
  induction l as [|x r IH]; intros ls s; unfold ins_all in *; simpl; [intuition|].
  rewrite IH, pa_In_insert_sorted. intuition.
Qed.
Lemma str_cmp_irrefl' x : str_cmp x x <> Lt.
Proof. rewrite pa_str_cmp_refl. discriminate. Qed.
Lemma ssorted_ext : forall l l', ssorted l -> ssorted l' -> (forall x, In x l <-> In x l') -> l = l'.
Proof.
  induction l as [|x r IH]; intros l' HS HS' HE.
  - destruct l' as [|y r']; [reflexivity|]. exfalso. apply (HE y). left. reflexivity.
  - destruct l' as [|y r']; [exfalso; apply (proj1 (HE x)); left; reflexivity|].
    simpl in HS, HS'. destruct HS as [H1 H2]. destruct HS' as [H1' H2'].
    assert (Exy : x = y).
    { destruct (proj1 (HE x) (or_introl eq_refl)) as [E|Hx]; [symmetry; exact E|].
      destruct (proj2 (HE y) (or_introl eq_refl)) as [E|Hy]; [exact E|].
      exfalso. pose proof (H1 y Hy) as A. pose proof (H1' x Hx) as B. rewrite pa_str_cmp_opp, A in B. discriminate. }
    subst y. f_equal. apply IH; [exact H2 | exact H2'|].
    intros z. split; intros Hz.
    + destruct (proj1 (HE z) (or_intror Hz)) as [E|Hz']; [|exact Hz'].
      subst z. exfalso. apply (str_cmp_irrefl' x). apply H1. exact Hz.
    + destruct (proj2 (HE z) (or_intror Hz)) as [E|Hz']; [|exact Hz'].
      subst z. exfalso. apply (str_cmp_irrefl' x). apply H1'. exact Hz.
Qed.
Lemma ins_all_ext l l' : (forall x, In x l <-> In x l') -> ins_all l [] = ins_all l' [].
Proof.
  intros H. apply ssorted_ext; try (apply ins_all_ssorted; exact I).
  intros x. rewrite !pa_In_ins_all. simpl. rewrite H. tauto.
Qed.

(* ------------------------------------------------------------------ *)
(* B.2 the literal state of DUnion.__init__ in closed form               *)
Definition bad (t : ty) : bool := match t with TStr => true | TLit true _ => true | _ => false end.
Definition lits_of (F : list ty) : list str := flat_map (fun t => match t with TLit false l => l | _ => [] end) F.

Lemma lit_fold_fst : forall F ul ls, fst (fold_left lit_step F (ul, ls)) = ul && negb (existsb bad F).
Proof.
  induction F as [|a F IH]; intros ul ls; simpl; [rewrite andb_true_r; reflexivity|].
  destruct a; simpl; try (rewrite IH; destruct ul; reflexivity).
  destruct ul; simpl; [destruct overflow; simpl|]; rewrite IH; reflexivity.
Qed.
Lemma lit_fold_snd : forall F ls, existsb bad F = false ->
  snd (fold_left lit_step F (true, ls)) = ins_all (lits_of F) ls.
Proof.
  induction F as [|a F IH]; intros ls Hb; [reflexivity|]. simpl in Hb. apply orb_false_iff in Hb. destruct Hb as [Ha Hb].
  destruct a; try discriminate Ha; cbn [fold_left lit_step is_str]; try (rewrite (IH _ Hb); reflexivity).
  destruct overflow; [discriminate Ha|]. cbn [negb]. rewrite (IH _ Hb). unfold lits_of. cbn [flat_map].
  unfold ins_all. rewrite fold_left_app. reflexivity.
Qed.
Lemma mk_ul_eq ts : mk_ul ts = negb (existsb bad (flatten_union ts)).
Proof. unfold mk_ul. rewrite lit_fold_fst. reflexivity. Qed.
Lemma mk_ls_eq ts : mk_ul ts = true -> mk_ls ts = ins_all (lits_of (flatten_union ts)) [].
Proof. rewrite mk_ul_eq, negb_true_iff. intros H. unfold mk_ls. apply lit_fold_snd. exact H. Qed.

(* membership in mk_union, both directions *)
Definition str_cond (ts : list ty) : Prop := mk_ul ts = false \/ (mk_ls ts <> [] /\ lit_overflow (mk_ls ts) = true).
Definition lit_cond (ts : list ty) : Prop := mk_ul ts = true /\ mk_ls ts <> [] /\ lit_overflow (mk_ls ts) = false.
Lemma mk_union_In_iff ts x : In x (mk_union ts) <->
  (In x (flatten_union ts) /\ is_lit x = false) \/ (x = TStr /\ str_cond ts) \/ (x = TLit false (mk_ls ts) /\ lit_cond ts).
Proof.
  unfold str_cond, lit_cond.
  destruct (mk_union_cases ts) as [[E [U L]]|[[E [U [N O]]]|[E C]]]; rewrite E.
  - rewrite mk_u_In. split; [auto|]. intros [H|[[_ [H|[H _]]]|[_ [_ [H _]]]]]; try congruence; auto.
  - rewrite in_app_iff, mk_u_In. simpl. split.
    + intros [H|[<-|[]]]; auto. right. right. auto.
    + intros [H|[[_ [H|[_ H]]]|[-> _]]]; try congruence; auto.
  - rewrite In_add_unique, mk_u_In. split.
    + intros [H| ->]; auto.
    + intros [H|[[-> _]|[_ [H1 [H2 H3]]]]]; auto. destruct C as [C|[_ C]]; congruence.
Qed.

Lemma existsb_same {A} (f : A -> bool) l l' : (forall x, In x l <-> In x l') -> existsb f l = existsb f l'.
Proof.
  intros H. destruct (existsb f l) eqn:E1, (existsb f l') eqn:E2; try reflexivity.
  - apply existsb_exists in E1. destruct E1 as [x [Hx Fx]]. rewrite existsb_false in E2. rewrite (E2 x) in Fx; [discriminate | apply H; exact Hx].
  - apply existsb_exists in E2. destruct E2 as [x [Hx Fx]]. rewrite existsb_false in E1. rewrite (E1 x) in Fx; [discriminate | apply H; exact Hx].
Qed.
Lemma lits_of_same F F' : (forall x, In x F <-> In x F') -> forall s, In s (lits_of F) <-> In s (lits_of F').
Proof.
  intros H s. unfold lits_of. rewrite !in_flat_map. split; intros [x [Hx Hs]]; exists x; (split; [apply H; exact Hx | exact Hs]).
Qed.

Definition same_flat (ts ts' : list ty) : Prop := forall x, In x (flatten_union ts) <-> In x (flatten_union ts').
Lemma same_flat_ul ts ts' : same_flat ts ts' -> mk_ul ts = mk_ul ts'.
Proof. intros H. rewrite !mk_ul_eq. f_equal. apply existsb_same. exact H. Qed.
Lemma same_flat_ls ts ts' : same_flat ts ts' -> mk_ul ts = true -> mk_ls ts = mk_ls ts'.
Proof.
  intros H U. rewrite (mk_ls_eq ts U), (mk_ls_eq ts') by (rewrite <- (same_flat_ul ts ts' H); exact U).
  apply ins_all_ext. apply lits_of_same. exact H.
Qed.
Theorem mk_union_same_set ts ts' : same_flat ts ts' -> forall x, In x (mk_union ts) <-> In x (mk_union ts').
Proof.
  assert (G : forall ts ts', same_flat ts ts' -> forall x, In x (mk_union ts) -> In x (mk_union ts')).
  { intros a b H x. rewrite !mk_union_In_iff. unfold str_cond, lit_cond.
    pose proof (same_flat_ul a b H) as EU.
    intros [[H1 H2]|[[-> H1]|[-> [H1 [H2 H3]]]]].
    - left. split; [apply H; exact H1 | exact H2].
    - right. left. split; [reflexivity|]. destruct H1 as [H1|[H1 H2]]; [left; congruence|].
      destruct (mk_ul a) eqn:U; [|left; congruence]. right. rewrite <- (same_flat_ls a b H U). auto.
    - right. right. rewrite <- (same_flat_ls a b H H1). repeat split; congruence. }
  intros H x. split; apply G; [exact H|]. intros y. symmetry. apply H.
Qed.
Theorem mk_union_perm ts ts' : same_flat ts ts' -> Permutation (mk_union ts) (mk_union ts').
Proof. intros H. apply NoDup_Permutation; [apply mk_union_NoDup | apply mk_union_NoDup | apply mk_union_same_set; exact H]. Qed.

(* (b) *)
Theorem mk_union_set_sem : forall ts ts',
  (forall x, In x (flatten_union ts) <-> In x (flatten_union ts')) ->
  sem_eqb (TUnion (mk_union ts)) (TUnion (mk_union ts')) = true.
Proof. intros ts ts' H. apply sem_eqb_iff. apply canon_union_perm'. apply mk_union_perm. exact H. Qed.
Corollary dunion_set_sem ts ts' : same_flat ts ts' -> sem_eqb (dunion ts) (dunion ts') = true.
Proof. apply mk_union_set_sem. Qed.
Corollary union1_set_sem ts ts' : same_flat ts ts' -> sem_eqb (union1 ts) (union1 ts') = true.
Proof.
  intros H. pose proof (mk_union_perm ts ts' H) as P. unfold union1.
  destruct (mk_union ts) as [|a [|b r]] eqn:E1.
  - apply Permutation_nil in P. rewrite P. apply sem_eqb_refl.
  - apply Permutation_length_1_inv in P. rewrite P. apply sem_eqb_refl.
  - destruct (mk_union ts') as [|a' [|b' r']] eqn:E2.
    + apply Permutation_sym, Permutation_nil in P. discriminate.
    + apply Permutation_length in P. discriminate.
    + apply sem_eqb_iff. apply canon_union_perm'. exact P.
Qed.

(* ------------------------------------------------------------------ *)
(* D. merge_field_sets, key by key (field sets without Optional, distinct keys)                       *)
Definition noopt_fs (fs : fields) : Prop := forall kv, In kv fs -> is_opt (snd kv) = false.
Lemma has_key_lookup {A} k (fs : list (str * A)) : has_key k fs = false <-> lookup k fs = None.
Proof. unfold has_key. destruct (lookup k fs); split; congruence. Qed.

Section MergeKey.
  Variable peq : N -> N -> bool.
  Notation py_eq := (py_eq peq).
  Definition jn0 (fo t : ty) : ty := if py_eq fo t then fo else union1 (members t ++ members fo).
  Definition mf1 (first : bool) (o : option ty) (t : ty) : ty :=
    match o with
    | None => if first then t else TOpt t
    | Some (TOpt c) => TOpt (jn0 c t)
    | Some fo => jn0 fo t
    end.
  Lemma py_eq_opt_nonopt c t : is_opt t = false -> py_eq (TOpt c) t = false.
  Proof. destruct t; simpl; intros H; try reflexivity; discriminate. Qed.

  Lemma merge_field_same first acc name t : is_opt t = false ->
    lookup name (merge_field peq first acc (name, t)) = Some (mf1 first (lookup name acc) t).
  Proof.
    intros Ht. unfold merge_field, mf1. destruct (lookup name acc) as [fo|] eqn:L.
    - assert (G : forall fo0, is_opt fo0 = false -> lookup name acc = Some fo0 ->
        lookup name (if py_eq fo0 t then acc
                     else match t with
                          | TOpt f' => if py_eq fo0 f' then update name t acc else update name (union1 (members t ++ members fo0)) acc
                          | _ => update name (union1 (members t ++ members fo0)) acc
                          end) = Some (jn0 fo0 t)).
      { intros fo0 _ L0. unfold jn0. destruct (py_eq fo0 t); [exact L0|].
        destruct t; try discriminate Ht; apply lookup_update_same. }
      destruct fo; try (apply G; [reflexivity | exact L]).
      rewrite (py_eq_opt_nonopt fo t Ht). cbn [orb]. unfold jn0.
      destruct (py_eq fo t); [exact L | apply lookup_update_same].
    - rewrite Ht, orb_false_r. apply lookup_update_same.
  Qed.

  Lemma fold_merge_lookup first k : forall model acc, keys_nodup model = true -> noopt_fs model ->
    lookup k (fold_left (merge_field peq first) model acc) =
    match lookup k model with None => lookup k acc | Some t => Some (mf1 first (lookup k acc) t) end.
  Proof.
    induction model as [|[k0 t0] r IH]; intros acc Hn Ho; [reflexivity|].
    cbn [keys_nodup] in Hn. apply andb_true_iff in Hn. destruct Hn as [Hk Hn]. apply negb_true_iff in Hk.
    assert (Ho' : noopt_fs r) by (intros kv Hkv; apply Ho; right; exact Hkv).
    assert (Ht0 : is_opt t0 = false) by (apply (Ho (k0, t0)); left; reflexivity).
    cbn [fold_left lookup]. rewrite (IH _ Hn Ho'). destruct (str_eqb k k0) eqn:E.
    - apply str_eqb_true in E. subst k0. apply has_key_lookup in Hk. rewrite Hk.
      apply merge_field_same. exact Ht0.
    - apply str_eqb_false in E. rewrite (merge_field_other peq first acc k0 t0 k E). reflexivity.
  Qed.

  Definition kstep (first : bool) (o m : option ty) : option ty :=
    match m with Some t => Some (mf1 first o t) | None => option_map wrap_opt o end.
  Lemma merge_step_lookup first acc model k : keys_nodup model = true -> noopt_fs model ->
    lookup k (snd (merge_step peq (first, acc) model)) = kstep first (lookup k acc) (lookup k model).
  Proof.
    intros Hn Ho. cbn [merge_step snd].
    pose (h := fun (k0 : str) (v : ty) => if has_key k0 acc && negb (has_key k0 model) then wrap_opt v else v).
    rewrite (map_ext _ (fun kt => (fst kt, h (fst kt) (snd kt)))).
    2:{ intros [k0 v]. unfold h. cbn [fst snd]. destruct (has_key k0 acc && negb (has_key k0 model)); reflexivity. }
    rewrite (lookup_map_vals h), (fold_merge_lookup first k model acc Hn Ho). unfold h, kstep, has_key.
    destruct (lookup k model) as [t|]; cbn [option_map negb andb].
    - rewrite andb_false_r. reflexivity.
    - destruct (lookup k acc); reflexivity.
  Qed.

  Definition good_sets (sets : list fields) : Prop := forall s, In s sets -> keys_nodup s = true /\ noopt_fs s.
  Lemma merge_fold_lookup k : forall r acc, good_sets r ->
    lookup k (snd (fold_left (merge_step peq) r (false, acc))) =
    fold_left (fun o s => kstep false o (lookup k s)) r (lookup k acc).
  Proof.
    induction r as [|s r IH]; intros acc Hg; [reflexivity|]. cbn [fold_left].
    destruct (Hg s (or_introl eq_refl)) as [G1 G2].
    change (merge_step peq (false, acc) s) with (false, snd (merge_step peq (false, acc) s)).
    rewrite IH by (intros x Hx; apply Hg; right; exact Hx). rewrite (merge_step_lookup false acc s k G1 G2). reflexivity.
  Qed.
  Lemma merge_sets_lookup k s1 r : good_sets (s1 :: r) ->
    lookup k (merge_field_sets peq (s1 :: r)) = fold_left (fun o s => kstep false o (lookup k s)) r (lookup k s1).
  Proof.
    intros Hg. unfold merge_field_sets. cbn [fold_left]. destruct (Hg s1 (or_introl eq_refl)) as [G1 G2].
    change (merge_step peq (true, []) s1) with (false, snd (merge_step peq (true, []) s1)).
    rewrite merge_fold_lookup by (intros x Hx; apply Hg; right; exact Hx).
    f_equal. etransitivity; [apply (merge_step_lookup true [] s1 k G1 G2)|].
    cbn [lookup kstep]. destruct (lookup k s1); reflexivity.
  Qed.

  (* the abstract state: (some set lacked the key, join of the types seen) *)
  Definition jstep (cur : option ty) (t : ty) : option ty := Some (match cur with None => t | Some c => jn0 c t end).
  Definition astep (st : bool * option ty) (m : option ty) : bool * option ty :=
    match m with None => (true, snd st) | Some t => (fst st, jstep (snd st) t) end.
  Definition decode (st : bool * option ty) : option ty :=
    match snd st with None => None | Some c => Some (if fst st then TOpt c else c) end.
  Definition ainv (st : bool * option ty) : Prop :=
    (snd st = None -> fst st = true) /\ (forall c, snd st = Some c -> R c = true).

  Lemma jn0_R c t : R c = true -> R t = true -> R (jn0 c t) = true.
  Proof. intros Hc Ht. unfold jn0. destruct (py_eq c t); [exact Hc | apply union1_members_R; assumption]. Qed.
  Lemma astep_inv st m : ainv st -> (forall t, m = Some t -> R t = true) -> ainv (astep st m).
  Proof.
    intros [I1 I2] Hm. destruct st as [mi cur]. destruct m as [t|]; cbn [astep fst snd] in *.
    - split; [discriminate|]. intros c E. unfold jstep in E. inversion E; subst. destruct cur as [c0|]; [|apply Hm; reflexivity].
      apply jn0_R; [apply I2; reflexivity | apply Hm; reflexivity].
    - split; [reflexivity | exact I2].
  Qed.
  Lemma kstep_decode st m : ainv st -> (forall t, m = Some t -> R t = true) ->
    kstep false (decode st) m = decode (astep st m).
  Proof.
    intros [I1 I2] Hm. destruct st as [mi cur]. unfold decode. cbn [fst snd] in *.
    destruct m as [t|]; cbn [kstep astep fst snd jstep].
    - destruct cur as [c|]; cbn [mf1].
      + pose proof (I2 c eq_refl) as Rc. destruct mi; [reflexivity|].
        destruct c; try reflexivity. discriminate Rc.
      + rewrite (I1 eq_refl). reflexivity.
    - destruct cur as [c|]; cbn [option_map]; [|reflexivity].
      pose proof (I2 c eq_refl) as Rc. destruct mi; [reflexivity|]. unfold wrap_opt.
      destruct c; try reflexivity. discriminate Rc.
  Qed.

  Definition good_sets_R (sets : list fields) : Prop := forall s, In s sets -> keys_nodup s = true /\ FS R s.
  Lemma FS_R_noopt s : FS R s -> noopt_fs s.
  Proof. intros H kv Hkv. apply (R_not_opt_ptr _ (H kv Hkv)). Qed.
  Lemma good_sets_R_good sets : good_sets_R sets -> good_sets sets.
  Proof. intros H s Hs. destruct (H s Hs) as [A B]. split; [exact A | apply FS_R_noopt; exact B]. Qed.
  Lemma lookup_FS_R k (s : fields) t : FS R s -> lookup k s = Some t -> R t = true.
  Proof. intros H L. apply Sound.lookup_In in L. apply (H _ L). Qed.

  Lemma fold_kstep_decode k : forall r st, good_sets_R r -> ainv st ->
    fold_left (fun o s => kstep false o (lookup k s)) r (decode st) = decode (fold_left astep (map (lookup k) r) st).
  Proof.
    induction r as [|s r IH]; intros st Hg Hi; [reflexivity|]. cbn [fold_left map].
    destruct (Hg s (or_introl eq_refl)) as [_ G2].
    assert (Hm : forall t, lookup k s = Some t -> R t = true) by (intros t; apply lookup_FS_R; exact G2).
    rewrite (kstep_decode st _ Hi Hm). apply IH; [intros x Hx; apply Hg; right; exact Hx | apply astep_inv; assumption].
  Qed.

  Theorem merge_lookup_decode k sets : good_sets_R sets ->
    lookup k (merge_field_sets peq sets) = decode (fold_left astep (map (lookup k) sets) (false, None)).
  Proof.
    intros Hg. destruct sets as [|s1 r]; [reflexivity|].
    rewrite (merge_sets_lookup k s1 r (good_sets_R_good _ Hg)).
    destruct (Hg s1 (or_introl eq_refl)) as [_ G2].
    assert (Hm : forall t, lookup k s1 = Some t -> R t = true) by (intros t; apply lookup_FS_R; exact G2).
    cbn [map fold_left].
    assert (E : lookup k s1 = decode (astep (false, None) (lookup k s1))) by (destruct (lookup k s1); reflexivity).
    rewrite E at 1. apply fold_kstep_decode; [intros x Hx; apply Hg; right; exact Hx|].
    destruct (lookup k s1) as [t|] eqn:L; split; cbn; try discriminate; try reflexivity.
    intros c Ec. inversion Ec; subst. apply Hm. reflexivity.
  Qed.
End MergeKey.

(* closed form of one key of the merged field set *)
Definition somes {A} (ms : list (option A)) : list A := flat_map (fun m => match m with Some t => [t] | None => [] end) ms.
Definition tys_of (k : str) (sets : list fields) : list ty := somes (map (lookup k) sets).
Definition miss (k : str) (sets : list fields) : bool := existsb (fun s => negb (has_key k s)) sets.
Definition fold_jn (peq : N -> N -> bool) (l : list ty) : option ty :=
  match l with [] => None | a :: r => Some (fold_left (jn0 peq) r a) end.

Lemma astep_split peq : forall ms mi cur,
  fold_left (astep peq) ms (mi, cur) =
  (mi || existsb (fun m => match m with None => true | Some _ => false end) ms, fold_left (jstep peq) (somes ms) cur).
Proof.
  induction ms as [|m ms IH]; intros mi cur; [cbn; rewrite orb_false_r; reflexivity|].
  cbn [fold_left]. destruct m as [t|]; cbn [astep fst snd]; rewrite IH; cbn [somes flat_map existsb app orb].
  - reflexivity.
  - rewrite orb_true_r. reflexivity.
Qed.
Lemma fold_jstep_some peq : forall l c, fold_left (jstep peq) l (Some c) = Some (fold_left (jn0 peq) l c).
Proof. induction l as [|t l IH]; intros c; [reflexivity|]. cbn [fold_left jstep]. apply IH. Qed.
Lemma fold_jstep_none peq l : fold_left (jstep peq) l None = fold_jn peq l.
Proof. destruct l as [|a r]; [reflexivity|]. cbn [fold_left jstep fold_jn]. apply fold_jstep_some. Qed.

Theorem merge_lookup_spec peq k sets : good_sets_R sets ->
  lookup k (merge_field_sets peq sets) =
  match fold_jn peq (tys_of k sets) with None => None | Some c => Some (if miss k sets then TOpt c else c) end.
Proof.
  intros Hg. rewrite (merge_lookup_decode peq k sets Hg), astep_split, fold_jstep_none. unfold decode. cbn [fst snd orb].
  unfold miss. replace (existsb (fun m : option ty => match m with None => true | Some _ => false end) (map (lookup k) sets))
    with (existsb (fun s : fields => negb (has_key k s)) sets); [reflexivity|].
  induction sets as [|s r IH]; [reflexivity|]. cbn [map existsb]. rewrite IH by (intros x Hx; apply Hg; right; exact Hx).
  unfold has_key. destruct (lookup k s); reflexivity.
Qed.

Lemma tys_of_In k sets t : In t (tys_of k sets) <-> exists s, In s sets /\ lookup k s = Some t.
Proof.
  unfold tys_of, somes. rewrite in_flat_map. split.
  - intros [m [Hm Ht]]. apply in_map_iff in Hm. destruct Hm as [s [<- Hs]]. exists s. split; [exact Hs|].
    destruct (lookup k s); [destruct Ht as [->|[]]; reflexivity | destruct Ht].
  - intros [s [Hs L]]. exists (lookup k s). split; [apply in_map; exact Hs | rewrite L; left; reflexivity].
Qed.
Lemma tys_of_R k sets : good_sets_R sets -> forall t, In t (tys_of k sets) -> R t = true.
Proof. intros Hg t Ht. apply tys_of_In in Ht. destruct Ht as [s [Hs L]]. apply (lookup_FS_R k s t); [apply Hg; exact Hs | exact L]. Qed.
Lemma fold_jn0_R peq : forall r a, R a = true -> (forall t, In t r -> R t = true) -> R (fold_left (jn0 peq) r a) = true.
Proof.
  induction r as [|t r IH]; intros a Ha Hr; [exact Ha|]. cbn [fold_left]. apply IH.
  - apply jn0_R; [exact Ha | apply Hr; left; reflexivity].
  - intros x Hx. apply Hr. right. exact Hx.
Qed.

(* (c) the key set and the required/optional status of every key depend only on the SET of field sets *)
Theorem merge_has_key peq k sets : good_sets_R sets ->
  has_key k (merge_field_sets peq sets) = existsb (has_key k) sets.
Proof.
  intros Hg. unfold has_key at 1. rewrite (merge_lookup_spec peq k sets Hg).
  assert (E : existsb (has_key k) sets = match tys_of k sets with [] => false | _ => true end).
  { unfold tys_of, somes. clear Hg. induction sets as [|s r IH]; [reflexivity|]. cbn [existsb map flat_map]. rewrite IH.
    unfold has_key. destruct (lookup k s); reflexivity. }
  rewrite E. destruct (tys_of k sets); reflexivity.
Qed.
Theorem merge_status peq k sets v : good_sets_R sets ->
  lookup k (merge_field_sets peq sets) = Some v -> is_opt v = miss k sets.
Proof.
  intros Hg. rewrite (merge_lookup_spec peq k sets Hg).
  destruct (tys_of k sets) as [|a r] eqn:E; [discriminate|]. cbn [fold_jn]. intros H. inversion H; subst v.
  destruct (miss k sets); [reflexivity|].
  assert (Rr : R (fold_left (jn0 peq) r a) = true).
  { apply fold_jn0_R; [|intros t Ht]; apply (tys_of_R k sets Hg); rewrite E; [left; reflexivity | right; exact Ht]. }
  apply (R_not_opt_ptr _ Rr).
Qed.
Theorem merge_keys_status_set peq sets sets' : good_sets_R sets -> good_sets_R sets' ->
  (forall s, In s sets <-> In s sets') ->
  forall k, has_key k (merge_field_sets peq sets) = has_key k (merge_field_sets peq sets') /\
            forall v v', lookup k (merge_field_sets peq sets) = Some v -> lookup k (merge_field_sets peq sets') = Some v' ->
                         is_opt v = is_opt v'.
Proof.
  intros Hg Hg' Hs k. split.
  - rewrite !merge_has_key by assumption. apply existsb_same. exact Hs.
  - intros v v' L L'. rewrite (merge_status peq k sets v Hg L), (merge_status peq k sets' v' Hg' L').
    apply existsb_same. exact Hs.
Qed.

(* ------------------------------------------------------------------ *)
(* C. equivalence of raw terms up to member order, multiplicity and field order                          *)
Definition nmem (t : ty) : list ty := mk_union [t].

Inductive meq : ty -> ty -> Prop :=
| meq_refl x : meq x x
| meq_list x y :
    (forall m, In m (nmem x) -> exists m', In m' (nmem y) /\ meq m m') ->
    (forall m, In m (nmem y) -> exists m', In m' (nmem x) /\ meq m m') -> meq (TList x) (TList y)
| meq_dict x y :
    (forall m, In m (nmem x) -> exists m', In m' (nmem y) /\ meq m m') ->
    (forall m, In m (nmem y) -> exists m', In m' (nmem x) /\ meq m m') -> meq (TDict x) (TDict y)
| meq_obj F G :
    (forall k, (lookup k F = None /\ lookup k G = None) \/
               exists a b, lookup k F = Some a /\ lookup k G = Some b /\
                 (forall m, In m (nmem a) -> exists m', In m' (nmem b) /\ meq m m') /\
                 (forall m, In m (nmem b) -> exists m', In m' (nmem a) /\ meq m m')) -> meq (TObj F) (TObj G).

Definition subm (X Y : list ty) : Prop := forall m, In m X -> exists m', In m' Y /\ meq m m'.
Definition leq (X Y : list ty) : Prop := subm X Y /\ subm Y X.
Definition teq (a b : ty) : Prop := leq (nmem a) (nmem b).
Definition orel (F G : fields) : Prop :=
  forall k, (lookup k F = None /\ lookup k G = None) \/
            exists a b, lookup k F = Some a /\ lookup k G = Some b /\ teq a b.

Lemma meq_list' x y : teq x y -> meq (TList x) (TList y).
Proof. intros [A B]. apply meq_list; assumption. Qed.
Lemma meq_dict' x y : teq x y -> meq (TDict x) (TDict y).
Proof. intros [A B]. apply meq_dict; assumption. Qed.
Lemma meq_obj' F G : orel F G -> meq (TObj F) (TObj G).
Proof.
  intros H. apply meq_obj. intros k. destruct (H k) as [H1|[a [b [La [Lb [A B]]]]]]; [left; exact H1|].
  right. exists a, b. auto.
Qed.

Lemma subm_refl X : subm X X.
Proof. intros m Hm. exists m. split; [exact Hm | apply meq_refl]. Qed.
Lemma leq_refl X : leq X X.
Proof. split; apply subm_refl. Qed.
Lemma leq_sym X Y : leq X Y -> leq Y X.
Proof. intros [A B]. split; assumption. Qed.
Lemma teq_refl a : teq a a.
Proof. apply leq_refl. Qed.
Lemma teq_sym a b : teq a b -> teq b a.
Proof. apply leq_sym. Qed.

Lemma meq_sym x y : meq x y -> meq y x.
Proof.
  intros H. destruct H as [x|x y A B|x y A B|F G H].
  - apply meq_refl.
  - apply meq_list; assumption.
  - apply meq_dict; assumption.
  - apply meq_obj. intros k. destruct (H k) as [[H1 H2]|[a [b [La [Lb [A B]]]]]]; [left; auto|].
    right. exists b, a. auto.
Qed.

Lemma meq_inv x y : meq x y ->
  x = y \/ (exists a b, x = TList a /\ y = TList b /\ teq a b) \/ (exists a b, x = TDict a /\ y = TDict b /\ teq a b)
  \/ (exists F G, x = TObj F /\ y = TObj G /\ orel F G).
Proof.
  intros H. destruct H as [x|x y A B|x y A B|F G H].
  - left. reflexivity.
  - right. left. exists x, y. repeat split; assumption.
  - right. right. left. exists x, y. repeat split; assumption.
  - right. right. right. exists F, G. repeat split. intros k.
    destruct (H k) as [H1|[a [b [La [Lb [A B]]]]]]; [left; exact H1|]. right. exists a, b. repeat split; assumption.
Qed.

Lemma meq_trans_gen : forall x y, meq x y -> (forall z, meq y z -> meq x z) /\ (forall z, meq z x -> meq z y).
Proof.
  fix IH 3. intros x y H. destruct H as [x|x y A B|x y A B|F G H].
  - split; auto.
  - assert (T1 : forall c, subm (nmem y) (nmem c) -> subm (nmem x) (nmem c)).
    { intros c Hc m Hm. destruct (A m Hm) as [m' [Hm' D]]. destruct (Hc m' Hm') as [m'' [Hm'' D2]].
      exists m''. split; [exact Hm''|]. exact (proj1 (IH m m' D) m'' D2). }
    assert (T2 : forall c, subm (nmem c) (nmem y) -> subm (nmem c) (nmem x)).
    { intros c Hc m'' Hm''. destruct (Hc m'' Hm'') as [m' [Hm' D2]]. destruct (B m' Hm') as [m [Hm D]].
      exists m. split; [exact Hm|]. exact (proj2 (IH m' m D) m'' D2). }
    assert (T3 : forall c, subm (nmem c) (nmem x) -> subm (nmem c) (nmem y)).
    { intros c Hc m'' Hm''. destruct (Hc m'' Hm'') as [m [Hm D2]]. destruct (A m Hm) as [m' [Hm' D]].
      exists m'. split; [exact Hm'|]. exact (proj2 (IH m m' D) m'' D2). }
    assert (T4 : forall c, subm (nmem x) (nmem c) -> subm (nmem y) (nmem c)).
    { intros c Hc m' Hm'. destruct (B m' Hm') as [m [Hm D]]. destruct (Hc m Hm) as [m'' [Hm'' D2]].
      exists m''. split; [exact Hm''|]. exact (proj1 (IH m' m D) m'' D2). }
    split; intros z Hz; apply meq_inv in Hz; destruct Hz as [E|[[a [b [E1 [E2 [C1 C2]]]]]|[[a [b [E1 [E2 _]]]]|[a [b [E1 [E2 _]]]]]]];
      try discriminate; try (subst; apply meq_list; assumption).
    + inversion E1; subst. apply meq_list; [apply T1; exact C1 | apply T2; exact C2].
    + inversion E2; subst. apply meq_list; [apply T3; exact C1 | apply T4; exact C2].
  - assert (T1 : forall c, subm (nmem y) (nmem c) -> subm (nmem x) (nmem c)).
    { intros c Hc m Hm. destruct (A m Hm) as [m' [Hm' D]]. destruct (Hc m' Hm') as [m'' [Hm'' D2]].
      exists m''. split; [exact Hm''|]. exact (proj1 (IH m m' D) m'' D2). }
    assert (T2 : forall c, subm (nmem c) (nmem y) -> subm (nmem c) (nmem x)).
    { intros c Hc m'' Hm''. destruct (Hc m'' Hm'') as [m' [Hm' D2]]. destruct (B m' Hm') as [m [Hm D]].
      exists m. split; [exact Hm|]. exact (proj2 (IH m' m D) m'' D2). }
    assert (T3 : forall c, subm (nmem c) (nmem x) -> subm (nmem c) (nmem y)).
    { intros c Hc m'' Hm''. destruct (Hc m'' Hm'') as [m [Hm D2]]. destruct (A m Hm) as [m' [Hm' D]].
      exists m'. split; [exact Hm'|]. exact (proj2 (IH m m' D) m'' D2). }
    assert (T4 : forall c, subm (nmem x) (nmem c) -> subm (nmem y) (nmem c)).
    { intros c Hc m' Hm'. destruct (B m' Hm') as [m [Hm D]]. destruct (Hc m Hm) as [m'' [Hm'' D2]].
      exists m''. split; [exact Hm''|]. exact (proj1 (IH m' m D) m'' D2). }
    split; intros z Hz; apply meq_inv in Hz; destruct Hz as [E|[[a [b [E1 [E2 _]]]]|[[a [b [E1 [E2 [C1 C2]]]]]|[a [b [E1 [E2 _]]]]]]];
      try discriminate; try (subst; apply meq_dict; assumption).
    + inversion E1; subst. apply meq_dict; [apply T1; exact C1 | apply T2; exact C2].
    + inversion E2; subst. apply meq_dict; [apply T3; exact C1 | apply T4; exact C2].
  - split; intros z Hz; apply meq_inv in Hz; destruct Hz as [E|[[a [b [E1 [E2 _]]]]|[[a [b [E1 [E2 _]]]]|[F2 [G2 [E1 [E2 C]]]]]]];
      try discriminate; try (subst; apply meq_obj; assumption).
    + inversion E1; subst F2. subst z. apply meq_obj. intros k.
      destruct (H k) as [[H1 H2]|[a [b [La [Lb [A B]]]]]]; destruct (C k) as [[C1 C2]|[a' [b' [La' [Lb' [A' B']]]]]]; try congruence.
      * left. auto.
      * rewrite Lb in La'. inversion La'; subst a'. right. exists a, b'. repeat split; try assumption.
        -- intros m Hm. destruct (A m Hm) as [m' [Hm' D]]. destruct (A' m' Hm') as [m'' [Hm'' D2]].
           exists m''. split; [exact Hm''|]. exact (proj1 (IH m m' D) m'' D2).
        -- intros m'' Hm''. destruct (B' m'' Hm'') as [m' [Hm' D2]]. destruct (B m' Hm') as [m [Hm D]].
           exists m. split; [exact Hm|]. exact (proj2 (IH m' m D) m'' D2).
    + inversion E2; subst G2. subst z. apply meq_obj. intros k.
      destruct (H k) as [[H1 H2]|[a [b [La [Lb [A B]]]]]]; destruct (C k) as [[C1 C2]|[a' [b' [La' [Lb' [A' B']]]]]]; try congruence.
      * left. auto.
      * rewrite La in Lb'. inversion Lb'; subst b'. right. exists a', b. repeat split; try assumption.
        -- intros m'' Hm''. destruct (A' m'' Hm'') as [m [Hm D2]]. destruct (A m Hm) as [m' [Hm' D]].
           exists m'. split; [exact Hm'|]. exact (proj2 (IH m m' D) m'' D2).
        -- intros m' Hm'. destruct (B m' Hm') as [m [Hm D]]. destruct (B' m Hm) as [m'' [Hm'' D2]].
           exists m''. split; [exact Hm''|]. exact (proj1 (IH m' m D) m'' D2).
Qed.
Lemma meq_trans x y z : meq x y -> meq y z -> meq x z.
Proof. intros H1 H2. exact (proj1 (meq_trans_gen x y H1) z H2). Qed.
Lemma subm_trans X Y Z : subm X Y -> subm Y Z -> subm X Z.
Proof.
  intros A B m Hm. destruct (A m Hm) as [m' [Hm' D]]. destruct (B m' Hm') as [m'' [Hm'' D2]].
  exists m''. split; [exact Hm'' | eapply meq_trans; eassumption].
Qed.
Lemma leq_trans X Y Z : leq X Y -> leq Y Z -> leq X Z.
Proof. intros [A B] [C D]. split; eapply subm_trans; eassumption. Qed.
Lemma teq_trans a b c : teq a b -> teq b c -> teq a c.
Proof. apply leq_trans. Qed.

(* ------------------------------------------------------------------ *)
(* C.2 mk_union on flat lists: congruence for leq, absorption                                            *)
Definition flatl (X : list ty) : Prop := forall x, In x X -> is_union x = false.
Definition seteq (X Y : list ty) : Prop := forall x, In x X <-> In x Y.
Lemma seteq_refl X : seteq X X. Proof. intros x; tauto. Qed.
Lemma seteq_sym X Y : seteq X Y -> seteq Y X. Proof. intros H x; symmetry; apply H. Qed.
Lemma seteq_trans X Y Z : seteq X Y -> seteq Y Z -> seteq X Z. Proof. intros A B x. rewrite (A x). apply B. Qed.
Lemma seteq_leq X Y : seteq X Y -> leq X Y.
Proof. intros H. split; intros m Hm; exists m; (split; [apply H; exact Hm | apply meq_refl]). Qed.
Lemma seteq_app X X' Y Y' : seteq X X' -> seteq Y Y' -> seteq (X ++ Y) (X' ++ Y').
Proof. intros A B x. rewrite !in_app_iff, (A x), (B x). tauto. Qed.
Lemma seteq_app_comm X Y : seteq (X ++ Y) (Y ++ X).
Proof. intros x. rewrite !in_app_iff. tauto. Qed.
Lemma flatl_mk_union X : flatl (mk_union X).
Proof. intros x. apply mk_union_no_union. Qed.
Lemma flatl_app X Y : flatl X -> flatl Y -> flatl (X ++ Y).
Proof. intros A B x Hx. apply in_app_iff in Hx. destruct Hx; auto. Qed.
Lemma flatl_seteq X Y : seteq X Y -> flatl X -> flatl Y.
Proof. intros H A x Hx. apply A. apply H. exact Hx. Qed.
Lemma flatl_flatten X : flatl X -> flatten_union X = X.
Proof. apply flatten_flat. Qed.

Lemma ul_ls_gen X Y : existsb bad (flatten_union X) = existsb bad (flatten_union Y) ->
  (forall s, In s (lits_of (flatten_union X)) <-> In s (lits_of (flatten_union Y))) ->
  mk_ul X = mk_ul Y /\ (mk_ul X = true -> mk_ls X = mk_ls Y).
Proof.
  intros Hb Hl. assert (E : mk_ul X = mk_ul Y) by (rewrite !mk_ul_eq, Hb; reflexivity).
  split; [exact E|]. intros U. rewrite (mk_ls_eq X U), (mk_ls_eq Y) by congruence. apply ins_all_ext. exact Hl.
Qed.
Lemma mk_union_same_gen X Y :
  (forall x, is_lit x = false -> (In x (flatten_union X) <-> In x (flatten_union Y))) ->
  existsb bad (flatten_union X) = existsb bad (flatten_union Y) ->
  (forall s, In s (lits_of (flatten_union X)) <-> In s (lits_of (flatten_union Y))) ->
  seteq (mk_union X) (mk_union Y).
Proof.
  assert (G : forall X Y, (forall x, is_lit x = false -> (In x (flatten_union X) <-> In x (flatten_union Y))) ->
    existsb bad (flatten_union X) = existsb bad (flatten_union Y) ->
    (forall s, In s (lits_of (flatten_union X)) <-> In s (lits_of (flatten_union Y))) ->
    forall x, In x (mk_union X) -> In x (mk_union Y)).
  { clear X Y. intros X Y Hn Hb Hl x. destruct (ul_ls_gen X Y Hb Hl) as [EU EL].
    rewrite !mk_union_In_iff. unfold str_cond, lit_cond.
    intros [[H1 H2]|[[-> H1]|[-> [H1 [H2 H3]]]]].
    - left. split; [apply (Hn x H2); exact H1 | exact H2].
    - right. left. split; [reflexivity|]. destruct H1 as [H1|[H1 H2]]; [left; congruence|].
      destruct (mk_ul X) eqn:U; [|left; congruence]. right. rewrite <- (EL eq_refl). auto.
    - right. right. rewrite <- (EL H1). repeat split; congruence. }
  intros Hn Hb Hl x. split; apply G; auto.
  - intros y Hy. symmetry. apply Hn. exact Hy.
  - intros s. symmetry. apply Hl.
Qed.

(* what meq preserves *)
Lemma meq_bad x y : meq x y -> bad x = bad y.
Proof. intros H. apply meq_inv in H. destruct H as [->|[[a [b [-> [-> _]]]]|[[a [b [-> [-> _]]]]|[a [b [-> [-> _]]]]]]]; reflexivity. Qed.
Lemma meq_is_lit x y : meq x y -> is_lit x = is_lit y.
Proof. intros H. apply meq_inv in H. destruct H as [->|[[a [b [-> [-> _]]]]|[[a [b [-> [-> _]]]]|[a [b [-> [-> _]]]]]]]; reflexivity. Qed.
Lemma meq_is_union x y : meq x y -> is_union x = is_union y.
Proof. intros H. apply meq_inv in H. destruct H as [->|[[a [b [-> [-> _]]]]|[[a [b [-> [-> _]]]]|[a [b [-> [-> _]]]]]]]; reflexivity. Qed.
Lemma meq_atom x y : meq x y -> is_list x = false -> is_dict x = false -> is_obj x = false -> x = y.
Proof.
  intros H. apply meq_inv in H. destruct H as [->|[[a [b [-> [-> _]]]]|[[a [b [-> [-> _]]]]|[a [b [-> [-> _]]]]]]]; simpl; intros; try reflexivity; discriminate.
Qed.
Lemma meq_lit_eq x y : meq x y -> is_lit x = true -> x = y.
Proof. intros H L. apply (meq_atom x y H); destruct x; try discriminate; reflexivity. Qed.

Lemma subm_existsb f X Y : (forall m m', meq m m' -> f m = f m') -> subm X Y -> existsb f X = true -> existsb f Y = true.
Proof.
  intros Hf Hs E. apply existsb_exists in E. destruct E as [x [Hx Fx]]. destruct (Hs x Hx) as [y [Hy D]].
  apply existsb_exists. exists y. split; [exact Hy | rewrite <- (Hf x y D); exact Fx].
Qed.
Lemma leq_existsb f X Y : (forall m m', meq m m' -> f m = f m') -> leq X Y -> existsb f X = existsb f Y.
Proof.
  intros Hf [A B]. destruct (existsb f X) eqn:E1, (existsb f Y) eqn:E2; try reflexivity.
  - rewrite (subm_existsb f X Y Hf A E1) in E2. discriminate.
  - rewrite (subm_existsb f Y X Hf B E2) in E1. discriminate.
Qed.
Lemma subm_lits X Y : subm X Y -> forall s, In s (lits_of X) -> In s (lits_of Y).
Proof.
  intros Hs s. unfold lits_of. rewrite !in_flat_map. intros [x [Hx Hi]]. destruct (Hs x Hx) as [y [Hy D]].
  destruct x; try destruct Hi. destruct overflow; [destruct Hi|]. apply meq_lit_eq in D; [|reflexivity]. subst y.
  eexists. split; [exact Hy | exact Hi].
Qed.

Lemma J_cong X Y : flatl X -> flatl Y -> leq X Y -> leq (mk_union X) (mk_union Y).
Proof.
  assert (G : forall X Y, flatl X -> flatl Y -> leq X Y -> subm (mk_union X) (mk_union Y)).
  { clear X Y. intros X Y FX FY L x. pose proof L as [A B].
    assert (Hb : existsb bad (flatten_union X) = existsb bad (flatten_union Y)).
    { rewrite (flatl_flatten X FX), (flatl_flatten Y FY). apply leq_existsb; [apply meq_bad | exact L]. }
    assert (Hl : forall s, In s (lits_of (flatten_union X)) <-> In s (lits_of (flatten_union Y))).
    { rewrite (flatl_flatten X FX), (flatl_flatten Y FY). intros s. split; apply subm_lits; assumption. }
    destruct (ul_ls_gen X Y Hb Hl) as [EU EL].
    rewrite mk_union_In_iff. unfold str_cond, lit_cond. rewrite (flatl_flatten X FX).
    intros [[H1 H2]|[[-> H1]|[-> [H1 [H2 H3]]]]].
    - destruct (A x H1) as [y [Hy D]]. exists y. split; [|exact D]. apply mk_union_In_iff. left.
      rewrite (flatl_flatten Y FY). split; [exact Hy | rewrite <- (meq_is_lit x y D); exact H2].
    - exists TStr. split; [|apply meq_refl]. apply mk_union_In_iff. right. left. split; [reflexivity|]. unfold str_cond.
      destruct H1 as [H1|[H1 H2]]; [left; congruence|].
      destruct (mk_ul X) eqn:U; [|left; congruence]. right. rewrite <- (EL eq_refl). auto.
    - exists (TLit false (mk_ls X)). split; [|apply meq_refl]. apply mk_union_In_iff. right. right. unfold lit_cond.
      rewrite <- (EL H1). repeat split; congruence. }
  intros FX FY L. split; apply G; auto. apply leq_sym. exact L.
Qed.

(* absorption *)
Lemma ssorted_NoDup : forall l, ssorted l -> NoDup l.
Proof.
  induction l as [|x r IH]; simpl; intros H; [constructor|]. destruct H as [H1 H2]. constructor; [|apply IH; exact H2].
  intros Hx. apply (str_cmp_irrefl' x). apply H1. exact Hx.
Qed.
Lemma mk_ls_ssorted X : ssorted (mk_ls X).
Proof. unfold mk_ls. apply lit_fold_ssorted. exact I. Qed.
Lemma lits_of_app X Y : lits_of (X ++ Y) = lits_of X ++ lits_of Y.
Proof. unfold lits_of. apply flat_map_app. Qed.
Lemma mk_ul_app X Y : mk_ul (X ++ Y) = mk_ul X && mk_ul Y.
Proof. rewrite !mk_ul_eq, flatten_app, existsb_app, negb_orb. reflexivity. Qed.
Lemma mk_ls_In X s : mk_ul X = true -> (In s (mk_ls X) <-> In s (lits_of (flatten_union X))).
Proof. intros U. rewrite (mk_ls_eq X U), pa_In_ins_all. simpl. tauto. Qed.

Lemma str_cond_mono A B : str_cond A -> str_cond (A ++ B).
Proof.
  unfold str_cond. rewrite mk_ul_app. intros [H|[H1 H2]]; [left; rewrite H; reflexivity|].
  destruct (mk_ul A) eqn:UA; [|left; reflexivity]. destruct (mk_ul B) eqn:UB; [|left; reflexivity]. right.
  assert (UAB : mk_ul (A ++ B) = true) by (rewrite mk_ul_app, UA, UB; reflexivity).
  assert (I : incl (mk_ls A) (mk_ls (A ++ B))).
  { intros s Hs. apply (mk_ls_In A s UA) in Hs. apply (mk_ls_In (A ++ B) s UAB).
    rewrite flatten_app, lits_of_app. apply in_app_iff. left. exact Hs. }
  split.
  - destruct (mk_ls A) as [|s0 r0] eqn:E; [congruence|]. intros E2. pose proof (I s0 (or_introl eq_refl)) as Hi. rewrite E2 in Hi. destruct Hi.
  - destruct (lit_overflow (mk_ls (A ++ B))) eqn:O; [reflexivity|].
    rewrite (lit_overflow_mono (mk_ls A) (mk_ls (A ++ B))) in H2; [discriminate | | exact I | exact O].
    apply NoDup_incl_length; [apply ssorted_NoDup, mk_ls_ssorted | exact I].
Qed.

Lemma str_lit_excl X : str_cond X -> lit_cond X -> False.
Proof. unfold str_cond, lit_cond. intros [H|[H1 H2]] [G1 [G2 G3]]; congruence. Qed.
Lemma str_or_not X : str_cond X \/ (mk_ul X = true /\ (mk_ls X = [] \/ lit_cond X)).
Proof.
  unfold str_cond, lit_cond. destruct (mk_ul X); [|left; left; reflexivity].
  destruct (mk_ls X) as [|s r] eqn:E; [right; split; [reflexivity | left; reflexivity]|].
  destruct (lit_overflow (s :: r)) eqn:O; [left; right; split; [discriminate | reflexivity]|].
  right. split; [reflexivity|]. right. repeat split; congruence.
Qed.
Lemma J_nonlit_In A x : flatl A -> is_lit x = false -> (In x (mk_union A) <-> In x A \/ (x = TStr /\ str_cond A)).
Proof.
  intros FA L. rewrite mk_union_In_iff, (flatl_flatten A FA). split.
  - intros [[H _]|[H|[-> _]]]; [left; exact H | right; exact H | discriminate L].
  - intros [H|H]; [left; auto | right; left; exact H].
Qed.
Lemma J_lit_In A x : flatl A -> is_lit x = true -> (In x (mk_union A) <-> x = TLit false (mk_ls A) /\ lit_cond A).
Proof.
  intros FA L. rewrite mk_union_In_iff, (flatl_flatten A FA). split.
  - intros [[_ H]|[[-> _]|H]]; [congruence | discriminate L | exact H].
  - intros H. right. right. exact H.
Qed.

Theorem J_absorb A B : flatl A -> flatl B -> seteq (mk_union (mk_union A ++ B)) (mk_union (A ++ B)).
Proof.
  intros FA FB.
  assert (FX : flatl (mk_union A ++ B)) by (apply flatl_app; [apply flatl_mk_union | exact FB]).
  assert (FY : flatl (A ++ B)) by (apply flatl_app; assumption).
  destruct (str_or_not A) as [SC|[UA NC]].
  - (* the left part already degenerates to str *)
    assert (TS : In TStr (mk_union A)) by (apply (J_nonlit_In A TStr FA eq_refl); right; auto).
    assert (SX : str_cond (mk_union A ++ B)).
    { left. rewrite mk_ul_eq, (flatl_flatten _ FX). apply negb_false_iff. apply existsb_exists. exists TStr. split; [|reflexivity].
      apply in_app_iff. left. exact TS. }
    pose proof (str_cond_mono A B SC) as SY.
    intros x. destruct (is_lit x) eqn:L.
    + rewrite (J_lit_In _ x FX L), (J_lit_In _ x FY L). split; intros [_ H]; exfalso; [apply (str_lit_excl _ SX H) | apply (str_lit_excl _ SY H)].
    + rewrite (J_nonlit_In _ x FX L), (J_nonlit_In _ x FY L), !in_app_iff, (J_nonlit_In A x FA L). tauto.
  - assert (NS : ~ str_cond A) by (intros SC; destruct NC as [E|LC]; [|eapply str_lit_excl; eassumption];
      destruct SC as [H|[H _]]; congruence).
    assert (BA : existsb bad A = false).
    { rewrite mk_ul_eq, (flatl_flatten A FA) in UA. apply negb_true_iff in UA. exact UA. }
    apply mk_union_same_gen; rewrite (flatl_flatten _ FX), (flatl_flatten _ FY).
    + intros x L. rewrite !in_app_iff, (J_nonlit_In A x FA L). tauto.
    + rewrite !existsb_app. f_equal. rewrite BA. apply existsb_false. intros x Hx.
      destruct (is_lit x) eqn:L.
      * apply (J_lit_In A x FA L) in Hx. destruct Hx as [-> _]. reflexivity.
      * apply (J_nonlit_In A x FA L) in Hx. destruct Hx as [Hx|[_ Hx]]; [|contradiction].
        rewrite existsb_false in BA. apply BA. exact Hx.
    + intros s. rewrite !lits_of_app, !in_app_iff.
      assert (E : In s (lits_of (mk_union A)) <-> In s (lits_of A)).
      { rewrite <- (flatl_flatten A FA) at 2. rewrite <- (mk_ls_In A s UA). unfold lits_of. rewrite in_flat_map. split.
        - intros [x [Hx Hs]]. destruct x; try destruct Hs. destruct overflow; [destruct Hs|].
          apply (J_lit_In A (TLit false ls) FA eq_refl) in Hx. destruct Hx as [Hx _]. inversion Hx; subst. exact Hs.
        - intros Hs. destruct NC as [E|LC]; [rewrite E in Hs; destruct Hs|].
          exists (TLit false (mk_ls A)). split; [|exact Hs]. apply (J_lit_In A (TLit false (mk_ls A)) FA eq_refl). auto. }
      rewrite E. tauto.
Qed.

Lemma J_seteq X Y : flatl X -> flatl Y -> seteq X Y -> seteq (mk_union X) (mk_union Y).
Proof. intros FX FY H x. apply mk_union_same_set. unfold same_flat. rewrite (flatl_flatten X FX), (flatl_flatten Y FY). exact H. Qed.
Lemma J_absorb_r A B : flatl A -> flatl B -> seteq (mk_union (A ++ mk_union B)) (mk_union (A ++ B)).
Proof.
  intros FA FB. pose proof (flatl_mk_union B) as FJ.
  eapply seteq_trans; [apply J_seteq; [apply flatl_app; assumption | apply flatl_app; [exact FJ | exact FA] | apply seteq_app_comm]|].
  eapply seteq_trans; [apply J_absorb; assumption|].
  apply J_seteq; [apply flatl_app; assumption | apply flatl_app; assumption | apply seteq_app_comm].
Qed.
Lemma J_idem A : flatl A -> seteq (mk_union (mk_union A)) (mk_union A).
Proof. intros FA. pose proof (J_absorb A [] FA (fun x H => match H with end)) as H. rewrite !app_nil_r in H. exact H. Qed.

Lemma flatl_concat Xs : (forall X, In X Xs -> flatl X) -> flatl (concat Xs).
Proof. intros H x Hx. apply in_concat in Hx. destruct Hx as [X [HX Hx]]. apply (H X HX x Hx). Qed.
Theorem J_concat : forall Xs, (forall X, In X Xs -> flatl X) ->
  seteq (mk_union (concat Xs)) (mk_union (concat (map mk_union Xs))).
Proof.
  induction Xs as [|X R IH]; intros HF; [apply seteq_refl|]. cbn [concat map].
  assert (FX : flatl X) by (apply HF; left; reflexivity).
  assert (HR : forall Y, In Y R -> flatl Y) by (intros Y HY; apply HF; right; exact HY).
  assert (FC : flatl (concat R)) by (apply flatl_concat; exact HR).
  assert (FC' : flatl (concat (map mk_union R))).
  { apply flatl_concat. intros Y HY. apply in_map_iff in HY. destruct HY as [Z [<- _]]. apply flatl_mk_union. }
  pose proof (flatl_mk_union X) as FJX.
  eapply seteq_trans; [apply seteq_sym, J_absorb; assumption|].
  eapply seteq_trans; [apply seteq_sym, J_absorb_r; assumption|].
  eapply seteq_trans; [|apply J_absorb_r; assumption].
  apply J_seteq; try (apply flatl_app; try assumption; apply flatl_mk_union).
  apply seteq_app; [apply seteq_refl | apply IH; exact HR].
Qed.

Lemma subm_concat Xs Ys : (forall X, In X Xs -> exists Y, In Y Ys /\ subm X Y) -> subm (concat Xs) (concat Ys).
Proof.
  intros H m Hm. apply in_concat in Hm. destruct Hm as [X [HX Hm]]. destruct (H X HX) as [Y [HY S]].
  destruct (S m Hm) as [m' [Hm' D]]. exists m'. split; [apply in_concat; exists Y; auto | exact D].
Qed.
(* the union of related families of member lists *)
Theorem J_concat_leq Xs Ys : (forall X, In X Xs -> flatl X) -> (forall Y, In Y Ys -> flatl Y) ->
  (forall X, In X Xs -> exists Y, In Y Ys /\ leq (mk_union X) (mk_union Y)) ->
  (forall Y, In Y Ys -> exists X, In X Xs /\ leq (mk_union X) (mk_union Y)) ->
  leq (mk_union (concat Xs)) (mk_union (concat Ys)).
Proof.
  intros FX FY A B.
  eapply leq_trans; [apply seteq_leq, J_concat; exact FX|].
  eapply leq_trans; [|apply leq_sym, seteq_leq, J_concat; exact FY].
  apply J_cong.
  - apply flatl_concat. intros Z HZ. apply in_map_iff in HZ. destruct HZ as [W [<- _]]. apply flatl_mk_union.
  - apply flatl_concat. intros Z HZ. apply in_map_iff in HZ. destruct HZ as [W [<- _]]. apply flatl_mk_union.
  - split; apply subm_concat; intros Z HZ; apply in_map_iff in HZ; destruct HZ as [W [<- HW]].
    + destruct (A W HW) as [Y [HY [L _]]]. exists (mk_union Y). split; [apply in_map; exact HY | exact L].
    + destruct (B W HW) as [X [HX [_ L]]]. exists (mk_union X). split; [apply in_map; exact HX | exact L].
Qed.

(* ------------------------------------------------------------------ *)
(* C.3 invariants (R: raw, S: sorted literals and distinct keys) and nmem                                *)
Definition G (t : ty) : Prop := R t = true /\ S t = true.
Lemma mk_union_of_flatten ts : mk_union ts = mk_union (flatten_union ts).
Proof.
  unfold mk_union. rewrite (flatten_flat (flatten_union ts)); [reflexivity|].
  intros x Hx. unfold flatten_union in Hx. apply (flat_no_union _ _ Hx).
Qed.
Lemma nmem_flat a : nmem a = mk_union (flat a).
Proof. unfold nmem. rewrite mk_union_of_flatten. rewrite flatten_cons. unfold flatten_union at 1. simpl. rewrite app_nil_r. reflexivity. Qed.
Lemma flatl_flat a : flatl (flat a).
Proof. intros x Hx. apply (flat_no_union _ _ Hx). Qed.
Lemma flatl_nmem a : flatl (nmem a).
Proof. apply flatl_mk_union. Qed.
Lemma J_nmem a : seteq (mk_union (nmem a)) (nmem a).
Proof. rewrite nmem_flat. apply J_idem. apply flatl_flat. Qed.
Lemma R_flat_members a : R a = true -> flat a = members a.
Proof.
  destruct a; simpl; intros H; try reflexivity. apply andb_true_iff in H. destruct H as [H _].
  change (flatten_union ts = ts). apply flatten_flat. intros x Hx. apply (raw_union_ok_flat _ H x Hx).
Qed.
Lemma nmem_members a : R a = true -> nmem a = mk_union (members a).
Proof. intros H. rewrite nmem_flat, (R_flat_members a H). reflexivity. Qed.
Lemma flatl_members a : R a = true -> flatl (members a).
Proof. intros H. rewrite <- (R_flat_members a H). apply flatl_flat. Qed.
Lemma nmem_union1 Z : nmem (union1 Z) = mk_union (mk_union Z).
Proof.
  unfold union1. destruct (mk_union Z) as [|x [|y r]] eqn:E.
  - rewrite nmem_flat. reflexivity.
  - reflexivity.
  - rewrite nmem_flat, (mk_union_of_flatten (x :: y :: r)). reflexivity.
Qed.

(* members of a raw union are their own normal form *)
Lemma G_union_clean ts : G (TUnion ts) -> mk_union ts = filter nonlit ts ++ filter is_lit ts.
Proof.
  intros [Hr Hs]. simpl in Hr. apply andb_true_iff in Hr. destruct Hr as [Hu Hr]. rewrite forallb_forall in Hr.
  simpl in Hs. rewrite forallb_forall in Hs.
  pose proof (raw_union_ok_flat _ Hu) as Hfl.
  pose proof Hu as Hu'. unfold raw_union_ok in Hu'. rewrite !andb_true_iff in Hu'. destruct Hu' as [[[[[_ H2] H3] H4] H5] _].
  apply mk_union_clean.
  - intros x Hx. apply (Hfl x Hx).
  - apply nodupb_NoDup in H2. apply NoDup_filter. exact H2.
  - apply Nat.leb_le. exact H3.
  - intros o l Hi. pose proof (Hr _ Hi) as Rl. pose proof (Hs _ Hi) as Sl. rewrite forallb_forall in H4. specialize (H4 _ Hi).
    simpl in H4. apply andb_true_iff in H4. destruct H4 as [O N]. apply negb_true_iff in O. subst o. split; [reflexivity|].
    simpl in Rl, Sl. apply strs_eqb_eq in Sl. destruct l; [discriminate|]. apply negb_true_iff in Rl. repeat split; try assumption. discriminate.
  - intros Hi x Hx. destruct (is_lit x) eqn:L; [|reflexivity]. apply negb_true_iff in H5. apply andb_false_iff in H5.
    destruct H5 as [H5|H5]; rewrite existsb_false in H5.
    + specialize (H5 _ Hi). discriminate.
    + rewrite (H5 _ Hx) in L. discriminate.
Qed.
Lemma nmem_union ts : G (TUnion ts) -> seteq (nmem (TUnion ts)) ts.
Proof.
  intros Hg. rewrite (nmem_members _ (proj1 Hg)). cbn [members]. rewrite (G_union_clean ts Hg).
  intros x. rewrite in_app_iff, !filter_In. unfold nonlit. destruct (is_lit x); simpl; intuition discriminate.
Qed.
Lemma G_union_member ts x : G (TUnion ts) -> In x ts -> G x /\ is_union x = false /\ (forall l, x <> TLit true l).
Proof.
  intros [Hr Hs] Hx. simpl in Hr. apply andb_true_iff in Hr. destruct Hr as [Hu Hr]. rewrite forallb_forall in Hr.
  simpl in Hs. rewrite forallb_forall in Hs. split; [split; auto|]. split; [apply (raw_union_ok_flat _ Hu x Hx)|].
  intros l ->. destruct (raw_union_ok_parts _ Hu) as [_ [_ H]]. destruct (H _ _ Hx). discriminate.
Qed.
Lemma nmem_member m : G m -> is_union m = false -> (forall l, m <> TLit true l) -> nmem m = [m].
Proof.
  intros [Hr Hs] Hu Hl. rewrite nmem_flat, (flat_nonunion m Hu).
  rewrite (mk_union_clean [m]).
  - simpl. unfold nonlit. destruct (is_lit m); reflexivity.
  - intros x [<-|[]]. exact Hu.
  - apply NoDup_filter. constructor; [intros []|constructor].
  - rewrite count_cons. unfold count. simpl. destruct (is_lit m); lia.
  - intros o l [E|[]]. subst m. destruct o; [exfalso; apply (Hl l); reflexivity|]. split; [reflexivity|].
    simpl in Hr, Hs. apply strs_eqb_eq in Hs. destruct l; [discriminate|]. apply negb_true_iff in Hr. repeat split; try assumption. discriminate.
  - intros [E|[]] x [<-|[]]. subst m. reflexivity.
Qed.
Lemma leq_single x y : leq [x] [y] <-> meq x y.
Proof.
  split.
  - intros [A _]. destruct (A x (or_introl eq_refl)) as [m' [[<-|[]] D]]. exact D.
  - intros D. split; intros m [<-|[]]; eexists; (split; [left; reflexivity|]); [exact D | apply meq_sym; exact D].
Qed.

Lemma nmem_list x : nmem (TList x) = [TList x]. Proof. reflexivity. Qed.
Lemma nmem_dict x : nmem (TDict x) = [TDict x]. Proof. reflexivity. Qed.
Lemma nmem_obj F : nmem (TObj F) = [TObj F]. Proof. reflexivity. Qed.
Lemma G_list x : G (TList x) -> G x. Proof. intros [A B]. split; assumption. Qed.
Lemma G_dict x : G (TDict x) -> G x. Proof. intros [A B]. split; assumption. Qed.
Lemma G_obj F : G (TObj F) -> keys_nodup F = true /\ forall k v, In (k, v) F -> G v.
Proof.
  intros [A B]. simpl in A, B. apply andb_true_iff in B. destruct B as [B1 B2]. split; [exact B1|].
  rewrite forallb_forall in A, B2. intros k v Hi. split; [apply (A _ Hi) | apply (B2 _ Hi)].
Qed.
Lemma keys_nodup_NoDup (F : fields) : keys_nodup F = true -> NoDup (map fst F).
Proof.
  intros H. apply nodup_keys_NoDup. rewrite <- H. clear H.
  induction F as [|[k v] r IH]; [reflexivity|]. simpl. rewrite IH. reflexivity.
Qed.

Section PyTeq.
  Variable peq : N -> N -> bool.
  Notation py_eq := (py_eq peq).
  Theorem py_teq : forall a b, G a -> G b -> py_eq a b = true -> teq a b.
  Proof.
    induction a using ty_ind2; intros b Ga Gb E.
    1-6: destruct b; try discriminate E; apply teq_refl.
    - destruct b; simpl in E; try discriminate E. apply pseudo_eqb_eq in E. subst. apply teq_refl.
    - destruct b; simpl in E; try discriminate E. apply strs_eqb_eq in E. subst ls0.
      destruct Ga as [Ra _], Gb as [Rb _]. simpl in Ra, Rb.
      destruct o, overflow; try apply teq_refl; destruct ls; discriminate.
    - destruct Ga as [Ra _]. discriminate Ra.
    - destruct b; simpl in E; try discriminate E. unfold teq. rewrite !nmem_list. apply leq_single. apply meq_list'.
      apply IHa; [apply G_list; exact Ga | apply G_list; exact Gb | exact E].
    - destruct b; simpl in E; try discriminate E. unfold teq. rewrite !nmem_dict. apply leq_single. apply meq_dict'.
      apply IHa; [apply G_dict; exact Ga | apply G_dict; exact Gb | exact E].
    - destruct b; try (simpl in E; discriminate E). apply py_eq_union_imp in E.
      destruct E as [_ [E2 E3]]. rewrite Forall_forall in H.
      eapply leq_trans; [apply seteq_leq, nmem_union; exact Ga|].
      eapply leq_trans; [|apply leq_sym, seteq_leq, nmem_union; exact Gb].
      assert (K : forall x y, In x ts -> In y ts0 -> py_eq x y = true -> meq x y).
      { intros x y Hx Hy Exy. destruct (G_union_member ts x Ga Hx) as [Gx [Ux Lx]].
        destruct (G_union_member ts0 y Gb Hy) as [Gy [Uy Ly]].
        pose proof (H x Hx y Gx Gy Exy) as T. unfold teq in T.
        rewrite (nmem_member x Gx Ux Lx), (nmem_member y Gy Uy Ly) in T. apply leq_single. exact T. }
      split.
      + intros x Hx. destruct (E2 x Hx) as [y [Hy Exy]].
        exists y. split; [exact Hy | apply K; assumption].
      + intros y Hy. destruct (E3 y Hy) as [x [Hx Exy]].
        exists x. split; [exact Hx | apply meq_sym; apply K; assumption].
    - destruct b; try (simpl in E; discriminate E). rewrite py_eq_obj in E.
      apply andb_true_iff in E. destruct E as [E1 E2]. apply Nat.eqb_eq in E1. rewrite forallb_forall in E2.
      rewrite Forall_forall in H.
      destruct (G_obj fs Ga) as [N1 F1]. destruct (G_obj fs0 Gb) as [N2 F2].
      apply keys_nodup_NoDup in N1. apply keys_nodup_NoDup in N2.
      assert (I1 : incl (map fst fs) (map fst fs0)).
      { intros k Hk. apply in_map_iff in Hk. destruct Hk as [[k' x] [<- Hkx]]. specialize (E2 _ Hkx). cbn [fst snd] in *.
        destruct (lookup k' fs0) as [y|] eqn:L; [|discriminate]. apply (lookup_Some_in k' y fs0 L). }
      assert (I2 : incl (map fst fs0) (map fst fs)).
      { apply NoDup_length_incl; [exact N1 | rewrite !map_length; lia | exact I1]. }
      unfold teq. rewrite !nmem_obj. apply leq_single. apply meq_obj'. intros k.
      destruct (lookup k fs) as [a|] eqn:La.
      + right. pose proof (Sound.lookup_In k a fs La) as Ia. pose proof (E2 _ Ia) as Ea. cbn [fst snd] in Ea.
        destruct (lookup k fs0) as [y|] eqn:Ly; [|discriminate]. exists a, y. split; [reflexivity|]. split; [reflexivity|].
        apply (H _ Ia y); [apply (F1 k a Ia) | apply (F2 k y); apply (Sound.lookup_In k y fs0 Ly) | exact Ea].
      + left. split; [reflexivity|]. destruct (lookup k fs0) as [y|] eqn:Ly; [|reflexivity].
        exfalso. apply (lookup_None_notin k fs La). apply I2. apply (lookup_Some_in k y fs0 Ly).
    - destruct Ga as [Ra _]. discriminate Ra.
  Qed.

  Lemma jn0_G c t : G c -> G t -> G (jn0 peq c t).
  Proof.
    intros [Rc Sc] [Rt St]. split; [apply jn0_R; assumption|]. unfold jn0. destruct (py_eq c t); [exact Sc|].
    apply union1_S. intros x Hx. apply in_app_iff in Hx. destruct Hx as [Hx|Hx]; [apply (members_S t St x Hx) | apply (members_S c Sc x Hx)].
  Qed.

  (* one join step *)
  Lemma leq_app X X' Y Y' : leq X X' -> leq Y Y' -> leq (X ++ Y) (X' ++ Y').
  Proof.
    intros [A1 A2] [B1 B2]. split; intros m Hm; apply in_app_iff in Hm; destruct Hm as [Hm|Hm].
    - destruct (A1 m Hm) as [m' [H1 H2]]. exists m'. split; [apply in_app_iff; left; exact H1 | exact H2].
    - destruct (B1 m Hm) as [m' [H1 H2]]. exists m'. split; [apply in_app_iff; right; exact H1 | exact H2].
    - destruct (A2 m Hm) as [m' [H1 H2]]. exists m'. split; [apply in_app_iff; left; exact H1 | exact H2].
    - destruct (B2 m Hm) as [m' [H1 H2]]. exists m'. split; [apply in_app_iff; right; exact H1 | exact H2].
  Qed.
  Lemma join1 a t : G a -> G t -> leq (nmem (jn0 peq a t)) (mk_union (nmem a ++ nmem t)).
  Proof.
    intros Ga Gt. pose proof (flatl_nmem a) as Fa. pose proof (flatl_nmem t) as Ft. unfold jn0.
    destruct (py_eq a t) eqn:E.
    - pose proof (py_teq a t Ga Gt E) as T.
      eapply leq_trans; [apply leq_sym, seteq_leq, (J_nmem a)|].
      eapply leq_trans; [apply seteq_leq, (J_seteq (nmem a) (nmem a ++ nmem a)); [exact Fa | apply flatl_app; exact Fa|]|].
      { intros x. rewrite in_app_iff. tauto. }
      apply J_cong; [apply flatl_app; exact Fa | apply flatl_app; assumption|]. apply leq_app; [apply leq_refl | exact T].
    - rewrite nmem_union1. apply seteq_leq.
      pose proof (flatl_members a (proj1 Ga)) as Ma. pose proof (flatl_members t (proj1 Gt)) as Mt.
      eapply seteq_trans; [apply J_idem; apply flatl_app; assumption|].
      eapply seteq_trans; [apply seteq_sym, J_absorb; assumption|].
      eapply seteq_trans; [apply seteq_sym, J_absorb_r; [apply flatl_mk_union | assumption]|].
      rewrite <- (nmem_members a (proj1 Ga)), <- (nmem_members t (proj1 Gt)).
      apply J_seteq; [apply flatl_app; assumption | apply flatl_app; assumption | apply seteq_app_comm].
  Qed.

  Theorem fold_join : forall r a, G a -> (forall t, In t r -> G t) ->
    G (fold_left (jn0 peq) r a) /\
    leq (nmem (fold_left (jn0 peq) r a)) (mk_union (concat (map nmem (a :: r)))).
  Proof.
    induction r as [|t r IH]; intros a Ga Hr.
    - split; [exact Ga|]. cbn [fold_left map concat]. rewrite app_nil_r. apply leq_sym, seteq_leq, J_nmem.
    - cbn [fold_left]. assert (Gt : G t) by (apply Hr; left; reflexivity).
      assert (Hr' : forall x, In x r -> G x) by (intros x Hx; apply Hr; right; exact Hx).
      destruct (IH (jn0 peq a t) (jn0_G a t Ga Gt) Hr') as [G1 L1]. split; [exact G1|].
      eapply leq_trans; [exact L1|]. cbn [map concat].
      assert (FC : flatl (concat (map nmem r))).
      { apply flatl_concat. intros X HX. apply in_map_iff in HX. destruct HX as [z [<- _]]. apply flatl_nmem. }
      eapply leq_trans; [apply J_cong; [apply flatl_app; [apply flatl_nmem | exact FC] | | apply leq_app; [apply (join1 a t Ga Gt) | apply leq_refl]]|].
      { apply flatl_app; [apply flatl_mk_union | exact FC]. }
      apply seteq_leq. rewrite (app_assoc (nmem a) (nmem t)).
      apply (J_absorb (nmem a ++ nmem t) (concat (map nmem r))); [apply flatl_app; apply flatl_nmem | exact FC].
  Qed.
End PyTeq.

(* ------------------------------------------------------------------ *)
(* D.2 merge_field_sets respects the equivalence (any order, any multiplicity)                          *)
Definition strip (t : ty) : ty := match t with TOpt x => x | _ => t end.
Definition frel (v v' : ty) : Prop := is_opt v = is_opt v' /\ teq (strip v) (strip v').
Definition orelf (F F' : fields) : Prop :=
  forall k, (lookup k F = None /\ lookup k F' = None) \/
            exists v v', lookup k F = Some v /\ lookup k F' = Some v' /\ frel v v'.
Definition sets_rel (sets sets' : list fields) : Prop :=
  (forall s, In s sets -> exists s', In s' sets' /\ orel s s') /\
  (forall s', In s' sets' -> exists s, In s sets /\ orel s s').
Definition good_sets_G (sets : list fields) : Prop :=
  forall s, In s sets -> keys_nodup s = true /\ forall kv, In kv s -> G (snd kv).
Lemma good_sets_G_R sets : good_sets_G sets -> good_sets_R sets.
Proof. intros H s Hs. destruct (H s Hs) as [A B]. split; [exact A|]. intros kv Hkv. apply (B kv Hkv). Qed.
Lemma orel_has_key s s' k : orel s s' -> has_key k s = has_key k s'.
Proof. intros H. unfold has_key. destruct (H k) as [[-> ->]|[a [b [-> [-> _]]]]]; reflexivity. Qed.
Lemma tys_of_G k sets : good_sets_G sets -> forall t, In t (tys_of k sets) -> G t.
Proof.
  intros Hg t Ht. apply tys_of_In in Ht. destruct Ht as [s [Hs L]]. destruct (Hg s Hs) as [_ B].
  apply (B (k, t)). apply Sound.lookup_In. exact L.
Qed.

Theorem merge_rel peq sets sets' : good_sets_G sets -> good_sets_G sets' -> sets_rel sets sets' ->
  orelf (merge_field_sets peq sets) (merge_field_sets peq sets').
Proof.
  intros Hg Hg' [SR1 SR2] k.
  rewrite (merge_lookup_spec peq k sets (good_sets_G_R _ Hg)), (merge_lookup_spec peq k sets' (good_sets_G_R _ Hg')).
  assert (T1 : forall t, In t (tys_of k sets) -> exists t', In t' (tys_of k sets') /\ teq t t').
  { intros t Ht. apply tys_of_In in Ht. destruct Ht as [s [Hs L]]. destruct (SR1 s Hs) as [s' [Hs' O]].
    destruct (O k) as [[C _]|[a [b [La [Lb T]]]]]; [congruence|]. rewrite L in La. inversion La; subst a.
    exists b. split; [apply tys_of_In; exists s'; auto | exact T]. }
  assert (T2 : forall t', In t' (tys_of k sets') -> exists t, In t (tys_of k sets) /\ teq t t').
  { intros t' Ht. apply tys_of_In in Ht. destruct Ht as [s' [Hs' L]]. destruct (SR2 s' Hs') as [s [Hs O]].
    destruct (O k) as [[_ C]|[a [b [La [Lb T]]]]]; [congruence|]. rewrite L in Lb. inversion Lb; subst b.
    exists a. split; [apply tys_of_In; exists s; auto | exact T]. }
  assert (MS : miss k sets = miss k sets').
  { unfold miss. destruct (existsb (fun s => negb (has_key k s)) sets) eqn:E1; symmetry.
    - apply existsb_exists in E1. destruct E1 as [s [Hs E1]]. destruct (SR1 s Hs) as [s' [Hs' O]].
      apply existsb_exists. exists s'. split; [exact Hs' | rewrite <- (orel_has_key s s' k O); exact E1].
    - apply existsb_false. intros s' Hs'. destruct (SR2 s' Hs') as [s [Hs O]]. rewrite existsb_false in E1.
      rewrite <- (orel_has_key s s' k O). apply E1. exact Hs. }
  destruct (tys_of k sets) as [|a r] eqn:E1; destruct (tys_of k sets') as [|a' r'] eqn:E2.
  - left. split; reflexivity.
  - exfalso. destruct (T2 a' (or_introl eq_refl)) as [t [[] _]].
  - exfalso. destruct (T1 a (or_introl eq_refl)) as [t [[] _]].
  - right. cbn [fold_jn]. eexists. eexists. split; [reflexivity|]. split; [reflexivity|].
    assert (GA : forall t, In t (a :: r) -> G t) by (intros t Ht; apply (tys_of_G k sets Hg); rewrite E1; exact Ht).
    assert (GA' : forall t, In t (a' :: r') -> G t) by (intros t Ht; apply (tys_of_G k sets' Hg'); rewrite E2; exact Ht).
    destruct (fold_join peq r a (GA a (or_introl eq_refl)) (fun t Ht => GA t (or_intror Ht))) as [G1 L1].
    destruct (fold_join peq r' a' (GA' a' (or_introl eq_refl)) (fun t Ht => GA' t (or_intror Ht))) as [G2 L2].
    set (c := fold_left (jn0 peq) r a) in *. set (c' := fold_left (jn0 peq) r' a') in *.
    assert (NC : is_opt c = false) by (apply (R_not_opt_ptr _ (proj1 G1))).
    assert (NC' : is_opt c' = false) by (apply (R_not_opt_ptr _ (proj1 G2))).
    assert (TC : teq c c').
    { unfold teq. eapply leq_trans; [exact L1|]. eapply leq_trans; [|apply leq_sym; exact L2].
      assert (JN : forall t t', teq t t' -> leq (mk_union (nmem t)) (mk_union (nmem t'))).
      { intros t t' T. eapply leq_trans; [apply seteq_leq, J_nmem|]. eapply leq_trans; [exact T|]. apply leq_sym, seteq_leq, J_nmem. }
      apply J_concat_leq.
      - intros X HX. apply in_map_iff in HX. destruct HX as [z [<- _]]. apply flatl_nmem.
      - intros X HX. apply in_map_iff in HX. destruct HX as [z [<- _]]. apply flatl_nmem.
      - intros X HX. apply in_map_iff in HX. destruct HX as [t [<- Ht]]. destruct (T1 t Ht) as [t' [Ht' T]].
        exists (nmem t'). split; [apply in_map; exact Ht' | apply JN; exact T].
      - intros X HX. apply in_map_iff in HX. destruct HX as [t' [<- Ht']]. destruct (T2 t' Ht') as [t [Ht T]].
        exists (nmem t). split; [apply in_map; exact Ht | apply JN; exact T]. }
    rewrite <- MS. unfold frel. destruct (miss k sets); cbn [is_opt strip].
    + split; [reflexivity | exact TC].
    + rewrite NC, NC'. split; [reflexivity|]. destruct c; try discriminate NC; destruct c'; try discriminate NC'; exact TC.
Qed.

(* ------------------------------------------------------------------ *)
(* F. a depth measure: atoms 0; TList/TDict/TObj +1; TUnion/TOpt +0                                     *)
Fixpoint depth (t : ty) : nat :=
  match t with
  | TOpt x => depth x
  | TList x | TDict x => Datatypes.S (depth x)
  | TUnion ts => (fix go l := match l with [] => 0 | x :: r => Nat.max (depth x) (go r) end) ts
  | TObj fs => Datatypes.S ((fix go (l : fields) := match l with [] => 0 | (_, x) :: r => Nat.max (depth x) (go r) end) fs)
  | _ => 0
  end.
Definition dle (n : nat) (l : list ty) : Prop := forall x, In x l -> depth x <= n.
Lemma depth_union_le ts n : depth (TUnion ts) <= n <-> dle n ts.
Proof.
  unfold dle. simpl. induction ts as [|x r IH]; simpl.
  - split; [intros _ y [] | lia].
  - rewrite Nat.max_lub_iff, IH. split.
    + intros [A B] y [<-|Hy]; auto.
    + intros H. split; [apply H; left; reflexivity | intros y Hy; apply H; right; exact Hy].
Qed.
Lemma depth_obj_le fs n : depth (TObj fs) <= Datatypes.S n <-> forall kv, In kv fs -> depth (snd kv) <= n.
Proof.
  simpl. rewrite <- Nat.succ_le_mono. induction fs as [|[k x] r IH]; simpl.
  - split; [intros _ y [] | lia].
  - rewrite Nat.max_lub_iff, IH. split.
    + intros [A B] y [<-|Hy]; auto.
    + intros H. split; [apply (H (k, x)); left; reflexivity | intros y Hy; apply H; right; exact Hy].
Qed.
Lemma depth_obj_pos fs : 1 <= depth (TObj fs).
Proof. simpl. lia. Qed.
Lemma depth_member ts x : In x ts -> depth x <= depth (TUnion ts).
Proof. intros H. apply (proj1 (depth_union_le ts (depth (TUnion ts))) (le_n _) x H). Qed.
Lemma depth_field fs k v : In (k, v) fs -> depth v < depth (TObj fs).
Proof.
  intros H. destruct (depth (TObj fs)) as [|n] eqn:E; [pose proof (depth_obj_pos fs); lia|].
  pose proof (proj1 (depth_obj_le fs n) ltac:(rewrite E; lia) (k, v) H) as L. simpl in L. lia.
Qed.
Lemma depth_flat : forall t x, In x (flat t) -> depth x <= depth t.
Proof.
  induction t using ty_ind2; intros x Hx; try (destruct Hx as [<-|[]]; apply le_n).
  change (flat (TUnion ts)) with (flatten_union ts) in Hx.
  induction H as [|y r Hy Hr IH]; [destruct Hx|]. rewrite flatten_cons in Hx. apply in_app_iff in Hx.
  assert (E : depth (TUnion (y :: r)) = Nat.max (depth y) (depth (TUnion r))) by reflexivity. rewrite E.
  destruct Hx as [Hx|Hx]; [specialize (Hy x Hx); lia | specialize (IH Hx); lia].
Qed.
Lemma dle_flatten n ts : dle n ts -> dle n (flatten_union ts).
Proof.
  intros H x Hx. change (flatten_union ts) with (flat (TUnion ts)) in Hx. apply depth_flat in Hx.
  apply (Nat.le_trans _ _ _ Hx). apply depth_union_le. exact H.
Qed.
Lemma dle_mk_union n ts : dle n ts -> dle n (mk_union ts).
Proof.
  intros H x Hx. apply mk_union_In in Hx. destruct Hx as [[Hx _]|[->|[-> _]]]; [apply (dle_flatten n ts H x Hx) | simpl; lia | simpl; lia].
Qed.
Lemma depth_union1 n ts : dle n ts -> depth (union1 ts) <= n.
Proof.
  intros H. pose proof (dle_mk_union n ts H) as M. unfold union1. destruct (mk_union ts) as [|x [|y r]] eqn:E.
  - simpl. lia.
  - apply M. left. reflexivity.
  - apply depth_union_le. exact M.
Qed.
Lemma depth_dunion n ts : dle n ts -> depth (dunion ts) <= n.
Proof. intros H. unfold dunion. apply depth_union_le. apply dle_mk_union. exact H. Qed.
Lemma dle_members t : dle (depth t) (members t).
Proof. destruct t; simpl; try (intros x [<-|[]]; apply le_n). intros x Hx. apply depth_member. exact Hx. Qed.
Lemma dle_nmem t : dle (depth t) (nmem t).
Proof. unfold nmem. apply dle_mk_union. intros x [<-|[]]. apply le_n. Qed.
Lemma dle_app n a b : dle n a -> dle n b -> dle n (a ++ b).
Proof. intros A B x Hx. apply in_app_iff in Hx. destruct Hx; auto. Qed.
Lemma dle_mono n m l : n <= m -> dle n l -> dle m l.
Proof. intros L H x Hx. specialize (H x Hx). lia. Qed.

Lemma depth_jn0 peq n c t : depth c <= n -> depth t <= n -> depth (jn0 peq c t) <= n.
Proof.
  intros A B. unfold jn0. destruct (py_eq peq c t); [exact A|]. apply depth_union1.
  apply dle_app; [eapply dle_mono; [exact B | apply dle_members] | eapply dle_mono; [exact A | apply dle_members]].
Qed.
Lemma depth_fold_jn0 peq n : forall r a, depth a <= n -> dle n r -> depth (fold_left (jn0 peq) r a) <= n.
Proof.
  induction r as [|t r IH]; intros a A B; [exact A|]. cbn [fold_left]. apply IH.
  - apply depth_jn0; [exact A | apply B; left; reflexivity].
  - intros x Hx. apply B. right. exact Hx.
Qed.
Theorem merge_depth peq n sets k v : good_sets_R sets ->
  (forall s kv, In s sets -> In kv s -> depth (snd kv) <= n) ->
  lookup k (merge_field_sets peq sets) = Some v -> depth v <= n.
Proof.
  intros Hg Hd. rewrite (merge_lookup_spec peq k sets Hg).
  destruct (tys_of k sets) as [|a r] eqn:E; [discriminate|]. cbn [fold_jn]. intros H. inversion H; subst v.
  assert (D : dle n (a :: r)).
  { intros t Ht. rewrite <- E in Ht. apply tys_of_In in Ht. destruct Ht as [s [Hs L]].
    apply (Hd s (k, t) Hs). apply Sound.lookup_In. exact L. }
  assert (C : depth (fold_left (jn0 peq) r a) <= n).
  { apply depth_fold_jn0; [apply D; left; reflexivity | intros x Hx; apply D; right; exact Hx]. }
  destruct (miss k sets); exact C.
Qed.
