(* Proofs/LabelProps.v — property C11 (JSON keys survive renaming) and the idempotence of the
   class-name conversion needed by C14, about Model/Label.v : prepare_label.
   No axioms.  Every assumption on the external per-character tables (oracles) is a Section
   Hypothesis below; after [End LabelProps] each theorem carries exactly the hypotheses named in its
   [Proof using] clause as premises (see the [Check]s at the end of the file). *)
From Coq Require Import List Bool Arith NArith Lia.
From J2M.Model Require Import Base Label.
From J2M.Gen Require Labels.
Import ListNotations.

Set Default Proof Using "Type".

(* ------------------------------------------------------------------ *)
(* oracle-independent definitions and lemmas                           *)
(* ------------------------------------------------------------------ *)
Definition remove_us (s : str) : str := filter (fun c => negb (N.eqb c 95)) s.

(* no blacklisted word is another blacklisted word plus "_" *)
Definition blacklist_ok (bl : list str) : bool :=
  forallb (fun w => negb (existsb (str_eqb (w ++ [95%N])) bl)) bl.

Lemma remove_us_cons a x : remove_us (a :: x) = if N.eqb a 95 then remove_us x else a :: remove_us x.
Proof. unfold remove_us; simpl. destruct (N.eqb a 95); reflexivity. Qed.

Lemma remove_us_app a b : remove_us (a ++ b) = remove_us a ++ remove_us b.
Proof. apply filter_app. Qed.

Lemma remove_us_id s : ~ In 95%N s -> remove_us s = s.
Proof.
  induction s as [|a s IH]; intros H; [reflexivity|].
  rewrite remove_us_cons. destruct (N.eqb_spec a 95) as [E|E].
  - exfalso. apply H. left. exact E.
  - f_equal. apply IH. intros Hin. apply H. right. exact Hin.
Qed.

Lemma Some_inj {A} (a b : A) : Some a = Some b -> a = b.
Proof. intros H. injection H as H. exact H. Qed.

Lemma str_eqb_true a b : str_eqb a b = true -> a = b.
Proof. unfold str_eqb. destruct (list_eq_dec N.eq_dec a b); [auto|discriminate]. Qed.

Lemma take_upper_app : forall s u rest, take_upper s = (u, rest) -> s = u ++ rest.
Proof.
  induction s as [|c r IH]; simpl; intros u rest H.
  - inversion H; reflexivity.
  - destruct (ascii_upper c).
    + destruct (take_upper r) as [u' r'] eqn:E. inversion H; subst. simpl. f_equal. apply IH. reflexivity.
    + inversion H; subst. reflexivity.
Qed.

Lemma take_upper_hd c r run rest :
  ascii_upper c = true -> take_upper (c :: r) = (run, rest) -> exists u, run = c :: u.
Proof. simpl. intros -> H. destruct (take_upper r) as [u' r']. inversion H; subst. eauto. Qed.

Lemma pass1_S f c r :
  pass1 (S f) (c :: r) =
  if ascii_upper c then
    (let '(run, rest) := take_upper (c :: r) in
     match rest with
     | d :: rest' =>
         if (2 <=? length run)%nat && ascii_lower d
         then removelast run ++ [USCORE; last run 0%N; d] ++ pass1 f rest'
         else run ++ pass1 f rest
     | [] => run
     end)
  else c :: pass1 f r.
Proof. reflexivity. Qed.

(* pass1 only inserts "_": any filter that drops "_" does not see the difference *)
Lemma filter_pass1 (f : N -> bool) : f 95%N = false -> forall n s, filter f (pass1 n s) = filter f s.
Proof.
  intros Hf. induction n as [|n IH]; intros s; [reflexivity|].
  destruct s as [|c r]; [reflexivity|].
  rewrite pass1_S. destruct (ascii_upper c) eqn:Hc.
  - destruct (take_upper (c :: r)) as [run rest] eqn:E.
    pose proof (take_upper_app _ _ _ E) as Happ.
    destruct (take_upper_hd _ _ _ _ Hc E) as [u Hu].
    rewrite Happ. destruct rest as [|d rest'].
    + rewrite app_nil_r. reflexivity.
    + destruct ((2 <=? length run)%nat && ascii_lower d).
      * assert (Hrl : run = removelast run ++ [last run 0%N])
          by (apply app_removelast_last; rewrite Hu; discriminate).
        remember (removelast run) as a. remember (last run 0%N) as b. clear Heqa Heqb.
        rewrite Hrl. rewrite !filter_app. simpl. unfold USCORE. rewrite Hf, IH.
        destruct (f b), (f d); simpl; rewrite <- ?app_assoc; reflexivity.
      * rewrite !filter_app, IH. reflexivity.
  - simpl. rewrite IH. reflexivity.
Qed.

Lemma pass1_hd : forall n s, hd_error (pass1 n s) = hd_error s.
Proof.
  intros n s. destruct n as [|n]; [reflexivity|].
  destruct s as [|c r]; [reflexivity|].
  rewrite pass1_S. destruct (ascii_upper c) eqn:Hc; [|reflexivity].
  destruct (take_upper (c :: r)) as [run rest] eqn:E.
  destruct (take_upper_hd _ _ _ _ Hc E) as [u Hu]. subst run.
  destruct rest as [|d rest']; [reflexivity|].
  destruct ((2 <=? length (c :: u))%nat && ascii_lower d) eqn:Hcond; [|reflexivity].
  destruct u as [|x u]; [discriminate Hcond|]. reflexivity.
Qed.

Section Pass2.
  Variable is_decimal_c : N -> bool.

  Lemma pass2_cons2 c d r :
    pass2 is_decimal_c (c :: d :: r) =
    if (ascii_lower c || is_decimal_c c) && ascii_upper d
    then c :: USCORE :: d :: pass2 is_decimal_c r
    else c :: pass2 is_decimal_c (d :: r).
  Proof. reflexivity. Qed.

  Lemma filter_pass2 (f : N -> bool) : f 95%N = false -> forall s, filter f (pass2 is_decimal_c s) = filter f s.
  Proof.
    intros Hf s.
    assert (H : filter f (pass2 is_decimal_c s) = filter f s /\
                forall c, filter f (pass2 is_decimal_c (c :: s)) = filter f (c :: s)).
    { induction s as [|d r [IH1 IH2]].
      - split; reflexivity.
      - split; [apply IH2|]. intros c. rewrite pass2_cons2.
        destruct ((ascii_lower c || is_decimal_c c) && ascii_upper d).
        + simpl. unfold USCORE. rewrite Hf, IH1. reflexivity.
        + cbn [filter]. rewrite (IH2 d). reflexivity. }
    apply H.
  Qed.

  Lemma pass2_hd s : hd_error (pass2 is_decimal_c s) = hd_error s.
  Proof.
    destruct s as [|c [|d r]]; try reflexivity.
    rewrite pass2_cons2. destruct ((ascii_lower c || is_decimal_c c) && ascii_upper d); reflexivity.
  Qed.
End Pass2.

(* (P1) *)
Lemma remove_us_pass1 n s : remove_us (pass1 n s) = remove_us s.
Proof. apply filter_pass1. reflexivity. Qed.

Lemma remove_us_pass2 is_decimal_c s : remove_us (pass2 is_decimal_c s) = remove_us s.
Proof. apply filter_pass2. reflexivity. Qed.

Definition hyph (c : N) : N := if N.eqb c HYPHEN then USCORE else c.

Lemma remove_us_map_hyph x :
  remove_us (map (fun c => if N.eqb c HYPHEN then USCORE else c) x) =
  filter (fun c => negb (N.eqb c 95) && negb (N.eqb c 45)) x.
Proof.
  unfold remove_us, HYPHEN, USCORE. induction x as [|a x IH]; simpl; [reflexivity|].
  rewrite IH. destruct (N.eqb_spec a 45) as [E|E]; [subst; reflexivity|].
  destruct (N.eqb_spec a 95); reflexivity.
Qed.

Lemma map_hyph_id x : ~ In 45%N x -> map (fun c => if N.eqb c HYPHEN then USCORE else c) x = x.
Proof.
  induction x as [|a x IH]; intros H; simpl; [reflexivity|].
  unfold HYPHEN at 1. destruct (N.eqb_spec a 45) as [E|E].
  - exfalso. apply H. left. exact E.
  - f_equal. apply IH. intros Hin. apply H. right. exact Hin.
Qed.

Lemma hd_error_app_ne {A} (a t : list A) : a <> [] -> hd_error (a ++ t) = hd_error a.
Proof. destruct a; [congruence|reflexivity]. Qed.

Lemma ascii_digit_us : ascii_digit 95 = false.
Proof. reflexivity. Qed.

(* ------------------------------------------------------------------ *)
(* the properties                                                      *)
(* ------------------------------------------------------------------ *)
Section LabelProps.
  Variable unidecode_c : N -> str.
  Variable is_word_c : N -> bool.
  Variable is_decimal_c : N -> bool.
  Variable lower_c : N -> str.
  Variable blacklist : list str.
  Variable ones : list str.

  Local Notation lowerS := (lower lower_c).
  Local Notation usc := (underscore is_decimal_c lower_c).
  Local Notation PL := (prepare_label unidecode_c is_word_c is_decimal_c lower_c blacklist ones).

  Definition stripped (cu : bool) (s : str) : str :=
    filter is_word_c (if cu then flat_map unidecode_c s else s).

  Definition digit_rule (s : str) : str :=
    match s with
    | [] => []
    | c :: r =>
        if negb (is_az (lower_c c)) && ascii_digit c
        then nth (digit_val c) ones [] ++ [USCORE] ++ r else s
    end.

  (* mentions neither underscore nor the blacklist *)
  Definition fold_key (cu : bool) (s : str) : str := remove_us (lowerS (digit_rule (stripped cu s))).

  Definition bl_fix (s : str) : str := if existsb (str_eqb s) blacklist then s ++ [USCORE] else s.

  (* prepare_label in terms of the pieces above *)
  Lemma prepare_label_unfold cu snake k :
    PL cu snake k =
    match stripped cu k with
    | [] => None
    | _ :: _ => Some (bl_fix (if snake then usc (digit_rule (stripped cu k)) else digit_rule (stripped cu k)))
    end.
  Proof.
    unfold prepare_label, stripped, bl_fix, digit_rule.
    destruct (filter is_word_c (if cu then flat_map unidecode_c k else k)); reflexivity.
  Qed.

  (* ---------------- oracle hypotheses ---------------- *)
  (* lower-casing neither creates nor removes "_" *)
  Hypothesis H_us_lower_eq : lower_c 95 = [95%N].
  Hypothesis H_us_lower_ni : forall c, c <> 95%N -> ~ In 95%N (lower_c c).
  (* "-" is not a word character, "_" is *)
  Hypothesis H_hyphen : is_word_c 45 = false.
  Hypothesis H_us_word : is_word_c 95 = true.
  (* the spelled-out digits: no "-" inside, do not start with an ASCII digit, consist of word characters *)
  Hypothesis H_ones_nohyphen : Forall (fun w => ~ In 45%N w) ones.
  Hypothesis H_ones_hd : Forall (fun w => forall x, hd_error w = Some x -> ascii_digit x = false) ones.
  Hypothesis H_ones_word : Forall (Forall (fun d => is_word_c d = true)) ones.
  (* the lower-case form of an ASCII digit is not within "a".."z" (so the digit rule fires on every ASCII digit) *)
  Hypothesis H_lower_digit : forall c, ascii_digit c = true -> is_az (lower_c c) = false.
  (* chr(c).lower() is never empty, and starts with an ASCII digit only if c is one *)
  Hypothesis H_lower_ne : forall c, lower_c c <> [].
  Hypothesis H_lower_hd : forall c x, ascii_digit c = false -> hd_error (lower_c c) = Some x -> ascii_digit x = false.
  (* unidecode is idempotent on what survives the \W filter; "_" and the spelled-out digits are fixed by it *)
  Hypothesis H_uni_idem : forall c d, In d (unidecode_c c) -> is_word_c d = true -> unidecode_c d = [d].
  Hypothesis H_uni_us : unidecode_c 95 = [95%N].
  Hypothesis H_uni_ones : Forall (Forall (fun d => unidecode_c d = [d])) ones.
  Hypothesis H_bl_ok : blacklist_ok blacklist = true.

  (* ---------------- (P2) underscore ---------------- *)
  Lemma remove_us_lower x : remove_us (lowerS x) = lowerS (remove_us x).
  Proof using H_us_lower_eq H_us_lower_ni.
    unfold lower. induction x as [|a x IH]; [reflexivity|].
    rewrite remove_us_cons. simpl flat_map at 1. rewrite remove_us_app, IH.
    destruct (N.eqb_spec a 95) as [E|E].
    - subst a. rewrite H_us_lower_eq. reflexivity.
    - simpl. rewrite remove_us_id by (apply H_us_lower_ni; exact E). reflexivity.
  Qed.

  (* general form: no assumption on "-" *)
  Lemma underscore_fold_gen s :
    remove_us (usc s) = remove_us (lowerS (map (fun c => if N.eqb c HYPHEN then USCORE else c) s)).
  Proof using H_us_lower_eq H_us_lower_ni.
    unfold underscore. rewrite !remove_us_lower, !remove_us_map_hyph.
    rewrite filter_pass2 by reflexivity. rewrite filter_pass1 by reflexivity. reflexivity.
  Qed.

  Theorem underscore_fold s : ~ In 45%N s -> remove_us (usc s) = remove_us (lowerS s).
  Proof using H_us_lower_eq H_us_lower_ni.
    intros H. rewrite underscore_fold_gen, map_hyph_id by exact H. reflexivity.
  Qed.

  (* ---------------- (P3) (P4) ---------------- *)
  Lemma remove_us_bl_fix s : remove_us (bl_fix s) = remove_us s.
  Proof.
    unfold bl_fix. destruct (existsb (str_eqb s) blacklist); [|reflexivity].
    rewrite remove_us_app. unfold USCORE. simpl. apply app_nil_r.
  Qed.

  Lemma no45_stripped cu k : ~ In 45%N (stripped cu k).
  Proof using H_hyphen.
    intros H. unfold stripped in H. apply filter_In in H. destruct H as [_ H].
    rewrite H_hyphen in H. discriminate.
  Qed.

  Lemma nth_ones_Forall (P : str -> Prop) d : Forall P ones -> P [] -> P (nth d ones []).
  Proof.
    intros H H0. destruct (nth_in_or_default d ones []) as [Hn|Hn].
    - rewrite Forall_forall in H. apply H. exact Hn.
    - rewrite Hn. exact H0.
  Qed.

  Lemma no45_digit_rule s : ~ In 45%N s -> ~ In 45%N (digit_rule s).
  Proof using H_ones_nohyphen.
    destruct s as [|c r]; simpl; [auto|].
    destruct (negb (is_az (lower_c c)) && ascii_digit c); [|auto].
    intros H Hin. rewrite in_app_iff in Hin. destruct Hin as [Hin|Hin].
    - revert Hin. apply nth_ones_Forall; [exact H_ones_nohyphen|intros []].
    - unfold USCORE in Hin. simpl in Hin. destruct Hin as [Hin|Hin]; [discriminate|].
      apply H. right. exact Hin.
  Qed.

  Theorem label_fold cu k l : PL cu true k = Some l -> remove_us l = fold_key cu k.
  Proof using H_us_lower_eq H_us_lower_ni H_hyphen H_ones_nohyphen.
    rewrite prepare_label_unfold. destruct (stripped cu k) as [|c r] eqn:E; [discriminate|].
    intros Hl. apply Some_inj in Hl. subst l. unfold fold_key. rewrite E.
    rewrite remove_us_bl_fix. apply underscore_fold. apply no45_digit_rule.
    rewrite <- E. apply no45_stripped.
  Qed.

  Theorem label_injective cu k1 k2 l1 l2 :
    PL cu true k1 = Some l1 -> PL cu true k2 = Some l2 -> fold_key cu k1 <> fold_key cu k2 -> l1 <> l2.
  Proof using H_us_lower_eq H_us_lower_ni H_hyphen H_ones_nohyphen.
    intros H1 H2 Hne Heq. apply Hne. rewrite <- (label_fold _ _ _ H1), <- (label_fold _ _ _ H2).
    rewrite Heq. reflexivity.
  Qed.

  (* ---------------- (P5) ---------------- *)
  Theorem label_none_iff cu snake k : PL cu snake k = None <-> stripped cu k = [].
  Proof.
    rewrite prepare_label_unfold. destruct (stripped cu k); split; intros H; try reflexivity; discriminate.
  Qed.

  (* ---------------- (P6) ---------------- *)
  Lemma bl_fix_not_in s : existsb (str_eqb (bl_fix s)) blacklist = false.
  Proof using H_bl_ok.
    unfold bl_fix. destruct (existsb (str_eqb s) blacklist) eqn:E; [|exact E].
    apply existsb_exists in E. destruct E as [w [Hin Heq]]. apply str_eqb_true in Heq. subst w.
    pose proof H_bl_ok as H. unfold blacklist_ok in H. rewrite forallb_forall in H.
    specialize (H _ Hin). apply negb_true_iff in H. exact H.
  Qed.

  Theorem label_not_blacklisted cu snake k l : PL cu snake k = Some l -> existsb (str_eqb l) blacklist = false.
  Proof using H_bl_ok.
    rewrite prepare_label_unfold. destruct (stripped cu k); [discriminate|].
    intros Hl. apply Some_inj in Hl. subst l. apply bl_fix_not_in.
  Qed.

  (* ---------------- (P8) first character ---------------- *)
  Definition hd_nodigit (s : str) : Prop := s <> [] /\ forall x, hd_error s = Some x -> ascii_digit x = false.

  Lemma digit_rule_hd c r : hd_nodigit (digit_rule (c :: r)).
  Proof using H_lower_digit H_ones_hd.
    simpl. destruct (negb (is_az (lower_c c)) && ascii_digit c) eqn:E.
    - destruct (nth (digit_val c) ones []) as [|y w] eqn:En; simpl.
      + split; [discriminate|]. intros x Hx. injection Hx as <-. reflexivity.
      + split; [discriminate|]. intros x Hx. injection Hx as <-.
        assert (H : forall x, hd_error (nth (digit_val c) ones []) = Some x -> ascii_digit x = false)
          by (apply nth_ones_Forall; [exact H_ones_hd|discriminate]).
        apply H. rewrite En. reflexivity.
    - split; [discriminate|]. intros x Hx. injection Hx as <-.
      destruct (ascii_digit c) eqn:Hd; [|reflexivity].
      rewrite (H_lower_digit _ Hd) in E. discriminate.
  Qed.

  Lemma bl_fix_hd s : hd_nodigit s -> hd_nodigit (bl_fix s).
  Proof.
    unfold bl_fix. destruct (existsb (str_eqb s) blacklist); [|auto].
    intros [Hne H]. destruct s as [|c r]; [congruence|]. split; [discriminate|exact H].
  Qed.

  Lemma underscore_cons c r : exists t, usc (c :: r) = lower_c (hyph c) ++ t.
  Proof.
    unfold underscore.
    assert (H : hd_error (pass2 is_decimal_c (pass1 (length (c :: r)) (c :: r))) = Some c)
      by (rewrite pass2_hd, pass1_hd; reflexivity).
    destruct (pass2 is_decimal_c (pass1 (length (c :: r)) (c :: r))) as [|c' t]; [discriminate|].
    injection H as ->. exists (lowerS (map (fun c => if N.eqb c HYPHEN then USCORE else c) t)). reflexivity.
  Qed.

  Lemma underscore_hd s : hd_nodigit s -> hd_nodigit (usc s).
  Proof using H_lower_ne H_lower_hd.
    intros [Hne H]. destruct s as [|c r]; [congruence|].
    destruct (underscore_cons c r) as [t Ht]. rewrite Ht. split.
    - intros Habs. apply app_eq_nil in Habs. destruct Habs as [Habs _]. exact (H_lower_ne _ Habs).
    - intros x. rewrite hd_error_app_ne by apply H_lower_ne. apply H_lower_hd.
      unfold hyph, HYPHEN, USCORE. destruct (N.eqb c 45); [reflexivity|]. apply H. reflexivity.
  Qed.

  (* class names (snake = false): needs only the hypotheses on the digit rule *)
  Theorem label_first_char_raw cu k l :
    PL cu false k = Some l -> l <> [] /\ forall x, hd_error l = Some x -> ascii_digit x = false.
  Proof using H_lower_digit H_ones_hd.
    rewrite prepare_label_unfold. destruct (stripped cu k) as [|c r]; [discriminate|].
    intros Hl. apply Some_inj in Hl. subst l. apply bl_fix_hd, digit_rule_hd.
  Qed.

  Theorem label_first_char cu snake k l :
    PL cu snake k = Some l -> l <> [] /\ forall x, hd_error l = Some x -> ascii_digit x = false.
  Proof using H_lower_digit H_ones_hd H_lower_ne H_lower_hd.
    destruct snake; [|apply label_first_char_raw].
    rewrite prepare_label_unfold. destruct (stripped cu k) as [|c r]; [discriminate|].
    intros Hl. apply Some_inj in Hl. subst l. apply bl_fix_hd, underscore_hd, digit_rule_hd.
  Qed.

  (* what happens for a leading '0' (ones[0] = ''): the label starts with "_" *)
  Theorem label_zero cu snake k r l :
    nth 0 ones [] = [] -> stripped cu k = 48%N :: r -> PL cu snake k = Some l -> hd_error l = Some 95%N.
  Proof using H_lower_digit H_us_lower_eq.
    intros H0 E.
    assert (Hd : digit_rule (48%N :: r) = 95%N :: r).
    { unfold digit_rule. rewrite (H_lower_digit 48%N) by reflexivity.
      change (digit_val 48) with 0%nat. simpl. rewrite H0. reflexivity. }
    rewrite prepare_label_unfold, E, Hd. intros Hl. apply Some_inj in Hl. subst l.
    assert (Hb : forall s t, hd_error s = Some t -> hd_error (bl_fix s) = Some t).
    { intros s t. unfold bl_fix. destruct (existsb (str_eqb s) blacklist); [|auto].
      destruct s; [discriminate|auto]. }
    apply Hb. destruct snake; [|reflexivity].
    destruct (underscore_cons 95%N r) as [t Ht]. rewrite Ht.
    change (hyph 95) with 95%N. rewrite H_us_lower_eq. reflexivity.
  Qed.

  (* ---------------- (P7) idempotence of the class-name conversion ---------------- *)
  Definition lbl_good (cu : bool) (d : N) : Prop := is_word_c d = true /\ (cu = true -> unidecode_c d = [d]).

  Lemma stripped_good cu x : Forall (lbl_good cu) x -> stripped cu x = x.
  Proof.
    intros H. unfold stripped.
    assert (Hu : (if cu then flat_map unidecode_c x else x) = x).
    { destruct cu; [|reflexivity]. induction H as [|a x [_ Ha] _ IH]; simpl; [reflexivity|].
      rewrite (Ha eq_refl), IH. reflexivity. }
    rewrite Hu. clear Hu. induction H as [|a x [Ha _] _ IH]; simpl; [reflexivity|]. rewrite Ha, IH. reflexivity.
  Qed.

  Lemma stripped_is_good cu k : Forall (lbl_good cu) (stripped cu k).
  Proof using H_uni_idem.
    apply Forall_forall. intros d Hd. unfold stripped in Hd. apply filter_In in Hd.
    destruct Hd as [Hin Hw]. split; [exact Hw|]. intros ->.
    apply in_flat_map in Hin. destruct Hin as [c [_ Hc]]. exact (H_uni_idem _ _ Hc Hw).
  Qed.

  Lemma lbl_good_us cu : lbl_good cu 95%N.
  Proof using H_us_word H_uni_us. split; [exact H_us_word|intros _; exact H_uni_us]. Qed.

  Lemma lbl_good_ones cu d : Forall (lbl_good cu) (nth d ones []).
  Proof using H_ones_word H_uni_ones.
    destruct (nth_in_or_default d ones []) as [Hn|Hn]; [|rewrite Hn; constructor].
    pose proof H_ones_word as Hw. pose proof H_uni_ones as Hu.
    rewrite Forall_forall in Hw, Hu. specialize (Hw _ Hn). specialize (Hu _ Hn).
    rewrite Forall_forall in Hw, Hu. apply Forall_forall. intros x Hx. split; [apply Hw, Hx|intros _; apply Hu, Hx].
  Qed.

  Lemma good_digit_rule cu s : Forall (lbl_good cu) s -> Forall (lbl_good cu) (digit_rule s).
  Proof using H_us_word H_uni_us H_ones_word H_uni_ones.
    destruct s as [|c r]; simpl; [auto|].
    destruct (negb (is_az (lower_c c)) && ascii_digit c); [|auto].
    intros H. inversion H; subst. apply Forall_app. split; [apply lbl_good_ones|].
    constructor; [apply lbl_good_us|assumption].
  Qed.

  Lemma good_bl_fix cu s : Forall (lbl_good cu) s -> Forall (lbl_good cu) (bl_fix s).
  Proof using H_us_word H_uni_us.
    unfold bl_fix. destruct (existsb (str_eqb s) blacklist); [|auto].
    intros H. apply Forall_app. split; [exact H|]. constructor; [apply lbl_good_us|constructor].
  Qed.

  Definition digit_stable (s : str) : Prop :=
    match s with [] => False | x :: _ => negb (is_az (lower_c x)) && ascii_digit x = false end.

  Lemma digit_stable_fix s : digit_stable s -> digit_rule s = s.
  Proof. destruct s as [|x t]; simpl; [tauto|]. intros ->. reflexivity. Qed.

  Lemma digit_stable_app s t : digit_stable s -> digit_stable (s ++ t).
  Proof. destruct s; simpl; intros H; [destruct H|exact H]. Qed.

  Lemma digit_rule_stable c r : digit_stable (digit_rule (c :: r)).
  Proof using H_ones_hd.
    simpl. destruct (negb (is_az (lower_c c)) && ascii_digit c) eqn:E; [|exact E].
    destruct (nth (digit_val c) ones []) as [|y w] eqn:En; simpl.
    - apply andb_false_iff. right. reflexivity.
    - apply andb_false_iff. right.
      assert (H : forall x, hd_error (nth (digit_val c) ones []) = Some x -> ascii_digit x = false)
        by (apply nth_ones_Forall; [exact H_ones_hd|discriminate]).
      apply H. rewrite En. reflexivity.
  Qed.

  Theorem convert_idem cu s l : PL cu false s = Some l -> PL cu false l = Some l.
  Proof using H_bl_ok H_us_word H_ones_word H_ones_hd H_uni_idem H_uni_us H_uni_ones.
    rewrite prepare_label_unfold. destruct (stripped cu s) as [|c r] eqn:E; [discriminate|].
    intros Hl. apply Some_inj in Hl.
    assert (Hs : stripped cu l = l).
    { subst l. apply stripped_good, good_bl_fix, good_digit_rule. rewrite <- E. apply stripped_is_good. }
    assert (Hst : digit_stable l).
    { subst l. unfold bl_fix. destruct (existsb (str_eqb (digit_rule (c :: r))) blacklist);
        [apply digit_stable_app|]; apply digit_rule_stable. }
    rewrite prepare_label_unfold, Hs. destruct l as [|x t]; [destruct Hst|].
    rewrite (digit_stable_fix _ Hst). f_equal.
    rewrite <- Hl. unfold bl_fix at 1. rewrite bl_fix_not_in. reflexivity.
  Qed.
End LabelProps.

(* a more natural (stronger) set of assumptions for the convert_unicode = true case of convert_idem:
   unidecode is the identity on ASCII, yields only ASCII, and the spelled-out digits are ASCII *)
Lemma uni_ascii_hyps (unidecode_c : N -> str) (ones : list str) :
  (forall c, (c < 128)%N -> unidecode_c c = [c]) ->
  (forall c d, In d (unidecode_c c) -> (d < 128)%N) ->
  Forall (Forall (fun d => (d < 128)%N)) ones ->
  (forall (is_word_c : N -> bool) c d, In d (unidecode_c c) -> is_word_c d = true -> unidecode_c d = [d]) /\
  unidecode_c 95%N = [95%N] /\
  Forall (Forall (fun d => unidecode_c d = [d])) ones.
Proof.
  intros Hid Hout Hones. split; [|split].
  - intros _ c d Hin _. apply Hid. eapply Hout. exact Hin.
  - apply Hid. reflexivity.
  - eapply Forall_impl; [|exact Hones]. intros w Hw. eapply Forall_impl; [|exact Hw].
    intros d Hd. apply Hid. exact Hd.
Qed.

(* convert_unicode = false: no assumption on unidecode at all *)
Theorem convert_idem_nocu (unidecode_c : N -> str) (is_word_c is_decimal_c : N -> bool) (lower_c : N -> str)
        (blacklist ones : list str) :
  is_word_c 95%N = true ->
  Forall (fun w => forall x, hd_error w = Some x -> ascii_digit x = false) ones ->
  Forall (Forall (fun d => is_word_c d = true)) ones ->
  blacklist_ok blacklist = true ->
  forall s l,
    prepare_label unidecode_c is_word_c is_decimal_c lower_c blacklist ones false false s = Some l ->
    prepare_label unidecode_c is_word_c is_decimal_c lower_c blacklist ones false false l = Some l.
Proof.
  intros Hw Hhd Hones Hbl s l H.
  change (prepare_label (fun c => [c]) is_word_c is_decimal_c lower_c blacklist ones false false l = Some l).
  apply (convert_idem (fun c => [c]) is_word_c is_decimal_c lower_c blacklist ones Hw Hhd Hones) with (s := s).
  - intros c d [Hd|[]] _. reflexivity.
  - reflexivity.
  - eapply Forall_impl; [|exact Hones]. intros w _. apply Forall_forall. intros d _. reflexivity.
  - exact Hbl.
  - exact H.
Qed.

(* both values of convert_unicode, with the natural assumptions on unidecode *)
Theorem convert_idem_ascii (unidecode_c : N -> str) (is_word_c is_decimal_c : N -> bool) (lower_c : N -> str)
        (blacklist ones : list str) :
  is_word_c 95%N = true ->
  Forall (fun w => forall x, hd_error w = Some x -> ascii_digit x = false) ones ->
  Forall (Forall (fun d => is_word_c d = true)) ones ->
  Forall (Forall (fun d => (d < 128)%N)) ones ->
  (forall c, (c < 128)%N -> unidecode_c c = [c]) ->
  (forall c d, In d (unidecode_c c) -> (d < 128)%N) ->
  blacklist_ok blacklist = true ->
  forall cu s l,
    prepare_label unidecode_c is_word_c is_decimal_c lower_c blacklist ones cu false s = Some l ->
    prepare_label unidecode_c is_word_c is_decimal_c lower_c blacklist ones cu false l = Some l.
Proof.
  intros Hw Hhd Hones Hascii Hid Hout Hbl cu s l H.
  destruct (uni_ascii_hyps unidecode_c ones Hid Hout Hascii) as [H1 [H2 H3]].
  exact (convert_idem unidecode_c is_word_c is_decimal_c lower_c blacklist ones Hw Hhd Hones
                      (H1 is_word_c) H2 H3 Hbl cu s l H).
Qed.

(* ------------------------------------------------------------------ *)
(* the real tables (Gen/Labels.v)                                      *)
(* ------------------------------------------------------------------ *)
Example blacklist_ok_real : blacklist_ok J2M.Gen.Labels.blacklist = true.
Proof. vm_compute; reflexivity. Qed.

(* every spelled-out digit consists of ASCII lower-case letters *)
Definition ones_ok (ones : list str) : bool := forallb (forallb ascii_lower) ones.

Lemma ascii_lower_facts d : ascii_lower d = true -> d <> 45%N /\ ascii_digit d = false /\ (d < 128)%N.
Proof.
  unfold ascii_lower, ascii_digit. intros H. apply andb_true_iff in H. destruct H as [H1 H2].
  apply N.leb_le in H1, H2. repeat split; try lia. apply andb_false_iff. right. apply N.leb_gt. lia.
Qed.

Lemma ones_ok_sound ones :
  ones_ok ones = true ->
  Forall (Forall (fun d => ascii_lower d = true)) ones /\
  Forall (fun w => ~ In 45%N w) ones /\
  Forall (fun w => forall x, hd_error w = Some x -> ascii_digit x = false) ones /\
  Forall (Forall (fun d => (d < 128)%N)) ones.
Proof.
  unfold ones_ok. rewrite forallb_forall. intros H.
  assert (H' : forall w, In w ones -> forall d, In d w -> ascii_lower d = true).
  { intros w Hw d Hd. specialize (H _ Hw). rewrite forallb_forall in H. apply H. exact Hd. }
  clear H. repeat split; apply Forall_forall; intros w Hw.
  - apply Forall_forall. intros d Hd. exact (H' _ Hw _ Hd).
  - intros Hin. destruct (ascii_lower_facts _ (H' _ Hw _ Hin)) as [Hne _]. apply Hne. reflexivity.
  - intros x Hx. destruct w as [|y w]; [discriminate|]. injection Hx as <-.
    apply (ascii_lower_facts y). apply (H' _ Hw). left. reflexivity.
  - apply Forall_forall. intros d Hd. apply (ascii_lower_facts d). exact (H' _ Hw _ Hd).
Qed.

Example ones_ok_real : ones_ok J2M.Gen.Labels.ones = true.
Proof. vm_compute; reflexivity. Qed.

Example ones_real_zero : nth 0 J2M.Gen.Labels.ones [] = [].
Proof. reflexivity. Qed.

(* the theorems instantiated with the real blacklist and the real spelled-out digits: what remains are the
   assumptions on the per-character tables of re / str.lower / unidecode *)
Section Real.
  Variable unidecode_c : N -> str.
  Variable is_word_c : N -> bool.
  Variable is_decimal_c : N -> bool.
  Variable lower_c : N -> str.
  Local Notation PLr :=
    (prepare_label unidecode_c is_word_c is_decimal_c lower_c J2M.Gen.Labels.blacklist J2M.Gen.Labels.ones).
  Local Notation fold_r := (fold_key unidecode_c is_word_c lower_c J2M.Gen.Labels.ones).

  Hypothesis R_us_lower_eq : lower_c 95 = [95%N].
  Hypothesis R_us_lower_ni : forall c, c <> 95%N -> ~ In 95%N (lower_c c).
  Hypothesis R_hyphen : is_word_c 45 = false.
  Hypothesis R_us_word : is_word_c 95 = true.
  Hypothesis R_lower_word : forall c, ascii_lower c = true -> is_word_c c = true.
  Hypothesis R_lower_digit : forall c, ascii_digit c = true -> is_az (lower_c c) = false.
  Hypothesis R_lower_ne : forall c, lower_c c <> [].
  Hypothesis R_lower_hd : forall c x, ascii_digit c = false -> hd_error (lower_c c) = Some x -> ascii_digit x = false.
  Hypothesis R_uni_ascii_id : forall c, (c < 128)%N -> unidecode_c c = [c].
  Hypothesis R_uni_ascii_out : forall c d, In d (unidecode_c c) -> (d < 128)%N.

  Theorem label_fold_real cu k l : PLr cu true k = Some l -> remove_us l = fold_r cu k.
  Proof using R_us_lower_eq R_us_lower_ni R_hyphen.
    apply label_fold; try assumption. apply (ones_ok_sound _ ones_ok_real).
  Qed.

  (* C11 *)
  Theorem label_injective_real cu k1 k2 l1 l2 :
    PLr cu true k1 = Some l1 -> PLr cu true k2 = Some l2 -> fold_r cu k1 <> fold_r cu k2 -> l1 <> l2.
  Proof using R_us_lower_eq R_us_lower_ni R_hyphen.
    apply label_injective; try assumption. apply (ones_ok_sound _ ones_ok_real).
  Qed.

  Theorem label_not_blacklisted_real cu snake k l :
    PLr cu snake k = Some l -> existsb (str_eqb l) J2M.Gen.Labels.blacklist = false.
  Proof. apply label_not_blacklisted. exact blacklist_ok_real. Qed.

  Theorem label_first_char_real cu snake k l :
    PLr cu snake k = Some l -> l <> [] /\ forall x, hd_error l = Some x -> ascii_digit x = false.
  Proof using R_lower_digit R_lower_ne R_lower_hd.
    apply label_first_char; try assumption. apply (ones_ok_sound _ ones_ok_real).
  Qed.

  (* C14 *)
  Theorem convert_idem_real cu s l : PLr cu false s = Some l -> PLr cu false l = Some l.
  Proof using R_us_word R_lower_word R_uni_ascii_id R_uni_ascii_out.
    destruct (ones_ok_sound _ ones_ok_real) as [Hl [_ [Hhd Hascii]]].
    apply convert_idem_ascii; try assumption; [|exact blacklist_ok_real].
    eapply Forall_impl; [|exact Hl]. intros w Hw. eapply Forall_impl; [|exact Hw].
    intros d Hd. apply R_lower_word. exact Hd.
  Qed.
End Real.

(* ------------------------------------------------------------------ *)
(* sanity tests and counterexamples over small concrete tables         *)
(* ------------------------------------------------------------------ *)
Module LabelTest.
  Definition lower_a (c : N) : str := if ascii_upper c then [(c + 32)%N] else [c].
  Definition uni_id (c : N) : str := [c].
  Definition word_a (c : N) : bool := ascii_upper c || ascii_lower c || ascii_digit c || N.eqb c 95.
  Definition PLr := prepare_label uni_id word_a ascii_digit lower_a J2M.Gen.Labels.blacklist J2M.Gen.Labels.ones.

  (* "fooBar" -> "foo_bar" *)
  Example t_foobar : PLr false true [102;111;111;66;97;114]%N = Some [102;111;111;95;98;97;114]%N.
  Proof. vm_compute; reflexivity. Qed.
  (* "foo-bar" -> "foobar" ("-" is stripped by \W before underscore sees it) *)
  Example t_foo_hyphen_bar : PLr false true [102;111;111;45;98;97;114]%N = Some [102;111;111;98;97;114]%N.
  Proof. vm_compute; reflexivity. Qed.
  (* "1abc" -> "one_abc", "0abc" -> "_abc", "9" -> "nine_", "0" -> "_" *)
  Example t_1abc : PLr false true [49;97;98;99]%N = Some [111;110;101;95;97;98;99]%N.
  Proof. vm_compute; reflexivity. Qed.
  Example t_0abc : PLr false true [48;97;98;99]%N = Some [95;97;98;99]%N.
  Proof. vm_compute; reflexivity. Qed.
  Example t_9 : PLr false false [57]%N = Some [110;105;110;101;95]%N.
  Proof. vm_compute; reflexivity. Qed.
  Example t_0 : PLr false false [48]%N = Some [95]%N.
  Proof. vm_compute; reflexivity. Qed.
  (* "--" -> IndexError, "class" -> "class_", "Class" + snake -> "class_", "None" -> "None_" *)
  Example t_none : PLr false true [45;45]%N = None.
  Proof. vm_compute; reflexivity. Qed.
  Example t_class : PLr false false [99;108;97;115;115]%N = Some [99;108;97;115;115;95]%N.
  Proof. vm_compute; reflexivity. Qed.
  Example t_Class : PLr false true [67;108;97;115;115]%N = Some [99;108;97;115;115;95]%N.
  Proof. vm_compute; reflexivity. Qed.
  (* fold_key: "fooBar", "FooBar", "foo_bar", "foo-bar" all fold to "foobar" *)
  Example t_fold :
    map (fold_key uni_id word_a lower_a J2M.Gen.Labels.ones false)
        [[102;111;111;66;97;114]; [70;111;111;66;97;114]; [102;111;111;95;98;97;114]; [102;111;111;45;98;97;114]]%N
    = repeat [102;111;111;98;97;114]%N 4.
  Proof. vm_compute; reflexivity. Qed.

  (* COUNTEREXAMPLE 1: blacklist_ok is necessary for idempotence and for label_not_blacklisted.
     With blacklist {"a", "a_"}: "a" -> "a_" -> "a__", and the first result is itself blacklisted. *)
  Definition bl_bad : list str := [[97]; [97;95]]%N.
  Definition PLbad := prepare_label uni_id word_a ascii_digit lower_a bl_bad J2M.Gen.Labels.ones.
  Example cex_blacklist_ok : blacklist_ok bl_bad = false.
  Proof. vm_compute; reflexivity. Qed.
  Example cex_idem_blacklist :
    PLbad false false [97]%N = Some [97;95]%N /\ PLbad false false [97;95]%N = Some [97;95;95]%N.
  Proof. vm_compute; split; reflexivity. Qed.
  Example cex_not_blacklisted : existsb (str_eqb [97;95]%N) bl_bad = true.
  Proof. vm_compute; reflexivity. Qed.

  (* COUNTEREXAMPLE 2: H_ones_hd is necessary for idempotence and for label_first_char.
     If a spelled-out digit started with an ASCII digit (ones[1] = "2x"): "1" -> "2x_" -> "two_x_". *)
  Definition ones_bad : list str := [[]; [50;120]; [116;119;111]]%N.
  Definition PLbad2 := prepare_label uni_id word_a ascii_digit lower_a [] ones_bad.
  Example cex_idem_ones :
    PLbad2 false false [49]%N = Some [50;120;95]%N /\ PLbad2 false false [50;120;95]%N = Some [116;119;111;95;120;95]%N.
  Proof. vm_compute; split; reflexivity. Qed.

  (* COUNTEREXAMPLE 3: with convert_unicode = true, idempotence needs unidecode to be idempotent:
     if unidecode maps 233 ("e-acute") to "e" but "e" to "E", the second conversion changes the name. *)
  Definition uni_bad (c : N) : str := if N.eqb c 233 then [101%N] else if N.eqb c 101 then [69%N] else [c].
  Definition PLbad3 := prepare_label uni_bad word_a ascii_digit lower_a [] J2M.Gen.Labels.ones.
  Example cex_idem_unidecode :
    PLbad3 true false [233]%N = Some [101]%N /\ PLbad3 true false [101]%N = Some [69]%N.
  Proof. vm_compute; split; reflexivity. Qed.

  (* COUNTEREXAMPLE 4: the snake-case conversion is NOT injective on raw keys (only on fold_key):
     "fooBar" and "foo_bar" give the same field name. *)
  Example cex_collision :
    PLr false true [102;111;111;66;97;114]%N = PLr false true [102;111;111;95;98;97;114]%N.
  Proof. vm_compute; reflexivity. Qed.

  (* the concrete tables satisfy every oracle hypothesis that is decidable by computation *)
  Example hyps_concrete :
    lower_a 95 = [95%N] /\ word_a 45 = false /\ word_a 95 = true /\ uni_id 95 = [95%N].
  Proof. vm_compute; repeat split; reflexivity. Qed.

  (* NON-VACUITY: the oracle hypotheses are jointly satisfiable — ASCII tables satisfy all of them, so the
     *_real theorems have closed instances *)
  Definition uni_q (c : N) : str := if N.ltb c 128 then [c] else [].   (* unknown characters are dropped *)

  Lemma lower_a_us_ni c : c <> 95%N -> ~ In 95%N (lower_a c).
  Proof.
    unfold lower_a, ascii_upper. destruct ((65 <=? c)%N && (c <=? 90)%N) eqn:E.
    - apply andb_true_iff in E. destruct E as [E1 E2]. apply N.leb_le in E1, E2. intros _ [H|[]]. lia.
    - intros Hne [H|[]]. congruence.
  Qed.
  Lemma lower_a_ne c : lower_a c <> [].
  Proof. unfold lower_a. destruct (ascii_upper c); discriminate. Qed.
  Lemma lower_a_hd c x : ascii_digit c = false -> hd_error (lower_a c) = Some x -> ascii_digit x = false.
  Proof.
    unfold lower_a, ascii_upper. destruct ((65 <=? c)%N && (c <=? 90)%N) eqn:E; simpl; intros Hd Hx; injection Hx as <-.
    - apply andb_true_iff in E. destruct E as [E1 E2]. apply N.leb_le in E1, E2.
      unfold ascii_digit. apply andb_false_iff. right. apply N.leb_gt. lia.
    - exact Hd.
  Qed.
  Lemma lower_a_digit c : ascii_digit c = true -> is_az (lower_a c) = false.
  Proof.
    unfold ascii_digit. intros H. apply andb_true_iff in H. destruct H as [H1 H2]. apply N.leb_le in H1, H2.
    unfold lower_a, ascii_upper. replace (65 <=? c)%N with false by (symmetry; apply N.leb_gt; lia).
    assert (Hc : (97 ?= c)%N = Gt) by (apply N.compare_gt_iff; lia).
    unfold is_az, str_le. cbn [andb str_cmp]. rewrite Hc. reflexivity.
  Qed.
  Lemma word_a_lower c : ascii_lower c = true -> word_a c = true.
  Proof. unfold word_a. intros ->. destruct (ascii_upper c); reflexivity. Qed.
  Lemma uni_q_id c : (c < 128)%N -> uni_q c = [c].
  Proof. unfold uni_q. intros H. apply N.ltb_lt in H. rewrite H. reflexivity. Qed.
  Lemma uni_q_out c d : In d (uni_q c) -> (d < 128)%N.
  Proof. unfold uni_q. destruct (N.ltb_spec c 128); [intros [<-|[]]; assumption|intros []]. Qed.

  Definition label_injective_concrete :=
    label_injective_real uni_q word_a ascii_digit lower_a eq_refl lower_a_us_ni eq_refl.
  Definition label_first_char_concrete :=
    label_first_char_real uni_q word_a ascii_digit lower_a lower_a_digit lower_a_ne lower_a_hd.
  Definition convert_idem_concrete :=
    convert_idem_real uni_q word_a ascii_digit lower_a eq_refl word_a_lower uni_q_id uni_q_out.
End LabelTest.

(* ------------------------------------------------------------------ *)
(* final statements and assumptions                                    *)
(* ------------------------------------------------------------------ *)
Check remove_us_pass1.
Check remove_us_pass2.
Check underscore_fold_gen.
Check underscore_fold.
Check label_fold.
Check label_injective.
Check label_none_iff.
Check label_not_blacklisted.
Check label_first_char_raw.
Check label_first_char.
Check label_zero.
Check convert_idem.
Check uni_ascii_hyps.
Check convert_idem_nocu.
Check convert_idem_ascii.
Check label_fold_real.
Check label_injective_real.
Check label_not_blacklisted_real.
Check label_first_char_real.
Check convert_idem_real.
Check ones_ok_sound.

Print Assumptions remove_us_pass1.
Print Assumptions remove_us_pass2.
Print Assumptions underscore_fold_gen.
Print Assumptions underscore_fold.
Print Assumptions label_fold.
Print Assumptions label_injective.
Print Assumptions label_none_iff.
Print Assumptions label_not_blacklisted.
Print Assumptions label_first_char_raw.
Print Assumptions label_first_char.
Print Assumptions label_zero.
Print Assumptions convert_idem.
Print Assumptions uni_ascii_hyps.
Print Assumptions convert_idem_nocu.
Print Assumptions convert_idem_ascii.
Print Assumptions label_fold_real.
Print Assumptions label_injective_real.
Print Assumptions label_not_blacklisted_real.
Print Assumptions label_first_char_real.
Print Assumptions convert_idem_real.
Print Assumptions ones_ok_sound.
Print Assumptions blacklist_ok_real.
Print Assumptions ones_ok_real.
Check LabelTest.label_injective_concrete.
Check LabelTest.convert_idem_concrete.
Print Assumptions LabelTest.label_injective_concrete.
Print Assumptions LabelTest.label_first_char_concrete.
Print Assumptions LabelTest.convert_idem_concrete.

(* NOT PROVED: nothing — every statement of the brief (P1)-(P8) is proved above.
   Remarks.
   - blacklist_ok holds of the real blacklist (blacklist_ok_real); no offending words.
   - Idempotence (convert_idem) has no digit/blacklist corner case once blacklist_ok and H_ones_hd hold; both are
     necessary (LabelTest.cex_idem_blacklist, LabelTest.cex_idem_ones), and for convert_unicode = true so is the
     idempotence of unidecode on word characters (LabelTest.cex_idem_unidecode).
   - Only the snake = false conversion is shown idempotent; idempotence of the snake-case conversion was not part of
     the brief and is not claimed. *)
