(* Proofs/NormalForm.v — C08: the normal form produced by optimize_type / _optimize_union.

   Contents (all closed under the global context, see the Print Assumptions at the end):
   (1) facts on mk_union (DUnion.__init__):  mk_union_no_union, mk_union_nodupb, mk_union_count_lit,
       mk_union_lit_ok, mk_union_str_lit, mk_union_nonlit_from, mk_union_no_opt_ptr, mk_union_nonempty,
       packaged as mk_union_raw_ok.
   (2) optimize_raw_nfo / optimize_fields_nfo: one pass over a raw term ends in nfo.  The statement with
       raw_field alone is FALSE (Examples optimize_raw_nfo_refuted_literal / _optional); two decidable side
       conditions are added: opt_top (Optional only on top of a field) and lits_bounded (a non-overflowed literal
       is within the StringLiteral limits).  The core is optimize_RF_nfo on the working invariant RF.
       generate_nfo shows that both side conditions hold on everything the front end (detect + merge_field_sets)
       produces: the whole pipeline ends in nfo, unconditionally.
   (3) optimize_nfo_id: a second pass over a normal form is the identity, member order included.  The statement
       with nfo alone is FALSE (Examples optimize_nfo_id_refuted_literal / _optnull / _keys); the decidable side
       condition wf3 is added (literal sets sorted, duplicate-free and within the limits; object keys distinct;
       no List[Optional[None]] / Dict[str, Optional[None]]).
   (4) optimize_total_nfo (same side condition), from the stronger optimize_nfo_stable.
   (5) optimize_wf3: the output of the first pass satisfies wf3; generate_wf3, generate_second_pass_id,
       generate_second_pass_total: on well-formed JSON samples (distinct keys) the result of `generate` is a fixpoint
       of optimize_fields for every comparator and every fuel.

   D32 repair of regroup (the work-list is flat_map members_deep ts): members_deep_id, members_deep_no_opt_union,
   flat_map_members_deep_id, regroup_deep (regroup in general), regroup_perm_deep, regroup_opt_union, WOU.  Every theorem
   above keeps its statement; the internal lemmas regroup_noopt, regroup_perm, regroup_single, regroup_opt and WO get one
   more premise (no union member / is_union = false), see regroup_noopt_old_refuted, and `stable` a fourth component
   (Optional[x] as the only member of a dunion). *)
From Coq Require Import List Bool Arith NArith Lia.
From J2M.Model Require Import Base Union Merge Optimize Detect.
From J2M.Sem Require Import NF.
Import ListNotations.

(* ------------------------------------------------------------------ *)
(* 0. Reflection of the boolean equalities                             *)
Lemma str_eqb_eq a b : str_eqb a b = true <-> a = b.
Proof. unfold str_eqb. destruct (list_eq_dec N.eq_dec a b); split; congruence. Qed.
Lemma strs_eqb_eq a b : strs_eqb a b = true <-> a = b.
Proof. unfold strs_eqb. destruct (list_eq_dec (list_eq_dec N.eq_dec) a b); split; congruence. Qed.
Lemma pseudo_eqb_eq p q : pseudo_eqb p q = true <-> p = q.
Proof. destruct p, q; simpl; split; congruence. Qed.

Lemma ty_eqb_eq : forall a b, ty_eqb a b = true <-> a = b.
Proof.
  induction a using ty_ind2; destruct b; simpl; try (split; congruence).
  - rewrite pseudo_eqb_eq. split; congruence.
  - rewrite andb_true_iff, eqb_true_iff, strs_eqb_eq. split; [intros [-> ->]; reflexivity | intros E; inversion E; auto].
  - rewrite IHa. split; congruence.
  - rewrite IHa. split; congruence.
  - rewrite IHa. split; congruence.
  - match goal with |- ?f ts ts0 = true <-> _ => assert (E : forall ys, f ts ys = true <-> ts = ys) end.
    { induction H as [|x r Hx Hr IH]; intros [|y ys]; try (split; congruence).
      rewrite andb_true_iff, Hx, IH. split; [intros [-> ->]; reflexivity | intros E; inversion E; auto]. }
    rewrite E. split; congruence.
  - match goal with |- ?f fs fs0 = true <-> _ => assert (E : forall ys, f fs ys = true <-> fs = ys) end.
    { induction H as [|[k x] r Hx Hr IH]; intros [|[k' y] ys]; try (split; congruence).
      simpl in Hx. rewrite !andb_true_iff, Hx, IH, str_eqb_eq.
      split; [intros [[-> ->] ->]; reflexivity | intros E; inversion E; auto]. }
    rewrite E. split; congruence.
  - rewrite N.eqb_eq. split; congruence.
Qed.

(* ------------------------------------------------------------------ *)
(* 1. Lists: membership, duplicates, counting                           *)
Lemma existsb_ty_eqb t u : existsb (ty_eqb t) u = true <-> In t u.
Proof.
  rewrite existsb_exists. split.
  - intros [x [Hi He]]. apply ty_eqb_eq in He. subst. exact Hi.
  - intros Hi. exists t. split; [exact Hi | apply ty_eqb_eq; reflexivity].
Qed.
Lemma existsb_ty_eqb_false t u : existsb (ty_eqb t) u = false <-> ~ In t u.
Proof.
  rewrite <- existsb_ty_eqb. destruct (existsb (ty_eqb t) u); split; congruence.
Qed.
Lemma nodupb_NoDup l : nodupb l = true <-> NoDup l.
Proof.
  induction l as [|x r IH]; simpl.
  - split; [constructor | reflexivity].
  - rewrite andb_true_iff, negb_true_iff, existsb_ty_eqb_false, IH. split.
    + intros [A B]. constructor; assumption.
    + intros H. inversion H; subst. split; assumption.
Qed.

Lemma count_app {A} (f : A -> bool) a b : count f (a ++ b) = count f a + count f b.
Proof. unfold count. rewrite filter_app, app_length. reflexivity. Qed.
Lemma count_cons {A} (f : A -> bool) x l : count f (x :: l) = (if f x then 1 else 0) + count f l.
Proof. unfold count. simpl. destruct (f x); reflexivity. Qed.
Lemma count_zero {A} (f : A -> bool) l : (forall x, In x l -> f x = false) -> count f l = 0.
Proof.
  induction l as [|x r IH]; intros H; [reflexivity|].
  rewrite count_cons, (H x (or_introl eq_refl)), IH; [reflexivity|].
  intros y Hy. apply H. right. exact Hy.
Qed.
Lemma count_pos {A} (f : A -> bool) l x : In x l -> f x = true -> 1 <= count f l.
Proof.
  induction l as [|y r IH]; intros Hi Hf; [destruct Hi|].
  rewrite count_cons. destruct Hi as [->|Hi]; [rewrite Hf; lia|]. specialize (IH Hi Hf). lia.
Qed.

(* ------------------------------------------------------------------ *)
(* 2. Analysis of mk_union                                              *)
Definition nonlit (t : ty) : bool := negb (is_lit t).
Definition ded (l u : list ty) : list ty := fold_left add_unique l u.
Definition ins_all (l ls : list str) : list str := fold_left (fun acc s => insert_sorted s acc) l ls.
Definition lit_step (st : bool * list str) (t : ty) : bool * list str :=
  let '(ul, ls) := st in
  match t with
  | TLit o l => if negb ul then (false, ls) else if o then (false, ls) else (true, ins_all l ls)
  | _ => ((if is_str t then false else ul), ls)
  end.

Lemma union_fold : forall F u ul ls,
  fold_left union_step F (u, ul, ls) =
  (ded (filter nonlit F) u, fst (fold_left lit_step F (ul, ls)), snd (fold_left lit_step F (ul, ls))).
Proof.
  induction F as [|a F IH]; intros u ul ls; [reflexivity|].
  destruct a; simpl; try (rewrite IH; reflexivity).
  destruct ul; simpl; [destruct overflow; simpl|]; rewrite IH; reflexivity.
Qed.

Lemma In_add_unique x u t : In x (add_unique u t) <-> In x u \/ x = t.
Proof.
  unfold add_unique. destruct (existsb (ty_eqb t) u) eqn:E.
  - apply existsb_ty_eqb in E. split; [auto | intros [H| ->]; assumption].
  - rewrite in_app_iff. simpl. split; [intros [H|[H|[]]]; auto | intros [H|H]; auto].
Qed.
Lemma In_ded : forall l u x, In x (ded l u) <-> In x u \/ In x l.
Proof.
  induction l as [|a l IH]; intros u x; simpl.
  - split; [auto | intros [H|[]]; exact H].
  - unfold ded in *. simpl. rewrite IH, In_add_unique. split; [intros [[H|H]|H] | intros [H|[H|H]]]; auto.
Qed.
Lemma NoDup_snoc (u : list ty) t : NoDup u -> ~ In t u -> NoDup (u ++ [t]).
Proof.
  induction u as [|a u IH]; simpl; intros Hn Hi.
  - constructor; [intros []|constructor].
  - inversion Hn; subst. constructor.
    + rewrite in_app_iff. simpl. intros [A|[A|[]]]; [auto|]. subst. apply Hi. left. reflexivity.
    + apply IH; [assumption|]. intros A. apply Hi. right. exact A.
Qed.
Lemma NoDup_add_unique u t : NoDup u -> NoDup (add_unique u t).
Proof.
  intros H. unfold add_unique. destruct (existsb (ty_eqb t) u) eqn:E; [exact H|].
  apply existsb_ty_eqb_false in E.
  apply NoDup_snoc; assumption.
Qed.
Lemma NoDup_ded : forall l u, NoDup u -> NoDup (ded l u).
Proof.
  induction l as [|a l IH]; intros u H; [exact H|].
  unfold ded in *. simpl. apply IH. apply NoDup_add_unique. exact H.
Qed.

Lemma In_filter_nonlit x F : In x (filter nonlit F) <-> In x F /\ is_lit x = false.
Proof. rewrite filter_In. unfold nonlit. rewrite negb_true_iff. reflexivity. Qed.

(* the flag stays true only if no str and no overflowed literal was met *)
Lemma lit_fold_true : forall F ul ls,
  fst (fold_left lit_step F (ul, ls)) = true ->
  ul = true /\ forall t, In t F -> is_str t = false /\ (forall l, t <> TLit true l).
Proof.
  induction F as [|a F IH]; intros ul ls H; cbn [fold_left] in H.
  - split; [exact H | intros t []].
  - destruct (lit_step (ul, ls) a) as [ul1 ls1] eqn:E.
    destruct (IH _ _ H) as [U1 HF]. subst ul1.
    assert (ul = true /\ is_str a = false /\ forall l, a <> TLit true l) as [U [S O]].
    { destruct a; simpl in E; inversion E; subst; try (repeat split; congruence).
      destruct ul; simpl in E; [|inversion E].
      destruct overflow; [inversion E|]. repeat split; congruence. }
    split; [exact U|]. intros t [<-|Hi]; [split; assumption | apply HF; exact Hi].
Qed.

Lemma ins_all_nonempty : forall l ls, ls <> [] -> ins_all l ls <> [].
Proof.
  induction l as [|s l IH]; intros ls H; [exact H|].
  unfold ins_all in *. simpl. apply IH.
  destruct ls as [|x r]; [congruence|]. simpl. destruct (str_cmp s x); congruence.
Qed.
Lemma ins_all_nonempty' l ls : l <> [] -> ins_all l ls <> [].
Proof.
  destruct l as [|s l]; [congruence|]. intros _. unfold ins_all. simpl. apply ins_all_nonempty.
  destruct ls as [|x r]; simpl; [congruence|]. destruct (str_cmp s x); congruence.
Qed.
(* the collected literal set is non-empty as soon as one non-empty, non-overflowed literal is met with the flag on *)
Lemma lit_fold_nonempty : forall F ul ls, ls <> [] -> snd (fold_left lit_step F (ul, ls)) <> [].
Proof.
  induction F as [|a F IH]; intros ul ls H; cbn [fold_left]; [exact H|].
  destruct (lit_step (ul, ls) a) as [ul1 ls1] eqn:E. apply IH.
  destruct a; simpl in E; inversion E; subst; try exact H.
  destruct ul; simpl in E; [|inversion E; subst; exact H].
  destruct overflow; inversion E; subst; [exact H|]. apply ins_all_nonempty. exact H.
Qed.

Definition mk_u (ts : list ty) : list ty := ded (filter nonlit (flatten_union ts)) [].
Definition mk_ul (ts : list ty) : bool := fst (fold_left lit_step (flatten_union ts) (true, [])).
Definition mk_ls (ts : list ty) : list str := snd (fold_left lit_step (flatten_union ts) (true, [])).

Lemma mk_union_cases ts :
  (mk_union ts = mk_u ts /\ mk_ul ts = true /\ mk_ls ts = []) \/
  (mk_union ts = mk_u ts ++ [TLit false (mk_ls ts)] /\ mk_ul ts = true /\ mk_ls ts <> [] /\ lit_overflow (mk_ls ts) = false) \/
  (mk_union ts = add_unique (mk_u ts) TStr /\ (mk_ul ts = false \/ (mk_ls ts <> [] /\ lit_overflow (mk_ls ts) = true))).
Proof.
  unfold mk_union. rewrite union_fold. fold (mk_u ts) (mk_ul ts) (mk_ls ts).
  destruct (mk_ls ts) as [|s r] eqn:L.
  - destruct (mk_ul ts); [left; auto | right; right; auto].
  - destruct (mk_ul ts); [|right; right; auto].
    destruct (lit_overflow (s :: r)) eqn:O.
    + right. right. split; [reflexivity|]. right. split; congruence.
    + right. left. repeat split; congruence.
Qed.

Lemma mk_u_In x ts : In x (mk_u ts) <-> In x (flatten_union ts) /\ is_lit x = false.
Proof. unfold mk_u. rewrite In_ded, In_filter_nonlit. simpl. tauto. Qed.
Lemma mk_u_NoDup ts : NoDup (mk_u ts).
Proof. apply NoDup_ded. constructor. Qed.
Lemma mk_ul_true ts : mk_ul ts = true ->
  forall t, In t (flatten_union ts) -> is_str t = false /\ (forall l, t <> TLit true l).
Proof. intros H. apply (lit_fold_true _ _ _ H). Qed.

(* membership in the result *)
Lemma mk_union_In ts x : In x (mk_union ts) ->
  (In x (flatten_union ts) /\ is_lit x = false) \/ x = TStr \/
  (x = TLit false (mk_ls ts) /\ mk_ul ts = true /\ mk_ls ts <> [] /\ lit_overflow (mk_ls ts) = false
   /\ mk_union ts = mk_u ts ++ [x]).
Proof.
  destruct (mk_union_cases ts) as [[E _]|[[E [U [N O]]]|[E _]]]; rewrite E.
  - rewrite mk_u_In. auto.
  - rewrite in_app_iff, mk_u_In. simpl. intros [H|[<-|[]]]; auto. right. right. repeat split; assumption.
  - rewrite In_add_unique, mk_u_In. intros [H| ->]; auto.
Qed.

(* flat never returns a union *)
Lemma flat_no_union : forall t x, In x (flat t) -> is_union x = false.
Proof.
  induction t using ty_ind2; simpl; intros x Hx; try (destruct Hx as [<-|[]]; reflexivity).
  induction H as [|y r Hy Hr IH]; [destruct Hx|].
  apply in_app_iff in Hx. destruct Hx as [Hx|Hx]; [apply Hy; exact Hx | apply IH; exact Hx].
Qed.

(* (1a) *)
Lemma mk_union_no_union ts x : In x (mk_union ts) -> is_union x = false.
Proof.
  intros H. apply mk_union_In in H. destruct H as [[H _]|[->|[-> _]]]; try reflexivity.
  apply (flat_no_union (TUnion ts)). exact H.
Qed.
(* (1b) *)
Lemma mk_union_NoDup ts : NoDup (mk_union ts).
Proof.
  destruct (mk_union_cases ts) as [[E _]|[[E _]|[E _]]]; rewrite E.
  - apply mk_u_NoDup.
  - apply NoDup_snoc; [apply mk_u_NoDup|]. rewrite mk_u_In. simpl. intros [_ A]. discriminate.
  - apply NoDup_add_unique. apply mk_u_NoDup.
Qed.
Lemma mk_union_nodupb ts : nodupb (mk_union ts) = true.
Proof. apply nodupb_NoDup. apply mk_union_NoDup. Qed.
(* (1c) *)
Lemma mk_u_count_lit ts : count is_lit (mk_u ts) = 0.
Proof. apply count_zero. intros x Hx. apply mk_u_In in Hx. apply Hx. Qed.
Lemma mk_union_count_lit ts : count is_lit (mk_union ts) <= 1.
Proof.
  destruct (mk_union_cases ts) as [[E _]|[[E _]|[E _]]]; rewrite E.
  - rewrite mk_u_count_lit. lia.
  - rewrite count_app, mk_u_count_lit. unfold count. simpl. lia.
  - unfold add_unique. destruct (existsb (ty_eqb TStr) (mk_u ts)).
    + rewrite mk_u_count_lit. lia.
    + rewrite count_app, mk_u_count_lit. unfold count. simpl. lia.
Qed.
Lemma mk_union_lit_ok ts o ls : In (TLit o ls) (mk_union ts) -> o = false /\ ls <> [] /\ lit_overflow ls = false.
Proof.
  intros H. apply mk_union_In in H. destruct H as [[_ H]|[H|[H [_ [N [O _]]]]]]; try discriminate.
  inversion H; subst. auto.
Qed.
(* (1d) *)
Lemma mk_union_str_lit ts o ls : In TStr (mk_union ts) -> In (TLit o ls) (mk_union ts) -> False.
Proof.
  intros Hs Hl. apply mk_union_In in Hl. destruct Hl as [[_ H]|[H|[H [U [_ [_ E]]]]]]; try discriminate.
  rewrite E in Hs. apply in_app_iff in Hs. destruct Hs as [Hs|[Hs|[]]]; [|discriminate].
  apply mk_u_In in Hs. destruct Hs as [Hs _]. apply (mk_ul_true _ U) in Hs. destruct Hs as [Hs _]. discriminate.
Qed.
(* (1e) *)
Lemma mk_union_nonlit_from ts x : In x (mk_union ts) -> is_lit x = false -> In x (flatten_union ts) \/ x = TStr.
Proof.
  intros H L. apply mk_union_In in H. destruct H as [[H _]|[H|[H _]]]; auto. subst. discriminate.
Qed.
(* (1f) *)
Lemma mk_union_no_opt_ptr ts :
  (forall t, In t (flatten_union ts) -> is_opt t = false /\ is_ptr t = false) ->
  forall x, In x (mk_union ts) -> is_opt x = false /\ is_ptr x = false.
Proof.
  intros Hf x H. apply mk_union_In in H. destruct H as [[H _]|[->|[-> _]]]; auto.
Qed.

(* non-emptiness: needs that no literal met is the empty non-overflowed one *)
Lemma mk_union_nonempty ts :
  flatten_union ts <> [] ->
  (forall ls, In (TLit false ls) (flatten_union ts) -> ls <> []) ->
  mk_union ts <> [].
Proof.
  intros Hne Hl.
  destruct (mk_union_cases ts) as [[E [U L]]|[[E _]|[E _]]]; rewrite E.
  - destruct (flatten_union ts) as [|a F] eqn:EF; [congruence|].
    destruct (is_lit a) eqn:LA.
    + exfalso. destruct a; try discriminate. unfold mk_ul, mk_ls in *. rewrite EF in *.
      assert (O : overflow = false).
      { destruct (lit_fold_true _ _ _ U) as [_ H]. destruct overflow; [|reflexivity].
        exfalso. apply (proj2 (H _ (or_introl eq_refl)) ls). reflexivity. }
      subst. simpl in L. revert L. apply lit_fold_nonempty. apply ins_all_nonempty'.
      apply Hl. left. reflexivity.
    + intros Eu. assert (In a (mk_u ts)) as Hi.
      { apply mk_u_In. rewrite EF. split; [left; reflexivity | exact LA]. }
      rewrite Eu in Hi. destruct Hi.
  - intros A. apply app_eq_nil in A. destruct A as [_ A]. discriminate.
  - intros A. assert (In TStr (add_unique (mk_u ts) TStr)) as Hi by (apply In_add_unique; auto).
    rewrite A in Hi. destruct Hi.
Qed.

Lemma forallb_In {A} (f : A -> bool) l : forallb f l = true <-> forall x, In x l -> f x = true.
Proof. apply forallb_forall. Qed.

Theorem mk_union_raw_ok ts :
  (forall t, In t (flatten_union ts) -> is_opt t = false /\ is_ptr t = false) ->
  mk_union ts <> [] ->
  raw_union_ok (mk_union ts) = true.
Proof.
  intros Hf Hne. unfold raw_union_ok. rewrite !andb_true_iff. repeat split.
  - apply forallb_forall. intros x Hx. rewrite (mk_union_no_union _ _ Hx).
    destruct (mk_union_no_opt_ptr _ Hf _ Hx) as [-> ->]. reflexivity.
  - apply mk_union_nodupb.
  - apply Nat.leb_le. apply mk_union_count_lit.
  - apply forallb_forall. intros x Hx. destruct x; try reflexivity.
    destruct (mk_union_lit_ok _ _ _ Hx) as [-> [N _]]. destruct ls; [congruence|reflexivity].
  - apply negb_true_iff. apply andb_false_iff.
    destruct (existsb is_str (mk_union ts)) eqn:S; [right|left; reflexivity].
    destruct (existsb is_lit (mk_union ts)) eqn:L; [exfalso|reflexivity].
    apply existsb_exists in S. destruct S as [s [Hs Ss]]. destruct s; try discriminate.
    apply existsb_exists in L. destruct L as [l [Hl Ll]]. destruct l; try discriminate.
    eapply mk_union_str_lit; eassumption.
  - destruct (mk_union ts); [congruence|reflexivity].
Qed.

(* ------------------------------------------------------------------ *)
(* 3. Sublists, counting, remove_first                                  *)
Inductive sub {A} : list A -> list A -> Prop :=
| sub_nil : sub [] []
| sub_skip : forall x a b, sub a b -> sub a (x :: b)
| sub_keep : forall x a b, sub a b -> sub (x :: a) (x :: b).

Lemma sub_refl {A} (l : list A) : sub l l.
Proof. induction l; constructor; assumption. Qed.
Lemma sub_nil_l {A} (l : list A) : sub [] l.
Proof. induction l; constructor; assumption. Qed.
Lemma sub_trans {A} (a b c : list A) : sub a b -> sub b c -> sub a c.
Proof.
  intros H1 H2. revert a H1. induction H2; intros a0 H1.
  - exact H1.
  - constructor. apply IHsub. exact H1.
  - inversion H1; subst.
    + constructor. apply IHsub. assumption.
    + apply sub_keep. apply IHsub. assumption.
Qed.
Lemma sub_In {A} (a b : list A) x : sub a b -> In x a -> In x b.
Proof. induction 1; simpl; intros Hi; [exact Hi | right; auto | destruct Hi; [left; assumption | right; auto]]. Qed.
Lemma sub_filter {A} (f : A -> bool) l : sub (filter f l) l.
Proof. induction l as [|x r IH]; simpl; [constructor|]. destruct (f x); constructor; assumption. Qed.
Lemma sub_remove_first {A} (f : A -> bool) l : sub (remove_first f l) l.
Proof. induction l as [|x r IH]; simpl; [constructor|]. destruct (f x); [constructor; apply sub_refl | constructor; assumption]. Qed.
Lemma sub_filter_mono {A} (f : A -> bool) a b : sub a b -> sub (filter f a) (filter f b).
Proof. induction 1; simpl; [constructor | destruct (f x); [constructor|]; assumption | destruct (f x); [apply sub_keep|]; assumption]. Qed.
Lemma sub_count {A} (f : A -> bool) a b : sub a b -> count f a <= count f b.
Proof. induction 1; rewrite ?count_cons; [lia | lia | lia]. Qed.
Lemma sub_app_skip {A} (u l : list A) x : sub (u ++ l) (u ++ x :: l).
Proof. induction u; simpl; [constructor; apply sub_refl | apply sub_keep; assumption]. Qed.
Lemma sub_NoDup {A} (a b : list A) : sub a b -> NoDup b -> NoDup a.
Proof.
  induction 1; intros Hn; [constructor | inversion Hn; auto |].
  inversion Hn; subst. constructor; [|auto]. intros Hi. apply H2. eapply sub_In; eassumption.
Qed.

Lemma sub_ded : forall l u, sub (ded l u) (u ++ l).
Proof.
  induction l as [|a l IH]; intros u.
  - simpl. rewrite app_nil_r. apply sub_refl.
  - unfold ded in *. simpl. unfold add_unique at 2. destruct (existsb (ty_eqb a) u).
    + eapply sub_trans; [apply IH | apply sub_app_skip].
    + specialize (IH (u ++ [a])). rewrite <- app_assoc in IH. exact IH.
Qed.

Lemma count_le1_eq {A} (f : A -> bool) l a b :
  count f l <= 1 -> In a l -> In b l -> f a = true -> f b = true -> a = b.
Proof.
  induction l as [|x r IH]; intros Hc Ha Hb Fa Fb; [destruct Ha|].
  rewrite count_cons in Hc. destruct Ha as [->|Ha], Hb as [->|Hb].
  - reflexivity.
  - rewrite Fa in Hc. pose proof (count_pos f r b Hb Fb). lia.
  - rewrite Fb in Hc. pose proof (count_pos f r a Ha Fa). lia.
  - apply IH; auto. destruct (f x); lia.
Qed.
Lemma NoDup_count_le1 {A} (f : A -> bool) l :
  NoDup l -> (forall x y, f x = true -> f y = true -> x = y) -> count f l <= 1.
Proof.
  intros Hn Hf. induction Hn as [|x r Hx Hn IH]; [unfold count; simpl; lia|].
  rewrite count_cons. destruct (f x) eqn:Fx; [|lia].
  rewrite count_zero; [lia|]. intros y Hy. destruct (f y) eqn:Fy; [|reflexivity].
  exfalso. apply Hx. rewrite (Hf x y Fx Fy). exact Hy.
Qed.
Lemma count_all {A} (f : A -> bool) l : (forall x, In x l -> f x = true) -> count f l = length l.
Proof.
  induction l as [|x r IH]; intros H; [reflexivity|].
  rewrite count_cons, (H x (or_introl eq_refl)), IH; [reflexivity|]. intros y Hy. apply H. right. exact Hy.
Qed.
Lemma count_le_length {A} (f : A -> bool) l : count f l <= length l.
Proof. unfold count. induction l as [|x r IH]; simpl; [lia|]. destruct (f x); simpl; lia. Qed.
Lemma remove_first_none {A} (f : A -> bool) l :
  count f l <= 1 -> forall x, In x (remove_first f l) -> f x = false.
Proof.
  induction l as [|y r IH]; intros Hc x Hx; [destruct Hx|].
  simpl in Hx. rewrite count_cons in Hc. destruct (f y) eqn:Fy.
  - destruct (f x) eqn:Fx; [|reflexivity]. pose proof (count_pos f r x Hx Fx). lia.
  - destruct Hx as [<-|Hx]; [exact Fy|]. apply IH; [lia | exact Hx].
Qed.
Lemma remove_first_keeps {A} (f : A -> bool) l x : In x l -> f x = false -> In x (remove_first f l).
Proof.
  induction l as [|y r IH]; intros Hi Fx; [destruct Hi|]. simpl.
  destruct Hi as [->|Hi]; [rewrite Fx; left; reflexivity|].
  destruct (f y); [exact Hi | right; apply IH; assumption].
Qed.
Lemma count_ext {A} (f g : A -> bool) l : (forall x, f x = g x) -> count f l = count g l.
Proof. intros H. induction l as [|x r IH]; [reflexivity|]. rewrite !count_cons, H, IH. reflexivity. Qed.
Lemma existsb_In {A} (f : A -> bool) l : existsb f l = true <-> exists x, In x l /\ f x = true.
Proof. apply existsb_exists. Qed.
Lemma existsb_false {A} (f : A -> bool) l : existsb f l = false <-> forall x, In x l -> f x = false.
Proof.
  induction l as [|y r IH]; simpl; [split; [intros _ x [] | reflexivity]|].
  rewrite orb_false_iff, IH. split.
  - intros [A1 A2] x [<-|Hx]; auto.
  - intros H. split; [apply H; left; reflexivity | intros x Hx; apply H; right; exact Hx].
Qed.

(* ------------------------------------------------------------------ *)
(* 4. The working invariant: strict raw terms R (no Optional below), field-level RF.                 *)
Definition lit_R (o : bool) (ls : list str) : bool :=
  if o then match ls with [] => true | _ => false end
  else match ls with [] => false | _ => negb (lit_overflow ls) end.
Fixpoint R (t : ty) : bool :=
  match t with
  | TUnion ts => raw_union_ok ts && forallb R ts
  | TOpt _ => false
  | TPtr _ => false
  | TList x | TDict x => R x
  | TObj fs => forallb (fun kv => R (snd kv)) fs
  | TLit o ls => lit_R o ls
  | _ => true
  end.
Definition RF1 (t : ty) : bool := match t with TOpt x => R x | _ => R t end.
Fixpoint RF (t : ty) : bool :=
  match t with
  | TOpt x => R x
  | TObj fs => forallb (fun kv => RF (snd kv)) fs
  | _ => R t
  end.

Lemma R_RF : forall t, R t = true -> RF t = true.
Proof.
  induction t using ty_ind2; simpl; intros Ht; try exact Ht; try discriminate.
  apply forallb_forall. intros kv Hkv. rewrite forallb_forall in Ht.
  rewrite Forall_forall in H. apply H; [exact Hkv | apply Ht; exact Hkv].
Qed.
Lemma RF1_RF t : RF1 t = true -> RF t = true.
Proof. destruct t; simpl; intros H; try exact H; try discriminate. apply (R_RF (TObj fs)). exact H. Qed.
Lemma R_RF1 t : R t = true -> RF1 t = true.
Proof. destruct t; simpl; intros H; try exact H; discriminate. Qed.
Lemma R_not_opt_ptr t : R t = true -> is_opt t = false /\ is_ptr t = false.
Proof. destruct t; simpl; intros H; try discriminate; auto. Qed.

Lemma raw_union_ok_flat ts : raw_union_ok ts = true ->
  forall x, In x ts -> is_union x = false /\ is_opt x = false /\ is_ptr x = false.
Proof.
  unfold raw_union_ok. rewrite !andb_true_iff. intros [[[[[H _] _] _] _] _] x Hx.
  rewrite forallb_forall in H. specialize (H x Hx). rewrite !andb_true_iff, !negb_true_iff in H. tauto.
Qed.

Lemma flat_nonunion t : is_union t = false -> flat t = [t].
Proof. destruct t; simpl; intros H; try reflexivity; discriminate. Qed.
Lemma flatten_flat ts : (forall x, In x ts -> is_union x = false) -> flatten_union ts = ts.
Proof.
  unfold flatten_union. simpl. induction ts as [|x r IH]; intros H; [reflexivity|].
  rewrite (flat_nonunion x (H x (or_introl eq_refl))). simpl. f_equal. apply IH. intros y Hy. apply H. right. exact Hy.
Qed.
Lemma flatten_cons x r : flatten_union (x :: r) = flat x ++ flatten_union r.
Proof. reflexivity. Qed.
Lemma flatten_app a b : flatten_union (a ++ b) = flatten_union a ++ flatten_union b.
Proof. induction a as [|x r IH]; [reflexivity|]. simpl app. rewrite !flatten_cons, IH, app_assoc. reflexivity. Qed.

(* members of an R term: R, not unions, non-empty *)
Lemma R_flat t : R t = true -> flat t <> [] /\ forall x, In x (flat t) -> R x = true /\ is_union x = false.
Proof.
  destruct (is_union t) eqn:U.
  - destruct t; try discriminate. simpl R. rewrite andb_true_iff. intros [Hu Hr].
    pose proof (raw_union_ok_flat _ Hu) as Hf.
    change (flat (TUnion ts)) with (flatten_union ts). rewrite flatten_flat by (intros x Hx; apply Hf; exact Hx).
    split.
    + unfold raw_union_ok in Hu. rewrite !andb_true_iff in Hu. destruct ts; [destruct Hu; discriminate|congruence].
    + intros x Hx. rewrite forallb_forall in Hr. split; [apply Hr; exact Hx | apply Hf; exact Hx].
  - intros Ht. rewrite (flat_nonunion _ U). split; [congruence|]. intros x [<-|[]]. auto.
Qed.
Lemma R_flatten ts : (forall t, In t ts -> R t = true) ->
  forall x, In x (flatten_union ts) -> R x = true /\ is_union x = false.
Proof.
  induction ts as [|t r IH]; intros H x Hx; [destruct Hx|].
  rewrite flatten_cons in Hx. apply in_app_iff in Hx. destruct Hx as [Hx|Hx].
  - apply (R_flat t); [apply H; left; reflexivity | exact Hx].
  - apply IH; [intros y Hy; apply H; right; exact Hy | exact Hx].
Qed.
Lemma R_flatten_nonempty ts : ts <> [] -> (forall t, In t ts -> R t = true) -> flatten_union ts <> [].
Proof.
  destruct ts as [|t r]; [congruence|]. intros _ H. rewrite flatten_cons.
  destruct (R_flat t (H t (or_introl eq_refl))) as [Hne _]. intros E. apply app_eq_nil in E. destruct E. contradiction.
Qed.

Lemma lit_R_false ls : lit_R false ls = true <-> ls <> [] /\ lit_overflow ls = false.
Proof.
  unfold lit_R. destruct ls; [split; [discriminate | intros [H _]; congruence]|].
  rewrite negb_true_iff. split; [intros H; split; congruence | intros [_ H]; exact H].
Qed.

(* mk_union of R members is an R union *)
Lemma mk_union_R ts : ts <> [] -> (forall t, In t ts -> R t = true) ->
  raw_union_ok (mk_union ts) = true /\ forall x, In x (mk_union ts) -> R x = true.
Proof.
  intros Hne Hr. pose proof (R_flatten ts Hr) as HF. split.
  - apply mk_union_raw_ok.
    + intros t Ht. apply R_not_opt_ptr. apply HF. exact Ht.
    + apply mk_union_nonempty; [apply R_flatten_nonempty; assumption|].
      intros ls Hl. apply HF in Hl. destruct Hl as [Hl _]. simpl in Hl. apply lit_R_false in Hl. apply Hl.
  - intros x Hx. apply mk_union_In in Hx. destruct Hx as [[Hx _]|[->|[-> [_ [N [O _]]]]]].
    + apply HF. exact Hx.
    + reflexivity.
    + simpl. apply lit_R_false. auto.
Qed.
Lemma forallb_R_In ts : forallb R ts = true <-> forall x, In x ts -> R x = true.
Proof. apply forallb_forall. Qed.
Lemma dunion_R ts : ts <> [] -> (forall t, In t ts -> R t = true) -> R (dunion ts) = true.
Proof.
  intros Hne Hr. destruct (mk_union_R ts Hne Hr) as [A B]. unfold dunion. simpl. rewrite A. simpl.
  apply forallb_forall. exact B.
Qed.
Lemma union1_R ts : ts <> [] -> (forall t, In t ts -> R t = true) -> R (union1 ts) = true.
Proof.
  intros Hne Hr. destruct (mk_union_R ts Hne Hr) as [A B]. unfold union1.
  destruct (mk_union ts) as [|x [|y r]] eqn:E.
  - vm_compute in A. discriminate.
  - apply B. left. reflexivity.
  - cbn [R]. rewrite A. cbn [andb]. apply forallb_forall. exact B.
Qed.
Lemma members_R t : R t = true -> members t <> [] /\ forall x, In x (members t) -> R x = true.
Proof.
  destruct t; simpl; intros H; try (split; [congruence | intros x [<-|[]]; exact H]).
  rewrite andb_true_iff in H. destruct H as [Hu Hr]. split.
  - unfold raw_union_ok in Hu. rewrite !andb_true_iff in Hu. destruct ts; [destruct Hu; discriminate|congruence].
  - apply forallb_forall. exact Hr.
Qed.

(* ------------------------------------------------------------------ *)
(* 5. merge_field_sets keeps the invariant                              *)
Section MergeInv.
  Variable peq : N -> N -> bool.
  Definition FS (P : ty -> bool) (fs : fields) : Prop := forall kv, In kv fs -> P (snd kv) = true.

  Lemma lookup_In {A} k (fs : list (str * A)) v : lookup k fs = Some v -> exists k', In (k', v) fs.
  Proof.
    induction fs as [|[k' t] r IH]; simpl; [discriminate|].
    destruct (str_eqb k k'); [intros E; inversion E; subst; exists k'; left; reflexivity|].
    intros E. destruct (IH E) as [k2 H]. exists k2. right. exact H.
  Qed.
  Lemma update_FS P k t fs : FS P fs -> P t = true -> FS P (update k t fs).
  Proof.
    induction fs as [|[k' t'] r IH]; simpl; intros Hf Ht.
    - intros kv [<-|[]]. exact Ht.
    - destruct (str_eqb k k').
      + intros kv [<-|Hi]; [exact Ht | apply Hf; right; exact Hi].
      + intros kv [<-|Hi]; [apply Hf; left; reflexivity|].
        apply IH; [intros x Hx; apply Hf; right; exact Hx | exact Ht | exact Hi].
  Qed.
  Lemma union1_members_R a b : R a = true -> R b = true -> R (union1 (members a ++ members b)) = true.
  Proof.
    intros Ha Hb. destruct (members_R a Ha) as [Na Ma]. destruct (members_R b Hb) as [Nb Mb].
    apply union1_R.
    - intros E. apply app_eq_nil in E. destruct E. contradiction.
    - intros x Hx. apply in_app_iff in Hx. destruct Hx; auto.
  Qed.
  Lemma merge_field_FS first acc kv : FS RF1 acc -> R (snd kv) = true -> FS RF1 (merge_field peq first acc kv).
  Proof.
    destruct kv as [name field]. simpl snd. intros Ha Hf. unfold merge_field.
    destruct (lookup name acc) as [fo|] eqn:L.
    - destruct (lookup_In _ _ _ L) as [k' Hk]. pose proof (Ha _ Hk) as Hfo. simpl in Hfo.
      assert (G : forall fo0, R fo0 = true ->
                 FS RF1 (if py_eq peq fo0 field then acc
                         else match field with
                              | TOpt f' => if py_eq peq fo0 f' then update name field acc
                                           else update name (union1 (members field ++ members fo0)) acc
                              | _ => update name (union1 (members field ++ members fo0)) acc
                              end)).
      { intros fo0 H0. destruct (py_eq peq fo0 field); [exact Ha|].
        assert (FS RF1 (update name (union1 (members field ++ members fo0)) acc)) as U.
        { apply update_FS; [exact Ha|]. apply R_RF1. apply union1_members_R; assumption. }
        destruct field; try exact U. discriminate. }
      destruct fo; try (apply G; exact Hfo).
      destruct (py_eq peq (TOpt fo) field || py_eq peq fo field); [exact Ha|].
      apply update_FS; [exact Ha|]. simpl. apply union1_members_R; assumption.
    - apply update_FS; [exact Ha|]. destruct (first || is_opt field); [apply R_RF1; exact Hf | exact Hf].
  Qed.
  Lemma fold_merge_field_FS first : forall model acc, FS RF1 acc -> FS R model ->
    FS RF1 (fold_left (merge_field peq first) model acc).
  Proof.
    induction model as [|kv r IH]; intros acc Ha Hm; [exact Ha|]. simpl. apply IH.
    - apply merge_field_FS; [exact Ha | apply Hm; left; reflexivity].
    - intros x Hx. apply Hm. right. exact Hx.
  Qed.
  Lemma wrap_opt_RF1 t : RF1 t = true -> RF1 (wrap_opt t) = true.
  Proof. unfold wrap_opt. destruct (is_opt t) eqn:E; intros H; [exact H|]. destruct t; try exact H. discriminate. Qed.
  Lemma merge_step_FS st model : FS RF1 (snd st) -> FS R model -> FS RF1 (snd (merge_step peq st model)).
  Proof.
    destruct st as [first acc]. simpl. intros Ha Hm kv Hkv.
    apply in_map_iff in Hkv. destruct Hkv as [kt [E Hkt]].
    pose proof (fold_merge_field_FS first model acc Ha Hm _ Hkt) as H.
    destruct (has_key (fst kt) acc && negb (has_key (fst kt) model)); subst kv; [|exact H].
    simpl. apply wrap_opt_RF1. exact H.
  Qed.
  Lemma merge_fold_FS : forall sets st, FS RF1 (snd st) -> (forall m, In m sets -> FS R m) ->
    FS RF1 (snd (fold_left (merge_step peq) sets st)).
  Proof.
    induction sets as [|m r IH]; intros st Ha Hs; [exact Ha|]. simpl. apply IH.
    - apply merge_step_FS; [exact Ha | apply Hs; left; reflexivity].
    - intros x Hx. apply Hs. right. exact Hx.
  Qed.
  Lemma merge_field_sets_FS sets : (forall m, In m sets -> FS R m) -> FS RF1 (merge_field_sets peq sets).
  Proof. intros H. unfold merge_field_sets. apply merge_fold_FS; [intros kv [] | exact H]. Qed.
  Lemma merge_field_sets_RF sets : (forall m, In m sets -> FS R m) -> RF (TObj (merge_field_sets peq sets)) = true.
  Proof.
    intros H. simpl. apply forallb_forall. intros kv Hkv. apply RF1_RF. apply (merge_field_sets_FS sets H). exact Hkv.
  Qed.
End MergeInv.

(* ------------------------------------------------------------------ *)
(* 6. optimize: unfolding, shape of optimised members                   *)
Section OptList.
Variable o : ty -> option ty.
Fixpoint opt_list (l : list ty) : option (list ty) :=
  match l with
  | [] => Some []
  | x :: r => match o x, opt_list r with Some x', Some r' => Some (x' :: r') | _, _ => None end
  end.
Fixpoint opt_fields (l : fields) : option fields :=
  match l with
  | [] => Some []
  | (k, x) :: r => match o x, opt_fields r with Some x', Some r' => Some ((k, x') :: r') | _, _ => None end
  end.
End OptList.

Lemma opt_list_Forall2 o : forall l l', opt_list o l = Some l' -> Forall2 (fun x x' => o x = Some x') l l'.
Proof.
  induction l as [|x r IH]; simpl; intros l' H.
  - inversion H. constructor.
  - destruct (o x) as [x'|] eqn:Ex; [|discriminate]. destruct (opt_list o r) as [r'|]; [|discriminate].
    inversion H; subst. constructor; [exact Ex | apply IH; reflexivity].
Qed.
Lemma opt_fields_Forall2 o : forall l l', opt_fields o l = Some l' ->
  Forall2 (fun kx kx' => fst kx' = fst kx /\ o (snd kx) = Some (snd kx')) l l'.
Proof.
  induction l as [|[k x] r IH]; simpl; intros l' H.
  - inversion H. constructor.
  - destruct (o x) as [x'|] eqn:Ex; [|discriminate]. destruct (opt_fields o r) as [r'|]; [|discriminate].
    inversion H; subst. constructor; [simpl; auto | apply IH; reflexivity].
Qed.

Definition skel (t : ty) : ty :=
  match t with TObj _ => TObj [] | TList _ => TList TNull | TDict _ => TDict TNull | _ => t end.
(* members handed to the recursive call: not a union, not Optional, literal in normal form *)
Definition basic (t : ty) : bool :=
  negb (is_union t) && negb (is_opt t) &&
  match t with TLit o ls => negb o && match ls with [] => false | _ => negb (lit_overflow ls) end | _ => true end.

Section Opt.
  Variable registry : list pseudo.
  Variable replaces : list (pseudo * pseudo).
  Variable peq : N -> N -> bool.
  Notation optimize := (optimize registry replaces peq).
  Notation regroup := (regroup registry replaces peq).

  Lemma optimize_S fuel t : optimize (S fuel) t =
    match t with
    | TObj fs => option_map TObj (opt_fields (optimize fuel) fs)
    | TOpt x => match optimize fuel x with Some (TOpt y) => Some (TOpt y) | Some y => Some (TOpt y) | None => None end
    | TList x => option_map TList (optimize fuel x)
    | TDict x => option_map TDict (optimize fuel x)
    | TLit o ls => Some (if o || match ls with [] => true | _ => false end then TStr else t)
    | TUnion ts => match opt_list (optimize fuel) (regroup ts) with None => None | Some types => finish types end
    | _ => Some t
    end.
  Proof. destruct t; reflexivity. Qed.

  Lemma optimize_skel fuel x x' : basic x = true -> optimize fuel x = Some x' -> skel x' = skel x.
  Proof.
    destruct fuel as [|fuel]; [discriminate|]. rewrite optimize_S.
    destruct x; simpl; intros B H; try (inversion H; reflexivity); try discriminate.
    - destruct overflow; [discriminate|]. destruct ls; [discriminate|]. inversion H. reflexivity.
    - destruct (optimize fuel x); inversion H. reflexivity.
    - destruct (optimize fuel x); inversion H. reflexivity.
    - destruct (opt_fields (optimize fuel) fs); inversion H. reflexivity.
  Qed.

  (* ---------------------------------------------------------------- *)
  (* 7. regroup on a union without Optional members                    *)
  Definition objs_of (ts : list ty) : list fields := flat_map (fun t => match t with TObj f => [f] | _ => [] end) ts.
  Definition lists_of (ts : list ty) : list ty := flat_map (fun t => match t with TList x => [x] | _ => [] end) ts.
  Definition dicts_of (ts : list ty) : list ty := flat_map (fun t => match t with TDict x => [x] | _ => [] end) ts.
  Definition is_other (t : ty) : bool :=
    negb (is_obj t) && negb (is_list t) && negb (is_dict t) && negb (in_reg registry t).

  Lemma split_noopt : forall ts s o l d ot, (forall x, In x ts -> is_opt x = false) ->
    fold_left (split_step registry) ts (s, o, l, d, ot) =
    (s ++ filter (in_reg registry) ts, o ++ objs_of ts, l ++ lists_of ts, d ++ dicts_of ts, ot ++ filter is_other ts).
  Proof.
    induction ts as [|a ts IH]; intros s o l d ot H.
    - simpl. rewrite !app_nil_r. reflexivity.
    - assert (H' : forall x, In x ts -> is_opt x = false) by (intros x Hx; apply H; right; exact Hx).
      assert (Ha : is_opt a = false) by (apply H; left; reflexivity).
      destruct a; try discriminate; cbn [fold_left split_step in_reg];
        try (rewrite (IH _ _ _ _ _ H'); cbn; rewrite <- ?app_assoc; reflexivity).
      unfold is_other. cbn. destruct (pmem p registry); rewrite (IH _ _ _ _ _ H'); cbn; rewrite <- ?app_assoc; reflexivity.
  Qed.

  (* the work-list of regroup (D32 repair): members_deep never returns an Optional or a union, and is the identity
     on a list without Optional / union members *)
  Lemma members_deep_union us : members_deep (TUnion us) = flat_map members_deep us.
  Proof. simpl. induction us as [|x r IH]; [reflexivity|]. simpl. rewrite IH. reflexivity. Qed.
  Lemma members_deep_id t : is_opt t = false -> is_union t = false -> members_deep t = [t].
  Proof. destruct t; simpl; intros O U; try reflexivity; discriminate. Qed.
  Lemma members_deep_no_opt_union : forall t x, In x (members_deep t) -> is_opt x = false /\ is_union x = false.
  Proof.
    induction t using ty_ind2; intros x Hx; try (destruct Hx as [<-|[]]; split; reflexivity).
    - destruct Hx as [<-|Hx]; [split; reflexivity | apply IHt; exact Hx].
    - rewrite members_deep_union in Hx. induction H as [|y r Hy Hr IH]; [destruct Hx|].
      simpl in Hx. apply in_app_iff in Hx. destruct Hx as [Hx|Hx]; [apply Hy; exact Hx | apply IH; exact Hx].
  Qed.
  Lemma flat_map_members_deep_id ts :
    (forall x, In x ts -> is_opt x = false) -> (forall x, In x ts -> is_union x = false) -> flat_map members_deep ts = ts.
  Proof.
    induction ts as [|a r IH]; intros O U; [reflexivity|]. cbn [flat_map].
    rewrite (members_deep_id a (O a (or_introl eq_refl)) (U a (or_introl eq_refl))), IH; [reflexivity| |];
      intros x Hx; [apply O | apply U]; right; exact Hx.
  Qed.
  Lemma flat_map_members_deep_noopt ts x : In x (flat_map members_deep ts) -> is_opt x = false /\ is_union x = false.
  Proof. intros H. apply in_flat_map in H. destruct H as [t [_ H]]. apply (members_deep_no_opt_union t x H). Qed.

  Definition oth_of (ts : list ty) : list ty :=
    let oth := filter is_other ts in
    if existsb (ty_eqb TInt) oth && existsb (ty_eqb TFloat) oth then remove_first (ty_eqb TInt) oth else oth.
  Definition objp (ts : list ty) : list ty := match objs_of ts with [] => [] | _ => [TObj (merge_field_sets peq (objs_of ts))] end.
  Definition listp (ts : list ty) : list ty := match lists_of ts with [] => [] | _ => [TList (dunion (lists_of ts))] end.
  Definition dictp (ts : list ty) : list ty := match dicts_of ts with [] => [] | _ => [TDict (dunion (dicts_of ts))] end.

  (* regroup in general: the category split of the deep work-list *)
  Lemma regroup_deep ts ms : flat_map members_deep ts = ms ->
    regroup ts = (((oth_of ms ++ objp ms) ++ listp ms) ++ dictp ms) ++ str_result replaces (filter (in_reg registry) ms).
  Proof.
    intros E. unfold Optimize.regroup. rewrite E.
    rewrite (split_noopt ms [] [] [] [] []) by (intros x Hx; rewrite <- E in Hx; apply (flat_map_members_deep_noopt ts x Hx)).
    cbn [app]. reflexivity.
  Qed.
  (* STATEMENT CHANGED (D32 repair of regroup): the second premise (no union member) is new; without it the old
     statement is false, see regroup_noopt_old_refuted below *)
  Lemma regroup_noopt ts : (forall x, In x ts -> is_opt x = false) -> (forall x, In x ts -> is_union x = false) ->
    regroup ts = (((oth_of ts ++ objp ts) ++ listp ts) ++ dictp ts) ++ str_result replaces (filter (in_reg registry) ts).
  Proof. intros H U. apply regroup_deep. apply flat_map_members_deep_id; assumption. Qed.

  (* ---------------------------------------------------------------- *)
  (* 8. str_result, rank sorting, skeleton transfer                    *)
  Lemma resolve_In : forall fuel ps p, In p (resolve replaces fuel ps) -> In p ps.
  Proof.
    induction fuel as [|f IH]; intros ps p; simpl; [auto|].
    destruct (existsb (replaced_by replaces ps) ps); [|auto].
    intros H. apply IH in H. apply filter_In in H. apply H.
  Qed.
  Lemma pdedup_In_gen : forall l acc p,
    In p (fold_left (fun acc p => if pmem p acc then acc else acc ++ [p]) l acc) -> In p acc \/ In p l.
  Proof.
    induction l as [|a l IH]; intros acc p; simpl; [auto|].
    intros H. apply IH in H. destruct H as [H|H]; [|auto].
    destruct (pmem a acc); [auto|]. apply in_app_iff in H. destruct H as [H|[H|[]]]; auto.
  Qed.
  Lemma pmem_In p l : pmem p l = true <-> In p l.
  Proof.
    unfold pmem. rewrite existsb_exists. split.
    - intros [x [Hi He]]. apply pseudo_eqb_eq in He. subst. exact Hi.
    - intros Hi. exists p. split; [exact Hi | apply pseudo_eqb_eq; reflexivity].
  Qed.
  Lemma str_result_cases strs : (forall x, In x strs -> in_reg registry x = true) ->
    str_result replaces strs = [] \/ str_result replaces strs = [TStr] \/
    exists p, str_result replaces strs = [TPseudo p] /\ pmem p registry = true.
  Proof.
    intros Hs. unfold str_result. destruct (existsb is_str strs); [right; left; reflexivity|].
    destruct strs as [|s0 strs0] eqn:Es; [left; reflexivity|]. rewrite <- Es in *.
    destruct (resolve replaces (S (length (pseudos_of strs))) (pseudos_of strs)) as [|p [|q r]] eqn:E;
      [right; left; reflexivity | | right; left; reflexivity].
    right. right. exists p. split; [reflexivity|].
    assert (In p (pseudos_of strs)) as Hp by (apply (resolve_In (S (length (pseudos_of strs)))); rewrite E; left; reflexivity).
    unfold pseudos_of, pdedup in Hp. apply pdedup_In_gen in Hp. destruct Hp as [[]|Hp].
    apply in_flat_map in Hp. destruct Hp as [x [Hx Hp]]. destruct x; try destruct Hp.
    - subst. apply (Hs _ Hx).
    - destruct H.
  Qed.

  Notation rank := (cat_rank registry).
  Notation sorted := (sorted_by_rank registry).
  Lemma sorted_app_bound k a b :
    sorted a = true -> (forall x, In x a -> rank x <= k) ->
    sorted b = true -> (forall y, In y b -> k <= rank y) -> sorted (a ++ b) = true.
  Proof.
    induction a as [|x a IH]; intros Sa Ba Sb Bb; [exact Sb|].
    simpl in *. rewrite andb_true_iff in *. destruct Sa as [S1 S2]. split.
    - rewrite forallb_app, S1. simpl. apply forallb_forall. intros y Hy. apply Nat.leb_le.
      specialize (Ba x (or_introl eq_refl)). specialize (Bb y Hy). lia.
    - apply IH; auto.
  Qed.
  Lemma sorted_sub a b : sub a b -> sorted b = true -> sorted a = true.
  Proof.
    induction 1; simpl; intros Sb; [reflexivity| |]; rewrite andb_true_iff in Sb; destruct Sb as [S1 S2]; [auto|].
    rewrite (IHsub S2), andb_true_r. apply forallb_forall. intros y Hy.
    rewrite forallb_forall in S1. apply S1. eapply sub_In; eassumption.
  Qed.
  Lemma sorted_le1 l : length l <= 1 -> sorted l = true.
  Proof. destruct l as [|x [|y r]]; simpl; intros H; [reflexivity | reflexivity | lia]. Qed.

  Lemma rank_skel x : rank (skel x) = rank x.
  Proof. destruct x; reflexivity. Qed.
  Lemma sorted_skel l : sorted (map skel l) = sorted l.
  Proof.
    induction l as [|x r IH]; [reflexivity|]. simpl. rewrite IH. f_equal.
    rewrite rank_skel. clear IH. induction r as [|y r IH]; [reflexivity|]. simpl. rewrite IH, rank_skel. reflexivity.
  Qed.
  Lemma filter_skel f l : (forall x, f (skel x) = f x) -> filter f (map skel l) = map skel (filter f l).
  Proof.
    intros H. induction l as [|x r IH]; [reflexivity|]. simpl. rewrite H. destruct (f x); simpl; rewrite IH; reflexivity.
  Qed.
  Lemma count_skel f l : (forall x, f (skel x) = f x) -> count f (map skel l) = count f l.
  Proof. intros H. unfold count. rewrite (filter_skel f l H), map_length. reflexivity. Qed.
  Lemma forallb_skel f l : (forall x, f (skel x) = f x) -> forallb f (map skel l) = forallb f l.
  Proof. intros H. induction l as [|x r IH]; [reflexivity|]. simpl. rewrite IH, H. reflexivity. Qed.
  Lemma existsb_skel f l : (forall x, f (skel x) = f x) -> existsb f (map skel l) = existsb f l.
  Proof. intros H. induction l as [|x r IH]; [reflexivity|]. simpl. rewrite IH, H. reflexivity. Qed.

  Record PL (L : list ty) : Prop := {
    pl_basic : forallb basic L = true;
    pl_list : count is_list L <= 1;
    pl_dict : count is_dict L <= 1;
    pl_obj : count is_obj L <= 1;
    pl_lit : count is_lit L <= 1;
    pl_strlike : count (str_like registry) L <= 1;
    pl_null : count is_null L <= 1;
    pl_unk : count is_unknown L <= 1;
    pl_intfloat : existsb (ty_eqb TInt) L && existsb (ty_eqb TFloat) L = false;
    pl_srt : sorted (filter nonlit L) = true }.

  Lemma PL_skel L T : PL L -> map skel T = map skel L -> PL T.
  Proof.
    intros [p1 p2 p3 p4 p5 p6 p7 p8 p9 p10] E.
    assert (C : forall f, (forall x, f (skel x) = f x) -> count f T = count f L).
    { intros f Hf. rewrite <- (count_skel f T Hf), <- (count_skel f L Hf), E. reflexivity. }
    constructor.
    - rewrite <- (forallb_skel basic T), E, forallb_skel; [exact p1| |]; intros x; destruct x; reflexivity.
    - rewrite C; [exact p2|]. intros x; destruct x; reflexivity.
    - rewrite C; [exact p3|]. intros x; destruct x; reflexivity.
    - rewrite C; [exact p4|]. intros x; destruct x; reflexivity.
    - rewrite C; [exact p5|]. intros x; destruct x; reflexivity.
    - rewrite C; [exact p6|]. intros x; destruct x; reflexivity.
    - rewrite C; [exact p7|]. intros x; destruct x; reflexivity.
    - rewrite C; [exact p8|]. intros x; destruct x; reflexivity.
    - rewrite <- (existsb_skel (ty_eqb TInt) T), <- (existsb_skel (ty_eqb TFloat) T), E, !existsb_skel;
        [exact p9 | | | |]; intros x; destruct x; reflexivity.
    - assert (N : forall x, nonlit (skel x) = nonlit x) by (intros x; destruct x; reflexivity).
      rewrite <- sorted_skel, <- (filter_skel nonlit T N), E, (filter_skel nonlit L N), sorted_skel. exact p10.
  Qed.

  (* ---------------------------------------------------------------- *)
  (* 9. what regroup hands to the recursive calls                      *)
  Lemma In_objs_of m ts : In m (objs_of ts) -> In (TObj m) ts.
  Proof. unfold objs_of. rewrite in_flat_map. intros [x [Hx Hm]]. destruct x; try destruct Hm as [Hm|[]]; try destruct Hm. subst. exact Hx. Qed.
  Lemma In_lists_of m ts : In m (lists_of ts) -> In (TList m) ts.
  Proof. unfold lists_of. rewrite in_flat_map. intros [x [Hx Hm]]. destruct x; try destruct Hm as [Hm|[]]; try destruct Hm. subst. exact Hx. Qed.
  Lemma In_dicts_of m ts : In m (dicts_of ts) -> In (TDict m) ts.
  Proof. unfold dicts_of. rewrite in_flat_map. intros [x [Hx Hm]]. destruct x; try destruct Hm as [Hm|[]]; try destruct Hm. subst. exact Hx. Qed.

  Lemma oth_of_sub ts : sub (oth_of ts) (filter is_other ts).
  Proof. unfold oth_of. destruct (_ && _); [apply sub_remove_first | apply sub_refl]. Qed.
  Lemma oth_of_In ts x : In x (oth_of ts) -> In x ts /\ is_other x = true.
  Proof. intros H. apply (sub_In _ _ _ (oth_of_sub ts)) in H. apply filter_In in H. exact H. Qed.

  Lemma objp_cases ts : objp ts = [] \/ exists f, objp ts = [TObj f].
  Proof. unfold objp. destruct (objs_of ts); [left; reflexivity | right; eexists; reflexivity]. Qed.
  Lemma listp_cases ts : listp ts = [] \/ exists f, listp ts = [TList f].
  Proof. unfold listp. destruct (lists_of ts); [left; reflexivity | right; eexists; reflexivity]. Qed.
  Lemma dictp_cases ts : dictp ts = [] \/ exists f, dictp ts = [TDict f].
  Proof. unfold dictp. destruct (dicts_of ts); [left; reflexivity | right; eexists; reflexivity]. Qed.

  Lemma regroup_RF ts : raw_union_ok ts = true -> (forall x, In x ts -> R x = true) ->
    forall x, In x (regroup ts) -> RF x = true.
  Proof.
    intros Hu Hr x. rewrite regroup_noopt by (intros y Hy; apply (raw_union_ok_flat _ Hu y Hy)).
    rewrite !in_app_iff. intros [[[[H|H]|H]|H]|H].
    - apply R_RF. apply Hr. apply (oth_of_In ts x H).
    - unfold objp in H. destruct (objs_of ts) eqn:E; [destruct H|]. rewrite <- E in H. destruct H as [<-|[]].
      apply merge_field_sets_RF. intros m Hm kv Hkv. apply In_objs_of in Hm. apply Hr in Hm. simpl in Hm.
      rewrite forallb_forall in Hm. apply Hm. exact Hkv.
    - unfold listp in H. destruct (lists_of ts) eqn:E; [destruct H|]. rewrite <- E in H. destruct H as [<-|[]].
      apply R_RF. simpl. apply dunion_R; [rewrite E; congruence|].
      intros z Hz. apply In_lists_of in Hz. apply Hr in Hz. exact Hz.
    - unfold dictp in H. destruct (dicts_of ts) eqn:E; [destruct H|]. rewrite <- E in H. destruct H as [<-|[]].
      apply R_RF. simpl. apply dunion_R; [rewrite E; congruence|].
      intros z Hz. apply In_dicts_of in Hz. apply Hr in Hz. exact Hz.
    - destruct (str_result_cases (filter (in_reg registry) ts)) as [E|[E|[p [E _]]]];
        [intros y Hy; apply filter_In in Hy; apply Hy | | |]; rewrite E in H; [destruct H | |]; destruct H as [<-|[]]; reflexivity.
  Qed.

  Lemma rank_other x : is_other x = true -> is_lit x = false -> rank x = 0.
  Proof.
    unfold is_other. destruct x; simpl; intros H L; try discriminate; try reflexivity.
    rewrite negb_true_iff in H. rewrite H. reflexivity.
  Qed.
  Lemma sorted_const l : (forall x, In x l -> rank x = 0) -> sorted l = true.
  Proof.
    induction l as [|x r IH]; intros H; [reflexivity|]. simpl. rewrite IH by (intros y Hy; apply H; right; exact Hy).
    rewrite andb_true_r. apply forallb_forall. intros y Hy. rewrite (H x (or_introl eq_refl)). reflexivity.
  Qed.
  Lemma rank_nonlit_le4 x : is_lit x = false -> rank x <= 4.
  Proof. destruct x; simpl; intros H; try discriminate; try lia; destruct (pmem _ _); lia. Qed.

  Lemma raw_union_ok_parts ts : raw_union_ok ts = true ->
    NoDup ts /\ count is_lit ts <= 1 /\
    (forall o ls, In (TLit o ls) ts -> o = false /\ ls <> []).
  Proof.
    unfold raw_union_ok. rewrite !andb_true_iff. intros [[[[[_ H2] H3] H4] _] _].
    split; [apply nodupb_NoDup; exact H2|]. split; [apply Nat.leb_le; exact H3|].
    intros o ls Hi. rewrite forallb_forall in H4. specialize (H4 _ Hi). simpl in H4.
    rewrite andb_true_iff, negb_true_iff in H4. destruct H4 as [-> H4]. split; [reflexivity|]. destruct ls; congruence.
  Qed.

  Lemma regroup_PL ts : raw_union_ok ts = true -> (forall x, In x ts -> R x = true) -> PL (regroup ts).
  Proof.
    intros Hu Hr. pose proof (raw_union_ok_flat _ Hu) as Hfl.
    destruct (raw_union_ok_parts _ Hu) as [Hnd [Hcl Hlit]].
    rewrite regroup_noopt by (intros y Hy; apply (Hfl y Hy)).
    set (A := oth_of ts).
    assert (FA : forall x, In x A -> In x ts /\ is_other x = true) by (apply oth_of_In).
    assert (SA : sub A ts) by (eapply sub_trans; [apply oth_of_sub | apply sub_filter]).
    assert (NA : NoDup A) by (eapply sub_NoDup; eassumption).
    assert (A1 : count is_list A = 0).
    { apply count_zero. intros x Hx. apply FA in Hx. destruct Hx as [_ Hx]. destruct x; try reflexivity. discriminate. }
    assert (A2 : count is_dict A = 0).
    { apply count_zero. intros x Hx. apply FA in Hx. destruct Hx as [_ Hx]. destruct x; try reflexivity. discriminate. }
    assert (A3 : count is_obj A = 0).
    { apply count_zero. intros x Hx. apply FA in Hx. destruct Hx as [_ Hx]. destruct x; try reflexivity. discriminate. }
    assert (A4 : count is_lit A <= 1) by (pose proof (sub_count is_lit _ _ SA); lia).
    assert (A5 : count (str_like registry) A = 0).
    { apply count_zero. intros x Hx. apply FA in Hx. destruct Hx as [_ Hx]. unfold is_other in Hx.
      rewrite !andb_true_iff, !negb_true_iff in Hx. apply Hx. }
    assert (A6 : count is_null A <= 1).
    { apply NoDup_count_le1; [exact NA|]. intros x y Hx Hy. destruct x; try discriminate. destruct y; try discriminate. reflexivity. }
    assert (A7 : count is_unknown A <= 1).
    { apply NoDup_count_le1; [exact NA|]. intros x y Hx Hy. destruct x; try discriminate. destruct y; try discriminate. reflexivity. }
    assert (A8 : existsb (ty_eqb TInt) A && existsb (ty_eqb TFloat) A = false).
    { unfold A, oth_of. destruct (existsb (ty_eqb TInt) (filter is_other ts) && existsb (ty_eqb TFloat) (filter is_other ts)) eqn:C; [|exact C].
      apply andb_false_iff. left. apply existsb_ty_eqb_false. intros Hi.
      assert (ty_eqb TInt TInt = false) as F; [|discriminate F].
      apply (remove_first_none (ty_eqb TInt) (filter is_other ts)); [|exact Hi].
      apply NoDup_count_le1; [eapply sub_NoDup; [apply sub_filter | exact Hnd]|].
      intros x y Hx Hy. apply ty_eqb_eq in Hx, Hy. congruence. }
    assert (A9 : forall x, In x A -> basic x = true).
    { intros x Hx. apply FA in Hx. destruct Hx as [Hx _]. destruct (Hfl x Hx) as [U [O _]].
      unfold basic. rewrite U, O. simpl. destruct x; try reflexivity.
      destruct (Hlit _ _ Hx) as [-> Hne]. specialize (Hr _ Hx). simpl in Hr. destruct ls; [congruence | exact Hr]. }
    assert (A10 : sorted (filter nonlit A) = true /\ forall x, In x (filter nonlit A) -> rank x <= 0).
    { assert (forall x, In x (filter nonlit A) -> rank x = 0) as Z.
      { intros x Hx. apply In_filter_nonlit in Hx. destruct Hx as [Hx L]. apply rank_other; [apply FA; exact Hx | exact L]. }
      split; [apply sorted_const; exact Z | intros x Hx; rewrite (Z x Hx); lia]. }
    clearbody A.
    destruct (objp_cases ts) as [-> | [fb ->]]; destruct (listp_cases ts) as [-> | [fc ->]];
    destruct (dictp_cases ts) as [-> | [fd ->]];
    (destruct (str_result_cases (filter (in_reg registry) ts)) as [-> | [-> | [p [-> Hp]]]];
      [intros y Hy; apply filter_In in Hy; apply Hy | | |]);
    (constructor;
     [ rewrite !forallb_app; cbn [forallb]; rewrite ?andb_true_r; apply forallb_forall; exact A9
     | rewrite !count_app; unfold count at 2 3 4 5; simpl; lia
     | rewrite !count_app; unfold count at 2 3 4 5; simpl; lia
     | rewrite !count_app; unfold count at 2 3 4 5; simpl; lia
     | rewrite !count_app; unfold count at 2 3 4 5; simpl; lia
     | rewrite !count_app; unfold count at 2 3 4 5; simpl; rewrite ?Hp; simpl; lia
     | rewrite !count_app; unfold count at 2 3 4 5; simpl; lia
     | rewrite !count_app; unfold count at 2 3 4 5; simpl; lia
     | rewrite !existsb_app; simpl; rewrite ?orb_false_r; exact A8
     | rewrite !filter_app; simpl; rewrite ?app_nil_r, <- ?app_assoc; simpl;
       destruct A10 as [S0 B0];
       first [exact S0 | apply (sorted_app_bound 0); [exact S0 | exact B0 | simpl; rewrite ?Hp; reflexivity | intros; lia]] ]).
  Qed.

  (* ---------------------------------------------------------------- *)
  (* 10. the tail of _optimize_union on a list with the PL properties   *)
  Lemma PL_sub a b : sub a b -> PL b -> PL a.
  Proof.
    intros S [p1 p2 p3 p4 p5 p6 p7 p8 p9 p10].
    constructor; try (eapply Nat.le_trans; [apply sub_count; exact S | assumption]).
    - apply forallb_forall. intros x Hx. rewrite forallb_forall in p1. apply p1. eapply sub_In; eassumption.
    - destruct (existsb (ty_eqb TInt) a) eqn:E1; [|reflexivity]. destruct (existsb (ty_eqb TFloat) a) eqn:E2; [|reflexivity].
      apply existsb_ty_eqb in E1, E2. apply (sub_In _ _ _ S) in E1, E2. apply existsb_ty_eqb in E1, E2.
      rewrite E1, E2 in p9. discriminate.
    - eapply sorted_sub; [apply sub_filter_mono; exact S | exact p10].
  Qed.

  Lemma insert_sorted_In s x l : In x (insert_sorted s l) -> x = s \/ In x l.
  Proof.
    induction l as [|y r IH]; simpl; [intros [<-|[]]; auto|].
    destruct (str_cmp s y); simpl; intros H.
    - auto.
    - destruct H as [<-|H]; auto.
    - destruct H as [<-|H]; [auto|]. destruct (IH H); auto.
  Qed.
  Lemma insert_sorted_length s l : length (insert_sorted s l) <= S (length l).
  Proof. induction l as [|y r IH]; simpl; [lia|]. destruct (str_cmp s y); simpl; lia. Qed.
  Lemma ins_all_In : forall l ls x, In x (ins_all l ls) -> In x l \/ In x ls.
  Proof.
    induction l as [|s l IH]; intros ls x; [auto|]. unfold ins_all in *. simpl. intros H.
    apply IH in H. destruct H as [H|H]; [auto|]. apply insert_sorted_In in H. destruct H; auto.
  Qed.
  Lemma ins_all_length : forall l ls, length (ins_all l ls) <= length l + length ls.
  Proof.
    induction l as [|s l IH]; intros ls; [simpl; lia|]. unfold ins_all in *. simpl.
    specialize (IH (insert_sorted s ls)). pose proof (insert_sorted_length s ls). lia.
  Qed.
  Lemma lit_overflow_mono a b : length a <= length b -> incl a b -> lit_overflow b = false -> lit_overflow a = false.
  Proof.
    unfold lit_overflow. rewrite !orb_false_iff, !Nat.ltb_ge. intros Hl Hi [H1 H2]. split; [lia|].
    rewrite existsb_false in *. intros x Hx. apply H2. apply Hi. exact Hx.
  Qed.
  Lemma ins_all_overflow l : lit_overflow l = false -> lit_overflow (ins_all l []) = false.
  Proof.
    apply lit_overflow_mono.
    - pose proof (ins_all_length l []). simpl in H. lia.
    - intros x Hx. apply ins_all_In in Hx. destruct Hx as [Hx|[]]. exact Hx.
  Qed.

  Lemma lit_fold_false : forall F ul ls, fst (fold_left lit_step F (ul, ls)) = false ->
    ul = false \/ exists t, In t F /\ (is_str t = true \/ exists l, t = TLit true l).
  Proof.
    induction F as [|a F IH]; intros ul ls H; cbn [fold_left] in H; [left; exact H|].
    destruct (lit_step (ul, ls) a) as [ul1 ls1] eqn:E.
    destruct (IH _ _ H) as [U|[t [Ht Hp]]]; [|right; exists t; split; [right; exact Ht | exact Hp]].
    subst ul1. destruct ul; [|left; reflexivity]. right. exists a. split; [left; reflexivity|].
    destruct a; simpl in E; inversion E; try (left; reflexivity).
    destruct overflow; [right; eexists; reflexivity | discriminate].
  Qed.
  Lemma lit_fold_bounded : forall F ul ls,
    count is_lit F <= 1 -> (forall o l, In (TLit o l) F -> lit_overflow l = false) ->
    (ls = [] \/ count is_lit F = 0) -> lit_overflow ls = false ->
    lit_overflow (snd (fold_left lit_step F (ul, ls))) = false.
  Proof.
    induction F as [|a F IH]; intros ul ls Hc Hb Hd Ho; cbn [fold_left]; [exact Ho|].
    destruct (lit_step (ul, ls) a) as [ul1 ls1] eqn:E. rewrite count_cons in Hc.
    assert (Hb' : forall o l, In (TLit o l) F -> lit_overflow l = false) by (intros o l Hi; apply (Hb o l); right; exact Hi).
    destruct (is_lit a) eqn:La.
    - destruct a; try discriminate. assert (Hz : count is_lit F = 0) by lia.
      destruct Hd as [->|Hd]; [|rewrite count_cons in Hd; simpl in Hd; lia].
      apply IH; [lia | exact Hb' | right; exact Hz|].
      simpl in E. destruct ul; simpl in E; [destruct overflow|]; inversion E; try reflexivity.
      apply ins_all_overflow. apply (Hb false ls0). left. reflexivity.
    - assert (ls1 = ls) as -> by (destruct a; try discriminate; inversion E; reflexivity).
      apply IH; [lia | exact Hb' | | exact Ho]. destruct Hd as [Hd|Hd]; [left; exact Hd|].
      right. rewrite count_cons, La in Hd. lia.
  Qed.

  Lemma PL_basic_In L x : PL L -> In x L -> basic x = true.
  Proof. intros P Hx. pose proof (pl_basic _ P) as H. rewrite forallb_forall in H. apply H. exact Hx. Qed.
  Lemma basic_parts x : basic x = true -> is_union x = false /\ is_opt x = false /\
    forall o l, x = TLit o l -> o = false /\ l <> [] /\ lit_overflow l = false.
  Proof.
    unfold basic. rewrite !andb_true_iff, !negb_true_iff. intros [[U O] L]. repeat split; try assumption;
    subst x; rewrite andb_true_iff, negb_true_iff in L; destruct L as [L1 L2]; try assumption;
    destruct l; try discriminate; try congruence. apply negb_true_iff in L2. exact L2.
  Qed.

  Lemma mk_union_simple T2 : PL T2 ->
    exists tl, mk_union T2 = mk_u T2 ++ tl /\
      (tl = [] \/ exists ls', tl = [TLit false ls'] /\ ls' <> [] /\ lit_overflow ls' = false /\ ~ In TStr (mk_u T2)).
  Proof.
    intros P.
    assert (FL : flatten_union T2 = T2).
    { apply flatten_flat. intros x Hx. apply (basic_parts x (PL_basic_In _ _ P Hx)). }
    destruct (mk_union_cases T2) as [[E _]|[[E [U [N O]]]|[E C]]].
    - exists []. rewrite app_nil_r. auto.
    - exists [TLit false (mk_ls T2)]. split; [exact E|]. right. exists (mk_ls T2). repeat split; try assumption.
      intros Hi. apply mk_u_In in Hi. destruct Hi as [Hi _]. apply (mk_ul_true _ U) in Hi. destruct Hi as [Hi _]. discriminate.
    - exists []. rewrite app_nil_r. split; [|left; reflexivity]. rewrite E.
      assert (In TStr (mk_u T2)) as Hi.
      { destruct C as [C|[_ C]].
        - unfold mk_ul in C. apply lit_fold_false in C. destruct C as [C|[t [Ht C]]]; [discriminate|].
          rewrite FL in Ht. destruct C as [C|[l C]].
          + destruct t; try discriminate. apply mk_u_In. rewrite FL. auto.
          + subst t. destruct (basic_parts _ (PL_basic_In _ _ P Ht)) as [_ [_ B]].
            destruct (B true l eq_refl) as [B1 _]. discriminate.
        - exfalso. unfold mk_ls in C. rewrite lit_fold_bounded in C; [discriminate| | |left; reflexivity|reflexivity].
          + rewrite FL. apply (pl_lit _ P).
          + rewrite FL. intros o l Hi. destruct (basic_parts _ (PL_basic_In _ _ P Hi)) as [_ [_ B]].
            apply (B o l eq_refl). }
      unfold add_unique. apply existsb_ty_eqb in Hi. rewrite Hi. reflexivity.
  Qed.

  (* ---------------------------------------------------------------- *)
  (* 11. nfo of the rebuilt union                                       *)
  Notation nf := (nf registry).
  Notation ordered := (ordered registry).
  Notation nfo := (nfo registry).
  Lemma nf_union l : nf (TUnion l) = union_ok registry l && forallb nf l.
  Proof. reflexivity. Qed.
  Lemma ordered_union l : ordered (TUnion l) = sorted l && forallb ordered l.
  Proof. reflexivity. Qed.
  Lemma nf_obj fs : nf (TObj fs) = forallb (fun kv => nf (snd kv)) fs.
  Proof. simpl. induction fs as [|[k x] r IH]; [reflexivity|]. simpl. rewrite IH. reflexivity. Qed.
  Lemma ordered_obj fs : ordered (TObj fs) = forallb (fun kv => ordered (snd kv)) fs.
  Proof. simpl. induction fs as [|[k x] r IH]; [reflexivity|]. simpl. rewrite IH. reflexivity. Qed.
  Lemma nfo_iff t : nfo t = true <-> nf t = true /\ ordered t = true.
  Proof. unfold NF.nfo. apply andb_true_iff. Qed.

  Lemma union1_nfo T2 :
    T2 <> [] -> PL T2 ->
    (forall x, In x T2 -> is_null x = false) -> (forall x, In x T2 -> is_unknown x = false) ->
    (forall x, In x T2 -> nfo x = true) ->
    nfo (union1 T2) = true /\ is_opt (union1 T2) = false.
  Proof.
    intros Hne P Hnull Hunk Hn.
    assert (FL : flatten_union T2 = T2).
    { apply flatten_flat. intros x Hx. apply (basic_parts x (PL_basic_In _ _ P Hx)). }
    destruct (mk_union_simple T2 P) as [tl [E Htl]].
    set (u := mk_u T2) in *.
    assert (Uin : forall x, In x u -> In x T2 /\ is_lit x = false).
    { intros x Hx. apply mk_u_In in Hx. rewrite FL in Hx. exact Hx. }
    assert (Usub : sub u (filter nonlit T2)).
    { unfold u, mk_u. rewrite FL. apply (sub_ded (filter nonlit T2) []). }
    assert (Usub2 : sub u T2) by (eapply sub_trans; [exact Usub | apply sub_filter]).
    assert (TL : forall x, In x tl -> exists ls', x = TLit false ls' /\ ls' <> [] /\ lit_overflow ls' = false).
    { intros x Hx. destruct Htl as [->|[ls' [-> [N [O _]]]]]; [destruct Hx|]. destruct Hx as [<-|[]]. exists ls'. auto. }
    assert (TLlen : length tl <= 1).
    { destruct Htl as [->|[ls' [-> _]]]; simpl; lia. }
    (* members *)
    assert (M : forall x, In x (mk_union T2) -> nfo x = true /\ is_opt x = false /\ is_union x = false /\ is_null x = false /\ is_unknown x = false).
    { intros x Hx. rewrite E in Hx. apply in_app_iff in Hx. destruct Hx as [Hx|Hx].
      - apply Uin in Hx. destruct Hx as [Hx _]. destruct (basic_parts x (PL_basic_In _ _ P Hx)) as [B1 [B2 _]]. repeat split; auto.
      - destruct (TL x Hx) as [ls' [-> [N O]]]. repeat split; try reflexivity.
        unfold NF.nfo. simpl. destruct ls'; [congruence|reflexivity]. }
    assert (CU : forall f, count f T2 <= 1 -> (forall x, In x tl -> f x = false) -> count f (mk_union T2) <= 1).
    { intros f Hc Hf. rewrite E, count_app, (count_zero f tl Hf). pose proof (sub_count f _ _ Usub2). lia. }
    assert (NE : mk_union T2 <> []).
    { apply mk_union_nonempty; rewrite FL; [exact Hne|]. intros ls Hi.
      destruct (basic_parts _ (PL_basic_In _ _ P Hi)) as [_ [_ B]]. apply (B false ls eq_refl). }
    assert (SO : sorted (mk_union T2) = true).
    { rewrite E. apply (sorted_app_bound 4).
      - eapply sorted_sub; [exact Usub | apply (pl_srt _ P)].
      - intros x Hx. apply rank_nonlit_le4. apply Uin. exact Hx.
      - apply sorted_le1. exact TLlen.
      - intros y Hy. destruct (TL y Hy) as [ls' [-> _]]. simpl. lia. }
    assert (UO : 2 <= length (mk_union T2) -> union_ok registry (mk_union T2) = true).
    { intros Hlen. unfold union_ok. rewrite !andb_true_iff. repeat split.
      - apply Nat.leb_le. exact Hlen.
      - apply forallb_forall. intros x Hx. destruct (M x Hx) as [_ [A1 [A2 [A3 _]]]]. rewrite A1, A2, A3. reflexivity.
      - apply mk_union_nodupb.
      - apply negb_true_iff. destruct (existsb (ty_eqb TInt) (mk_union T2)) eqn:E1; [|reflexivity].
        destruct (existsb (ty_eqb TFloat) (mk_union T2)) eqn:E2; [|reflexivity]. exfalso.
        apply existsb_ty_eqb in E1, E2. rewrite E in E1, E2. apply in_app_iff in E1, E2.
        destruct E1 as [E1|E1]; [|destruct (TL _ E1) as [? [? _]]; discriminate].
        destruct E2 as [E2|E2]; [|destruct (TL _ E2) as [? [? _]]; discriminate].
        apply Uin in E1, E2. destruct E1 as [E1 _], E2 as [E2 _].
        pose proof (pl_intfloat _ P) as IFl. apply existsb_ty_eqb in E1, E2. rewrite E1, E2 in IFl. discriminate.
      - apply negb_true_iff. destruct (existsb is_str (mk_union T2)) eqn:E1; [|reflexivity].
        destruct (existsb (fun m => is_lit m || str_like registry m && negb (is_str m)) (mk_union T2)) eqn:E2; [|reflexivity]. exfalso.
        apply existsb_exists in E1. destruct E1 as [s [Hs Ss]]. destruct s; try discriminate.
        apply existsb_exists in E2. destruct E2 as [m [Hm Sm]].
        rewrite E in Hs, Hm. apply in_app_iff in Hs. destruct Hs as [Hs|Hs]; [|destruct (TL _ Hs) as [? [? _]]; discriminate].
        destruct Htl as [->|[ls' [_ [_ [_ Hno]]]]]; [|contradiction].
        rewrite app_nil_r in Hm. destruct (Uin _ Hm) as [Hm2 Lm]. rewrite Lm in Sm. simpl in Sm.
        rewrite andb_true_iff, negb_true_iff in Sm. destruct Sm as [Sm1 Sm2].
        destruct (Uin _ Hs) as [Hs2 _].
        assert (TStr = m) as <- by (apply (count_le1_eq (str_like registry) T2); [apply (pl_strlike _ P)| | | |]; auto).
        discriminate.
      - apply Nat.leb_le. apply CU; [apply (pl_list _ P)|]. intros x Hx. destruct (TL x Hx) as [? [-> _]]. reflexivity.
      - apply Nat.leb_le. apply CU; [apply (pl_dict _ P)|]. intros x Hx. destruct (TL x Hx) as [? [-> _]]. reflexivity.
      - apply Nat.leb_le. apply CU; [apply (pl_obj _ P)|]. intros x Hx. destruct (TL x Hx) as [? [-> _]]. reflexivity.
      - apply Nat.leb_le. apply mk_union_count_lit.
      - apply Nat.leb_le. apply CU; [apply (pl_strlike _ P)|]. intros x Hx. destruct (TL x Hx) as [? [-> _]]. reflexivity.
      - apply negb_true_iff. apply existsb_false. intros x Hx. apply (M x Hx). }
    unfold union1. destruct (mk_union T2) as [|a [|b r]] eqn:EM.
    - congruence.
    - destruct (M a (or_introl eq_refl)) as [A1 [A2 _]]. auto.
    - split; [|reflexivity]. apply nfo_iff. rewrite nf_union, ordered_union, !andb_true_iff. repeat split.
      + apply UO. simpl. lia.
      + apply forallb_forall. intros x Hx. apply M in Hx. destruct Hx as [Hx _]. apply nfo_iff in Hx. apply Hx.
      + exact SO.
      + apply forallb_forall. intros x Hx. apply M in Hx. destruct Hx as [Hx _]. apply nfo_iff in Hx. apply Hx.
  Qed.

  (* ---------------------------------------------------------------- *)
  (* 12. finish, and the main induction                                 *)
  Definition fin_T1 (T : list ty) : list ty :=
    if existsb is_unknown T && existsb (fun t => negb (is_unknown t) && negb (is_null t)) T
    then remove_first is_unknown T else T.
  Definition fin_T2 (T : list ty) : list ty := filter (fun x => negb (is_null x)) (fin_T1 T).
  Lemma finish_2 T : 2 <= length T ->
    finish T = Some (if existsb is_null (fin_T1 T) then TOpt (union1 (fin_T2 T)) else union1 (fin_T2 T)).
  Proof. intros H. destruct T as [|a [|b r]]; [simpl in H; lia | simpl in H; lia | reflexivity]. Qed.

  Lemma nonnull_exists (T : list ty) : 2 <= length T -> count is_null T <= 1 -> exists x, In x T /\ is_null x = false.
  Proof.
    intros Hl Hc. destruct (existsb (fun x => negb (is_null x)) T) eqn:E.
    - apply existsb_exists in E. destruct E as [x [Hx Nx]]. exists x. split; [exact Hx|]. apply negb_true_iff. exact Nx.
    - exfalso. rewrite existsb_false in E. rewrite (count_all is_null T) in Hc; [lia|].
      intros x Hx. apply E in Hx. apply negb_false_iff. exact Hx.
  Qed.

  Lemma fin_T2_props T : 2 <= length T -> PL T ->
    sub (fin_T2 T) T /\ (fin_T2 T = [TUnknown] \/ (fin_T2 T <> [] /\ forall x, In x (fin_T2 T) -> is_unknown x = false)).
  Proof.
    intros Hlen P.
    assert (S1 : sub (fin_T1 T) T) by (unfold fin_T1; destruct (_ && _); [apply sub_remove_first | apply sub_refl]).
    assert (S2 : sub (fin_T2 T) T) by (eapply sub_trans; [apply sub_filter | exact S1]).
    split; [exact S2|].
    destruct (nonnull_exists T Hlen (pl_null _ P)) as [z [Hz Nz]].
    unfold fin_T2, fin_T1 in *.
    destruct (existsb is_unknown T && existsb (fun t => negb (is_unknown t) && negb (is_null t)) T) eqn:C.
    - right. apply andb_true_iff in C. destruct C as [_ C]. apply existsb_exists in C. destruct C as [y [Hy Cy]].
      apply andb_true_iff in Cy. destruct Cy as [Cy1 Cy2]. apply negb_true_iff in Cy1. split.
      + assert (In y (filter (fun x => negb (is_null x)) (remove_first is_unknown T))) as Hi.
        { apply filter_In. split; [apply remove_first_keeps; assumption | exact Cy2]. }
        intros E. rewrite E in Hi. destruct Hi.
      + intros x Hx. apply filter_In in Hx. destruct Hx as [Hx _].
        apply (remove_first_none is_unknown T (pl_unk _ P) x Hx).
    - assert (NE : filter (fun x => negb (is_null x)) T <> []).
      { assert (In z (filter (fun x => negb (is_null x)) T)) as Hi by (apply filter_In; split; [exact Hz | rewrite Nz; reflexivity]).
        intros E. rewrite E in Hi. destruct Hi. }
      apply andb_false_iff in C. destruct C as [C|C].
      + right. split; [exact NE|]. intros x Hx. apply filter_In in Hx. destruct Hx as [Hx _].
        rewrite existsb_false in C. apply C. exact Hx.
      + left. rewrite existsb_false in C.
        assert (AU : forall x, In x (filter (fun x => negb (is_null x)) T) -> is_unknown x = true).
        { intros x Hx. apply filter_In in Hx. destruct Hx as [Hx Nx]. specialize (C x Hx). rewrite Nx, andb_true_r in C.
          apply negb_false_iff. exact C. }
        pose proof (count_all is_unknown _ AU) as CA. pose proof (sub_count is_unknown _ _ S2) as CS. pose proof (pl_unk _ P) as PU.
        destruct (filter (fun x => negb (is_null x)) T) as [|y [|y2 r]] eqn:EF; [congruence| |simpl in *; lia].
        specialize (AU y (or_introl eq_refl)). destruct y; try discriminate. reflexivity.
  Qed.

  Lemma nfo_opt y : nfo y = true -> is_opt y = false -> nfo (TOpt y) = true.
  Proof. unfold NF.nfo. simpl. intros H O. rewrite O. simpl. rewrite andb_true_r. exact H. Qed.
  Lemma nfo_obj fs : (forall kv, In kv fs -> nfo (snd kv) = true) -> nfo (TObj fs) = true.
  Proof.
    intros H. apply nfo_iff. rewrite nf_obj, ordered_obj. split; apply forallb_forall; intros kv Hkv; apply H in Hkv; apply nfo_iff in Hkv; apply Hkv.
  Qed.

  Lemma finish_nfo T t' : PL T -> (forall x, In x T -> nfo x = true) -> finish T = Some t' -> nfo t' = true.
  Proof.
    intros P Hn H.
    destruct (le_lt_dec 2 (length T)) as [Hlen|Hlen].
    2:{ destruct T as [|a [|b r]]; [discriminate| | simpl in Hlen; lia]. simpl in H. inversion H; subst. apply Hn. left; reflexivity. }
    rewrite (finish_2 T Hlen) in H. inversion H; subst t'; clear H.
    destruct (fin_T2_props T Hlen P) as [S2 K].
    assert (G : nfo (union1 (fin_T2 T)) = true /\ is_opt (union1 (fin_T2 T)) = false).
    { destruct K as [K|[K1 K2]]; [rewrite K; vm_compute; auto|].
      apply union1_nfo; [exact K1 | eapply PL_sub; eassumption | | exact K2 |].
      - intros x Hx. unfold fin_T2 in Hx. apply filter_In in Hx. apply negb_true_iff. apply Hx.
      - intros x Hx. apply Hn. eapply sub_In; eassumption. }
    destruct G as [G1 G2]. destruct (existsb is_null (fin_T1 T)); [apply nfo_opt; assumption | exact G1].
  Qed.

  Lemma Forall2_skel fuel : forall L T, Forall2 (fun x x' => optimize fuel x = Some x') L T ->
    (forall x, In x L -> basic x = true) -> map skel T = map skel L.
  Proof.
    induction 1 as [|x x' L T Hx HF IH]; intros B; [reflexivity|]. simpl. f_equal.
    - eapply optimize_skel; [apply B; left; reflexivity | exact Hx].
    - apply IH. intros y Hy. apply B. right. exact Hy.
  Qed.
  Lemma Forall2_In_r {A B} (P : A -> B -> Prop) l l' y : Forall2 P l l' -> In y l' -> exists x, In x l /\ P x y.
  Proof.
    induction 1 as [|a b l l' Hab HF IH]; intros Hi; [destruct Hi|].
    destruct Hi as [<-|Hi]; [exists a; split; [left; reflexivity | exact Hab]|].
    destruct (IH Hi) as [x [Hx Px]]. exists x. split; [right; exact Hx | exact Px].
  Qed.

  Theorem optimize_RF_nfo : forall fuel t t', RF t = true -> optimize fuel t = Some t' -> nfo t' = true.
  Proof.
    induction fuel as [|fuel IH]; intros t t' Hrf H; [discriminate|]. rewrite optimize_S in H.
    destruct t; try (inversion H; reflexivity).
    - (* TLit *) simpl in Hrf. destruct overflow; simpl in H; inversion H; [reflexivity|].
      destruct ls; [discriminate Hrf | reflexivity].
    - (* TOpt *) simpl in Hrf. destruct (optimize fuel t) as [y|] eqn:E; [|discriminate].
      pose proof (IH _ _ (R_RF _ Hrf) E) as Hy.
      destruct y; inversion H; subst; try (apply nfo_opt; [exact Hy | reflexivity]). exact Hy.
    - (* TList *) simpl in Hrf. destruct (optimize fuel t) as [y|] eqn:E; [|discriminate]. inversion H; subst.
      exact (IH _ _ (R_RF _ Hrf) E).
    - (* TDict *) simpl in Hrf. destruct (optimize fuel t) as [y|] eqn:E; [|discriminate]. inversion H; subst.
      exact (IH _ _ (R_RF _ Hrf) E).
    - (* TUnion *) simpl in Hrf. apply andb_true_iff in Hrf. destruct Hrf as [Hu Hr]. rewrite forallb_forall in Hr.
      destruct (opt_list (optimize fuel) (regroup ts)) as [T|] eqn:E; [|discriminate].
      apply opt_list_Forall2 in E.
      pose proof (regroup_PL ts Hu Hr) as PLL.
      apply (finish_nfo T); [|  | exact H].
      + apply (PL_skel (regroup ts)); [exact PLL|]. apply (Forall2_skel fuel _ _ E).
        intros x Hx. apply (PL_basic_In _ _ PLL Hx).
      + intros x' Hx'. destruct (Forall2_In_r _ _ _ _ E Hx') as [x [Hx Ox]].
        apply (IH x x'); [apply (regroup_RF ts Hu Hr x Hx) | exact Ox].
    - (* TObj *) simpl in Hrf. rewrite forallb_forall in Hrf.
      destruct (opt_fields (optimize fuel) fs) as [fs'|] eqn:E; [|discriminate]. inversion H; subst.
      apply opt_fields_Forall2 in E. apply nfo_obj. intros kv' Hkv'.
      destruct (Forall2_In_r _ _ _ _ E Hkv') as [kv [Hkv [_ Okv]]].
      apply (IH (snd kv)); [apply Hrf; exact Hkv | exact Okv].
  Qed.
End Opt.

(* The old statement of regroup_noopt (premise: no Optional member, only) is false since the D32 repair of regroup: a union
   member is now spliced into the work-list.  (The same example refutes the old regroup_perm / regroup_single, and
   regroup_opt_old_refuted the old regroup_opt, whose only premise was is_opt y = false.) *)
Example regroup_noopt_old_refuted :
  let ts := [TUnion [TInt]] in
  forallb (fun x => negb (is_opt x)) ts = true /\
  regroup [] [] N.eqb ts = [TInt] /\
  (((oth_of [] ts ++ objp N.eqb ts) ++ listp ts) ++ dictp ts) ++ str_result [] (filter (in_reg []) ts) = [TUnion [TInt]].
Proof. vm_compute. auto. Qed.
Example regroup_opt_old_refuted :
  let y := TUnion [TInt; TBool] in
  is_opt y = false /\ regroup [] [] N.eqb [TOpt y] = [TNull; TInt; TBool].
Proof. vm_compute. auto. Qed.

(* ------------------------------------------------------------------ *)
(* 13. From the raw invariant of Sem/NF.v (plus two decidable side conditions) to RF                  *)
(* side condition 1: Optional only on top of a field (of a field of a field ...) *)
Fixpoint no_opt (t : ty) : bool :=
  match t with
  | TOpt _ => false
  | TList x | TDict x => no_opt x
  | TUnion ts => forallb no_opt ts
  | TObj fs => forallb (fun kv => no_opt (snd kv)) fs
  | _ => true
  end.
Fixpoint opt_top (t : ty) : bool :=
  match t with
  | TOpt x => no_opt x
  | TObj fs => forallb (fun kv => opt_top (snd kv)) fs
  | _ => no_opt t
  end.
(* side condition 2: a non-overflowed literal obeys the StringLiteral limits (what mk_lit / mk_union build) *)
Fixpoint lits_bounded (t : ty) : bool :=
  match t with
  | TLit o ls => o || negb (lit_overflow ls)
  | TOpt x | TList x | TDict x => lits_bounded x
  | TUnion ts => forallb lits_bounded ts
  | TObj fs => forallb (fun kv => lits_bounded (snd kv)) fs
  | _ => true
  end.

Lemma raw_union_eq ts : raw (TUnion ts) = raw_union_ok ts && forallb raw ts.
Proof. reflexivity. Qed.
Lemma raw_field_union_eq ts : raw_field (TUnion ts) = raw_union_ok ts && forallb raw ts.
Proof. reflexivity. Qed.
Lemma raw_field_obj_eq fs : raw_field (TObj fs) = forallb (fun kv => raw_field (snd kv)) fs.
Proof. simpl. induction fs as [|[k x] r IH]; [reflexivity|]. simpl. rewrite IH. reflexivity. Qed.
Lemma raw_raw_field t : raw t = true -> raw_field t = true.
Proof. destruct t; intros H; try exact H. discriminate. Qed.

Lemma raw_to_R : forall t,
  (raw_field t = true -> opt_top t = true -> lits_bounded t = true -> RF t = true) /\
  (raw_field t = true -> no_opt t = true -> lits_bounded t = true -> R t = true).
Proof.
  induction t using ty_ind2; try (split; reflexivity).
  - (* TLit *)
    assert (raw_field (TLit o ls) = true -> lits_bounded (TLit o ls) = true -> lit_R o ls = true) as G.
    { simpl. unfold lit_R. destruct o; simpl; [auto|]. destruct ls; auto. }
    split; intros A _ B; apply G; assumption.
  - (* TOpt *) destruct IHt as [_ IH2]. split; [|discriminate].
    simpl. intros A B C. apply IH2; [apply raw_raw_field; exact A | exact B | exact C].
  - (* TList *) destruct IHt as [_ IH2].
    split; simpl; intros A B C; (apply IH2; [apply raw_raw_field; exact A | exact B | exact C]).
  - (* TDict *) destruct IHt as [_ IH2].
    split; simpl; intros A B C; (apply IH2; [apply raw_raw_field; exact A | exact B | exact C]).
  - (* TUnion *)
    assert (raw_field (TUnion ts) = true -> no_opt (TUnion ts) = true -> lits_bounded (TUnion ts) = true -> R (TUnion ts) = true) as G.
    { rewrite raw_field_union_eq. cbn [no_opt lits_bounded R]. rewrite andb_true_iff, !forallb_forall.
      intros [A1 A2] B C. rewrite A1. cbn [andb]. apply forallb_forall. intros x Hx.
      rewrite Forall_forall in H. destruct (H x Hx) as [_ IH2].
      apply IH2; [apply raw_raw_field; apply A2; exact Hx | apply B; exact Hx | apply C; exact Hx]. }
    split; exact G.
  - (* TObj *) rewrite Forall_forall in H. split; rewrite raw_field_obj_eq; cbn [opt_top no_opt lits_bounded RF R];
      rewrite !forallb_forall; intros A B C kv Hkv; destruct (H kv Hkv) as [IH1 IH2];
      [apply IH1 | apply IH2]; auto.
  - (* TPtr *) split; discriminate.
Qed.

Theorem optimize_raw_nfo_gen : forall registry replaces peq fuel t t',
  raw_field t = true -> opt_top t = true -> lits_bounded t = true ->
  optimize registry replaces peq fuel t = Some t' ->
  nfo registry t' = true.
Proof.
  intros registry replaces peq fuel t t' A B C H.
  apply (optimize_RF_nfo registry replaces peq fuel t t'); [|exact H]. apply (raw_to_R t); assumption.
Qed.

Theorem optimize_raw_nfo : forall registry replaces fuel t t',
  raw_field t = true -> opt_top t = true -> lits_bounded t = true ->
  optimize registry replaces N.eqb fuel t = Some t' ->
  nfo registry t' = true.
Proof. intros registry replaces. apply optimize_raw_nfo_gen. Qed.

Theorem optimize_fields_nfo : forall registry replaces fuel fs fs',
  raw_fields fs = true -> opt_top (TObj fs) = true -> lits_bounded (TObj fs) = true ->
  optimize_fields registry replaces N.eqb fuel fs = Some fs' ->
  nfo registry (TObj fs') = true.
Proof.
  intros registry replaces fuel fs fs' A B C H. unfold optimize_fields in H.
  destruct (optimize registry replaces N.eqb fuel (TObj fs)) as [t|] eqn:E; [|discriminate].
  destruct t; try discriminate. inversion H; subst.
  apply (optimize_raw_nfo registry replaces fuel (TObj fs)); [|exact B|exact C|exact E].
  rewrite raw_field_obj_eq. exact A.
Qed.

(* The statements without the side conditions are false: *)
Definition cex_long : str := repeat 65%N 25.
Definition cex_lit : ty := TUnion [TPseudo PInt; TLit false [cex_long]].
Example optimize_raw_nfo_refuted_literal :
  raw_field cex_lit = true /\ opt_top cex_lit = true /\
  match optimize [PInt] [] N.eqb 10 cex_lit with Some t => nfo [PInt] t | None => true end = false.
Proof. vm_compute. auto. Qed.
Definition cex_k : str := [1%N].
Definition cex_opt : ty := TUnion [TObj [(cex_k, TUnion [TUnknown; TInt])]; TObj [(cex_k, TOpt (TUnion [TUnknown]))]].
Example optimize_raw_nfo_refuted_optional :
  raw_field cex_opt = true /\ lits_bounded cex_opt = true /\
  match optimize [] [] N.eqb 10 cex_opt with Some t => nfo [] t | None => true end = false.
Proof. vm_compute. auto. Qed.

(* ------------------------------------------------------------------ *)
(* 14. Second pass over a normal form: preliminaries                    *)
Lemma opt_list_mono (o1 o2 : ty -> option ty) : (forall x x', o1 x = Some x' -> o2 x = Some x') ->
  forall l l', opt_list o1 l = Some l' -> opt_list o2 l = Some l'.
Proof.
  intros M. induction l as [|x r IH]; simpl; intros l' H; [exact H|].
  destruct (o1 x) as [x'|] eqn:E; [|discriminate]. destruct (opt_list o1 r) as [r'|]; [|discriminate].
  rewrite (M _ _ E), (IH _ eq_refl). exact H.
Qed.
Lemma opt_fields_mono (o1 o2 : ty -> option ty) : (forall x x', o1 x = Some x' -> o2 x = Some x') ->
  forall l l', opt_fields o1 l = Some l' -> opt_fields o2 l = Some l'.
Proof.
  intros M. induction l as [|[k x] r IH]; simpl; intros l' H; [exact H|].
  destruct (o1 x) as [x'|] eqn:E; [|discriminate]. destruct (opt_fields o1 r) as [r'|]; [|discriminate].
  rewrite (M _ _ E), (IH _ eq_refl). exact H.
Qed.

Lemma optimize_mono_S registry replaces peq : forall fuel t t',
  optimize registry replaces peq fuel t = Some t' -> optimize registry replaces peq (S fuel) t = Some t'.
Proof.
  induction fuel as [|fuel IH]; intros t t' H; [discriminate|].
  rewrite optimize_S in H. rewrite optimize_S. destruct t; try exact H.
  - destruct (optimize registry replaces peq fuel t) as [y|] eqn:E; [|discriminate]. rewrite (IH _ _ E). exact H.
  - destruct (optimize registry replaces peq fuel t) as [y|] eqn:E; [|discriminate]. rewrite (IH _ _ E). exact H.
  - destruct (optimize registry replaces peq fuel t) as [y|] eqn:E; [|discriminate]. rewrite (IH _ _ E). exact H.
  - destruct (opt_list (optimize registry replaces peq fuel) (regroup registry replaces peq ts)) as [T|] eqn:E; [|discriminate].
    rewrite (opt_list_mono _ _ IH _ _ E). exact H.
  - destruct (opt_fields (optimize registry replaces peq fuel) fs) as [T|] eqn:E; [|discriminate].
    rewrite (opt_fields_mono _ _ IH _ _ E). exact H.
Qed.
Lemma optimize_mono registry replaces peq fuel fuel' t t' : fuel <= fuel' ->
  optimize registry replaces peq fuel t = Some t' -> optimize registry replaces peq fuel' t = Some t'.
Proof. intros Hle. induction Hle as [|m Hle IH]; intros Ho; [exact Ho|]. apply optimize_mono_S. auto. Qed.

(* merge_field_sets of a single field set with distinct keys *)
Fixpoint keys_nodup (fs : fields) : bool :=
  match fs with [] => true | (k, _) :: r => negb (has_key k r) && keys_nodup r end.
Lemma update_fresh {A} k (t : A) acc : lookup k acc = None -> update k t acc = acc ++ [(k, t)].
Proof.
  induction acc as [|[k' t'] r IH]; simpl; [reflexivity|].
  destruct (str_eqb k k'); [discriminate|]. intros H. rewrite (IH H). reflexivity.
Qed.
Lemma lookup_app_none {A} k (a b : list (str * A)) : lookup k (a ++ b) = None <-> lookup k a = None /\ lookup k b = None.
Proof.
  induction a as [|[k' t'] r IH]; simpl; [tauto|].
  destruct (str_eqb k k'); [split; [discriminate | intros [H _]; discriminate] | exact IH].
Qed.
Lemma has_key_false_In {A} k (r : list (str * A)) : has_key k r = false -> forall k' v, In (k', v) r -> str_eqb k k' = false.
Proof.
  unfold has_key. induction r as [|[k2 t2] r IH]; simpl; intros H k' v Hi; [destruct Hi|].
  destruct (str_eqb k k2) eqn:E; [discriminate|]. destruct Hi as [Hi|Hi]; [inversion Hi; subst; exact E | eapply IH; eassumption].
Qed.
Lemma str_eqb_sym a b : str_eqb a b = str_eqb b a.
Proof.
  destruct (str_eqb a b) eqn:E1, (str_eqb b a) eqn:E2; try reflexivity.
  - apply str_eqb_eq in E1. subst. assert (str_eqb b b = true) by (apply str_eqb_eq; reflexivity). congruence.
  - apply str_eqb_eq in E2. subst. assert (str_eqb a a = true) by (apply str_eqb_eq; reflexivity). congruence.
Qed.
Lemma fold_merge_fresh peq : forall fs acc, keys_nodup fs = true ->
  (forall k v, In (k, v) fs -> lookup k acc = None) ->
  fold_left (merge_field peq true) fs acc = acc ++ fs.
Proof.
  induction fs as [|[k x] r IH]; intros acc Hn Hd; [simpl; rewrite app_nil_r; reflexivity|].
  simpl in Hn. apply andb_true_iff in Hn. destruct Hn as [Hk Hn]. apply negb_true_iff in Hk.
  cbn [fold_left merge_field]. rewrite (Hd k x (or_introl eq_refl)). cbn [orb].
  rewrite update_fresh by (apply (Hd k x); left; reflexivity).
  rewrite IH; [rewrite <- app_assoc; reflexivity | exact Hn |].
  intros k' v Hi. apply lookup_app_none. split; [apply (Hd k' v); right; exact Hi|].
  simpl. rewrite str_eqb_sym, (has_key_false_In k r Hk k' v Hi). reflexivity.
Qed.
Lemma merge_single peq fs : keys_nodup fs = true -> merge_field_sets peq [fs] = fs.
Proof.
  intros H. unfold merge_field_sets. cbn [fold_left merge_step snd].
  rewrite (fold_merge_fresh peq fs [] H) by reflexivity. cbn [app].
  induction fs as [|kv r IH]; [reflexivity|]. simpl. f_equal.
  simpl in H. destruct kv as [k x]. apply andb_true_iff in H. destruct H as [_ H].
  clear IH. induction r as [|kv' r IH]; [reflexivity|]. simpl. f_equal. destruct kv'. simpl in H.
  apply andb_true_iff in H. apply IH. apply H.
Qed.

Lemma ded_NoDup : forall l u, NoDup (u ++ l) -> ded l u = u ++ l.
Proof.
  induction l as [|a l IH]; intros u H; [simpl; rewrite app_nil_r; reflexivity|].
  unfold ded in *. simpl. unfold add_unique.
  assert (~ In a u) as Ha.
  { apply NoDup_remove_2 in H. intros Hi. apply H. apply in_app_iff. left. exact Hi. }
  apply existsb_ty_eqb_false in Ha. rewrite Ha.
  rewrite IH; [rewrite <- app_assoc; reflexivity|]. rewrite <- app_assoc. exact H.
Qed.
Lemma lit_fold_nolit : forall F ul ls, (forall x, In x F -> is_lit x = false) ->
  fold_left lit_step F (ul, ls) = (ul && negb (existsb is_str F), ls).
Proof.
  induction F as [|a F IH]; intros ul ls H; [simpl; rewrite andb_true_r; reflexivity|].
  cbn [fold_left]. assert (lit_step (ul, ls) a = ((if is_str a then false else ul), ls)) as E.
  { specialize (H a (or_introl eq_refl)). destruct a; try reflexivity. discriminate. }
  rewrite E, IH by (intros x Hx; apply H; right; exact Hx). simpl. destruct (is_str a), ul; reflexivity.
Qed.
Lemma count_le1_split {A} (f : A -> bool) l : count f l <= 1 ->
  (forall x, In x l -> f x = false) \/
  exists l1 a l2, l = l1 ++ a :: l2 /\ f a = true /\ (forall x, In x l1 -> f x = false) /\ (forall x, In x l2 -> f x = false).
Proof.
  induction l as [|y r IH]; intros Hc; [left; intros x []|].
  rewrite count_cons in Hc. destruct (f y) eqn:Fy.
  - right. exists [], y, r. repeat split; [exact Fy | intros x [] |].
    intros x Hx. destruct (f x) eqn:Fx; [|reflexivity]. pose proof (count_pos f r x Hx Fx). lia.
  - destruct IH as [IH|[l1 [a [l2 [E [Fa [H1 H2]]]]]]]; [lia | |].
    + left. intros x [<-|Hx]; auto.
    + right. exists (y :: l1), a, l2. subst r. repeat split; [exact Fa | | exact H2]. intros x [<-|Hx]; auto.
Qed.
Lemma filter_none {A} (f : A -> bool) l : (forall x, In x l -> f x = false) -> filter f l = [].
Proof.
  induction l as [|y r IH]; intros H; [reflexivity|]. simpl. rewrite (H y (or_introl eq_refl)). apply IH.
  intros x Hx. apply H. right. exact Hx.
Qed.
Lemma filter_ext' {A} (f g : A -> bool) l : (forall x, In x l -> f x = g x) -> filter f l = filter g l.
Proof.
  induction l as [|y r IH]; intros H; [reflexivity|]. simpl. rewrite (H y (or_introl eq_refl)), IH; [reflexivity|].
  intros x Hx. apply H. right. exact Hx.
Qed.
Lemma filter_filter {A} (f g : A -> bool) l : filter f (filter g l) = filter (fun x => g x && f x) l.
Proof. induction l as [|y r IH]; [reflexivity|]. simpl. destruct (g y); simpl; [destruct (f y)|]; rewrite IH; reflexivity. Qed.

(* mk_union of a flat, duplicate-free list with at most one well-formed literal never beside str *)
Definition lit_wf (l : list str) : Prop := l <> [] /\ ins_all l [] = l /\ lit_overflow l = false.
Lemma mk_union_clean F :
  (forall x, In x F -> is_union x = false) -> NoDup (filter nonlit F) -> count is_lit F <= 1 ->
  (forall o l, In (TLit o l) F -> o = false /\ lit_wf l) ->
  (In TStr F -> forall x, In x F -> is_lit x = false) ->
  mk_union F = filter nonlit F ++ filter is_lit F.
Proof.
  intros Hu Hn Hc Hl Hs. unfold mk_union. rewrite union_fold, (flatten_flat F Hu).
  rewrite (ded_NoDup (filter nonlit F) []) by exact Hn. cbn [app].
  destruct (count_le1_split is_lit F Hc) as [A|[F1 [a [F2 [E [La [A1 A2]]]]]]].
  - rewrite (lit_fold_nolit F true [] A), (filter_none is_lit F A), app_nil_r. cbn [fst snd andb].
    destruct (existsb is_str F) eqn:S; cbn [negb]; [|reflexivity].
    apply existsb_exists in S. destruct S as [s [Hs1 Hs2]]. destruct s; try discriminate.
    unfold add_unique. assert (In TStr (filter nonlit F)) as Hi by (apply In_filter_nonlit; auto).
    apply existsb_ty_eqb in Hi. rewrite Hi. reflexivity.
  - destruct a; try discriminate.
    assert (In (TLit overflow ls) F) as Hi by (rewrite E; apply in_app_iff; right; left; reflexivity).
    destruct (Hl _ _ Hi) as [-> [W1 [W2 W3]]].
    assert (NS : forall x, In x F -> is_str x = false).
    { intros x Hx. destruct x; try reflexivity. specialize (Hs Hx _ Hi). discriminate. }
    assert (N1 : existsb is_str F1 = false) by (apply existsb_false; intros x Hx; apply NS; rewrite E; apply in_app_iff; auto).
    assert (N2 : existsb is_str F2 = false) by (apply existsb_false; intros x Hx; apply NS; rewrite E; apply in_app_iff; right; right; exact Hx).
    assert (FV : fold_left lit_step F (true, []) = (true, ls)).
    { rewrite E, fold_left_app, (lit_fold_nolit F1 true [] A1), N1. cbn [andb negb fold_left lit_step].
      rewrite W2, (lit_fold_nolit F2 true ls A2), N2. reflexivity. }
    rewrite FV. cbn [fst snd].
    assert (FL : filter is_lit F = [TLit false ls]).
    { rewrite E, filter_app. cbn [filter is_lit]. rewrite (filter_none is_lit F1 A1), (filter_none is_lit F2 A2). reflexivity. }
    rewrite FL. destruct ls as [|s0 r0]; [congruence|]. rewrite W3. reflexivity.
Qed.

(* ------------------------------------------------------------------ *)
(* 16. Second pass: sorted unions are rebuilt in place                  *)
Section Second.
  Variable registry : list pseudo.
  Variable replaces : list (pseudo * pseudo).
  Variable peq : N -> N -> bool.
  Notation optimize := (optimize registry replaces peq).
  Notation regroup := (regroup registry replaces peq).
  Notation rank := (cat_rank registry).
  Notation sorted := (sorted_by_rank registry).
  Notation isoth := (is_other registry).

  Definition cat (k : nat) (l : list ty) : list ty := filter (fun x => rank x =? k) l.
  Lemma cat_cons k x r : cat k (x :: r) = if rank x =? k then x :: cat k r else cat k r.
  Proof. reflexivity. Qed.
  Lemma cat_empty j k l : (forall y, In y l -> k <= rank y) -> j < k -> cat j l = [].
  Proof. intros B Hj. apply filter_none. intros y Hy. apply Nat.eqb_neq. specialize (B y Hy). lia. Qed.
  Lemma rank_le5 x : rank x <= 5.
  Proof. destruct x; simpl; try lia. destruct (pmem _ _); lia. Qed.
  Lemma sorted_cats l : sorted l = true -> l = cat 0 l ++ cat 1 l ++ cat 2 l ++ cat 3 l ++ cat 4 l ++ cat 5 l.
  Proof.
    induction l as [|x r IH]; intros S; [reflexivity|]. simpl in S. apply andb_true_iff in S. destruct S as [S1 S2].
    specialize (IH S2). rewrite forallb_forall in S1.
    assert (B : forall y, In y r -> rank x <= rank y) by (intros y Hy; apply Nat.leb_le; apply S1; exact Hy).
    pose proof (rank_le5 x) as R5. rewrite !cat_cons.
    destruct (rank x) as [|[|[|[|[|[|n]]]]]] eqn:K; [| | | | | | lia]; cbn [Nat.eqb];
      rewrite IH at 1;
      try rewrite (cat_empty 0 _ r B) by lia; try rewrite (cat_empty 1 _ r B) by lia;
      try rewrite (cat_empty 2 _ r B) by lia; try rewrite (cat_empty 3 _ r B) by lia;
      try rewrite (cat_empty 4 _ r B) by lia; reflexivity.
  Qed.

  Lemma cat0_eq l : cat 0 l = filter nonlit (filter isoth l).
  Proof.
    rewrite filter_filter. apply filter_ext'. intros x _. unfold is_other.
    destruct x; try reflexivity. simpl. destruct (pmem p registry); reflexivity.
  Qed.
  Lemma cat1_eq l : cat 1 l = filter is_obj l.
  Proof. apply filter_ext'. intros x _. destruct x; try reflexivity. simpl. destruct (pmem p registry); reflexivity. Qed.
  Lemma cat2_eq l : cat 2 l = filter is_list l.
  Proof. apply filter_ext'. intros x _. destruct x; try reflexivity. simpl. destruct (pmem p registry); reflexivity. Qed.
  Lemma cat3_eq l : cat 3 l = filter is_dict l.
  Proof. apply filter_ext'. intros x _. destruct x; try reflexivity. simpl. destruct (pmem p registry); reflexivity. Qed.
  Lemma cat4_eq l : cat 4 l = filter (in_reg registry) l.
  Proof. apply filter_ext'. intros x _. destruct x; try reflexivity. simpl. destruct (pmem p registry); reflexivity. Qed.
  Lemma cat5_eq l : cat 5 l = filter is_lit l.
  Proof. apply filter_ext'. intros x _. destruct x; try reflexivity. simpl. destruct (pmem p registry); reflexivity. Qed.

  Definition perm_of (ts : list ty) : list ty :=
    filter isoth ts ++ filter is_obj ts ++ filter is_list ts ++ filter is_dict ts ++ filter (in_reg registry) ts.
  Lemma perm_of_In ts x : In x (perm_of ts) -> In x ts.
  Proof. unfold perm_of. rewrite !in_app_iff, !filter_In. tauto. Qed.
  Lemma perm_nonlit ts : filter nonlit (perm_of ts) = cat 0 ts ++ cat 1 ts ++ cat 2 ts ++ cat 3 ts ++ cat 4 ts.
  Proof.
    unfold perm_of. rewrite !filter_app, cat0_eq, cat1_eq, cat2_eq, cat3_eq, cat4_eq.
    f_equal. rewrite !filter_filter. f_equal; [|f_equal; [|f_equal]]; apply filter_ext'; intros x _; destruct x; simpl; rewrite ?andb_true_r, ?andb_false_r; reflexivity.
  Qed.
  Lemma perm_lit ts : filter is_lit (perm_of ts) = cat 5 ts.
  Proof.
    unfold perm_of. rewrite !filter_app, cat5_eq, !filter_filter.
    rewrite (filter_none (fun x => is_obj x && is_lit x)) by (intros x _; destruct x; reflexivity).
    rewrite (filter_none (fun x => is_list x && is_lit x)) by (intros x _; destruct x; reflexivity).
    rewrite (filter_none (fun x => is_dict x && is_lit x)) by (intros x _; destruct x; reflexivity).
    rewrite (filter_none (fun x => in_reg registry x && is_lit x)) by (intros x _; destruct x; try reflexivity; simpl; apply andb_false_r).
    rewrite !app_nil_r. apply filter_ext'. intros x _. destruct x; simpl; rewrite ?andb_true_r, ?andb_false_r; reflexivity.
  Qed.
  Lemma perm_sorted ts : sorted ts = true -> filter nonlit (perm_of ts) ++ filter is_lit (perm_of ts) = ts.
  Proof.
    intros S. rewrite perm_nonlit, perm_lit. rewrite (sorted_cats ts S) at 7. rewrite <- !app_assoc. reflexivity.
  Qed.
  Lemma cat_nonlit k l : k <= 4 -> filter nonlit (cat k l) = cat k l.
  Proof.
    intros Hk. unfold cat. rewrite filter_filter. apply filter_ext'. intros x _.
    destruct (rank x =? k) eqn:E; [|reflexivity]. apply Nat.eqb_eq in E. destruct x; try reflexivity. simpl in E. lia.
  Qed.
  Lemma cat5_nonlit l : filter nonlit (cat 5 l) = [].
  Proof.
    unfold cat. rewrite filter_filter. apply filter_none. intros x _. destruct x; try reflexivity.
    simpl. destruct (pmem p registry); reflexivity.
  Qed.
  Lemma sorted_lit_last ts : sorted ts = true -> filter nonlit ts ++ filter is_lit ts = ts.
  Proof.
    intros S. rewrite (sorted_cats ts S) at 3. rewrite <- cat5_eq.
    assert (filter nonlit ts = cat 0 ts ++ cat 1 ts ++ cat 2 ts ++ cat 3 ts ++ cat 4 ts) as ->.
    { rewrite (sorted_cats ts S) at 1. rewrite !filter_app, cat5_nonlit, app_nil_r, !cat_nonlit by lia. reflexivity. }
    rewrite <- !app_assoc. reflexivity.
  Qed.

  Definition wrap (t : ty) : ty :=
    match t with
    | TObj f => TObj (merge_field_sets peq [f])
    | TList z => TList (dunion [z])
    | TDict z => TDict (dunion [z])
    | _ => t
    end.

  Lemma map_id_In {A} (f : A -> A) l : (forall x, In x l -> f x = x) -> map f l = l.
  Proof.
    induction l as [|y r IH]; intros H; [reflexivity|]. simpl. rewrite (H y (or_introl eq_refl)), IH; [reflexivity|].
    intros x Hx. apply H. right. exact Hx.
  Qed.
  Lemma le1_cases {A} (l : list A) : length l <= 1 -> l = [] \/ exists a, l = [a].
  Proof. destruct l as [|a [|b r]]; simpl; intros H; [left; reflexivity | right; exists a; reflexivity | lia]. Qed.
  Lemma pseudo_eqb_refl p : pseudo_eqb p p = true.
  Proof. destruct p; reflexivity. Qed.
  Lemma str_result_pseudo p : str_result replaces [TPseudo p] = [TPseudo p].
  Proof.
    unfold str_result, pseudos_of, pdedup. simpl. unfold replaced_by. simpl. rewrite pseudo_eqb_refl. reflexivity.
  Qed.

  Lemma objs_of_filter ts : objs_of ts = objs_of (filter is_obj ts).
  Proof. induction ts as [|a r IH]; [reflexivity|]. destruct a; simpl; try exact IH. f_equal. exact IH. Qed.
  Lemma lists_of_filter ts : lists_of ts = lists_of (filter is_list ts).
  Proof. induction ts as [|a r IH]; [reflexivity|]. destruct a; simpl; try exact IH. f_equal. exact IH. Qed.
  Lemma dicts_of_filter ts : dicts_of ts = dicts_of (filter is_dict ts).
  Proof. induction ts as [|a r IH]; [reflexivity|]. destruct a; simpl; try exact IH. f_equal. exact IH. Qed.

  Lemma objp_eq ts : count is_obj ts <= 1 -> objp peq ts = map wrap (filter is_obj ts).
  Proof.
    intros Hc. unfold objp. rewrite objs_of_filter. unfold count in Hc. destruct (le1_cases _ Hc) as [E|[a E]]; rewrite E; [reflexivity|].
    assert (is_obj a = true) as Ha by (assert (In a (filter is_obj ts)) as Hi by (rewrite E; left; reflexivity); apply filter_In in Hi; apply Hi).
    destruct a; try discriminate. reflexivity.
  Qed.
  Lemma listp_eq ts : count is_list ts <= 1 -> listp ts = map wrap (filter is_list ts).
  Proof.
    intros Hc. unfold listp. rewrite lists_of_filter. unfold count in Hc. destruct (le1_cases _ Hc) as [E|[a E]]; rewrite E; [reflexivity|].
    assert (is_list a = true) as Ha by (assert (In a (filter is_list ts)) as Hi by (rewrite E; left; reflexivity); apply filter_In in Hi; apply Hi).
    destruct a; try discriminate. reflexivity.
  Qed.
  Lemma dictp_eq ts : count is_dict ts <= 1 -> dictp ts = map wrap (filter is_dict ts).
  Proof.
    intros Hc. unfold dictp. rewrite dicts_of_filter. unfold count in Hc. destruct (le1_cases _ Hc) as [E|[a E]]; rewrite E; [reflexivity|].
    assert (is_dict a = true) as Ha by (assert (In a (filter is_dict ts)) as Hi by (rewrite E; left; reflexivity); apply filter_In in Hi; apply Hi).
    destruct a; try discriminate. reflexivity.
  Qed.
  Lemma strp_eq ts : count (in_reg registry) ts <= 1 ->
    str_result replaces (filter (in_reg registry) ts) = map wrap (filter (in_reg registry) ts).
  Proof.
    intros Hc. unfold count in Hc. destruct (le1_cases _ Hc) as [E|[a E]]; rewrite E; [reflexivity|].
    assert (in_reg registry a = true) as Ha by (assert (In a (filter (in_reg registry) ts)) as Hi by (rewrite E; left; reflexivity); apply filter_In in Hi; apply Hi).
    destruct a; try discriminate; [reflexivity | apply str_result_pseudo].
  Qed.
  Lemma oth_of_id ts : existsb (ty_eqb TInt) ts && existsb (ty_eqb TFloat) ts = false ->
    oth_of registry ts = map wrap (filter isoth ts).
  Proof.
    intros H. unfold oth_of.
    destruct (existsb (ty_eqb TInt) (filter isoth ts) && existsb (ty_eqb TFloat) (filter isoth ts)) eqn:C.
    - exfalso. apply andb_true_iff in C. destruct C as [C1 C2]. apply existsb_ty_eqb in C1, C2.
      apply filter_In in C1, C2. destruct C1 as [C1 _], C2 as [C2 _]. apply existsb_ty_eqb in C1, C2. rewrite C1, C2 in H. discriminate.
    - symmetry. apply map_id_In. intros x Hx. apply filter_In in Hx. destruct Hx as [_ Hx]. destruct x; try reflexivity; discriminate.
  Qed.

  Lemma regroup_perm_deep ts ms : flat_map members_deep ts = ms ->
    existsb (ty_eqb TInt) ms && existsb (ty_eqb TFloat) ms = false ->
    count is_obj ms <= 1 -> count is_list ms <= 1 -> count is_dict ms <= 1 -> count (in_reg registry) ms <= 1 ->
    regroup ts = map wrap (perm_of ms).
  Proof.
    intros H0 H1 H2 H3 H4 H5. rewrite (regroup_deep registry replaces peq ts ms H0).
    rewrite (oth_of_id ms H1), (objp_eq ms H2), (listp_eq ms H3), (dictp_eq ms H4), (strp_eq ms H5).
    unfold perm_of. rewrite !map_app, <- !app_assoc. reflexivity.
  Qed.
  (* STATEMENT CHANGED (D32 repair of regroup): the premise on union members is new *)
  Lemma regroup_perm ts :
    (forall x, In x ts -> is_opt x = false) -> (forall x, In x ts -> is_union x = false) ->
    existsb (ty_eqb TInt) ts && existsb (ty_eqb TFloat) ts = false ->
    count is_obj ts <= 1 -> count is_list ts <= 1 -> count is_dict ts <= 1 -> count (in_reg registry) ts <= 1 ->
    regroup ts = map wrap (perm_of ts).
  Proof. intros H0 U. apply regroup_perm_deep. apply flat_map_members_deep_id; assumption. Qed.

  (* ---------------------------------------------------------------- *)
  (* 18. one pass over a normal-form union                              *)
  Lemma union_ok_parts ts : union_ok registry ts = true ->
    2 <= length ts /\
    (forall x, In x ts -> is_union x = false /\ is_null x = false /\ is_opt x = false) /\
    NoDup ts /\
    existsb (ty_eqb TInt) ts && existsb (ty_eqb TFloat) ts = false /\
    (In TStr ts -> forall x, In x ts -> is_lit x = false) /\
    count is_list ts <= 1 /\ count is_dict ts <= 1 /\ count is_obj ts <= 1 /\ count is_lit ts <= 1 /\
    count (in_reg registry) ts <= 1 /\
    (forall x, In x ts -> is_unknown x = false).
  Proof.
    unfold union_ok. rewrite !andb_true_iff, !Nat.leb_le, !negb_true_iff.
    intros [[[[[[[[[[H1 H2] H3] H4] H5] H6] H7] H8] H9] H10] H11].
    repeat split; try assumption.
    - rewrite forallb_forall in H2. specialize (H2 x H). rewrite !andb_true_iff, !negb_true_iff in H2. tauto.
    - rewrite forallb_forall in H2. specialize (H2 x H). rewrite !andb_true_iff, !negb_true_iff in H2. tauto.
    - rewrite forallb_forall in H2. specialize (H2 x H). rewrite !andb_true_iff, !negb_true_iff in H2. tauto.
    - apply nodupb_NoDup. exact H3.
    - intros Hs x Hx. apply andb_false_iff in H5. destruct H5 as [H5|H5].
      + rewrite existsb_false in H5. specialize (H5 _ Hs). discriminate.
      + rewrite existsb_false in H5. specialize (H5 _ Hx). apply orb_false_iff in H5. apply H5.
    - rewrite existsb_false in H11. exact H11.
  Qed.

  Lemma opt_list_map_id (o : ty -> option ty) (f : ty -> ty) P : (forall x, In x P -> o (f x) = Some x) -> opt_list o (map f P) = Some P.
  Proof.
    induction P as [|y r IH]; intros H; [reflexivity|]. simpl. rewrite (H y (or_introl eq_refl)), IH; [reflexivity|].
    intros x Hx. apply H. right. exact Hx.
  Qed.
  Lemma opt_fields_id (o : ty -> option ty) fs : (forall kv, In kv fs -> o (snd kv) = Some (snd kv)) -> opt_fields o fs = Some fs.
  Proof.
    induction fs as [|[k y] r IH]; intros H; [reflexivity|]. simpl. pose proof (H (k, y) (or_introl eq_refl)) as E. simpl in E. rewrite E, IH; [reflexivity|].
    intros x Hx. apply H. right. exact Hx.
  Qed.
  Lemma filter_all {A} (f : A -> bool) l : (forall x, In x l -> f x = true) -> filter f l = l.
  Proof.
    induction l as [|y r IH]; intros H; [reflexivity|]. simpl. rewrite (H y (or_introl eq_refl)), IH; [reflexivity|].
    intros x Hx. apply H. right. exact Hx.
  Qed.
  Lemma length_lit_split (l : list ty) : length (filter nonlit l) + length (filter is_lit l) = length l.
  Proof. induction l as [|y r IH]; [reflexivity|]. unfold nonlit in *. simpl. destruct (is_lit y); simpl; lia. Qed.

  Lemma NoDup_app_l {A} (a b : list A) : NoDup (a ++ b) -> NoDup a.
  Proof.
    apply sub_NoDup. induction a as [|x a IH]; simpl; [apply sub_nil_l | apply sub_keep; exact IH].
  Qed.
  Definition lits_wf_in (ts : list ty) : Prop := forall o l, In (TLit o l) ts -> o = false /\ lit_wf l.

  Lemma mk_union_perm ts : union_ok registry ts = true -> sorted ts = true -> lits_wf_in ts ->
    mk_union (perm_of ts) = ts /\ mk_union ts = ts /\ length (perm_of ts) = length ts.
  Proof.
    intros U S LW. destruct (union_ok_parts ts U) as [P1 [P2 [P3 [P4 [P5 [P6 [P7 [P8 [P9 [P10 P11]]]]]]]]]].
    pose proof (perm_sorted ts S) as PS. pose proof (sorted_lit_last ts S) as SL.
    split; [|split].
    - rewrite mk_union_clean; [exact PS| | | | |].
      + intros x Hx. apply P2. apply perm_of_In. exact Hx.
      + rewrite <- PS in P3. apply NoDup_app_l in P3. exact P3.
      + unfold count. rewrite perm_lit, cat5_eq. exact P9.
      + intros o l Hi. apply (LW o l). apply perm_of_In. exact Hi.
      + intros Hs x Hx. apply P5; apply perm_of_In; assumption.
    - rewrite mk_union_clean; [exact SL| | | | |].
      + intros x Hx. apply P2. exact Hx.
      + rewrite <- SL in P3. apply NoDup_app_l in P3. exact P3.
      + exact P9.
      + exact LW.
      + exact P5.
    - rewrite <- (length_lit_split (perm_of ts)), <- app_length, PS. reflexivity.
  Qed.

  Lemma union_pass fuel ts : union_ok registry ts = true -> sorted ts = true -> lits_wf_in ts ->
    (forall x, In x ts -> optimize fuel (wrap x) = Some x) ->
    optimize (S fuel) (TUnion ts) = Some (TUnion ts).
  Proof.
    intros U S LW HW. destruct (union_ok_parts ts U) as [P1 [P2 [P3 [P4 [P5 [P6 [P7 [P8 [P9 [P10 P11]]]]]]]]]].
    destruct (mk_union_perm ts U S LW) as [M1 [_ M3]].
    rewrite optimize_S, regroup_perm; try assumption; [| intros x Hx; apply P2; exact Hx | intros x Hx; apply P2; exact Hx].
    rewrite opt_list_map_id by (intros x Hx; apply HW; apply perm_of_In; exact Hx).
    rewrite finish_2 by lia.
    assert (T1 : fin_T1 (perm_of ts) = perm_of ts).
    { unfold fin_T1. replace (existsb is_unknown (perm_of ts)) with false; [reflexivity|].
      symmetry. apply existsb_false. intros x Hx. apply P11. apply perm_of_In. exact Hx. }
    assert (T2 : fin_T2 (perm_of ts) = perm_of ts).
    { unfold fin_T2. rewrite T1. apply filter_all. intros x Hx. apply negb_true_iff. apply P2. apply perm_of_In. exact Hx. }
    rewrite T1, T2. replace (existsb is_null (perm_of ts)) with false.
    - unfold union1. rewrite M1. destruct ts as [|a [|b r]]; simpl in P1; try lia. reflexivity.
    - symmetry. apply existsb_false. intros x Hx. apply P2. apply perm_of_In. exact Hx.
  Qed.

  (* ---------------------------------------------------------------- *)
  (* 19. singleton unions built by dunion, and the stability theorem    *)
  Lemma perm_single x : perm_of [x] = [x].
  Proof. unfold perm_of, is_other. destruct x; simpl; try reflexivity. destruct (pmem p registry); reflexivity. Qed.
  (* STATEMENT CHANGED (D32 repair of regroup): the premise is_union x = false is new *)
  Lemma regroup_single x : is_opt x = false -> is_union x = false -> regroup [x] = [wrap x].
  Proof.
    intros H U. rewrite regroup_perm.
    - rewrite perm_single. reflexivity.
    - intros y [<-|[]]. exact H.
    - intros y [<-|[]]. exact U.
    - destruct x; reflexivity.
    - apply (count_le_length is_obj [x]).
    - apply (count_le_length is_list [x]).
    - apply (count_le_length is_dict [x]).
    - apply (count_le_length (in_reg registry) [x]).
  Qed.
  (* STATEMENT CHANGED (D32 repair of regroup): the premise is_union y = false is new; for a union see regroup_opt_union *)
  Lemma regroup_opt y : is_opt y = false -> is_union y = false -> regroup [TOpt y] = [TNull; wrap y].
  Proof.
    intros H U. unfold Optimize.regroup. destruct y; try discriminate; try reflexivity.
    cbn. destruct (pmem p registry) eqn:E; cbn; [|reflexivity].
    change (flat_map _ [TPseudo p]) with [p]. 
    pose proof (str_result_pseudo p) as SR. unfold str_result in SR. cbn in SR. cbn. rewrite SR. reflexivity.
  Qed.

  Lemma mk_union_single x : is_union x = false -> (forall o l, x = TLit o l -> o = false /\ lit_wf l) -> mk_union [x] = [x].
  Proof.
    intros U L. rewrite mk_union_clean.
    - unfold nonlit. simpl. destruct (is_lit x); reflexivity.
    - intros y [<-|[]]. exact U.
    - apply (sub_NoDup _ [x]); [apply sub_filter | constructor; [intros []|constructor]].
    - apply (count_le_length is_lit [x]).
    - intros o l [E|[]]. apply (L o l). exact E.
    - intros [E|[]] y [<-|[]]. subst x. reflexivity.
  Qed.
  Lemma mk_union_wrapU ts : mk_union [TUnion ts] = mk_union ts.
  Proof. unfold mk_union, flatten_union. simpl. rewrite app_nil_r. reflexivity. Qed.

  Lemma W fuel x : is_opt x = false -> mk_union [x] = [x] -> optimize fuel (wrap x) = Some x ->
    optimize (S fuel) (dunion [x]) = Some x.
  Proof.
    intros O M H.
    assert (U : is_union x = false) by (apply (mk_union_no_union [x]); rewrite M; left; reflexivity).
    unfold dunion. rewrite M, optimize_S, (regroup_single x O U). simpl. rewrite H. reflexivity.
  Qed.
  (* STATEMENT CHANGED (D32 repair of regroup): the premise is_union y = false is new; for a union see WOU *)
  Lemma WO fuel y : is_opt y = false -> is_union y = false -> is_null y = false -> union1 [y] = y -> optimize fuel (wrap y) = Some y ->
    optimize (S fuel) (dunion [TOpt y]) = Some (TOpt y).
  Proof.
    intros O Un Nn U1 H.
    assert (M : mk_union [TOpt y] = [TOpt y]) by reflexivity.
    unfold dunion. rewrite M, optimize_S, (regroup_opt y O Un).
    destruct fuel as [|fuel]; [discriminate H|].
    cbn [opt_list]. rewrite H. change (optimize (S fuel) TNull) with (Some TNull). cbv iota beta.
    rewrite finish_2 by (simpl; lia).
    assert (T1 : fin_T1 [TNull; y] = [TNull; y]).
    { unfold fin_T1. simpl. rewrite Nn. destruct (is_unknown y); reflexivity. }
    assert (T2 : fin_T2 [TNull; y] = [y]).
    { unfold fin_T2. rewrite T1. simpl. rewrite Nn. reflexivity. }
    rewrite T1, T2, U1. reflexivity.
  Qed.

  (* Optional[Union[...]] as the only member of a union built by dunion: the union under the Optional is spliced into
     the work-list (D32 repair), and rebuilt in place *)
  Lemma perm_of_null ts : perm_of (TNull :: ts) = TNull :: perm_of ts.
  Proof. reflexivity. Qed.
  Lemma regroup_opt_union ts :
    (forall x, In x ts -> is_opt x = false) -> (forall x, In x ts -> is_union x = false) ->
    existsb (ty_eqb TInt) ts && existsb (ty_eqb TFloat) ts = false ->
    count is_obj ts <= 1 -> count is_list ts <= 1 -> count is_dict ts <= 1 -> count (in_reg registry) ts <= 1 ->
    regroup [TOpt (TUnion ts)] = TNull :: map wrap (perm_of ts).
  Proof.
    intros O U H1 H2 H3 H4 H5. rewrite (regroup_perm_deep [TOpt (TUnion ts)] (TNull :: ts)).
    - rewrite perm_of_null. reflexivity.
    - cbn [flat_map]. rewrite app_nil_r. change (members_deep (TOpt (TUnion ts))) with (TNull :: members_deep (TUnion ts)).
      rewrite (members_deep_union ts), (flat_map_members_deep_id ts O U). reflexivity.
    - exact H1.
    - rewrite count_cons. exact H2.
    - rewrite count_cons. exact H3.
    - rewrite count_cons. exact H4.
    - rewrite count_cons. exact H5.
  Qed.
  Lemma WOU fuel ts : union_ok registry ts = true -> sorted ts = true -> lits_wf_in ts ->
    (forall x, In x ts -> optimize fuel (wrap x) = Some x) ->
    optimize (S fuel) (dunion [TOpt (TUnion ts)]) = Some (TOpt (TUnion ts)).
  Proof.
    intros U S LW HW. destruct (union_ok_parts ts U) as [P1 [P2 [P3 [P4 [P5 [P6 [P7 [P8 [P9 [P10 P11]]]]]]]]]].
    destruct (mk_union_perm ts U S LW) as [M1 [_ M3]].
    assert (M : mk_union [TOpt (TUnion ts)] = [TOpt (TUnion ts)]) by reflexivity.
    unfold dunion. rewrite M, optimize_S, regroup_opt_union; try assumption;
      [| intros x Hx; apply P2; exact Hx | intros x Hx; apply P2; exact Hx].
    assert (F : exists f, fuel = Datatypes.S f).
    { destruct ts as [|a r]; [simpl in P1; lia|]. specialize (HW a (or_introl eq_refl)).
      destruct fuel as [|f]; [discriminate HW | exists f; reflexivity]. }
    destruct F as [f ->].
    cbn [opt_list]. change (optimize (Datatypes.S f) TNull) with (Some TNull).
    rewrite opt_list_map_id by (intros x Hx; apply HW; apply perm_of_In; exact Hx).
    rewrite finish_2 by (simpl; lia).
    assert (NU : existsb is_unknown (perm_of ts) = false).
    { apply existsb_false. intros x Hx. apply P11. apply perm_of_In. exact Hx. }
    assert (T1 : fin_T1 (TNull :: perm_of ts) = TNull :: perm_of ts).
    { unfold fin_T1. cbn [existsb is_unknown orb]. rewrite NU. reflexivity. }
    assert (T2 : fin_T2 (TNull :: perm_of ts) = perm_of ts).
    { unfold fin_T2. rewrite T1. cbn [filter is_null negb]. apply filter_all. intros x Hx. apply negb_true_iff. apply P2. apply perm_of_In. exact Hx. }
    rewrite T1, T2. cbn [existsb is_null orb].
    unfold union1. rewrite M1. destruct ts as [|a [|b r]]; simpl in P1; try lia. reflexivity.
  Qed.
End Second.

(* well-formedness needed for the identity: literal sets are sorted, duplicate-free and within the limits
   (what StringLiteral builds), object keys are distinct, and a list/dict element type is never Optional[None] *)
Fixpoint wf3 (t : ty) : bool :=
  match t with
  | TLit o ls => strs_eqb (ins_all ls []) ls && negb (lit_overflow ls)
  | TOpt x => wf3 x
  | TList x | TDict x => negb (ty_eqb x (TOpt TNull)) && wf3 x
  | TUnion ts => forallb wf3 ts
  | TObj fs => keys_nodup fs && forallb (fun kv => wf3 (snd kv)) fs
  | _ => true
  end.

Section Third.
  Variable registry : list pseudo.
  Variable replaces : list (pseudo * pseudo).
  Variable peq : N -> N -> bool.
  Notation optimize := (optimize registry replaces peq).
  Notation nfo := (nfo registry).

  Definition stable (fuel : nat) (x : ty) : Prop :=
    optimize fuel x = Some x /\ optimize fuel (wrap peq x) = Some x /\
    (x <> TOpt TNull -> optimize fuel (dunion [x]) = Some x) /\
    (is_opt x = false -> is_null x = false -> optimize fuel (dunion [TOpt x]) = Some (TOpt x)).
  Definition Q (x : ty) : Prop := exists n, forall fuel, n <= fuel -> stable fuel x.

  Lemma lit_facts o l : nfo (TLit o l) = true -> wf3 (TLit o l) = true -> o = false /\ lit_wf l.
  Proof.
    unfold NF.nfo. simpl. rewrite !andb_true_iff, !negb_true_iff, strs_eqb_eq. intros [[A B] _] [C D].
    split; [exact A|]. split; [destruct l; congruence|]. split; assumption.
  Qed.
  Lemma nfo_union_parts ts : nfo (TUnion ts) = true -> wf3 (TUnion ts) = true ->
    union_ok registry ts = true /\ sorted_by_rank registry ts = true /\ lits_wf_in ts /\
    forall x, In x ts -> nfo x = true /\ wf3 x = true.
  Proof.
    intros Hn Hw. apply nfo_iff in Hn. destruct Hn as [N O]. rewrite nf_union in N. rewrite ordered_union in O.
    apply andb_true_iff in N, O. destruct N as [N1 N2], O as [O1 O2]. simpl in Hw.
    rewrite forallb_forall in N2, O2, Hw.
    assert (M : forall x, In x ts -> nfo x = true /\ wf3 x = true).
    { intros x Hx. split; [apply nfo_iff; split; [apply N2 | apply O2]; exact Hx | apply Hw; exact Hx]. }
    repeat split; try assumption; try (apply M; assumption).
    - destruct (M _ H) as [A B]. apply (lit_facts o l A B).
    - destruct (M _ H) as [A B]. apply (lit_facts o l A B).
    - destruct (M _ H) as [A B]. apply (lit_facts o l A B).
    - destruct (M _ H) as [A B]. apply (lit_facts o l A B).
  Qed.

  Lemma union1_single y : nfo y = true -> wf3 y = true -> is_opt y = false -> union1 [y] = y.
  Proof.
    intros Hn Hw O. destruct (is_union y) eqn:U.
    - destruct y; try discriminate. destruct (nfo_union_parts ts Hn Hw) as [A [B [C _]]].
      unfold union1. rewrite mk_union_wrapU. destruct (mk_union_perm registry ts A B C) as [_ [M _]]. rewrite M.
      destruct (union_ok_parts registry ts A) as [L _]. destruct ts as [|a [|b r]]; simpl in L; try lia. reflexivity.
    - unfold union1. rewrite mk_union_single; [reflexivity | exact U |].
      intros o l E. subst y. apply lit_facts; assumption.
  Qed.
  Lemma mk_union_single' x : nfo x = true -> wf3 x = true -> is_union x = false -> mk_union [x] = [x].
  Proof. intros Hn Hw U. apply mk_union_single; [exact U|]. intros o l E. subst x. apply lit_facts; assumption. Qed.

  Lemma Q_bound {A} (g : A -> ty) l :
    Forall (fun a => nfo (g a) = true -> wf3 (g a) = true -> Q (g a)) l ->
    (forall a, In a l -> nfo (g a) = true /\ wf3 (g a) = true) ->
    exists n, forall fuel, n <= fuel -> forall a, In a l -> stable fuel (g a).
  Proof.
    induction 1 as [|a l Ha HF IH]; intros HP.
    - exists 0. intros fuel _ a [].
    - destruct IH as [n1 IH]; [intros b Hb; apply HP; right; exact Hb|].
      destruct (HP a (or_introl eq_refl)) as [P1 P2]. destruct (Ha P1 P2) as [n2 H2].
      exists (max n1 n2). intros fuel Hf b [<-|Hb]; [apply H2; lia | apply IH; [lia | exact Hb]].
  Qed.

  Lemma Q_leaf x : is_opt x = false -> is_union x = false -> wrap peq x = x ->
    (forall fuel, optimize (S fuel) x = Some x) -> nfo x = true -> wf3 x = true -> Q x.
  Proof.
    intros O U Wr HS Hn Hw. exists 2. intros fuel Hf. destruct fuel as [|[|f]]; try lia.
    split; [apply HS|]. split; [rewrite Wr; apply HS|]. split.
    - intros _. apply W; [exact O | apply (mk_union_single' x Hn Hw U) | rewrite Wr; apply HS].
    - intros _ Nn. apply WO; [exact O | exact U | exact Nn | apply (union1_single x Hn Hw O) | rewrite Wr; apply HS].
  Qed.

  Theorem stable_all : forall x, nfo x = true -> wf3 x = true -> Q x.
  Proof.
    induction x using ty_ind2; intros Hn Hw;
      try (apply Q_leaf; [reflexivity | reflexivity | reflexivity | intros fuel; reflexivity | exact Hn | exact Hw]).
    - (* TLit *) destruct (lit_facts _ _ Hn Hw) as [-> [L1 _]].
      apply Q_leaf; try reflexivity; try assumption. intros fuel. rewrite optimize_S. destruct ls; [congruence|reflexivity].
    - (* TOpt *)
      assert (Hy : nfo x = true /\ is_opt x = false).
      { apply nfo_iff in Hn. destruct Hn as [A B]. simpl in A, B. apply andb_true_iff in A. destruct A as [A1 A2].
        apply negb_true_iff in A2. split; [apply nfo_iff; auto | exact A2]. }
      destruct Hy as [Hy O]. simpl in Hw. destruct (IHx Hy Hw) as [n Hq].
      exists (S (S n)). intros fuel Hf. destruct fuel as [|f]; [lia|]. destruct (Hq f ltac:(lia)) as [S1 [S2 _]].
      assert (E : optimize (S f) (TOpt x) = Some (TOpt x)).
      { rewrite optimize_S, S1. destruct x; try reflexivity. discriminate O. }
      split; [exact E|]. split; [exact E|]. split; [|discriminate]. intros Hne.
      destruct (Hq (S f) ltac:(lia)) as [_ [_ [_ S4]]]. apply S4; [exact O | destruct x; try reflexivity; congruence].
    - (* TList *)
      assert (Hz : nfo x = true) by exact Hn. simpl in Hw. apply andb_true_iff in Hw. destruct Hw as [Hne Hw].
      assert (Hne' : x <> TOpt TNull).
      { intros E. subst x. discriminate Hne. }
      destruct (IHx Hz Hw) as [n Hq]. exists (S (S (S n))). intros fuel Hf.
      destruct fuel as [|[|f]]; try lia.
      assert (E1 : forall f', n <= f' -> optimize (S f') (TList x) = Some (TList x)).
      { intros f' Hf'. rewrite optimize_S. destruct (Hq f' Hf') as [S1 _]. rewrite S1. reflexivity. }
      assert (E2 : forall f', n <= f' -> optimize (S f') (wrap peq (TList x)) = Some (TList x)).
      { intros f' Hf'. cbn [wrap]. rewrite optimize_S. destruct (Hq f' Hf') as [_ [_ [S3 _]]]. rewrite (S3 Hne'). reflexivity. }
      split; [apply E1; lia|]. split; [apply E2; lia|]. split.
      + intros _. apply W; [reflexivity | apply mk_union_single'; [exact Hn | simpl; rewrite Hne, Hw; reflexivity | reflexivity] | apply E2; lia].
      + intros _ _. apply WO; [reflexivity | reflexivity | reflexivity | apply union1_single; [exact Hn | simpl; rewrite Hne, Hw; reflexivity | reflexivity] | apply E2; lia].
    - (* TDict *)
      assert (Hz : nfo x = true) by exact Hn. simpl in Hw. apply andb_true_iff in Hw. destruct Hw as [Hne Hw].
      assert (Hne' : x <> TOpt TNull).
      { intros E. subst x. discriminate Hne. }
      destruct (IHx Hz Hw) as [n Hq]. exists (S (S (S n))). intros fuel Hf.
      destruct fuel as [|[|f]]; try lia.
      assert (E1 : forall f', n <= f' -> optimize (S f') (TDict x) = Some (TDict x)).
      { intros f' Hf'. rewrite optimize_S. destruct (Hq f' Hf') as [S1 _]. rewrite S1. reflexivity. }
      assert (E2 : forall f', n <= f' -> optimize (S f') (wrap peq (TDict x)) = Some (TDict x)).
      { intros f' Hf'. cbn [wrap]. rewrite optimize_S. destruct (Hq f' Hf') as [_ [_ [S3 _]]]. rewrite (S3 Hne'). reflexivity. }
      split; [apply E1; lia|]. split; [apply E2; lia|]. split.
      + intros _. apply W; [reflexivity | apply mk_union_single'; [exact Hn | simpl; rewrite Hne, Hw; reflexivity | reflexivity] | apply E2; lia].
      + intros _ _. apply WO; [reflexivity | reflexivity | reflexivity | apply union1_single; [exact Hn | simpl; rewrite Hne, Hw; reflexivity | reflexivity] | apply E2; lia].
    - (* TUnion *)
      destruct (nfo_union_parts ts Hn Hw) as [A [B [C D]]].
      destruct (Q_bound (fun t => t) ts H D) as [n Hq].
      exists (S n). intros fuel Hf. destruct fuel as [|f]; [lia|].
      assert (E : optimize (S f) (TUnion ts) = Some (TUnion ts)).
      { apply union_pass; try assumption. intros y Hy. apply (Hq f ltac:(lia) y Hy). }
      split; [exact E|]. split; [exact E|]. split.
      + intros _. unfold dunion. rewrite mk_union_wrapU. destruct (mk_union_perm registry ts A B C) as [_ [M _]]. rewrite M. exact E.
      + intros _ _. apply WOU; try assumption. intros y Hy. apply (Hq f ltac:(lia) y Hy).
    - (* TObj *)
      assert (D : forall kv, In kv fs -> nfo (snd kv) = true /\ wf3 (snd kv) = true).
      { apply nfo_iff in Hn. destruct Hn as [N O]. rewrite nf_obj in N. rewrite ordered_obj in O. simpl in Hw.
        apply andb_true_iff in Hw. destruct Hw as [_ Hw]. rewrite forallb_forall in N, O, Hw.
        intros kv Hkv. split; [apply nfo_iff; split; [apply N | apply O]; exact Hkv | apply Hw; exact Hkv]. }
      assert (K : keys_nodup fs = true) by (simpl in Hw; apply andb_true_iff in Hw; apply Hw).
      destruct (Q_bound (fun kv : str * ty => snd kv) fs H D) as [n Hq].
      exists (S (S n)). intros fuel Hf. destruct fuel as [|[|f]]; try lia.
      assert (E1 : forall f', n <= f' -> optimize (S f') (TObj fs) = Some (TObj fs)).
      { intros f' Hf'. rewrite optimize_S, opt_fields_id; [reflexivity|]. intros kv Hkv. apply (Hq f' Hf' kv Hkv). }
      assert (E2 : forall f', n <= f' -> optimize (S f') (wrap peq (TObj fs)) = Some (TObj fs)).
      { intros f' Hf'. cbn [wrap]. pose proof (merge_single peq fs K) as MS. unfold fields in *. rewrite MS. apply E1. exact Hf'. }
      split; [apply E1; lia|]. split; [apply E2; lia|]. split.
      + intros _. apply W; [reflexivity | apply mk_union_single'; [exact Hn | exact Hw | reflexivity] | apply E2; lia].
      + intros _ _. apply WO; [reflexivity | reflexivity | reflexivity | apply union1_single; [exact Hn | exact Hw | reflexivity] | apply E2; lia].
  Qed.
End Third.

(* ------------------------------------------------------------------ *)
(* 22. Statements (3) and (4)                                           *)
Theorem optimize_nfo_stable : forall registry replaces peq t,
  nfo registry t = true -> wf3 t = true ->
  exists n, forall fuel, n <= fuel -> optimize registry replaces peq fuel t = Some t.
Proof.
  intros registry replaces peq t Hn Hw. destruct (stable_all registry replaces peq t Hn Hw) as [n Hq].
  exists n. intros fuel Hf. apply (Hq fuel Hf).
Qed.

Theorem optimize_nfo_id : forall registry replaces peq fuel t t',
  nfo registry t = true -> wf3 t = true ->
  optimize registry replaces peq fuel t = Some t' -> t' = t.
Proof.
  intros registry replaces peq fuel t t' Hn Hw H.
  destruct (optimize_nfo_stable registry replaces peq t Hn Hw) as [n Hq].
  pose proof (optimize_mono registry replaces peq fuel (max fuel n) t t' ltac:(lia) H) as H1.
  rewrite (Hq (max fuel n) ltac:(lia)) in H1. congruence.
Qed.

Theorem optimize_total_nfo : forall registry replaces peq t,
  nfo registry t = true -> wf3 t = true ->
  exists n, forall fuel, n <= fuel -> optimize registry replaces peq fuel t <> None.
Proof.
  intros registry replaces peq t Hn Hw. destruct (optimize_nfo_stable registry replaces peq t Hn Hw) as [n Hq].
  exists n. intros fuel Hf. rewrite (Hq fuel Hf). discriminate.
Qed.

(* (3) without wf3 is false: three independent reasons *)
Definition cex3_lit : ty := TUnion [TInt; TList (TLit false [[2%N]; [1%N]])].       (* unsorted literal set *)
Example optimize_nfo_id_refuted_literal :
  nfo [] cex3_lit = true /\
  match optimize [] [] N.eqb 10 cex3_lit with Some t => ty_eqb t cex3_lit | None => true end = false.
Proof. vm_compute. auto. Qed.
Definition cex3_optnull : ty := TUnion [TInt; TList (TOpt TNull)].                    (* List[Optional[None]] *)
Example optimize_nfo_id_refuted_optnull :
  nfo [] cex3_optnull = true /\
  match optimize [] [] N.eqb 10 cex3_optnull with Some t => ty_eqb t cex3_optnull | None => true end = false.
Proof. vm_compute. auto. Qed.
Definition cex3_keys : ty := TUnion [TInt; TObj [(cex_k, TInt); (cex_k, TBool)]].     (* repeated object key *)
Example optimize_nfo_id_refuted_keys :
  nfo [] cex3_keys = true /\
  match optimize [] [] N.eqb 10 cex3_keys with Some t => ty_eqb t cex3_keys | None => true end = false.
Proof. vm_compute. auto. Qed.

(* ------------------------------------------------------------------ *)
(* 23. The side conditions hold on everything the front end produces: the whole pipeline ends in nfo  *)
Section Pipeline.
  Variable registry : list pseudo.
  Variable replaces : list (pseudo * pseudo).
  Variable accepts : pseudo -> str -> bool.
  Variable n_regex : nat.
  Variable key_matches : nat -> str -> bool.
  Variable dict_fields : list str.
  Notation detect := (detect registry accepts n_regex key_matches dict_fields).
  Notation convert := (convert registry accepts n_regex key_matches dict_fields).

  Lemma elem_type_R types : (forall t, In t types -> R t = true) -> R (elem_type types) = true.
  Proof.
    intros H. destruct types as [|a [|b r]]; [reflexivity | apply H; left; reflexivity|].
    change (elem_type (a :: b :: r)) with (union1 (a :: b :: r)). apply union1_R; [congruence | exact H].
  Qed.
  Lemma mk_lit_R l : l <> [] -> R (mk_lit l) = true.
  Proof.
    intros H. unfold mk_lit. destruct (lit_overflow l) eqn:E; [reflexivity|]. simpl. apply lit_R_false. auto.
  Qed.

  Definition dfields (l : list (str * json)) : fields :=
    (fix go (l : list (str * json)) : fields :=
       match l with [] => [] | (k, x) :: r => (k, detect (negb (existsb (str_eqb k) dict_fields)) x) :: go r end) l.
  Definition dvals (l : list (str * json)) : list ty :=
    (fix go (l : list (str * json)) := match l with [] => [] | (_, x) :: r => detect true x :: go r end) l.
  Definition dlist (l : list json) : list ty :=
    (fix go (l : list json) := match l with [] => [] | x :: r => detect true x :: go r end) l.
  Definition nilb {A} (l : list A) : bool := match l with [] => true | _ => false end.
  Lemma detect_arr_eq cd l : detect cd (JArr l) = TList (elem_type (dlist l)).
  Proof. reflexivity. Qed.
  Lemma detect_obj_eq cd l : detect cd (JObj l) =
    if nilb l then TDict TUnknown
    else if cd && negb (all_keys_match n_regex key_matches (map fst l)) then TObj (dfields l)
         else TDict (elem_type (dvals l)).
  Proof. destruct l; reflexivity. Qed.

  Lemma detect_R : forall v cd, R (detect cd v) = true.
  Proof.
    induction v using json_ind2; intros cd; try reflexivity.
    - (* JStr *) simpl. unfold detect_str. destruct (find _ registry); [reflexivity|]. apply mk_lit_R. congruence.
    - (* JArr *) rewrite detect_arr_eq. cbn [R]. apply elem_type_R.
      induction H as [|x r Hx Hr IH]; [intros t []|]. intros t [<-|Ht]; [apply Hx | apply IH; exact Ht].
    - (* JObj *) rewrite detect_obj_eq. destruct (nilb l); [reflexivity|].
      destruct (cd && negb (all_keys_match n_regex key_matches (map fst l))).
      + cbn [R]. induction H as [|[k x] r Hx Hr IH]; [reflexivity|].
        change (dfields ((k, x) :: r)) with ((k, detect (negb (existsb (str_eqb k) dict_fields)) x) :: dfields r).
        cbn [forallb snd]. rewrite IH, andb_true_r. apply Hx.
      + cbn [R]. apply elem_type_R.
        induction H as [|[k x] r Hx Hr IH]; [intros t []|]. intros t [<-|Ht]; [apply Hx | apply IH; exact Ht].
  Qed.

  Lemma convert_FS kvs : FS R (convert kvs).
  Proof. intros kv Hkv. unfold Detect.convert in Hkv. apply in_map_iff in Hkv. destruct Hkv as [kv0 [<- _]]. apply detect_R. Qed.

  Lemma frontend_RF samples : RF (TObj (merge_field_sets N.eqb (map convert samples))) = true.
  Proof.
    apply merge_field_sets_RF. intros m Hm. apply in_map_iff in Hm. destruct Hm as [kvs [<- _]]. apply convert_FS.
  Qed.

  Theorem generate_nfo : forall fuel samples fs,
    generate registry replaces accepts n_regex key_matches dict_fields fuel samples = Some fs ->
    nfo registry (TObj fs) = true.
  Proof.
    intros fuel samples fs H. unfold generate, optimize_fields in H.
    destruct (optimize registry replaces N.eqb fuel (TObj (merge_field_sets N.eqb (map convert samples)))) as [t|] eqn:E; [|discriminate].
    destruct t; try discriminate. inversion H; subst.
    apply (optimize_RF_nfo registry replaces N.eqb fuel _ _ (frontend_RF samples) E).
  Qed.
End Pipeline.

(* ------------------------------------------------------------------ *)
(* 24. Order theory of str_cmp / insert_sorted: merged literal sets are strictly sorted, and a strictly
       sorted set is a fixpoint of StringLiteral's set construction *)
Lemma str_cmp_antisym : forall a b, str_cmp b a = CompOpp (str_cmp a b).
Proof.
  induction a as [|x a IH]; destruct b as [|y b]; simpl; try reflexivity.
  rewrite (N.compare_antisym x y). destruct (N.compare x y); simpl; [apply IH | reflexivity | reflexivity].
Qed.
Lemma str_cmp_lt_trans : forall a b c, str_cmp a b = Lt -> str_cmp b c = Lt -> str_cmp a c = Lt.
Proof.
  induction a as [|x a IH]; destruct b as [|y b]; destruct c as [|z c]; simpl; try discriminate; try reflexivity.
  destruct (N.compare x y) eqn:E1; try discriminate; destruct (N.compare y z) eqn:E2; try discriminate; intros H1 H2.
  - apply N.compare_eq_iff in E1, E2. subst. rewrite N.compare_refl. eapply IH; eassumption.
  - apply N.compare_eq_iff in E1. subst. rewrite E2. reflexivity.
  - apply N.compare_eq_iff in E2. subst. rewrite E1. reflexivity.
  - apply N.compare_lt_iff in E1, E2. assert (N.compare x z = Lt) as -> by (apply N.compare_lt_iff; eapply N.lt_trans; eassumption). reflexivity.
Qed.
Lemma str_cmp_gt_lt a b : str_cmp a b = Gt -> str_cmp b a = Lt.
Proof. intros H. rewrite str_cmp_antisym, H. reflexivity. Qed.
Lemma str_cmp_lt_gt a b : str_cmp a b = Lt -> str_cmp b a = Gt.
Proof. intros H. rewrite str_cmp_antisym, H. reflexivity. Qed.

Fixpoint ssorted (l : list str) : Prop :=
  match l with [] => True | x :: r => (forall y, In y r -> str_cmp x y = Lt) /\ ssorted r end.

Lemma insert_sorted_ssorted s : forall l, ssorted l -> ssorted (insert_sorted s l).
Proof.
  induction l as [|x r IH]; simpl; intros H; [split; [intros y []|exact I]|].
  destruct H as [H1 H2]. destruct (str_cmp s x) eqn:E; simpl.
  - split; assumption.
  - split; [|split; assumption]. intros y [<-|Hy]; [exact E|]. eapply str_cmp_lt_trans; [exact E | apply H1; exact Hy].
  - split; [|apply IH; exact H2]. intros y Hy. apply insert_sorted_In in Hy. destruct Hy as [->|Hy]; [apply str_cmp_gt_lt; exact E | apply H1; exact Hy].
Qed.
Lemma ins_all_ssorted : forall l ls, ssorted ls -> ssorted (ins_all l ls).
Proof.
  induction l as [|s l IH]; intros ls H; [exact H|]. unfold ins_all in *. simpl. apply IH. apply insert_sorted_ssorted. exact H.
Qed.
Lemma insert_last s : forall acc, (forall a, In a acc -> str_cmp a s = Lt) -> insert_sorted s acc = acc ++ [s].
Proof.
  induction acc as [|x r IH]; intros H; [reflexivity|]. simpl.
  rewrite (str_cmp_lt_gt x s (H x (or_introl eq_refl))). rewrite IH; [reflexivity|]. intros a Ha. apply H. right. exact Ha.
Qed.
Lemma ssorted_app_lt : forall a b, ssorted (a ++ b) -> forall p q, In p a -> In q b -> str_cmp p q = Lt.
Proof.
  induction a as [|x a IH]; intros b H p q Hp Hq; [destruct Hp|]. simpl in H. destruct H as [H1 H2].
  destruct Hp as [<-|Hp]; [apply H1; apply in_app_iff; right; exact Hq | eapply IH; eassumption].
Qed.
Lemma ins_all_id : forall l acc, ssorted (acc ++ l) -> ins_all l acc = acc ++ l.
Proof.
  induction l as [|x r IH]; intros acc H; [simpl; rewrite app_nil_r; reflexivity|].
  unfold ins_all in *. simpl. rewrite insert_last.
  - rewrite IH; [rewrite <- app_assoc; reflexivity|]. rewrite <- app_assoc. exact H.
  - intros a Ha. apply (ssorted_app_lt acc (x :: r) H a x Ha). left. reflexivity.
Qed.
Lemma ssorted_fix l : ssorted l -> ins_all l [] = l.
Proof. intros H. apply (ins_all_id l [] H). Qed.
Lemma lit_fold_ssorted : forall F ul ls, ssorted ls -> ssorted (snd (fold_left lit_step F (ul, ls))).
Proof.
  induction F as [|a F IH]; intros ul ls H; cbn [fold_left]; [exact H|].
  destruct (lit_step (ul, ls) a) as [ul1 ls1] eqn:E. apply IH.
  destruct a; simpl in E; inversion E; subst; try exact H.
  destruct ul; simpl in E; [|inversion E; subst; exact H].
  destruct overflow; inversion E; subst; [exact H|]. apply ins_all_ssorted. exact H.
Qed.
Lemma mk_ls_fix ts : ins_all (mk_ls ts) [] = mk_ls ts.
Proof. apply ssorted_fix. unfold mk_ls. apply lit_fold_ssorted. exact I. Qed.

(* ------------------------------------------------------------------ *)
(* 25. The second invariant S: literal sets are fixpoints of the set construction, object keys are distinct  *)
Fixpoint S (t : ty) : bool :=
  match t with
  | TLit o ls => o || strs_eqb (ins_all ls []) ls
  | TOpt x | TList x | TDict x => S x
  | TUnion ts => forallb S ts
  | TObj fs => keys_nodup fs && forallb (fun kv => S (snd kv)) fs
  | _ => true
  end.

Lemma flat_S : forall t, S t = true -> forall x, In x (flat t) -> S x = true.
Proof.
  induction t using ty_ind2; intros Ht x Hx; try (destruct Hx as [<-|[]]; exact Ht).
  simpl in Ht. rewrite forallb_forall in Ht. simpl in Hx.
  induction H as [|y r Hy Hr IH]; [destruct Hx|].
  apply in_app_iff in Hx. destruct Hx as [Hx|Hx].
  - apply Hy; [apply Ht; left; reflexivity | exact Hx].
  - apply IH; [intros z Hz; apply Ht; right; exact Hz | exact Hx].
Qed.
Lemma flatten_S ts : (forall t, In t ts -> S t = true) -> forall x, In x (flatten_union ts) -> S x = true.
Proof.
  induction ts as [|t r IH]; intros H x Hx; [destruct Hx|].
  rewrite flatten_cons in Hx. apply in_app_iff in Hx. destruct Hx as [Hx|Hx].
  - apply (flat_S t); [apply H; left; reflexivity | exact Hx].
  - apply IH; [intros y Hy; apply H; right; exact Hy | exact Hx].
Qed.
Lemma mk_union_S ts : (forall t, In t ts -> S t = true) -> forall x, In x (mk_union ts) -> S x = true.
Proof.
  intros H x Hx. apply mk_union_In in Hx. destruct Hx as [[Hx _]|[->|[-> _]]].
  - apply (flatten_S ts H). exact Hx.
  - reflexivity.
  - simpl. apply strs_eqb_eq. apply mk_ls_fix.
Qed.
Lemma dunion_S ts : (forall t, In t ts -> S t = true) -> S (dunion ts) = true.
Proof. intros H. unfold dunion. simpl. apply forallb_forall. apply mk_union_S. exact H. Qed.
Lemma union1_S ts : (forall t, In t ts -> S t = true) -> S (union1 ts) = true.
Proof.
  intros H. pose proof (mk_union_S ts H) as M. unfold union1. destruct (mk_union ts) as [|x [|y r]].
  - reflexivity.
  - apply M. left. reflexivity.
  - cbn [S]. apply forallb_forall. exact M.
Qed.
Lemma members_S t : S t = true -> forall x, In x (members t) -> S x = true.
Proof.
  destruct t; simpl; intros H x Hx; try (destruct Hx as [<-|[]]; exact H).
  rewrite forallb_forall in H. apply H. exact Hx.
Qed.

(* keys *)
Lemma has_key_fst {A B} k (a : list (str * A)) (b : list (str * B)) : map fst a = map fst b -> has_key k a = has_key k b.
Proof.
  unfold has_key. revert b. induction a as [|[k1 t1] a IH]; destruct b as [|[k2 t2] b]; simpl; try discriminate; [reflexivity|].
  intros E. inversion E; subst. destruct (str_eqb k k2); [reflexivity|]. apply IH. assumption.
Qed.
Lemma keys_nodup_fst (a b : fields) : map fst a = map fst b -> keys_nodup a = keys_nodup b.
Proof.
  revert b. induction a as [|[k1 t1] a IH]; destruct b as [|[k2 t2] b]; simpl; try discriminate; [reflexivity|].
  intros E. inversion E; subst. rewrite (has_key_fst k2 a b H1), (IH b H1). reflexivity.
Qed.
Lemma has_key_update_other {A} k k' (t : A) : forall r, str_eqb k' k = false -> has_key k' (update k t r) = has_key k' r.
Proof.
  unfold has_key. induction r as [|[k2 t2] r IH]; intros H; simpl.
  - rewrite H. reflexivity.
  - destruct (str_eqb k k2); simpl; destruct (str_eqb k' k2); try reflexivity. apply IH. exact H.
Qed.
Lemma keys_nodup_update k (t : ty) : forall acc, keys_nodup acc = true -> keys_nodup (update k t acc) = true.
Proof.
  induction acc as [|[k' t'] r IH]; simpl; intros H; [reflexivity|].
  apply andb_true_iff in H. destruct H as [H1 H2]. destruct (str_eqb k k') eqn:E; simpl.
  - rewrite H1, H2. reflexivity.
  - rewrite has_key_update_other by (rewrite str_eqb_sym; exact E). rewrite H1, (IH H2). reflexivity.
Qed.

Section MergeS.
  Variable peq : N -> N -> bool.
  Lemma merge_field_shape first acc name field :
    merge_field peq first acc (name, field) = acc \/
    exists v, merge_field peq first acc (name, field) = update name v acc /\
      (v = field \/ v = TOpt field \/
       exists fo, lookup name acc = Some fo /\
         (v = union1 (members field ++ members fo) \/
          exists fo', fo = TOpt fo' /\ v = TOpt (union1 (members field ++ members fo')))).
  Proof.
    unfold merge_field. destruct (lookup name acc) as [fo|] eqn:L.
    2:{ right. eexists. split; [reflexivity|]. destruct (first || is_opt field); auto. }
    destruct fo;
      repeat (match goal with
              | |- context[if ?c then _ else _] => destruct c
              | |- context[match field with _ => _ end] => destruct field
              end);
      first [ left; reflexivity
            | right; eexists; split; [reflexivity|];
              first [ left; reflexivity
                    | right; right; eexists; split; [reflexivity|];
                      first [ left; reflexivity | right; eexists; split; reflexivity ] ] ].
  Qed.

  (* invariant of the accumulator: values in R/RF1 (for union1_S's premises) and in S, keys distinct *)
  Definition AccOK (acc : fields) : Prop := FS RF1 acc /\ FS S acc /\ keys_nodup acc = true.

  Lemma lookup_FS P name (acc : fields) fo : FS P acc -> lookup name acc = Some fo -> P fo = true.
  Proof. intros H L. destruct (lookup_In _ _ _ L) as [k Hk]. apply (H _ Hk). Qed.

  Lemma merge_field_S first acc name field : AccOK acc -> R field = true -> S field = true ->
    AccOK (merge_field peq first acc (name, field)).
  Proof.
    intros [A1 [A2 A3]] Rf Sf.
    assert (B1 : FS RF1 (merge_field peq first acc (name, field))) by (apply merge_field_FS; assumption).
    split; [exact B1|].
    destruct (merge_field_shape first acc name field) as [E|[v [E Hv]]]; rewrite E; [split; assumption|].
    split; [|apply keys_nodup_update; exact A3]. apply update_FS; [exact A2|].
    destruct Hv as [->|[->|[fo [L [->|[fo' [-> ->]]]]]]]; try exact Sf.
    - pose proof (lookup_FS S _ _ _ A2 L) as Sfo.
      apply union1_S.
      intros t Ht. apply in_app_iff in Ht. destruct Ht as [Ht|Ht]; [apply (members_S field Sf t Ht) | apply (members_S fo Sfo t Ht)].
    - pose proof (lookup_FS S _ _ _ A2 L) as Sfo. simpl in Sfo.
      cbn [S]. apply union1_S.
      intros t Ht. apply in_app_iff in Ht. destruct Ht as [Ht|Ht]; [apply (members_S field Sf t Ht) | apply (members_S fo' Sfo t Ht)].
  Qed.
  Lemma fold_merge_field_S first : forall model acc, AccOK acc -> FS R model -> FS S model ->
    AccOK (fold_left (merge_field peq first) model acc).
  Proof.
    induction model as [|[k x] r IH]; intros acc Ha Hr Hs; [exact Ha|]. cbn [fold_left]. apply IH.
    - apply merge_field_S; [exact Ha | apply (Hr (k, x)); left; reflexivity | apply (Hs (k, x)); left; reflexivity].
    - intros y Hy. apply Hr. right. exact Hy.
    - intros y Hy. apply Hs. right. exact Hy.
  Qed.
  Lemma wrap_opt_S t : S (wrap_opt t) = S t.
  Proof. unfold wrap_opt. destruct (is_opt t); reflexivity. Qed.
  Lemma merge_step_S st model : AccOK (snd st) -> FS R model -> FS S model -> AccOK (snd (merge_step peq st model)).
  Proof.
    destruct st as [first acc]. cbn [snd]. intros Ha Hr Hs.
    pose proof (merge_step_FS peq (first, acc) model (proj1 Ha) Hr) as B1. split; [exact B1|].
    destruct (fold_merge_field_S first model acc Ha Hr Hs) as [_ [C2 C3]]. cbn [merge_step snd]. split.
    - intros kv Hkv. apply in_map_iff in Hkv. destruct Hkv as [kt [E Hkt]]. specialize (C2 _ Hkt).
      destruct (has_key (fst kt) acc && negb (has_key (fst kt) model)); subst kv; [|exact C2].
      cbn [snd]. rewrite wrap_opt_S. exact C2.
    - rewrite <- C3. apply keys_nodup_fst. rewrite map_map. apply map_ext. intros kt.
      destruct (has_key (fst kt) acc && negb (has_key (fst kt) model)); reflexivity.
  Qed.
  Lemma merge_fold_S : forall sets st, AccOK (snd st) -> (forall m, In m sets -> FS R m /\ FS S m) ->
    AccOK (snd (fold_left (merge_step peq) sets st)).
  Proof.
    induction sets as [|m r IH]; intros st Ha Hs; [exact Ha|]. cbn [fold_left]. apply IH.
    - destruct (Hs m (or_introl eq_refl)) as [A B]. apply merge_step_S; assumption.
    - intros x Hx. apply Hs. right. exact Hx.
  Qed.
  Lemma merge_field_sets_S sets : (forall m, In m sets -> FS R m /\ FS S m) -> S (TObj (merge_field_sets peq sets)) = true.
  Proof.
    intros H. destruct (merge_fold_S sets (true, []) ltac:(repeat split; intros kv []) H) as [_ [A B]].
    cbn [S]. unfold merge_field_sets. rewrite B. cbn [andb]. apply forallb_forall. exact A.
  Qed.
End MergeS.

Section OutWf.
  Variable registry : list pseudo.
  Variable replaces : list (pseudo * pseudo).
  Variable peq : N -> N -> bool.
  Notation optimize := (optimize registry replaces peq).
  Notation regroup := (regroup registry replaces peq).

  Lemma regroup_S ts : raw_union_ok ts = true -> (forall x, In x ts -> R x = true) -> (forall x, In x ts -> S x = true) ->
    forall x, In x (regroup ts) -> S x = true.
  Proof.
    intros Hu Hr Hs x. rewrite regroup_noopt by (intros y Hy; apply (raw_union_ok_flat _ Hu y Hy)).
    rewrite !in_app_iff. intros [[[[H|H]|H]|H]|H].
    - apply Hs. apply (oth_of_In registry ts x H).
    - unfold objp in H. destruct (objs_of ts) eqn:E; [destruct H|]. rewrite <- E in H. destruct H as [<-|[]].
      apply merge_field_sets_S. intros m Hm. apply In_objs_of in Hm. pose proof (Hr _ Hm) as A. pose proof (Hs _ Hm) as B.
      cbn [R S] in A, B. apply andb_true_iff in B. destruct B as [_ B]. rewrite forallb_forall in A, B.
      split; intros kv Hkv; [apply A | apply B]; exact Hkv.
    - unfold listp in H. destruct (lists_of ts) eqn:E; [destruct H|]. rewrite <- E in H. destruct H as [<-|[]].
      cbn [S]. apply dunion_S. intros z Hz. apply In_lists_of in Hz. apply Hs in Hz. exact Hz.
    - unfold dictp in H. destruct (dicts_of ts) eqn:E; [destruct H|]. rewrite <- E in H. destruct H as [<-|[]].
      cbn [S]. apply dunion_S. intros z Hz. apply In_dicts_of in Hz. apply Hs in Hz. exact Hz.
    - destruct (str_result_cases registry replaces (filter (in_reg registry) ts)) as [E|[E|[p [E _]]]];
        [intros y Hy; apply filter_In in Hy; apply Hy | | |]; rewrite E in H; [destruct H | |]; destruct H as [<-|[]]; reflexivity.
  Qed.

  Lemma union_case_PL fuel ts T : raw_union_ok ts = true -> (forall x, In x ts -> R x = true) ->
    opt_list (optimize fuel) (regroup ts) = Some T -> PL registry T.
  Proof.
    intros Hu Hr E. apply opt_list_Forall2 in E. pose proof (regroup_PL registry replaces peq ts Hu Hr) as PLL.
    apply (PL_skel registry (regroup ts)); [exact PLL|]. apply (Forall2_skel registry replaces peq fuel _ _ E).
    intros x Hx. apply (PL_basic_In registry _ _ PLL Hx).
  Qed.

  Lemma finish_cases T t' : PL registry T -> finish T = Some t' ->
    (T = [t']) \/
    (exists T2, sub T2 T /\ (forall x, In x T2 -> is_null x = false) /\ (t' = union1 T2 \/ t' = TOpt (union1 T2))).
  Proof.
    intros P H. destruct (le_lt_dec 2 (length T)) as [Hlen|Hlen].
    2:{ left. destruct T as [|a [|b r]]; [discriminate| | simpl in Hlen; lia]. simpl in H. inversion H. reflexivity. }
    right. rewrite (finish_2 T Hlen) in H. inversion H; subst t'; clear H.
    destruct (fin_T2_props registry T Hlen P) as [S2 _]. exists (fin_T2 T). split; [exact S2|]. split.
    - intros x Hx. unfold fin_T2 in Hx. apply filter_In in Hx. apply negb_true_iff. apply Hx.
    - destruct (existsb is_null (fin_T1 T)); auto.
  Qed.
  Lemma basic_flatten T2 : (forall x, In x T2 -> basic x = true) -> flatten_union T2 = T2.
  Proof. intros H. apply flatten_flat. intros x Hx. apply (basic_parts x (H x Hx)). Qed.

  Lemma finish_not_optnull T t' : PL registry T -> finish T = Some t' -> t' <> TOpt TNull.
  Proof.
    intros P H E. subst t'. destruct (finish_cases T _ P H) as [->|[T2 [S2 [Nn C]]]].
    - pose proof (PL_basic_In registry _ _ P (or_introl eq_refl)) as B. discriminate B.
    - assert (B : forall x, In x T2 -> basic x = true) by (intros x Hx; apply (PL_basic_In registry _ _ P); eapply sub_In; eassumption).
      pose proof (basic_flatten T2 B) as FL.
      assert (K : forall x, union1 T2 = x -> is_union x = false -> In x (mk_union T2)).
      { intros x Hx U. unfold union1 in Hx. destruct (mk_union T2) as [|a [|b r]]; subst x; try discriminate. left. reflexivity. }
      destruct C as [C|C].
      + symmetry in C. apply K in C; [|reflexivity]. apply mk_union_In in C. rewrite FL in C.
        destruct C as [[C _]|[C|[C _]]]; try discriminate. specialize (B _ C). discriminate B.
      + inversion C as [C']. symmetry in C'. apply K in C'; [|reflexivity]. apply mk_union_In in C'. rewrite FL in C'.
        destruct C' as [[C' _]|[C'|[C' _]]]; try discriminate. specialize (Nn _ C'). discriminate Nn.
  Qed.

  Lemma optimize_not_optnull fuel t t' : R t = true -> optimize fuel t = Some t' -> t' <> TOpt TNull.
  Proof.
    intros Hr H. destruct fuel as [|fuel]; [discriminate|]. rewrite optimize_S in H.
    destruct t; try (inversion H; discriminate); try discriminate Hr.
    - destruct (overflow || match ls with [] => true | _ => false end); inversion H; discriminate.
    - destruct (optimize fuel t); inversion H. discriminate.
    - destruct (optimize fuel t); inversion H. discriminate.
    - simpl in Hr. apply andb_true_iff in Hr. destruct Hr as [Hu Hr]. rewrite forallb_forall in Hr.
      destruct (opt_list (optimize fuel) (regroup ts)) as [T|] eqn:E; [|discriminate].
      apply (finish_not_optnull T); [apply (union_case_PL fuel ts T Hu Hr E) | exact H].
    - destruct (opt_fields (optimize fuel) fs); inversion H. discriminate.
  Qed.

  Lemma mk_union_wf3 T2 : (forall x, In x (flatten_union T2) -> wf3 x = true) -> forall x, In x (mk_union T2) -> wf3 x = true.
  Proof.
    intros H x Hx. apply mk_union_In in Hx. destruct Hx as [[Hx _]|[->|[-> [_ [_ [O _]]]]]].
    - apply H. exact Hx.
    - reflexivity.
    - simpl. rewrite O, mk_ls_fix. simpl. rewrite andb_true_r. apply strs_eqb_eq. reflexivity.
  Qed.
  Lemma finish_wf3 T t' : PL registry T -> (forall x, In x T -> wf3 x = true) -> finish T = Some t' -> wf3 t' = true.
  Proof.
    intros P Hw H. destruct (finish_cases T _ P H) as [->|[T2 [S2 [Nn C]]]].
    - apply Hw. left. reflexivity.
    - assert (B : forall x, In x T2 -> basic x = true) by (intros x Hx; apply (PL_basic_In registry _ _ P); eapply sub_In; eassumption).
      assert (M : forall x, In x (mk_union T2) -> wf3 x = true).
      { apply mk_union_wf3. rewrite (basic_flatten T2 B). intros x Hx. apply Hw. eapply sub_In; eassumption. }
      assert (U : wf3 (union1 T2) = true).
      { unfold union1. destruct (mk_union T2) as [|a [|b r]]; [reflexivity | apply M; left; reflexivity|].
        cbn [wf3]. apply forallb_forall. exact M. }
      destruct C as [->| ->]; exact U.
  Qed.

  Lemma Forall2_fst (fs fs' : fields) (o : ty -> option ty) :
    Forall2 (fun kx kx' => fst kx' = fst kx /\ o (snd kx) = Some (snd kx')) fs fs' -> map fst fs' = map fst fs.
  Proof. induction 1 as [|a b l l' [Hab _] HF IH]; [reflexivity|]. simpl. rewrite Hab, IH. reflexivity. Qed.

  Theorem optimize_wf3 : forall fuel t t', RF t = true -> S t = true -> optimize fuel t = Some t' -> wf3 t' = true.
  Proof.
    induction fuel as [|fuel IH]; intros t t' Hrf Hs H; [discriminate|]. rewrite optimize_S in H.
    destruct t; try (inversion H; reflexivity).
    - (* TLit *) cbn [RF R] in Hrf. cbn [S] in Hs. destruct overflow; [inversion H; reflexivity|].
      apply lit_R_false in Hrf. destruct Hrf as [N O]. cbn [orb] in Hs.
      destruct ls as [|s0 l0] eqn:El; [congruence|]. rewrite <- El in *. 
      assert (t' = TLit false ls) as -> by (rewrite El in H |- *; inversion H; reflexivity).
      cbn [wf3]. rewrite Hs, O. reflexivity.
    - (* TOpt *) simpl in Hrf, Hs. destruct (optimize fuel t) as [y|] eqn:E; [|discriminate].
      pose proof (IH _ _ (R_RF _ Hrf) Hs E) as Hy. destruct y; inversion H; subst; exact Hy.
    - (* TList *) simpl in Hrf, Hs. destruct (optimize fuel t) as [y|] eqn:E; [|discriminate]. inversion H; subst.
      cbn [wf3]. rewrite (IH _ _ (R_RF _ Hrf) Hs E), andb_true_r. apply negb_true_iff.
      destruct (ty_eqb y (TOpt TNull)) eqn:Q; [|reflexivity]. apply ty_eqb_eq in Q.
      exfalso. apply (optimize_not_optnull fuel t y Hrf E Q).
    - (* TDict *) simpl in Hrf, Hs. destruct (optimize fuel t) as [y|] eqn:E; [|discriminate]. inversion H; subst.
      cbn [wf3]. rewrite (IH _ _ (R_RF _ Hrf) Hs E), andb_true_r. apply negb_true_iff.
      destruct (ty_eqb y (TOpt TNull)) eqn:Q; [|reflexivity]. apply ty_eqb_eq in Q.
      exfalso. apply (optimize_not_optnull fuel t y Hrf E Q).
    - (* TUnion *) simpl in Hrf, Hs. apply andb_true_iff in Hrf. destruct Hrf as [Hu Hr]. rewrite forallb_forall in Hr, Hs.
      destruct (opt_list (optimize fuel) (regroup ts)) as [T|] eqn:E; [|discriminate].
      apply (finish_wf3 T); [apply (union_case_PL fuel ts T Hu Hr E) | | exact H].
      intros x' Hx'. destruct (Forall2_In_r _ _ _ _ (opt_list_Forall2 _ _ _ E) Hx') as [x [Hx Ox]].
      apply (IH x x'); [apply (regroup_RF registry replaces peq ts Hu Hr x Hx) | apply (regroup_S ts Hu Hr Hs x Hx) | exact Ox].
    - (* TObj *) simpl in Hrf, Hs. apply andb_true_iff in Hs. destruct Hs as [Hk Hs]. rewrite forallb_forall in Hrf, Hs.
      destruct (opt_fields (optimize fuel) fs) as [fs'|] eqn:E; [|discriminate]. inversion H; subst.
      apply opt_fields_Forall2 in E. cbn [wf3]. rewrite (keys_nodup_fst fs' fs (Forall2_fst _ _ _ E)), Hk. cbn [andb].
      apply forallb_forall. intros kv' Hkv'. destruct (Forall2_In_r _ _ _ _ E Hkv') as [kv [Hkv [_ Okv]]].
      apply (IH (snd kv)); [apply Hrf; exact Hkv | apply Hs; exact Hkv | exact Okv].
  Qed.
End OutWf.

(* ------------------------------------------------------------------ *)
(* 29. The whole pipeline: the first pass ends in nfo and wf3, hence a second pass is the identity            *)
Definition wf_all (l : list json) : bool := (fix all l := match l with [] => true | x :: r => wf_json x && all r end) l.
Definition wf_nd (l : list (str * json)) : bool :=
  (fix nd (l : list (str * json)) := match l with [] => true | (k, _) :: r => negb (existsb (fun kv => str_eqb k (fst kv)) r) && nd r end) l.
Definition wf_allv (l : list (str * json)) : bool :=
  (fix all (l : list (str * json)) := match l with [] => true | (_, x) :: r => wf_json x && all r end) l.
Lemma wf_json_arr l : wf_json (JArr l) = wf_all l.
Proof. reflexivity. Qed.
Lemma wf_json_obj l : wf_json (JObj l) = wf_nd l && wf_allv l.
Proof. reflexivity. Qed.
Lemma wf_allv_In l : wf_allv l = true -> forall kv, In kv l -> wf_json (snd kv) = true.
Proof.
  induction l as [|[k x] r IH]; intros H kv Hkv; [destruct Hkv|].
  change (wf_allv ((k, x) :: r)) with (wf_json x && wf_allv r) in H. apply andb_true_iff in H. destruct H as [H1 H2].
  destruct Hkv as [<-|Hkv]; [exact H1 | apply IH; assumption].
Qed.
Definition samples_wf (samples : list (list (str * json))) : bool := forallb (fun kvs => wf_json (JObj kvs)) samples.

Section Pipeline2.
  Variable registry : list pseudo.
  Variable replaces : list (pseudo * pseudo).
  Variable accepts : pseudo -> str -> bool.
  Variable n_regex : nat.
  Variable key_matches : nat -> str -> bool.
  Variable dict_fields : list str.
  Notation detect := (detect registry accepts n_regex key_matches dict_fields).
  Notation convert := (convert registry accepts n_regex key_matches dict_fields).
  Notation dfields := (dfields registry accepts n_regex key_matches dict_fields).
  Notation dvals := (dvals registry accepts n_regex key_matches dict_fields).
  Notation dlist := (dlist registry accepts n_regex key_matches dict_fields).

  Lemma elem_type_S types : (forall t, In t types -> S t = true) -> S (elem_type types) = true.
  Proof.
    intros H. destruct types as [|a [|b r]]; [reflexivity | apply H; left; reflexivity|].
    change (elem_type (a :: b :: r)) with (union1 (a :: b :: r)). apply union1_S. exact H.
  Qed.
  Lemma has_key_dfields k r : has_key k (dfields r) = existsb (fun kv => str_eqb k (fst kv)) r.
  Proof.
    induction r as [|[k2 x] r IH]; [reflexivity|].
    change (dfields ((k2, x) :: r)) with ((k2, detect (negb (existsb (str_eqb k2) dict_fields)) x) :: dfields r).
    unfold has_key in *. simpl. destruct (str_eqb k k2); [reflexivity | exact IH].
  Qed.
  Lemma keys_nodup_dfields l : keys_nodup (dfields l) = wf_nd l.
  Proof.
    induction l as [|[k x] r IH]; [reflexivity|].
    change (dfields ((k, x) :: r)) with ((k, detect (negb (existsb (str_eqb k) dict_fields)) x) :: dfields r).
    change (wf_nd ((k, x) :: r)) with (negb (existsb (fun kv => str_eqb k (fst kv)) r) && wf_nd r).
    cbn [keys_nodup]. rewrite has_key_dfields, IH. reflexivity.
  Qed.

  Lemma detect_S : forall v cd, wf_json v = true -> S (detect cd v) = true.
  Proof.
    induction v using json_ind2; intros cd Hw; try reflexivity.
    - (* JStr *) simpl. unfold detect_str. destruct (find _ registry); [reflexivity|].
      unfold mk_lit. destruct (lit_overflow [s]); [reflexivity|]. simpl. apply strs_eqb_eq. reflexivity.
    - (* JArr *) rewrite detect_arr_eq. cbn [S]. apply elem_type_S. rewrite wf_json_arr in Hw.
      induction H as [|x r Hx Hr IH]; [intros t []|].
      change (wf_all (x :: r)) with (wf_json x && wf_all r) in Hw. apply andb_true_iff in Hw. destruct Hw as [W1 W2].
      intros t [<-|Ht]; [apply Hx; exact W1 | apply IH; assumption].
    - (* JObj *) rewrite detect_obj_eq. destruct (nilb l); [reflexivity|]. rewrite wf_json_obj in Hw.
      apply andb_true_iff in Hw. destruct Hw as [W1 W2].
      destruct (cd && negb (all_keys_match n_regex key_matches (map fst l))).
      + cbn [S]. rewrite keys_nodup_dfields, W1. cbn [andb]. clear W1.
        induction H as [|[k x] r Hx Hr IH]; [reflexivity|].
        change (wf_allv ((k, x) :: r)) with (wf_json x && wf_allv r) in W2. apply andb_true_iff in W2. destruct W2 as [V1 V2].
        change (dfields ((k, x) :: r)) with ((k, detect (negb (existsb (str_eqb k) dict_fields)) x) :: dfields r).
        cbn [forallb snd]. rewrite (IH V2), andb_true_r. apply Hx. exact V1.
      + cbn [S]. apply elem_type_S. clear W1.
        induction H as [|[k x] r Hx Hr IH]; [intros t []|].
        change (wf_allv ((k, x) :: r)) with (wf_json x && wf_allv r) in W2. apply andb_true_iff in W2. destruct W2 as [V1 V2].
        intros t [<-|Ht]; [apply Hx; exact V1 | apply IH; assumption].
  Qed.

  Lemma convert_FS_S kvs : wf_json (JObj kvs) = true -> FS S (convert kvs).
  Proof.
    rewrite wf_json_obj. intros H. apply andb_true_iff in H. destruct H as [_ H].
    intros kv Hkv. unfold Detect.convert in Hkv. apply in_map_iff in Hkv. destruct Hkv as [kv0 [<- Hk]].
    apply detect_S. apply (wf_allv_In kvs H kv0 Hk).
  Qed.
  Lemma frontend_S samples : samples_wf samples = true -> S (TObj (merge_field_sets N.eqb (map convert samples))) = true.
  Proof.
    intros H. unfold samples_wf in H. rewrite forallb_forall in H.
    apply merge_field_sets_S. intros m Hm. apply in_map_iff in Hm. destruct Hm as [kvs [<- Hk]].
    split; [apply convert_FS | apply convert_FS_S; apply H; exact Hk].
  Qed.

  Theorem generate_wf3 : forall fuel samples fs, samples_wf samples = true ->
    generate registry replaces accepts n_regex key_matches dict_fields fuel samples = Some fs ->
    wf3 (TObj fs) = true.
  Proof.
    intros fuel samples fs Hw H. unfold generate, optimize_fields in H.
    destruct (optimize registry replaces N.eqb fuel (TObj (merge_field_sets N.eqb (map convert samples)))) as [t|] eqn:E; [|discriminate].
    destruct t; try discriminate. inversion H; subst.
    apply (optimize_wf3 registry replaces N.eqb fuel _ _ (frontend_RF registry accepts n_regex key_matches dict_fields samples) (frontend_S samples Hw) E).
  Qed.

  (* C08 on the pipeline: whatever the generator returns, optimising it again (any comparator, any fuel) returns it unchanged,
     and enough fuel always succeeds *)
  Theorem generate_second_pass_id : forall fuel samples fs peq fuel' fs', samples_wf samples = true ->
    generate registry replaces accepts n_regex key_matches dict_fields fuel samples = Some fs ->
    optimize_fields registry replaces peq fuel' fs = Some fs' -> fs' = fs.
  Proof.
    intros fuel samples fs peq fuel' fs' Hw H H2.
    pose proof (generate_nfo registry replaces accepts n_regex key_matches dict_fields fuel samples fs H) as Hn.
    pose proof (generate_wf3 fuel samples fs Hw H) as H3.
    unfold optimize_fields in H2. destruct (optimize registry replaces peq fuel' (TObj fs)) as [t|] eqn:E; [|discriminate].
    apply (optimize_nfo_id registry replaces peq fuel' (TObj fs) t Hn H3) in E. subst t. inversion H2. reflexivity.
  Qed.
  Theorem generate_second_pass_total : forall fuel samples fs peq, samples_wf samples = true ->
    generate registry replaces accepts n_regex key_matches dict_fields fuel samples = Some fs ->
    exists n, forall fuel', n <= fuel' -> optimize_fields registry replaces peq fuel' fs = Some fs.
  Proof.
    intros fuel samples fs peq Hw H.
    pose proof (generate_nfo registry replaces accepts n_regex key_matches dict_fields fuel samples fs H) as Hn.
    pose proof (generate_wf3 fuel samples fs Hw H) as H3.
    destruct (optimize_nfo_stable registry replaces peq (TObj fs) Hn H3) as [n Hq]. exists n. intros fuel' Hf.
    unfold optimize_fields. rewrite (Hq fuel' Hf). reflexivity.
  Qed.
End Pipeline2.

(* ------------------------------------------------------------------ *)
Print Assumptions mk_union_raw_ok.
Print Assumptions mk_union_nodupb.
Print Assumptions optimize_RF_nfo.
Print Assumptions optimize_raw_nfo.
Print Assumptions optimize_fields_nfo.
Print Assumptions generate_nfo.
Print Assumptions optimize_nfo_stable.
Print Assumptions optimize_nfo_id.
Print Assumptions optimize_total_nfo.
Print Assumptions optimize_wf3.
Print Assumptions generate_wf3.
Print Assumptions generate_second_pass_id.
Print Assumptions generate_second_pass_total.

(* NOT PROVED:
   - (2) and (3) exactly as first stated (hypotheses raw_field / nfo alone): they are false, see the
     ..._refuted examples; the versions above carry decidable side conditions, and section 23 / 29 show that
     the side conditions hold on everything the pipeline produces.
   - (4) without wf3: no counterexample is known (optimize seems total on every term whose unions are
     non-empty), but the proof here goes through the identity of the second pass and therefore needs wf3. *)
