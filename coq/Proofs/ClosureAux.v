(* Proofs/ClosureAux.v — helper lemmas for Proofs/Closure.v (C05):
   finite-set operations of Model/Groups.v, and an extensional specification of [pass]. *)
From Coq Require Import List Bool Arith Lia Relations Permutation.
From J2M.Model Require Import Groups.
Import ListNotations.

(* ------------------------------------------------------------------ *)
(* 1. sets as lists                                                    *)
(* ------------------------------------------------------------------ *)

Lemma mem_In x s : mem x s = true <-> In x s.
Proof.
  unfold mem. rewrite existsb_exists. split.
  - intros [y [Hy He]]. apply Nat.eqb_eq in He. subst. exact Hy.
  - intros H. exists x. split; [exact H | apply Nat.eqb_refl].
Qed.

Lemma mem_false x s : mem x s = false <-> ~ In x s.
Proof.
  rewrite <- mem_In. destruct (mem x s); split; intros H; try congruence;
  try (exfalso; apply H; reflexivity).
Qed.

Definition meets (a b : list nat) : Prop := exists x, In x a /\ In x b.

Lemma meets_sym a b : meets a b -> meets b a.
Proof. intros [x [H1 H2]]. exists x. split; assumption. Qed.

Lemma inter_meets a b : inter_nonempty a b = true <-> meets a b.
Proof.
  unfold inter_nonempty, meets. rewrite existsb_exists.
  split; intros [x [H1 H2]]; exists x; split; auto; apply mem_In; auto.
Qed.

Lemma inter_not_meets a b : inter_nonempty a b = false <-> ~ meets a b.
Proof.
  rewrite <- inter_meets. destruct (inter_nonempty a b); split; intros H; try congruence;
  try (exfalso; apply H; reflexivity).
Qed.

Lemma union_In x a b : In x (union a b) <-> In x a \/ In x b.
Proof.
  unfold union. rewrite in_app_iff, filter_In. split.
  - intros [H | [H _]]; auto.
  - intros [H | H]; auto.
    destruct (mem x a) eqn:E.
    + left. apply mem_In. exact E.
    + right. split; auto.
Qed.

Lemma NoDup_app_disj (a c : list nat) :
  NoDup a -> NoDup c -> (forall x, In x a -> ~ In x c) -> NoDup (a ++ c).
Proof.
  induction a as [| x a IH]; intros Ha Hc Hd; simpl; auto.
  inversion Ha as [| ? ? Hx Ha']; subst.
  constructor.
  - rewrite in_app_iff. intros [H | H]; [exact (Hx H) | exact (Hd x (or_introl eq_refl) H)].
  - apply IH; auto. intros y Hy. apply Hd. right. exact Hy.
Qed.

Lemma NoDup_union a b : NoDup a -> NoDup b -> NoDup (union a b).
Proof.
  intros Ha Hb. unfold union. apply NoDup_app_disj; auto.
  - apply NoDup_filter. exact Hb.
  - intros x Hx Hf. apply filter_In in Hf. destruct Hf as [_ Hf].
    apply mem_In in Hx. rewrite Hx in Hf. discriminate.
Qed.

Lemma union_length_ge a b : length a <= length (union a b).
Proof. unfold union. rewrite app_length. lia. Qed.

Lemma subset_incl a b : subset a b = true <-> incl a b.
Proof.
  unfold subset, incl. rewrite forallb_forall.
  split; intros H x Hx; apply mem_In; auto.
Qed.

Lemma seteq_spec a b : seteq a b = true <-> incl a b /\ incl b a.
Proof. unfold seteq. rewrite andb_true_iff, !subset_incl. tauto. Qed.

Lemma seteq_refl a : seteq a a = true.
Proof. apply seteq_spec. split; apply incl_refl. Qed.

Lemma seteq_sym a b : seteq a b = seteq b a.
Proof. unfold seteq. apply andb_comm. Qed.

(* ------------------------------------------------------------------ *)
(* 2. OrderedSet: lists whose entries are pairwise different as sets   *)
(* ------------------------------------------------------------------ *)

Fixpoint distinct (l : list (list nat)) : Prop :=
  match l with
  | [] => True
  | h :: r => (forall h', In h' r -> seteq h h' = false) /\ distinct r
  end.

Lemma distinct_snoc l g :
  distinct l -> (forall h, In h l -> seteq g h = false) -> distinct (l ++ [g]).
Proof.
  induction l as [| h r IH]; simpl; intros Hd Hg.
  - split; [intros h' [] | exact I].
  - destruct Hd as [Hh Hr]. split.
    + intros h' Hin. apply in_app_iff in Hin. destruct Hin as [Hin | [Heq | []]].
      * apply Hh. exact Hin.
      * subst h'. rewrite seteq_sym. apply Hg. left. reflexivity.
    + apply IH; auto.
Qed.

Lemma distinct_lt l : distinct l ->
  forall i j a b, i < j -> nth_error l i = Some a -> nth_error l j = Some b -> seteq a b = false.
Proof.
  induction l as [| h r IH]; intros Hd i j a b Hij Ha Hb.
  - destruct i; discriminate.
  - destruct Hd as [Hh Hr]. destruct j as [| j]; [lia |].
    simpl in Hb. destruct i as [| i].
    + simpl in Ha. injection Ha as <-. apply Hh. eapply nth_error_In. exact Hb.
    + simpl in Ha. apply (IH Hr i j a b); [lia | exact Ha | exact Hb].
Qed.

Lemma distinct_nth l : distinct l ->
  forall i j a b, i <> j -> nth_error l i = Some a -> nth_error l j = Some b -> seteq a b = false.
Proof.
  intros Hd i j a b Hij Ha Hb.
  destruct (Nat.lt_ge_cases i j) as [Hlt | Hge].
  - eapply distinct_lt; eauto.
  - rewrite seteq_sym. eapply distinct_lt; eauto. lia.
Qed.

Lemma oset_add_cases s g :
  (oset_add s g = s /\ exists h, In h s /\ seteq g h = true) \/
  (oset_add s g = s ++ [g] /\ forall h, In h s -> seteq g h = false).
Proof.
  unfold oset_add. destruct (existsb (seteq g) s) eqn:E.
  - left. split; auto. apply existsb_exists in E. exact E.
  - right. split; auto. intros h Hh.
    destruct (seteq g h) eqn:E2; auto.
    assert (existsb (seteq g) s = true) as Hc by (apply existsb_exists; exists h; auto).
    congruence.
Qed.

Lemma oset_add_distinct s g : distinct s -> distinct (oset_add s g).
Proof.
  intros Hd. destruct (oset_add_cases s g) as [[-> _] | [-> Hn]]; auto.
  apply distinct_snoc; auto.
Qed.

Lemma oset_add_incl s g : incl s (oset_add s g).
Proof.
  destruct (oset_add_cases s g) as [[-> _] | [-> _]].
  - apply incl_refl.
  - apply incl_appl, incl_refl.
Qed.

Lemma oset_add_has s g : exists h, In h (oset_add s g) /\ seteq g h = true.
Proof.
  destruct (oset_add_cases s g) as [[-> H] | [-> _]]; auto.
  exists g. split; [apply in_app_iff; right; left; reflexivity | apply seteq_refl].
Qed.

Lemma oset_add_In s g h : In h (oset_add s g) -> In h s \/ h = g.
Proof.
  destruct (oset_add_cases s g) as [[-> _] | [-> _]]; auto.
  intros H. apply in_app_iff in H. destruct H as [H | [H | []]]; auto.
Qed.

(* ------------------------------------------------------------------ *)
(* 3. the two folds of [pass]                                          *)
(* ------------------------------------------------------------------ *)

Definition step2 (i : nat) (g1 : list nat) (st2 : bool * list (list nat) * bool) (jg2 : nat * list nat) :=
  let '(fl, ng, ins) := st2 in let '(j, g2) := jg2 in
  if Nat.eqb i j then st2 else
  if inter_nonempty g1 g2 then
    let ng' := oset_add ng (union g1 g2) in
    (fl || (length ng <? length ng'), ng', true)
  else st2.

Definition step1 (FULL : list (nat * list nat)) (st : bool * list (list nat)) (ig1 : nat * list nat) :=
  let '(i, g1) := ig1 in
  let '(flag, ng, in_set) := fold_left (step2 i g1) FULL (fst st, snd st, false) in
  (flag, if in_set then ng else oset_add ng g1).

Definition index (G : list (list nat)) := combine (seq 0 (length G)) G.

Lemma pass_eq G : pass G = fold_left (step1 (index G)) (index G) (false, []).
Proof. reflexivity. Qed.
