(* Proofs/ClosureAux.v — helper lemmas for Proofs/Closure.v (C05):
   finite-set operations of Model/Groups.v, and an extensional specification of [pass]. *)
From Coq Require Import List Bool Arith Lia Relations Permutation.
From J2M.Model Require Import Groups.
Import ListNotations.

(* ------------------------------------------------------------------ *)
(* 1. sets as lists                                                    *)
(* ------------------------------------------------------------------ *)

Lemma mem_In x s : mem x s = true <-> In x s.
Proof.
  unfold mem. rewrite existsb_exists. split.
  - intros [y [Hy He]]. apply Nat.eqb_eq in He. subst. exact Hy.
  - intros H. exists x. split; [exact H | apply Nat.eqb_refl].
Qed.

Lemma mem_false x s : mem x s = false <-> ~ In x s.
Proof.
  rewrite <- mem_In. destruct (mem x s); split; intros H; try congruence;
  try (exfalso; apply H; reflexivity).
Qed.

Definition meets (a b : list nat) : Prop := exists x, In x a /\ In x b.

Lemma meets_sym a b : meets a b -> meets b a.
Proof. intros [x [H1 H2]]. exists x. split; assumption. Qed.

Lemma inter_meets a b : inter_nonempty a b = true <-> meets a b.
Proof.
  unfold inter_nonempty, meets. rewrite existsb_exists.
  split; intros [x [H1 H2]]; exists x; split; auto; apply mem_In; auto.
Qed.

Lemma inter_not_meets a b : inter_nonempty a b = false <-> ~ meets a b.
Proof.
  rewrite <- inter_meets. destruct (inter_nonempty a b); split; intros H; try congruence;
  try (exfalso; apply H; reflexivity).
Qed.

Lemma union_In x a b : In x (union a b) <-> In x a \/ In x b.
Proof.
  unfold union. rewrite in_app_iff, filter_In. split.
  - intros [H | [H _]]; auto.
  - intros [H | H]; auto.
    destruct (mem x a) eqn:E.
    + left. apply mem_In. exact E.
    + right. split; auto.
Qed.

Lemma NoDup_app_disj (a c : list nat) :
  NoDup a -> NoDup c -> (forall x, In x a -> ~ In x c) -> NoDup (a ++ c).
Proof.
  induction a as [| x a IH]; intros Ha Hc Hd; simpl; auto.
  inversion Ha as [| ? ? Hx Ha']; subst.
  constructor.
  - rewrite in_app_iff. intros [H | H]; [exact (Hx H) | exact (Hd x (or_introl eq_refl) H)].
  - apply IH; auto. intros y Hy. apply Hd. right. exact Hy.
Qed.

Lemma NoDup_union a b : NoDup a -> NoDup b -> NoDup (union a b).
Proof.
  intros Ha Hb. unfold union. apply NoDup_app_disj; auto.
  - apply NoDup_filter. exact Hb.
  - intros x Hx Hf. apply filter_In in Hf. destruct Hf as [_ Hf].
    apply mem_In in Hx. rewrite Hx in Hf. discriminate.
Qed.

Lemma union_length_ge a b : length a <= length (union a b).
Proof. unfold union. rewrite app_length. lia. Qed.

Lemma subset_incl a b : subset a b = true <-> incl a b.
Proof.
  unfold subset, incl. rewrite forallb_forall.
  split; intros H x Hx; apply mem_In; auto.
Qed.

Lemma seteq_spec a b : seteq a b = true <-> incl a b /\ incl b a.
Proof. unfold seteq. rewrite andb_true_iff, !subset_incl. tauto. Qed.

Lemma seteq_refl a : seteq a a = true.
Proof. apply seteq_spec. split; apply incl_refl. Qed.

Lemma seteq_sym a b : seteq a b = seteq b a.
Proof. unfold seteq. apply andb_comm. Qed.

(* ------------------------------------------------------------------ *)
(* 2. OrderedSet: lists whose entries are pairwise different as sets   *)
(* ------------------------------------------------------------------ *)

Fixpoint distinct (l : list (list nat)) : Prop :=
  match l with
  | [] => True
  | h :: r => (forall h', In h' r -> seteq h h' = false) /\ distinct r
  end.

Lemma distinct_snoc l g :
  distinct l -> (forall h, In h l -> seteq g h = false) -> distinct (l ++ [g]).
Proof.
  induction l as [| h r IH]; simpl; intros Hd Hg.
  - split; [intros h' [] | exact I].
  - destruct Hd as [Hh Hr]. split.
    + intros h' Hin. apply in_app_iff in Hin. destruct Hin as [Hin | [Heq | []]].
      * apply Hh. exact Hin.
      * subst h'. rewrite seteq_sym. apply Hg. left. reflexivity.
    + apply IH; auto.
Qed.

Lemma distinct_lt l : distinct l ->
  forall i j a b, i < j -> nth_error l i = Some a -> nth_error l j = Some b -> seteq a b = false.
Proof.
  induction l as [| h r IH]; intros Hd i j a b Hij Ha Hb.
  - destruct i; discriminate.
  - destruct Hd as [Hh Hr]. destruct j as [| j]; [lia |].
    simpl in Hb. destruct i as [| i].
    + simpl in Ha. injection Ha as <-. apply Hh. eapply nth_error_In. exact Hb.
    + simpl in Ha. apply (IH Hr i j a b); [lia | exact Ha | exact Hb].
Qed.

Lemma distinct_nth l : distinct l ->
  forall i j a b, i <> j -> nth_error l i = Some a -> nth_error l j = Some b -> seteq a b = false.
Proof.
  intros Hd i j a b Hij Ha Hb.
  destruct (Nat.lt_ge_cases i j) as [Hlt | Hge].
  - apply (distinct_lt l Hd i j a b); assumption.
  - rewrite seteq_sym. apply (distinct_lt l Hd j i b a); [lia | exact Hb | exact Ha].
Qed.

Lemma oset_add_cases s g :
  (oset_add s g = s /\ exists h, In h s /\ seteq g h = true) \/
  (oset_add s g = s ++ [g] /\ forall h, In h s -> seteq g h = false).
Proof.
  unfold oset_add. destruct (existsb (seteq g) s) eqn:E.
  - left. split; auto. apply existsb_exists in E. exact E.
  - right. split; auto. intros h Hh.
    destruct (seteq g h) eqn:E2; auto.
    assert (existsb (seteq g) s = true) as Hc by (apply existsb_exists; exists h; auto).
    congruence.
Qed.

Lemma oset_add_distinct s g : distinct s -> distinct (oset_add s g).
Proof.
  intros Hd. destruct (oset_add_cases s g) as [[-> _] | [-> Hn]]; auto.
  apply distinct_snoc; auto.
Qed.

Lemma oset_add_incl s g : incl s (oset_add s g).
Proof.
  destruct (oset_add_cases s g) as [[-> _] | [-> _]].
  - apply incl_refl.
  - apply incl_appl, incl_refl.
Qed.

Lemma oset_add_has s g : exists h, In h (oset_add s g) /\ seteq g h = true.
Proof.
  destruct (oset_add_cases s g) as [[-> H] | [-> _]]; auto.
  exists g. split; [apply in_app_iff; right; left; reflexivity | apply seteq_refl].
Qed.

Lemma oset_add_In s g h : In h (oset_add s g) -> In h s \/ h = g.
Proof.
  destruct (oset_add_cases s g) as [[-> _] | [-> _]]; auto.
  intros H. apply in_app_iff in H. destruct H as [H | [H | []]]; auto.
Qed.

(* ------------------------------------------------------------------ *)
(* 3. the two folds of [pass]                                          *)
(* ------------------------------------------------------------------ *)

Definition step2 (i : nat) (g1 : list nat) (st2 : bool * list (list nat) * bool) (jg2 : nat * list nat) :=
  let '(fl, ng, ins) := st2 in let '(j, g2) := jg2 in
  if Nat.eqb i j then st2 else
  if inter_nonempty g1 g2 then
    let ng' := oset_add ng (union g1 g2) in
    (fl || (length ng <? length ng'), ng', true)
  else st2.

Definition step1 (FULL : list (nat * list nat)) (st : bool * list (list nat)) (ig1 : nat * list nat) :=
  let '(i, g1) := ig1 in
  let '(flag, ng, in_set) := fold_left (step2 i g1) FULL (fst st, snd st, false) in
  (flag, if in_set then ng else oset_add ng g1).

Definition index (G : list (list nat)) := combine (seq 0 (length G)) G.

Lemma pass_eq G : pass G = fold_left (step1 (index G)) (index G) (false, []).
Proof. reflexivity. Qed.

(* ---- inner fold: one group g1 (at position i) against a list L of indexed groups ---- *)
Section Inner.
  Variables (i : nat) (g1 : list nat) (fl0 : bool) (ng0 : list (list nat)).

  Definition hit (L : list (nat * list nat)) (j : nat) (g2 : list nat) : Prop :=
    In (j, g2) L /\ j <> i /\ meets g1 g2.

  Record inner_spec (L : list (nat * list nat)) (r : bool * list (list nat) * bool) : Prop := {
    is_ins_t : snd r = true -> exists j g2, hit L j g2;
    is_ins_f : snd r = false -> forall j g2, ~ hit L j g2;
    is_from : forall h, In h (snd (fst r)) -> In h ng0 \/ exists j g2, hit L j g2 /\ h = union g1 g2;
    is_has : forall j g2, hit L j g2 -> exists h, In h (snd (fst r)) /\ seteq (union g1 g2) h = true;
    is_incl : incl ng0 (snd (fst r));
    is_dist : distinct ng0 -> distinct (snd (fst r));
    is_fl_t : fst (fst r) = true -> fl0 = true \/ snd r = true;
    is_fl_mono : fl0 = true -> fst (fst r) = true;
    is_fl_f : fst (fst r) = false ->
              snd (fst r) = ng0 /\
              forall j g2, hit L j g2 -> exists h, In h ng0 /\ seteq (union g1 g2) h = true
  }.

  Lemma hit_app_l L x j g2 : hit L j g2 -> hit (L ++ [x]) j g2.
  Proof. intros [H1 H2]. split; auto. apply in_app_iff. left. exact H1. Qed.

  Lemma hit_app_inv L j0 g0 j g2 :
    hit (L ++ [(j0, g0)]) j g2 -> hit L j g2 \/ (j = j0 /\ g2 = g0 /\ j0 <> i /\ meets g1 g0).
  Proof.
    intros [H1 [H2 H3]]. apply in_app_iff in H1. destruct H1 as [H1 | [H1 | []]].
    - left. split; auto.
    - injection H1 as <- <-. right. auto.
  Qed.

  Lemma inner_ok L : inner_spec L (fold_left (step2 i g1) L (fl0, ng0, false)).
  Proof.
    induction L as [| [j0 g0] L IH] using rev_ind.
    - simpl. constructor; simpl.
      + discriminate.
      + intros _ j g2 [[] _].
      + intros h H. left. exact H.
      + intros j g2 [[] _].
      + apply incl_refl.
      + intros H. exact H.
      + intros H. left. exact H.
      + intros H. exact H.
      + intros _. split; auto. intros j g2 [[] _].
    - rewrite fold_left_app. simpl.
      destruct (fold_left (step2 i g1) L (fl0, ng0, false)) as [[fl ng] ins].
      destruct IH as [Ht Hf Hfrom Hhas Hincl Hdist Hflt Hmono Hflf]. simpl in *.
      destruct (Nat.eqb i j0) eqn:Eij.
      { (* same position: skipped *)
        apply Nat.eqb_eq in Eij. subst j0.
        assert (Hinv : forall j g2, hit (L ++ [(i, g0)]) j g2 -> hit L j g2).
        { intros j g2 H. destruct (hit_app_inv _ _ _ _ _ H) as [H' | [_ [_ [H' _]]]]; auto.
          exfalso. apply H'. reflexivity. }
        constructor; simpl.
        - intros H. destruct (Ht H) as [j [g2 H']]. exists j, g2. apply hit_app_l. exact H'.
        - intros H j g2 H'. apply (Hf H j g2). apply Hinv. exact H'.
        - intros h H. destruct (Hfrom h H) as [H' | [j [g2 [H1 H2]]]]; auto.
          right. exists j, g2. split; auto. apply hit_app_l. exact H1.
        - intros j g2 H. apply (Hhas j g2). apply Hinv. exact H.
        - exact Hincl.
        - exact Hdist.
        - exact Hflt.
        - exact Hmono.
        - intros H. destruct (Hflf H) as [H1 H2]. split; auto.
          intros j g2 H'. apply (H2 j g2). apply Hinv. exact H'. }
      apply Nat.eqb_neq in Eij.
      destruct (inter_nonempty g1 g0) eqn:Em.
      2:{ (* disjoint: skipped *)
        apply inter_not_meets in Em.
        assert (Hinv : forall j g2, hit (L ++ [(j0, g0)]) j g2 -> hit L j g2).
        { intros j g2 H. destruct (hit_app_inv _ _ _ _ _ H) as [H' | [_ [_ [_ H']]]]; auto.
          exfalso. apply Em. exact H'. }
        constructor; simpl.
        - intros H. destruct (Ht H) as [j [g2 H']]. exists j, g2. apply hit_app_l. exact H'.
        - intros H j g2 H'. apply (Hf H j g2). apply Hinv. exact H'.
        - intros h H. destruct (Hfrom h H) as [H' | [j [g2 [H1 H2]]]]; auto.
          right. exists j, g2. split; auto. apply hit_app_l. exact H1.
        - intros j g2 H. apply (Hhas j g2). apply Hinv. exact H.
        - exact Hincl.
        - exact Hdist.
        - exact Hflt.
        - exact Hmono.
        - intros H. destruct (Hflf H) as [H1 H2]. split; auto.
          intros j g2 H'. apply (H2 j g2). apply Hinv. exact H'. }
      (* a union is offered to the ordered set *)
      apply inter_meets in Em.
      assert (Hnew : hit (L ++ [(j0, g0)]) j0 g0).
      { split; [apply in_app_iff; right; left; reflexivity | split; auto]. }
      { constructor; simpl.
      - intros _. exists j0, g0. exact Hnew.
      - discriminate.
      - intros h H. apply oset_add_In in H. destruct H as [H | H].
        + destruct (Hfrom h H) as [H' | [j [g2 [H1 H2]]]]; auto.
          right. exists j, g2. split; auto. apply hit_app_l. exact H1.
        + right. exists j0, g0. split; auto.
      - intros j g2 H. destruct (hit_app_inv _ _ _ _ _ H) as [H' | [-> [-> _]]].
        + destruct (Hhas j g2 H') as [h [H1 H2]]. exists h. split; auto.
          apply oset_add_incl. exact H1.
        + apply oset_add_has.
      - intros h H. apply oset_add_incl. apply Hincl. exact H.
      - intros H. apply oset_add_distinct. apply Hdist. exact H.
      - intros _. right. reflexivity.
      - intros H. rewrite (Hmono H). reflexivity.
      - intros H. apply orb_false_iff in H. destruct H as [Hfl Hlen].
        destruct (Hflf Hfl) as [Hng Hrep]. subst ng.
        destruct (oset_add_cases ng0 (union g1 g0)) as [[Heq [h [Hh1 Hh2]]] | [Heq _]].
        + rewrite Heq. split; auto.
          intros j g2 H'. destruct (hit_app_inv _ _ _ _ _ H') as [H'' | [-> [-> _]]].
          * apply (Hrep j g2). exact H''.
          * exists h. split; auto.
        + exfalso. rewrite Heq in Hlen. rewrite app_length in Hlen. simpl in Hlen.
          apply Nat.ltb_ge in Hlen. lia. }
  Qed.
End Inner.

(* ---- outer fold ---- *)
Section Outer.
  Variable FULL : list (nat * list nat).

  Definition iso (i : nat) (g1 : list nat) : Prop :=
    forall j g2, In (j, g2) FULL -> j <> i -> ~ meets g1 g2.

  Record outer_spec (L : list (nat * list nat)) (r : bool * list (list nat)) : Prop := {
    os_from : forall h, In h (snd r) ->
       (exists i g1 j g2, In (i, g1) L /\ In (j, g2) FULL /\ j <> i /\ meets g1 g2 /\ h = union g1 g2) \/
       (exists i, In (i, h) L /\ iso i h);
    os_union : forall i g1 j g2, In (i, g1) L -> In (j, g2) FULL -> j <> i -> meets g1 g2 ->
       exists h, In h (snd r) /\ seteq (union g1 g2) h = true;
    os_iso : forall i g1, In (i, g1) L -> iso i g1 -> exists h, In h (snd r) /\ seteq g1 h = true;
    os_dist : distinct (snd r);
    os_fl_t : fst r = true ->
       exists i g1 j g2, In (i, g1) L /\ In (j, g2) FULL /\ j <> i /\ meets g1 g2;
    os_fl_f : fst r = false ->
       (forall i g1, In (i, g1) L -> iso i g1) /\ (forall h, In h (snd r) -> exists i, In (i, h) L)
  }.

  Lemma NoDup_snoc_inv (A : Type) (l : list A) (a : A) : NoDup (l ++ [a]) -> NoDup l /\ ~ In a l.
  Proof.
    intros H. split.
    - apply NoDup_remove_1 in H. rewrite app_nil_r in H. exact H.
    - apply NoDup_remove_2 in H. rewrite app_nil_r in H. exact H.
  Qed.

  Lemma outer_ok L : NoDup (map fst L) -> incl L FULL ->
    outer_spec L (fold_left (step1 FULL) L (false, [])).
  Proof.
    induction L as [| [i g1] L IH] using rev_ind; intros Hnd Hincl.
    - simpl. constructor; simpl.
      + intros h [].
      + intros i g1 j g2 [].
      + intros i g1 [].
      + exact I.
      + discriminate.
      + intros _. split; [intros i g1 [] | intros h []].
    - rewrite map_app in Hnd. simpl in Hnd. apply NoDup_snoc_inv in Hnd. destruct Hnd as [Hnd Hfresh].
      assert (HinclL : incl L FULL).
      { intros x Hx. apply Hincl. apply in_app_iff. left. exact Hx. }
      assert (HiF : In (i, g1) FULL).
      { apply Hincl. apply in_app_iff. right. left. reflexivity. }
      specialize (IH Hnd HinclL).
      rewrite fold_left_app. simpl.
      destruct (fold_left (step1 FULL) L (false, [])) as [flag0 ng0].
      destruct IH as [Ofrom Ounion Oiso Odist Oflt Oflf]. simpl in *.
      pose proof (inner_ok i g1 flag0 ng0 FULL) as HI.
      destruct (fold_left (step2 i g1) FULL (flag0, ng0, false)) as [[fl ng] ins].
      destruct HI as [It If Ifrom Ihas Iincl Idist Iflt Imono Iflf]. simpl in *.
      assert (Hlift : forall k g, In (k, g) L -> In (k, g) (L ++ [(i, g1)])).
      { intros k g H. apply in_app_iff. left. exact H. }
      assert (Hlast : In (i, g1) (L ++ [(i, g1)])).
      { apply in_app_iff. right. left. reflexivity. }
      assert (Hres : incl ng (if ins then ng else oset_add ng g1)).
      { destruct ins; [apply incl_refl | apply oset_add_incl]. }
      assert (Hng : forall h, In h ng ->
         (exists i' g1' j g2, In (i', g1') (L ++ [(i, g1)]) /\ In (j, g2) FULL /\ j <> i' /\ meets g1' g2 /\ h = union g1' g2) \/
         (exists i', In (i', h) (L ++ [(i, g1)]) /\ iso i' h)).
      { intros h H. destruct (Ifrom h H) as [H0 | [j [g2 [[H1 [H2 H3]] H4]]]].
        - destruct (Ofrom h H0) as [[i' [g1' [j [g2 [H1 H2]]]]] | [i' [H1 H2]]].
          + left. exists i', g1', j, g2. split; auto.
          + right. exists i'. split; auto.
        - left. exists i, g1, j, g2. auto. }
      constructor; simpl.
      + (* os_from *)
        destruct ins.
        * exact Hng.
        * intros h H. apply oset_add_In in H. destruct H as [H | ->].
          -- apply Hng. exact H.
          -- right. exists i. split; auto.
             intros j g2 H1 H2 H3. apply (If eq_refl j g2). split; auto.
      + (* os_union *)
        intros i' g1' j g2 H1 H2 H3 H4. apply in_app_iff in H1. destruct H1 as [H1 | [H1 | []]].
        * destruct (Ounion i' g1' j g2 H1 H2 H3 H4) as [h [Hh1 Hh2]].
          exists h. split; auto.
        * injection H1 as <- <-.
          destruct (Ihas j g2) as [h [Hh1 Hh2]]; [split; auto |].
          exists h. split; auto.
      + (* os_iso *)
        intros i' g1' H1 H2. apply in_app_iff in H1. destruct H1 as [H1 | [H1 | []]].
        * destruct (Oiso i' g1' H1 H2) as [h [Hh1 Hh2]]. exists h. split; auto.
        * injection H1 as <- <-. destruct ins.
          -- exfalso. destruct (It eq_refl) as [j [g2 [Hj1 [Hj2 Hj3]]]].
             exact (H2 j g2 Hj1 Hj2 Hj3).
          -- apply oset_add_has.
      + (* os_dist *)
        destruct ins; [auto | apply oset_add_distinct; auto].
      + (* os_fl_t *)
        intros H. destruct (Iflt H) as [H0 | H0].
        * destruct (Oflt H0) as [i' [g1' [j [g2 [H1 H2]]]]]. exists i', g1', j, g2. split; auto.
        * destruct (It H0) as [j [g2 [Hj1 [Hj2 Hj3]]]]. exists i, g1, j, g2. auto.
      + (* os_fl_f *)
        intros H.
        assert (Hfl0 : flag0 = false).
        { destruct flag0; auto. rewrite (Imono eq_refl) in H. discriminate. }
        destruct (Oflf Hfl0) as [HisoL Hsrc].
        destruct (Iflf H) as [Heq Hrep]. subst ng.
        assert (Hnohit : forall j g2, ~ hit i g1 FULL j g2).
        { intros j g2 Hhit. destruct (Hrep j g2 Hhit) as [h [Hh1 Hh2]].
          destruct (Hsrc h Hh1) as [k Hk].
          destruct Hhit as [_ [_ [x [Hx1 Hx2]]]].
          apply seteq_spec in Hh2. destruct Hh2 as [Hsub _].
          apply (HisoL k h Hk i g1 HiF).
          - intros ->. apply Hfresh. apply in_map_iff. exists (k, h). split; auto.
          - exists x. split; auto. apply Hsub. apply union_In. left. exact Hx1. }
        destruct ins.
        { exfalso. destruct (It eq_refl) as [j [g2 Hhit]]. exact (Hnohit j g2 Hhit). }
        split.
        * intros i' g1' H1. apply in_app_iff in H1. destruct H1 as [H1 | [H1 | []]].
          -- apply HisoL. exact H1.
          -- injection H1 as <- <-. intros j g2 H1 H2 H3. apply (Hnohit j g2). split; auto.
        * intros h Hh. apply oset_add_In in Hh. destruct Hh as [Hh | ->].
          -- destruct (Hsrc h Hh) as [k Hk]. exists k. auto.
          -- exists i. exact Hlast.
  Qed.
End Outer.

(* ------------------------------------------------------------------ *)
(* 4. extensional specification of [pass] in terms of positions        *)
(* ------------------------------------------------------------------ *)

Lemma in_combine_seq (G : list (list nat)) : forall s i g,
  In (i, g) (combine (seq s (length G)) G) <-> s <= i /\ nth_error G (i - s) = Some g.
Proof.
  induction G as [| g0 G IH]; intros s i g; simpl.
  - split; [intros [] | intros [_ H]; destruct (i - s); discriminate].
  - rewrite IH. split.
    + intros [H | [H1 H2]].
      * injection H as <- <-. split; [lia |]. rewrite Nat.sub_diag. reflexivity.
      * split; [lia |]. replace (i - s) with (S (i - S s)) by lia. exact H2.
    + intros [H1 H2]. destruct (Nat.eq_dec s i) as [-> | Hne].
      * left. rewrite Nat.sub_diag in H2. simpl in H2. congruence.
      * right. split; [lia |]. replace (i - s) with (S (i - S s)) in H2 by lia. exact H2.
Qed.

Lemma in_index G i g : In (i, g) (index G) <-> nth_error G i = Some g.
Proof.
  unfold index. rewrite in_combine_seq. rewrite Nat.sub_0_r. split; [intros [_ H]; exact H | intros H; split; [lia | exact H]].
Qed.

Lemma map_fst_combine_seq (G : list (list nat)) : forall s,
  map fst (combine (seq s (length G)) G) = seq s (length G).
Proof. induction G as [| g0 G IH]; intros s; simpl; [reflexivity | rewrite IH; reflexivity]. Qed.

Lemma index_nodup G : NoDup (map fst (index G)).
Proof. unfold index. rewrite map_fst_combine_seq. apply seq_NoDup. Qed.

(* position-wise isolation *)
Definition isolated (G : list (list nat)) (i : nat) (g : list nat) : Prop :=
  forall j g2, nth_error G j = Some g2 -> j <> i -> ~ meets g g2.

Definition pairwise_disjoint (G : list (list nat)) : Prop :=
  forall i j gi gj, i <> j -> nth_error G i = Some gi -> nth_error G j = Some gj -> ~ meets gi gj.

Record pass_spec (G : list (list nat)) (flag : bool) (G' : list (list nat)) : Prop := {
  ps_from : forall h, In h G' ->
     (exists i gi j gj, nth_error G i = Some gi /\ nth_error G j = Some gj /\ j <> i /\ meets gi gj /\ h = union gi gj) \/
     (exists i, nth_error G i = Some h /\ isolated G i h);
  ps_union : forall i gi j gj, nth_error G i = Some gi -> nth_error G j = Some gj -> j <> i -> meets gi gj ->
     exists h, In h G' /\ seteq (union gi gj) h = true;
  ps_iso : forall i gi, nth_error G i = Some gi -> isolated G i gi -> exists h, In h G' /\ seteq gi h = true;
  ps_dist : distinct G';
  ps_fl_t : flag = true ->
     exists i gi j gj, nth_error G i = Some gi /\ nth_error G j = Some gj /\ j <> i /\ meets gi gj;
  ps_fl_f : flag = false -> pairwise_disjoint G
}.

Lemma iso_isolated G i g : iso (index G) i g <-> isolated G i g.
Proof.
  unfold iso, isolated. split; intros H j g2 H1; apply H; apply in_index; exact H1.
Qed.

Lemma pass_ok G flag G' : pass G = (flag, G') -> pass_spec G flag G'.
Proof.
  rewrite pass_eq. intros Hp.
  pose proof (outer_ok (index G) (index G) (index_nodup G) (incl_refl _)) as HO.
  rewrite Hp in HO. destruct HO as [Ofrom Ounion Oiso Odist Oflt Oflf]. simpl in *.
  constructor.
  - intros h Hh. destruct (Ofrom h Hh) as [[i [g1 [j [g2 [H1 [H2 [H3 [H4 H5]]]]]]]] | [i [H1 H2]]].
    + left. exists i, g1, j, g2. rewrite <- !in_index. auto.
    + right. exists i. rewrite <- in_index, <- iso_isolated. auto.
  - intros i gi j gj H1 H2 H3 H4. apply (Ounion i gi j gj); auto; apply in_index; auto.
  - intros i gi H1 H2. apply (Oiso i gi); [apply in_index | apply iso_isolated]; auto.
  - exact Odist.
  - intros H. destruct (Oflt H) as [i [g1 [j [g2 [H1 [H2 [H3 H4]]]]]]].
    exists i, g1, j, g2. rewrite <- !in_index. auto.
  - intros H. destruct (Oflf H) as [Hiso _].
    intros i j gi gj Hij Hi Hj. apply in_index in Hi. apply in_index in Hj.
    apply (Hiso i gi Hi j gj Hj). intros ->. apply Hij. reflexivity.
Qed.

(* ------------------------------------------------------------------ *)
(* 5. the insertion-ordered dictionary models2merge                    *)
(* ------------------------------------------------------------------ *)

Definition keys (d : list (nat * list nat)) : list nat := map fst d.

Fixpoint get (d : list (nat * list nat)) (k : nat) : list nat :=
  match d with
  | [] => []
  | (k', v) :: r => if Nat.eqb k' k then v else get r k
  end.

Definition addv (x : nat) (v : list nat) : list nat := if mem x v then v else v ++ [x].

Lemma addv_In x v c : In c (addv x v) <-> In c v \/ c = x.
Proof.
  unfold addv. destruct (mem x v) eqn:E.
  - apply mem_In in E. split; [auto | intros [H | ->]; auto].
  - rewrite in_app_iff. simpl. split; [intros [H | [H | []]]; auto | intros [H | ->]; auto].
Qed.

Lemma addv_NoDup x v : NoDup v -> NoDup (addv x v).
Proof.
  unfold addv. intros H. destruct (mem x v) eqn:E; auto.
  apply mem_false in E. apply NoDup_app_disj; auto.
  - constructor; [intros [] | constructor].
  - intros y Hy [<- | []]. exact (E Hy).
Qed.

Lemma keys_add_edge d a b :
  keys (add_edge d a b) = if mem a (keys d) then keys d else keys d ++ [a].
Proof.
  unfold keys. induction d as [| [k v] r IH]; simpl; auto.
  destruct (Nat.eqb_spec k a) as [-> | Hne]; simpl.
  - rewrite Nat.eqb_refl. reflexivity.
  - destruct (Nat.eqb_spec a k) as [-> | _]; [congruence |]. simpl.
    rewrite IH. fold (mem a (map fst r)). destruct (mem a (map fst r)); reflexivity.
Qed.

Lemma get_add_edge d a b k :
  get (add_edge d a b) k = if Nat.eqb k a then addv b (get d a) else get d k.
Proof.
  induction d as [| [k' v] r IH]; simpl.
  - rewrite (Nat.eqb_sym a k). destruct (Nat.eqb k a); reflexivity.
  - destruct (Nat.eqb_spec k' a) as [E1 | E1]; simpl.
    + destruct (Nat.eqb_spec k' k) as [E2 | E2]; destruct (Nat.eqb_spec k a) as [E3 | E3];
        try reflexivity; exfalso; congruence.
    + rewrite IH.
      destruct (Nat.eqb_spec k' k) as [E2 | E2]; destruct (Nat.eqb_spec k a) as [E3 | E3];
        try reflexivity; try (exfalso; congruence).
Qed.

Lemma in_dict_get d k v : NoDup (keys d) -> In (k, v) d -> v = get d k.
Proof.
  induction d as [| [k' v'] r IH]; simpl; intros Hnd Hin; [contradiction |].
  inversion Hnd as [| ? ? Hk' Hr]; subst.
  destruct Hin as [Heq | Hin].
  - injection Heq as -> ->. rewrite Nat.eqb_refl. reflexivity.
  - destruct (Nat.eqb_spec k' k) as [-> | Hne].
    + exfalso. apply Hk'. apply in_map_iff. exists (k, v). split; auto.
    + apply IH; auto.
Qed.

Lemma get_in_dict d k : In k (keys d) -> In (k, get d k) d.
Proof.
  induction d as [| [k' v'] r IH]; simpl; intros Hin; [contradiction |].
  destruct (Nat.eqb_spec k' k) as [-> | Hne].
  - left. reflexivity.
  - right. apply IH. destruct Hin as [H | H]; [congruence | exact H].
Qed.

Definition dict_ok (E : nat -> nat -> Prop) (d : list (nat * list nat)) : Prop :=
  NoDup (keys d) /\
  (forall k, NoDup (get d k)) /\
  (forall k c, In c (get d k) <-> E k c) /\
  (forall k, In k (keys d) <-> exists c, E k c).

Lemma dict_ok_ext (E E' : nat -> nat -> Prop) d :
  (forall k c, E k c <-> E' k c) -> dict_ok E d -> dict_ok E' d.
Proof.
  intros Hext [H1 [H2 [H3 H4]]]. split; [| split; [| split]]; auto.
  - intros k c. rewrite H3. apply Hext.
  - intros k. rewrite H4. split; intros [c Hc]; exists c; apply Hext; exact Hc.
Qed.

Lemma add_edge_dict_ok (E : nat -> nat -> Prop) d a b :
  dict_ok E d -> dict_ok (fun k c => E k c \/ (k = a /\ c = b)) (add_edge d a b).
Proof.
  intros [H1 [H2 [H3 H4]]].
  assert (Hkeys : forall k, In k (keys (add_edge d a b)) <-> In k (keys d) \/ k = a).
  { intros k. rewrite keys_add_edge. destruct (mem a (keys d)) eqn:E1.
    - apply mem_In in E1. split; [auto | intros [H | ->]; auto].
    - rewrite in_app_iff. simpl. split; [intros [H | [H | []]]; auto | intros [H | ->]; auto]. }
  split; [| split; [| split]].
  - rewrite keys_add_edge. destruct (mem a (keys d)) eqn:E1; auto.
    apply mem_false in E1. apply NoDup_app_disj; auto.
    + constructor; [intros [] | constructor].
    + intros y Hy [<- | []]. exact (E1 Hy).
  - intros k. rewrite get_add_edge. destruct (Nat.eqb k a); auto. apply addv_NoDup. auto.
  - intros k c. rewrite get_add_edge. destruct (Nat.eqb_spec k a) as [-> | Hne].
    + rewrite addv_In, H3. split; intros [H | H]; auto. destruct H as [_ H]. auto.
    + rewrite H3. split; [auto | intros [H | [H _]]; [auto | congruence]].
  - intros k. rewrite Hkeys, H4. split.
    + intros [[c Hc] | ->]; [exists c; auto | exists b; auto].
    + intros [c [Hc | [-> _]]]; [left; exists c; auto | right; reflexivity].
Qed.

Section M2M.
  Variable R : nat -> nat -> bool.

  Definition EP (P : list (nat * nat)) (k c : nat) : Prop :=
    (In (k, c) P /\ R k c = true) \/ (In (c, k) P /\ R c k = true).

  Definition stepD (d : list (nat * list nat)) (ab : nat * nat) :=
    if R (fst ab) (snd ab) then add_edge (add_edge d (fst ab) (snd ab)) (snd ab) (fst ab) else d.

  Lemma m2m_ok P : dict_ok (EP P) (fold_left stepD P []).
  Proof.
    induction P as [| [a b] P IH] using rev_ind.
    - simpl. split; [constructor | split; [constructor | split]].
      + intros k c. simpl. split; [intros [] | intros [[[] _] | [[] _]]].
      + intros k. simpl. split; [intros [] | intros [c [[[] _] | [[] _]]]].
    - rewrite fold_left_app. simpl. unfold stepD at 1. simpl.
      destruct (R a b) eqn:Rab.
      + apply (add_edge_dict_ok _ _ a b) in IH. apply (add_edge_dict_ok _ _ b a) in IH.
        eapply dict_ok_ext; [| exact IH].
        intros k c. unfold EP. simpl. rewrite !in_app_iff. simpl. split.
        * intros [[[[H1 H2] | [H1 H2]] | [-> ->]] | [-> ->]].
          -- left. split; [left; exact H1 | exact H2].
          -- right. split; [left; exact H1 | exact H2].
          -- left. split; [right; left; reflexivity | exact Rab].
          -- right. split; [right; left; reflexivity | exact Rab].
        * intros [[[H | [H | []]] H2] | [[H | [H | []]] H2]].
          -- left. left. left. split; assumption.
          -- injection H as <- <-. left. right. split; reflexivity.
          -- left. left. right. split; assumption.
          -- injection H as <- <-. right. split; reflexivity.
      + eapply dict_ok_ext; [| exact IH].
        intros k c. unfold EP. rewrite !in_app_iff. simpl. split.
        * intros [[H1 H2] | [H1 H2]]; [left | right]; (split; [left; exact H1 | exact H2]).
        * intros [[[H | [H | []]] H2] | [[H | [H | []]] H2]].
          -- left; split; assumption.
          -- injection H as <- <-. congruence.
          -- right; split; assumption.
          -- injection H as <- <-. congruence.
  Qed.

  Lemma models2merge_ok ms : dict_ok (EP (combos ms)) (models2merge R ms).
  Proof. apply m2m_ok. Qed.
End M2M.

(* combinations(ms, 2) = pairs in list order *)
Lemma in_combos_split a b : forall ms,
  In (a, b) (combos ms) <-> exists l1 l2 l3, ms = l1 ++ a :: l2 ++ b :: l3.
Proof.
  induction ms as [| x r IH]; simpl.
  - split; [intros [] | intros [l1 [l2 [l3 H]]]; destruct l1; discriminate].
  - rewrite in_app_iff, IH, in_map_iff. split.
    + intros [[y [Hy1 Hy2]] | [l1 [l2 [l3 H]]]].
      * injection Hy1 as <- <-. apply in_split in Hy2. destruct Hy2 as [l2 [l3 ->]].
        exists [], l2, l3. reflexivity.
      * exists (x :: l1), l2, l3. rewrite H. reflexivity.
    + intros [[| y l1] [l2 [l3 H]]]; simpl in H; injection H as -> ->.
      * left. exists b. split; auto. apply in_app_iff. right. left. reflexivity.
      * right. exists l1, l2, l3. reflexivity.
Qed.

(* isolation of a position is decidable (finite search) *)
Lemma isolated_dec G i g :
  isolated G i g \/ exists j gj, nth_error G j = Some gj /\ j <> i /\ meets g gj.
Proof.
  destruct (existsb (fun jg : nat * list nat => negb (Nat.eqb (fst jg) i) && inter_nonempty g (snd jg)) (index G)) eqn:E.
  - right. apply existsb_exists in E. destruct E as [[j gj] [Hin Hb]]. simpl in Hb.
    apply andb_true_iff in Hb. destruct Hb as [Hb1 Hb2].
    exists j, gj. split; [apply in_index; exact Hin | split].
    + apply negb_true_iff in Hb1. apply Nat.eqb_neq in Hb1. exact Hb1.
    + apply inter_meets. exact Hb2.
  - left. intros j gj Hj Hne Hm.
    assert (existsb (fun jg : nat * list nat => negb (Nat.eqb (fst jg) i) && inter_nonempty g (snd jg)) (index G) = true) as Hc.
    { apply existsb_exists. exists (j, gj). split; [apply in_index; exact Hj |]. simpl.
      apply andb_true_iff. split.
      - apply negb_true_iff. apply Nat.eqb_neq. exact Hne.
      - apply inter_meets. exact Hm. }
    congruence.
Qed.

Lemma In_two_positions (G : list (list nat)) g1 g2 :
  In g1 G -> In g2 G -> g1 <> g2 ->
  exists i j, i <> j /\ nth_error G i = Some g1 /\ nth_error G j = Some g2.
Proof.
  intros H1 H2 Hne. apply In_nth_error in H1. apply In_nth_error in H2.
  destruct H1 as [i Hi]. destruct H2 as [j Hj]. exists i, j. split; auto.
  intros ->. congruence.
Qed.
