(* Proofs/RegistryInvAux.v — helper lemmas for Proofs/RegistryInv.v (rest of C05):
   (K1) key lists of merge_field_sets / optimize_fields,
   (K2) pointer containment of the type operations (mk_union, merge_field_sets, regroup, finish,
        optimize, rename).
   No axioms; stdlib only. *)
From Coq Require Import List Bool Arith NArith Lia Permutation.
From J2M.Model Require Import Base Union Merge Optimize Registry.
Import ListNotations.

(* ------------------------------------------------------------------ *)
(* (0) pointers occurring in a type                                    *)
(* ------------------------------------------------------------------ *)
Fixpoint ptrs_of (t : ty) : list N :=
  match t with
  | TPtr i => [i]
  | TOpt x => ptrs_of x | TList x => ptrs_of x | TDict x => ptrs_of x
  | TUnion ts => (fix go (l : list ty) : list N := match l with [] => [] | x :: r => ptrs_of x ++ go r end) ts
  | TObj fs => (fix go (l : list (str * ty)) : list N :=
                  match l with [] => [] | kv :: r => ptrs_of (snd kv) ++ go r end) fs
  | _ => []
  end.

Definition tptrs (ts : list ty) : list N := flat_map ptrs_of ts.
Definition fptrs (fs : fields) : list N := flat_map (fun kv => ptrs_of (snd kv)) fs.

Lemma ptrs_of_union ts : ptrs_of (TUnion ts) = tptrs ts.
Proof. unfold tptrs. simpl. induction ts as [|x r IH]; simpl; [reflexivity | now rewrite IH]. Qed.
Lemma ptrs_of_obj fs : ptrs_of (TObj fs) = fptrs fs.
Proof. unfold fptrs. simpl. induction fs as [|x r IH]; simpl; [reflexivity | now rewrite IH]. Qed.

Lemma tptrs_app a b : tptrs (a ++ b) = tptrs a ++ tptrs b.
Proof. apply flat_map_app. Qed.
Lemma fptrs_app a b : fptrs (a ++ b) = fptrs a ++ fptrs b.
Proof. apply flat_map_app. Qed.

Lemma tptrs_In ts x : In x ts -> incl (ptrs_of x) (tptrs ts).
Proof. intros Hx i Hi. apply in_flat_map. exists x. auto. Qed.
Lemma fptrs_In (fs : fields) k x : In (k, x) fs -> incl (ptrs_of x) (fptrs fs).
Proof. intros Hx i Hi. apply in_flat_map. exists (k, x). auto. Qed.

Lemma tptrs_incl_elem l L :
  (forall x, In x l -> In x L \/ ptrs_of x = []) -> incl (tptrs l) (tptrs L).
Proof.
  intros H i Hi. apply in_flat_map in Hi as [x [Hx Hi]].
  destruct (H x Hx) as [HL | E]; [| rewrite E in Hi; destruct Hi].
  apply in_flat_map. exists x. auto.
Qed.
Lemma tptrs_incl_sub l L : incl l L -> incl (tptrs l) (tptrs L).
Proof. intros H. apply tptrs_incl_elem. intros x Hx. left. auto. Qed.

(* ------------------------------------------------------------------ *)
(* (1) strings, keys, lookup / update                                  *)
(* ------------------------------------------------------------------ *)
Lemma str_eqb_iff a b : str_eqb a b = true <-> a = b.
Proof. unfold str_eqb. destruct (list_eq_dec N.eq_dec a b); split; congruence. Qed.
Lemma str_eqb_rfl a : str_eqb a a = true.
Proof. apply str_eqb_iff. reflexivity. Qed.

Definition memk (k : str) (l : list str) : bool := existsb (str_eqb k) l.
Lemma memk_In k l : memk k l = true <-> In k l.
Proof.
  unfold memk. rewrite existsb_exists. split.
  - intros [x [Hx E]]. apply str_eqb_iff in E. congruence.
  - intros H. exists k. split; auto. apply str_eqb_rfl.
Qed.
Lemma memk_app k a b : memk k (a ++ b) = memk k a || memk k b.
Proof. apply existsb_app. Qed.

Lemma has_key_cons {A} k k' (t : A) r : has_key k ((k', t) :: r) = str_eqb k k' || has_key k r.
Proof. unfold has_key. simpl. destruct (str_eqb k k'); reflexivity. Qed.
Lemma has_key_memk {A} k (fs : list (str * A)) : has_key k fs = memk k (map fst fs).
Proof.
  induction fs as [|[k' t] r IH]; [reflexivity |].
  rewrite has_key_cons. simpl. now rewrite IH.
Qed.
Lemma has_key_In {A} k (fs : list (str * A)) : has_key k fs = true <-> In k (map fst fs).
Proof. rewrite has_key_memk. apply memk_In. Qed.
Lemma lookup_has_key {A} k (fs : list (str * A)) t : lookup k fs = Some t -> has_key k fs = true.
Proof. unfold has_key. intros ->. reflexivity. Qed.
Lemma lookup_none_has_key {A} k (fs : list (str * A)) : lookup k fs = None -> has_key k fs = false.
Proof. unfold has_key. intros ->. reflexivity. Qed.
Lemma lookup_in {A} k (fs : list (str * A)) t : lookup k fs = Some t -> exists k', In (k', t) fs.
Proof.
  induction fs as [|[k' t'] r IH]; simpl; [discriminate |].
  destruct (str_eqb k k').
  - intros E. injection E as ->. exists k'. auto.
  - intros E. destruct (IH E) as [k2 H2]. exists k2. auto.
Qed.

Definition add_key (ks : list str) (k : str) : list str := if memk k ks then ks else ks ++ [k].

Lemma update_keys {A} k (t : A) fs : map fst (update k t fs) = add_key (map fst fs) k.
Proof.
  unfold add_key. induction fs as [|[k' t'] r IH]; simpl; [reflexivity |].
  destruct (str_eqb k k') eqn:E; simpl; [reflexivity |].
  rewrite IH. destruct (memk k (map fst r)); reflexivity.
Qed.

Lemma update_fptrs k t (fs : fields) : incl (fptrs (update k t fs)) (fptrs fs ++ ptrs_of t).
Proof.
  induction fs as [|[k' t'] r IH]; simpl.
  - rewrite app_nil_r. apply incl_refl.
  - destruct (str_eqb k k'); simpl.
    + intros i Hi. apply in_app_or in Hi as [Hi | Hi]; apply in_or_app; [right; exact Hi |].
      left. apply in_or_app. right. exact Hi.
    + intros i Hi. apply in_app_or in Hi as [Hi | Hi].
      * apply in_or_app. left. apply in_or_app. left. exact Hi.
      * apply IH in Hi. apply in_app_or in Hi as [Hi | Hi]; apply in_or_app; [left | right; exact Hi].
        apply in_or_app. right. exact Hi.
Qed.

(* first-occurrence order, duplicate free *)
Fixpoint dedup_from (seen : list str) (l : list str) : list str :=
  match l with
  | [] => []
  | k :: r => if memk k seen then dedup_from seen r else k :: dedup_from (seen ++ [k]) r
  end.
Definition dedup_keys (l : list str) : list str := dedup_from [] l.

Lemma fold_add_key l : forall acc, fold_left add_key l acc = acc ++ dedup_from acc l.
Proof.
  induction l as [|k r IH]; intros acc; simpl.
  - now rewrite app_nil_r.
  - unfold add_key at 2. destruct (memk k acc) eqn:E.
    + apply IH.
    + rewrite IH. rewrite <- app_assoc. reflexivity.
Qed.

Lemma dedup_from_In l : forall seen k, In k (dedup_from seen l) <-> In k l /\ ~ In k seen.
Proof.
  induction l as [|x r IH]; intros seen k; simpl.
  - timeout 20 tauto.
  - destruct (memk x seen) eqn:E.
    + rewrite IH. apply memk_In in E. split.
      * intros [H1 H2]. auto.
      * intros [[-> | H1] H2]; [contradiction | auto].
    + assert (Hx : ~ In x seen) by (intros H; apply memk_In in H; congruence).
      simpl. rewrite IH. split.
      * intros [-> | [H1 H2]]; [auto |]. split; auto. intros H. apply H2. apply in_or_app. auto.
      * intros [[-> | H1] H2]; [auto |].
        destruct (list_eq_dec N.eq_dec x k) as [-> | Hne]; [auto |].
        right. split; auto. intros H. apply in_app_or in H as [H | [H | []]]; auto.
Qed.
Lemma dedup_from_NoDup l : forall seen, NoDup (dedup_from seen l).
Proof.
  induction l as [|x r IH]; intros seen; simpl; [constructor |].
  destruct (memk x seen); [apply IH |].
  constructor; [| apply IH].
  intros H. apply dedup_from_In in H as [_ H]. apply H. apply in_or_app. right. left. reflexivity.
Qed.
Lemma dedup_keys_In l k : In k (dedup_keys l) <-> In k l.
Proof. unfold dedup_keys. rewrite dedup_from_In. simpl. timeout 20 tauto. Qed.
Lemma dedup_keys_NoDup l : NoDup (dedup_keys l).
Proof. apply dedup_from_NoDup. Qed.
(* on a duplicate-free list dedup is the identity *)
Lemma dedup_from_id l : forall seen, NoDup l -> (forall k, In k l -> ~ In k seen) -> dedup_from seen l = l.
Proof.
  induction l as [|x r IH]; intros seen Hnd Hs; simpl; [reflexivity |].
  inversion Hnd as [| ? ? Hx Hr]; subst.
  destruct (memk x seen) eqn:E.
  - apply memk_In in E. exfalso. apply (Hs x); simpl; auto.
  - f_equal. apply IH; auto. intros k Hk H. apply in_app_or in H as [H | [H | []]].
    + apply (Hs k); simpl; auto.
    + subst. contradiction.
Qed.
Lemma dedup_keys_id l : NoDup l -> dedup_keys l = l.
Proof. intros H. apply dedup_from_id; auto. Qed.

(* the recursive reading of "first occurrence": the head, then the rest without the head *)
Lemma dedup_from_ext l : forall s1 s2, (forall y, memk y s1 = memk y s2) -> dedup_from s1 l = dedup_from s2 l.
Proof.
  induction l as [|x r IH]; intros s1 s2 H; simpl; [reflexivity |].
  rewrite <- (H x). destruct (memk x s1); [apply IH, H |].
  f_equal. apply IH. intros y. rewrite !memk_app, H. reflexivity.
Qed.
Lemma filter_all_true {A} (p : A -> bool) l : (forall x, In x l -> p x = true) -> filter p l = l.
Proof.
  induction l as [|x r IH]; intros H; simpl; [reflexivity |].
  rewrite (H x (or_introl eq_refl)). f_equal. apply IH. intros y Hy. apply H. right. exact Hy.
Qed.
Lemma dedup_from_snoc l : forall seen k,
  dedup_from (seen ++ [k]) l = filter (fun k' => negb (str_eqb k' k)) (dedup_from seen l).
Proof.
  induction l as [|x r IH]; intros seen k; simpl; [reflexivity |].
  rewrite memk_app. simpl. rewrite orb_false_r.
  destruct (memk x seen) eqn:Es; simpl; [apply IH |].
  destruct (str_eqb x k) eqn:Ek; simpl.
  - apply str_eqb_iff in Ek. subst x. symmetry. apply filter_all_true.
    intros y Hy. apply negb_true_iff. destruct (str_eqb y k) eqn:E; [| reflexivity].
    apply str_eqb_iff in E. subst y. apply dedup_from_In in Hy as [_ Hy].
    exfalso. apply Hy. apply in_or_app. right. left. reflexivity.
  - f_equal. rewrite <- IH. apply dedup_from_ext.
    intros y. rewrite !memk_app. simpl. rewrite !orb_false_r, <- !orb_assoc. f_equal. apply orb_comm.
Qed.
Theorem dedup_keys_cons k r :
  dedup_keys (k :: r) = k :: filter (fun k' => negb (str_eqb k' k)) (dedup_keys r).
Proof. unfold dedup_keys. simpl. f_equal. apply (dedup_from_snoc r [] k). Qed.

(* ------------------------------------------------------------------ *)
(* (2) K2 for Union.v: flat, mk_union, union1, dunion                   *)
(* ------------------------------------------------------------------ *)
Lemma flat_union us : flat (TUnion us) = flat_map flat us.
Proof. simpl. induction us as [|x r IH]; simpl; [reflexivity | now rewrite IH]. Qed.

Lemma flat_tptrs t : tptrs (flat t) = ptrs_of t.
Proof.
  induction t as [| | | | | | p | o ls | t IH | t IH | t IH | ts IH | fs IH | i] using ty_ind2;
    try (simpl; rewrite ?app_nil_r; reflexivity).
  rewrite flat_union, ptrs_of_union. unfold tptrs.
  induction IH as [|x r Hx Hr IH]; simpl; [reflexivity |].
  rewrite flat_map_app. fold (tptrs (flat x)). rewrite Hx. f_equal. exact IH.
Qed.
Lemma flatten_union_tptrs ts : tptrs (flatten_union ts) = tptrs ts.
Proof. unfold flatten_union. rewrite flat_tptrs. apply ptrs_of_union. Qed.

Lemma add_unique_In u t x : In x (add_unique u t) -> In x u \/ x = t.
Proof.
  unfold add_unique. destruct (existsb (ty_eqb t) u); [auto |].
  intros H. apply in_app_or in H as [H | [H | []]]; auto.
Qed.

Definition elems_ok (L u : list ty) : Prop := forall x, In x u -> In x L \/ ptrs_of x = [].

Lemma union_step_ok L st t : In t L -> elems_ok L (fst (fst st)) -> elems_ok L (fst (fst (union_step st t))).
Proof.
  destruct st as [[u ul] ls]. intros Ht Hu. unfold union_step.
  destruct t; simpl;
    try (intros x Hx; apply add_unique_In in Hx as [Hx | ->]; [apply Hu, Hx | left; exact Ht]).
  destruct (negb ul); [exact Hu |]. destruct overflow; exact Hu.
Qed.
Lemma fold_union_step_ok L l : forall st, incl l L -> elems_ok L (fst (fst st)) ->
  elems_ok L (fst (fst (fold_left union_step l st))).
Proof.
  induction l as [|t r IH]; intros st Hl Hu; simpl; [exact Hu |].
  apply IH.
  - intros x Hx. apply Hl. right. exact Hx.
  - apply union_step_ok; auto. apply Hl. left. reflexivity.
Qed.

Lemma mk_union_elems ts : elems_ok (flatten_union ts) (mk_union ts).
Proof.
  unfold mk_union.
  pose proof (fold_union_step_ok (flatten_union ts) (flatten_union ts) ([], true, []) (incl_refl _)) as H.
  destruct (fold_left union_step (flatten_union ts) ([], true, [])) as [[u ul] ls]. simpl in H.
  assert (Hu : elems_ok (flatten_union ts) u) by (apply H; intros x []).
  clear H.
  assert (Hstr : elems_ok (flatten_union ts) (add_unique u TStr)).
  { intros x Hx. apply add_unique_In in Hx as [Hx | ->]; [auto | right; reflexivity]. }
  destruct ls as [|s ls].
  - destruct ul; auto.
  - destruct ul; [| exact Hstr].
    destruct (lit_overflow (s :: ls)); [exact Hstr |].
    intros x Hx. apply in_app_or in Hx as [Hx | [<- | []]]; [auto | right; reflexivity].
Qed.

Theorem mk_union_ptrs ts : incl (tptrs (mk_union ts)) (tptrs ts).
Proof.
  rewrite <- (flatten_union_tptrs ts). apply tptrs_incl_elem. apply mk_union_elems.
Qed.
Theorem dunion_ptrs ts : incl (ptrs_of (dunion ts)) (tptrs ts).
Proof. unfold dunion. rewrite ptrs_of_union. apply mk_union_ptrs. Qed.
Theorem union1_ptrs ts : incl (ptrs_of (union1 ts)) (tptrs ts).
Proof.
  unfold union1. pose proof (mk_union_ptrs ts) as H.
  destruct (mk_union ts) as [|x [|y r]].
  - intros i [].
  - simpl in H. rewrite app_nil_r in H. exact H.
  - rewrite ptrs_of_union. exact H.
Qed.

Lemma members_tptrs t : tptrs (members t) = ptrs_of t.
Proof.
  destruct t; try (simpl; rewrite ?app_nil_r; reflexivity);
  unfold members; symmetry; apply ptrs_of_union.
Qed.
Lemma wrap_opt_ptrs t : ptrs_of (wrap_opt t) = ptrs_of t.
Proof. unfold wrap_opt. destruct (is_opt t); reflexivity. Qed.

(* ------------------------------------------------------------------ *)
(* (3) K1 / K2 for Merge.v                                             *)
(* ------------------------------------------------------------------ *)
Section MergeLemmas.
  Variable peq : N -> N -> bool.

  Lemma union1_members_ptrs a b : incl (ptrs_of (union1 (members a ++ members b))) (ptrs_of a ++ ptrs_of b).
  Proof.
    eapply incl_tran; [apply union1_ptrs |]. rewrite tptrs_app, !members_tptrs. apply incl_refl.
  Qed.

  (* one step either leaves the accumulator alone (the key is present) or assigns the slot of the key *)
  Lemma merge_field_cases first acc name field :
    (merge_field peq first acc (name, field) = acc /\ has_key name acc = true) \/
    (exists x, merge_field peq first acc (name, field) = update name x acc /\
               incl (ptrs_of x) (ptrs_of field ++ match lookup name acc with Some fo => ptrs_of fo | None => [] end)).
  Proof.
    unfold merge_field. destruct (lookup name acc) as [fo|] eqn:E.
    - assert (Hk : has_key name acc = true) by (eapply lookup_has_key; timeout 20 eauto).
      assert (Hu : incl (ptrs_of (union1 (members field ++ members fo))) (ptrs_of field ++ ptrs_of fo))
        by apply union1_members_ptrs.
      destruct fo;
        try (destruct (py_eq peq _ field); [left; split; [reflexivity | exact Hk] |];
             destruct field;
             try (right; eexists; split; [reflexivity | exact Hu]);
             match goal with |- context [py_eq peq ?a ?b] => destruct (py_eq peq a b) end;
             right; eexists; split; try reflexivity; try exact Hu;
             apply incl_appl; apply incl_refl).
      destruct (py_eq peq (TOpt fo) field || py_eq peq fo field); [left; split; [reflexivity | exact Hk] |].
      right. eexists. split; [reflexivity |]. apply (union1_members_ptrs field fo).
    - right. eexists. split; [reflexivity |]. rewrite app_nil_r.
      destruct (first || is_opt field); apply incl_refl.
  Qed.

  Lemma merge_field_keys first acc kv :
    map fst (merge_field peq first acc kv) = add_key (map fst acc) (fst kv).
  Proof.
    destruct kv as [name field]. cbn [fst snd].
    destruct (merge_field_cases first acc name field) as [[-> Hk] | [x [-> _]]].
    - unfold add_key. rewrite <- has_key_memk, Hk. reflexivity.
    - apply update_keys.
  Qed.

  Lemma lookup_fptrs name (acc : fields) :
    incl (match lookup name acc with Some fo => ptrs_of fo | None => [] end) (fptrs acc).
  Proof.
    destruct (lookup name acc) as [fo|] eqn:E; [| intros i []].
    apply lookup_in in E as [k' Hk]. eapply fptrs_In; timeout 20 eauto.
  Qed.

  Lemma merge_field_ptrs first acc kv :
    incl (fptrs (merge_field peq first acc kv)) (fptrs acc ++ ptrs_of (snd kv)).
  Proof.
    destruct kv as [name field]. cbn [fst snd].
    destruct (merge_field_cases first acc name field) as [[-> Hk] | [x [-> Hx]]].
    - apply incl_appl, incl_refl.
    - eapply incl_tran; [apply update_fptrs |].
      apply incl_app; [apply incl_appl, incl_refl |].
      eapply incl_tran; [exact Hx |].
      apply incl_app; [apply incl_appr, incl_refl |].
      apply incl_appl. apply lookup_fptrs.
  Qed.

  Lemma fold_merge_field_keys first model : forall acc,
    map fst (fold_left (merge_field peq first) model acc) = fold_left add_key (map fst model) (map fst acc).
  Proof.
    induction model as [|kv r IH]; intros acc; simpl; [reflexivity |].
    rewrite IH, merge_field_keys. reflexivity.
  Qed.
  Lemma fold_merge_field_ptrs first model : forall acc,
    incl (fptrs (fold_left (merge_field peq first) model acc)) (fptrs acc ++ fptrs model).
  Proof.
    induction model as [|kv r IH]; intros acc; simpl.
    - rewrite app_nil_r. apply incl_refl.
    - eapply incl_tran; [apply IH |].
      apply incl_app.
      + eapply incl_tran; [apply merge_field_ptrs |].
        apply incl_app; [apply incl_appl, incl_refl |].
        apply incl_appr, incl_appl, incl_refl.
      + apply incl_appr, incl_appr, incl_refl.
  Qed.

  Lemma merge_step_keys first acc model :
    map fst (snd (merge_step peq (first, acc) model)) = fold_left add_key (map fst model) (map fst acc).
  Proof.
    unfold merge_step. simpl. rewrite map_map. rewrite <- (fold_merge_field_keys first).
    apply map_ext. intros kt. destruct (_ && _); reflexivity.
  Qed.
  Lemma merge_step_ptrs first acc model :
    incl (fptrs (snd (merge_step peq (first, acc) model))) (fptrs acc ++ fptrs model).
  Proof.
    unfold merge_step. simpl.
    eapply incl_tran; [| apply (fold_merge_field_ptrs first model acc)].
    generalize (fold_left (merge_field peq first) model acc). intros l.
    induction l as [|kt r IH]; simpl; [apply incl_refl |].
    apply incl_app; [| apply incl_appr, IH].
    apply incl_appl. destruct (_ && _); simpl; rewrite ?wrap_opt_ptrs; apply incl_refl.
  Qed.

  Lemma fold_merge_step_keys sets : forall st,
    map fst (snd (fold_left (merge_step peq) sets st)) =
    fold_left add_key (flat_map (fun fs : fields => map fst fs) sets) (map fst (snd st)).
  Proof.
    induction sets as [|s r IH]; intros [first acc]; cbn [fold_left flat_map]; [reflexivity |].
    rewrite IH. rewrite fold_left_app. f_equal. apply merge_step_keys.
  Qed.
  Lemma fold_merge_step_ptrs sets : forall st,
    incl (fptrs (snd (fold_left (merge_step peq) sets st))) (fptrs (snd st) ++ flat_map fptrs sets).
  Proof.
    induction sets as [|s r IH]; intros [first acc]; cbn [fold_left flat_map snd].
    - rewrite app_nil_r. apply incl_refl.
    - eapply incl_tran; [apply IH |].
      apply incl_app; [| apply incl_appr, incl_appr, incl_refl].
      eapply incl_tran; [apply merge_step_ptrs |].
      apply incl_app; [apply incl_appl, incl_refl | apply incl_appr, incl_appl, incl_refl].
  Qed.

  (* (K1) the key list of a merge: first-occurrence order of all keys *)
  Theorem merge_field_sets_keys sets :
    map fst (merge_field_sets peq sets) = dedup_keys (flat_map (fun fs : fields => map fst fs) sets).
  Proof.
    unfold merge_field_sets. rewrite fold_merge_step_keys. simpl. rewrite fold_add_key. reflexivity.
  Qed.
  Theorem merge_field_sets_has_key sets k :
    has_key k (merge_field_sets peq sets) = existsb (has_key k) sets.
  Proof.
    apply eq_true_iff_eq. rewrite has_key_In, merge_field_sets_keys, dedup_keys_In.
    rewrite existsb_exists, in_flat_map. split; intros [s [Hs Hk]]; exists s; split; auto; apply has_key_In; auto.
  Qed.
  (* (K2) *)
  Theorem merge_field_sets_ptrs sets :
    incl (fptrs (merge_field_sets peq sets)) (flat_map fptrs sets).
  Proof. unfold merge_field_sets. apply (fold_merge_step_ptrs sets (true, [])). Qed.
End MergeLemmas.

(* ------------------------------------------------------------------ *)
(* (4) K1 / K2 for Optimize.v                                          *)
(* ------------------------------------------------------------------ *)
Ltac in_tac :=
  repeat match goal with
  | H : In _ (_ ++ _) |- _ => apply in_app_or in H; destruct H as [H | H]
  | H : In _ [] |- _ => destruct H
  | H : In _ (ptrs_of TNull) |- _ => destruct H
  | H : _ \/ _ |- _ => destruct H as [H | H]
  end;
  rewrite ?in_app_iff; timeout 20 auto 12.

Lemma remove_first_incl {A} (f : A -> bool) l : incl (remove_first f l) l.
Proof.
  induction l as [|x r IH]; simpl; [apply incl_refl |].
  destruct (f x); [apply incl_tl, incl_refl |].
  intros y [-> | Hy]; [left; reflexivity | right; apply IH, Hy].
Qed.
Lemma filter_incl {A} (f : A -> bool) l : incl (filter f l) l.
Proof. intros x Hx. apply filter_In in Hx. timeout 20 tauto. Qed.

(* externally named versions of the two local fixpoints of optimize *)
Fixpoint opt_list (f : ty -> option ty) (l : list ty) : option (list ty) :=
  match l with
  | [] => Some []
  | x :: r => match f x, opt_list f r with Some x', Some r' => Some (x' :: r') | _, _ => None end
  end.
Fixpoint opt_flds (f : ty -> option ty) (l : fields) : option fields :=
  match l with
  | [] => Some []
  | (k, x) :: r => match f x, opt_flds f r with Some x', Some r' => Some ((k, x') :: r') | _, _ => None end
  end.

Lemma opt_list_ptrs f : (forall x x', f x = Some x' -> incl (ptrs_of x') (ptrs_of x)) ->
  forall l l', opt_list f l = Some l' -> incl (tptrs l') (tptrs l).
Proof.
  intros Hf. induction l as [|x r IH]; intros l' H; simpl in H.
  - injection H as <-. apply incl_refl.
  - destruct (f x) as [x'|] eqn:Ex; [| discriminate].
    destruct (opt_list f r) as [r'|] eqn:Er; [| discriminate].
    injection H as <-. simpl. apply incl_app; [apply incl_appl, (Hf _ _ Ex) | apply incl_appr, IH; reflexivity].
Qed.
Lemma opt_flds_ptrs f : (forall x x', f x = Some x' -> incl (ptrs_of x') (ptrs_of x)) ->
  forall l l', opt_flds f l = Some l' -> incl (fptrs l') (fptrs l).
Proof.
  intros Hf. induction l as [|[k x] r IH]; intros l' H; simpl in H.
  - injection H as <-. apply incl_refl.
  - destruct (f x) as [x'|] eqn:Ex; [| discriminate].
    destruct (opt_flds f r) as [r'|] eqn:Er; [| discriminate].
    injection H as <-. simpl. apply incl_app; [apply incl_appl, (Hf _ _ Ex) | apply incl_appr, IH; reflexivity].
Qed.
Lemma opt_flds_keys f : forall l l', opt_flds f l = Some l' -> map fst l' = map fst l.
Proof.
  induction l as [|[k x] r IH]; intros l' H; simpl in H.
  - injection H as <-. reflexivity.
  - destruct (f x) as [x'|] eqn:Ex; [| discriminate].
    destruct (opt_flds f r) as [r'|] eqn:Er; [| discriminate].
    injection H as <-. simpl. f_equal. apply IH. reflexivity.
Qed.

(* the D32 work-list: members_deep keeps exactly the pointers of a type, in order *)
Lemma members_deep_union us : members_deep (TUnion us) = flat_map members_deep us.
Proof. simpl. induction us as [|x r IH]; simpl; [reflexivity | now rewrite IH]. Qed.
Lemma members_deep_tptrs t : tptrs (members_deep t) = ptrs_of t.
Proof.
  induction t as [| | | | | | p | o ls | t IH | t IH | t IH | ts IH | fs IH | i] using ty_ind2;
    try (simpl; rewrite ?app_nil_r; reflexivity).
  - simpl. exact IH.
  - rewrite members_deep_union, ptrs_of_union. unfold tptrs.
    induction IH as [|x r Hx Hr IH]; simpl; [reflexivity |].
    rewrite flat_map_app. fold (tptrs (members_deep x)). rewrite Hx. f_equal. exact IH.
Qed.
Lemma members_deep_flat_tptrs ts : tptrs (flat_map members_deep ts) = tptrs ts.
Proof.
  induction ts as [|x r IH]; simpl; [reflexivity |].
  rewrite tptrs_app, members_deep_tptrs, IH. reflexivity.
Qed.

Section OptLemmas.
  Variable registry : list pseudo.
  Variable replaces : list (pseudo * pseudo).
  Variable peq : N -> N -> bool.

  Definition cats_ptrs (st : cats) : list N :=
    let '(strs, objs, lists, dicts, other) := st in
    tptrs strs ++ flat_map fptrs objs ++ tptrs lists ++ tptrs dicts ++ tptrs other.

  Lemma split_step_ptrs st item i :
    In i (cats_ptrs (split_step registry st item)) -> In i (cats_ptrs st) \/ In i (ptrs_of item).
  Proof.
    destruct st as [[[[strs objs] lists] dicts] other]. unfold split_step.
    destruct item as [| | | | | | p | o ls | x | x | x | ts | fs | j];
      [ | | | | | | | | destruct x as [| | | | | | p | o ls | x | x | x | ts | fs | j] | | | | | ];
      cbn [in_reg]; try destruct (pmem _ registry);
      unfold cats_ptrs; rewrite ?tptrs_app, ?flat_map_app; cbn [tptrs flat_map];
      intros H; in_tac.
  Qed.

  Lemma fold_split_step_ptrs ts : forall st i,
    In i (cats_ptrs (fold_left (split_step registry) ts st)) -> In i (cats_ptrs st) \/ In i (tptrs ts).
  Proof.
    induction ts as [|t r IH]; intros st i H; simpl in H; [auto |].
    apply IH in H as [H | H].
    - apply split_step_ptrs in H as [H | H]; [auto |]. right. simpl. apply in_or_app. auto.
    - right. simpl. apply in_or_app. auto.
  Qed.

  Lemma str_result_ptrs strs : tptrs (str_result replaces strs) = [].
  Proof.
    unfold str_result. destruct (existsb is_str strs); [reflexivity |].
    destruct strs; [reflexivity |].
    destruct (resolve replaces _ _) as [|p [|q r]]; reflexivity.
  Qed.

  Theorem regroup_ptrs ts : incl (tptrs (regroup registry replaces peq ts)) (tptrs ts).
  Proof.
    unfold regroup. pose proof (fold_split_step_ptrs (flat_map members_deep ts) ([], [], [], [], [])) as H.
    rewrite members_deep_flat_tptrs in H.
    destruct (fold_left (split_step registry) (flat_map members_deep ts) ([], [], [], [], []))
      as [[[[strs objs] lists] dicts] other].
    assert (H' : forall i, In i (cats_ptrs (strs, objs, lists, dicts, other)) -> In i (tptrs ts)).
    { intros i Hi. destruct (H i Hi) as [[] | Hi']. exact Hi'. }
    clear H. unfold cats_ptrs in H'.
    intros i Hi. rewrite !tptrs_app, str_result_ptrs, app_nil_r in Hi.
    apply H'. clear H'.
    apply in_app_or in Hi as [Hi | Hi]; [apply in_app_or in Hi as [Hi | Hi];
                                         [apply in_app_or in Hi as [Hi | Hi] |] |].
    - assert (Ho : In i (tptrs other)).
      { destruct (_ && _); [| exact Hi].
        revert Hi. apply tptrs_incl_sub. apply remove_first_incl. }
      in_tac.
    - destruct objs as [|o objs']; [destruct Hi |].
      cbn [tptrs flat_map] in Hi. rewrite app_nil_r, ptrs_of_obj in Hi.
      apply merge_field_sets_ptrs in Hi. in_tac.
    - destruct lists as [|o lists']; [destruct Hi |].
      cbn [tptrs flat_map] in Hi. rewrite app_nil_r in Hi.
      apply (dunion_ptrs (o :: lists')) in Hi. in_tac.
    - destruct dicts as [|o dicts']; [destruct Hi |].
      cbn [tptrs flat_map] in Hi. rewrite app_nil_r in Hi.
      apply (dunion_ptrs (o :: dicts')) in Hi. in_tac.
  Qed.

  Lemma finish_tail_ptrs (l : list ty) :
    incl (ptrs_of
      (let types := if existsb is_unknown l && existsb (fun t => negb (is_unknown t) && negb (is_null t)) l
                    then remove_first is_unknown l else l in
       let optional := existsb is_null types in
       let types := filter (fun x => negb (is_null x)) types in
       let m := union1 types in
       if optional then TOpt m else m)) (tptrs l).
  Proof.
    cbn zeta.
    match goal with |- context [if ?c then remove_first is_unknown l else l] =>
      set (l1 := if c then remove_first is_unknown l else l);
      assert (H1 : incl l1 l) by (unfold l1; destruct c; [apply remove_first_incl | apply incl_refl]) end.
    set (l2 := filter (fun x => negb (is_null x)) l1).
    assert (H2 : incl l2 l) by (eapply incl_tran; [apply filter_incl | exact H1]).
    assert (H3 : incl (ptrs_of (union1 l2)) (tptrs l)).
    { eapply incl_tran; [apply union1_ptrs | apply tptrs_incl_sub, H2]. }
    destruct (existsb is_null l1); exact H3.
  Qed.

  Theorem finish_ptrs types t : finish types = Some t -> incl (ptrs_of t) (tptrs types).
  Proof.
    unfold finish. destruct types as [|x [|y r]]; [discriminate | |].
    - intros H. injection H as <-. simpl. rewrite app_nil_r. apply incl_refl.
    - intros H. injection H as <-. apply (finish_tail_ptrs (x :: y :: r)).
  Qed.

  Lemma optimize_S fuel t :
    optimize registry replaces peq (S fuel) t =
    let f := optimize registry replaces peq fuel in
    match t with
    | TObj fs => option_map TObj (opt_flds f fs)
    | TOpt x => match f x with Some (TOpt y) => Some (TOpt y) | Some y => Some (TOpt y) | None => None end
    | TList x => option_map TList (f x)
    | TDict x => option_map TDict (f x)
    | TLit o ls => Some (if o || match ls with [] => true | _ => false end then TStr else t)
    | TUnion ts => match opt_list f (regroup registry replaces peq ts) with
                   | None => None | Some types => finish types end
    | _ => Some t
    end.
  Proof.
    assert (EL : forall l,
      (fix go (l : list ty) : option (list ty) :=
         match l with
         | [] => Some []
         | x :: r => match optimize registry replaces peq fuel x, go r with
                     | Some x', Some r' => Some (x' :: r') | _, _ => None end
         end) l = opt_list (optimize registry replaces peq fuel) l).
    { induction l as [|x r IH]; [reflexivity |]. rewrite IH. reflexivity. }
    assert (EF : forall l,
      (fix go (l : fields) : option fields :=
         match l with
         | [] => Some []
         | (k, x) :: r => match optimize registry replaces peq fuel x, go r with
                          | Some x', Some r' => Some ((k, x') :: r') | _, _ => None end
         end) l = opt_flds (optimize registry replaces peq fuel) l).
    { induction l as [|[k x] r IH]; [reflexivity |]. rewrite IH. reflexivity. }
    destruct t; try reflexivity.
    - cbn zeta. rewrite <- EL. reflexivity.
    - cbn zeta. rewrite <- EF. reflexivity.
  Qed.

  (* (K2) optimize only drops or keeps pointers *)
  Theorem optimize_ptrs fuel : forall t t',
    optimize registry replaces peq fuel t = Some t' -> incl (ptrs_of t') (ptrs_of t).
  Proof.
    induction fuel as [|fuel IH]; intros t t' H; [discriminate |].
    rewrite optimize_S in H. cbn zeta in H.
    destruct t as [| | | | | | p | o ls | x | x | x | ts | fs | j];
      try (injection H as <-; apply incl_refl).
    - injection H as <-. destruct (o || _); apply incl_refl.
    - destruct (optimize registry replaces peq fuel x) as [y|] eqn:E; [| discriminate].
      specialize (IH _ _ E). destruct y; injection H as <-; exact IH.
    - destruct (optimize registry replaces peq fuel x) as [y|] eqn:E; [| discriminate].
      injection H as <-. exact (IH _ _ E).
    - destruct (optimize registry replaces peq fuel x) as [y|] eqn:E; [| discriminate].
      injection H as <-. exact (IH _ _ E).
    - destruct (opt_list _ _) as [types|] eqn:E; [| discriminate].
      apply finish_ptrs in H. eapply incl_tran; [exact H |].
      eapply incl_tran; [apply (opt_list_ptrs _ IH _ _ E) |].
      rewrite ptrs_of_union. apply regroup_ptrs.
    - destruct (opt_flds _ _) as [fs'|] eqn:E; [| discriminate].
      injection H as <-. rewrite !ptrs_of_obj. apply (opt_flds_ptrs _ IH _ _ E).
  Qed.

  (* (K1) optimize_fields keeps the key list; (K2) and drops or keeps pointers *)
  Theorem optimize_fields_keys fuel fs fs' :
    optimize_fields registry replaces peq fuel fs = Some fs' -> map fst fs' = map fst fs.
  Proof.
    unfold optimize_fields. destruct fuel as [|fuel]; [discriminate |].
    rewrite optimize_S. cbn zeta.
    destruct (opt_flds _ _) as [l|] eqn:E; [| discriminate].
    intros H. injection H as <-. apply (opt_flds_keys _ _ _ E).
  Qed.
  Theorem optimize_fields_ptrs fuel fs fs' :
    optimize_fields registry replaces peq fuel fs = Some fs' -> incl (fptrs fs') (fptrs fs).
  Proof.
    unfold optimize_fields.
    destruct (optimize registry replaces peq fuel (TObj fs)) as [t|] eqn:E; [| discriminate].
    destruct t; try discriminate. intros H. injection H as ->.
    apply optimize_ptrs in E. rewrite !ptrs_of_obj in E. exact E.
  Qed.
End OptLemmas.

(* ------------------------------------------------------------------ *)
(* (5) K2 for rename                                                   *)
(* ------------------------------------------------------------------ *)
Definition ren_idx (mbs : list N) (new : N) (p : N) : N := if memN p mbs then new else p.

Theorem rename_ptrs mbs new t : ptrs_of (rename mbs new t) = map (ren_idx mbs new) (ptrs_of t).
Proof.
  induction t as [| | | | | | p | o ls | t IH | t IH | t IH | ts IH | fs IH | i] using ty_ind2;
    try reflexivity; try exact IH.
  - cbn [rename]. rewrite !ptrs_of_union. unfold tptrs.
    induction IH as [|x r Hx Hr IH]; simpl; [reflexivity |].
    rewrite map_app, Hx, IH. reflexivity.
  - cbn [rename]. rewrite !ptrs_of_obj. unfold fptrs.
    induction IH as [|x r Hx Hr IH]; simpl; [reflexivity |].
    rewrite map_app, Hx, IH. reflexivity.
  - simpl. unfold ren_idx. destruct (memN i mbs); reflexivity.
Qed.
Lemma rename_fields_ptrs mbs new (fs : fields) :
  fptrs (map (fun kv => (fst kv, rename mbs new (snd kv))) fs) = map (ren_idx mbs new) (fptrs fs).
Proof.
  unfold fptrs. induction fs as [|kv r IH]; simpl; [reflexivity |].
  rewrite map_app, rename_ptrs, IH. reflexivity.
Qed.
Lemma rename_fields_keys mbs new (fs : fields) :
  map fst (map (fun kv => (fst kv, rename mbs new (snd kv))) fs) = map fst fs.
Proof. rewrite map_map. reflexivity. Qed.

Lemma memN_In x s : memN x s = true <-> In x s.
Proof.
  unfold memN. rewrite existsb_exists. split.
  - intros [y [Hy E]]. apply N.eqb_eq in E. congruence.
  - intros H. exists x. split; auto. apply N.eqb_refl.
Qed.
Lemma memN_false x s : memN x s = false <-> ~ In x s.
Proof. rewrite <- memN_In. destruct (memN x s); split; congruence. Qed.

Print Assumptions dedup_keys_cons.
Print Assumptions mk_union_ptrs.
Print Assumptions regroup_ptrs.
Print Assumptions finish_ptrs.
Print Assumptions merge_field_sets_keys.
Print Assumptions merge_field_sets_has_key.
Print Assumptions merge_field_sets_ptrs.
Print Assumptions optimize_ptrs.
Print Assumptions optimize_fields_keys.
Print Assumptions rename_ptrs.

(* NOT PROVED: nothing in this file. *)
