From Coq Require Import List Bool Arith NArith Lia.
From J2M.Model Require Import Base Union Merge Optimize.
From J2M.Sem Require Import NF.
Import ListNotations.

(* ------------------------------------------------------------------ *)
(* 0. Reflection of the boolean equalities                             *)
Lemma str_eqb_eq a b : str_eqb a b = true <-> a = b.
Proof. unfold str_eqb. destruct (list_eq_dec N.eq_dec a b); split; congruence. Qed.
Lemma strs_eqb_eq a b : strs_eqb a b = true <-> a = b.
Proof. unfold strs_eqb. destruct (list_eq_dec (list_eq_dec N.eq_dec) a b); split; congruence. Qed.
Lemma pseudo_eqb_eq p q : pseudo_eqb p q = true <-> p = q.
Proof. destruct p, q; simpl; split; congruence. Qed.

Lemma ty_eqb_eq : forall a b, ty_eqb a b = true <-> a = b.
Proof.
  induction a using ty_ind2; destruct b; simpl; try (split; congruence).
  - rewrite pseudo_eqb_eq. split; congruence.
  - rewrite andb_true_iff, eqb_true_iff, strs_eqb_eq. split; [intros [-> ->]; reflexivity | intros E; inversion E; auto].
  - rewrite IHa. split; congruence.
  - rewrite IHa. split; congruence.
  - rewrite IHa. split; congruence.
  - match goal with |- ?f ts ts0 = true <-> _ => assert (E : forall ys, f ts ys = true <-> ts = ys) end.
    { induction H as [|x r Hx Hr IH]; intros [|y ys]; try (split; congruence).
      rewrite andb_true_iff, Hx, IH. split; [intros [-> ->]; reflexivity | intros E; inversion E; auto]. }
    rewrite E. split; congruence.
  - match goal with |- ?f fs fs0 = true <-> _ => assert (E : forall ys, f fs ys = true <-> fs = ys) end.
    { induction H as [|[k x] r Hx Hr IH]; intros [|[k' y] ys]; try (split; congruence).
      simpl in Hx. rewrite !andb_true_iff, Hx, IH, str_eqb_eq.
      split; [intros [[-> ->] ->]; reflexivity | intros E; inversion E; auto]. }
    rewrite E. split; congruence.
  - rewrite N.eqb_eq. split; congruence.
Qed.

(* ------------------------------------------------------------------ *)
(* 1. Lists: membership, duplicates, counting                           *)
Lemma existsb_ty_eqb t u : existsb (ty_eqb t) u = true <-> In t u.
Proof.
  rewrite existsb_exists. split.
  - intros [x [Hi He]]. apply ty_eqb_eq in He. subst. exact Hi.
  - intros Hi. exists t. split; [exact Hi | apply ty_eqb_eq; reflexivity].
Qed.
Lemma existsb_ty_eqb_false t u : existsb (ty_eqb t) u = false <-> ~ In t u.
Proof.
  rewrite <- existsb_ty_eqb. destruct (existsb (ty_eqb t) u); split; congruence.
Qed.
Lemma nodupb_NoDup l : nodupb l = true <-> NoDup l.
Proof.
  induction l as [|x r IH]; simpl.
  - split; [constructor | reflexivity].
  - rewrite andb_true_iff, negb_true_iff, existsb_ty_eqb_false, IH. split.
    + intros [A B]. constructor; assumption.
    + intros H. inversion H; subst. split; assumption.
Qed.

Lemma count_app {A} (f : A -> bool) a b : count f (a ++ b) = count f a + count f b.
Proof. unfold count. rewrite filter_app, app_length. reflexivity. Qed.
Lemma count_cons {A} (f : A -> bool) x l : count f (x :: l) = (if f x then 1 else 0) + count f l.
Proof. unfold count. simpl. destruct (f x); reflexivity. Qed.
Lemma count_zero {A} (f : A -> bool) l : (forall x, In x l -> f x = false) -> count f l = 0.
Proof.
  induction l as [|x r IH]; intros H; [reflexivity|].
  rewrite count_cons, (H x (or_introl eq_refl)), IH; [reflexivity|].
  intros y Hy. apply H. right. exact Hy.
Qed.
Lemma count_pos {A} (f : A -> bool) l x : In x l -> f x = true -> 1 <= count f l.
Proof.
  induction l as [|y r IH]; intros Hi Hf; [destruct Hi|].
  rewrite count_cons. destruct Hi as [->|Hi]; [rewrite Hf; lia|]. specialize (IH Hi Hf). lia.
Qed.

(* ------------------------------------------------------------------ *)
(* 2. Analysis of mk_union                                              *)
Definition nonlit (t : ty) : bool := negb (is_lit t).
Definition ded (l u : list ty) : list ty := fold_left add_unique l u.
Definition ins_all (l ls : list str) : list str := fold_left (fun acc s => insert_sorted s acc) l ls.
Definition lit_step (st : bool * list str) (t : ty) : bool * list str :=
  let '(ul, ls) := st in
  match t with
  | TLit o l => if negb ul then (false, ls) else if o then (false, ls) else (true, ins_all l ls)
  | _ => ((if is_str t then false else ul), ls)
  end.

Lemma union_fold : forall F u ul ls,
  fold_left union_step F (u, ul, ls) =
  (ded (filter nonlit F) u, fst (fold_left lit_step F (ul, ls)), snd (fold_left lit_step F (ul, ls))).
Proof.
  induction F as [|a F IH]; intros u ul ls; [reflexivity|].
  destruct a; simpl; try (rewrite IH; reflexivity).
  destruct ul; simpl; [destruct overflow; simpl|]; rewrite IH; reflexivity.
Qed.

Lemma In_add_unique x u t : In x (add_unique u t) <-> In x u \/ x = t.
Proof.
  unfold add_unique. destruct (existsb (ty_eqb t) u) eqn:E.
  - apply existsb_ty_eqb in E. split; [auto | intros [H| ->]; assumption].
  - rewrite in_app_iff. simpl. split; [intros [H|[H|[]]]; auto | intros [H|H]; auto].
Qed.
Lemma In_ded : forall l u x, In x (ded l u) <-> In x u \/ In x l.
Proof.
  induction l as [|a l IH]; intros u x; simpl.
  - split; [auto | intros [H|[]]; exact H].
  - unfold ded in *. simpl. rewrite IH, In_add_unique. split; [intros [[H|H]|H] | intros [H|[H|H]]]; auto.
Qed.
Lemma NoDup_snoc (u : list ty) t : NoDup u -> ~ In t u -> NoDup (u ++ [t]).
Proof.
  induction u as [|a u IH]; simpl; intros Hn Hi.
  - constructor; [intros []|constructor].
  - inversion Hn; subst. constructor.
    + rewrite in_app_iff. simpl. intros [A|[A|[]]]; [auto|]. subst. apply Hi. left. reflexivity.
    + apply IH; [assumption|]. intros A. apply Hi. right. exact A.
Qed.
Lemma NoDup_add_unique u t : NoDup u -> NoDup (add_unique u t).
Proof.
  intros H. unfold add_unique. destruct (existsb (ty_eqb t) u) eqn:E; [exact H|].
  apply existsb_ty_eqb_false in E.
  apply NoDup_snoc; assumption.
Qed.
Lemma NoDup_ded : forall l u, NoDup u -> NoDup (ded l u).
Proof.
  induction l as [|a l IH]; intros u H; [exact H|].
  unfold ded in *. simpl. apply IH. apply NoDup_add_unique. exact H.
Qed.

Lemma In_filter_nonlit x F : In x (filter nonlit F) <-> In x F /\ is_lit x = false.
Proof. rewrite filter_In. unfold nonlit. rewrite negb_true_iff. reflexivity. Qed.

(* the flag stays true only if no str and no overflowed literal was met *)
Lemma lit_fold_true : forall F ul ls,
  fst (fold_left lit_step F (ul, ls)) = true ->
  ul = true /\ forall t, In t F -> is_str t = false /\ (forall l, t <> TLit true l).
Proof.
  induction F as [|a F IH]; intros ul ls H; cbn [fold_left] in H.
  - split; [exact H | intros t []].
  - destruct (lit_step (ul, ls) a) as [ul1 ls1] eqn:E.
    destruct (IH _ _ H) as [U1 HF]. subst ul1.
    assert (ul = true /\ is_str a = false /\ forall l, a <> TLit true l) as [U [S O]].
    { destruct a; simpl in E; inversion E; subst; try (repeat split; congruence).
      destruct ul; simpl in E; [|inversion E].
      destruct overflow; [inversion E|]. repeat split; congruence. }
    split; [exact U|]. intros t [<-|Hi]; [split; assumption | apply HF; exact Hi].
Qed.

Lemma ins_all_nonempty : forall l ls, ls <> [] -> ins_all l ls <> [].
Proof.
  induction l as [|s l IH]; intros ls H; [exact H|].
  unfold ins_all in *. simpl. apply IH.
  destruct ls as [|x r]; [congruence|]. simpl. destruct (str_cmp s x); congruence.
Qed.
Lemma ins_all_nonempty' l ls : l <> [] -> ins_all l ls <> [].
Proof.
  destruct l as [|s l]; [congruence|]. intros _. unfold ins_all. simpl. apply ins_all_nonempty.
  destruct ls as [|x r]; simpl; [congruence|]. destruct (str_cmp s x); congruence.
Qed.
(* the collected literal set is non-empty as soon as one non-empty, non-overflowed literal is met with the flag on *)
Lemma lit_fold_nonempty : forall F ul ls, ls <> [] -> snd (fold_left lit_step F (ul, ls)) <> [].
Proof.
  induction F as [|a F IH]; intros ul ls H; cbn [fold_left]; [exact H|].
  destruct (lit_step (ul, ls) a) as [ul1 ls1] eqn:E. apply IH.
  destruct a; simpl in E; inversion E; subst; try exact H.
  destruct ul; simpl in E; [|inversion E; subst; exact H].
  destruct overflow; inversion E; subst; [exact H|]. apply ins_all_nonempty. exact H.
Qed.

Definition mk_u (ts : list ty) : list ty := ded (filter nonlit (flatten_union ts)) [].
Definition mk_ul (ts : list ty) : bool := fst (fold_left lit_step (flatten_union ts) (true, [])).
Definition mk_ls (ts : list ty) : list str := snd (fold_left lit_step (flatten_union ts) (true, [])).

Lemma mk_union_cases ts :
  (mk_union ts = mk_u ts /\ mk_ul ts = true /\ mk_ls ts = []) \/
  (mk_union ts = mk_u ts ++ [TLit false (mk_ls ts)] /\ mk_ul ts = true /\ mk_ls ts <> [] /\ lit_overflow (mk_ls ts) = false) \/
  (mk_union ts = add_unique (mk_u ts) TStr /\ (mk_ul ts = false \/ (mk_ls ts <> [] /\ lit_overflow (mk_ls ts) = true))).
Proof.
  unfold mk_union. rewrite union_fold. fold (mk_u ts) (mk_ul ts) (mk_ls ts).
  destruct (mk_ls ts) as [|s r] eqn:L.
  - destruct (mk_ul ts); [left; auto | right; right; auto].
  - destruct (mk_ul ts); [|right; right; auto].
    destruct (lit_overflow (s :: r)) eqn:O.
    + right. right. split; [reflexivity|]. right. split; congruence.
    + right. left. repeat split; congruence.
Qed.

Lemma mk_u_In x ts : In x (mk_u ts) <-> In x (flatten_union ts) /\ is_lit x = false.
Proof. unfold mk_u. rewrite In_ded, In_filter_nonlit. simpl. tauto. Qed.
Lemma mk_u_NoDup ts : NoDup (mk_u ts).
Proof. apply NoDup_ded. constructor. Qed.
Lemma mk_ul_true ts : mk_ul ts = true ->
  forall t, In t (flatten_union ts) -> is_str t = false /\ (forall l, t <> TLit true l).
Proof. intros H. apply (lit_fold_true _ _ _ H). Qed.

(* membership in the result *)
Lemma mk_union_In ts x : In x (mk_union ts) ->
  (In x (flatten_union ts) /\ is_lit x = false) \/ x = TStr \/
  (x = TLit false (mk_ls ts) /\ mk_ul ts = true /\ mk_ls ts <> [] /\ lit_overflow (mk_ls ts) = false
   /\ mk_union ts = mk_u ts ++ [x]).
Proof.
  destruct (mk_union_cases ts) as [[E _]|[[E [U [N O]]]|[E _]]]; rewrite E.
  - rewrite mk_u_In. auto.
  - rewrite in_app_iff, mk_u_In. simpl. intros [H|[<-|[]]]; auto. right. right. repeat split; assumption.
  - rewrite In_add_unique, mk_u_In. intros [H| ->]; auto.
Qed.

(* flat never returns a union *)
Lemma flat_no_union : forall t x, In x (flat t) -> is_union x = false.
Proof.
  induction t using ty_ind2; simpl; intros x Hx; try (destruct Hx as [<-|[]]; reflexivity).
  induction H as [|y r Hy Hr IH]; [destruct Hx|].
  apply in_app_iff in Hx. destruct Hx as [Hx|Hx]; [apply Hy; exact Hx | apply IH; exact Hx].
Qed.

(* (1a) *)
Lemma mk_union_no_union ts x : In x (mk_union ts) -> is_union x = false.
Proof.
  intros H. apply mk_union_In in H. destruct H as [[H _]|[->|[-> _]]]; try reflexivity.
  apply (flat_no_union (TUnion ts)). exact H.
Qed.
(* (1b) *)
Lemma mk_union_NoDup ts : NoDup (mk_union ts).
Proof.
  destruct (mk_union_cases ts) as [[E _]|[[E _]|[E _]]]; rewrite E.
  - apply mk_u_NoDup.
  - apply NoDup_snoc; [apply mk_u_NoDup|]. rewrite mk_u_In. simpl. intros [_ A]. discriminate.
  - apply NoDup_add_unique. apply mk_u_NoDup.
Qed.
Lemma mk_union_nodupb ts : nodupb (mk_union ts) = true.
Proof. apply nodupb_NoDup. apply mk_union_NoDup. Qed.
(* (1c) *)
Lemma mk_u_count_lit ts : count is_lit (mk_u ts) = 0.
Proof. apply count_zero. intros x Hx. apply mk_u_In in Hx. apply Hx. Qed.
Lemma mk_union_count_lit ts : count is_lit (mk_union ts) <= 1.
Proof.
  destruct (mk_union_cases ts) as [[E _]|[[E _]|[E _]]]; rewrite E.
  - rewrite mk_u_count_lit. lia.
  - rewrite count_app, mk_u_count_lit. unfold count. simpl. lia.
  - unfold add_unique. destruct (existsb (ty_eqb TStr) (mk_u ts)).
    + rewrite mk_u_count_lit. lia.
    + rewrite count_app, mk_u_count_lit. unfold count. simpl. lia.
Qed.
Lemma mk_union_lit_ok ts o ls : In (TLit o ls) (mk_union ts) -> o = false /\ ls <> [] /\ lit_overflow ls = false.
Proof.
  intros H. apply mk_union_In in H. destruct H as [[_ H]|[H|[H [_ [N [O _]]]]]]; try discriminate.
  inversion H; subst. auto.
Qed.
(* (1d) *)
Lemma mk_union_str_lit ts o ls : In TStr (mk_union ts) -> In (TLit o ls) (mk_union ts) -> False.
Proof.
  intros Hs Hl. apply mk_union_In in Hl. destruct Hl as [[_ H]|[H|[H [U [_ [_ E]]]]]]; try discriminate.
  rewrite E in Hs. apply in_app_iff in Hs. destruct Hs as [Hs|[Hs|[]]]; [|discriminate].
  apply mk_u_In in Hs. destruct Hs as [Hs _]. apply (mk_ul_true _ U) in Hs. destruct Hs as [Hs _]. discriminate.
Qed.
(* (1e) *)
Lemma mk_union_nonlit_from ts x : In x (mk_union ts) -> is_lit x = false -> In x (flatten_union ts) \/ x = TStr.
Proof.
  intros H L. apply mk_union_In in H. destruct H as [[H _]|[H|[H _]]]; auto. subst. discriminate.
Qed.
(* (1f) *)
Lemma mk_union_no_opt_ptr ts :
  (forall t, In t (flatten_union ts) -> is_opt t = false /\ is_ptr t = false) ->
  forall x, In x (mk_union ts) -> is_opt x = false /\ is_ptr x = false.
Proof.
  intros Hf x H. apply mk_union_In in H. destruct H as [[H _]|[->|[-> _]]]; auto.
Qed.

(* non-emptiness: needs that no literal met is the empty non-overflowed one *)
Lemma mk_union_nonempty ts :
  flatten_union ts <> [] ->
  (forall ls, In (TLit false ls) (flatten_union ts) -> ls <> []) ->
  mk_union ts <> [].
Proof.
  intros Hne Hl.
  destruct (mk_union_cases ts) as [[E [U L]]|[[E _]|[E _]]]; rewrite E.
  - destruct (flatten_union ts) as [|a F] eqn:EF; [congruence|].
    destruct (is_lit a) eqn:LA.
    + exfalso. destruct a; try discriminate. unfold mk_ul, mk_ls in *. rewrite EF in *.
      assert (O : overflow = false).
      { destruct (lit_fold_true _ _ _ U) as [_ H]. destruct overflow; [|reflexivity].
        exfalso. apply (proj2 (H _ (or_introl eq_refl)) ls). reflexivity. }
      subst. simpl in L. revert L. apply lit_fold_nonempty. apply ins_all_nonempty'.
      apply Hl. left. reflexivity.
    + intros Eu. assert (In a (mk_u ts)) as Hi.
      { apply mk_u_In. rewrite EF. split; [left; reflexivity | exact LA]. }
      rewrite Eu in Hi. destruct Hi.
  - intros A. apply app_eq_nil in A. destruct A as [_ A]. discriminate.
  - intros A. assert (In TStr (add_unique (mk_u ts) TStr)) as Hi by (apply In_add_unique; auto).
    rewrite A in Hi. destruct Hi.
Qed.

Lemma forallb_In {A} (f : A -> bool) l : forallb f l = true <-> forall x, In x l -> f x = true.
Proof. apply forallb_forall. Qed.

Theorem mk_union_raw_ok ts :
  (forall t, In t (flatten_union ts) -> is_opt t = false /\ is_ptr t = false) ->
  mk_union ts <> [] ->
  raw_union_ok (mk_union ts) = true.
Proof.
  intros Hf Hne. unfold raw_union_ok. rewrite !andb_true_iff. repeat split.
  - apply forallb_forall. intros x Hx. rewrite (mk_union_no_union _ _ Hx).
    destruct (mk_union_no_opt_ptr _ Hf _ Hx) as [-> ->]. reflexivity.
  - apply mk_union_nodupb.
  - apply Nat.leb_le. apply mk_union_count_lit.
  - apply forallb_forall. intros x Hx. destruct x; try reflexivity.
    destruct (mk_union_lit_ok _ _ _ Hx) as [-> [N _]]. destruct ls; [congruence|reflexivity].
  - apply negb_true_iff. apply andb_false_iff.
    destruct (existsb is_str (mk_union ts)) eqn:S; [right|left; reflexivity].
    destruct (existsb is_lit (mk_union ts)) eqn:L; [exfalso|reflexivity].
    apply existsb_exists in S. destruct S as [s [Hs Ss]]. destruct s; try discriminate.
    apply existsb_exists in L. destruct L as [l [Hl Ll]]. destruct l; try discriminate.
    eapply mk_union_str_lit; eassumption.
  - destruct (mk_union ts); [congruence|reflexivity].
Qed.
