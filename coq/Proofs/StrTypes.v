(* Proofs/StrTypes.v — property C09: string pseudo-types are detected soundly. *)
From Coq Require Import List Bool Arith NArith ZArith Lia.
From J2M.Model Require Import Base Union Merge Optimize Detect.
From J2M.Proofs Require Import Literals DictDecision.
Import ListNotations.

(* ------------------------------------------------------------------ *)
(* basics                                                              *)
(* ------------------------------------------------------------------ *)
Lemma pseudo_eqb_eq (a b : pseudo) : pseudo_eqb a b = true <-> a = b.
Proof. destruct a, b; simpl; split; intros H; try reflexivity; discriminate. Qed.

Lemma pseudo_eqb_neq (a b : pseudo) : pseudo_eqb a b = false <-> a <> b.
Proof. destruct a, b; simpl; split; intros H; try reflexivity; try discriminate; congruence. Qed.

Lemma pseudo_eqb_refl (a : pseudo) : pseudo_eqb a a = true.
Proof. destruct a; reflexivity. Qed.

Lemma pmem_In (p : pseudo) (l : list pseudo) : pmem p l = true <-> In p l.
Proof.
  unfold pmem. rewrite existsb_exists. split.
  - intros [q [Hq E]]. apply pseudo_eqb_eq in E. subst q. exact Hq.
  - intros H. exists p. split; [exact H | apply pseudo_eqb_refl].
Qed.

(* ------------------------------------------------------------------ *)
(* S1. detect_str returns the first registered type that accepts       *)
(* ------------------------------------------------------------------ *)
Lemma find_first {A} (f : A -> bool) (l : list A) (p : A) :
  find f l = Some p <-> exists pre post, l = pre ++ p :: post /\ f p = true /\ Forall (fun q => f q = false) pre.
Proof.
  induction l as [| x r IH]; simpl.
  - split; [discriminate |]. intros [pre [post [H _]]]. destruct pre; discriminate.
  - destruct (f x) eqn:E.
    + split.
      * intros H. inversion H; subst p. exists [], r. split; [reflexivity |]. split; [exact E | constructor].
      * intros [pre [post [Hl [Hp Hpre]]]]. destruct pre as [| y pre].
        -- simpl in Hl. inversion Hl. reflexivity.
        -- simpl in Hl. inversion Hl; subst y. inversion Hpre; subst. congruence.
    + rewrite IH. split.
      * intros [pre [post [Hl [Hp Hpre]]]]. exists (x :: pre), post. subst r. split; [reflexivity |].
        split; [exact Hp |]. constructor; assumption.
      * intros [pre [post [Hl [Hp Hpre]]]]. destruct pre as [| y pre].
        -- simpl in Hl. inversion Hl; subst x. congruence.
        -- simpl in Hl. inversion Hl; subst y r. inversion Hpre; subst. exists pre, post. auto.
Qed.

Lemma mk_lit_not_pseudo (ls : list str) (p : pseudo) : mk_lit ls <> TPseudo p.
Proof. unfold mk_lit. destruct (lit_overflow ls); discriminate. Qed.

Theorem detect_first_match : forall registry accepts s p,
  detect_str registry accepts s = TPseudo p <->
  exists pre post, registry = pre ++ p :: post /\ accepts p s = true /\ Forall (fun q => accepts q s = false) pre.
Proof.
  intros registry accepts s p. unfold detect_str.
  rewrite <- (find_first (fun q => accepts q s) registry p).
  destruct (find (fun q => accepts q s) registry) as [q |].
  - split; intros H; inversion H; reflexivity.
  - split; [intros H; exfalso; exact (mk_lit_not_pseudo _ _ H) | discriminate].
Qed.

(* detect_str yields a registered type that accepts the sample, or a literal *)
Corollary detect_str_cases : forall registry accepts s,
  (exists p, detect_str registry accepts s = TPseudo p /\ In p registry /\ accepts p s = true) \/
  (detect_str registry accepts s = mk_lit [s] /\ forall q, In q registry -> accepts q s = false).
Proof.
  intros registry accepts s. unfold detect_str.
  destruct (find (fun q => accepts q s) registry) as [q |] eqn:E.
  - left. exists q. split; [reflexivity |]. apply find_some in E. exact E.
  - right. split; [reflexivity |]. intros q Hq. exact (find_none _ _ E q Hq).
Qed.

(* ------------------------------------------------------------------ *)
(* S2. resolve                                                         *)
(* ------------------------------------------------------------------ *)
Section Resolve.
  Variable replaces : list (pseudo * pseudo).

  Lemma replaced_by_spec (ps : list pseudo) (t1 : pseudo) :
    replaced_by replaces ps t1 = true <-> exists t2, In t2 ps /\ t1 <> t2 /\ In (t1, t2) replaces.
  Proof.
    unfold replaced_by. rewrite existsb_exists. split.
    - intros [t2 [H2 H]]. apply andb_true_iff in H. destruct H as [Hne Hex].
      apply negb_true_iff in Hne. apply pseudo_eqb_neq in Hne.
      apply existsb_exists in Hex. destruct Hex as [[a b] [Hab E]]. simpl in E.
      apply andb_true_iff in E. destruct E as [Ea Eb].
      apply pseudo_eqb_eq in Ea. apply pseudo_eqb_eq in Eb. subst a b.
      exists t2. auto.
    - intros [t2 [H2 [Hne Hin]]]. exists t2. split; [exact H2 |].
      apply andb_true_iff. split.
      + apply negb_true_iff. apply pseudo_eqb_neq. exact Hne.
      + apply existsb_exists. exists (t1, t2). split; [exact Hin |]. simpl.
        rewrite !pseudo_eqb_refl. reflexivity.
  Qed.

  Lemma resolve_incl : forall fuel ps, incl (resolve replaces fuel ps) ps.
  Proof.
    induction fuel as [| f IH]; intros ps; simpl; [apply incl_refl |].
    destruct (existsb (replaced_by replaces ps) ps); [| apply incl_refl].
    eapply incl_tran; [apply IH |]. intros x Hx. apply filter_In in Hx. tauto.
  Qed.

  Definition acyclic : Prop := exists rank : pseudo -> nat, forall a b, In (a, b) replaces -> rank a < rank b.

  (* generic form: any preorder that contains [replaces] relates every member to a survivor *)
  Section Reach.
    Variable R : pseudo -> pseudo -> Prop.
    Hypothesis R_refl : forall a, R a a.
    Hypothesis R_trans : forall a b c, R a b -> R b c -> R a c.
    Hypothesis R_repl : forall a b, In (a, b) replaces -> R a b.
    Hypothesis Hacyc : acyclic.

    Lemma rank_bound (rank : pseudo -> nat) (ps : list pseudo) : exists M, forall x, In x ps -> rank x <= M.
    Proof.
      induction ps as [| y r [M HM]]; [exists 0; intros x [] |].
      exists (Nat.max (rank y) M). intros x [Hx | Hx]; [subst; lia |]. specialize (HM x Hx). lia.
    Qed.

    (* one round of the while loop *)
    Lemma round_reach (ps : list pseudo) (p : pseudo) :
      In p ps -> exists q, In q (filter (fun t => negb (replaced_by replaces ps t)) ps) /\ R p q.
    Proof.
      destruct Hacyc as [rank Hrank]. destruct (rank_bound rank ps) as [M HM].
      assert (G : forall n p, In p ps -> M - rank p <= n ->
                  exists q, In q (filter (fun t => negb (replaced_by replaces ps t)) ps) /\ R p q).
      { induction n as [| n IH]; intros p0 Hp0 Hn.
        - exists p0. split; [| apply R_refl]. apply filter_In. split; [exact Hp0 |].
          apply negb_true_iff. destruct (replaced_by replaces ps p0) eqn:E; [| reflexivity].
          apply replaced_by_spec in E. destruct E as [t2 [H2 [_ Hin]]].
          pose proof (Hrank _ _ Hin) as Hr. pose proof (HM t2 H2) as HM2. pose proof (HM p0 Hp0) as HM0. lia.
        - destruct (replaced_by replaces ps p0) eqn:E.
          + apply replaced_by_spec in E. destruct E as [t2 [H2 [_ Hin]]].
            pose proof (Hrank _ _ Hin) as Hr. pose proof (HM t2 H2) as HM2.
            destruct (IH t2 H2) as [q [Hq HR]]; [lia |].
            exists q. split; [exact Hq |]. eapply R_trans; [apply R_repl; exact Hin | exact HR].
          + exists p0. split; [| apply R_refl]. apply filter_In. split; [exact Hp0 |]. rewrite E. reflexivity. }
      intros Hp. apply (G (M - rank p) p Hp). lia.
    Qed.

    Lemma resolve_reach : forall fuel ps p,
      In p ps -> exists q, In q (resolve replaces fuel ps) /\ R p q.
    Proof.
      induction fuel as [| f IH]; intros ps p Hp; simpl.
      - exists p. split; [exact Hp | apply R_refl].
      - destruct (existsb (replaced_by replaces ps) ps).
        + destruct (round_reach ps p Hp) as [q [Hq HR]].
          destruct (IH _ q Hq) as [q' [Hq' HR']]. exists q'. split; [exact Hq' |].
          eapply R_trans; eassumption.
        + exists p. split; [exact Hp | apply R_refl].
    Qed.
  End Reach.

  Variable accepts : pseudo -> str -> bool.
  Definition sound : Prop := forall a b, In (a, b) replaces -> forall s, accepts a s = true -> accepts b s = true.

  Theorem resolve_sound : sound -> acyclic -> forall fuel ps p,
    In p ps -> exists q, In q (resolve replaces fuel ps) /\ forall s, accepts p s = true -> accepts q s = true.
  Proof.
    intros Hs Ha fuel ps p Hp.
    apply (resolve_reach (fun a b => forall s, accepts a s = true -> accepts b s = true)); auto.
  Qed.

  Theorem resolve_nonempty : acyclic -> forall fuel ps, ps <> [] -> resolve replaces fuel ps <> [].
  Proof.
    intros Ha fuel ps Hne. destruct ps as [| p r]; [congruence |].
    destruct (resolve_reach (fun _ _ => True)) with (fuel := fuel) (ps := p :: r) (p := p) as [q [Hq _]]; auto.
    - left. reflexivity.
    - intros E. rewrite E in Hq. destruct Hq.
  Qed.
End Resolve.

(* without acyclicity both statements are false: a 2-cycle drops both members in the same round *)
Example resolve_cyclic_empty :
  resolve [(PInt, PFloat); (PFloat, PInt)] 3 [PInt; PFloat] = [].
Proof. vm_compute. reflexivity. Qed.

Example resolve_sound_needs_acyclic :
  ~ (forall replaces accepts, sound replaces accepts -> forall fuel ps p,
       In p ps -> exists q, In q (resolve replaces fuel ps) /\ forall s, accepts p s = true -> accepts q s = true).
Proof.
  intros H.
  destruct (H [(PInt, PFloat); (PFloat, PInt)] (fun _ _ => true)) with (fuel := 3) (ps := [PInt; PFloat]) (p := PInt)
    as [q [Hq _]].
  - intros a b _ s _. reflexivity.
  - left. reflexivity.
  - vm_compute in Hq. exact Hq.
Qed.

(* ------------------------------------------------------------------ *)
(* S4                                                                  *)
(* ------------------------------------------------------------------ *)
Lemma default_replaces_acyclic : acyclic [(PInt, PFloat)].
Proof.
  exists (fun p => match p with PInt => 0 | _ => 1 end).
  intros a b [H | []]. inversion H; subst. lia.
Qed.

(* ------------------------------------------------------------------ *)
(* S3. str_result                                                      *)
(* ------------------------------------------------------------------ *)
Definition ht_str (accepts : pseudo -> str -> bool) (s : str) (t : ty) : Prop :=
  match t with TStr => True | TPseudo p => accepts p s = true | _ => False end.

Lemma In_pdedup_fold (p : pseudo) (l acc : list pseudo) :
  In p (fold_left (fun acc p => if pmem p acc then acc else acc ++ [p]) l acc) <-> In p acc \/ In p l.
Proof.
  revert acc. induction l as [| x r IH]; intros acc; simpl.
  - split; [auto | intros [H | []]; exact H].
  - rewrite IH. destruct (pmem x acc) eqn:E.
    + apply pmem_In in E. split.
      * intros [H | H]; auto.
      * intros [H | [H | H]]; auto. subst x. auto.
    + rewrite in_app_iff. simpl. split.
      * intros [[H | [H | []]] | H]; auto.
      * intros [H | [H | H]]; auto.
Qed.

Lemma In_pdedup (p : pseudo) (l : list pseudo) : In p (pdedup l) <-> In p l.
Proof. unfold pdedup. rewrite In_pdedup_fold. split; [intros [[] | H]; exact H | auto]. Qed.

Lemma In_pseudos_of (p : pseudo) (strs : list ty) : In p (pseudos_of strs) <-> In (TPseudo p) strs.
Proof.
  unfold pseudos_of. rewrite In_pdedup, in_flat_map. split.
  - intros [t [Ht Hp]]. destruct t; simpl in Hp; try destruct Hp as [Hp | []]; try destruct Hp. subst. exact Ht.
  - intros H. exists (TPseudo p). split; [exact H | left; reflexivity].
Qed.

Lemma existsb_is_str_false (strs : list ty) : existsb is_str strs = false -> ~ In TStr strs.
Proof.
  intros E H. assert (existsb is_str strs = true) by (apply existsb_exists; exists TStr; auto). congruence.
Qed.

Theorem str_result_sound : forall registry replaces accepts strs,
  sound replaces accepts -> acyclic replaces ->
  Forall (fun t => in_reg registry t = true) strs ->
  forall t s, In t strs -> ht_str accepts s t ->
  exists r, In r (str_result replaces strs) /\ ht_str accepts s r.
Proof.
  intros registry replaces accepts strs Hs Ha _ t s Ht Hht. unfold str_result.
  destruct (existsb is_str strs) eqn:Estr; [exists TStr; simpl; auto |].
  destruct strs as [| t0 strs0]; [destruct Ht |]. remember (t0 :: strs0) as strs eqn:Estrs.
  destruct t as [| | | | | | p | o l | x | x | x | us | fs | i]; simpl in Hht; try contradiction.
  - exfalso. exact (existsb_is_str_false _ Estr Ht).
  - apply In_pseudos_of in Ht.
    destruct (resolve_sound replaces accepts Hs Ha (S (length (pseudos_of strs))) _ p Ht) as [q [Hq Hacc]].
    destruct (resolve replaces (S (length (pseudos_of strs))) (pseudos_of strs)) as [| q0 [| q1 rest]].
    + destruct Hq.
    + destruct Hq as [Hq | []]. subst q0. exists (TPseudo q). split; [left; reflexivity |]. simpl. auto.
    + exists TStr. simpl. auto.
Qed.

Theorem str_result_shape : forall replaces strs,
  (str_result replaces strs = [] <-> strs = []) /\
  (str_result replaces strs = [] \/ str_result replaces strs = [TStr] \/
   exists p, str_result replaces strs = [TPseudo p] /\ In (TPseudo p) strs).
Proof.
  intros replaces strs. unfold str_result.
  destruct (existsb is_str strs) eqn:Estr.
  - split; [| right; left; reflexivity]. split; [discriminate |]. intros E. subst strs. discriminate.
  - destruct strs as [| t0 strs0]; [split; [tauto | left; reflexivity] |].
    remember (t0 :: strs0) as strs eqn:Estrs.
    pose proof (resolve_incl replaces (S (length (pseudos_of strs))) (pseudos_of strs)) as Hincl.
    destruct (resolve replaces (S (length (pseudos_of strs))) (pseudos_of strs)) as [| q0 [| q1 rest]].
    + split; [split; [discriminate | subst; discriminate] | right; left; reflexivity].
    + split; [split; [discriminate | subst; discriminate] |]. right. right. exists q0. split; [reflexivity |].
      apply In_pseudos_of. apply Hincl. left. reflexivity.
    + split; [split; [discriminate | subst; discriminate] | right; left; reflexivity].
Qed.

(* ------------------------------------------------------------------ *)
(* S5. disabled (unregistered) pseudo-types never appear               *)
(* ------------------------------------------------------------------ *)
Fixpoint mentions (p : pseudo) (t : ty) : bool :=
  match t with
  | TPseudo q => pseudo_eqb p q
  | TOpt x | TList x | TDict x => mentions p x
  | TUnion ts => (fix go (l : list ty) : bool := match l with [] => false | x :: r => mentions p x || go r end) ts
  | TObj fs => (fix go (l : list (str * ty)) : bool :=
                  match l with [] => false | (_, x) :: r => mentions p x || go r end) fs
  | _ => false
  end.

Section Mentions.
  Variable p : pseudo.

  Definition nom (t : ty) : Prop := mentions p t = false.
  Definition nomf (fs : fields) : Prop := Forall (fun kv => nom (snd kv)) fs.

  Lemma mentions_union ts : mentions p (TUnion ts) = existsb (mentions p) ts.
  Proof. simpl. induction ts as [| x r IH]; simpl; [reflexivity |]. rewrite IH. reflexivity. Qed.

  Lemma mentions_obj fs : mentions p (TObj fs) = existsb (fun kv => mentions p (snd kv)) fs.
  Proof. simpl. induction fs as [| [k x] r IH]; simpl; [reflexivity |]. rewrite IH. reflexivity. Qed.

  Lemma nom_union ts : nom (TUnion ts) <-> Forall nom ts.
  Proof. unfold nom. rewrite mentions_union. apply existsb_false_Forall. Qed.

  Lemma nom_obj fs : nom (TObj fs) <-> nomf fs.
  Proof. unfold nom, nomf. rewrite mentions_obj. apply existsb_false_Forall. Qed.

  Lemma nom_opt t : nom (TOpt t) <-> nom t.   Proof. reflexivity. Qed.
  Lemma nom_list t : nom (TList t) <-> nom t. Proof. reflexivity. Qed.
  Lemma nom_dict t : nom (TDict t) <-> nom t. Proof. reflexivity. Qed.

  Lemma nom_lit_like t : is_lit t = true -> nom t.
  Proof. destruct t; simpl; intros H; try discriminate. reflexivity. Qed.

  (* ---- unions ---- *)
  Lemma flat_union us : flat (TUnion us) = flat_map flat us.
  Proof. simpl. induction us as [| x r IH]; simpl; [reflexivity |]. rewrite IH. reflexivity. Qed.

  Lemma nom_flat : forall t, nom t -> Forall nom (flat t).
  Proof.
    induction t as [| | | | | | q | o l | x IH | x IH | x IH | us IH | fs IH | i] using ty_ind2; intros H;
      try (simpl; constructor; [exact H | constructor]).
    rewrite flat_union. apply nom_union in H.
    apply Forall_forall. intros y Hy. apply in_flat_map in Hy. destruct Hy as [x [Hx Hy]].
    rewrite Forall_forall in IH, H. specialize (IH x Hx (H x Hx)).
    rewrite Forall_forall in IH. exact (IH y Hy).
  Qed.

  Lemma mk_union_members ts x :
    In x (mk_union ts) -> In x (flatten_union ts) \/ x = TStr \/ is_lit x = true.
  Proof.
    unfold mk_union.
    destruct (fold_left union_step (flatten_union ts) ([], true, [])) as [[u ul] ls] eqn:E.
    assert (HU : forall y, In y u -> In y (flatten_union ts)).
    { intros y Hy. destruct (union_fold_incl _ _ _ _ _ _ _ y E Hy) as [[] | H]. exact H. }
    assert (HS : In x (add_unique u TStr) -> In x (flatten_union ts) \/ x = TStr \/ is_lit x = true).
    { intros H. apply In_add_unique in H. destruct H as [H | H]; auto. }
    destruct ls as [| s ls0].
    - destruct ul; auto.
    - destruct ul; auto. destruct (lit_overflow (s :: ls0)); auto.
      intros H. apply in_app_iff in H. destruct H as [H | [H | []]]; auto. subst x. right. right. reflexivity.
  Qed.

  Lemma nom_mk_union ts : Forall nom ts -> Forall nom (mk_union ts).
  Proof.
    intros H. apply Forall_forall. intros x Hx. apply mk_union_members in Hx.
    destruct Hx as [Hx | [Hx | Hx]].
    - apply nom_union in H. apply nom_flat in H. rewrite Forall_forall in H. apply H. exact Hx.
    - subst x. reflexivity.
    - apply nom_lit_like. exact Hx.
  Qed.

  Lemma nom_dunion ts : Forall nom ts -> nom (dunion ts).
  Proof. intros H. unfold dunion. apply nom_union. apply nom_mk_union. exact H. Qed.

  Lemma nom_union1 ts : Forall nom ts -> nom (union1 ts).
  Proof.
    intros H. apply nom_mk_union in H. unfold union1.
    destruct (mk_union ts) as [| x [| y r]]; [reflexivity | inversion H; assumption | apply nom_union; exact H].
  Qed.

  Lemma nom_elem_type ts : Forall nom ts -> nom (elem_type ts).
  Proof.
    intros H. unfold elem_type. destruct ts as [| x [| y r]]; [reflexivity | inversion H; assumption |].
    apply (nom_union1 (x :: y :: r)) in H. exact H.
  Qed.
End Mentions.

(* ---- detect ---- *)
Section MentionsDetect.
  Variable p : pseudo.
  Variable registry : list pseudo.
  Variable accepts : pseudo -> str -> bool.
  Variable n_regex : nat.
  Variable key_matches : nat -> str -> bool.
  Variable dict_fields : list str.
  Hypothesis Hdisabled : ~ In p registry.

  Notation detect' := (detect registry accepts n_regex key_matches dict_fields).
  Notation convert' := (convert registry accepts n_regex key_matches dict_fields).

  Lemma detect_str_no_disabled (s : str) : mentions p (detect_str registry accepts s) = false.
  Proof.
    destruct (detect_str_cases registry accepts s) as [[q [E [Hq _]]] | [E _]]; rewrite E.
    - simpl. apply pseudo_eqb_neq. intros Hpq. subst q. contradiction.
    - unfold mk_lit. destruct (lit_overflow [s]); reflexivity.
  Qed.

  Theorem detect_no_disabled : forall v cd, mentions p (detect' cd v) = false.
  Proof.
    induction v as [| b | z | f | s | l IH | kvs IH] using json_ind2; intros cd; try reflexivity.
    - apply detect_str_no_disabled.
    - rewrite detect_arr. apply nom_list. apply nom_elem_type.
      apply Forall_forall. intros t Ht. apply in_map_iff in Ht. destruct Ht as [x [Hx Hin]]. subst t.
      rewrite Forall_forall in IH. apply IH. exact Hin.
    - destruct kvs as [| kv0 r]; [reflexivity |].
      remember (kv0 :: r) as kvs eqn:E. assert (Hne : kvs <> []) by (subst; discriminate).
      rewrite (detect_obj registry accepts n_regex key_matches dict_fields cd kvs Hne).
      rewrite Forall_forall in IH.
      destruct (cd && negb (all_keys_match n_regex key_matches (map fst kvs))).
      + apply nom_obj. unfold nomf, convert. apply Forall_forall. intros kt Hkt.
        apply in_map_iff in Hkt. destruct Hkt as [kv [Hkv Hin]]. subst kt. simpl. apply IH. exact Hin.
      + apply nom_dict. apply nom_elem_type.
        apply Forall_forall. intros t Ht. rewrite map_map in Ht.
        apply in_map_iff in Ht. destruct Ht as [kv [Hkv Hin]]. subst t. apply IH. exact Hin.
  Qed.

  Lemma convert_no_disabled (kvs : list (str * json)) : nomf p (convert' kvs).
  Proof.
    unfold nomf, convert. apply Forall_forall. intros kt Hkt.
    apply in_map_iff in Hkt. destruct Hkt as [kv [Hkv Hin]]. subst kt. simpl. apply detect_no_disabled.
  Qed.
End MentionsDetect.

(* ---- merge_field_sets ---- *)
Section MentionsMerge.
  Variable p : pseudo.
  Variable ptr_eq : N -> N -> bool.

  Lemma nomf_lookup (fs : fields) (k : str) (t : ty) : nomf p fs -> lookup k fs = Some t -> nom p t.
  Proof.
    induction fs as [| [k' t'] r IH]; simpl; intros H E; [discriminate |].
    inversion H; subst. destruct (str_eqb k k'); [inversion E; subst; assumption | apply IH; assumption].
  Qed.

  Lemma nomf_update (fs : fields) (k : str) (t : ty) : nomf p fs -> nom p t -> nomf p (update k t fs).
  Proof.
    induction fs as [| [k' t'] r IH]; simpl; intros H Ht.
    - constructor; [exact Ht | constructor].
    - inversion H; subst. destruct (str_eqb k k'); constructor; auto. apply IH; assumption.
  Qed.

  Lemma nom_members (t : ty) : nom p t -> Forall (nom p) (members t).
  Proof.
    intros H. destruct t; simpl; try (constructor; [exact H | constructor]). apply nom_union. exact H.
  Qed.

  Lemma nom_wrap_opt (t : ty) : nom p t -> nom p (wrap_opt t).
  Proof. intros H. unfold wrap_opt. destruct (is_opt t); exact H. Qed.

  Lemma nom_union1_members (a b : ty) : nom p a -> nom p b -> nom p (union1 (members a ++ members b)).
  Proof. intros Ha Hb. apply nom_union1. apply Forall_app. split; apply nom_members; assumption. Qed.

  Lemma nomf_merge_field (first : bool) (acc : fields) (kv : str * ty) :
    nomf p acc -> nom p (snd kv) -> nomf p (merge_field ptr_eq first acc kv).
  Proof.
    destruct kv as [name field]. simpl. intros Hacc Hf. unfold merge_field.
    destruct (lookup name acc) as [fo |] eqn:El.
    - pose proof (nomf_lookup _ _ _ Hacc El) as Hfo.
      destruct fo as [| | | | | | q | o l | fo' | x | x | us | fs | i];
        try (destruct (py_eq ptr_eq _ field); [exact Hacc |];
             destruct field as [| | | | | | q' | o' l' | f' | x' | x' | us' | fs' | i'];
             try (apply nomf_update; [exact Hacc | apply nom_union1_members; assumption]);
             destruct (py_eq ptr_eq _ f');
             apply nomf_update; try assumption; apply nom_union1_members; assumption).
      destruct (py_eq ptr_eq (TOpt fo') field || py_eq ptr_eq fo' field); [exact Hacc |].
      apply nomf_update; [exact Hacc |]. apply nom_opt. apply nom_union1_members; assumption.
    - apply nomf_update; [exact Hacc |]. destruct (first || is_opt field); [exact Hf | exact Hf].
  Qed.

  Lemma nomf_fold_merge_field (first : bool) (model acc : fields) :
    nomf p acc -> nomf p model -> nomf p (fold_left (merge_field ptr_eq first) model acc).
  Proof.
    revert acc. induction model as [| kv r IH]; intros acc Hacc Hm; simpl; [exact Hacc |].
    inversion Hm; subst. apply IH; [apply nomf_merge_field; assumption | assumption].
  Qed.

  Lemma nomf_merge_step (first : bool) (acc model : fields) :
    nomf p acc -> nomf p model -> nomf p (snd (merge_step ptr_eq (first, acc) model)).
  Proof.
    intros Hacc Hm. unfold merge_step. cbn [snd].
    pose proof (nomf_fold_merge_field first model acc Hacc Hm) as H.
    unfold nomf in *. apply Forall_forall. intros kt Hkt. apply in_map_iff in Hkt.
    destruct Hkt as [kt0 [E Hin]]. rewrite Forall_forall in H. specialize (H kt0 Hin).
    subst kt. destruct (has_key (fst kt0) acc && negb (has_key (fst kt0) model)); [| exact H].
    simpl. apply nom_wrap_opt. exact H.
  Qed.

  Theorem merge_field_sets_no_disabled (sets : list fields) :
    Forall (nomf p) sets -> nomf p (merge_field_sets ptr_eq sets).
  Proof.
    unfold merge_field_sets.
    assert (G : forall sets st, Forall (nomf p) sets -> nomf p (snd st) ->
                  nomf p (snd (fold_left (merge_step ptr_eq) sets st))).
    { clear sets. induction sets as [| m r IH]; intros [first acc] Hs Hst; simpl; [exact Hst |].
      inversion Hs; subst. apply IH; [assumption |].
      apply (nomf_merge_step first acc m); assumption. }
    intros H. apply G; [exact H | constructor].
  Qed.
End MentionsMerge.

(* ---- str_result / regroup / finish / optimize ---- *)
Section MentionsOptimize.
  Variable p : pseudo.
  Variable registry : list pseudo.
  Variable replaces : list (pseudo * pseudo).
  Variable ptr_eq : N -> N -> bool.

  Lemma str_result_no_disabled (strs : list ty) : Forall (nom p) strs -> Forall (nom p) (str_result replaces strs).
  Proof.
    intros H. destruct (str_result_shape replaces strs) as [_ [E | [E | [q [E Hq]]]]]; rewrite E.
    - constructor.
    - constructor; [reflexivity | constructor].
    - constructor; [| constructor]. rewrite Forall_forall in H. apply H. exact Hq.
  Qed.

  Lemma Forall_remove_first {A} (P : A -> Prop) (f : A -> bool) (l : list A) :
    Forall P l -> Forall P (remove_first f l).
  Proof.
    induction l as [| x r IH]; simpl; intros H; [constructor |].
    inversion H; subst. destruct (f x); [assumption | constructor; auto].
  Qed.

  Definition catsP (st : cats) : Prop :=
    let '(strs, objs, lists, dicts, other) := st in
    Forall (nom p) strs /\ Forall (nomf p) objs /\ Forall (nom p) lists /\ Forall (nom p) dicts /\ Forall (nom p) other.

  Lemma Forall_snoc {A} (P : A -> Prop) (l : list A) (x : A) : Forall P l -> P x -> Forall P (l ++ [x]).
  Proof. intros Hl Hx. apply Forall_app. split; [exact Hl | constructor; [exact Hx | constructor]]. Qed.

  Lemma catsP_split_step (st : cats) (item : ty) : catsP st -> nom p item -> catsP (split_step registry st item).
  Proof.
    destruct st as [[[[strs objs] lists] dicts] other]. intros [H1 [H2 [H3 [H4 H5]]]] Hi.
    assert (Hnull : Forall (nom p) (other ++ [TNull])) by (apply Forall_snoc; [exact H5 | reflexivity]).
    assert (G : forall item0 other0, nom p item0 -> Forall (nom p) other0 ->
              catsP (match item0 with
                     | TObj f => (strs, objs ++ [f], lists, dicts, other0)
                     | TList x => (strs, objs, lists ++ [x], dicts, other0)
                     | TDict x => (strs, objs, lists, dicts ++ [x], other0)
                     | _ => if in_reg registry item0 then (strs ++ [item0], objs, lists, dicts, other0)
                            else (strs, objs, lists, dicts, other0 ++ [item0])
                     end)).
    { intros item0 other0 Hi0 Ho0.
      destruct item0 as [| | | | | | q | o l | x | x | x | us | fs | i];
        try (destruct (in_reg registry _); unfold catsP; repeat split; try assumption; apply Forall_snoc; assumption).
      - unfold catsP; repeat split; try assumption. apply Forall_snoc; assumption.
      - unfold catsP; repeat split; try assumption. apply Forall_snoc; assumption.
      - unfold catsP; repeat split; try assumption. apply Forall_snoc; [assumption | apply nom_obj; assumption]. }
    unfold split_step.
    destruct item as [| | | | | | q | o l | x | x | x | us | fs | i]; try exact (G _ other Hi H5).
    exact (G x (other ++ [TNull]) Hi Hnull).
  Qed.

  Lemma catsP_fold (ts : list ty) (st : cats) :
    catsP st -> Forall (nom p) ts -> catsP (fold_left (split_step registry) ts st).
  Proof.
    revert st. induction ts as [| t r IH]; intros st Hst Hts; simpl; [exact Hst |].
    inversion Hts; subst. apply IH; [apply catsP_split_step; assumption | assumption].
  Qed.

  (* the work-list of [regroup] (D32 repair): its elements mention no more pseudo-types than the members *)
  Lemma members_deep_union us : members_deep (TUnion us) = flat_map members_deep us.
  Proof. simpl. induction us as [| x r IH]; simpl; [reflexivity |]. rewrite IH. reflexivity. Qed.

  Lemma nom_members_deep : forall t, nom p t -> Forall (nom p) (members_deep t).
  Proof.
    induction t as [| | | | | | q | o l | x IH | x IH | x IH | us IH | fs IH | i] using ty_ind2; intros H;
      try (simpl; constructor; [exact H | constructor]).
    - (* TOpt *) simpl. constructor; [reflexivity |]. apply IH. exact H.
    - (* TUnion *) rewrite members_deep_union. apply nom_union in H.
      apply Forall_forall. intros y Hy. apply in_flat_map in Hy. destruct Hy as [x [Hx Hy]].
      rewrite Forall_forall in IH, H. specialize (IH x Hx (H x Hx)).
      rewrite Forall_forall in IH. exact (IH y Hy).
  Qed.

  Lemma nom_flat_members_deep (ts : list ty) : Forall (nom p) ts -> Forall (nom p) (flat_map members_deep ts).
  Proof.
    intros H. apply Forall_forall. intros y Hy. apply in_flat_map in Hy. destruct Hy as [x [Hx Hy]].
    rewrite Forall_forall in H. pose proof (nom_members_deep x (H x Hx)) as Hd.
    rewrite Forall_forall in Hd. exact (Hd y Hy).
  Qed.

  Theorem regroup_no_disabled (ts : list ty) : Forall (nom p) ts -> Forall (nom p) (regroup registry replaces ptr_eq ts).
  Proof.
    intros Hts. apply nom_flat_members_deep in Hts. unfold regroup.
    pose proof (catsP_fold (flat_map members_deep ts) ([], [], [], [], [])) as Hc.
    destruct (fold_left (split_step registry) (flat_map members_deep ts) ([], [], [], [], []))
      as [[[[strs objs] lists] dicts] other].
    destruct Hc as [H1 [H2 [H3 [H4 H5]]]]; [unfold catsP; repeat split; constructor | exact Hts |].
    repeat (apply Forall_app; split).
    - destruct (existsb (ty_eqb TInt) other && existsb (ty_eqb TFloat) other);
        [apply Forall_remove_first; exact H5 | exact H5].
    - destruct objs; [constructor |]. constructor; [| constructor].
      apply nom_obj. apply merge_field_sets_no_disabled. exact H2.
    - destruct lists; [constructor |]. constructor; [| constructor]. apply nom_list. apply nom_dunion. exact H3.
    - destruct dicts; [constructor |]. constructor; [| constructor]. apply nom_dict. apply nom_dunion. exact H4.
    - apply str_result_no_disabled. exact H1.
  Qed.

  Theorem finish_no_disabled (types : list ty) (t : ty) :
    Forall (nom p) types -> finish types = Some t -> nom p t.
  Proof.
    intros H E. unfold finish in E.
    destruct types as [| x [| y r]]; [discriminate | inversion E; subst; inversion H; assumption |].
    remember (x :: y :: r) as types eqn:Et.
    set (types1 := if existsb is_unknown types &&
                      existsb (fun t0 => negb (is_unknown t0) && negb (is_null t0)) types
                   then remove_first is_unknown types else types) in E.
    assert (H1 : Forall (nom p) types1).
    { unfold types1. destruct (_ && _); [apply Forall_remove_first; exact H | exact H]. }
    assert (H2 : nom p (union1 (filter (fun x0 => negb (is_null x0)) types1))).
    { apply nom_union1. apply Forall_forall. intros z Hz. apply filter_In in Hz.
      rewrite Forall_forall in H1. apply H1. tauto. }
    inversion E; subst t. destruct (existsb is_null types1); exact H2.
  Qed.

  (* the two local fixpoints of [optimize], over an arbitrary element function *)
  Definition opt_list_of (g : ty -> option ty) : list ty -> option (list ty) :=
    fix go (l : list ty) : option (list ty) :=
      match l with
      | [] => Some []
      | x :: r => match g x, go r with Some x', Some r' => Some (x' :: r') | _, _ => None end
      end.
  Definition opt_fields_of (g : ty -> option ty) : fields -> option fields :=
    fix go (l : fields) : option fields :=
      match l with
      | [] => Some []
      | (k, x) :: r => match g x, go r with Some x', Some r' => Some ((k, x') :: r') | _, _ => None end
      end.

  Lemma optimize_S_union fuel ts :
    optimize registry replaces ptr_eq (S fuel) (TUnion ts) =
    match opt_list_of (optimize registry replaces ptr_eq fuel) (regroup registry replaces ptr_eq ts) with
    | None => None | Some types => finish types end.
  Proof. reflexivity. Qed.

  Lemma optimize_S_obj fuel fs :
    optimize registry replaces ptr_eq (S fuel) (TObj fs) =
    option_map TObj (opt_fields_of (optimize registry replaces ptr_eq fuel) fs).
  Proof. reflexivity. Qed.

  Lemma opt_list_of_nom (g : ty -> option ty) :
    (forall x x', g x = Some x' -> nom p x -> nom p x') ->
    forall l l', opt_list_of g l = Some l' -> Forall (nom p) l -> Forall (nom p) l'.
  Proof.
    intros Hg. induction l as [| x r IH]; intros l' E H; simpl in E.
    - inversion E. constructor.
    - inversion H; subst. destruct (g x) as [x' |] eqn:Ex; [| discriminate].
      destruct (opt_list_of g r) as [r' |] eqn:Er; [| discriminate].
      inversion E; subst l'. constructor; [eapply Hg; eassumption | apply IH; auto].
  Qed.

  Lemma opt_fields_of_nom (g : ty -> option ty) :
    (forall x x', g x = Some x' -> nom p x -> nom p x') ->
    forall l l', opt_fields_of g l = Some l' -> nomf p l -> nomf p l'.
  Proof.
    intros Hg. induction l as [| [k x] r IH]; intros l' E H; simpl in E.
    - inversion E. constructor.
    - inversion H; subst. destruct (g x) as [x' |] eqn:Ex; [| discriminate].
      destruct (opt_fields_of g r) as [r' |] eqn:Er; [| discriminate].
      inversion E; subst l'. constructor; [simpl; eapply Hg; eassumption | apply IH; auto].
  Qed.

  Theorem optimize_no_disabled : forall fuel t t',
    optimize registry replaces ptr_eq fuel t = Some t' -> nom p t -> nom p t'.
  Proof.
    induction fuel as [| fuel IH]; intros t t' E H; [discriminate |].
    destruct t as [| | | | | | q | o l | x | x | x | us | fs | i];
      try (simpl in E; inversion E; subst t'; exact H).
    - (* TLit *) simpl in E. inversion E; subst t'.
      destruct (o || match l with [] => true | _ :: _ => false end); reflexivity.
    - (* TOpt *) simpl in E.
      destruct (optimize registry replaces ptr_eq fuel x) as [y |] eqn:Ex; [| discriminate].
      pose proof (IH x y Ex H) as Hy.
      destruct y; inversion E; subst t'; exact Hy.
    - (* TList *) simpl in E.
      destruct (optimize registry replaces ptr_eq fuel x) as [y |] eqn:Ex; [| discriminate].
      inversion E; subst t'. exact (IH x y Ex H).
    - (* TDict *) simpl in E.
      destruct (optimize registry replaces ptr_eq fuel x) as [y |] eqn:Ex; [| discriminate].
      inversion E; subst t'. exact (IH x y Ex H).
    - (* TUnion *) rewrite optimize_S_union in E.
      destruct (opt_list_of (optimize registry replaces ptr_eq fuel) (regroup registry replaces ptr_eq us))
        as [types |] eqn:El; [| discriminate].
      apply (finish_no_disabled types t'); [| exact E].
      apply (opt_list_of_nom _ IH _ _ El). apply regroup_no_disabled. apply nom_union. exact H.
    - (* TObj *) rewrite optimize_S_obj in E.
      destruct (opt_fields_of (optimize registry replaces ptr_eq fuel) fs) as [fs' |] eqn:Ef; [| discriminate].
      inversion E; subst t'. apply nom_obj. apply (opt_fields_of_nom _ IH _ _ Ef). apply nom_obj. exact H.
  Qed.
End MentionsOptimize.

(* ---- the whole pipeline ---- *)
Theorem generate_no_disabled :
  forall p registry replaces accepts n_regex key_matches dict_fields fuel samples fs,
  ~ In p registry ->
  generate registry replaces accepts n_regex key_matches dict_fields fuel samples = Some fs ->
  mentions p (TObj fs) = false.
Proof.
  intros p registry replaces accepts n_regex key_matches dict_fields fuel samples fs Hp E.
  unfold generate, optimize_fields in E.
  destruct (optimize registry replaces N.eqb fuel
              (TObj (merge_field_sets N.eqb (map (convert registry accepts n_regex key_matches dict_fields) samples))))
    as [t |] eqn:Eo; [| discriminate].
  destruct t; try discriminate. inversion E; subst fs0.
  apply (optimize_no_disabled p registry replaces N.eqb fuel _ _ Eo).
  apply nom_obj. apply merge_field_sets_no_disabled.
  apply Forall_forall. intros m Hm. apply in_map_iff in Hm. destruct Hm as [kvs [Em _]]. subst m.
  apply convert_no_disabled. exact Hp.
Qed.

Print Assumptions detect_first_match.
Print Assumptions resolve_incl.
Print Assumptions resolve_sound.
Print Assumptions resolve_nonempty.
Print Assumptions resolve_sound_needs_acyclic.
Print Assumptions str_result_sound.
Print Assumptions str_result_shape.
Print Assumptions default_replaces_acyclic.
Print Assumptions detect_no_disabled.
Print Assumptions merge_field_sets_no_disabled.
Print Assumptions regroup_no_disabled.
Print Assumptions finish_no_disabled.
Print Assumptions optimize_no_disabled.
Print Assumptions generate_no_disabled.
