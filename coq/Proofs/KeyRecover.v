(* Proofs/KeyRecover.v — C04 / C11: whenever a field is renamed, the ORIGINAL key is recoverable exactly from the emitted
   field body.  The body holds alias=<json_escape_raw key> (pydantic / sqlmodel: Props/C04.v, C04_pydantic_alias) or
   metadata={'J2M_ORIGINAL_FIELD': <py_repr key>} (attrs / dataclasses, metadata option); both literals evaluate (Python
   string-literal semantics, Model/PyLex.v, tied to CPython by X-pylex) to the key, for every key text. *)
From Coq Require Import List Bool Arith NArith String.
From J2M.Model Require Import Base Framework Emit PyLex.
From J2M.Proofs Require Import PyLexProps.
Import ListNotations.

Theorem alias_literal_recoverable : forall name : str, py_unescape (json_escape_raw name) = Some name.
Proof. exact unescape_json_raw_all. Qed.

Theorem metadata_literal_recoverable : forall (is_printable_c : N -> bool) (name : str),
  (forall c, In c name -> (c < 1114112)%N) ->
  metadata_kw is_printable_c name = (s_ "metadata", s_ "{'J2M_ORIGINAL_FIELD': " ++ py_repr is_printable_c name ++ s_ "}")
  /\ py_unescape (py_repr is_printable_c name) = Some name.
Proof. intros ip name H. split; [reflexivity|]. apply unescape_repr. exact H. Qed.
Print Assumptions alias_literal_recoverable.
Print Assumptions metadata_literal_recoverable.
