(* Proofs/Sound.v — soundness half of C01: generated models accept every sample they were inferred from.

   Map of the file (numbers = the proof obligations of the task):
   (1) ty_eqb_eq, lookup/update lemmas.
   --  htg accepts mf uk: the relation ht of Sem/HasType.v with one switch: uk = false switches the rule for
       TUnknown off (strict reading: Any only types the elements of empty containers, so it has no value of its
       own to keep).  htg true = ht (htg_true_iff); htg uk is included in ht (htg_ht).  All pipeline lemmas are
       proved for every uk.
   (2) mk_union_sound, union1_sound, dunion_sound               (+ _ht corollaries for the official ht).
   (3) py_eq_sound (py_eq of Model/Merge.v)                      side conditions okt0 a, okt0 b.
       The union clause of py_eq is the exact sorted(xs) == sorted(ys) of the implementation (Model/PyStr.v);
       py_eq_union_imp: it implies the two-sided matching (the former model), which is all the proofs use;
       py_eq_union_sorted, py_eq_refl_raw, py_eq_order_sensitive, py_eq_order_free document the clause.
   (4) merge_field_sets_sound, merge_member_sound                side conditions okf (all sets), no_opt (later sets);
       merge_opt_refuted shows no_opt is needed for the merge alone.
   (5) resolve_sound, str_result_sound                           need an acyclicity certificate (rank);
       resolve_cyclic_refuted shows why.
   (6) optimize_sound_strict (strict semantics, side condition okT t); optimize_sound (official ht, side conditions
       okT t, plain t); optimize_any_refuted / optimize_any_refuted_raw: false for ht without plain.
   (7) detect_sound, convert_sound for the official ht (detect_sound_g, convert_sound_g for every uk).
   (8) generate_sound for the official ht, arbitrary mf; only extra hypothesis: the rank certificate.
   (d) registry stage, merge followed by optimize, no no_opt condition: merge_member_sound_h (merge alone, valid up
       to Optional members hidden in required unions), optimize_hopt (such a union is Optional after optimize),
       merge_optimize_sound (strict reading), merge_optimize_sound_ht (official ht, Any-free sets and models);
       merge_optimize_any_refuted: false for the official ht when Any occurs.
   D32 repair (regroup folds over flat_map members_deep): members_deep_* facts before hopt; regroup_sound runs
   split_fold on the work-list; hopt / regroup_K carry the extra condition "work-list has two items"
   (regroup_K_old_refuted); every exported statement is unchanged. *)
From Coq Require Import List Bool Arith NArith ZArith Lia Permutation Sorted.
From J2M.Model Require Import Base Union PyStr Merge Optimize Detect.
From J2M.Sem Require Import HasType NF.
Import ListNotations.

(* ------------------------------------------------------------------ *)
(* (1) equality tests, lookup / update                                 *)
(* ------------------------------------------------------------------ *)
Lemma str_eqb_refl k : str_eqb k k = true.
Proof. unfold str_eqb. destruct list_eq_dec; congruence. Qed.
Lemma str_eqb_true a b : str_eqb a b = true -> a = b.
Proof. unfold str_eqb. destruct list_eq_dec; congruence. Qed.
Lemma str_eqb_false a b : str_eqb a b = false -> a <> b.
Proof. unfold str_eqb. destruct list_eq_dec; congruence. Qed.
Lemma str_eqb_neq a b : a <> b -> str_eqb a b = false.
Proof. unfold str_eqb. destruct list_eq_dec; congruence. Qed.
Lemma strs_eqb_true a b : strs_eqb a b = true -> a = b.
Proof. unfold strs_eqb. destruct list_eq_dec; congruence. Qed.
Lemma pseudo_eqb_true p q : pseudo_eqb p q = true -> p = q.
Proof. destruct p, q; simpl; congruence. Qed.
Lemma pseudo_eqb_refl p : pseudo_eqb p p = true.
Proof. destruct p; reflexivity. Qed.

Lemma ty_eqb_eq : forall a b, ty_eqb a b = true -> a = b.
Proof.
  induction a using ty_ind2; destruct b; simpl; try discriminate; intros E; auto.
  - apply pseudo_eqb_true in E. congruence.
  - apply andb_prop in E as [E1 E2]. apply Bool.eqb_prop in E1. apply strs_eqb_true in E2. congruence.
  - f_equal; auto.
  - f_equal; auto.
  - f_equal; auto.
  - f_equal. revert ts0 E. induction H as [|x r Hx Hr IH]; destruct ts0; try discriminate; auto.
    intros E. apply andb_prop in E as [E1 E2]. f_equal; auto.
  - f_equal. revert fs0 E. induction H as [|[k x] r Hx Hr IH]; destruct fs0 as [|[k' y] r']; try discriminate; auto.
    intros E. apply andb_prop in E as [E12 E3]. apply andb_prop in E12 as [E1 E2].
    apply str_eqb_true in E1. subst. f_equal; auto. f_equal. apply Hx, E2.
  - apply N.eqb_eq in E. congruence.
Qed.

Lemma lookup_update_same {A} k (t : A) fs : lookup k (update k t fs) = Some t.
Proof.
  induction fs as [|[k' t'] r IH]; simpl.
  - now rewrite str_eqb_refl.
  - destruct (str_eqb k k') eqn:E; simpl; rewrite ?E; auto.
Qed.
Lemma lookup_update_other {A} k k' (t : A) fs : k' <> k -> lookup k' (update k t fs) = lookup k' fs.
Proof.
  intros N. induction fs as [|[k0 t0] r IH]; simpl.
  - destruct (str_eqb k' k) eqn:E; auto. apply str_eqb_true in E. congruence.
  - destruct (str_eqb k k0) eqn:E; simpl.
    + apply str_eqb_true in E. subst. destruct (str_eqb k' k0) eqn:E'; auto.
      apply str_eqb_true in E'. congruence.
    + destruct (str_eqb k' k0); auto.
Qed.
Lemma lookup_In {A} k (t : A) fs : lookup k fs = Some t -> In (k, t) fs.
Proof.
  induction fs as [|[k' t'] r IH]; simpl; [discriminate|].
  destruct (str_eqb k k') eqn:E; intros H.
  - apply str_eqb_true in E. inversion H; subst. auto.
  - auto.
Qed.
Lemma lookup_None_notin {A} k (fs : list (str * A)) : lookup k fs = None -> ~ In k (map fst fs).
Proof.
  induction fs as [|[k' t'] r IH]; simpl; [tauto|].
  destruct (str_eqb k k') eqn:E; [discriminate|]. apply str_eqb_false in E.
  intros H [H1|H1]; [congruence|]. apply IH; auto.
Qed.
Lemma lookup_notin_None {A} k (fs : list (str * A)) : ~ In k (map fst fs) -> lookup k fs = None.
Proof.
  induction fs as [|[k' t'] r IH]; simpl; [auto|].
  intros H. destruct (str_eqb k k') eqn:E.
  - apply str_eqb_true in E. subst. tauto.
  - apply IH. tauto.
Qed.
Lemma lookup_Some_in {A} k (t : A) fs : lookup k fs = Some t -> In k (map fst fs).
Proof. intros H. apply lookup_In in H. apply in_map_iff. exists (k, t). auto. Qed.
Lemma In_lookup_nodup {A} k (t : A) fs : NoDup (map fst fs) -> In (k, t) fs -> lookup k fs = Some t.
Proof.
  induction fs as [|[k' t'] r IH]; simpl; [tauto|].
  intros ND [H|H].
  - inversion H; subst. now rewrite str_eqb_refl.
  - inversion ND; subst. destruct (str_eqb k k') eqn:E.
    + apply str_eqb_true in E. subst. exfalso. apply H2. apply in_map_iff. exists (k', t). auto.
    + auto.
Qed.
Lemma map_fst_update {A} k (t : A) fs :
  map fst (update k t fs) = if has_key k fs then map fst fs else map fst fs ++ [k].
Proof.
  unfold has_key. induction fs as [|[k' t'] r IH]; simpl; auto.
  destruct (str_eqb k k') eqn:E; simpl; auto.
  rewrite IH. destruct (lookup k r); auto.
Qed.

(* ------------------------------------------------------------------ *)
(* Generalised value semantics.  [htg u]: the relation of Sem/HasType.v when u = true; when u = false the
   rule for TUnknown (Any) is switched off ("strict" semantics).  The strict reading is what makes the
   removal of Any beside a concrete member in _optimize_union sound: the values the pipeline has to keep
   are never accepted by Any alone (Any only types the elements of empty containers).                     *)
(* ------------------------------------------------------------------ *)
Section G.
  Variable accepts : pseudo -> str -> bool.
  Variable model_fields : N -> option fields.
  Variable uk : bool.
  Inductive htg : json -> ty -> Prop :=
  | GInt z : htg (JInt z) TInt
  | GIntF z : htg (JInt z) TFloat
  | GFloat f : htg (JFloat f) TFloat
  | GBool b : htg (JBool b) TBool
  | GNull : htg JNull TNull
  | GAny v : uk = true -> htg v TUnknown
  | GStr s : htg (JStr s) TStr
  | GLit s ls : In s ls -> htg (JStr s) (TLit false ls)
  | GLitO s ls : htg (JStr s) (TLit true ls)
  | GPs s p : accepts p s = true -> htg (JStr s) (TPseudo p)
  | GOptN t : htg JNull (TOpt t)
  | GOptS v t : htg v t -> htg v (TOpt t)
  | GList l t : Forall (fun v => htg v t) l -> htg (JArr l) (TList t)
  | GDict l t : Forall (fun kv => htg (snd kv) t) l -> htg (JObj l) (TDict t)
  | GUnion v ts t : In t ts -> htg v t -> htg v (TUnion ts)
  | GObj l fs :
      Forall (fun kv => exists t, lookup (fst kv) fs = Some t /\ htg (snd kv) t) l ->
      (forall k t, lookup k fs = Some t -> is_opt t = false -> In k (map fst l)) ->
      htg (JObj l) (TObj fs)
  | GPtr l i fs : model_fields i = Some fs -> htg (JObj l) (TObj fs) -> htg (JObj l) (TPtr i).
  Definition obj_okg (fs : fields) (l : list (str * json)) : Prop :=
    Forall (fun kv => exists t, lookup (fst kv) fs = Some t /\ htg (snd kv) t) l /\
    (forall k t, lookup k fs = Some t -> is_opt t = false -> In k (map fst l)).
  Definition widerg (a b : ty) : Prop := forall v, htg v a -> htg v b.
End G.

(* the generalised relation is included in the official one; with uk = true they coincide *)
Lemma htg_ht accepts mf uk : forall v t, htg accepts mf uk v t -> ht accepts mf v t.
Proof.
  induction v using json_ind2; induction t using ty_ind2; intros Hv; inversion Hv; subst;
    try discriminate;
    try (now constructor);
    try (apply HOptS; auto; fail);
    try (rewrite Forall_forall in *; eapply HUnion; eauto; fail);
    try (constructor; rewrite Forall_forall in *; eauto; fail).
  - apply HObj; auto. rewrite Forall_forall in *. intros kv Hkv.
    match goal with V : forall x, In x l -> exists t, _ |- _ => destruct (V kv Hkv) as [t [L Ht]] end.
    exists t. split; auto.
  - match goal with V : htg _ _ _ (JObj l) (TObj _) |- _ => inversion V; subst end.
    eapply HPtr; eauto. apply HObj; auto. rewrite Forall_forall in *. intros kv Hkv.
    match goal with V : forall x, In x l -> exists t, _ |- _ => destruct (V kv Hkv) as [t [L Ht]] end.
    exists t. split; auto.
Qed.

Lemma ht_htg accepts mf : forall v t, ht accepts mf v t -> htg accepts mf true v t.
Proof.
  induction v using json_ind2; induction t using ty_ind2; intros Hv; inversion Hv; subst;
    try (now constructor);
    try (apply GOptS; auto; fail);
    try (rewrite Forall_forall in *; eapply GUnion; eauto; fail);
    try (constructor; rewrite Forall_forall in *; eauto; fail).
  - apply GObj; auto. rewrite Forall_forall in *. intros kv Hkv.
    match goal with V : forall x, In x l -> exists t, _ |- _ => destruct (V kv Hkv) as [t [L Ht]] end.
    exists t. split; auto.
  - match goal with V : ht _ _ (JObj l) (TObj _) |- _ => inversion V; subst end.
    eapply GPtr; eauto. apply GObj; auto. rewrite Forall_forall in *. intros kv Hkv.
    match goal with V : forall x, In x l -> exists t, _ |- _ => destruct (V kv Hkv) as [t [L Ht]] end.
    exists t. split; auto.
Qed.
Lemma ht_none_any accepts mf : forall v t, ht accepts (fun _ => None) v t -> ht accepts mf v t.
Proof.
  induction v using json_ind2; induction t using ty_ind2; intros Hv; inversion Hv; subst;
    try discriminate;
    try (now constructor);
    try (apply HOptS; auto; fail);
    try (rewrite Forall_forall in *; eapply HUnion; eauto; fail);
    try (constructor; rewrite Forall_forall in *; eauto; fail).
  apply HObj; auto. rewrite Forall_forall in *. intros kv Hkv.
  match goal with V : forall x, In x l -> exists t, _ |- _ => destruct (V kv Hkv) as [t [L Ht]] end.
  exists t. split; auto.
Qed.

Lemma htg_true_iff accepts mf v t : htg accepts mf true v t <-> ht accepts mf v t.
Proof. split; [apply htg_ht|apply ht_htg]. Qed.
Lemma obj_okg_true_iff accepts mf fs l : obj_okg accepts mf true fs l <-> obj_ok accepts mf fs l.
Proof.
  unfold obj_okg, obj_ok. split; intros [H1 H2]; split; auto;
    (eapply Forall_impl; [|exact H1]); intros kv [t [L Ht]]; exists t; split; auto;
    now apply htg_true_iff.
Qed.

(* ------------------------------------------------------------------ *)
(* (2) union construction                                              *)
(* ------------------------------------------------------------------ *)
Lemma str_cmp_eq : forall a b, str_cmp a b = Eq -> a = b.
Proof.
  induction a as [|c a IH]; destruct b as [|d b]; simpl; try discriminate; auto.
  destruct (N.compare c d) eqn:E; try discriminate.
  apply N.compare_eq in E. intros H. f_equal; auto.
Qed.
Lemma insert_sorted_in x s : forall l, In x (insert_sorted s l) <-> x = s \/ In x l.
Proof.
  induction l as [|y r IH]; simpl.
  - intuition.
  - destruct (str_cmp s y) eqn:E; simpl.
    + apply str_cmp_eq in E. subst. intuition.
    + intuition.
    + rewrite IH. intuition.
Qed.
Lemma fold_insert_in x : forall l acc,
  In x (fold_left (fun acc s => insert_sorted s acc) l acc) <-> In x l \/ In x acc.
Proof.
  induction l as [|y r IH]; simpl; intros acc.
  - intuition.
  - rewrite IH, insert_sorted_in. intuition.
Qed.

Section Sound.
  Variable accepts : pseudo -> str -> bool.
  Variable mf : N -> option fields.
  Variable uk : bool.
  Notation ht := (htg accepts mf uk).
  Notation obj_ok := (obj_okg accepts mf uk).
  Notation wider := (widerg accepts mf uk).

  Lemma flat_sound v : forall t, ht v t -> Exists (ht v) (flat t).
  Proof.
    induction t using ty_ind2; intros Hv; try (constructor; exact Hv).
    inversion Hv; subst.
    match goal with Hi : In ?t ts, Ht : ht v ?t |- _ => revert t Hi Ht end. clear Hv.
    simpl. induction H as [|x r Hx Hr IH]; intros t Hin Ht; [inversion Hin|].
    destruct Hin as [->|Hin].
    - apply Exists_app. left. auto.
    - apply Exists_app. right. eapply IH; eauto.
  Qed.

  Lemma add_unique_keep v u t : Exists (ht v) u -> Exists (ht v) (add_unique u t).
  Proof. unfold add_unique. destruct (existsb (ty_eqb t) u); auto. intros H. apply Exists_app; auto. Qed.
  Lemma add_unique_new v u t : ht v t -> Exists (ht v) (add_unique u t).
  Proof.
    unfold add_unique. intros H. destruct (existsb (ty_eqb t) u) eqn:E.
    - apply existsb_exists in E as [x [Hx Ex]]. apply ty_eqb_eq in Ex. subst. apply Exists_exists; eauto.
    - apply Exists_app. right. constructor. auto.
  Qed.
  Lemma add_unique_has u t : In t (add_unique u t).
  Proof.
    unfold add_unique. destruct (existsb (ty_eqb t) u) eqn:E.
    - apply existsb_exists in E as [x [Hx Ex]]. apply ty_eqb_eq in Ex. subst. auto.
    - apply in_or_app. right. simpl. auto.
  Qed.

  (* invariant of the DUnion loop, relative to a value v *)
  Definition ucov (v : json) (st : list ty * bool * list str) : Prop :=
    let '(u, ul, ls) := st in
    Exists (ht v) u \/ exists s, v = JStr s /\ (ul = false \/ In s ls).

  Lemma union_step_keep v st t : ucov v st -> ucov v (union_step st t).
  Proof.
    destruct st as [[u ul] ls]. unfold ucov, union_step.
    assert (Other : Exists (ht v) u \/ (exists s, v = JStr s /\ (ul = false \/ In s ls)) ->
      Exists (ht v) (add_unique u t) \/
      (exists s, v = JStr s /\ ((if is_str t then false else ul) = false \/ In s ls))).
    { intros [H|[s [Hs H]]]; [left; now apply add_unique_keep|].
      right. exists s. split; auto. destruct H as [->|H]; auto. destruct (is_str t); auto. }
    destruct t; try exact Other.
    intros [H|[s [Hs H]]].
    - destruct (negb ul); [auto|]. destruct overflow; auto.
    - destruct ul; simpl.
      + destruct overflow.
        * right. exists s. auto.
        * destruct H as [H|H]; [discriminate|]. right. exists s. split; auto. right.
          apply fold_insert_in. auto.
      + right. exists s. auto.
  Qed.
  Lemma union_step_new v st t : ht v t -> ucov v (union_step st t).
  Proof.
    destruct st as [[u ul] ls]. unfold ucov, union_step. intros H.
    destruct t; try (left; apply add_unique_new; exact H).
    inversion H; subst.
    - destruct ul; simpl.
      + right. exists s. split; auto. right. apply fold_insert_in. auto.
      + right. exists s. auto.
    - destruct ul; simpl; right; exists s; auto.
  Qed.
  Lemma union_fold_keep v : forall l st, ucov v st -> ucov v (fold_left union_step l st).
  Proof. induction l as [|t r IH]; simpl; auto. intros st H. apply IH, union_step_keep, H. Qed.
  Lemma union_fold_sound v : forall l st, Exists (ht v) l -> ucov v (fold_left union_step l st).
  Proof.
    induction l as [|t r IH]; simpl; intros st H; [inversion H|].
    inversion H; subst.
    - apply union_fold_keep, union_step_new; auto.
    - apply IH; auto.
  Qed.

  Theorem mk_union_sound v ts : Exists (ht v) ts -> Exists (ht v) (mk_union ts).
  Proof.
    intros H.
    assert (Hf : Exists (ht v) (flatten_union ts)).
    { apply (flat_sound v (TUnion ts)). apply Exists_exists in H as [t [Hin Ht]]. econstructor; eauto. }
    clear H. unfold mk_union.
    pose proof (union_fold_sound v (flatten_union ts) ([], true, []) Hf) as C.
    destruct (fold_left union_step (flatten_union ts) ([], true, [])) as [[u ul] ls].
    unfold ucov in C. destruct C as [C|[s [-> C]]].
    - destruct ls as [|l0 lr].
      + destruct ul; auto. now apply add_unique_keep.
      + destruct ul.
        * destruct (lit_overflow (l0 :: lr)).
          -- now apply add_unique_keep.
          -- apply Exists_app; auto.
        * now apply add_unique_keep.
    - assert (S : forall u', Exists (ht (JStr s)) (add_unique u' TStr)).
      { intros u'. apply Exists_exists. exists TStr. split; [apply add_unique_has|constructor]. }
      destruct C as [->|C].
      + destruct ls; apply S.
      + destruct ls as [|l0 lr]; [inversion C|].
        destruct ul; [|apply S].
        destruct (lit_overflow (l0 :: lr)); [apply S|].
        apply Exists_app. right. constructor. constructor. exact C.
  Qed.

  Lemma ht_members v t : ht v t -> Exists (ht v) (members t).
  Proof.
    destruct t; simpl; intros H; try (constructor; exact H).
    inversion H; subst. apply Exists_exists; eauto.
  Qed.
  Lemma union1_sound v ts : Exists (ht v) ts -> ht v (union1 ts).
  Proof.
    intros H. apply mk_union_sound in H. unfold union1.
    destruct (mk_union ts) as [|x [|y r]] eqn:E.
    - inversion H.
    - inversion H; subst; auto. inversion H1.
    - apply Exists_exists in H as [t [Hin Ht]]. econstructor; eauto.
  Qed.
  Lemma dunion_sound v ts : Exists (ht v) ts -> ht v (dunion ts).
  Proof.
    intros H. apply mk_union_sound in H. unfold dunion.
    apply Exists_exists in H as [t [Hin Ht]]. econstructor; eauto.
  Qed.
  Lemma union1_wider_l a b : wider a (union1 (members a ++ members b)).
  Proof. intros v H. apply union1_sound, Exists_app. left. now apply ht_members. Qed.
  Lemma union1_wider_r a b : wider b (union1 (members a ++ members b)).
  Proof. intros v H. apply union1_sound, Exists_app. right. now apply ht_members. Qed.
  Lemma wider_opt a : wider a (TOpt a).
  Proof. intros v H. now constructor. Qed.
  Lemma wider_opt_mono a b : wider a b -> wider (TOpt a) (TOpt b).
  Proof. intros W v H. inversion H; subst; [constructor|]. apply GOptS. auto. Qed.
  Lemma wider_wrap_opt a : wider a (wrap_opt a).
  Proof. unfold wrap_opt. destruct (is_opt a); [intros v H; exact H|apply wider_opt]. Qed.
  Lemma is_opt_wrap_opt a : is_opt (wrap_opt a) = true.
  Proof. unfold wrap_opt. destruct (is_opt a) eqn:E; auto. Qed.
End Sound.

(* ------------------------------------------------------------------ *)
(* (3) Python == on metadata                                           *)
(* ------------------------------------------------------------------ *)
(* decidable well-formedness of a term for the comparison: an overflowed literal carries the empty set,
   the keys of every raw dict are unique *)
Fixpoint nodup_keys {A} (l : list (str * A)) : bool :=
  match l with [] => true | (k, _) :: r => negb (has_key k r) && nodup_keys r end.
Fixpoint okt0 (t : ty) : bool :=
  match t with
  | TLit o ls => if o then match ls with [] => true | _ => false end else match ls with [] => false | _ => true end
  | TOpt x | TList x | TDict x => okt0 x
  | TUnion ts => (fix all l := match l with [] => true | x :: r => okt0 x && all r end) ts
  | TObj fs => nodup_keys fs && (fix all (l : fields) := match l with [] => true | (_, x) :: r => okt0 x && all r end) fs
  | _ => true
  end.
Definition okf0 (fs : fields) : bool := nodup_keys fs && forallb (fun kv => okt0 (snd kv)) fs.

Lemma nodup_keys_NoDup {A} (l : list (str * A)) : nodup_keys l = true -> NoDup (map fst l).
Proof.
  induction l as [|[k x] r IH]; simpl; intros H; [constructor|].
  apply andb_prop in H as [H1 H2]. constructor; auto.
  unfold has_key in H1. destruct (lookup k r) eqn:L; [discriminate|].
  now apply lookup_None_notin.
Qed.
Lemma NoDup_nodup_keys {A} (l : list (str * A)) : NoDup (map fst l) -> nodup_keys l = true.
Proof.
  induction l as [|[k x] r IH]; simpl; intros H; auto. inversion H; subst.
  rewrite IH by auto. unfold has_key. rewrite lookup_notin_None; auto.
Qed.
Lemma okt0_union ts : okt0 (TUnion ts) = forallb okt0 ts.
Proof. simpl. induction ts as [|x r IH]; simpl; auto; try (now rewrite IH). Qed.
Lemma okt0_obj fs : okt0 (TObj fs) = okf0 fs.
Proof. unfold okf0. simpl. f_equal. induction fs as [|[k x] r IH]; simpl; auto; try (now rewrite IH). Qed.

(* ---- Python == on unions (Model/PyStr.v, Model/Merge.v): sorted(xs) == sorted(ys) with a stable sort.  The positions
   sorted_pos computed by py_eq for the members of xs are the ranks of a stable sort: pairwise different and below the
   length, hence a bijection of the positions (pigeonhole), and the sort is a permutation.  So every member of either
   side is compared with (and equal to) some member of the other side: py_go_union. ---- *)
(* order facts about str_cmp *)
Lemma scmp_refl : forall a, str_cmp a a = Eq.
Proof. induction a as [|c a IH]; simpl; auto. rewrite N.compare_refl. exact IH. Qed.
Lemma scmp_eq : forall a b, str_cmp a b = Eq -> a = b.
Proof.
  induction a as [|c a IH]; intros [|d b]; simpl; intros H; try discriminate; auto.
  destruct (N.compare c d) eqn:E; try discriminate. apply N.compare_eq in E. subst. f_equal. auto.
Qed.
Lemma scmp_opp : forall a b, str_cmp b a = CompOpp (str_cmp a b).
Proof.
  induction a as [|c a IH]; intros [|d b]; simpl; auto.
  rewrite (N.compare_antisym c d). destruct (N.compare c d); simpl; auto.
Qed.
Lemma scmp_lt_trans : forall a b c, str_cmp a b = Lt -> str_cmp b c = Lt -> str_cmp a c = Lt.
Proof.
  induction a as [|x a IH]; intros [|y b] [|z c]; simpl; intros H1 H2; try discriminate; auto.
  destruct (N.compare x y) eqn:E1; try discriminate.
  - apply N.compare_eq in E1. subst y. destruct (N.compare x z); try discriminate; eauto.
  - destruct (N.compare y z) eqn:E2; try discriminate.
    + apply N.compare_eq in E2. subst z. rewrite E1. reflexivity.
    + rewrite N.compare_lt_iff in E1, E2. assert (E3 : (x < z)%N) by lia. rewrite <- N.compare_lt_iff in E3. rewrite E3. reflexivity.
Qed.
Lemma str_eqb_iff a b : str_eqb a b = true <-> a = b.
Proof. unfold str_eqb. destruct (list_eq_dec N.eq_dec a b); split; auto; discriminate. Qed.
Lemma str_ltb_iff a b : str_ltb a b = true <-> str_cmp a b = Lt.
Proof. unfold str_ltb. destruct (str_cmp a b); split; auto; discriminate. Qed.
Lemma str_ltb_irrefl a : str_ltb a a = false.
Proof. unfold str_ltb. rewrite scmp_refl. reflexivity. Qed.
Lemma str_ltb_trans a b c : str_ltb a b = true -> str_ltb b c = true -> str_ltb a c = true.
Proof. rewrite !str_ltb_iff. apply scmp_lt_trans. Qed.

Definition kcnt (p : str -> bool) (l : list str) : nat := length (filter p l).
Lemma kcnt_app p a b : kcnt p (a ++ b) = kcnt p a + kcnt p b.
Proof. unfold kcnt. rewrite filter_app, app_length. reflexivity. Qed.
Lemma kcnt_cons p x l : kcnt p (x :: l) = (if p x then 1 else 0) + kcnt p l.
Proof. unfold kcnt. simpl. destruct (p x); reflexivity. Qed.
Lemma kcnt_le p l : kcnt p l <= length l.
Proof. unfold kcnt. induction l as [|x l IH]; simpl; auto. destruct (p x); simpl; lia. Qed.

Local Notation ltk k := (fun k' : str => str_ltb k' k).
Local Notation eqk k := (fun k' : str => str_eqb k' k).
Lemma sorted_pos_kcnt all pre k : sorted_pos all pre k = kcnt (ltk k) all + kcnt (eqk k) pre.
Proof. reflexivity. Qed.
Lemma kcnt_lt_eq_le k l : kcnt (ltk k) l + kcnt (eqk k) l <= length l.
Proof.
  induction l as [|e l IH]; simpl; auto. rewrite !kcnt_cons.
  destruct (str_ltb e k) eqn:A, (str_eqb e k) eqn:B; try lia.
  apply str_eqb_iff in B. subst. rewrite str_ltb_irrefl in A. discriminate.
Qed.
Lemma kcnt_lt_mono k k' l : str_ltb k k' = true -> kcnt (ltk k) l + kcnt (eqk k) l <= kcnt (ltk k') l.
Proof.
  intros H. induction l as [|e l IH]; simpl; auto. rewrite !kcnt_cons.
  destruct (str_ltb e k) eqn:A, (str_eqb e k) eqn:B, (str_ltb e k') eqn:C; try lia; exfalso.
  - apply str_eqb_iff in B. subst. rewrite str_ltb_irrefl in A. discriminate.
  - apply str_eqb_iff in B. subst. rewrite str_ltb_irrefl in A. discriminate.
  - rewrite (str_ltb_trans _ _ _ A H) in C. discriminate.
  - apply str_eqb_iff in B. subst. congruence.
Qed.
Lemma kcnt_lt_mono' k k' l : str_ltb k k' = true -> kcnt (ltk k) l <= kcnt (ltk k') l.
Proof. intros H. pose proof (kcnt_lt_mono k k' l H). lia. Qed.

Lemma sp_rank_bound p k r : sorted_pos (p ++ k :: r) p k < length (p ++ k :: r).
Proof.
  rewrite sorted_pos_kcnt, kcnt_app, kcnt_cons, str_ltb_irrefl, app_length. simpl.
  pose proof (kcnt_lt_eq_le k p). pose proof (kcnt_le (ltk k) r). lia.
Qed.
Lemma sp_rank_inj p k m k' r : let all := p ++ k :: m ++ k' :: r in
  sorted_pos all p k <> sorted_pos all (p ++ k :: m) k'.
Proof.
  intros all. unfold all. rewrite !sorted_pos_kcnt.
  repeat (rewrite kcnt_app || rewrite kcnt_cons). rewrite !str_ltb_irrefl.
  destruct (str_cmp k k') eqn:E.
  - apply scmp_eq in E. subst k'. rewrite str_ltb_irrefl.
    assert (B : str_eqb k k = true) by now apply str_eqb_iff. rewrite B. lia.
  - assert (L : str_ltb k k' = true) by now apply str_ltb_iff. rewrite L.
    assert (L' : str_ltb k' k = false).
    { unfold str_ltb. rewrite scmp_opp, E. reflexivity. }
    rewrite L'.
    pose proof (kcnt_lt_mono k k' p L). pose proof (kcnt_lt_mono' k k' m L). pose proof (kcnt_lt_mono' k k' r L).
    destruct (str_eqb k k'); lia.
  - assert (L : str_ltb k' k = true) by (apply str_ltb_iff; rewrite scmp_opp, E; reflexivity). rewrite L.
    assert (L' : str_ltb k k' = false).
    { unfold str_ltb. rewrite E. reflexivity. }
    rewrite L'.
    assert (B : str_eqb k k' = false).
    { destruct (str_eqb k k') eqn:B; auto. apply str_eqb_iff in B. subst. rewrite str_ltb_irrefl in L. discriminate. }
    rewrite B.
    pose proof (kcnt_lt_mono k' k p L). pose proof (kcnt_lt_mono k' k m L). pose proof (kcnt_lt_mono' k' k r L). lia.
Qed.

Fixpoint sp_ranks (all pre l : list str) : list nat :=
  match l with [] => [] | k :: r => sorted_pos all pre k :: sp_ranks all (pre ++ [k]) r end.
Lemma sp_ranks_length all : forall l pre, length (sp_ranks all pre l) = length l.
Proof. induction l; simpl; auto. Qed.
Lemma sp_ranks_spec all : forall l pre q, In q (sp_ranks all pre l) ->
  exists m k r, l = m ++ k :: r /\ q = sorted_pos all (pre ++ m) k.
Proof.
  induction l as [|k l IH]; simpl; intros pre q H; [contradiction|]. destruct H as [<-|H].
  - exists [], k, l. rewrite app_nil_r. auto.
  - apply IH in H as (m & k' & r & -> & ->). exists (k :: m), k', r. rewrite <- app_assoc. auto.
Qed.
Lemma sp_ranks_NoDup : forall l pre, NoDup (sp_ranks (pre ++ l) pre l).
Proof.
  induction l as [|k l IH]; simpl; intros pre; constructor.
  - intros H. apply sp_ranks_spec in H as (m & k' & r & -> & E).
    rewrite <- app_assoc in E. simpl in E. revert E. apply sp_rank_inj.
  - specialize (IH (pre ++ [k])). rewrite <- app_assoc in IH. exact IH.
Qed.
Lemma sp_ranks_bound : forall l pre q, In q (sp_ranks (pre ++ l) pre l) -> q < length (pre ++ l).
Proof.
  intros l pre q H. apply sp_ranks_spec in H as (m & k & r & -> & ->).
  rewrite app_assoc. apply sp_rank_bound.
Qed.
Lemma sp_ranks_perm ks : Permutation (sp_ranks ks [] ks) (seq 0 (length ks)).
Proof.
  apply NoDup_Permutation_bis.
  - apply (sp_ranks_NoDup ks []).
  - rewrite seq_length, sp_ranks_length. auto.
  - intros q H. apply (sp_ranks_bound ks []) in H. apply in_seq. simpl in *. lia.
Qed.

(* the sort is a permutation *)
Lemma ins_by_perm k x : forall l, Permutation (ins_by k x l) (x :: l).
Proof.
  induction l as [|y l IH]; simpl; auto. destruct (str_cmp (k x) (k y)); auto.
  eapply perm_trans; [apply perm_skip, IH|]. apply perm_swap.
Qed.
Lemma ssort_perm : forall l, Permutation (ssort l) l.
Proof.
  induction l as [|x l IH]; simpl; auto. eapply perm_trans; [apply ins_by_perm|]. auto.
Qed.

Section PyGo.
  Variable f : ty -> ty -> bool.
  Definition py_go (kx : list str) (sys : list ty) :=
    fix go (pre : list str) (l : list ty) {struct l} : bool :=
      match l with
      | [] => true
      | x :: r => f x (nth (sorted_pos kx pre (sort_key x)) sys TNull) && go (pre ++ [sort_key x]) r
      end.
  Lemma py_go_spec kx sys : forall l pre, py_go kx sys pre l =
    forallb (fun xp => f (fst xp) (nth (snd xp) sys TNull)) (combine l (sp_ranks kx pre (map sort_key l))).
  Proof. induction l as [|x l IH]; simpl; intros pre; auto. rewrite IH. reflexivity. Qed.

  Lemma in_combine_r_ex {A B} : forall (l : list A) (l' : list B) b, length l = length l' -> In b l' -> exists a, In (a, b) (combine l l').
  Proof.
    induction l as [|a l IH]; intros [|b' l'] b E H; simpl in *; try discriminate; try contradiction.
    destruct H as [<-|H]; [eauto|]. destruct (IH l' b) as [a' Ha]; auto. eauto.
  Qed.

  Lemma py_go_union xs ys : length xs = length ys -> py_go (map sort_key xs) (ssort ys) [] xs = true ->
    (forall x, In x xs -> exists y, In y ys /\ f x y = true) /\ (forall y, In y ys -> exists x, In x xs /\ f x y = true).
  Proof.
    intros EL G. rewrite py_go_spec, forallb_forall in G.
    pose proof (sp_ranks_perm (map sort_key xs)) as P. rewrite map_length in P.
    assert (LS : length (ssort ys) = length ys) by (apply Permutation_length, ssort_perm).
    split.
    - intros x Hx. destruct (in_combine_r_ex (sp_ranks (map sort_key xs) [] (map sort_key xs)) xs x) as [q Hq];
        [rewrite sp_ranks_length, map_length; auto | auto |].
      assert (Hq' : In (x, q) (combine xs (sp_ranks (map sort_key xs) [] (map sort_key xs)))).
      { clear - Hq. revert Hq. generalize (sp_ranks (map sort_key xs) [] (map sort_key xs)).
        induction xs as [|a l IH]; intros [|b l'] H; simpl in *; try contradiction.
        destruct H as [H|H]; [left; congruence | right; auto]. }
      pose proof (G _ Hq') as Fx. simpl in Fx. exists (nth q (ssort ys) TNull). split; auto.
      apply (Permutation_in _ (ssort_perm ys)). apply nth_In. rewrite LS, <- EL.
      apply in_combine_r in Hq'. apply (Permutation_in _ P) in Hq'. apply in_seq in Hq'. lia.
    - intros y Hy. apply (Permutation_in _ (Permutation_sym (ssort_perm ys))) in Hy.
      destruct (In_nth _ _ TNull Hy) as (q & Lq & <-).
      assert (Hq : In q (sp_ranks (map sort_key xs) [] (map sort_key xs))).
      { apply (Permutation_in _ (Permutation_sym P)). apply in_seq. lia. }
      destruct (in_combine_r_ex xs (sp_ranks (map sort_key xs) [] (map sort_key xs)) q) as [x Hx]; [rewrite sp_ranks_length, map_length; auto | exact Hq |].
      exists x. split; [eapply in_combine_l; eauto|]. apply (G _ Hx).
  Qed.
End PyGo.


(* ---- rank correctness: the stable insertion sort puts the member of xs that is preceded by p at position
   sorted_pos (keys of xs) (keys of p) (its key): ssort_nth.  Hence py_go f on (xs, ssort xs) compares every member with
   itself: py_go_refl. ---- *)
Lemma str_nlt_trans a b c : str_ltb b a = false -> str_ltb c b = false -> str_ltb c a = false.
Proof.
  intros H1 H2. destruct (str_ltb c a) eqn:H3; auto. exfalso.
  destruct (str_cmp b a) eqn:E.
  - apply scmp_eq in E. subst. congruence.
  - apply str_ltb_iff in E. congruence.
  - assert (L : str_ltb a b = true) by (apply str_ltb_iff; rewrite scmp_opp, E; reflexivity).
    rewrite (str_ltb_trans _ _ _ H3 L) in H2. discriminate.
Qed.
Lemma kcnt_perm p l l' : Permutation l l' -> kcnt p l = kcnt p l'.
Proof.
  induction 1; auto; rewrite ?kcnt_cons in *; try lia.
Qed.

Section InsBy.
  Variable k : ty -> str.
  Definition key_le (a b : ty) : Prop := str_ltb (k b) (k a) = false.
  Lemma ins_by_split x : forall S, StronglySorted key_le S -> exists S1 S2,
    ins_by k x S = S1 ++ x :: S2 /\ S = S1 ++ S2 /\
    Forall (fun y => str_ltb (k y) (k x) = true) S1 /\ Forall (fun y => str_ltb (k y) (k x) = false) S2.
  Proof.
    induction S as [|y S IH]; intros HS; simpl.
    - exists [], []. repeat split; auto.
    - inversion HS as [|? ? HS' Hy]; subst. destruct (str_cmp (k x) (k y)) eqn:E.
      + exists [], (y :: S). repeat split; auto. constructor.
        * unfold str_ltb. rewrite scmp_opp, E. reflexivity.
        * eapply Forall_impl; [|exact Hy]. intros z Hz. unfold key_le in Hz. eapply str_nlt_trans; [|exact Hz].
          unfold str_ltb. rewrite scmp_opp, E. reflexivity.
      + exists [], (y :: S). repeat split; auto. constructor.
        * unfold str_ltb. rewrite scmp_opp, E. reflexivity.
        * eapply Forall_impl; [|exact Hy]. intros z Hz. unfold key_le in Hz. eapply str_nlt_trans; [|exact Hz].
          unfold str_ltb. rewrite scmp_opp, E. reflexivity.
      + destruct (IH HS') as (S1 & S2 & E1 & E2 & F1 & F2). exists (y :: S1), S2. repeat split; auto.
        * simpl. now rewrite E1.
        * simpl. now rewrite E2.
        * constructor; auto. unfold str_ltb. rewrite scmp_opp, E. reflexivity.
  Qed.
  Lemma ins_by_sorted x : forall S, StronglySorted key_le S -> StronglySorted key_le (ins_by k x S).
  Proof.
    induction S as [|y S IH]; intros HS; simpl.
    - constructor; auto.
    - inversion HS as [|? ? HS' Hy]; subst.
      assert (T : str_cmp (k x) (k y) <> Gt -> StronglySorted key_le (x :: y :: S)).
      { intros NG. constructor; auto.
        assert (Lxy : key_le x y). { unfold key_le, str_ltb. rewrite scmp_opp. destruct (str_cmp (k x) (k y)); auto. congruence. }
        constructor; auto. eapply Forall_impl; [|exact Hy]. intros z Hz. unfold key_le in *. eapply str_nlt_trans; eauto. }
      destruct (str_cmp (k x) (k y)) eqn:E; try (apply T; congruence).
      constructor; auto. eapply Permutation_Forall; [apply Permutation_sym, ins_by_perm|]. constructor; auto.
      unfold key_le, str_ltb. rewrite E. reflexivity.
  Qed.
  Lemma ins_by_app_le a x S2 : str_cmp (k a) (k x) <> Gt -> forall S1, ins_by k a (S1 ++ x :: S2) = ins_by k a S1 ++ x :: S2.
  Proof.
    intros NG. induction S1 as [|y S1 IH]; simpl.
    - destruct (str_cmp (k a) (k x)); auto. congruence.
    - destruct (str_cmp (k a) (k y)); auto. now rewrite IH.
  Qed.
  Lemma ins_by_app_gt a x S2 : str_cmp (k a) (k x) = Gt -> forall S1, Forall (fun y => str_ltb (k x) (k y) = false) S1 ->
    ins_by k a (S1 ++ x :: S2) = S1 ++ x :: ins_by k a S2.
  Proof.
    intros G. induction S1 as [|y S1 IH]; simpl; intros F.
    - now rewrite G.
    - inversion F; subst. assert (L : str_ltb (k x) (k a) = true) by (apply str_ltb_iff; rewrite scmp_opp, G; reflexivity).
      destruct (str_cmp (k a) (k y)) eqn:E.
      + apply scmp_eq in E. congruence.
      + apply str_ltb_iff in E. pose proof (str_ltb_trans _ _ _ L E) as T. congruence.
      + now rewrite IH.
  Qed.
End InsBy.

Local Notation skey_le := (key_le sort_key).
Lemma ssort_sorted : forall l, StronglySorted skey_le (ssort l).
Proof. induction l; simpl; [constructor | now apply ins_by_sorted]. Qed.

Lemma kcnt_all_true p l : Forall (fun y => p y = true) l -> kcnt p l = length l.
Proof. induction 1; auto. rewrite kcnt_cons, H. simpl. lia. Qed.
Lemma kcnt_all_false p l : Forall (fun y => p y = false) l -> kcnt p l = 0.
Proof. induction 1; auto. rewrite kcnt_cons, H. simpl. lia. Qed.

Lemma ssort_rank : forall p x r, exists S1 S2, ssort (p ++ x :: r) = S1 ++ x :: S2 /\
  length S1 = sorted_pos (map sort_key (p ++ x :: r)) (map sort_key p) (sort_key x) /\
  Forall (fun y => str_ltb (sort_key x) (sort_key y) = false) S1.
Proof.
  induction p as [|a p IH]; intros x r.
  - simpl app. change (ssort (x :: r)) with (ins_by sort_key x (ssort r)).
    destruct (ins_by_split sort_key x (ssort r) (ssort_sorted r)) as (S1 & S2 & E1 & E2 & F1 & F2).
    exists S1, S2. split; auto. split.
    + rewrite sorted_pos_kcnt. simpl map. rewrite kcnt_cons, str_ltb_irrefl. unfold kcnt at 2. simpl.
      rewrite <- (kcnt_perm _ _ _ (Permutation_map sort_key (ssort_perm r))), E2, map_app, kcnt_app.
      rewrite (kcnt_all_true _ (map sort_key S1)), (kcnt_all_false _ (map sort_key S2)), map_length; [lia| |];
        apply Forall_forall; intros y Hy; apply in_map_iff in Hy as (z & <- & Hz);
        [exact (proj1 (Forall_forall _ _) F2 z Hz) | exact (proj1 (Forall_forall _ _) F1 z Hz)].
    + eapply Forall_impl; [|exact F1]. intros y Hy. simpl in Hy.
      destruct (str_ltb (sort_key x) (sort_key y)) eqn:C; auto.
      pose proof (str_ltb_trans _ _ _ Hy C) as T. rewrite str_ltb_irrefl in T. discriminate.
  - destruct (IH x r) as (S1 & S2 & E & L & F). simpl app.
    change (ssort (a :: p ++ x :: r)) with (ins_by sort_key a (ssort (p ++ x :: r))). rewrite E.
    rewrite sorted_pos_kcnt in *. simpl map. rewrite !kcnt_cons.
    destruct (str_cmp (sort_key a) (sort_key x)) eqn:C.
    + rewrite ins_by_app_le by congruence. exists (ins_by sort_key a S1), S2. split; auto.
      apply scmp_eq in C. rewrite C, str_ltb_irrefl. replace (str_eqb (sort_key x) (sort_key x)) with true by (symmetry; now apply str_eqb_iff).
      split.
      * rewrite (Permutation_length (ins_by_perm sort_key a S1)). simpl. lia.
      * eapply Permutation_Forall; [apply Permutation_sym, ins_by_perm|]. constructor; auto. rewrite C. apply str_ltb_irrefl.
    + rewrite ins_by_app_le by congruence. exists (ins_by sort_key a S1), S2. split; auto.
      assert (L1 : str_ltb (sort_key a) (sort_key x) = true) by now apply str_ltb_iff. rewrite L1.
      assert (L2 : str_eqb (sort_key a) (sort_key x) = false).
      { destruct (str_eqb (sort_key a) (sort_key x)) eqn:B; auto. apply str_eqb_iff in B. rewrite B, str_ltb_irrefl in L1. discriminate. }
      rewrite L2. split.
      * rewrite (Permutation_length (ins_by_perm sort_key a S1)). simpl. lia.
      * eapply Permutation_Forall; [apply Permutation_sym, ins_by_perm|]. constructor; auto.
        unfold str_ltb. rewrite scmp_opp, C. reflexivity.
    + rewrite ins_by_app_gt; auto. exists S1, (ins_by sort_key a S2). split; auto.
      assert (L1 : str_ltb (sort_key a) (sort_key x) = false) by (unfold str_ltb; now rewrite C). rewrite L1.
      assert (L2 : str_eqb (sort_key a) (sort_key x) = false).
      { destruct (str_eqb (sort_key a) (sort_key x)) eqn:B; auto. apply str_eqb_iff in B. rewrite B, scmp_refl in C. discriminate. }
      rewrite L2. split; auto.
Qed.
Lemma ssort_nth p x r d :
  nth (sorted_pos (map sort_key (p ++ x :: r)) (map sort_key p) (sort_key x)) (ssort (p ++ x :: r)) d = x.
Proof.
  destruct (ssort_rank p x r) as (S1 & S2 & E & L & _). rewrite E, <- L, app_nth2, Nat.sub_diag; auto.
Qed.

Section GoRefl.
  Variable f : ty -> ty -> bool.
  Lemma py_go_refl_gen xs : forall l p, xs = p ++ l -> (forall x, In x l -> f x x = true) ->
    py_go f (map sort_key xs) (ssort xs) (map sort_key p) l = true.
  Proof.
    induction l as [|x l IH]; simpl; intros p E H; auto.
    rewrite E at 1 2. rewrite ssort_nth, H by auto. simpl.
    replace (map sort_key p ++ [sort_key x]) with (map sort_key (p ++ [x])) by (rewrite map_app; reflexivity).
    apply IH; auto. rewrite <- app_assoc. exact E.
  Qed.
  Lemma py_go_refl xs : (forall x, In x xs -> f x x = true) -> py_go f (map sort_key xs) (ssort xs) [] xs = true.
  Proof. intros H. apply (py_go_refl_gen xs xs []); auto. Qed.
End GoRefl.

Section PyEq.
  Variable accepts : pseudo -> str -> bool.
  Variable mf : N -> option fields.
  Variable uk : bool.
  Variable peq : N -> N -> bool.
  Notation ht := (htg accepts mf uk).
  Notation py_eq := (py_eq peq).

  (* the union clause of py_eq: sorted(xs) == sorted(ys), written as an iteration over xs (Model/Merge.v) *)
  Lemma py_eq_union_go xs ys : py_eq (TUnion xs) (TUnion ys) =
    Nat.eqb (length xs) (length ys) && py_go py_eq (map sort_key xs) (ssort ys) [] xs.
  Proof. reflexivity. Qed.
  (* what the proofs use: the exact clause implies the two-sided matching that was the former model *)
  Lemma py_eq_union_imp xs ys : py_eq (TUnion xs) (TUnion ys) = true ->
    length xs = length ys /\ (forall x, In x xs -> exists y, In y ys /\ py_eq x y = true) /\
    (forall y, In y ys -> exists x, In x xs /\ py_eq x y = true).
  Proof.
    rewrite py_eq_union_go. intros H. apply andb_prop in H as [H1 H2]. apply Nat.eqb_eq in H1.
    split; auto. apply py_go_union; auto.
  Qed.
  Lemma py_eq_obj xs ys : py_eq (TObj xs) (TObj ys) =
    Nat.eqb (length xs) (length ys) &&
    forallb (fun kx => match lookup (fst kx) ys with Some y => py_eq (snd kx) y | None => false end) xs.
  Proof. simpl. f_equal. induction xs as [|[k x] r IH]; simpl; auto; try (now rewrite IH). Qed.
  Lemma py_eq_opt_l a b : py_eq a b = true -> is_opt a = true -> is_opt b = true.
  Proof. destruct a; simpl; try discriminate. destruct b; simpl; auto. Qed.
  Lemma py_eq_opt_r a b : py_eq a b = true -> is_opt b = true -> is_opt a = true.
  Proof. destruct b; simpl; try discriminate. destruct a; simpl; auto; discriminate. Qed.

  Hypothesis Hpeq : forall i j, peq i j = true -> forall v, ht v (TPtr i) <-> ht v (TPtr j).

  (* History: with the first (one-sided) reading of py_eq on unions — same length and every member of the left
     side matched on the right — this statement was false, and so was generate_sound:
       a = TUnion [A1; A2], b = TUnion [A1; TInt], A1 = TObj [a:int; b:int], A2 = TObj [b:int; a:int];
       py_eq a b = true (A1->A1, A2->A1) but JInt 5 is accepted by b only.  With the samples
       {"f":[{"a":1,"b":1},{"b":1,"a":1}]} and {"f":[{"a":1,"b":1},5]} the model kept f : List[A] and rejected
       the second sample (checked by vm_compute before Model/Merge.v was repaired to the two-sided matching, which the
     exact clause of today implies: py_eq_union_imp). *)
  (* (3) side conditions forced by the proof (both decidable): okt0 a, okt0 b, i.e. an overflowed literal carries
     the empty set and a plain literal a non-empty one (literals are compared by their sets only, so TLit true []
     must never meet TLit false []), and raw-dict keys are unique *)
  Theorem py_eq_sound : forall a b, okt0 a = true -> okt0 b = true -> py_eq a b = true ->
    forall v, ht v a <-> ht v b.
  Proof.
    induction a using ty_ind2; intros b Oa Ob E v;
      destruct b; try (simpl in E; discriminate); try reflexivity.
    - simpl in E. apply pseudo_eqb_true in E. now subst.
    - simpl in E. apply strs_eqb_true in E. subst. simpl in Oa, Ob.
      match type of Oa with (if ?o1 then _ else _) = true =>
      match type of Ob with (if ?o2 then _ else _) = true =>
        assert (EO : o1 = o2) by (clear - Oa Ob; destruct o1, o2; auto; destruct ls0; discriminate);
        rewrite EO; reflexivity
      end end.
    - simpl in *. specialize (IHa b Oa Ob E).
      split; intros Hv; inversion Hv; subst; [constructor | apply GOptS; now apply IHa | constructor | apply GOptS; now apply IHa].
    - simpl in *. specialize (IHa b Oa Ob E).
      split; intros Hv; inversion Hv; subst; constructor; (eapply Forall_impl; [|eassumption]);
        intros x Hx; now apply IHa.
    - simpl in *. specialize (IHa b Oa Ob E).
      split; intros Hv; inversion Hv; subst; constructor; (eapply Forall_impl; [|eassumption]);
        intros x Hx; now apply IHa.
    - apply py_eq_union_imp in E. destruct E as [_ [E1 E2]].
      rewrite okt0_union in Oa, Ob.
      rewrite forallb_forall in Oa, Ob. rewrite Forall_forall in H.
      split; intros Hv; inversion Hv; subst.
      + match goal with Hi : In ?t ts, Ht : ht v ?t |- _ => rename t into x; rename Hi into Hin; rename Ht into Hx end.
        destruct (E1 x Hin) as [y [Hy Exy]].
        apply GUnion with (t := y); auto. destruct (H x Hin y (Oa x Hin) (Ob y Hy) Exy v) as [F B]. auto.
      + match goal with Hi : In ?t ts0, Ht : ht v ?t |- _ => rename t into y; rename Hi into Hin; rename Ht into Hy end.
        destruct (E2 y Hin) as [x [Hx Exy]].
        apply GUnion with (t := x); auto. destruct (H x Hx y (Oa x Hx) (Ob y Hin) Exy v) as [F B]. auto.
    - rewrite py_eq_obj in E. apply andb_prop in E as [EL E]. apply Nat.eqb_eq in EL.
      rewrite okt0_obj in Oa, Ob. unfold okf0 in Oa, Ob.
      apply andb_prop in Oa as [NDa Oa]. apply andb_prop in Ob as [NDb Ob].
      rewrite forallb_forall in E, Oa, Ob. rewrite Forall_forall in H.
      apply nodup_keys_NoDup in NDa.
      assert (M : forall k x, In (k, x) fs -> exists y, lookup k fs0 = Some y /\ py_eq x y = true).
      { intros k x Hin. specialize (E _ Hin). simpl in E. destruct (lookup k fs0) as [y|]; [|discriminate]. eauto. }
      assert (KK : forall k, In k (map fst fs0) -> In k (map fst fs)).
      { apply (NoDup_length_incl NDa).
        - rewrite !map_length. lia.
        - intros k0 Hk0. apply in_map_iff in Hk0 as [[k1 x1] [<- Hin]]. simpl.
          destruct (M _ _ Hin) as [y [Ly _]]. eapply lookup_Some_in; eauto. }
      assert (M' : forall k y, lookup k fs0 = Some y -> exists x, In (k, x) fs /\ lookup k fs = Some x /\ py_eq x y = true).
      { intros k y Ly. pose proof (KK k (lookup_Some_in _ _ _ Ly)) as Hk.
        apply in_map_iff in Hk as [[k1 x] [<- Hin]]. simpl in *.
        destruct (M _ _ Hin) as [y' [Ly' Exy]]. assert (y' = y) by congruence. subst y'.
        exists x. repeat split; auto. apply In_lookup_nodup; auto. }
      split; intros Hv; inversion Hv; subst.
      + match goal with H1 : Forall _ l, H2 : forall k t, lookup k fs = Some t -> _ |- _ => rename H1 into V1; rename H2 into V2 end.
        apply GObj.
        * eapply Forall_impl; [|exact V1]. intros [k w] [t [Lk Hw]]. simpl in *.
          pose proof (lookup_In _ _ _ Lk) as Hin. destruct (M _ _ Hin) as [y [Ly Exy]].
          exists y. split; auto.
          destruct (H _ Hin y (Oa _ Hin) (Ob _ (lookup_In _ _ _ Ly)) Exy w) as [F B]. auto.
        * intros k t' Lk NO. destruct (M' _ _ Lk) as [x [Hin [Lx Exy]]].
          apply (V2 k x); auto.
          destruct (is_opt x) eqn:Ox; auto. apply (py_eq_opt_l _ _ Exy) in Ox. congruence.
      + match goal with H1 : Forall _ l, H2 : forall k t, lookup k fs0 = Some t -> _ |- _ => rename H1 into V1; rename H2 into V2 end.
        apply GObj.
        * eapply Forall_impl; [|exact V1]. intros [k w] [t' [Lk Hw]]. simpl in *.
          destruct (M' _ _ Lk) as [x [Hin [Lx Exy]]].
          exists x. split; auto.
          destruct (H _ Hin t' (Oa _ Hin) (Ob _ (lookup_In _ _ _ Lk)) Exy w) as [F B]. auto.
        * intros k t Lk NO. pose proof (lookup_In _ _ _ Lk) as Hin.
          destruct (M _ _ Hin) as [y [Ly Exy]]. apply (V2 k y); auto.
          destruct (is_opt y) eqn:Oy; auto. apply (py_eq_opt_r _ _ Exy) in Oy. congruence.
    - simpl in E. apply Hpeq; auto.
  Qed.
End PyEq.

(* ---- documentation of the exact union clause: it is the element-wise comparison of the two stably sorted member lists
   (py_eq_union_sorted), reflexive on well-formed raw metadata (py_eq_refl_raw), order sensitive on members with equal
   sort keys and order free otherwise (py_eq_order_sensitive, py_eq_order_free). ---- *)
Lemma sp_ranks_combine all : forall (l : list ty) pre x q, In (x, q) (combine l (sp_ranks all pre (map sort_key l))) ->
  exists m r, l = m ++ x :: r /\ q = sorted_pos all (pre ++ map sort_key m) (sort_key x).
Proof.
  induction l as [|a l IH]; simpl; intros pre x q H; [contradiction|]. destruct H as [H|H].
  - inversion H; subst. exists [], l. rewrite app_nil_r. auto.
  - apply IH in H as (m & r & -> & ->). exists (a :: m), r. simpl. rewrite <- app_assoc. auto.
Qed.
Lemma Forall2_of_nth {A B} (R : A -> B -> Prop) d d' : forall l l', length l = length l' ->
  (forall q, q < length l -> R (nth q l d) (nth q l' d')) -> Forall2 R l l'.
Proof.
  induction l as [|a l IH]; intros [|b l'] E H; simpl in *; try discriminate; constructor.
  - apply (H 0). lia.
  - apply IH; [lia|]. intros q Hq. apply (H (S q)). lia.
Qed.
Lemma Forall2_to_nth {A B} (R : A -> B -> Prop) d d' l l' : Forall2 R l l' ->
  forall q, q < length l -> R (nth q l d) (nth q l' d').
Proof. induction 1; simpl; intros q Hq; [lia|]. destruct q; auto. apply IHForall2. lia. Qed.

Lemma Forall2_same_length {A B} (R : A -> B -> Prop) l l' : Forall2 R l l' -> length l = length l'.
Proof. induction 1; simpl; auto. Qed.
Lemma ssort_nth' xs m x r d : xs = m ++ x :: r ->
  nth (sorted_pos (map sort_key xs) (map sort_key m) (sort_key x)) (ssort xs) d = x.
Proof. intros ->. apply ssort_nth. Qed.

Section PyEqProps.
  Variable peq : N -> N -> bool.
  Notation py_eq := (py_eq peq).

  (* py_go is the element-wise comparison of the two sorted lists *)
  Lemma py_go_sorted (f : ty -> ty -> bool) xs sys : length xs = length sys ->
    (py_go f (map sort_key xs) sys [] xs = true <-> Forall2 (fun x y => f x y = true) (ssort xs) sys).
  Proof.
    intros EL. rewrite py_go_spec, forallb_forall.
    pose proof (sp_ranks_perm (map sort_key xs)) as P. rewrite map_length in P.
    assert (LS : length (ssort xs) = length xs) by (apply Permutation_length, ssort_perm).
    split.
    - intros G. apply (Forall2_of_nth _ TNull TNull); [lia|]. intros q Hq.
      assert (Hq' : In q (sp_ranks (map sort_key xs) [] (map sort_key xs))).
      { apply (Permutation_in _ (Permutation_sym P)). apply in_seq. lia. }
      destruct (in_combine_r_ex xs (sp_ranks (map sort_key xs) [] (map sort_key xs)) q) as [x Hx];
        [rewrite sp_ranks_length, map_length; auto | exact Hq' |].
      pose proof (G _ Hx) as Fx. simpl in Fx.
      apply sp_ranks_combine in Hx as (m & r & E & Eq). simpl in Eq.
      assert (Nq : nth q (ssort xs) TNull = x) by (rewrite Eq; apply (ssort_nth' xs m x r TNull E)).
      rewrite Nq. exact Fx.
    - intros F [x q] Hx. simpl. pose proof (in_combine_r _ _ _ _ Hx) as Hq.
      apply (Permutation_in _ P), in_seq in Hq.
      apply sp_ranks_combine in Hx as (m & r & E & Eq). simpl in Eq.
      pose proof (Forall2_to_nth _ TNull TNull _ _ F q) as T. simpl in T.
      assert (Nq : nth q (ssort xs) TNull = x) by (rewrite Eq; apply (ssort_nth' xs m x r TNull E)).
      rewrite Nq in T. apply T. lia.
  Qed.

  (* the union clause is exactly self.sorted == other.sorted *)
  Theorem py_eq_union_sorted xs ys :
    py_eq (TUnion xs) (TUnion ys) = true <-> Forall2 (fun x y => py_eq x y = true) (ssort xs) (ssort ys).
  Proof.
    rewrite py_eq_union_go, andb_true_iff, Nat.eqb_eq.
    pose proof (Permutation_length (ssort_perm xs)). pose proof (Permutation_length (ssort_perm ys)).
    split.
    - intros [EL G]. apply py_go_sorted; [lia | exact G].
    - intros F. pose proof (Forall2_same_length _ _ _ F). split; [lia|]. apply py_go_sorted; [lia | exact F].
  Qed.

  (* == is reflexive on well-formed raw metadata (unique dict keys) as soon as it is on pointers *)
  Theorem py_eq_refl_raw : (forall i, peq i i = true) -> forall t, okt0 t = true -> py_eq t t = true.
  Proof.
    intros Hp. induction t using ty_ind2; intros O; try reflexivity.
    - destruct p; reflexivity.
    - simpl. unfold strs_eqb. destruct (list_eq_dec (list_eq_dec N.eq_dec) ls ls); congruence.
    - simpl in *. auto.
    - simpl in *. auto.
    - simpl in *. auto.
    - rewrite py_eq_union_go, Nat.eqb_refl. simpl. apply py_go_refl.
      rewrite okt0_union, forallb_forall in O. rewrite Forall_forall in H. intros x Hx. apply H; auto.
    - rewrite py_eq_obj, Nat.eqb_refl. simpl. rewrite okt0_obj in O. unfold okf0 in O.
      apply andb_prop in O as [ND O]. apply nodup_keys_NoDup in ND. rewrite forallb_forall in O |- *.
      rewrite Forall_forall in H. intros [k x] Hin. simpl.
      rewrite (In_lookup_nodup k x fs ND Hin). apply (H _ Hin). apply (O _ Hin).
    - simpl. apply Hp.
  Qed.
End PyEqProps.

(* the relation is order sensitive on members with the same sort key (raw dicts with the same key set) ... *)
Example py_eq_order_sensitive :
  py_eq N.eqb (TUnion [TObj [([97%N], TBool)]; TObj [([97%N], TInt)]]) (TUnion [TObj [([97%N], TInt)]; TObj [([97%N], TBool)]]) = false
  /\ py_eq N.eqb (TUnion [TObj [([97%N], TBool)]; TObj [([97%N], TInt)]]) (TUnion [TObj [([97%N], TBool)]; TObj [([97%N], TInt)]]) = true.
Proof. split; vm_compute; reflexivity. Qed.
(* ... while members with different sort keys may come in any order *)
Example py_eq_order_free :
  py_eq N.eqb (TUnion [TInt; TList TStr]) (TUnion [TList TStr; TInt]) = true
  /\ py_eq N.eqb (TUnion [TObj [([97%N], TBool)]; TInt; TObj [([98%N], TBool)]]) (TUnion [TObj [([98%N], TBool)]; TObj [([97%N], TBool)]; TInt]) = true.
Proof. split; vm_compute; reflexivity. Qed.


(* the invariant carried through merge and optimisation: okt0, and moreover the fields of a raw dict that sits
   inside a type are never Optional (Optional fields only exist in merged field sets, at the top of a field) *)
Definition no_opt (fs : fields) : bool := forallb (fun kv => negb (is_opt (snd kv))) fs.
Fixpoint okt (t : ty) : bool :=
  match t with
  | TLit o ls => if o then match ls with [] => true | _ => false end else match ls with [] => false | _ => true end
  | TOpt x | TList x | TDict x => okt x
  | TUnion ts => (fix all l := match l with [] => true | x :: r => okt x && all r end) ts
  | TObj fs => nodup_keys fs && no_opt fs &&
               (fix all (l : fields) := match l with [] => true | (_, x) :: r => okt x && all r end) fs
  | _ => true
  end.
Definition okf (fs : fields) : bool := nodup_keys fs && forallb (fun kv => okt (snd kv)) fs.
Lemma okt_union ts : okt (TUnion ts) = forallb okt ts.
Proof. simpl. induction ts as [|x r IH]; simpl; auto; try (now rewrite IH). Qed.
Lemma okt_obj fs : okt (TObj fs) = okf fs && no_opt fs.
Proof.
  unfold okf. simpl.
  assert (E : (fix all (l : fields) := match l with [] => true | (_, x) :: r => okt x && all r end) fs
              = forallb (fun kv => okt (snd kv)) fs).
  { induction fs as [|[k x] r IH]; simpl; auto; try (now rewrite IH). }
  rewrite E. destruct (nodup_keys fs), (no_opt fs), (forallb (fun kv => okt (snd kv)) fs); reflexivity.
Qed.
Lemma okt_okt0 : forall t, okt t = true -> okt0 t = true.
Proof.
  induction t using ty_ind2; intros O; auto.
  - rewrite okt_union in O. rewrite okt0_union. rewrite forallb_forall in *. rewrite Forall_forall in H. auto.
  - rewrite okt_obj in O. rewrite okt0_obj. unfold okf in O. unfold okf0.
    apply andb_prop in O as [O _]. apply andb_prop in O as [O1 O2]. rewrite O1. simpl.
    rewrite forallb_forall in *. rewrite Forall_forall in H. auto.
Qed.

(* ------------------------------------------------------------------ *)
(* okt is preserved by union construction                               *)
(* ------------------------------------------------------------------ *)
Notation okts := (Forall (fun x => okt x = true)).
Lemma okt_union_Forall ts : okt (TUnion ts) = true <-> okts ts.
Proof. rewrite okt_union, forallb_forall, Forall_forall. tauto. Qed.
Lemma flat_okt : forall t, okt t = true -> okts (flat t).
Proof.
  induction t using ty_ind2; intros O; try (constructor; [exact O|constructor]).
  apply okt_union_Forall in O. simpl.
  induction H as [|x r Hx Hr IH]; [constructor|].
  inversion O; subst. apply Forall_app. split; auto.
Qed.
Lemma add_unique_okt u t : okts u -> okt t = true -> okts (add_unique u t).
Proof.
  unfold add_unique. intros Hu Ht. destruct (existsb (ty_eqb t) u); auto.
  apply Forall_app. split; auto.
Qed.
Lemma union_step_okt st t : okts (fst (fst st)) -> okt t = true -> okts (fst (fst (union_step st t))).
Proof.
  destruct st as [[u ul] ls]. simpl. intros Hu Ht.
  destruct t; simpl; try (apply add_unique_okt; auto).
  destruct (negb ul); simpl; auto. destruct overflow; simpl; auto.
Qed.
Lemma union_fold_okt : forall l st, okts (fst (fst st)) -> okts l -> okts (fst (fst (fold_left union_step l st))).
Proof.
  induction l as [|t r IH]; simpl; intros st Hu Hl; auto.
  inversion Hl; subst. apply IH; auto. apply union_step_okt; auto.
Qed.
Lemma mk_union_okt ts : okts ts -> okts (mk_union ts).
Proof.
  intros H. unfold mk_union.
  assert (F : okts (flatten_union ts)) by (apply flat_okt, okt_union_Forall, H).
  pose proof (union_fold_okt (flatten_union ts) ([], true, []) (Forall_nil _) F) as U.
  destruct (fold_left union_step (flatten_union ts) ([], true, [])) as [[u ul] ls]. simpl in U.
  assert (S : forall u', okts u' -> okts (add_unique u' TStr)) by (intros; apply add_unique_okt; auto).
  destruct ls as [|l0 lr].
  - destruct ul; auto.
  - destruct ul; auto. destruct (lit_overflow (l0 :: lr)); auto.
    apply Forall_app. split; auto.
Qed.
Lemma union1_okt ts : okts ts -> okt (union1 ts) = true.
Proof.
  intros H. apply mk_union_okt in H. unfold union1.
  destruct (mk_union ts) as [|x [|y r]] eqn:E.
  - reflexivity.
  - now inversion H.
  - now apply okt_union_Forall.
Qed.
Lemma dunion_okt ts : okts ts -> okt (dunion ts) = true.
Proof. intros H. apply okt_union_Forall, mk_union_okt, H. Qed.
Lemma members_okt t : okt t = true -> okts (members t).
Proof. destruct t; simpl; intros H; try (constructor; [exact H|constructor]). now apply okt_union_Forall. Qed.
Lemma wrap_opt_okt t : okt (wrap_opt t) = okt t.
Proof. unfold wrap_opt. destruct (is_opt t); reflexivity. Qed.

(* members_deep (Model/Optimize.v, D32 repair): the work-list of regroup.  Basic facts. *)
Lemma members_deep_union us : members_deep (TUnion us) = flat_map members_deep us.
Proof. simpl. induction us as [|x r IH]; simpl; auto; try (now rewrite IH). Qed.
Lemma members_deep_id t : is_opt t = false -> is_union t = false -> members_deep t = [t].
Proof. destruct t; simpl; intros; try discriminate; reflexivity. Qed.
Lemma flat_map_members_deep_id ts :
  Forall (fun t => is_opt t = false /\ is_union t = false) ts -> flat_map members_deep ts = ts.
Proof.
  induction 1 as [|x r [Hx1 Hx2] Hr IH]; simpl; auto. rewrite members_deep_id, IH; auto.
Qed.
Lemma members_deep_no_opt_union : forall t x, In x (members_deep t) -> is_opt x = false /\ is_union x = false.
Proof.
  induction t using ty_ind2; intros x Hx;
    try (destruct Hx as [<-|[]]; split; reflexivity).
  - simpl in Hx. destruct Hx as [<-|Hx]; [split; reflexivity|auto].
  - rewrite members_deep_union in Hx. apply in_flat_map in Hx as [y [Hy Hx]].
    rewrite Forall_forall in H. eapply H; eauto.
Qed.
Lemma members_deep_len t : is_union t = false -> 1 <= length (members_deep t).
Proof. destruct t; simpl; intros; try discriminate; lia. Qed.
Lemma flat_map_members_deep_len ts :
  Forall (fun t => is_union t = false) ts -> length ts <= length (flat_map members_deep ts).
Proof.
  induction 1 as [|x r Hx Hr IH]; simpl; auto. rewrite app_length.
  pose proof (members_deep_len x Hx). lia.
Qed.
Lemma members_deep_okt : forall t, okt t = true -> okts (members_deep t).
Proof.
  induction t using ty_ind2; intros O; try (constructor; [exact O|constructor]).
  - simpl. constructor; [reflexivity|]. apply IHt. exact O.
  - rewrite members_deep_union. apply okt_union_Forall in O.
    induction H as [|x r Hx Hr IH]; simpl; [constructor|].
    inversion O; subst. apply Forall_app. split; auto.
Qed.
Lemma flat_map_members_deep_okt ts : okts ts -> okts (flat_map members_deep ts).
Proof. intros O. rewrite <- members_deep_union. apply members_deep_okt. now apply okt_union_Forall. Qed.
(* every value of t is a value of some element of the work-list (JNull by the inserted TNull) *)
Lemma members_deep_cov accepts mf uk v : forall t,
  htg accepts mf uk v t -> Exists (htg accepts mf uk v) (members_deep t).
Proof.
  induction t using ty_ind2; intros Hv; try (constructor; exact Hv).
  - simpl. inversion Hv; subst; [constructor; constructor|]. constructor 2. auto.
  - rewrite members_deep_union. inversion Hv; subst.
    match goal with Hi : In ?t ts, Ht : htg _ _ _ v ?t |- _ => revert t Hi Ht end. clear Hv.
    induction H as [|x r Hx Hr IH]; intros t Hin Ht; [inversion Hin|]. simpl.
    destruct Hin as [->|Hin].
    + apply Exists_app. left. auto.
    + apply Exists_app. right. eapply IH; eauto.
Qed.
Lemma flat_map_members_deep_cov accepts mf uk v ts :
  Exists (htg accepts mf uk v) ts -> Exists (htg accepts mf uk v) (flat_map members_deep ts).
Proof.
  intros H. rewrite <- members_deep_union. apply members_deep_cov.
  apply Exists_exists in H as [t [Hin Ht]]. econstructor; eauto.
Qed.

(* the members of a constructed union are never unions themselves *)
Notation nounions := (Forall (fun x => is_union x = false)).
Lemma flat_nounion : forall t, nounions (flat t).
Proof.
  induction t using ty_ind2; try (constructor; [reflexivity|constructor]).
  simpl. induction H as [|x r Hx Hr IH]; [constructor|]. apply Forall_app. split; auto.
Qed.
Lemma add_unique_nounion u t : nounions u -> is_union t = false -> nounions (add_unique u t).
Proof.
  unfold add_unique. intros Hu Ht. destruct (existsb (ty_eqb t) u); auto.
  apply Forall_app. split; auto.
Qed.
Lemma union_step_nounion st t :
  nounions (fst (fst st)) -> is_union t = false -> nounions (fst (fst (union_step st t))).
Proof.
  destruct st as [[u ul] ls]. simpl. intros Hu Ht.
  destruct t; simpl; try (apply add_unique_nounion; auto).
  destruct (negb ul); simpl; auto. destruct overflow; simpl; auto.
Qed.
Lemma union_fold_nounion : forall l st,
  nounions (fst (fst st)) -> nounions l -> nounions (fst (fst (fold_left union_step l st))).
Proof.
  induction l as [|t r IH]; simpl; intros st Hu Hl; auto.
  inversion Hl; subst. apply IH; auto. apply union_step_nounion; auto.
Qed.
Lemma mk_union_nounion ts : nounions (mk_union ts).
Proof.
  unfold mk_union.
  pose proof (union_fold_nounion (flatten_union ts) ([], true, []) (Forall_nil _) (flat_nounion (TUnion ts))) as U.
  destruct (fold_left union_step (flatten_union ts) ([], true, [])) as [[u ul] ls]. simpl in U.
  assert (S : forall u', nounions u' -> nounions (add_unique u' TStr)) by (intros; apply add_unique_nounion; auto).
  destruct ls as [|l0 lr].
  - destruct ul; auto.
  - destruct ul; auto. destruct (lit_overflow (l0 :: lr)); auto.
    apply Forall_app. split; auto.
Qed.

(* hidden Optional: Optional on top, or a union with an Optional member whose work-list in _optimize_union
   (flat_map members_deep, D32 repair) has at least two items.  The second condition is new with the D32 repair:
   before it every Optional member put two items on the work-list; now TOpt (TUnion []) only leaves its Null,
   and a union whose work-list is the single Null optimises to the bare TNull (hopt_old_refuted below).  Unions
   built by mk_union/union1 (the only ones merge_field_sets creates) have non-union members, hence one item
   per member at least. *)
Definition hopt (t : ty) : bool :=
  is_opt t || match t with
              | TUnion ts => existsb is_opt ts && (2 <=? length (flat_map members_deep ts))
              | _ => false
              end.
Lemma hopt_is_opt t : is_opt t = true -> hopt t = true.
Proof. unfold hopt. intros ->. reflexivity. Qed.
Lemma hopt_member t : hopt t = true -> exists m, In m (members t) /\ is_opt m = true.
Proof.
  unfold hopt. intros H. apply orb_prop in H as [H|H].
  - exists t. split; auto. destruct t; try discriminate. simpl. auto.
  - destruct t; try discriminate. apply andb_prop in H as [H _]. apply existsb_exists in H. exact H.
Qed.
Lemma flat_opt_member m : forall ts, In m ts -> is_opt m = true -> In m (flatten_union ts).
Proof.
  unfold flatten_union. simpl. induction ts as [|x r IH]; intros Hin Ho; [contradiction|].
  apply in_or_app. destruct Hin as [->|Hin].
  - left. destruct m; try discriminate. simpl. auto.
  - right. auto.
Qed.
Lemma union_step_has m st t : In m (fst (fst st)) -> In m (fst (fst (union_step st t))).
Proof.
  destruct st as [[u ul] ls]. simpl. intros H.
  assert (A : In m (add_unique u t)).
  { unfold add_unique. destruct (existsb (ty_eqb t) u); auto. apply in_or_app. auto. }
  destruct t; simpl; auto.
  destruct (negb ul); simpl; auto. destruct overflow; simpl; auto.
Qed.
Lemma union_fold_has m : forall l st, In m (fst (fst st)) -> In m (fst (fst (fold_left union_step l st))).
Proof. induction l as [|t r IH]; simpl; auto. intros st H. apply IH, union_step_has, H. Qed.
Lemma union_fold_new m : forall l st, In m l -> is_lit m = false -> In m (fst (fst (fold_left union_step l st))).
Proof.
  induction l as [|t r IH]; simpl; intros st H NL; [contradiction|].
  destruct H as [->|H]; [|auto].
  apply union_fold_has. destruct st as [[u ul] ls].
  destruct m; try discriminate; simpl; apply add_unique_has.
Qed.
Lemma mk_union_keeps m ts : In m (flatten_union ts) -> is_lit m = false -> In m (mk_union ts).
Proof.
  intros H NL. unfold mk_union.
  pose proof (union_fold_new m (flatten_union ts) ([], true, []) H NL) as U.
  destruct (fold_left union_step (flatten_union ts) ([], true, [])) as [[u ul] ls]. simpl in U.
  assert (S : forall u', In m u' -> In m (add_unique u' TStr)).
  { intros u' Hu. unfold add_unique. destruct (existsb _ u'); auto. apply in_or_app. auto. }
  destruct ls as [|l0 lr].
  - destruct ul; auto.
  - destruct ul; auto. destruct (lit_overflow (l0 :: lr)); auto. apply in_or_app. auto.
Qed.
Lemma union1_hopt ts m : In m ts -> is_opt m = true -> hopt (union1 ts) = true.
Proof.
  intros Hin Ho. assert (K : In m (mk_union ts)).
  { apply mk_union_keeps; [now apply flat_opt_member|]. destruct m; try discriminate. reflexivity. }
  unfold union1. destruct (mk_union ts) as [|x [|y r]] eqn:E.
  - inversion K.
  - destruct K as [->|[]]. now apply hopt_is_opt.
  - unfold hopt. cbn [is_opt orb]. apply andb_true_intro. split.
    + apply (proj2 (existsb_exists is_opt (x :: y :: r))). exists m. auto.
    + apply Nat.leb_le. pose proof (mk_union_nounion ts) as NU. rewrite E in NU.
      apply flat_map_members_deep_len in NU. simpl length in NU at 1. lia.
Qed.
Lemma union1_hopt_l a b : hopt a = true -> hopt (union1 (members a ++ members b)) = true.
Proof.
  intros H. apply hopt_member in H as [m [Hin Ho]]. apply (union1_hopt _ m); auto. apply in_or_app. auto.
Qed.
Lemma union1_hopt_r a b : hopt b = true -> hopt (union1 (members a ++ members b)) = true.
Proof.
  intros H. apply hopt_member in H as [m [Hin Ho]]. apply (union1_hopt _ m); auto. apply in_or_app. auto.
Qed.

(* ------------------------------------------------------------------ *)
(* (4) merge_field_sets                                                *)
(* ------------------------------------------------------------------ *)
Lemma okf_iff fs : okf fs = true <-> NoDup (map fst fs) /\ Forall (fun kv => okt (snd kv) = true) fs.
Proof.
  unfold okf. rewrite andb_true_iff, forallb_forall, Forall_forall. split; intros [A B]; split; auto.
  - now apply nodup_keys_NoDup.
  - now apply NoDup_nodup_keys.
Qed.
Lemma update_okf k t fs : okf fs = true -> okt t = true -> okf (update k t fs) = true.
Proof.
  rewrite !okf_iff. intros [ND O] Ot. split.
  - rewrite map_fst_update. unfold has_key. destruct (lookup k fs) eqn:L; auto.
    apply lookup_None_notin in L. clear O.
    induction (map fst fs) as [|x r IH]; simpl.
    + constructor; [intros []|constructor].
    + inversion ND; subst. constructor.
      * rewrite in_app_iff. simpl. intros [H|[H|[]]]; [tauto|]. subst. apply L. simpl. auto.
      * apply IH; auto. intros H. apply L. simpl. auto.
  - clear ND. induction fs as [|[k' t'] r IH]; simpl.
    + constructor; auto.
    + inversion O; subst. destruct (str_eqb k k'); constructor; auto.
Qed.
Lemma okf_lookup k t fs : okf fs = true -> lookup k fs = Some t -> okt t = true.
Proof.
  rewrite okf_iff. intros [_ O] L. apply lookup_In in L. rewrite Forall_forall in O. apply (O _ L).
Qed.
Lemma lookup_map_vals {A B} (h : str -> A -> B) k (l : list (str * A)) :
  lookup k (map (fun kt => (fst kt, h (fst kt) (snd kt))) l) = option_map (h k) (lookup k l).
Proof.
  induction l as [|[k' t'] r IH]; simpl; auto.
  destruct (str_eqb k k') eqn:E; auto. apply str_eqb_true in E. now subst.
Qed.

Section MergeSound.
  Variable accepts : pseudo -> str -> bool.
  Variable mf : N -> option fields.
  Variable uk : bool.
  Variable peq : N -> N -> bool.
  Notation ht := (htg accepts mf uk).
  Notation obj_ok := (obj_okg accepts mf uk).
  Notation wider := (widerg accepts mf uk).
  Hypothesis Hpeq : forall i j, peq i j = true -> forall v, ht v (TPtr i) <-> ht v (TPtr j).

  Lemma py_eq_wider_r a b : okt a = true -> okt b = true -> py_eq peq a b = true -> wider b a.
  Proof. intros Oa Ob E v H. apply (py_eq_sound accepts mf uk peq Hpeq a b (okt_okt0 _ Oa) (okt_okt0 _ Ob) E v). exact H. Qed.
  Lemma py_eq_wider_l a b : okt a = true -> okt b = true -> py_eq peq a b = true -> wider a b.
  Proof. intros Oa Ob E v H. apply (py_eq_sound accepts mf uk peq Hpeq a b (okt_okt0 _ Oa) (okt_okt0 _ Ob) E v). exact H. Qed.

  Lemma obj_ok_widen fs l k t t' :
    lookup k fs = Some t -> wider t t' -> (is_opt t' = false -> is_opt t = false) ->
    obj_ok fs l -> obj_ok (update k t' fs) l.
  Proof.
    intros Hk Hw Ho [H1 H2]. split.
    - eapply Forall_impl; [|exact H1]. intros [k0 v0] [t0 [L0 Hv]]. simpl in *.
      destruct (list_eq_dec N.eq_dec k0 k) as [->|Nk].
      + exists t'. rewrite lookup_update_same. split; auto. apply Hw. congruence.
      + exists t0. rewrite lookup_update_other; auto.
    - intros k0 t0 L0 O0. destruct (list_eq_dec N.eq_dec k0 k) as [->|Nk].
      + rewrite lookup_update_same in L0. inversion L0; subst. eapply H2; eauto.
      + rewrite lookup_update_other in L0; eauto.
  Qed.
  Lemma obj_ok_add_opt fs l k t :
    lookup k fs = None -> is_opt t = true -> obj_ok fs l -> obj_ok (update k t fs) l.
  Proof.
    intros Hk Ho [H1 H2]. split.
    - eapply Forall_impl; [|exact H1]. intros [k0 v0] [t0 [L0 Hv]]. simpl in *.
      exists t0. split; auto. rewrite lookup_update_other; auto. intros ->. congruence.
    - intros k0 t0 L0 O0. destruct (list_eq_dec N.eq_dec k0 k) as [->|Nk].
      + rewrite lookup_update_same in L0. inversion L0; subst. congruence.
      + rewrite lookup_update_other in L0; eauto.
  Qed.

  (* a later model's field never touches another key *)
  Lemma merge_field_other first acc name field k :
    k <> name -> lookup k (merge_field peq first acc (name, field)) = lookup k acc.
  Proof.
    intros N. unfold merge_field. destruct (lookup name acc) as [fo|].
    - destruct fo; repeat match goal with |- context [if ?c then _ else _] => destruct c end;
        try reflexivity; try (now apply lookup_update_other);
        destruct field; repeat match goal with |- context [if ?c then _ else _] => destruct c end;
        try reflexivity; now apply lookup_update_other.
    - now apply lookup_update_other.
  Qed.

  Lemma merge_field_okf first acc name field :
    okf acc = true -> okt field = true -> okf (merge_field peq first acc (name, field)) = true.
  Proof.
    intros Oa Of. unfold merge_field. destruct (lookup name acc) as [fo|] eqn:L.
    - pose proof (okf_lookup _ _ _ Oa L) as Ofo.
      assert (U : forall x, okt x = true -> okt (union1 (members field ++ members x)) = true).
      { intros x Ox. apply union1_okt, Forall_app. split; now apply members_okt. }
      destruct fo; repeat match goal with |- context [if ?c then _ else _] => destruct c end;
        try assumption; try (apply update_okf; auto; apply U; exact Ofo);
        try (destruct field; repeat match goal with |- context [if ?c then _ else _] => destruct c end;
             apply update_okf; auto; apply U; exact Ofo).
    - apply update_okf; auto. destruct (first || is_opt field); auto.
  Qed.

  (* one field of a later model (first = false): earlier objects stay valid *)
  Lemma merge_field_mono acc l name field :
    okf acc = true -> okt field = true -> obj_ok acc l -> obj_ok (merge_field peq false acc (name, field)) l.
  Proof.
    intros Oa Of H. unfold merge_field.
    destruct (lookup name acc) as [fo|] eqn:L.
    - pose proof (okf_lookup _ _ _ Oa L) as Ofo.
      assert (NonOpt : is_opt fo = false ->
        obj_ok (if py_eq peq fo field then acc
                else match field with
                     | TOpt f' => if py_eq peq fo f' then update name field acc
                                  else update name (union1 (members field ++ members fo)) acc
                     | _ => update name (union1 (members field ++ members fo)) acc
                     end) l).
      { intros NO. destruct (py_eq peq fo field); [exact H|].
        assert (U : obj_ok (update name (union1 (members field ++ members fo)) acc) l).
        { apply (obj_ok_widen acc l name fo _ L); [apply union1_wider_r | intros _; exact NO | exact H]. }
        destruct field; auto.
        destruct (py_eq peq fo field) eqn:E; auto.
        apply (obj_ok_widen acc l name fo _ L); [| intros; discriminate | exact H].
        intros v Hv. apply GOptS. eapply py_eq_wider_l; eauto. }
      destruct fo as [| | | | | |p|o ls|fo'|x|x|ts|fs|i]; try (apply NonOpt; reflexivity).
      destruct (py_eq peq (TOpt fo') field || py_eq peq fo' field); [exact H|].
      apply (obj_ok_widen acc l name (TOpt fo') _ L); [apply wider_opt_mono, union1_wider_r | intros; discriminate | exact H].
    - simpl. apply obj_ok_add_opt; auto. destruct (is_opt field) eqn:O; auto.
  Qed.

  (* what the merged set offers for a field of the model being merged *)
  Definition covers (acc : fields) (k : str) (t : ty) : Prop :=
    exists t', lookup k acc = Some t' /\ wider t t' /\ (is_opt t' = false -> is_opt t = false).

  Lemma merge_field_covers acc name field :
    okf acc = true -> okt field = true -> is_opt field = false ->
    covers (merge_field peq false acc (name, field)) name field.
  Proof.
    intros Oa Of NOf. unfold merge_field, covers.
    destruct (lookup name acc) as [fo|] eqn:L.
    - pose proof (okf_lookup _ _ _ Oa L) as Ofo.
      assert (NonOpt : is_opt fo = false ->
        exists t', lookup name (if py_eq peq fo field then acc
                else match field with
                     | TOpt f' => if py_eq peq fo f' then update name field acc
                                  else update name (union1 (members field ++ members fo)) acc
                     | _ => update name (union1 (members field ++ members fo)) acc
                     end) = Some t' /\ wider field t' /\ (is_opt t' = false -> is_opt field = false)).
      { intros NO. destruct (py_eq peq fo field) eqn:E.
        - exists fo. split; [exact L|split; [|intros _; exact NOf]]. eapply py_eq_wider_r; eauto.
        - destruct field; try discriminate;
            (eexists; split; [apply lookup_update_same|split; [apply union1_wider_l|auto]]). }
      destruct fo as [| | | | | |p|o ls|fo'|x|x|ts|fs|i]; try (apply NonOpt; reflexivity).
      destruct (py_eq peq (TOpt fo') field) eqn:E1; simpl.
      + exists (TOpt fo'). split; [exact L|split; [|discriminate]]. eapply py_eq_wider_r; eauto.
      + destruct (py_eq peq fo' field) eqn:E2.
        * exists (TOpt fo'). split; [exact L|split; [|discriminate]].
          intros v Hv. apply GOptS. exact (py_eq_wider_r fo' field Ofo Of E2 v Hv).
        * eexists; split; [apply lookup_update_same|split; [|discriminate]].
          intros v Hv. apply GOptS. now apply union1_wider_l.
    - simpl. rewrite NOf. eexists; split; [apply lookup_update_same|split; [apply wider_opt|discriminate]].
  Qed.


  Lemma fold_merge_false : forall model acc,
    okf model = true -> no_opt model = true -> okf acc = true ->
    let acc' := fold_left (merge_field peq false) model acc in
    okf acc' = true /\
    (forall l, obj_ok acc l -> obj_ok acc' l) /\
    (forall k t, In (k, t) model -> covers acc' k t) /\
    (forall k, ~ In k (map fst model) -> lookup k acc' = lookup k acc).
  Proof.
    induction model as [|[name field] r IH]; intros acc Om NOm Oa; cbv zeta; cbn [fold_left].
    - split; [exact Oa|split; [auto|split; [intros k t []|auto]]].
    - apply okf_iff in Om as [ND Om]. simpl in ND. inversion ND as [|? ? Nin NDr]; subst.
      inversion Om as [|? ? Ofield Or]; subst. simpl in Ofield.
      simpl in NOm. apply andb_prop in NOm as [NOf NOr]. apply negb_true_iff in NOf.
      assert (Or' : okf r = true) by (apply okf_iff; auto).
      pose proof (merge_field_okf false acc name field Oa Ofield) as Oa1.
      destruct (IH _ Or' NOr Oa1) as [I1 [I2 [I3 I4]]].
      split; [exact I1|]. split; [|split].
      + intros l Hl. apply I2. apply merge_field_mono; auto.
      + intros k t [Hin|Hin]; [|now apply I3].
        inversion Hin; subst. unfold covers. rewrite (I4 k Nin).
        apply merge_field_covers; auto.
      + intros k Hk. rewrite I4 by (intros X; apply Hk; simpl; auto). apply merge_field_other. intros ->. apply Hk; simpl; auto.
  Qed.

  Definition post_pass (acc model acc' : fields) : fields :=
    map (fun kt => if has_key (fst kt) acc && negb (has_key (fst kt) model)
                   then (fst kt, wrap_opt (snd kt)) else kt) acc'.
  Lemma post_pass_lookup acc model acc' k :
    lookup k (post_pass acc model acc') =
    option_map (fun t => if has_key k acc && negb (has_key k model) then wrap_opt t else t) (lookup k acc').
  Proof.
    unfold post_pass.
    rewrite <- (lookup_map_vals (fun k t => if has_key k acc && negb (has_key k model) then wrap_opt t else t)).
    f_equal. apply map_ext. intros [k' t']. simpl.
    destruct (has_key k' acc && negb (has_key k' model)); reflexivity.
  Qed.
  Lemma post_pass_okf acc model acc' : okf acc' = true -> okf (post_pass acc model acc') = true.
  Proof.
    rewrite !okf_iff. intros [ND O]. unfold post_pass. split.
    - rewrite map_map. erewrite map_ext; [exact ND|]. intros [k t]. simpl.
      destruct (has_key k acc && negb (has_key k model)); reflexivity.
    - apply Forall_map. eapply Forall_impl; [|exact O]. intros [k t]. simpl.
      destruct (has_key k acc && negb (has_key k model)); simpl; auto. now rewrite wrap_opt_okt.
  Qed.
  Lemma post_pass_mono acc model acc' l : obj_ok acc' l -> obj_ok (post_pass acc model acc') l.
  Proof.
    intros [H1 H2]. split.
    - eapply Forall_impl; [|exact H1]. intros [k v] [t [L Hv]]. simpl in *.
      rewrite post_pass_lookup, L. simpl. eexists; split; [reflexivity|].
      destruct (has_key k acc && negb (has_key k model)); auto. now apply wider_wrap_opt.
    - intros k t L NO. rewrite post_pass_lookup in L.
      destruct (lookup k acc') as [t0|] eqn:L0; [|discriminate]. simpl in L. inversion L; subst.
      destruct (has_key k acc && negb (has_key k model)).
      + rewrite is_opt_wrap_opt in NO. discriminate.
      + eauto.
  Qed.

  (* one later model: earlier objects stay valid, the new model's objects become valid *)
  Lemma merge_step_false acc model :
    okf model = true -> no_opt model = true -> okf acc = true ->
    let acc2 := snd (merge_step peq (false, acc) model) in
    fst (merge_step peq (false, acc) model) = false /\
    okf acc2 = true /\
    (forall l, obj_ok acc l -> obj_ok acc2 l) /\
    (forall l, obj_ok model l -> obj_ok acc2 l).
  Proof.
    intros Om NOm Oa. simpl.
    destruct (fold_merge_false model acc Om NOm Oa) as [I1 [I2 [I3 I4]]].
    fold (post_pass acc model (fold_left (merge_field peq false) model acc)).
    set (acc' := fold_left (merge_field peq false) model acc) in *.
    split; [reflexivity|]. split; [now apply post_pass_okf|]. split.
    - intros l Hl. apply post_pass_mono. now apply I2.
    - intros l [H1 H2]. split.
      + eapply Forall_impl; [|exact H1]. intros [k v] [t [L Hv]]. simpl in *.
        destruct (I3 k t (lookup_In _ _ _ L)) as [t' [L' [W _]]].
        rewrite post_pass_lookup, L'. simpl. unfold has_key at 2. rewrite L. simpl.
        rewrite andb_false_r. eexists; split; [reflexivity|]. now apply W.
      + intros k t L NO. rewrite post_pass_lookup in L.
        destruct (lookup k acc') as [t0|] eqn:L0; [|discriminate]. simpl in L. inversion L; subst. clear L.
        destruct (has_key k acc && negb (has_key k model)) eqn:C.
        * rewrite is_opt_wrap_opt in NO. discriminate.
        * unfold has_key in C. destruct (lookup k model) as [tm|] eqn:Lm.
          -- destruct (I3 k tm (lookup_In _ _ _ Lm)) as [t' [L' [_ O']]].
             assert (t' = t0) by congruence. subst t'. apply (H2 k tm Lm). auto.
          -- exfalso. rewrite (I4 k (lookup_None_notin _ _ Lm)) in L0. rewrite L0 in C. discriminate.
  Qed.

  Lemma merge_steps_false : forall sets objs acc,
    Forall2 (fun fs l => obj_ok fs l) sets objs ->
    Forall (fun fs => okf fs = true /\ no_opt fs = true) sets -> okf acc = true ->
    let final := snd (fold_left (merge_step peq) sets (false, acc)) in
    (forall l, obj_ok acc l -> obj_ok final l) /\ Forall (obj_ok final) objs /\ okf final = true.
  Proof.
    intros sets objs acc F. revert acc.
    induction F as [|fs l sets objs Hfl F IH]; intros acc Hs Oa; cbv zeta; cbn [fold_left].
    - cbn [snd]. split; auto.
    - inversion Hs as [|? ? [Ofs NOfs] Hs']; subst.
      pose proof (merge_step_false acc fs Ofs NOfs Oa) as MS. cbv zeta in MS.
      destruct (merge_step peq (false, acc) fs) as [b acc2]. cbn [fst snd] in MS.
      destruct MS as [E1 [O2 [M1 M2]]]. subst b.
      destruct (IH acc2 Hs' O2) as [J1 [J2 J3]].
      split; [intros l0 H0; apply J1, M1, H0|]. split; [constructor; auto|exact J3].
  Qed.

  (* the first model is copied *)
  Lemma fold_merge_true : forall model acc,
    NoDup (map fst model) -> (forall k, In k (map fst model) -> lookup k acc = None) ->
    fold_left (merge_field peq true) model acc = acc ++ model.
  Proof.
    induction model as [|[name field] r IH]; intros acc ND Hd; simpl.
    - now rewrite app_nil_r.
    - inversion ND as [|? ? Nin NDr]; subst. rewrite (Hd name) by (simpl; auto). simpl.
      assert (U : update name field acc = acc ++ [(name, field)]).
      { assert (L : lookup name acc = None) by (apply Hd; simpl; auto). clear -L.
        induction acc as [|[k t] a IHa]; simpl in *; auto.
        destruct (str_eqb name k); [discriminate|]. now rewrite IHa. }
      rewrite U, IH; auto.
      + now rewrite <- app_assoc.
      + intros k Hk. apply lookup_notin_None. rewrite map_app, in_app_iff. simpl.
        intros [H|[H|[]]].
        * apply (lookup_None_notin k acc); auto. apply Hd. simpl. auto.
        * subst. tauto.
  Qed.

  Lemma merge_step_true fs : NoDup (map fst fs) -> merge_step peq (true, []) fs = (false, fs).
  Proof.
    intros ND. unfold merge_step. rewrite (fold_merge_true fs [] ND) by reflexivity.
    rewrite app_nil_l. f_equal. rewrite <- (map_id fs) at 2. apply map_ext. intros kt. reflexivity.
  Qed.

  (* (4).  Side conditions forced by the proof, all decidable: every field set has unique keys and okt field
     types (okf); the sets after the first carry no Optional field (no_opt) — see merge_opt_refuted below. *)
  Theorem merge_field_sets_sound sets objs :
    Forall2 (fun fs l => obj_ok fs l) sets objs ->
    Forall (fun fs => okf fs = true) sets ->
    Forall (fun fs => no_opt fs = true) (tl sets) ->
    Forall (obj_ok (merge_field_sets peq sets)) objs /\ okf (merge_field_sets peq sets) = true.
  Proof.
    intros F O NO. unfold merge_field_sets. destruct F as [|fs l sets objs Hfl F]; [split; [constructor|reflexivity]|].
    cbn [tl] in NO. inversion O as [|? ? Ofs Os]; subst. cbn [fold_left].
    pose proof Ofs as Ofs'. apply okf_iff in Ofs' as [ND _].
    rewrite (merge_step_true fs ND).
    assert (Hs : Forall (fun fs => okf fs = true /\ no_opt fs = true) sets).
    { clear -Os NO. induction sets; constructor; inversion Os; inversion NO; subst; auto. }
    destruct (merge_steps_false sets objs fs F Hs Ofs) as [J1 [J2 J3]].
    split; [constructor; auto|exact J3].
  Qed.
  (* member form: an object valid for one of the sets is valid for the merged set *)
  Lemma merge_steps_member : forall sets acc,
    Forall (fun fs => okf fs = true /\ no_opt fs = true) sets -> okf acc = true ->
    let final := snd (fold_left (merge_step peq) sets (false, acc)) in
    (forall l, obj_ok acc l -> obj_ok final l) /\
    (forall fs l, In fs sets -> obj_ok fs l -> obj_ok final l) /\ okf final = true.
  Proof.
    induction sets as [|fs sets IH]; intros acc Hs Oa; cbv zeta; cbn [fold_left].
    - cbn [snd]. split; auto. split; auto. intros fs l [].
    - inversion Hs as [|? ? [Ofs NOfs] Hs']; subst.
      pose proof (merge_step_false acc fs Ofs NOfs Oa) as MS. cbv zeta in MS.
      destruct (merge_step peq (false, acc) fs) as [b acc2]. cbn [fst snd] in MS.
      destruct MS as [E1 [O2 [M1 M2]]]. subst b.
      destruct (IH acc2 Hs' O2) as [J1 [J2 J3]].
      split; [intros l0 H0; apply J1, M1, H0|]. split; [|exact J3].
      intros fs0 l0 [<-|Hin] H0; [apply J1, M2, H0|eapply J2; eauto].
  Qed.
  Theorem merge_member_sound sets :
    Forall (fun fs => okf fs = true) sets ->
    Forall (fun fs => no_opt fs = true) (tl sets) ->
    (forall fs l, In fs sets -> obj_ok fs l -> obj_ok (merge_field_sets peq sets) l) /\
    okf (merge_field_sets peq sets) = true.
  Proof.
    intros O NO. unfold merge_field_sets. destruct sets as [|fs sets]; [split; [intros fs l []|reflexivity]|].
    cbn [tl] in NO. inversion O as [|? ? Ofs Os]; subst. cbn [fold_left].
    pose proof Ofs as Ofs'. apply okf_iff in Ofs' as [ND _].
    rewrite (merge_step_true fs ND).
    assert (Hs : Forall (fun fs => okf fs = true /\ no_opt fs = true) sets).
    { clear -Os NO. induction sets; constructor; inversion Os; inversion NO; subst; auto. }
    destruct (merge_steps_member sets fs Hs Ofs) as [J1 [J2 J3]].
    split; [|exact J3]. intros fs0 l0 [<-|Hin] H0; [apply J1, H0|eapply J2; eauto].
  Qed.
  (* ---------------------------------------------------------------- *)
  (* Relaxed form for the registry stage: the merged sets may carry Optional fields.  merge_field can then
     produce a required union with an Optional *member* (merge_opt_refuted); the optimisation that follows
     pulls it to the top.  hopt: Optional on top, or a union with an Optional member. *)
  Definition obj_okh (fs : fields) (l : list (str * json)) : Prop :=
    Forall (fun kv => exists t, lookup (fst kv) fs = Some t /\ ht (snd kv) t) l /\
    (forall k t, lookup k fs = Some t -> hopt t = false -> In k (map fst l)).
  Lemma obj_ok_okh fs l : obj_ok fs l -> obj_okh fs l.
  Proof.
    intros [H1 H2]. split; auto. intros k t L NO. apply (H2 k t L).
    destruct (is_opt t) eqn:E; auto. apply hopt_is_opt in E. congruence.
  Qed.
  Lemma obj_okh_widen fs l k t t' :
    lookup k fs = Some t -> wider t t' -> (hopt t' = false -> hopt t = false) ->
    obj_okh fs l -> obj_okh (update k t' fs) l.
  Proof.
    intros Hk Hw Ho [H1 H2]. split.
    - eapply Forall_impl; [|exact H1]. intros [k0 v0] [t0 [L0 Hv]]. simpl in *.
      destruct (list_eq_dec N.eq_dec k0 k) as [->|Nk].
      + exists t'. rewrite lookup_update_same. split; auto. apply Hw. congruence.
      + exists t0. rewrite lookup_update_other; auto.
    - intros k0 t0 L0 O0. destruct (list_eq_dec N.eq_dec k0 k) as [->|Nk].
      + rewrite lookup_update_same in L0. inversion L0; subst. eapply H2; eauto.
      + rewrite lookup_update_other in L0; eauto.
  Qed.
  Lemma obj_okh_add_opt fs l k t :
    lookup k fs = None -> hopt t = true -> obj_okh fs l -> obj_okh (update k t fs) l.
  Proof.
    intros Hk Ho [H1 H2]. split.
    - eapply Forall_impl; [|exact H1]. intros [k0 v0] [t0 [L0 Hv]]. simpl in *.
      exists t0. split; auto. rewrite lookup_update_other; auto. intros ->. congruence.
    - intros k0 t0 L0 O0. destruct (list_eq_dec N.eq_dec k0 k) as [->|Nk].
      + rewrite lookup_update_same in L0. inversion L0; subst. congruence.
      + rewrite lookup_update_other in L0; eauto.
  Qed.

  Lemma merge_field_mono_h acc l name field :
    okf acc = true -> okt field = true -> obj_okh acc l -> obj_okh (merge_field peq false acc (name, field)) l.
  Proof.
    intros Oa Of H. unfold merge_field.
    destruct (lookup name acc) as [fo|] eqn:L.
    - pose proof (okf_lookup _ _ _ Oa L) as Ofo.
      assert (NonOpt : is_opt fo = false ->
        obj_okh (if py_eq peq fo field then acc
                else match field with
                     | TOpt f' => if py_eq peq fo f' then update name field acc
                                  else update name (union1 (members field ++ members fo)) acc
                     | _ => update name (union1 (members field ++ members fo)) acc
                     end) l).
      { intros NO. destruct (py_eq peq fo field); [exact H|].
        assert (U : obj_okh (update name (union1 (members field ++ members fo)) acc) l).
        { apply (obj_okh_widen acc l name fo _ L); [apply union1_wider_r | | exact H].
          intros X. destruct (hopt fo) eqn:E; auto. rewrite (union1_hopt_r field fo E) in X. discriminate. }
        destruct field; auto.
        destruct (py_eq peq fo field) eqn:E; auto.
        apply (obj_okh_widen acc l name fo _ L); [| intros; discriminate | exact H].
        intros v Hv. apply GOptS. eapply py_eq_wider_l; eauto. }
      destruct fo as [| | | | | |p|o ls|fo'|x|x|ts|fs|i]; try (apply NonOpt; reflexivity).
      destruct (py_eq peq (TOpt fo') field || py_eq peq fo' field); [exact H|].
      apply (obj_okh_widen acc l name (TOpt fo') _ L); [apply wider_opt_mono, union1_wider_r | intros; discriminate | exact H].
    - simpl. apply obj_okh_add_opt; auto. destruct (is_opt field) eqn:O; auto. now apply hopt_is_opt.
  Qed.

  Definition covers_h (acc : fields) (k : str) (t : ty) : Prop :=
    exists t', lookup k acc = Some t' /\ wider t t' /\ (hopt t' = false -> is_opt t = false).

  Lemma merge_field_covers_h acc name field :
    okf acc = true -> okt field = true -> covers_h (merge_field peq false acc (name, field)) name field.
  Proof.
    intros Oa Of. unfold merge_field, covers_h.
    destruct (lookup name acc) as [fo|] eqn:L.
    - pose proof (okf_lookup _ _ _ Oa L) as Ofo.
      assert (UL : exists t', lookup name (update name (union1 (members field ++ members fo)) acc) = Some t' /\
                     wider field t' /\ (hopt t' = false -> is_opt field = false)).
      { eexists; split; [apply lookup_update_same|split; [apply union1_wider_l|]].
        intros X. destruct (is_opt field) eqn:E; auto.
        rewrite (union1_hopt_l field fo (hopt_is_opt _ E)) in X. discriminate. }
      assert (NonOpt : is_opt fo = false ->
        exists t', lookup name (if py_eq peq fo field then acc
                else match field with
                     | TOpt f' => if py_eq peq fo f' then update name field acc
                                  else update name (union1 (members field ++ members fo)) acc
                     | _ => update name (union1 (members field ++ members fo)) acc
                     end) = Some t' /\ wider field t' /\ (hopt t' = false -> is_opt field = false)).
      { intros NO. destruct (py_eq peq fo field) eqn:E.
        - exists fo. split; [exact L|split].
          + eapply py_eq_wider_r; eauto.
          + intros _. destruct (is_opt field) eqn:Ef; auto.
            apply (py_eq_opt_r peq _ _ E) in Ef. congruence.
        - destruct field; try exact UL.
          destruct (py_eq peq fo field) eqn:E2; [|exact UL].
          eexists; split; [apply lookup_update_same|split; [intros v Hv; exact Hv|discriminate]]. }
      destruct fo as [| | | | | |p|o ls|fo'|x|x|ts|fs|i]; try (apply NonOpt; reflexivity).
      destruct (py_eq peq (TOpt fo') field) eqn:E1; simpl.
      + exists (TOpt fo'). split; [exact L|split; [|discriminate]]. eapply py_eq_wider_r; eauto.
      + destruct (py_eq peq fo' field) eqn:E2.
        * exists (TOpt fo'). split; [exact L|split; [|discriminate]].
          intros v Hv. apply GOptS. exact (py_eq_wider_r fo' field Ofo Of E2 v Hv).
        * eexists; split; [apply lookup_update_same|split; [|discriminate]].
          intros v Hv. apply GOptS. now apply union1_wider_l.
    - simpl. destruct (is_opt field) eqn:Ef.
      + eexists; split; [apply lookup_update_same|split; [intros v Hv; exact Hv|]].
        intros X. rewrite (hopt_is_opt _ Ef) in X. discriminate.
      + eexists; split; [apply lookup_update_same|split; [apply wider_opt|discriminate]].
  Qed.

  Lemma fold_merge_false_h : forall model acc,
    okf model = true -> okf acc = true ->
    let acc' := fold_left (merge_field peq false) model acc in
    okf acc' = true /\
    (forall l, obj_okh acc l -> obj_okh acc' l) /\
    (forall k t, In (k, t) model -> covers_h acc' k t) /\
    (forall k, ~ In k (map fst model) -> lookup k acc' = lookup k acc).
  Proof.
    induction model as [|[name field] r IH]; intros acc Om Oa; cbv zeta; cbn [fold_left].
    - split; [exact Oa|split; [auto|split; [intros k t []|auto]]].
    - apply okf_iff in Om as [ND Om]. simpl in ND. inversion ND as [|? ? Nin NDr]; subst.
      inversion Om as [|? ? Ofield Or]; subst. simpl in Ofield.
      assert (Or' : okf r = true) by (apply okf_iff; auto).
      pose proof (merge_field_okf false acc name field Oa Ofield) as Oa1.
      destruct (IH _ Or' Oa1) as [I1 [I2 [I3 I4]]].
      split; [exact I1|]. split; [|split].
      + intros l Hl. apply I2. apply merge_field_mono_h; auto.
      + intros k t [Hin|Hin]; [|now apply I3].
        inversion Hin; subst. unfold covers_h. rewrite (I4 k Nin).
        apply merge_field_covers_h; auto.
      + intros k Hk. rewrite I4 by (intros X; apply Hk; simpl; auto). apply merge_field_other. intros ->. apply Hk; simpl; auto.
  Qed.

  Lemma post_pass_mono_h acc model acc' l : obj_okh acc' l -> obj_okh (post_pass acc model acc') l.
  Proof.
    intros [H1 H2]. split.
    - eapply Forall_impl; [|exact H1]. intros [k v] [t [L Hv]]. simpl in *.
      rewrite post_pass_lookup, L. simpl. eexists; split; [reflexivity|].
      destruct (has_key k acc && negb (has_key k model)); auto. now apply wider_wrap_opt.
    - intros k t L NO. rewrite post_pass_lookup in L.
      destruct (lookup k acc') as [t0|] eqn:L0; [|discriminate]. simpl in L. inversion L; subst.
      destruct (has_key k acc && negb (has_key k model)).
      + rewrite (hopt_is_opt _ (is_opt_wrap_opt t0)) in NO. discriminate.
      + eauto.
  Qed.

  Lemma merge_step_false_h acc model :
    okf model = true -> okf acc = true ->
    let acc2 := snd (merge_step peq (false, acc) model) in
    fst (merge_step peq (false, acc) model) = false /\
    okf acc2 = true /\
    (forall l, obj_okh acc l -> obj_okh acc2 l) /\
    (forall l, obj_ok model l -> obj_okh acc2 l).
  Proof.
    intros Om Oa. simpl.
    destruct (fold_merge_false_h model acc Om Oa) as [I1 [I2 [I3 I4]]].
    fold (post_pass acc model (fold_left (merge_field peq false) model acc)).
    set (acc' := fold_left (merge_field peq false) model acc) in *.
    split; [reflexivity|]. split; [now apply post_pass_okf|]. split.
    - intros l Hl. apply post_pass_mono_h. now apply I2.
    - intros l [H1 H2]. split.
      + eapply Forall_impl; [|exact H1]. intros [k v] [t [L Hv]]. simpl in *.
        destruct (I3 k t (lookup_In _ _ _ L)) as [t' [L' [W _]]].
        rewrite post_pass_lookup, L'. simpl. unfold has_key at 2. rewrite L. simpl.
        rewrite andb_false_r. eexists; split; [reflexivity|]. now apply W.
      + intros k t L NO. rewrite post_pass_lookup in L.
        destruct (lookup k acc') as [t0|] eqn:L0; [|discriminate]. simpl in L. inversion L; subst. clear L.
        destruct (has_key k acc && negb (has_key k model)) eqn:C.
        * rewrite (hopt_is_opt _ (is_opt_wrap_opt t0)) in NO. discriminate.
        * unfold has_key in C. destruct (lookup k model) as [tm|] eqn:Lm.
          -- destruct (I3 k tm (lookup_In _ _ _ Lm)) as [t' [L' [_ O']]].
             assert (t' = t0) by congruence. subst t'. apply (H2 k tm Lm). auto.
          -- exfalso. rewrite (I4 k (lookup_None_notin _ _ Lm)) in L0. rewrite L0 in C. discriminate.
  Qed.

  Lemma merge_steps_member_h : forall sets acc,
    Forall (fun fs => okf fs = true) sets -> okf acc = true ->
    let final := snd (fold_left (merge_step peq) sets (false, acc)) in
    (forall l, obj_okh acc l -> obj_okh final l) /\
    (forall fs l, In fs sets -> obj_ok fs l -> obj_okh final l) /\ okf final = true.
  Proof.
    induction sets as [|fs sets IH]; intros acc Hs Oa; cbv zeta; cbn [fold_left].
    - cbn [snd]. split; auto. split; auto. intros fs l [].
    - inversion Hs as [|? ? Ofs Hs']; subst.
      pose proof (merge_step_false_h acc fs Ofs Oa) as MS. cbv zeta in MS.
      destruct (merge_step peq (false, acc) fs) as [b acc2]. cbn [fst snd] in MS.
      destruct MS as [E1 [O2 [M1 M2]]]. subst b.
      destruct (IH acc2 Hs' O2) as [J1 [J2 J3]].
      split; [intros l0 H0; apply J1, M1, H0|]. split; [|exact J3].
      intros fs0 l0 [<-|Hin] H0; [apply J1, M2, H0|eapply J2; eauto].
  Qed.
  (* merge alone, without no_opt: valid up to Optional members hidden in required unions *)
  Theorem merge_member_sound_h sets :
    Forall (fun fs => okf fs = true) sets ->
    (forall fs l, In fs sets -> obj_ok fs l -> obj_okh (merge_field_sets peq sets) l) /\
    okf (merge_field_sets peq sets) = true.
  Proof.
    intros O. unfold merge_field_sets. destruct sets as [|fs sets]; [split; [intros fs l []|reflexivity]|].
    inversion O as [|? ? Ofs Os]; subst. cbn [fold_left].
    pose proof Ofs as Ofs'. apply okf_iff in Ofs' as [ND _].
    rewrite (merge_step_true fs ND).
    destruct (merge_steps_member_h sets fs Os Ofs) as [J1 [J2 J3]].
    split; [|exact J3]. intros fs0 l0 [<-|Hin] H0; [apply J1, obj_ok_okh, H0|eapply J2; eauto].
  Qed.
End MergeSound.

(* without no_opt on the later sets the statement is false: an Optional field meeting a different required one
   becomes a required union with an Optional member *)
Example merge_opt_refuted :
  let a : str := [97%N] in
  let sets := [[(a, TInt)]; [(a, TOpt TStr)]] in
  let objs := [[(a, JInt 1)]; []] in
  merge_field_sets N.eqb sets = [(a, TUnion [TOpt TStr; TInt])] /\
  Forall2 (fun fs l => obj_ok (fun _ _ => false) (fun _ => None) fs l) sets objs /\
  ~ Forall (obj_ok (fun _ _ => false) (fun _ => None) (merge_field_sets N.eqb sets)) objs.
Proof.
  cbv zeta. split; [vm_compute; reflexivity|]. split.
  - constructor; [|constructor; [|constructor]].
    + split.
      * constructor; [|constructor]. exists TInt. split; [reflexivity|constructor].
      * intros k t L _. simpl in L. simpl. destruct (str_eqb k [97%N]) eqn:E; [|discriminate].
        apply str_eqb_true in E. auto.
    + split; [constructor|]. intros k t L NO. simpl in L.
      destruct (str_eqb k [97%N]); [|discriminate]. inversion L; subst. discriminate.
  - intros H. inversion H as [|? ? _ H']; subst. inversion H' as [|? ? [_ H2] _]; subst.
    apply (H2 [97%N] (TUnion [TOpt TStr; TInt])); reflexivity.
Qed.

(* ------------------------------------------------------------------ *)
(* (5) resolve / str_result                                            *)
(* ------------------------------------------------------------------ *)
(* As stated (only "replaces is sound") resolve_sound is false: with a cyclic replaces relation one round
   drops every member. *)
Example resolve_cyclic_refuted :
  let replaces := [(PInt, PFloat); (PFloat, PInt)] in
  (forall a b, In (a, b) replaces -> forall s : str, (fun _ _ => true) a s = true -> (fun (_ : pseudo) (_ : str) => true) b s = true) /\
  resolve replaces 3 [PInt; PFloat] = [] /\
  str_result replaces [TPseudo PInt; TPseudo PFloat; TPseudo PDate] = [TPseudo PDate].
Proof. cbv zeta. split; [auto|]. split; vm_compute; reflexivity. Qed.

Section Resolve.
  Variable accepts : pseudo -> str -> bool.
  Variable mf : N -> option fields.
  Variable uk : bool.
  Variable replaces : list (pseudo * pseudo).
  Notation ht := (htg accepts mf uk).
  Hypothesis Hrep : forall a b, In (a, b) replaces -> forall s, accepts a s = true -> accepts b s = true.
  (* decidable acyclicity certificate: every proper replaces edge goes up in rank *)
  Variable rank : pseudo -> nat.
  Hypothesis Hrank : forallb (fun pq => pseudo_eqb (fst pq) (snd pq) || (rank (fst pq) <? rank (snd pq))) replaces = true.

  Definition pcov (p q : pseudo) : Prop := forall s, accepts p s = true -> accepts q s = true.

  Lemma replaced_by_inv ps p : replaced_by replaces ps p = true ->
    exists q, In q ps /\ p <> q /\ In (p, q) replaces.
  Proof.
    unfold replaced_by. intros H. apply existsb_exists in H as [q [Hq H]].
    apply andb_prop in H as [N H]. apply existsb_exists in H as [[a b] [Hin H]].
    apply andb_prop in H as [H1 H2]. simpl in *. apply pseudo_eqb_true in H1, H2. subst.
    exists q. repeat split; auto. intros ->. rewrite pseudo_eqb_refl in N. discriminate.
  Qed.
  Lemma rank_lt a b : In (a, b) replaces -> a <> b -> rank a < rank b.
  Proof.
    intros Hin N. rewrite forallb_forall in Hrank. specialize (Hrank _ Hin). simpl in Hrank.
    apply orb_prop in Hrank as [H|H].
    - apply pseudo_eqb_true in H. contradiction.
    - now apply Nat.ltb_lt in H.
  Qed.
  Definition rank_top : nat :=
    rank PInt + rank PFloat + rank PBool + rank PDate + rank PTime + rank PDatetime.
  Lemma rank_le_top p : rank p <= rank_top.
  Proof. unfold rank_top. destruct p; lia. Qed.

  Lemma round_cover ps : forall n p, In p ps -> rank_top - rank p < n ->
    exists q, In q (filter (fun t => negb (replaced_by replaces ps t)) ps) /\ pcov p q.
  Proof.
    induction n as [|n IH]; intros p Hp Hn; [lia|].
    destruct (replaced_by replaces ps p) eqn:R.
    - apply replaced_by_inv in R as [q [Hq [Npq Hin]]].
      pose proof (rank_lt _ _ Hin Npq) as Lt. pose proof (rank_le_top q) as Le.
      destruct (IH q Hq) as [q' [Hq' C]]; [lia|].
      exists q'. split; auto. intros s Hs. apply C. eapply Hrep; eauto.
    - exists p. split; [|intros s Hs; exact Hs]. apply filter_In. rewrite R. auto.
  Qed.

  Theorem resolve_sound : forall fuel ps p, In p ps ->
    exists q, In q (resolve replaces fuel ps) /\ forall s, accepts p s = true -> accepts q s = true.
  Proof.
    induction fuel as [|f IH]; intros ps p Hp; simpl.
    - exists p. auto.
    - destruct (existsb (replaced_by replaces ps) ps).
      + destruct (round_cover ps (S (rank_top - rank p)) p Hp) as [q [Hq C]]; [lia|].
        destruct (IH _ q Hq) as [q' [Hq' C']]. exists q'. split; auto.
      + exists p. auto.
  Qed.

  Lemma pdedup_in p : forall l, In p l -> In p (pdedup l).
  Proof.
    unfold pdedup. intros l.
    assert (G : forall acc, In p acc \/ In p l ->
      In p (fold_left (fun acc p => if pmem p acc then acc else acc ++ [p]) l acc)).
    { induction l as [|x r IH]; simpl; intros acc H.
      - destruct H as [H|[]]; auto.
      - apply IH. destruct H as [H|[H|H]]; auto.
        + left. destruct (pmem x acc); auto. apply in_or_app. auto.
        + subst. left. destruct (pmem p acc) eqn:E.
          * unfold pmem in E. apply existsb_exists in E as [y [Hy Ey]]. apply pseudo_eqb_true in Ey. now subst.
          * apply in_or_app. simpl. auto. }
    intros H. apply G. auto.
  Qed.

  Corollary str_result_sound strs t v :
    In t strs -> (t = TStr \/ exists p, t = TPseudo p) -> ht v t -> Exists (ht v) (str_result replaces strs).
  Proof.
    intros Hin Ht Hv.
    assert (S : exists s, v = JStr s).
    { destruct Ht as [->|[p ->]]; inversion Hv; subst; eauto. }
    destruct S as [s ->]. unfold str_result.
    destruct (existsb is_str strs) eqn:Es; [constructor; constructor|].
    assert (M : forall X : list ty, match strs with [] => [] | _ :: _ => X end = X)
      by (destruct strs; [inversion Hin|reflexivity]).
    rewrite M. clear M. cbv zeta.
    destruct Ht as [->|[p ->]].
    { exfalso. assert (X : existsb is_str strs = true) by (apply existsb_exists; exists TStr; auto). congruence. }
    inversion Hv; subst.
    assert (Hp : In p (pseudos_of strs)).
    { unfold pseudos_of. apply pdedup_in. apply in_flat_map. exists (TPseudo p). simpl. auto. }
    destruct (resolve_sound (S (length (pseudos_of strs))) _ p Hp) as [q [Hq C]].
    destruct (resolve replaces (S (length (pseudos_of strs))) (pseudos_of strs)) as [|q0 [|q1 qr]].
    - constructor; constructor.
    - destruct Hq as [->|[]]. constructor. constructor. auto.
    - constructor; constructor.
  Qed.
End Resolve.

(* ------------------------------------------------------------------ *)
(* (6) optimize                                                        *)
(* ------------------------------------------------------------------ *)
(* optimize_sound is false for the official semantics: Any is dropped beside a concrete member, so a value
   accepted only by Any is lost *)
Example optimize_any_refuted :
  let t := TUnion [TUnknown; TInt] in
  optimize [] [] N.eqb 5 t = Some TInt /\
  ht (fun _ _ => false) (fun _ => None) (JStr []) t /\
  ~ ht (fun _ _ => false) (fun _ => None) (JStr []) TInt.
Proof.
  cbv zeta. split; [vm_compute; reflexivity|]. split.
  - apply HUnion with (t := TUnknown); [simpl; auto|constructor].
  - intros H. inversion H.
Qed.
(* ... and no decidable condition on the term helps: the raw term below is what two samples {"f": []} and
   {"f": [1]} produce; the official semantics of TList TUnknown accepts every array. *)
Example optimize_any_refuted_raw :
  let t := TUnion [TList TUnknown; TList TInt] in
  optimize [] [] N.eqb 5 t = Some (TList TInt) /\
  ht (fun _ _ => false) (fun _ => None) (JArr [JStr []]) t /\
  ~ ht (fun _ _ => false) (fun _ => None) (JArr [JStr []]) (TList TInt).
Proof.
  cbv zeta. split; [vm_compute; reflexivity|]. split.
  - apply HUnion with (t := TList TUnknown); [simpl; auto|]. constructor. constructor; constructor.
  - intros H. inversion H; subst.
    match goal with HF : Forall _ [JStr []] |- _ => inversion HF as [|? ? H1 _]; subst; inversion H1 end.
Qed.

Definition olist (o : ty -> option ty) : list ty -> option (list ty) :=
  fix go (l : list ty) : option (list ty) :=
  match l with
  | [] => Some []
  | x :: r => match o x, go r with Some x', Some r' => Some (x' :: r') | _, _ => None end
  end.
Definition ofields (o : ty -> option ty) : fields -> option fields :=
  fix go (l : fields) : option fields :=
  match l with
  | [] => Some []
  | (k, x) :: r => match o x, go r with Some x', Some r' => Some ((k, x') :: r') | _, _ => None end
  end.
Lemma optimize_S registry replaces peq fuel t :
  optimize registry replaces peq (S fuel) t =
  match t with
  | TObj fs => option_map TObj (ofields (optimize registry replaces peq fuel) fs)
  | TOpt x => match optimize registry replaces peq fuel x with
              | Some (TOpt y) => Some (TOpt y) | Some y => Some (TOpt y) | None => None end
  | TList x => option_map TList (optimize registry replaces peq fuel x)
  | TDict x => option_map TDict (optimize registry replaces peq fuel x)
  | TLit o ls => Some (if o || match ls with [] => true | _ => false end then TStr else t)
  | TUnion ts => match olist (optimize registry replaces peq fuel) (regroup registry replaces peq ts) with
                 | None => None | Some types => finish types end
  | _ => Some t
  end.
Proof. destruct t; reflexivity. Qed.

Lemma olist_Forall2 o : forall l l', olist o l = Some l' -> Forall2 (fun x x' => o x = Some x') l l'.
Proof.
  induction l as [|x r IH]; simpl; intros l' H.
  - inversion H. constructor.
  - destruct (o x) as [x'|] eqn:E; [|discriminate]. destruct (olist o r) as [r'|]; [|discriminate].
    inversion H; subst. constructor; auto.
Qed.
Lemma ofields_lookup o : forall l l', ofields o l = Some l' -> forall k,
  match lookup k l with
  | Some t => exists t', lookup k l' = Some t' /\ o t = Some t'
  | None => lookup k l' = None
  end.
Proof.
  induction l as [|[k0 x] r IH]; simpl; intros l' H k.
  - inversion H. reflexivity.
  - destruct (o x) as [x'|] eqn:E; [|discriminate]. destruct (ofields o r) as [r'|] eqn:E'; [|discriminate].
    inversion H; subst. simpl. destruct (str_eqb k k0); eauto. apply IH; auto.
Qed.

Lemma remove_first_keep {A} (f : A -> bool) x : forall l, In x l -> f x = false -> In x (remove_first f l).
Proof.
  induction l as [|y r IH]; simpl; intros H F; [contradiction|].
  destruct H as [->|H].
  - rewrite F. simpl. auto.
  - destruct (f y); simpl; auto.
Qed.
Lemma remove_first_sub {A} (f : A -> bool) x : forall l, In x (remove_first f l) -> In x l.
Proof.
  induction l as [|y r IH]; simpl; intros H; [contradiction|].
  destruct (f y); simpl in *; tauto.
Qed.

Section Finish.
  Variable accepts : pseudo -> str -> bool.
  Variable mf : N -> option fields.
  Notation hts := (htg accepts mf false).

  Lemma finish_sound v types t' : Exists (hts v) types -> finish types = Some t' -> hts v t'.
  Proof.
    intros H F. apply Exists_exists in H as [t [Hin Ht]].
    destruct types as [|x [|y r]]; [inversion Hin| |].
    - simpl in F. inversion F; subst. destruct Hin as [->|[]]. exact Ht.
    - remember (x :: y :: r) as types eqn:ET.
      assert (F' : Some (let types1 := if existsb is_unknown types && existsb (fun t => negb (is_unknown t) && negb (is_null t)) types
                   then remove_first is_unknown types else types in
               if existsb is_null types1 then TOpt (union1 (filter (fun x => negb (is_null x)) types1))
               else union1 (filter (fun x => negb (is_null x)) types1)) = Some t').
      { rewrite <- F. subst types. reflexivity. }
      clear F. inversion F' as [F]. clear F'. cbv zeta.
      set (types1 := if existsb is_unknown types && existsb (fun t => negb (is_unknown t) && negb (is_null t)) types
                   then remove_first is_unknown types else types).
      assert (NU : is_unknown t = false).
      { destruct t; auto. inversion Ht. discriminate. }
      assert (In1 : In t types1).
      { unfold types1. destruct (existsb is_unknown types && _); auto. now apply remove_first_keep. }
      destruct (is_null t) eqn:NN.
      + destruct t; try discriminate. inversion Ht; subst.
        assert (E : existsb is_null types1 = true) by (apply existsb_exists; exists TNull; auto).
        rewrite E. constructor.
      + assert (M : hts v (union1 (filter (fun x => negb (is_null x)) types1))).
        { apply union1_sound. apply Exists_exists. exists t. split; auto. apply filter_In. rewrite NN. auto. }
        destruct (existsb is_null types1); auto. now apply GOptS.
  Qed.
End Finish.

Definition okT (t : ty) : bool := match t with TObj fs => okf fs | _ => okt t end.
Lemma okt_okT t : okt t = true -> okT t = true.
Proof. destruct t; auto. simpl okT. rewrite okt_obj. intros H. apply andb_prop in H. tauto. Qed.

Definition add_null (st : cats) : cats :=
  let '(strs, objs, lists, dicts, other) := st in (strs, objs, lists, dicts, other ++ [TNull]).
Definition classify (registry : list pseudo) (st : cats) (item : ty) : cats :=
  let '(strs, objs, lists, dicts, other) := st in
  match item with
  | TObj f => (strs, objs ++ [f], lists, dicts, other)
  | TList x => (strs, objs, lists ++ [x], dicts, other)
  | TDict x => (strs, objs, lists, dicts ++ [x], other)
  | _ => if in_reg registry item then (strs ++ [item], objs, lists, dicts, other)
         else (strs, objs, lists, dicts, other ++ [item])
  end.
Lemma split_step_eq registry st t :
  split_step registry st t =
  match t with TOpt x => classify registry (add_null st) x | _ => classify registry st t end.
Proof. destruct st as [[[[strs objs] lists] dicts] other]. destruct t; reflexivity. Qed.

Section Regroup.
  Variable accepts : pseudo -> str -> bool.
  Variable mf : N -> option fields.
  Variable registry : list pseudo.
  Variable replaces : list (pseudo * pseudo).
  Variable peq : N -> N -> bool.
  Notation hts := (htg accepts mf false).
  Hypothesis Hpeq : forall i j, peq i j = true -> forall v, hts v (TPtr i) <-> hts v (TPtr j).
  Hypothesis Hrep : forall a b, In (a, b) replaces -> forall s, accepts a s = true -> accepts b s = true.
  Variable rank : pseudo -> nat.
  Hypothesis Hrank : forallb (fun pq => pseudo_eqb (fst pq) (snd pq) || (rank (fst pq) <? rank (snd pq))) replaces = true.

  Definition sreg (t : ty) : Prop := t = TStr \/ exists p, t = TPseudo p.
  Definition catinv (st : cats) : Prop :=
    let '(strs, objs, lists, dicts, other) := st in
    Forall sreg strs /\ Forall (fun f => okf f = true /\ no_opt f = true) objs /\
    okts lists /\ okts dicts /\ okts other.
  Definition catcov (v : json) (st : cats) : Prop :=
    let '(strs, objs, lists, dicts, other) := st in
    Exists (hts v) other \/ Exists (hts v) strs \/ Exists (fun f => hts v (TObj f)) objs \/
    Exists (fun x => hts v (TList x)) lists \/ Exists (fun x => hts v (TDict x)) dicts.

  Lemma add_null_inv st : catinv st -> catinv (add_null st).
  Proof.
    destruct st as [[[[strs objs] lists] dicts] other]. simpl. intros [A [B [C [D E]]]].
    repeat split; auto. apply Forall_app. split; auto.
  Qed.
  Lemma add_null_keep v st : catcov v st -> catcov v (add_null st).
  Proof.
    destruct st as [[[[strs objs] lists] dicts] other]. simpl. rewrite Exists_app. tauto.
  Qed.
  Lemma add_null_new st : catcov JNull (add_null st).
  Proof.
    destruct st as [[[[strs objs] lists] dicts] other]. simpl. left. apply Exists_app. right.
    constructor. constructor.
  Qed.
  Lemma classify_inv st t : catinv st -> okt t = true -> catinv (classify registry st t).
  Proof.
    destruct st as [[[[strs objs] lists] dicts] other]. intros [A [B [C [D E]]]] O.
    assert (Def : catinv (if in_reg registry t then (strs ++ [t], objs, lists, dicts, other)
                          else (strs, objs, lists, dicts, other ++ [t]))).
    { destruct (in_reg registry t) eqn:R; simpl; repeat split; auto; apply Forall_app; split; auto.
      constructor; [|constructor]. destruct t; try discriminate; [left; auto|right; eauto]. }
    destruct t; try exact Def; simpl; repeat split; auto; apply Forall_app; split; auto.
    rewrite okt_obj in O. apply andb_prop in O. constructor; auto.
  Qed.
  Lemma classify_keep v st t : catcov v st -> catcov v (classify registry st t).
  Proof.
    destruct st as [[[[strs objs] lists] dicts] other]. intros H. simpl in H.
    destruct t; simpl; try (destruct (pmem _ _)); simpl; rewrite ?Exists_app; tauto.
  Qed.
  Lemma classify_new v st t : hts v t -> catcov v (classify registry st t).
  Proof.
    destruct st as [[[[strs objs] lists] dicts] other]. intros H.
    assert (Def : catcov v (if in_reg registry t then (strs ++ [t], objs, lists, dicts, other)
                            else (strs, objs, lists, dicts, other ++ [t]))).
    { destruct (in_reg registry t); simpl; rewrite Exists_app.
      - right. left. right. constructor. exact H.
      - left. right. constructor. exact H. }
    destruct t; try exact Def; simpl; rewrite Exists_app.
    - right. right. right. left. right. constructor. exact H.
    - right. right. right. right. right. constructor. exact H.
    - right. right. left. right. constructor. exact H.
  Qed.
  Lemma split_fold : forall ts st, catinv st -> okts ts ->
    catinv (fold_left (split_step registry) ts st) /\
    (forall v, catcov v st -> catcov v (fold_left (split_step registry) ts st)) /\
    (forall v, Exists (hts v) ts -> catcov v (fold_left (split_step registry) ts st)).
  Proof.
    induction ts as [|t r IH]; intros st I O; cbn [fold_left].
    - split; auto. split; auto. intros v H. inversion H.
    - inversion O as [|? ? Ot Or]; subst.
      assert (I1 : catinv (split_step registry st t)).
      { rewrite split_step_eq. destruct t; try (apply classify_inv; assumption).
        apply classify_inv; [now apply add_null_inv|exact Ot]. }
      assert (K1 : forall v, catcov v st -> catcov v (split_step registry st t)).
      { intros v H. rewrite split_step_eq. destruct t; try (apply classify_keep; assumption).
        apply classify_keep. now apply add_null_keep. }
      assert (N1 : forall v, hts v t -> catcov v (split_step registry st t)).
      { intros v H. rewrite split_step_eq. destruct t; try (apply classify_new; assumption).
        inversion H; subst.
        - apply classify_keep, add_null_new.
        - apply classify_new; auto. }
      destruct (IH _ I1 Or) as [J1 [J2 J3]].
      split; auto. split; auto.
      intros v H. inversion H; subst; auto.
  Qed.

  Lemma regroup_sound ts : okts ts ->
    Forall (fun t => okT t = true) (regroup registry replaces peq ts) /\
    forall v, Exists (hts v) ts -> Exists (hts v) (regroup registry replaces peq ts).
  Proof.
    intros O. unfold regroup.
    assert (I0 : catinv ([], [], [], [], [])) by (simpl; repeat split; constructor).
    pose proof (flat_map_members_deep_okt ts O) as OD.
    pose proof (fun v => flat_map_members_deep_cov accepts mf false v ts) as CD.
    destruct (split_fold (flat_map members_deep ts) _ I0 OD) as [I [_ C]].
    destruct (fold_left (split_step registry) (flat_map members_deep ts) ([], [], [], [], []))
      as [[[[strs objs] lists] dicts] other].
    destruct I as [Is [Io [Il [Id Ie]]]].
    set (other' := if existsb (ty_eqb TInt) other && existsb (ty_eqb TFloat) other
                   then remove_first (ty_eqb TInt) other else other).
    assert (Oo' : okts other').
    { unfold other'. destruct (_ && _); auto. rewrite Forall_forall in *. intros x Hx.
      apply Ie. eapply remove_first_sub; eauto. }
    assert (Co' : forall v, Exists (hts v) other -> Exists (hts v) other').
    { intros v H. unfold other'.
      destruct (existsb (ty_eqb TInt) other && existsb (ty_eqb TFloat) other) eqn:E; auto.
      apply andb_prop in E as [_ E]. apply existsb_exists in E as [x [Hx Ex]]. apply ty_eqb_eq in Ex. subst x.
      apply Exists_exists in H as [t [Hin Ht]]. apply Exists_exists.
      destruct (ty_eqb TInt t) eqn:Et.
      - apply ty_eqb_eq in Et. subst t. inversion Ht; subst.
        exists TFloat. split; [apply remove_first_keep; auto|constructor].
      - exists t. split; auto. apply remove_first_keep; auto. }
    assert (Mo : match objs with [] => True | _ =>
               okf (merge_field_sets peq objs) = true /\
               forall v, Exists (fun f => hts v (TObj f)) objs -> hts v (TObj (merge_field_sets peq objs)) end).
    { destruct objs as [|f0 fr] eqn:Eo; [exact I|]. rewrite <- Eo in *.
      assert (O1 : Forall (fun fs => okf fs = true) objs).
      { eapply Forall_impl; [|exact Io]. simpl. tauto. }
      assert (O2 : Forall (fun fs => no_opt fs = true) (tl objs)).
      { destruct objs; simpl; [constructor|]. inversion Io; subst. eapply Forall_impl; [|eassumption]. simpl. tauto. }
      destruct (merge_member_sound accepts mf false peq Hpeq objs O1 O2) as [M1 M2].
      split; auto. intros v H. apply Exists_exists in H as [f [Hf Hv]].
      inversion Hv; subst. destruct (M1 f l Hf) as [A B]; [split; auto|]. now apply GObj. }
    split.
    - repeat (apply Forall_app; split).
      + eapply Forall_impl; [|exact Oo']. intros x. apply okt_okT.
      + destruct objs; [constructor|]. constructor; [|constructor]. simpl. tauto.
      + destruct lists; [constructor|]. constructor; [|constructor]. simpl. now apply dunion_okt.
      + destruct dicts; [constructor|]. constructor; [|constructor]. simpl. now apply dunion_okt.
      + unfold str_result. destruct (existsb is_str strs); [repeat constructor|].
        destruct strs; [constructor|]. cbv zeta.
        destruct (resolve _ _ _) as [|q0 [|q1 qr]]; repeat constructor.
    - intros v H. specialize (C v (CD v H)). simpl in C. rewrite !Exists_app.
      destruct C as [C|[C|[C|[C|C]]]].
      + left. left. left. left. auto.
      + right. apply Exists_exists in C as [t [Hin Ht]].
        rewrite Forall_forall in Is.
        eapply (str_result_sound accepts mf false replaces Hrep rank Hrank); eauto. apply (Is _ Hin).
      + left. left. left. right. destruct objs; [inversion C|]. constructor. now apply Mo.
      + left. left. right. destruct lists as [|x0 xr] eqn:El; [inversion C|]. rewrite <- El in *.
        constructor. apply Exists_exists in C as [x [Hin Hx]]. inversion Hx; subst. constructor.
        eapply Forall_impl; [|eassumption]. intros e He. apply dunion_sound.
        apply Exists_exists. eauto.
      + left. right. destruct dicts as [|x0 xr] eqn:El; [inversion C|]. rewrite <- El in *.
        constructor. apply Exists_exists in C as [x [Hin Hx]]. inversion Hx; subst. constructor.
        eapply Forall_impl; [|eassumption]. intros e He. apply dunion_sound.
        apply Exists_exists. eauto.
  Qed.
End Regroup.

Lemma optimize_is_opt registry replaces peq fuel t t' :
  optimize registry replaces peq fuel t = Some t' -> is_opt t = true -> is_opt t' = true.
Proof.
  destruct fuel; [discriminate|]. rewrite optimize_S. destruct t; try discriminate.
  intros H _. destruct (optimize registry replaces peq fuel t) as [[]|]; inversion H; reflexivity.
Qed.

Section OptimizeSound.
  Variable accepts : pseudo -> str -> bool.
  Variable mf : N -> option fields.
  Variable registry : list pseudo.
  Variable replaces : list (pseudo * pseudo).
  Variable peq : N -> N -> bool.
  Notation hts := (htg accepts mf false).
  Hypothesis Hpeq : forall i j, peq i j = true -> forall v, hts v (TPtr i) <-> hts v (TPtr j).
  Hypothesis Hrep : forall a b, In (a, b) replaces -> forall s, accepts a s = true -> accepts b s = true.
  Variable rank : pseudo -> nat.
  Hypothesis Hrank : forallb (fun pq => pseudo_eqb (fst pq) (snd pq) || (rank (fst pq) <? rank (snd pq))) replaces = true.
  Notation optimize := (optimize registry replaces peq).

  Lemma exists_opt (o : ty -> option ty) v : forall l l',
    Forall2 (fun x x' => o x = Some x') l l' -> Forall (fun t => okT t = true) l ->
    (forall x x', okT x = true -> o x = Some x' -> hts v x -> hts v x') ->
    Exists (hts v) l -> Exists (hts v) l'.
  Proof.
    intros l l' F. induction F as [|x x' r r' Hx F IH]; intros O HI E; [inversion E|].
    inversion O; subst. inversion E; subst.
    - constructor. eapply HI; eauto.
    - constructor 2. apply IH; auto.
  Qed.

  (* (6), for the strict semantics.  Side condition (decidable): okT t. *)
  Theorem optimize_sound_strict : forall fuel t t', okT t = true -> optimize fuel t = Some t' ->
    forall v, hts v t -> hts v t'.
  Proof.
    induction fuel as [|fuel IH]; intros t t' O E v Hv; [discriminate|].
    rewrite optimize_S in E. destruct t; try (inversion E; subst; exact Hv).
    - (* TLit *) inversion E; subst. inversion Hv; subst; simpl.
      + destruct ls; [contradiction|]. exact Hv.
      + constructor.
    - (* TOpt *) simpl in O. destruct (optimize fuel t) as [y|] eqn:Ey; [|discriminate].
      assert (R : t' = match y with TOpt y' => TOpt y' | _ => TOpt y end) by (destruct y; inversion E; reflexivity).
      inversion Hv; subst.
      + destruct y; constructor.
      + assert (Hy : hts v y) by (eapply IH; eauto; now apply okt_okT).
        destruct y; try (apply GOptS; exact Hy). exact Hy.
    - (* TList *) simpl in O. destruct (optimize fuel t) as [y|] eqn:Ey; [|discriminate].
      inversion E; subst. inversion Hv; subst. constructor.
      eapply Forall_impl; [|eassumption]. intros e He. eapply IH; eauto. now apply okt_okT.
    - (* TDict *) simpl in O. destruct (optimize fuel t) as [y|] eqn:Ey; [|discriminate].
      inversion E; subst. inversion Hv; subst. constructor.
      eapply Forall_impl; [|eassumption]. intros e He. eapply IH; eauto. now apply okt_okT.
    - (* TUnion *) unfold okT in O. rewrite okt_union in O.
      assert (Ots : okts ts) by (rewrite forallb_forall in O; apply Forall_forall; auto).
      destruct (regroup_sound accepts mf registry replaces peq Hpeq Hrep rank Hrank ts Ots) as [R1 R2].
      destruct (olist (optimize fuel) (regroup registry replaces peq ts)) as [types|] eqn:EL; [|discriminate].
      apply olist_Forall2 in EL.
      apply (finish_sound accepts mf v types t'); auto.
      apply (exists_opt (optimize fuel) v _ _ EL R1).
      + intros x x' Ox Ex Hx. eapply IH; eauto.
      + apply R2. inversion Hv; subst. apply Exists_exists. eauto.
    - (* TObj *) simpl in O.
      destruct (ofields (optimize fuel) fs) as [fs'|] eqn:EF; [|discriminate].
      inversion E; subst. pose proof (ofields_lookup _ _ _ EF) as L.
      inversion Hv; subst.
      match goal with H1 : Forall _ l, H2 : forall k t, lookup k fs = Some t -> _ |- _ => rename H1 into V1; rename H2 into V2 end.
      apply GObj.
      + eapply Forall_impl; [|exact V1]. intros [k w] [t [Lk Hw]]. simpl in *.
        specialize (L k). rewrite Lk in L. destruct L as [t2 [L2 E2]].
        exists t2. split; auto. eapply IH; eauto. apply okt_okT. eapply okf_lookup; eauto.
      + intros k t2 L2 NO. specialize (L k). destruct (lookup k fs) as [t|] eqn:Lk; [|congruence].
        destruct L as [t3 [L3 E3]]. assert (t3 = t2) by congruence. subst t3.
        apply (V2 k t); auto. destruct (is_opt t) eqn:Ot; auto.
        rewrite (optimize_is_opt _ _ _ _ _ _ E3 Ot) in NO. discriminate.
  Qed.
End OptimizeSound.

(* ------------------------------------------------------------------ *)
(* (d) registry stage: merge followed by optimize                       *)
(* ------------------------------------------------------------------ *)
(* a union with an Optional member is Optional after optimisation *)
Definition catK (st : cats) : Prop :=
  let '(strs, objs, lists, dicts, other) := st in
  In TNull other /\
  (2 <= length other \/ 1 <= length objs \/ 1 <= length lists \/ 1 <= length dicts \/ 1 <= length strs).
Lemma classify_K registry st t : catK st -> catK (classify registry st t).
Proof.
  destruct st as [[[[strs objs] lists] dicts] other]. intros [A B].
  destruct t; simpl; try (destruct (pmem _ _)); simpl; rewrite ?app_length, ?in_app_iff; simpl; split; auto; lia.
Qed.
Lemma add_null_K st : catK st -> catK (add_null st).
Proof.
  destruct st as [[[[strs objs] lists] dicts] other]. intros [A B].
  simpl; rewrite ?app_length, ?in_app_iff; simpl; split; auto; lia.
Qed.
Lemma classify_null_K registry st x : catK (classify registry (add_null st) x).
Proof.
  destruct st as [[[[strs objs] lists] dicts] other].
  destruct x; simpl; try (destruct (pmem _ _)); simpl; rewrite ?app_length, ?in_app_iff; simpl; split; auto; lia.
Qed.
Lemma split_fold_K registry : forall ts st,
  (catK st -> catK (fold_left (split_step registry) ts st)) /\
  (existsb is_opt ts = true -> catK (fold_left (split_step registry) ts st)).
Proof.
  induction ts as [|t r IH]; intros st; cbn [fold_left].
  - split; auto. discriminate.
  - assert (K1 : catK st -> catK (split_step registry st t)).
    { intros H. rewrite split_step_eq. destruct t; try (now apply classify_K).
      apply classify_K. now apply add_null_K. }
    destruct (IH (split_step registry st t)) as [I1 I2].
    split; [auto|]. simpl. intros H. apply orb_prop in H as [H|H]; [|auto].
    apply I1. rewrite split_step_eq. destruct t; try discriminate. apply classify_null_K.
Qed.
Lemma remove_first_length {A} (f : A -> bool) : forall l, length l <= S (length (remove_first f l)).
Proof. induction l as [|x r IH]; simpl; auto. destruct (f x); simpl; lia. Qed.
Lemma In_length_pos {A} (x : A) l : In x l -> 1 <= length l.
Proof. destruct l; simpl; [contradiction|lia]. Qed.
Lemma str_result_len replaces strs : 1 <= length strs -> 1 <= length (str_result replaces strs).
Proof.
  intros H. unfold str_result. destruct (existsb is_str strs); [simpl; lia|].
  destruct strs; [simpl in H; lia|]. cbv zeta.
  destruct (resolve _ _ _) as [|q0 [|q1 qr]]; simpl; lia.
Qed.
(* the work-list: every item lands in exactly one category (an Optional item, which members_deep never
   produces, would land twice), and a Null item lands in [other] *)
Definition catlen (st : cats) : nat :=
  let '(strs, objs, lists, dicts, other) := st in
  length strs + length objs + length lists + length dicts + length other.
Definition catnull (st : cats) : Prop :=
  let '(strs, objs, lists, dicts, other) := st in In TNull other.
Lemma classify_len registry st t : catlen (classify registry st t) = S (catlen st).
Proof.
  destruct st as [[[[strs objs] lists] dicts] other].
  destruct t; simpl; try (destruct (pmem _ _)); simpl; rewrite ?app_length; simpl; lia.
Qed.
Lemma add_null_len st : catlen (add_null st) = S (catlen st).
Proof. destruct st as [[[[strs objs] lists] dicts] other]. simpl. rewrite app_length. simpl. lia. Qed.
Lemma classify_null_keep registry st t : catnull st -> catnull (classify registry st t).
Proof.
  destruct st as [[[[strs objs] lists] dicts] other]. simpl. intros H.
  destruct t; simpl; try (destruct (pmem _ _)); simpl; rewrite ?in_app_iff; auto.
Qed.
Lemma add_null_null st : catnull (add_null st).
Proof. destruct st as [[[[strs objs] lists] dicts] other]. simpl. rewrite in_app_iff. simpl. auto. Qed.
Lemma split_fold_len registry : forall ts st,
  catlen st + length ts <= catlen (fold_left (split_step registry) ts st) /\
  (catnull st \/ In TNull ts -> catnull (fold_left (split_step registry) ts st)).
Proof.
  induction ts as [|t r IH]; intros st; cbn [fold_left].
  - split; [simpl; lia|]. intros [H|[]]. exact H.
  - destruct (IH (split_step registry st t)) as [I1 I2].
    assert (L1 : S (catlen st) <= catlen (split_step registry st t)).
    { rewrite split_step_eq. destruct t; rewrite ?classify_len, ?add_null_len; lia. }
    assert (N1 : catnull st \/ t = TNull -> catnull (split_step registry st t)).
    { rewrite split_step_eq. intros [H| ->].
      - destruct t; try (now apply classify_null_keep). apply classify_null_keep, add_null_null.
      - destruct st as [[[[strs objs] lists] dicts] other]. simpl. rewrite in_app_iff. simpl. auto. }
    split; [simpl; lia|]. intros [H|[H|H]]; apply I2; auto.
Qed.
Lemma In_null_members_deep ts : existsb is_opt ts = true -> In TNull (flat_map members_deep ts).
Proof.
  intros H. apply existsb_exists in H as [m [Hm Ho]]. apply in_flat_map. exists m. split; auto.
  destruct m; try discriminate. simpl. auto.
Qed.
(* Before the D32 repair the second hypothesis was not needed (every Optional member put two items into the
   categories); now an Optional member with an empty payload work-list only leaves its Null. *)
Example regroup_K_old_refuted :
  let ts := [TOpt (TUnion [])] in
  existsb is_opt ts = true /\ regroup [] [] N.eqb ts = [TNull] /\
  optimize [] [] N.eqb 5 (TUnion ts) = Some TNull.
Proof. vm_compute. auto. Qed.
Lemma regroup_K registry replaces peq ts :
  existsb is_opt ts = true -> 2 <= length (flat_map members_deep ts) ->
  In TNull (regroup registry replaces peq ts) /\ 2 <= length (regroup registry replaces peq ts).
Proof.
  intros H HL. destruct (split_fold_len registry (flat_map members_deep ts) ([], [], [], [], [])) as [KLen KNull].
  specialize (KNull (or_intror (In_null_members_deep ts H))).
  unfold regroup.
  destruct (fold_left (split_step registry) (flat_map members_deep ts) ([], [], [], [], []))
    as [[[[strs objs] lists] dicts] other].
  simpl in KLen, KNull.
  assert (K : In TNull other /\
    (2 <= length other \/ 1 <= length objs \/ 1 <= length lists \/ 1 <= length dicts \/ 1 <= length strs)).
  { split; auto. pose proof (In_length_pos _ _ KNull). lia. }
  destruct K as [KN KL].
  set (other' := if existsb (ty_eqb TInt) other && existsb (ty_eqb TFloat) other
                 then remove_first (ty_eqb TInt) other else other).
  assert (N' : In TNull other').
  { unfold other'. destruct (_ && _); auto. apply remove_first_keep; auto. }
  assert (L' : 2 <= length other -> 2 <= length other').
  { intros L2. unfold other'.
    destruct (existsb (ty_eqb TInt) other && existsb (ty_eqb TFloat) other) eqn:E; auto.
    apply andb_prop in E as [E1 E2].
    apply existsb_exists in E1 as [x [Hx Ex]]. apply ty_eqb_eq in Ex. subst x.
    apply existsb_exists in E2 as [y [Hy Ey]]. apply ty_eqb_eq in Ey. subst y.
    assert (L3 : length [TNull; TInt; TFloat] <= length other).
    { apply NoDup_incl_length.
      - repeat constructor; simpl; intuition discriminate.
      - intros z [<-|[<-|[<-|[]]]]; auto. }
    simpl in L3. pose proof (remove_first_length (ty_eqb TInt) other). lia. }
  split.
  - rewrite !in_app_iff. auto.
  - rewrite !app_length. pose proof (In_length_pos _ _ N') as P.
    destruct KL as [KL|[KL|[KL|[KL|KL]]]].
    + apply L' in KL. lia.
    + destruct objs; simpl in *; lia.
    + destruct lists; simpl in *; lia.
    + destruct dicts; simpl in *; lia.
    + pose proof (str_result_len replaces strs KL). lia.
Qed.
Lemma F2_length {A B} (R : A -> B -> Prop) l l' : Forall2 R l l' -> length l = length l'.
Proof. induction 1; simpl; auto. Qed.
Lemma finish_opt types t' : 2 <= length types -> In TNull types -> finish types = Some t' -> is_opt t' = true.
Proof.
  intros L N F. destruct types as [|x [|y r]]; [simpl in L; lia|simpl in L; lia|].
  remember (x :: y :: r) as types eqn:ET.
  assert (F' : Some (let types1 := if existsb is_unknown types && existsb (fun t => negb (is_unknown t) && negb (is_null t)) types
               then remove_first is_unknown types else types in
           if existsb is_null types1 then TOpt (union1 (filter (fun x => negb (is_null x)) types1))
           else union1 (filter (fun x => negb (is_null x)) types1)) = Some t').
  { rewrite <- F. subst types. reflexivity. }
  clear F. inversion F' as [F]. clear F'. cbv zeta.
  set (types1 := if existsb is_unknown types && existsb (fun t => negb (is_unknown t) && negb (is_null t)) types
               then remove_first is_unknown types else types).
  assert (In1 : In TNull types1).
  { unfold types1. destruct (_ && _); auto. now apply remove_first_keep. }
  assert (E : existsb is_null types1 = true) by (apply existsb_exists; exists TNull; auto).
  rewrite E. reflexivity.
Qed.
Lemma optimize_hopt registry replaces peq fuel t t' :
  optimize registry replaces peq fuel t = Some t' -> hopt t = true -> is_opt t' = true.
Proof.
  intros E H. unfold hopt in H. apply orb_prop in H as [H|H]; [eapply optimize_is_opt; eauto|].
  destruct t; try discriminate. apply andb_prop in H as [H HL]. apply Nat.leb_le in HL.
  destruct fuel; [discriminate|]. rewrite optimize_S in E.
  destruct (olist (optimize registry replaces peq fuel) (regroup registry replaces peq ts)) as [types|] eqn:EL; [|discriminate].
  apply olist_Forall2 in EL. destruct (regroup_K registry replaces peq ts H HL) as [RN RL].
  apply (finish_opt types); auto.
  - rewrite <- (F2_length _ _ _ EL). exact RL.
  - clear -EL RN. induction EL as [|x x' r r' Hx F IH]; [contradiction|].
    destruct RN as [->|RN]; [|right; auto].
    left. destruct fuel; [discriminate|]. rewrite optimize_S in Hx. now inversion Hx.
Qed.

Section RegistryStage.
  Variable accepts : pseudo -> str -> bool.
  Variable mf : N -> option fields.
  Variable registry : list pseudo.
  Variable replaces : list (pseudo * pseudo).
  Variable peq : N -> N -> bool.
  Notation hts := (htg accepts mf false).
  Notation obj_oks := (obj_okg accepts mf false).
  Hypothesis Hpeq : forall i j, peq i j = true -> forall v, hts v (TPtr i) <-> hts v (TPtr j).
  Hypothesis Hrep : forall a b, In (a, b) replaces -> forall s, accepts a s = true -> accepts b s = true.
  Variable rank : pseudo -> nat.
  Hypothesis Hrank : forallb (fun pq => pseudo_eqb (fst pq) (snd pq) || (rank (fst pq) <? rank (snd pq))) replaces = true.

  (* optimisation of a field set that is valid "up to hidden Optional" gives a valid field set *)
  Lemma optimize_fields_okh fuel fs fs' l :
    okf fs = true -> obj_okh accepts mf false fs l ->
    optimize_fields registry replaces peq fuel fs = Some fs' -> obj_oks fs' l.
  Proof.
    intros O [H1 H2] E. unfold optimize_fields in E.
    destruct (optimize registry replaces peq fuel (TObj fs)) as [t'|] eqn:EO; [|discriminate].
    destruct t'; try discriminate. inversion E; subst fs0. clear E.
    destruct fuel; [discriminate|]. rewrite optimize_S in EO.
    destruct (ofields (optimize registry replaces peq fuel) fs) as [fs2|] eqn:EF; [|discriminate].
    inversion EO; subst fs2. clear EO. pose proof (ofields_lookup _ _ _ EF) as L.
    split.
    - eapply Forall_impl; [|exact H1]. intros [k w] [t [Lk Hw]]. simpl in *.
      specialize (L k). rewrite Lk in L. destruct L as [t2 [L2 E2]].
      exists t2. split; auto.
      apply (optimize_sound_strict accepts mf registry replaces peq Hpeq Hrep rank Hrank fuel t t2); auto.
      apply okt_okT. eapply okf_lookup; eauto.
    - intros k t2 L2 NO. specialize (L k). destruct (lookup k fs) as [t|] eqn:Lk; [|congruence].
      destruct L as [t3 [L3 E3]]. assert (t3 = t2) by congruence. subst t3.
      apply (H2 k t); auto. destruct (hopt t) eqn:Ot; auto.
      rewrite (optimize_hopt _ _ _ _ _ _ E3 Ot) in NO. discriminate.
  Qed.

  (* (d) merge followed by optimize: no no_opt condition on the sets *)
  Theorem merge_optimize_sound sets fuel fs' :
    Forall (fun fs => okf fs = true) sets ->
    optimize_fields registry replaces peq fuel (merge_field_sets peq sets) = Some fs' ->
    forall fs l, In fs sets -> obj_oks fs l -> obj_oks fs' l.
  Proof.
    intros O E fs l Hin Hl.
    destruct (merge_member_sound_h accepts mf false peq Hpeq sets O) as [M1 M2].
    eapply optimize_fields_okh; eauto.
  Qed.
End RegistryStage.

(* (d) for the official semantics, when neither the merged sets nor the registered models mention Any *)
Fixpoint nounk (t : ty) : bool :=
  match t with
  | TUnknown => false
  | TOpt x | TList x | TDict x => nounk x
  | TUnion ts => (fix all l := match l with [] => true | x :: r => nounk x && all r end) ts
  | TObj fs => (fix all (l : fields) := match l with [] => true | (_, x) :: r => nounk x && all r end) fs
  | _ => true
  end.
Lemma nounk_union ts : nounk (TUnion ts) = forallb nounk ts.
Proof. simpl. induction ts as [|x r IH]; simpl; auto; try (now rewrite IH). Qed.
Lemma nounk_obj fs : nounk (TObj fs) = forallb (fun kv => nounk (snd kv)) fs.
Proof. simpl. induction fs as [|[k x] r IH]; simpl; auto; try (now rewrite IH). Qed.
Lemma ht_nounk_strict accepts mf :
  (forall i fs, mf i = Some fs -> nounk (TObj fs) = true) ->
  forall v t, nounk t = true -> ht accepts mf v t -> htg accepts mf false v t.
Proof.
  intros Hmf.
  assert (OBJ : forall l, Forall (fun kv => forall t, nounk t = true -> ht accepts mf (snd kv) t -> htg accepts mf false (snd kv) t) l ->
            forall fs, nounk (TObj fs) = true -> ht accepts mf (JObj l) (TObj fs) -> htg accepts mf false (JObj l) (TObj fs)).
  { intros l H fs NL Hv. inversion Hv; subst. apply GObj; auto.
    rewrite nounk_obj in NL. rewrite forallb_forall in NL. rewrite Forall_forall in *. intros kv Hkv.
    match goal with V : forall x, In x l -> exists t, _ |- _ => destruct (V kv Hkv) as [t [L Ht]] end.
    exists t. split; auto. apply (H kv Hkv t); auto. apply (NL _ (lookup_In _ _ _ L)). }
  induction v using json_ind2; induction t using ty_ind2; intros NL Hv; inversion Hv; subst;
    try discriminate;
    try (now constructor);
    try (apply GOptS; apply IHt; assumption);
    try (rewrite nounk_union in NL; rewrite forallb_forall in NL; rewrite Forall_forall in *; eapply GUnion; eauto; fail);
    try (constructor; rewrite Forall_forall in *; intros x Hx; eapply H; [exact Hx|exact NL|eauto]; fail).
  - apply OBJ; auto.
  - eapply GPtr; eauto.
Qed.

(* without the strict reading (or nounk) the registry-stage statement is false for the same reason as
   optimize_any_refuted: Any is dropped beside a concrete member *)
Example merge_optimize_any_refuted :
  let f : str := [102%N] in
  let sets := [[(f, TList TUnknown)]; [(f, TList TInt)]] in
  let l := [(f, JArr [JStr []])] in
  optimize_fields [] [] N.eqb 6 (merge_field_sets N.eqb sets) = Some [(f, TList TInt)] /\
  obj_ok (fun _ _ => false) (fun _ => None) [(f, TList TUnknown)] l /\
  ~ obj_ok (fun _ _ => false) (fun _ => None) [(f, TList TInt)] l.
Proof.
  cbv zeta. split; [vm_compute; reflexivity|]. split.
  - split.
    + constructor; [|constructor]. exists (TList TUnknown). split; [reflexivity|].
      constructor. constructor; constructor.
    + intros k t L _. simpl in L. simpl. destruct (str_eqb k [102%N]) eqn:E; [|discriminate].
      apply str_eqb_true in E. auto.
  - intros [H _]. inversion H as [|? ? [t [L Ht]] _]; subst. simpl in L. inversion L; subst.
    inversion Ht; subst.
    match goal with HF : Forall _ [JStr []] |- _ => inversion HF as [|? ? H1 _]; subst; inversion H1 end.
Qed.

Section RegistryStageOfficial.
  Variable accepts : pseudo -> str -> bool.
  Variable mf : N -> option fields.
  Variable registry : list pseudo.
  Variable replaces : list (pseudo * pseudo).
  Variable peq : N -> N -> bool.
  Hypothesis Hpeq : forall i j, peq i j = true -> forall v, ht accepts mf v (TPtr i) <-> ht accepts mf v (TPtr j).
  Hypothesis Hrep : forall a b, In (a, b) replaces -> forall s, accepts a s = true -> accepts b s = true.
  Variable rank : pseudo -> nat.
  Hypothesis Hrank : forallb (fun pq => pseudo_eqb (fst pq) (snd pq) || (rank (fst pq) <? rank (snd pq))) replaces = true.
  Hypothesis Hmf : forall i fs, mf i = Some fs -> nounk (TObj fs) = true.

  Theorem merge_optimize_sound_ht sets fuel fs' :
    Forall (fun fs => okf fs = true) sets ->
    Forall (fun fs => nounk (TObj fs) = true) sets ->
    optimize_fields registry replaces peq fuel (merge_field_sets peq sets) = Some fs' ->
    forall fs l, In fs sets -> obj_ok accepts mf fs l -> obj_ok accepts mf fs' l.
  Proof.
    intros O NU E fs l Hin [H1 H2].
    assert (Hpeq' : forall i j, peq i j = true ->
              forall v, htg accepts mf false v (TPtr i) <-> htg accepts mf false v (TPtr j)).
    { intros i j Eij v. split; intros X; apply (ht_nounk_strict accepts mf Hmf); auto;
        apply (Hpeq i j Eij v); eapply htg_ht; eauto. }
    assert (S : obj_okg accepts mf false fs l).
    { split; auto. rewrite Forall_forall in NU. specialize (NU fs Hin). rewrite nounk_obj, forallb_forall in NU.
      eapply Forall_impl; [|exact H1]. intros kv [t [L Ht]]. exists t. split; auto.
      apply (ht_nounk_strict accepts mf Hmf); auto. apply (NU _ (lookup_In _ _ _ L)). }
    destruct (merge_optimize_sound accepts mf registry replaces peq Hpeq' Hrep rank Hrank sets fuel fs' O E fs l Hin S) as [R1 R2].
    split; auto. eapply Forall_impl; [|exact R1]. intros kv [t [L Ht]]. exists t. split; auto.
    eapply htg_ht; eauto.
  Qed.
End RegistryStageOfficial.

(* ------------------------------------------------------------------ *)
(* (7) detection                                                       *)
(* ------------------------------------------------------------------ *)
Lemma wf_json_arr l : wf_json (JArr l) = true -> Forall (fun x => wf_json x = true) l.
Proof.
  simpl. induction l as [|x r IH]; intros H; constructor.
  - apply andb_prop in H. tauto.
  - apply IH. apply andb_prop in H. tauto.
Qed.
Lemma wf_json_obj l : wf_json (JObj l) = true ->
  NoDup (map fst l) /\ Forall (fun kv => wf_json (snd kv) = true) l.
Proof.
  simpl. intros H. apply andb_prop in H as [H1 H2]. split.
  - clear H2. induction l as [|[k x] r IH]; simpl; constructor.
    + apply andb_prop in H1 as [H1 _]. apply negb_true_iff in H1. intros Hin.
      apply in_map_iff in Hin as [[k' x'] [Ek Hin]]. simpl in Ek. subst k'.
      assert (X : existsb (fun kv : str * json => str_eqb k (fst kv)) r = true).
      { apply existsb_exists. exists (k, x'). split; auto. simpl. apply str_eqb_refl. }
      congruence.
    + apply IH. apply andb_prop in H1. tauto.
  - clear H1. induction l as [|[k x] r IH]; constructor.
    + simpl. apply andb_prop in H2. tauto.
    + apply IH. apply andb_prop in H2. tauto.
Qed.

Section DetectSound.
  Variable accepts : pseudo -> str -> bool.
  Variable mf : N -> option fields.
  Variable uk : bool.
  Variable registry : list pseudo.
  Variable n_regex : nat.
  Variable key_matches : nat -> str -> bool.
  Variable dict_fields : list str.
  Notation ht := (htg accepts mf uk).
  Notation obj_ok := (obj_okg accepts mf uk).
  Notation detect := (detect registry accepts n_regex key_matches dict_fields).
  Notation convert := (convert registry accepts n_regex key_matches dict_fields).
  Notation elem_type := (elem_type).

  Lemma elem_type_sound types v : Exists (ht v) types -> ht v (Detect.elem_type types).
  Proof.
    intros H. destruct types as [|t [|t2 r]].
    - inversion H.
    - inversion H; subst; auto. inversion H1.
    - apply (union1_sound accepts mf uk v _ H).
  Qed.
  Lemma elem_type_okt types : okts types -> okt (Detect.elem_type types) = true.
  Proof.
    intros H. destruct types as [|t [|t2 r]].
    - reflexivity.
    - now inversion H.
    - apply (union1_okt _ H).
  Qed.
  Lemma detect_not_opt cd v : is_opt (detect cd v) = false.
  Proof.
    destruct v; simpl; auto.
    - unfold detect_str. destruct (find _ _); auto. unfold mk_lit. destruct (lit_overflow _); auto.
    - destruct l; auto. destruct (_ && _); auto.
  Qed.
  Lemma detect_arr l : detect true (JArr l) = TList (Detect.elem_type (map (detect true) l)).
  Proof. simpl. f_equal. Qed.
  Lemma detect_obj cd kvs : detect cd (JObj kvs) =
    match kvs with
    | [] => TDict TUnknown
    | _ => if cd && negb (all_keys_match n_regex key_matches (map fst kvs)) then TObj (convert kvs)
           else TDict (Detect.elem_type (map (fun kv => detect true (snd kv)) kvs))
    end.
  Proof.
    destruct kvs as [|kv0 r]; [reflexivity|]. remember (kv0 :: r) as kvs eqn:E.
    assert (E1 : (fix go (l : list (str * json)) : fields :=
                    match l with
                    | [] => []
                    | (k, x) :: r => (k, detect (negb (existsb (str_eqb k) dict_fields)) x) :: go r
                    end) kvs = convert kvs).
    { clear E. unfold Detect.convert. induction kvs as [|[k x] r' IH]; simpl; auto. now rewrite IH. }
    assert (E2 : (fix go (l : list (str * json)) := match l with [] => [] | (_, x) :: r => detect true x :: go r end) kvs
                 = map (fun kv => detect true (snd kv)) kvs).
    { clear E E1. induction kvs as [|[k x] r' IH]; simpl; auto. now rewrite IH. }
    rewrite <- E1, <- E2. subst kvs. reflexivity.
  Qed.

  Lemma convert_gen kvs : NoDup (map fst kvs) ->
    Forall (fun kv => forall cd, ht (snd kv) (detect cd (snd kv)) /\ okt (detect cd (snd kv)) = true) kvs ->
    obj_ok (convert kvs) kvs /\ okf (convert kvs) = true /\ no_opt (convert kvs) = true.
  Proof.
    intros ND F. unfold Detect.convert.
    set (g := fun kv : str * json => (fst kv, detect (negb (existsb (str_eqb (fst kv)) dict_fields)) (snd kv))).
    assert (K : map fst (map g kvs) = map fst kvs) by (rewrite map_map; apply map_ext; reflexivity).
    rewrite Forall_forall in F.
    split; [split|split].
    - apply Forall_forall. intros [k x] Hin. simpl.
      exists (detect (negb (existsb (str_eqb k) dict_fields)) x). split.
      + apply In_lookup_nodup; [now rewrite K|]. apply in_map_iff. exists (k, x). auto.
      + apply (F _ Hin).
    - intros k t L _. rewrite <- K. eapply lookup_Some_in; eauto.
    - apply okf_iff. rewrite K. split; auto. apply Forall_map. apply Forall_forall.
      intros kv Hin. simpl. apply (F _ Hin).
    - unfold no_opt. rewrite forallb_forall. intros kt Hin. apply in_map_iff in Hin as [kv [<- Hin]].
      simpl. now rewrite detect_not_opt.
  Qed.

  Lemma detect_gen : forall v cd, wf_json v = true -> ht v (detect cd v) /\ okt (detect cd v) = true.
  Proof.
    induction v using json_ind2; intros cd W; try (split; [constructor|reflexivity]).
    - (* JStr *) simpl. unfold detect_str. destruct (find (fun p => accepts p s) registry) as [p|] eqn:Ef.
      + apply find_some in Ef as [_ Ef]. split; [now constructor|reflexivity].
      + unfold mk_lit. destruct (lit_overflow [s]); split; try reflexivity.
        * apply GLitO.
        * apply GLit. simpl. auto.
    - (* JArr *) apply wf_json_arr in W.
      assert (cd_irrel : detect cd (JArr l) = detect true (JArr l)) by reflexivity.
      rewrite cd_irrel, detect_arr. rewrite Forall_forall in H, W. split.
      + constructor. apply Forall_forall. intros x Hx. apply elem_type_sound.
        apply Exists_exists. exists (detect true x). split; [now apply in_map|]. apply H; auto.
      + simpl. apply elem_type_okt. apply Forall_map. apply Forall_forall. intros x Hx. apply H; auto.
    - (* JObj *) apply wf_json_obj in W as [ND W]. rewrite detect_obj.
      rewrite Forall_forall in H, W.
      destruct l as [|kv0 r] eqn:El; [split; [constructor; constructor|reflexivity]|]. rewrite <- El in *.
      destruct (cd && negb (all_keys_match n_regex key_matches (map fst l))).
      + destruct (convert_gen l ND) as [[A B] [C D]].
        { apply Forall_forall. intros kv Hin cd'. apply H; auto. }
        split; [now apply GObj|]. rewrite okt_obj, C, D. reflexivity.
      + split.
        * constructor. apply Forall_forall. intros kv Hx. apply elem_type_sound.
          apply Exists_exists. exists (detect true (snd kv)). split.
          -- apply in_map_iff. exists kv. auto.
          -- apply H; auto.
        * simpl. apply elem_type_okt. apply Forall_map. apply Forall_forall. intros kv Hx. apply H; auto.
  Qed.

  (* (7) for every uk (in particular for the strict reading uk = false) *)
  Theorem detect_sound_g cd v : wf_json v = true -> ht v (detect cd v).
  Proof. intros W. now apply detect_gen. Qed.
  Theorem convert_sound_g kvs : wf_json (JObj kvs) = true ->
    obj_ok (convert kvs) kvs /\ okf (convert kvs) = true /\ no_opt (convert kvs) = true.
  Proof.
    intros W. apply wf_json_obj in W as [ND W]. apply convert_gen; auto.
    eapply Forall_impl; [|exact W]. intros kv Wk cd. now apply detect_gen.
  Qed.
End DetectSound.

(* (7) for the official semantics *)
Theorem detect_sound accepts mf registry n_regex key_matches dict_fields cd v :
  wf_json v = true -> ht accepts mf v (detect registry accepts n_regex key_matches dict_fields cd v).
Proof. intros W. apply htg_true_iff. now apply detect_sound_g. Qed.
Theorem convert_sound accepts mf registry n_regex key_matches dict_fields kvs :
  wf_json (JObj kvs) = true ->
  obj_ok accepts mf (convert registry accepts n_regex key_matches dict_fields kvs) kvs.
Proof. intros W. apply obj_okg_true_iff. now apply convert_sound_g. Qed.

(* ------------------------------------------------------------------ *)
(* by-product (not used below any more): optimised terms carry no overflowed literal *)
(* ------------------------------------------------------------------ *)
Fixpoint nolo (t : ty) : bool :=
  match t with
  | TLit o _ => negb o
  | TOpt x | TList x | TDict x => nolo x
  | TUnion ts => (fix all l := match l with [] => true | x :: r => nolo x && all r end) ts
  | TObj fs => (fix all (l : fields) := match l with [] => true | (_, x) :: r => nolo x && all r end) fs
  | _ => true
  end.
Notation nolos := (Forall (fun x => nolo x = true)).
Lemma nolo_union ts : nolo (TUnion ts) = forallb nolo ts.
Proof. simpl. induction ts as [|x r IH]; simpl; auto; try (now rewrite IH). Qed.
Lemma nolo_obj fs : nolo (TObj fs) = forallb (fun kv => nolo (snd kv)) fs.
Proof. simpl. induction fs as [|[k x] r IH]; simpl; auto; try (now rewrite IH). Qed.
Lemma nolo_union_Forall ts : nolo (TUnion ts) = true <-> nolos ts.
Proof. rewrite nolo_union, forallb_forall, Forall_forall. tauto. Qed.
Lemma flat_nolo : forall t, nolo t = true -> nolos (flat t).
Proof.
  induction t using ty_ind2; intros O; try (constructor; [exact O|constructor]).
  apply nolo_union_Forall in O. simpl.
  induction H as [|x r Hx Hr IH]; [constructor|].
  inversion O; subst. apply Forall_app. split; auto.
Qed.
Lemma add_unique_nolo u t : nolos u -> nolo t = true -> nolos (add_unique u t).
Proof.
  unfold add_unique. intros Hu Ht. destruct (existsb (ty_eqb t) u); auto.
  apply Forall_app. split; auto.
Qed.
Lemma union_step_nolo st t : nolos (fst (fst st)) -> nolo t = true -> nolos (fst (fst (union_step st t))).
Proof.
  destruct st as [[u ul] ls]. simpl. intros Hu Ht.
  destruct t; simpl; try (apply add_unique_nolo; auto).
  destruct (negb ul); simpl; auto. destruct overflow; simpl; auto.
Qed.
Lemma union_fold_nolo : forall l st, nolos (fst (fst st)) -> nolos l -> nolos (fst (fst (fold_left union_step l st))).
Proof.
  induction l as [|t r IH]; simpl; intros st Hu Hl; auto.
  inversion Hl; subst. apply IH; auto. apply union_step_nolo; auto.
Qed.
Lemma mk_union_nolo ts : nolos ts -> nolos (mk_union ts).
Proof.
  intros H. unfold mk_union.
  assert (F : nolos (flatten_union ts)) by (apply flat_nolo, nolo_union_Forall, H).
  pose proof (union_fold_nolo (flatten_union ts) ([], true, []) (Forall_nil _) F) as U.
  destruct (fold_left union_step (flatten_union ts) ([], true, [])) as [[u ul] ls]. simpl in U.
  assert (S : forall u', nolos u' -> nolos (add_unique u' TStr)) by (intros; apply add_unique_nolo; auto).
  destruct ls as [|l0 lr].
  - destruct ul; auto.
  - destruct ul; auto. destruct (lit_overflow (l0 :: lr)); auto.
    apply Forall_app. split; auto.
Qed.
Lemma union1_nolo ts : nolos ts -> nolo (union1 ts) = true.
Proof.
  intros H. apply mk_union_nolo in H. unfold union1.
  destruct (mk_union ts) as [|x [|y r]] eqn:E.
  - reflexivity.
  - now inversion H.
  - now apply nolo_union_Forall.
Qed.

Lemma finish_nolo types t' : nolos types -> finish types = Some t' -> nolo t' = true.
Proof.
  intros N F. destruct types as [|x [|y r]]; [discriminate| |].
  - inversion F; subst. now inversion N.
  - remember (x :: y :: r) as types eqn:ET.
    assert (F' : Some (let types1 := if existsb is_unknown types && existsb (fun t => negb (is_unknown t) && negb (is_null t)) types
                 then remove_first is_unknown types else types in
             if existsb is_null types1 then TOpt (union1 (filter (fun x => negb (is_null x)) types1))
             else union1 (filter (fun x => negb (is_null x)) types1)) = Some t').
    { rewrite <- F. subst types. reflexivity. }
    clear F. inversion F' as [F]. clear F'. cbv zeta.
    set (types1 := if existsb is_unknown types && existsb (fun t => negb (is_unknown t) && negb (is_null t)) types
                 then remove_first is_unknown types else types).
    assert (N1 : nolos (filter (fun x => negb (is_null x)) types1)).
    { rewrite Forall_forall in *. intros z Hz. apply filter_In in Hz as [Hz _]. apply N.
      unfold types1 in Hz. destruct (_ && _); auto. eapply remove_first_sub; eauto. }
    apply union1_nolo in N1. destruct (existsb is_null types1); simpl; exact N1.
Qed.
Lemma ofields_Forall o (P : ty -> Prop) : forall l l', ofields o l = Some l' ->
  (forall x x', o x = Some x' -> P x') -> Forall (fun kv => P (snd kv)) l'.
Proof.
  induction l as [|[k x] r IH]; simpl; intros l' H HP.
  - inversion H. constructor.
  - destruct (o x) as [x'|] eqn:E; [|discriminate]. destruct (ofields o r) as [r'|] eqn:E'; [|discriminate].
    inversion H; subst. constructor; eauto.
Qed.
Lemma optimize_nolo registry replaces peq : forall fuel t t',
  optimize registry replaces peq fuel t = Some t' -> nolo t' = true.
Proof.
  induction fuel as [|fuel IH]; intros t t' E; [discriminate|].
  rewrite optimize_S in E. destruct t; try (inversion E; subst; reflexivity).
  - inversion E; subst. destruct overflow; simpl; auto. destruct ls; reflexivity.
  - destruct (optimize registry replaces peq fuel t) as [y|] eqn:Ey; [|discriminate].
    apply IH in Ey. destruct y; inversion E; subst; exact Ey.
  - destruct (optimize registry replaces peq fuel t) as [y|] eqn:Ey; [|discriminate].
    apply IH in Ey. inversion E; subst; exact Ey.
  - destruct (optimize registry replaces peq fuel t) as [y|] eqn:Ey; [|discriminate].
    apply IH in Ey. inversion E; subst; exact Ey.
  - destruct (olist (optimize registry replaces peq fuel) (regroup registry replaces peq ts)) as [types|] eqn:EL; [|discriminate].
    apply olist_Forall2 in EL. apply (finish_nolo types); auto.
    clear E. induction EL; constructor; eauto.
  - destruct (ofields (optimize registry replaces peq fuel) fs) as [fs'|] eqn:EF; [|discriminate].
    inversion E; subst. rewrite nolo_obj. apply forallb_forall. apply Forall_forall.
    apply (ofields_Forall _ (fun x => nolo x = true) _ _ EF). intros x x' Ex. eapply IH; eauto.
Qed.

(* (6) for the official semantics, on terms without Any and without pointers (decidable side condition
   plain t): there the strict and the official reading agree on the input side *)
Fixpoint plain (t : ty) : bool :=
  match t with
  | TUnknown | TPtr _ => false
  | TOpt x | TList x | TDict x => plain x
  | TUnion ts => (fix all l := match l with [] => true | x :: r => plain x && all r end) ts
  | TObj fs => (fix all (l : fields) := match l with [] => true | (_, x) :: r => plain x && all r end) fs
  | _ => true
  end.
Lemma plain_union ts : plain (TUnion ts) = forallb plain ts.
Proof. simpl. induction ts as [|x r IH]; simpl; auto; try (now rewrite IH). Qed.
Lemma plain_obj fs : plain (TObj fs) = forallb (fun kv => plain (snd kv)) fs.
Proof. simpl. induction fs as [|[k x] r IH]; simpl; auto; try (now rewrite IH). Qed.
Lemma ht_plain_strict accepts mf :
  forall v t, plain t = true -> ht accepts mf v t -> htg accepts (fun _ => None) false v t.
Proof.
  induction v using json_ind2; induction t using ty_ind2; intros NL Hv; inversion Hv; subst;
    try discriminate;
    try (now constructor);
    try (apply GOptS; apply IHt; assumption);
    try (rewrite plain_union in NL; rewrite forallb_forall in NL; rewrite Forall_forall in *; eapply GUnion; eauto; fail);
    try (constructor; rewrite Forall_forall in *; intros x Hx; eapply H; [exact Hx|exact NL|eauto]; fail).
  apply GObj; auto.
  rewrite plain_obj in NL. rewrite forallb_forall in NL. rewrite Forall_forall in *. intros kv Hkv.
  match goal with V : forall x, In x l -> exists t, _ |- _ => destruct (V kv Hkv) as [t [L Ht]] end.
  exists t. split; auto. apply (H kv Hkv t); auto. apply (NL _ (lookup_In _ _ _ L)).
Qed.

Section OptimizeOfficial.
  Variable accepts : pseudo -> str -> bool.
  Variable mf : N -> option fields.
  Variable registry : list pseudo.
  Variable replaces : list (pseudo * pseudo).
  Variable peq : N -> N -> bool.
  Hypothesis Hrep : forall a b, In (a, b) replaces -> forall s, accepts a s = true -> accepts b s = true.
  Variable rank : pseudo -> nat.
  Hypothesis Hrank : forallb (fun pq => pseudo_eqb (fst pq) (snd pq) || (rank (fst pq) <? rank (snd pq))) replaces = true.

  Theorem optimize_sound fuel t t' :
    okT t = true -> plain t = true -> optimize registry replaces peq fuel t = Some t' ->
    forall v, ht accepts mf v t -> ht accepts mf v t'.
  Proof.
    intros O P E v Hv. apply ht_none_any.
    apply (htg_ht accepts (fun _ => None) false).
    apply (optimize_sound_strict accepts (fun _ => None) registry replaces peq) with (rank := rank) (fuel := fuel) (t := t); auto.
    - intros i j _ w. split; intros X; inversion X; discriminate.
    - eapply ht_plain_strict; eauto.
  Qed.
End OptimizeOfficial.

(* ------------------------------------------------------------------ *)
(* (8) generate                                                        *)
(* ------------------------------------------------------------------ *)
Section GenerateSound.
  Variable accepts : pseudo -> str -> bool.
  Variable mf : N -> option fields.
  Variable registry : list pseudo.
  Variable replaces : list (pseudo * pseudo).
  Variable n_regex : nat.
  Variable key_matches : nat -> str -> bool.
  Variable dict_fields : list str.
  Hypothesis Hrep : forall a b, In (a, b) replaces -> forall s, accepts a s = true -> accepts b s = true.
  Variable rank : pseudo -> nat.
  Hypothesis Hrank : forallb (fun pq => pseudo_eqb (fst pq) (snd pq) || (rank (fst pq) <? rank (snd pq))) replaces = true.
  (* the model table mf is arbitrary: the chain is run with the empty table (no pointer is ever dereferenced) *)
  Let mf0 : N -> option fields := fun _ => None.

  Theorem generate_sound fuel samples fs :
    Forall (fun s => wf_json (JObj s) = true) samples ->
    generate registry replaces accepts n_regex key_matches dict_fields fuel samples = Some fs ->
    Forall (fun s => ht accepts mf (JObj s) (TObj fs)) samples.
  Proof.
    intros W G. unfold generate, optimize_fields in G.
    set (conv := convert registry accepts n_regex key_matches dict_fields) in *.
    set (merged := merge_field_sets N.eqb (map conv samples)) in *.
    destruct (optimize registry replaces N.eqb fuel (TObj merged)) as [t'|] eqn:EO; [|discriminate].
    destruct t'; try discriminate. inversion G; subst fs0. clear G.
    assert (Hpeq : forall i j, N.eqb i j = true ->
              forall v, htg accepts mf0 false v (TPtr i) <-> htg accepts mf0 false v (TPtr j)).
    { intros i j E v. apply N.eqb_eq in E. subst. reflexivity. }
    assert (CS : forall s, In s samples ->
              obj_okg accepts mf0 false (conv s) s /\ okf (conv s) = true /\ no_opt (conv s) = true).
    { intros s Hs. rewrite Forall_forall in W. apply convert_sound_g. apply W, Hs. }
    assert (O1 : Forall (fun fs => okf fs = true) (map conv samples)).
    { apply Forall_map. apply Forall_forall. intros s Hs. apply (CS s Hs). }
    assert (O2 : Forall (fun fs => no_opt fs = true) (tl (map conv samples))).
    { assert (A : Forall (fun fs => no_opt fs = true) (map conv samples)).
      { apply Forall_map. apply Forall_forall. intros s Hs. apply (CS s Hs). }
      destruct (map conv samples); simpl; [constructor|]. now inversion A. }
    destruct (merge_member_sound accepts mf0 false N.eqb Hpeq (map conv samples) O1 O2) as [M1 M2].
    fold merged in M1, M2.
    apply Forall_forall. intros s Hs.
    apply ht_none_any. fold mf0.
    apply (htg_ht accepts mf0 false).
    apply (optimize_sound_strict accepts mf0 registry replaces N.eqb Hpeq Hrep rank Hrank fuel (TObj merged)); auto.
    destruct (M1 (conv s) s) as [A B]; [apply in_map, Hs|apply (CS s Hs)|]. now apply GObj.
  Qed.
End GenerateSound.

(* ------------------------------------------------------------------ *)
(* corollaries for the official semantics ht (uk = true, no overflowed-literal rule) *)
(* ------------------------------------------------------------------ *)
Section Official.
  Variable accepts : pseudo -> str -> bool.
  Variable mf : N -> option fields.
  Notation ht := (ht accepts mf).
  Notation obj_ok := (obj_ok accepts mf).

  Lemma Exists_htg_iff v ts : Exists (htg accepts mf true v) ts <-> Exists (ht v) ts.
  Proof. rewrite !Exists_exists. split; intros [t [A B]]; exists t; split; auto; now apply htg_true_iff. Qed.

  Theorem mk_union_sound_ht v ts : Exists (ht v) ts -> Exists (ht v) (mk_union ts).
  Proof. intros H. apply Exists_htg_iff, mk_union_sound, Exists_htg_iff, H. Qed.
  Theorem union1_sound_ht v ts : Exists (ht v) ts -> ht v (union1 ts).
  Proof. intros H. apply htg_true_iff, union1_sound, Exists_htg_iff, H. Qed.
  Theorem dunion_sound_ht v ts : Exists (ht v) ts -> ht v (dunion ts).
  Proof. intros H. apply htg_true_iff, dunion_sound, Exists_htg_iff, H. Qed.

  Theorem py_eq_sound_ht peq :
    (forall i j, peq i j = true -> forall v, ht v (TPtr i) <-> ht v (TPtr j)) ->
    forall a b, okt0 a = true -> okt0 b = true -> py_eq peq a b = true -> forall v, ht v a <-> ht v b.
  Proof.
    intros Hp a b Oa Ob E v. rewrite <- !htg_true_iff.
    apply (py_eq_sound accepts mf true peq); auto.
    intros i j Eij w. rewrite !htg_true_iff. now apply Hp.
  Qed.

  Theorem merge_field_sets_sound_ht peq sets objs :
    (forall i j, peq i j = true -> forall v, ht v (TPtr i) <-> ht v (TPtr j)) ->
    Forall2 (fun fs l => obj_ok fs l) sets objs ->
    Forall (fun fs => okf fs = true) sets ->
    Forall (fun fs => no_opt fs = true) (tl sets) ->
    Forall (obj_ok (merge_field_sets peq sets)) objs.
  Proof.
    intros Hp F O NO.
    assert (Hp' : forall i j, peq i j = true -> forall v, htg accepts mf true v (TPtr i) <-> htg accepts mf true v (TPtr j)).
    { intros i j Eij w. rewrite !htg_true_iff. now apply Hp. }
    assert (F' : Forall2 (fun fs l => obj_okg accepts mf true fs l) sets objs).
    { clear -F. induction F; constructor; auto. now apply obj_okg_true_iff. }
    destruct (merge_field_sets_sound accepts mf true peq Hp' sets objs F' O NO) as [R _].
    eapply Forall_impl; [|exact R]. intros l Hl. now apply obj_okg_true_iff.
  Qed.

  Theorem str_result_sound_ht replaces rank strs t v :
    (forall a b, In (a, b) replaces -> forall s, accepts a s = true -> accepts b s = true) ->
    forallb (fun pq => pseudo_eqb (fst pq) (snd pq) || (rank (fst pq) <? rank (snd pq))) replaces = true ->
    In t strs -> (t = TStr \/ exists p, t = TPseudo p) -> ht v t -> Exists (ht v) (str_result replaces strs).
  Proof.
    intros Hrep Hrank Hin Ht Hv. apply Exists_htg_iff.
    eapply (str_result_sound accepts mf true replaces Hrep rank Hrank); eauto. now apply htg_true_iff.
  Qed.
End Official.

Print Assumptions ty_eqb_eq.
Print Assumptions mk_union_sound.
Print Assumptions union1_sound.
Print Assumptions dunion_sound.
Print Assumptions py_eq_sound.
Print Assumptions py_eq_union_imp.
Print Assumptions py_eq_union_sorted.
Print Assumptions py_eq_refl_raw.
Print Assumptions merge_field_sets_sound.
Print Assumptions merge_member_sound.
Print Assumptions resolve_sound.
Print Assumptions str_result_sound.
Print Assumptions optimize_sound_strict.
Print Assumptions optimize_sound.
Print Assumptions detect_sound_g.
Print Assumptions convert_sound_g.
Print Assumptions detect_sound.
Print Assumptions convert_sound.
Print Assumptions generate_sound.
Print Assumptions merge_member_sound_h.
Print Assumptions merge_optimize_sound.
Print Assumptions merge_optimize_sound_ht.
Print Assumptions mk_union_sound_ht.
Print Assumptions py_eq_sound_ht.
Print Assumptions merge_field_sets_sound_ht.
Print Assumptions str_result_sound_ht.

(* NOT PROVED: (because refuted as stated; each is replaced above by the weakest variant the proofs allowed)
   - optimize_sound for the official ht without side condition on Any: refuted by optimize_any_refuted(_raw).
     Proved instead: optimize_sound_strict (Any accepts nothing) and optimize_sound (official ht, plain t).
   - resolve_sound / str_result_sound from "replaces is sound" alone: refuted by resolve_cyclic_refuted.
     Proved with the decidable certificate Hrank (every proper replaces edge increases rank).
   - merge_field_sets_sound without no_opt on the later sets: refuted by merge_opt_refuted; the registry-stage
     form (merge followed by optimize) holds without no_opt: merge_optimize_sound.
   - merge-then-optimize for the official ht when Any occurs: refuted by merge_optimize_any_refuted.
     Proved for the strict reading, and for the official ht on Any-free sets and models.
   Nothing else is left open: generate_sound holds for the official ht with the hypotheses of the task plus Hrank. *)
