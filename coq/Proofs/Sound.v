(* Proofs/Sound.v — soundness half of C01: generated models accept every sample they were inferred from. *)
From Coq Require Import List Bool Arith NArith ZArith Lia.
From J2M.Model Require Import Base Union Merge Optimize Detect.
From J2M.Sem Require Import HasType NF.
Import ListNotations.

(* ------------------------------------------------------------------ *)
(* (1) equality tests, lookup / update                                 *)
(* ------------------------------------------------------------------ *)
Lemma str_eqb_refl k : str_eqb k k = true.
Proof. unfold str_eqb. destruct list_eq_dec; congruence. Qed.
Lemma str_eqb_true a b : str_eqb a b = true -> a = b.
Proof. unfold str_eqb. destruct list_eq_dec; congruence. Qed.
Lemma str_eqb_false a b : str_eqb a b = false -> a <> b.
Proof. unfold str_eqb. destruct list_eq_dec; congruence. Qed.
Lemma str_eqb_neq a b : a <> b -> str_eqb a b = false.
Proof. unfold str_eqb. destruct list_eq_dec; congruence. Qed.
Lemma strs_eqb_true a b : strs_eqb a b = true -> a = b.
Proof. unfold strs_eqb. destruct list_eq_dec; congruence. Qed.
Lemma pseudo_eqb_true p q : pseudo_eqb p q = true -> p = q.
Proof. destruct p, q; simpl; congruence. Qed.
Lemma pseudo_eqb_refl p : pseudo_eqb p p = true.
Proof. destruct p; reflexivity. Qed.

Lemma ty_eqb_eq : forall a b, ty_eqb a b = true -> a = b.
Proof.
  induction a using ty_ind2; destruct b; simpl; try discriminate; intros E; auto.
  - apply pseudo_eqb_true in E. congruence.
  - apply andb_prop in E as [E1 E2]. apply Bool.eqb_prop in E1. apply strs_eqb_true in E2. congruence.
  - f_equal; auto.
  - f_equal; auto.
  - f_equal; auto.
  - f_equal. revert ts0 E. induction H as [|x r Hx Hr IH]; destruct ts0; try discriminate; auto.
    intros E. apply andb_prop in E as [E1 E2]. f_equal; auto.
  - f_equal. revert fs0 E. induction H as [|[k x] r Hx Hr IH]; destruct fs0 as [|[k' y] r']; try discriminate; auto.
    intros E. apply andb_prop in E as [E12 E3]. apply andb_prop in E12 as [E1 E2].
    apply str_eqb_true in E1. subst. f_equal; auto. f_equal. apply Hx, E2.
  - apply N.eqb_eq in E. congruence.
Qed.

Lemma lookup_update_same {A} k (t : A) fs : lookup k (update k t fs) = Some t.
Proof.
  induction fs as [|[k' t'] r IH]; simpl.
  - now rewrite str_eqb_refl.
  - destruct (str_eqb k k') eqn:E; simpl; rewrite ?E; auto.
Qed.
Lemma lookup_update_other {A} k k' (t : A) fs : k' <> k -> lookup k' (update k t fs) = lookup k' fs.
Proof.
  intros N. induction fs as [|[k0 t0] r IH]; simpl.
  - destruct (str_eqb k' k) eqn:E; auto. apply str_eqb_true in E. congruence.
  - destruct (str_eqb k k0) eqn:E; simpl.
    + apply str_eqb_true in E. subst. destruct (str_eqb k' k0) eqn:E'; auto.
      apply str_eqb_true in E'. congruence.
    + destruct (str_eqb k' k0); auto.
Qed.
Lemma lookup_In {A} k (t : A) fs : lookup k fs = Some t -> In (k, t) fs.
Proof.
  induction fs as [|[k' t'] r IH]; simpl; [discriminate|].
  destruct (str_eqb k k') eqn:E; intros H.
  - apply str_eqb_true in E. inversion H; subst. auto.
  - auto.
Qed.
Lemma lookup_None_notin {A} k (fs : list (str * A)) : lookup k fs = None -> ~ In k (map fst fs).
Proof.
  induction fs as [|[k' t'] r IH]; simpl; [tauto|].
  destruct (str_eqb k k') eqn:E; [discriminate|]. apply str_eqb_false in E.
  intros H [H1|H1]; [congruence|]. apply IH; auto.
Qed.
Lemma lookup_notin_None {A} k (fs : list (str * A)) : ~ In k (map fst fs) -> lookup k fs = None.
Proof.
  induction fs as [|[k' t'] r IH]; simpl; [auto|].
  intros H. destruct (str_eqb k k') eqn:E.
  - apply str_eqb_true in E. subst. tauto.
  - apply IH. tauto.
Qed.
Lemma lookup_Some_in {A} k (t : A) fs : lookup k fs = Some t -> In k (map fst fs).
Proof. intros H. apply lookup_In in H. apply in_map_iff. exists (k, t). auto. Qed.
Lemma In_lookup_nodup {A} k (t : A) fs : NoDup (map fst fs) -> In (k, t) fs -> lookup k fs = Some t.
Proof.
  induction fs as [|[k' t'] r IH]; simpl; [tauto|].
  intros ND [H|H].
  - inversion H; subst. now rewrite str_eqb_refl.
  - inversion ND; subst. destruct (str_eqb k k') eqn:E.
    + apply str_eqb_true in E. subst. exfalso. apply H2. apply in_map_iff. exists (k', t). auto.
    + auto.
Qed.
Lemma map_fst_update {A} k (t : A) fs :
  map fst (update k t fs) = if has_key k fs then map fst fs else map fst fs ++ [k].
Proof.
  unfold has_key. induction fs as [|[k' t'] r IH]; simpl; auto.
  destruct (str_eqb k k') eqn:E; simpl; auto.
  rewrite IH. destruct (lookup k r); auto.
Qed.

(* ------------------------------------------------------------------ *)
(* (2) union construction                                              *)
(* ------------------------------------------------------------------ *)
Lemma str_cmp_eq : forall a b, str_cmp a b = Eq -> a = b.
Proof.
  induction a as [|c a IH]; destruct b as [|d b]; simpl; try discriminate; auto.
  destruct (N.compare c d) eqn:E; try discriminate.
  apply N.compare_eq in E. intros H. f_equal; auto.
Qed.
Lemma insert_sorted_in x s : forall l, In x (insert_sorted s l) <-> x = s \/ In x l.
Proof.
  induction l as [|y r IH]; simpl.
  - intuition.
  - destruct (str_cmp s y) eqn:E; simpl.
    + apply str_cmp_eq in E. subst. intuition.
    + intuition.
    + rewrite IH. intuition.
Qed.
Lemma fold_insert_in x : forall l acc,
  In x (fold_left (fun acc s => insert_sorted s acc) l acc) <-> In x l \/ In x acc.
Proof.
  induction l as [|y r IH]; simpl; intros acc.
  - intuition.
  - rewrite IH, insert_sorted_in. intuition.
Qed.

Section Sound.
  Variable accepts : pseudo -> str -> bool.
  Variable mf : N -> option fields.
  Notation ht := (ht accepts mf).
  Notation obj_ok := (obj_ok accepts mf).
  Notation wider := (wider accepts mf).

  Lemma flat_sound v : forall t, ht v t -> Exists (ht v) (flat t).
  Proof.
    induction t using ty_ind2; intros Hv; try (constructor; exact Hv).
    inversion Hv; subst.
    match goal with Hi : In ?t ts, Ht : ht v ?t |- _ => revert t Hi Ht end. clear Hv.
    simpl. induction H as [|x r Hx Hr IH]; intros t Hin Ht; [inversion Hin|].
    destruct Hin as [->|Hin].
    - apply Exists_app. left. auto.
    - apply Exists_app. right. eapply IH; eauto.
  Qed.

  Lemma add_unique_keep v u t : Exists (ht v) u -> Exists (ht v) (add_unique u t).
  Proof. unfold add_unique. destruct (existsb (ty_eqb t) u); auto. intros H. apply Exists_app; auto. Qed.
  Lemma add_unique_new v u t : ht v t -> Exists (ht v) (add_unique u t).
  Proof.
    unfold add_unique. intros H. destruct (existsb (ty_eqb t) u) eqn:E.
    - apply existsb_exists in E as [x [Hx Ex]]. apply ty_eqb_eq in Ex. subst. apply Exists_exists; eauto.
    - apply Exists_app. right. constructor. auto.
  Qed.
  Lemma add_unique_has u t : In t (add_unique u t).
  Proof.
    unfold add_unique. destruct (existsb (ty_eqb t) u) eqn:E.
    - apply existsb_exists in E as [x [Hx Ex]]. apply ty_eqb_eq in Ex. subst. auto.
    - apply in_or_app. right. simpl. auto.
  Qed.

  (* invariant of the DUnion loop, relative to a value v *)
  Definition ucov (v : json) (st : list ty * bool * list str) : Prop :=
    let '(u, ul, ls) := st in
    Exists (ht v) u \/ exists s, v = JStr s /\ (ul = false \/ In s ls).

  Lemma union_step_keep v st t : ucov v st -> ucov v (union_step st t).
  Proof.
    destruct st as [[u ul] ls]. unfold ucov, union_step.
    assert (Other : Exists (ht v) u \/ (exists s, v = JStr s /\ (ul = false \/ In s ls)) ->
      Exists (ht v) (add_unique u t) \/
      (exists s, v = JStr s /\ ((if is_str t then false else ul) = false \/ In s ls))).
    { intros [H|[s [Hs H]]]; [left; now apply add_unique_keep|].
      right. exists s. split; auto. destruct H as [->|H]; auto. destruct (is_str t); auto. }
    destruct t; try exact Other.
    intros [H|[s [Hs H]]].
    - destruct (negb ul); [auto|]. destruct overflow; auto.
    - destruct ul; simpl.
      + destruct overflow.
        * right. exists s. auto.
        * destruct H as [H|H]; [discriminate|]. right. exists s. split; auto. right.
          apply fold_insert_in. auto.
      + right. exists s. auto.
  Qed.
  Lemma union_step_new v st t : ht v t -> ucov v (union_step st t).
  Proof.
    destruct st as [[u ul] ls]. unfold ucov, union_step. intros H.
    destruct t; try (left; apply add_unique_new; exact H).
    inversion H; subst. destruct ul; simpl.
    - right. exists s. split; auto. right. apply fold_insert_in. auto.
    - right. exists s. auto.
  Qed.
  Lemma union_fold_keep v : forall l st, ucov v st -> ucov v (fold_left union_step l st).
  Proof. induction l as [|t r IH]; simpl; auto. intros st H. apply IH, union_step_keep, H. Qed.
  Lemma union_fold_sound v : forall l st, Exists (ht v) l -> ucov v (fold_left union_step l st).
  Proof.
    induction l as [|t r IH]; simpl; intros st H; [inversion H|].
    inversion H; subst.
    - apply union_fold_keep, union_step_new; auto.
    - apply IH; auto.
  Qed.

  Theorem mk_union_sound v ts : Exists (ht v) ts -> Exists (ht v) (mk_union ts).
  Proof.
    intros H.
    assert (Hf : Exists (ht v) (flatten_union ts)).
    { apply (flat_sound v (TUnion ts)). apply Exists_exists in H as [t [Hin Ht]]. econstructor; eauto. }
    clear H. unfold mk_union.
    pose proof (union_fold_sound v (flatten_union ts) ([], true, []) Hf) as C.
    destruct (fold_left union_step (flatten_union ts) ([], true, [])) as [[u ul] ls].
    unfold ucov in C. destruct C as [C|[s [-> C]]].
    - destruct ls as [|l0 lr].
      + destruct ul; auto. now apply add_unique_keep.
      + destruct ul.
        * destruct (lit_overflow (l0 :: lr)).
          -- now apply add_unique_keep.
          -- apply Exists_app; auto.
        * now apply add_unique_keep.
    - assert (S : forall u', Exists (ht (JStr s)) (add_unique u' TStr)).
      { intros u'. apply Exists_exists. exists TStr. split; [apply add_unique_has|constructor]. }
      destruct C as [->|C].
      + destruct ls; apply S.
      + destruct ls as [|l0 lr]; [inversion C|].
        destruct ul; [|apply S].
        destruct (lit_overflow (l0 :: lr)); [apply S|].
        apply Exists_app. right. constructor. constructor. exact C.
  Qed.

  Lemma ht_members v t : ht v t -> Exists (ht v) (members t).
  Proof.
    destruct t; simpl; intros H; try (constructor; exact H).
    inversion H; subst. apply Exists_exists; eauto.
  Qed.
  Lemma union1_sound v ts : Exists (ht v) ts -> ht v (union1 ts).
  Proof.
    intros H. apply mk_union_sound in H. unfold union1.
    destruct (mk_union ts) as [|x [|y r]] eqn:E.
    - inversion H.
    - inversion H; subst; auto. inversion H1.
    - apply Exists_exists in H as [t [Hin Ht]]. econstructor; eauto.
  Qed.
  Lemma dunion_sound v ts : Exists (ht v) ts -> ht v (dunion ts).
  Proof.
    intros H. apply mk_union_sound in H. unfold dunion.
    apply Exists_exists in H as [t [Hin Ht]]. econstructor; eauto.
  Qed.
  Lemma union1_wider_l a b : wider a (union1 (members a ++ members b)).
  Proof. intros v H. apply union1_sound, Exists_app. left. now apply ht_members. Qed.
  Lemma union1_wider_r a b : wider b (union1 (members a ++ members b)).
  Proof. intros v H. apply union1_sound, Exists_app. right. now apply ht_members. Qed.
  Lemma wider_opt a : wider a (TOpt a).
  Proof. intros v H. now constructor. Qed.
  Lemma wider_opt_mono a b : wider a b -> wider (TOpt a) (TOpt b).
  Proof. intros W v H. inversion H; subst; [constructor|]. apply HOptS. auto. Qed.
  Lemma wider_wrap_opt a : wider a (wrap_opt a).
  Proof. unfold wrap_opt. destruct (is_opt a); [intros v H; exact H|apply wider_opt]. Qed.
  Lemma is_opt_wrap_opt a : is_opt (wrap_opt a) = true.
  Proof. unfold wrap_opt. destruct (is_opt a) eqn:E; auto. Qed.
End Sound.

(* ------------------------------------------------------------------ *)
(* (3) Python == on metadata                                           *)
(* ------------------------------------------------------------------ *)
(* decidable well-formedness of a term for the comparison: an overflowed literal carries the empty set,
   the keys of every raw dict are unique *)
Fixpoint nodup_keys {A} (l : list (str * A)) : bool :=
  match l with [] => true | (k, _) :: r => negb (has_key k r) && nodup_keys r end.
Fixpoint okt (t : ty) : bool :=
  match t with
  | TLit o ls => negb o || match ls with [] => true | _ => false end
  | TOpt x | TList x | TDict x => okt x
  | TUnion ts => (fix all l := match l with [] => true | x :: r => okt x && all r end) ts
  | TObj fs => nodup_keys fs && (fix all (l : fields) := match l with [] => true | (_, x) :: r => okt x && all r end) fs
  | _ => true
  end.
Definition okf (fs : fields) : bool := nodup_keys fs && forallb (fun kv => okt (snd kv)) fs.

Lemma nodup_keys_NoDup {A} (l : list (str * A)) : nodup_keys l = true -> NoDup (map fst l).
Proof.
  induction l as [|[k x] r IH]; simpl; intros H; [constructor|].
  apply andb_prop in H as [H1 H2]. constructor; auto.
  unfold has_key in H1. destruct (lookup k r) eqn:L; [discriminate|].
  now apply lookup_None_notin.
Qed.
Lemma NoDup_nodup_keys {A} (l : list (str * A)) : NoDup (map fst l) -> nodup_keys l = true.
Proof.
  induction l as [|[k x] r IH]; simpl; intros H; auto. inversion H; subst.
  rewrite IH by auto. unfold has_key. rewrite lookup_notin_None; auto.
Qed.
Lemma okt_union ts : okt (TUnion ts) = forallb okt ts.
Proof. simpl. induction ts as [|x r IH]; simpl; auto; try (now rewrite IH). Qed.
Lemma okt_obj fs : okt (TObj fs) = okf fs.
Proof. unfold okf. simpl. f_equal. induction fs as [|[k x] r IH]; simpl; auto; try (now rewrite IH). Qed.

Section PyEq.
  Variable accepts : pseudo -> str -> bool.
  Variable mf : N -> option fields.
  Variable peq : N -> N -> bool.
  Notation ht := (ht accepts mf).
  Notation py_eq := (py_eq peq).

  Lemma py_eq_union xs ys : py_eq (TUnion xs) (TUnion ys) =
    Nat.eqb (length xs) (length ys) && forallb (fun x => existsb (py_eq x) ys) xs
    && forallb (fun y => existsb (fun x => py_eq x y) xs) ys.
  Proof.
    simpl. f_equal.
  Qed.
  Lemma py_eq_obj xs ys : py_eq (TObj xs) (TObj ys) =
    Nat.eqb (length xs) (length ys) &&
    forallb (fun kx => match lookup (fst kx) ys with Some y => py_eq (snd kx) y | None => false end) xs.
  Proof. simpl. f_equal. induction xs as [|[k x] r IH]; simpl; auto; try (now rewrite IH). Qed.
  Lemma py_eq_opt_l a b : py_eq a b = true -> is_opt a = true -> is_opt b = true.
  Proof. destruct a; simpl; try discriminate. destruct b; simpl; auto. Qed.
  Lemma py_eq_opt_r a b : py_eq a b = true -> is_opt b = true -> is_opt a = true.
  Proof. destruct b; simpl; try discriminate. destruct a; simpl; auto; discriminate. Qed.

  Hypothesis Hpeq : forall i j, peq i j = true -> forall v, ht v (TPtr i) <-> ht v (TPtr j).

  (* (3) side conditions forced by the proof (both decidable): okt a, okt b, i.e. an overflowed literal carries
     the empty set (TLit true ls compares equal to TLit false ls but admits nothing) and raw-dict keys are unique *)
  Theorem py_eq_sound : forall a b, okt a = true -> okt b = true -> py_eq a b = true ->
    forall v, ht v a <-> ht v b.
  Proof.
    induction a using ty_ind2; intros b Oa Ob E v;
      destruct b; try (simpl in E; discriminate); try reflexivity.
    - simpl in E. apply pseudo_eqb_true in E. now subst.
    - simpl in E. apply strs_eqb_true in E. subst. simpl in Oa, Ob.
      split; intros Hv; inversion Hv; subst.
      + destruct overflow; [|constructor; auto]. destruct ls0; [contradiction|discriminate].
      + destruct o; [|constructor; auto]. destruct ls0; [contradiction|discriminate].
    - simpl in *. specialize (IHa b Oa Ob E).
      split; intros Hv; inversion Hv; subst; [constructor | apply HOptS; now apply IHa | constructor | apply HOptS; now apply IHa].
    - simpl in *. specialize (IHa b Oa Ob E).
      split; intros Hv; inversion Hv; subst; constructor; (eapply Forall_impl; [|eassumption]);
        intros x Hx; now apply IHa.
    - simpl in *. specialize (IHa b Oa Ob E).
      split; intros Hv; inversion Hv; subst; constructor; (eapply Forall_impl; [|eassumption]);
        intros x Hx; now apply IHa.
    - rewrite py_eq_union in E. apply andb_prop in E as [E E2]. apply andb_prop in E as [_ E1].
      rewrite okt_union in Oa, Ob.
      rewrite forallb_forall in E1, E2, Oa, Ob. rewrite Forall_forall in H.
      split; intros Hv; inversion Hv; subst.
      + match goal with Hi : In ?t ts, Ht : ht v ?t |- _ => rename t into x; rename Hi into Hin; rename Ht into Hx end.
        specialize (E1 x Hin). apply existsb_exists in E1 as [y [Hy Exy]].
        apply HUnion with (t := y); auto. destruct (H x Hin y (Oa x Hin) (Ob y Hy) Exy v) as [F B]. auto.
      + match goal with Hi : In ?t ts0, Ht : ht v ?t |- _ => rename t into y; rename Hi into Hin; rename Ht into Hy end.
        specialize (E2 y Hin). apply existsb_exists in E2 as [x [Hx Exy]].
        apply HUnion with (t := x); auto. destruct (H x Hx y (Oa x Hx) (Ob y Hin) Exy v) as [F B]. auto.
    - rewrite py_eq_obj in E. apply andb_prop in E as [EL E]. apply Nat.eqb_eq in EL.
      rewrite okt_obj in Oa, Ob. unfold okf in Oa, Ob.
      apply andb_prop in Oa as [NDa Oa]. apply andb_prop in Ob as [NDb Ob].
      rewrite forallb_forall in E, Oa, Ob. rewrite Forall_forall in H.
      apply nodup_keys_NoDup in NDa.
      assert (M : forall k x, In (k, x) fs -> exists y, lookup k fs0 = Some y /\ py_eq x y = true).
      { intros k x Hin. specialize (E _ Hin). simpl in E. destruct (lookup k fs0) as [y|]; [|discriminate]. eauto. }
      assert (KK : forall k, In k (map fst fs0) -> In k (map fst fs)).
      { apply (NoDup_length_incl NDa).
        - rewrite !map_length. lia.
        - intros k0 Hk0. apply in_map_iff in Hk0 as [[k1 x1] [<- Hin]]. simpl.
          destruct (M _ _ Hin) as [y [Ly _]]. eapply lookup_Some_in; eauto. }
      assert (M' : forall k y, lookup k fs0 = Some y -> exists x, In (k, x) fs /\ lookup k fs = Some x /\ py_eq x y = true).
      { intros k y Ly. pose proof (KK k (lookup_Some_in _ _ _ Ly)) as Hk.
        apply in_map_iff in Hk as [[k1 x] [<- Hin]]. simpl in *.
        destruct (M _ _ Hin) as [y' [Ly' Exy]]. assert (y' = y) by congruence. subst y'.
        exists x. repeat split; auto. apply In_lookup_nodup; auto. }
      split; intros Hv; inversion Hv; subst.
      + match goal with H1 : Forall _ l, H2 : forall k t, lookup k fs = Some t -> _ |- _ => rename H1 into V1; rename H2 into V2 end.
        apply HObj.
        * eapply Forall_impl; [|exact V1]. intros [k w] [t [Lk Hw]]. simpl in *.
          pose proof (lookup_In _ _ _ Lk) as Hin. destruct (M _ _ Hin) as [y [Ly Exy]].
          exists y. split; auto.
          destruct (H _ Hin y (Oa _ Hin) (Ob _ (lookup_In _ _ _ Ly)) Exy w) as [F B]. auto.
        * intros k t' Lk NO. destruct (M' _ _ Lk) as [x [Hin [Lx Exy]]].
          apply (V2 k x); auto.
          destruct (is_opt x) eqn:Ox; auto. apply (py_eq_opt_l _ _ Exy) in Ox. congruence.
      + match goal with H1 : Forall _ l, H2 : forall k t, lookup k fs0 = Some t -> _ |- _ => rename H1 into V1; rename H2 into V2 end.
        apply HObj.
        * eapply Forall_impl; [|exact V1]. intros [k w] [t' [Lk Hw]]. simpl in *.
          destruct (M' _ _ Lk) as [x [Hin [Lx Exy]]].
          exists x. split; auto.
          destruct (H _ Hin t' (Oa _ Hin) (Ob _ (lookup_In _ _ _ Lk)) Exy w) as [F B]. auto.
        * intros k t Lk NO. pose proof (lookup_In _ _ _ Lk) as Hin.
          destruct (M _ _ Hin) as [y [Ly Exy]]. apply (V2 k y); auto.
          destruct (is_opt y) eqn:Oy; auto. apply (py_eq_opt_r _ _ Exy) in Oy. congruence.
    - simpl in E. apply Hpeq; auto.
  Qed.
End PyEq.

(* ------------------------------------------------------------------ *)
(* okt is preserved by union construction                               *)
(* ------------------------------------------------------------------ *)
Notation okts := (Forall (fun x => okt x = true)).
Lemma okt_union_Forall ts : okt (TUnion ts) = true <-> okts ts.
Proof. rewrite okt_union, forallb_forall, Forall_forall. tauto. Qed.
Lemma flat_okt : forall t, okt t = true -> okts (flat t).
Proof.
  induction t using ty_ind2; intros O; try (constructor; [exact O|constructor]).
  apply okt_union_Forall in O. simpl.
  induction H as [|x r Hx Hr IH]; [constructor|].
  inversion O; subst. apply Forall_app. split; auto.
Qed.
Lemma add_unique_okt u t : okts u -> okt t = true -> okts (add_unique u t).
Proof.
  unfold add_unique. intros Hu Ht. destruct (existsb (ty_eqb t) u); auto.
  apply Forall_app. split; auto.
Qed.
Lemma union_step_okt st t : okts (fst (fst st)) -> okt t = true -> okts (fst (fst (union_step st t))).
Proof.
  destruct st as [[u ul] ls]. simpl. intros Hu Ht.
  destruct t; simpl; try (apply add_unique_okt; auto).
  destruct (negb ul); simpl; auto. destruct overflow; simpl; auto.
Qed.
Lemma union_fold_okt : forall l st, okts (fst (fst st)) -> okts l -> okts (fst (fst (fold_left union_step l st))).
Proof.
  induction l as [|t r IH]; simpl; intros st Hu Hl; auto.
  inversion Hl; subst. apply IH; auto. apply union_step_okt; auto.
Qed.
Lemma mk_union_okt ts : okts ts -> okts (mk_union ts).
Proof.
  intros H. unfold mk_union.
  assert (F : okts (flatten_union ts)) by (apply flat_okt, okt_union_Forall, H).
  pose proof (union_fold_okt (flatten_union ts) ([], true, []) (Forall_nil _) F) as U.
  destruct (fold_left union_step (flatten_union ts) ([], true, [])) as [[u ul] ls]. simpl in U.
  assert (S : forall u', okts u' -> okts (add_unique u' TStr)) by (intros; apply add_unique_okt; auto).
  destruct ls as [|l0 lr].
  - destruct ul; auto.
  - destruct ul; auto. destruct (lit_overflow (l0 :: lr)); auto.
    apply Forall_app. split; auto.
Qed.
Lemma union1_okt ts : okts ts -> okt (union1 ts) = true.
Proof.
  intros H. apply mk_union_okt in H. unfold union1.
  destruct (mk_union ts) as [|x [|y r]] eqn:E.
  - reflexivity.
  - now inversion H.
  - now apply okt_union_Forall.
Qed.
Lemma dunion_okt ts : okts ts -> okt (dunion ts) = true.
Proof. intros H. apply okt_union_Forall, mk_union_okt, H. Qed.
Lemma members_okt t : okt t = true -> okts (members t).
Proof. destruct t; simpl; intros H; try (constructor; [exact H|constructor]). now apply okt_union_Forall. Qed.
Lemma wrap_opt_okt t : okt (wrap_opt t) = okt t.
Proof. unfold wrap_opt. destruct (is_opt t); reflexivity. Qed.
