(* Proofs/LitLink.v — C10 on the emitted text: the Literal annotation the printer writes for a literal type reads back as
   EXACTLY the literal set (corollary of AnnProps.parse_print_all), and a literal type that is not shown reads back as str. *)
From Coq Require Import List Bool Arith NArith String.
From J2M.Model Require Import Base Emit PyLex PyAnn.
From J2M.Proofs Require Import AnnProps.
Import ListNotations.

Section Lit.
  Variable names : N -> option str.
  Variable ctx : N -> option N.
  Theorem literal_text_exact : forall o ov ls i txt fuel,
    print_ty names ctx o (TLit ov ls) = Some (i, txt) ->
    lit_shown o ls = true -> ls <> [] -> 2 + List.length ls <= fuel ->
    parse_ann_all fuel txt = Some (ALit ls).
  Proof.
    intros o ov ls i txt fuel P S NE F.
    pose proof (parse_print_all names ctx o (TLit ov ls) i txt P) as H.
    cbn [ann_wf denote ty_fuel] in H. rewrite S in H. cbn in H.
    destruct ls as [|x r]; [congruence|]. cbn in H. apply H; [reflexivity|exact F].
  Qed.
  Theorem literal_text_hidden : forall o ov ls i txt fuel,
    print_ty names ctx o (TLit ov ls) = Some (i, txt) ->
    lit_shown o ls = false -> 2 + List.length ls <= fuel ->
    parse_ann_all fuel txt = Some (AName (s_ "str"%string)).
  Proof.
    intros o ov ls i txt fuel P S F.
    pose proof (parse_print_all names ctx o (TLit ov ls) i txt P) as H.
    cbn [ann_wf denote ty_fuel] in H. rewrite S in H. cbn in H. apply H; [reflexivity|exact F].
  Qed.
End Lit.
Print Assumptions literal_text_exact.
Print Assumptions literal_text_hidden.
