(* Proofs/CtxProps.v — properties of Model/Ctx.v:
   (C) the thread-local context slot (C14 / C15): reads are defined in every thread, a render restores the slot,
       nested renders restore correctly, threads do not interfere for EVERY interleaving;
   (D) the names a render leaves behind (C14): rendering twice = rendering once, a failed render is harmless. *)
From Coq Require Import List Bool Arith NArith Lia.
From J2M.Model Require Import Base Ctx.
Import ListNotations.

(* ------------------------------------------------------------------------------------------------------------ *)
(* basic facts about the slot table and the saved table                                                        *)
(* ------------------------------------------------------------------------------------------------------------ *)
Lemma tls_get_set_same : forall s t v, tls_get (tls_set s t v) t = v.
Proof.
  unfold tls_get. induction s as [|[k w] r IH]; intros t v; simpl.
  - rewrite Nat.eqb_refl. reflexivity.
  - destruct (Nat.eqb k t) eqn:E; simpl; rewrite E; [reflexivity | apply IH].
Qed.

Lemma tls_get_set_other : forall s t t' v, t <> t' -> tls_get (tls_set s t v) t' = tls_get s t'.
Proof.
  unfold tls_get. induction s as [|[k w] r IH]; intros t t' v Hne; simpl.
  - destruct (Nat.eqb t t') eqn:E; [apply Nat.eqb_eq in E; contradiction | reflexivity].
  - destruct (Nat.eqb k t) eqn:E; simpl.
    + apply Nat.eqb_eq in E; subst k.
      destruct (Nat.eqb t t') eqn:E'; [apply Nat.eqb_eq in E'; contradiction | reflexivity].
    + destruct (Nat.eqb k t'); [reflexivity | apply IH; assumption].
Qed.

Lemma saved_get_cons_same : forall l c v, saved_get ((c, v) :: l) c = v.
Proof. intros. unfold saved_get. simpl. rewrite Nat.eqb_refl. reflexivity. Qed.

Lemma saved_get_cons_other : forall l c c' v, c <> c' -> saved_get ((c, v) :: l) c' = saved_get l c'.
Proof.
  intros l c c' v Hne. unfold saved_get. simpl.
  destruct (Nat.eqb c c') eqn:E; [apply Nat.eqb_eq in E; contradiction | reflexivity].
Qed.

Definition trun_from (st : tstate) (sched : list ev) : tstate := fold_left tstep sched st.

Lemma trun_is_from : forall sched, trun sched = trun_from tinit sched.
Proof. reflexivity. Qed.

Lemma trun_from_app : forall a b st, trun_from st (a ++ b) = trun_from (trun_from st a) b.
Proof. intros. unfold trun_from. apply fold_left_app. Qed.

Lemma reads_of_app : forall t st x,
  map snd (filter (fun r : tid * option ctxmap => Nat.eqb (fst r) t) (reads st ++ x))
  = reads_of t st ++ map snd (filter (fun r : tid * option ctxmap => Nat.eqb (fst r) t) x).
Proof. intros. unfold reads_of. rewrite filter_app, map_app. reflexivity. Qed.

(* ------------------------------------------------------------------------------------------------------------ *)
(* (C1) a read in a thread that never entered a context is defined and sees no context                        *)
(* ------------------------------------------------------------------------------------------------------------ *)
Theorem read_defined_any_thread : forall t, reads_of t (trun [Read t]) = [None].
Proof. intros t. unfold reads_of, trun. simpl. rewrite Nat.eqb_refl. reflexivity. Qed.

(* more generally: from ANY state a read of thread t records exactly the current slot of t, which is None for a
   thread without an entry *)
Theorem read_defined_from : forall st t,
  reads_of t (trun_from st [Read t]) = reads_of t st ++ [tls_get (slots st) t].
Proof.
  intros st t. unfold trun_from. simpl. unfold reads_of at 1. simpl.
  rewrite filter_app, map_app. simpl. rewrite Nat.eqb_refl. reflexivity.
Qed.

Theorem read_fresh_thread_none : forall st t,
  (forall kv, In kv (slots st) -> fst kv <> t) -> tls_get (slots st) t = None.
Proof.
  intros st t H. unfold tls_get.
  destruct (find (fun kv => Nat.eqb (fst kv) t) (slots st)) as [kv|] eqn:E; [|reflexivity].
  apply find_some in E. destruct E as [Hin Heq]. apply Nat.eqb_eq in Heq. exfalso. eapply H; eauto.
Qed.

(* ------------------------------------------------------------------------------------------------------------ *)
(* (C2) a render restores the slot, also when the block is left early                                          *)
(* ------------------------------------------------------------------------------------------------------------ *)
Lemma reads_block : forall k t st,
  slots (trun_from st (repeat (Read t) k)) = slots st /\
  saved (trun_from st (repeat (Read t) k)) = saved st /\
  reads (trun_from st (repeat (Read t) k)) = reads st ++ repeat (t, tls_get (slots st) t) k.
Proof.
  induction k as [|k IH]; intros t st; simpl.
  - rewrite app_nil_r. auto.
  - unfold trun_from in *. simpl.
    destruct (IH t {| slots := slots st; saved := saved st; reads := reads st ++ [(t, tls_get (slots st) t)] |})
      as (H1 & H2 & H3).
    simpl in *. rewrite H1, H2, H3. rewrite <- app_assoc. simpl. auto.
Qed.

(* No freshness of the context id is needed: __exit__ finds the entry pushed by ITS OWN __enter__ first. *)
Theorem render_restores : forall st t c p k,
  let st' := trun_from st (render_events t c p k) in
  (forall t', tls_get (slots st') t' = tls_get (slots st) t') /\
  reads st' = reads st ++ repeat (t, Some p) k /\
  saved st' = (c, tls_get (slots st) t) :: saved st.
Proof.
  intros st t c p k. unfold render_events. cbv zeta.
  change (Enter t c p :: repeat (Read t) k ++ [Exit t c]) with ([Enter t c p] ++ repeat (Read t) k ++ [Exit t c]).
  rewrite !trun_from_app.
  set (st1 := trun_from st [Enter t c p]).
  destruct (reads_block k t st1) as (H1 & H2 & H3).
  set (st2 := trun_from st1 (repeat (Read t) k)) in *.
  unfold trun_from at 1. simpl. rewrite H1, H2, H3.
  unfold st1, trun_from. simpl.
  rewrite saved_get_cons_same, tls_get_set_same.
  split; [|split; reflexivity].
  intros t'. destruct (Nat.eq_dec t t') as [->|Hne].
  - rewrite tls_get_set_same. reflexivity.
  - rewrite !tls_get_set_other by assumption. reflexivity.
Qed.

(* the statement asked for: the slot of t is as before, for every number k of reads before the exit
   (an exception inside the `with` block still runs __exit__), and every read inside sees Some p *)
Corollary render_restores_slot : forall st t c p k,
  tls_get (slots (trun_from st (Enter t c p :: repeat (Read t) k ++ [Exit t c]))) t = tls_get (slots st) t.
Proof. intros. apply (render_restores st t c p k). Qed.

Corollary render_reads_patched : forall st t c p k,
  reads_of t (trun_from st (render_events t c p k)) = reads_of t st ++ repeat (Some p) k.
Proof.
  intros. destruct (render_restores st t c p k) as (_ & H & _). unfold reads_of at 1. rewrite H.
  rewrite filter_app, map_app. f_equal. clear H.
  induction k as [|k IH]; simpl; [reflexivity|]. rewrite Nat.eqb_refl. simpl. f_equal. exact IH.
Qed.

Corollary render_from_init : forall t c p k,
  tls_get (slots (trun (render_events t c p k))) t = None /\
  reads_of t (trun (render_events t c p k)) = repeat (Some p) k.
Proof.
  intros. rewrite trun_is_from. split.
  - unfold render_events. rewrite render_restores_slot. reflexivity.
  - rewrite render_reads_patched. reflexivity.
Qed.

(* ------------------------------------------------------------------------------------------------------------ *)
(* (C4) nested renders in one thread                                                                           *)
(* ------------------------------------------------------------------------------------------------------------ *)
Theorem nested_restores : forall st t c1 c2 p1 p2, c1 <> c2 ->
  let st' := trun_from st [Enter t c1 p1; Enter t c2 p2; Exit t c2; Read t; Exit t c1] in
  (forall t', tls_get (slots st') t' = tls_get (slots st) t') /\
  reads st' = reads st ++ [(t, Some p1)].
Proof.
  intros st t c1 c2 p1 p2 Hne. cbv zeta. unfold trun_from. simpl.
  rewrite saved_get_cons_same.
  rewrite saved_get_cons_other by (intro; apply Hne; congruence).
  rewrite saved_get_cons_same. rewrite !tls_get_set_same.
  split; [|reflexivity].
  intros t'. destruct (Nat.eq_dec t t') as [->|Hn].
  - rewrite tls_get_set_same. reflexivity.
  - rewrite !tls_get_set_other by assumption. reflexivity.
Qed.

Corollary nested_restores_init : forall t c1 c2 p1 p2, c1 <> c2 ->
  tls_get (slots (trun [Enter t c1 p1; Enter t c2 p2; Exit t c2; Read t; Exit t c1])) t = None /\
  reads_of t (trun [Enter t c1 p1; Enter t c2 p2; Exit t c2; Read t; Exit t c1]) = [Some p1].
Proof.
  intros t c1 c2 p1 p2 Hne. rewrite trun_is_from.
  destruct (nested_restores tinit t c1 c2 p1 p2 Hne) as [H1 H2]. split.
  - rewrite H1. reflexivity.
  - unfold reads_of. rewrite H2. simpl. rewrite Nat.eqb_refl. reflexivity.
Qed.

(* the side condition c1 <> c2 is necessary: two live Context objects sharing one id clobber each other *)
Example nested_same_id_refuted :
  tls_get (slots (trun [Enter 0 7 [(1%N, 2%N)]; Enter 0 7 [(3%N, 4%N)]; Exit 0 7; Read 0; Exit 0 7])) 0
  = Some [(1%N, 2%N)].
Proof. vm_compute. reflexivity. Qed.

(* ------------------------------------------------------------------------------------------------------------ *)
(* (C3) C15: what a thread reads is what it reads when run alone, for every interleaving                       *)
(* ------------------------------------------------------------------------------------------------------------ *)
Definition ev_ctx (e : ev) : option nat :=
  match e with Enter _ c _ | Exit _ c => Some c | Read _ => None end.

(* the hypothesis of the task: a context id is used (entered / exited) by a single thread *)
Definition thread_owned (sched : list ev) : Prop :=
  forall e1 e2 c, In e1 sched -> In e2 sched -> ev_ctx e1 = Some c -> ev_ctx e2 = Some c -> ev_tid e1 = ev_tid e2.

(* what the proof really needs (weaker): a context is exited only by the thread(s) that enter it *)
Definition exit_by_owner (sched : list ev) : Prop :=
  forall t1 t2 c p, In (Exit t1 c) sched -> In (Enter t2 c p) sched -> t1 = t2.

Lemma thread_owned_exit_by_owner : forall sched, thread_owned sched -> exit_by_owner sched.
Proof.
  intros sched H t1 t2 c p H1 H2. exact (H (Exit t1 c) (Enter t2 c p) c H1 H2 eq_refl eq_refl).
Qed.

(* decidable form of thread_owned *)
Definition owned_pairb (e1 e2 : ev) : bool :=
  match ev_ctx e1, ev_ctx e2 with
  | Some c1, Some c2 => if Nat.eqb c1 c2 then Nat.eqb (ev_tid e1) (ev_tid e2) else true
  | _, _ => true
  end.
Definition thread_ownedb (sched : list ev) : bool :=
  forallb (fun e1 => forallb (fun e2 => owned_pairb e1 e2) sched) sched.

Lemma thread_ownedb_spec : forall sched, thread_ownedb sched = true <-> thread_owned sched.
Proof.
  intros sched. unfold thread_ownedb, thread_owned. split.
  - intros H e1 e2 c H1 H2 Hc1 Hc2.
    rewrite forallb_forall in H. specialize (H e1 H1). rewrite forallb_forall in H. specialize (H e2 H2).
    unfold owned_pairb in H. rewrite Hc1, Hc2, Nat.eqb_refl in H. apply Nat.eqb_eq. exact H.
  - intros H. apply forallb_forall. intros e1 H1. apply forallb_forall. intros e2 H2.
    unfold owned_pairb. destruct (ev_ctx e1) as [c1|] eqn:E1; [|reflexivity].
    destruct (ev_ctx e2) as [c2|] eqn:E2; [|reflexivity].
    destruct (Nat.eqb c1 c2) eqn:E; [|reflexivity]. apply Nat.eqb_eq in E. subst c2.
    apply Nat.eqb_eq. eapply H; eauto.
Qed.

Section NonInterference.
  Variable t : tid.
  (* ids thread t may rely on: never entered by another thread *)
  Variable mine : nat -> Prop.

  (* the simulation between the full run and the run of thread t alone *)
  Definition sim (S P : tstate) : Prop :=
    tls_get (slots S) t = tls_get (slots P) t /\
    (forall c, mine c -> saved_get (saved S) c = saved_get (saved P) c) /\
    reads_of t S = reads_of t P.

  (* local well-formedness of a schedule w.r.t. `mine` *)
  Definition respects (l : list ev) : Prop :=
    (forall c, In (Exit t c) l -> mine c) /\
    (forall t' c p, In (Enter t' c p) l -> t' <> t -> ~ mine c).

  Lemma respects_tail : forall e l, respects (e :: l) -> respects l.
  Proof. intros e l [H1 H2]. split; intros; [apply H1 | eapply H2]; simpl; eauto. Qed.

  Lemma sim_step_mine : forall S P e, sim S P -> ev_tid e = t ->
    (forall c, e = Exit t c -> mine c) -> sim (tstep S e) (tstep P e).
  Proof.
    intros S P e (Hs & Hv & Hr) Ht Hm. destruct e as [t0 c p|t0 c|t0]; simpl in Ht; subst t0; unfold sim; simpl.
    - rewrite !tls_get_set_same. split; [reflexivity|]. split; [|exact Hr].
      intros c' Hc'. destruct (Nat.eq_dec c c') as [->|Hne].
      + rewrite !saved_get_cons_same. exact Hs.
      + rewrite !saved_get_cons_other by assumption. apply Hv; assumption.
    - rewrite !tls_get_set_same. split; [|split; [exact Hv | exact Hr]].
      apply Hv. apply Hm. reflexivity.
    - split; [exact Hs|]. split; [exact Hv|].
      unfold reads_of at 1 2. simpl. rewrite !filter_app, !map_app. simpl.
      rewrite Nat.eqb_refl. simpl. unfold reads_of in Hr. f_equal; [exact Hr | f_equal; exact Hs].
  Qed.

  Lemma sim_step_other : forall S P e, sim S P -> ev_tid e <> t ->
    (forall t' c p, e = Enter t' c p -> ~ mine c) -> sim (tstep S e) P.
  Proof.
    intros S P e (Hs & Hv & Hr) Ht Hm. destruct e as [t0 c p|t0 c|t0]; simpl in Ht; unfold sim; simpl.
    - rewrite tls_get_set_other by assumption. split; [exact Hs|]. split; [|exact Hr].
      intros c' Hc'. rewrite saved_get_cons_other; [apply Hv; assumption|].
      intros ->. exact (Hm t0 c' p eq_refl Hc').
    - rewrite tls_get_set_other by assumption. auto.
    - split; [exact Hs|]. split; [exact Hv|].
      unfold reads_of at 1. simpl. rewrite filter_app, map_app. simpl.
      destruct (Nat.eqb t0 t) eqn:E; [apply Nat.eqb_eq in E; contradiction|].
      simpl. rewrite app_nil_r. exact Hr.
  Qed.

  Lemma sim_run : forall l S P, respects l -> sim S P ->
    sim (trun_from S l) (trun_from P (project t l)).
  Proof.
    induction l as [|e l IH]; intros S P Hresp Hsim; simpl; [exact Hsim|].
    pose proof (respects_tail _ _ Hresp) as Hresp'. destruct Hresp as [HR1 HR2].
    unfold trun_from in *. simpl.
    destruct (Nat.eqb (ev_tid e) t) eqn:E.
    - apply Nat.eqb_eq in E. simpl. apply IH; [assumption|].
      apply sim_step_mine; [assumption|assumption|]. intros c ->. apply HR1. left. reflexivity.
    - apply Nat.eqb_neq in E. apply IH; [assumption|].
      apply sim_step_other; [assumption|assumption|].
      intros t' c p ->. simpl in E. eapply HR2; [left; reflexivity | assumption].
  Qed.
End NonInterference.

Lemma sim_refl : forall t mine S, sim t mine S S.
Proof. intros. unfold sim. auto. Qed.

(* main theorem, from any common start state, under the weak hypothesis *)
Theorem C15_noninterference_from : forall sched st t, exit_by_owner sched ->
  reads_of t (trun_from st sched) = reads_of t (trun_from st (project t sched)) /\
  tls_get (slots (trun_from st sched)) t = tls_get (slots (trun_from st (project t sched))) t.
Proof.
  intros sched st t H.
  pose (mine := fun c : nat => forall t' p, In (Enter t' c p) sched -> t' = t).
  assert (Hresp : respects t mine sched).
  { split.
    - intros c Hin t' p Hin'. symmetry. eapply H; eauto.
    - intros t' c p Hin Hne Hm. apply Hne. eapply Hm; eauto. }
  destruct (sim_run t mine sched st st Hresp (sim_refl t mine st)) as (H1 & _ & H3).
  split; assumption.
Qed.

(* the statement asked for.  "Each id is entered at most once" and "Exit only after its Enter" are NOT needed:
   re-entering an own id or exiting a never-entered id behaves the same alone and interleaved. *)
Theorem C15_noninterference : forall sched, thread_owned sched ->
  forall t, reads_of t (trun sched) = reads_of t (trun (project t sched)).
Proof.
  intros sched H t. rewrite !trun_is_from.
  apply C15_noninterference_from. apply thread_owned_exit_by_owner. exact H.
Qed.

Corollary C15_noninterference_b : forall sched, thread_ownedb sched = true ->
  forall t, reads_of t (trun sched) = reads_of t (trun (project t sched)).
Proof. intros sched H. apply C15_noninterference. apply thread_ownedb_spec. exact H. Qed.

Corollary C15_noninterference_weak : forall sched, exit_by_owner sched ->
  forall t, reads_of t (trun sched) = reads_of t (trun (project t sched)).
Proof. intros sched H t. rewrite !trun_is_from. apply C15_noninterference_from. exact H. Qed.

(* consequence: two interleavings with the same per-thread projections give every thread the same reads *)
Corollary C15_interleaving_independent : forall s1 s2 t,
  thread_owned s1 -> thread_owned s2 -> project t s1 = project t s2 ->
  reads_of t (trun s1) = reads_of t (trun s2).
Proof.
  intros s1 s2 t H1 H2 Hp. rewrite (C15_noninterference s1 H1 t), (C15_noninterference s2 H2 t), Hp. reflexivity.
Qed.

(* the hypothesis is necessary: when another thread re-uses a live context id, thread 0 reads None instead of the
   patches of its outer context (alone it reads Some [(1,2)]) *)
Definition shared_id_sched : list ev :=
  [Enter 0 1 [(1%N, 2%N)]; Enter 0 5 [(3%N, 4%N)]; Enter 1 5 [(5%N, 6%N)]; Exit 0 5; Read 0; Exit 0 1].
Example shared_id_interferes :
  thread_ownedb shared_id_sched = false /\
  reads_of 0 (trun shared_id_sched) = [None] /\
  reads_of 0 (trun (project 0 shared_id_sched)) = [Some [(1%N, 2%N)]].
Proof. vm_compute. auto. Qed.

(* ------------------------------------------------------------------------------------------------------------ *)
(* (D) names left behind by rendering                                                                          *)
(* ------------------------------------------------------------------------------------------------------------ *)
Section NamesProps.
  Variable conv : str -> option str.

  Lemma convert_all_nil : convert_all conv [] = Some [].
  Proof. reflexivity. Qed.

  Lemma convert_all_cons : forall i n r,
    convert_all conv ((i, n) :: r) =
    match conv n, convert_all conv r with
    | Some n', Some r' => Some ((i, n') :: r')
    | _, _ => None
    end.
  Proof. reflexivity. Qed.

  (* (D3) *)
  Theorem convert_preserves_indices : forall k ns ns',
    convert_prefix conv k ns = Some ns' -> map fst ns' = map fst ns.
  Proof.
    induction k as [|k IH]; intros ns ns' H; simpl in H.
    - inversion H. reflexivity.
    - destruct ns as [|[i n] r]; [inversion H; reflexivity|].
      destruct (conv n) as [n'|]; [|discriminate].
      destruct (convert_prefix conv k r) as [r'|] eqn:E; [|discriminate].
      inversion H. subst ns'. simpl. f_equal. apply IH. exact E.
  Qed.

  Corollary convert_preserves_length : forall k ns ns',
    convert_prefix conv k ns = Some ns' -> length ns' = length ns.
  Proof.
    intros k ns ns' H. apply convert_preserves_indices in H.
    rewrite <- (map_length fst ns'), H. apply map_length.
  Qed.

  (* more fuel than names changes nothing *)
  Lemma convert_prefix_enough : forall k ns, length ns <= k -> convert_prefix conv k ns = convert_all conv ns.
  Proof.
    induction k as [|k IH]; intros ns Hk.
    - destruct ns; [reflexivity | simpl in Hk; lia].
    - destruct ns as [|[i n] r]; [reflexivity|].
      rewrite convert_all_cons. simpl. rewrite IH by (simpl in Hk; lia). reflexivity.
  Qed.

  Hypothesis conv_idem : forall s l, conv s = Some l -> conv l = Some l.

  (* (D1) *)
  Theorem convert_all_idem : forall ns ns',
    convert_all conv ns = Some ns' -> convert_all conv ns' = Some ns'.
  Proof.
    induction ns as [|[i n] r IH]; intros ns' H.
    - inversion H. reflexivity.
    - rewrite convert_all_cons in H.
      destruct (conv n) as [n'|] eqn:En; [|discriminate].
      destruct (convert_all conv r) as [r'|] eqn:Er; [|discriminate].
      inversion H. subst ns'. rewrite convert_all_cons.
      rewrite (conv_idem _ _ En), (IH r' eq_refl). reflexivity.
  Qed.

  (* (D2), precise relation: after a render that raised having converted k names, a complete render behaves
     exactly as it would have on the original names: same success / failure, same resulting names *)
  Theorem failed_render_same : forall k ns ns1,
    convert_prefix conv k ns = Some ns1 -> convert_all conv ns1 = convert_all conv ns.
  Proof.
    induction k as [|k IH]; intros ns ns1 H; simpl in H.
    - inversion H. reflexivity.
    - destruct ns as [|[i n] r]; [inversion H; reflexivity|].
      destruct (conv n) as [n'|] eqn:En; [|discriminate].
      destruct (convert_prefix conv k r) as [r1|] eqn:Er; [|discriminate].
      inversion H. subst ns1. rewrite !convert_all_cons.
      rewrite En, (conv_idem _ _ En), (IH r r1 Er). reflexivity.
  Qed.

  Theorem failed_render_harmless : forall k ns ns1 ns',
    convert_prefix conv k ns = Some ns1 -> convert_all conv ns = Some ns' -> convert_all conv ns1 = Some ns'.
  Proof. intros k ns ns1 ns' H1 H2. rewrite (failed_render_same k ns ns1 H1). exact H2. Qed.

  Theorem failed_render_harmless_none : forall k ns ns1,
    convert_prefix conv k ns = Some ns1 -> convert_all conv ns = None -> convert_all conv ns1 = None.
  Proof. intros k ns ns1 H1 H2. rewrite (failed_render_same k ns ns1 H1). exact H2. Qed.

  (* a complete render after any number of complete / partial renders: still the same names *)
  Corollary render_twice_after_partial : forall k ns ns1 ns',
    convert_prefix conv k ns = Some ns1 -> convert_all conv ns = Some ns' ->
    convert_all conv ns1 = Some ns' /\ convert_all conv ns' = Some ns'.
  Proof.
    intros k ns ns1 ns' H1 H2. split.
    - eapply failed_render_harmless; eauto.
    - eapply convert_all_idem; eauto.
  Qed.
End NamesProps.

(* without idempotence of the conversion, (D1) fails: conv = "append one character" *)
Example idem_needed :
  let conv := fun s : str => Some (s ++ [95%N]) in
  convert_all conv [(0%N, [97%N])] = Some [(0%N, [97%N; 95%N])] /\
  convert_all conv [(0%N, [97%N; 95%N])] = Some [(0%N, [97%N; 95%N; 95%N])].
Proof. vm_compute. auto. Qed.

Print Assumptions read_defined_any_thread.
Print Assumptions render_restores.
Print Assumptions render_restores_slot.
Print Assumptions render_reads_patched.
Print Assumptions nested_restores.
Print Assumptions nested_restores_init.
Print Assumptions C15_noninterference_from.
Print Assumptions C15_noninterference.
Print Assumptions C15_noninterference_b.
Print Assumptions shared_id_interferes.
Print Assumptions convert_all_idem.
Print Assumptions failed_render_same.
Print Assumptions failed_render_harmless.
Print Assumptions failed_render_harmless_none.
Print Assumptions convert_preserves_indices.
