(* Proofs/PermProps.v — C07: `generate` does not depend on the order or the multiplicity of the samples
   (up to field order and union member order, sem_eqb).  Helpers: Proofs/PermAux.v.

   Proved here and in PermAux.v, all closed under the global context:
   (a) ty_cmp is a total order consistent with equality (ty_cmp_eq_iff, ty_cmp_opp, ty_cmp_trans, ty_cmp_total);
       sort_by ty_cmp is invariant under permutation (sort_ty_perm); canon is idempotent (canon_idem);
       sem_eqb a b = true <-> canon a = canon b (sem_eqb_iff); sem_eqb is an equivalence relation.
   (b) mk_union_set_sem: mk_union depends only on the SET of flattened members, up to sem_eqb.
   (c) merge_keys_status_set: the key set and the required/optional status of every key of merge_field_sets depend
       only on the SET of field sets; merge_lookup_spec is the closed form of one key of the merged field set.
   (M) merge_rel: merge_field_sets respects the equivalence `orel` of raw field sets (any order, any multiplicity,
       members/fields compared up to order) — the py_eq shortcuts, the `first` flag and the member orders of
       union1 (members field ++ members fo) are all absorbed (py_teq, join1, fold_join, J_absorb, J_cong).
   (d) optimize_cong_thm: optimize respects the equivalence of fields `frel` (Optional flag equal, contents equal as
       sets of members up to the equivalence), for any two fuels; by induction on a depth measure (P3_all), from
       finish_ceq, regroup_cong, merge_rel, the homogeneous-union lemmas and step_obj / step_list / step_dict.
   (e) generate_perm_dup: the C07 theorem, exactly as stated in the brief, with NO side condition
       (generate_perm_dup_cong is the same theorem with (d) as an explicit premise; generate_perm: permutations). *)
From Coq Require Import List Bool Arith NArith ZArith Lia Permutation.
From J2M.Model Require Import Base Union Merge Optimize Detect Canon.
From J2M.Sem Require Import NF.
From J2M.Proofs Require Import Sound NormalForm OrderIndep PermAux.
Import ListNotations.

(* ------------------------------------------------------------------ *)
(* E.1 objects with the same keys and canon-equal values                *)
Lemma lookup_kcanon k (F : fields) : lookup k (map kcanon F) = option_map canon (lookup k F).
Proof. apply (lookup_map_vals (fun _ => canon) k F). Qed.
Lemma NoDup_fst_NoDup {A B} (l : list (A * B)) : NoDup (map fst l) -> NoDup l.
Proof. apply NoDup_map_inv. Qed.
Lemma map_fst_kcanon (F : fields) : map fst (map kcanon F) = map fst F.
Proof. rewrite map_map. reflexivity. Qed.

Theorem canon_obj_ext F F' : NoDup (map fst F) -> NoDup (map fst F') ->
  (forall k, option_map canon (lookup k F) = option_map canon (lookup k F')) ->
  canon (TObj F) = canon (TObj F').
Proof.
  intros N1 N2 H. rewrite !canon_obj. f_equal. apply sort_flds_perm; [|rewrite map_fst_kcanon; exact N1].
  assert (M1 : NoDup (map fst (map kcanon F))) by (rewrite map_fst_kcanon; exact N1).
  assert (M2 : NoDup (map fst (map kcanon F'))) by (rewrite map_fst_kcanon; exact N2).
  apply NoDup_Permutation; [apply NoDup_fst_NoDup; exact M1 | apply NoDup_fst_NoDup; exact M2|].
  intros [k v]. split; intros Hi.
  - apply Sound.lookup_In. rewrite lookup_kcanon, <- H, <- lookup_kcanon. apply In_lookup_nodup; assumption.
  - apply Sound.lookup_In. rewrite lookup_kcanon, H, <- lookup_kcanon. apply In_lookup_nodup; assumption.
Qed.

Lemma opt_fields_lookup o : forall l l', opt_fields o l = Some l' ->
  map fst l' = map fst l /\
  forall k, match lookup k l with
            | None => lookup k l' = None
            | Some x => exists x', lookup k l' = Some x' /\ o x = Some x'
            end.
Proof.
  induction l as [|[k0 x0] r IH]; simpl; intros l' H.
  - inversion H. split; [reflexivity | intros k; reflexivity].
  - destruct (o x0) as [x0'|] eqn:E0; [|discriminate]. destruct (opt_fields o r) as [r'|] eqn:Er; [|discriminate].
    inversion H; subst l'. destruct (IH r' eq_refl) as [A B]. split; [simpl; rewrite A; reflexivity|].
    intros k. simpl. destruct (str_eqb k k0); [exists x0'; auto | apply B].
Qed.

(* ------------------------------------------------------------------ *)
(* E.1b the tail of _optimize_union (finish) respects canon-equality up to permutation                  *)
Lemma canon_is_lit x : is_lit (canon x) = is_lit x. Proof. destruct x; reflexivity. Qed.
Lemma canon_is_union x : is_union (canon x) = is_union x. Proof. destruct x; reflexivity. Qed.
Lemma canon_is_null x : is_null (canon x) = is_null x. Proof. destruct x; reflexivity. Qed.
Lemma canon_is_unknown x : is_unknown (canon x) = is_unknown x. Proof. destruct x; reflexivity. Qed.
Lemma canon_lit_inv x o l : canon x = TLit o l -> x = TLit o l. Proof. destruct x; simpl; intros H; try discriminate; exact H. Qed.
Lemma canon_str_inv x : canon x = TStr -> x = TStr. Proof. destruct x; simpl; intros H; try discriminate; reflexivity. Qed.
Lemma lit_step_canon st a : lit_step st (canon a) = lit_step st a.
Proof. destruct st as [ul ls]. destruct a; reflexivity. Qed.
Lemma lit_fold_canon : forall F st, fold_left lit_step (map canon F) st = fold_left lit_step F st.
Proof. induction F as [|a F IH]; intros st; [reflexivity|]. cbn [map fold_left]. rewrite lit_step_canon. apply IH. Qed.
Lemma flatl_map_canon L : flatl L -> flatl (map canon L).
Proof. intros H x Hx. apply in_map_iff in Hx. destruct Hx as [z [<- Hz]]. rewrite canon_is_union. apply H. exact Hz. Qed.
Lemma mk_ul_canon L : flatl L -> mk_ul (map canon L) = mk_ul L.
Proof. intros H. unfold mk_ul. rewrite (flatl_flatten _ (flatl_map_canon L H)), (flatl_flatten L H), lit_fold_canon. reflexivity. Qed.
Lemma mk_ls_canon L : flatl L -> mk_ls (map canon L) = mk_ls L.
Proof. intros H. unfold mk_ls. rewrite (flatl_flatten _ (flatl_map_canon L H)), (flatl_flatten L H), lit_fold_canon. reflexivity. Qed.

Theorem mk_union_canon_set L : flatl L -> seteq (map canon (mk_union L)) (mk_union (map canon L)).
Proof.
  intros FL x. pose proof (flatl_map_canon L FL) as FC.
  rewrite in_map_iff, mk_union_In_iff. unfold str_cond, lit_cond.
  rewrite (mk_ul_canon L FL), (mk_ls_canon L FL), (flatl_flatten _ FC). split.
  - intros [z [<- Hz]]. apply mk_union_In_iff in Hz. rewrite (flatl_flatten L FL) in Hz.
    destruct Hz as [[H1 H2]|[[-> H1]|[-> H1]]].
    + left. split; [apply in_map; exact H1 | rewrite canon_is_lit; exact H2].
    + right. left. split; [reflexivity | exact H1].
    + right. right. split; [reflexivity | exact H1].
  - intros [[H1 H2]|[[-> H1]|[-> H1]]].
    + apply in_map_iff in H1. destruct H1 as [z [<- Hz]]. exists z. split; [reflexivity|].
      apply mk_union_In_iff. left. rewrite (flatl_flatten L FL). split; [exact Hz | rewrite <- canon_is_lit; exact H2].
    + exists TStr. split; [reflexivity|]. apply mk_union_In_iff. right. left. split; [reflexivity | exact H1].
    + exists (TLit false (mk_ls L)). split; [reflexivity|]. apply mk_union_In_iff. right. right. split; [reflexivity | exact H1].
Qed.

Definition cinj (L : list ty) : Prop := forall a b, In a L -> In b L -> canon a = canon b -> a = b.
Lemma cinj_sub L L' : (forall x, In x L' -> In x L) -> cinj L -> cinj L'.
Proof. intros H C a b Ha Hb. apply C; apply H; assumption. Qed.
Lemma cinj_mk_union L : flatl L -> cinj L -> cinj (mk_union L).
Proof.
  intros FL C a b Ha Hb E. apply mk_union_In_iff in Ha, Hb. rewrite (flatl_flatten L FL) in Ha, Hb.
  destruct Hb as [[Hb _]|[[-> _]|[-> _]]].
  - destruct Ha as [[Ha _]|[[-> _]|[-> _]]]; [apply C; assumption | |].
    + symmetry. symmetry in E. apply canon_str_inv in E. exact E.
    + symmetry. symmetry in E. apply canon_lit_inv in E. exact E.
  - apply canon_str_inv in E. exact E.
  - apply canon_lit_inv in E. exact E.
Qed.
Lemma NoDup_map_cinj L : NoDup L -> cinj L -> NoDup (map canon L).
Proof.
  induction L as [|x r IH]; intros N C; [constructor|]. inversion N as [|y s Hy Hs]; subst. simpl. constructor.
  - intros Hi. apply in_map_iff in Hi. destruct Hi as [z [Ez Hz]]. assert (z = x) by (apply C; [right; exact Hz | left; reflexivity | exact Ez]).
    subst z. contradiction.
  - apply IH; [exact Hs | eapply cinj_sub; [|exact C]; intros z Hz; right; exact Hz].
Qed.

Theorem union1_ceq L L' : flatl L -> flatl L' -> cinj L -> cinj L' -> seteq (map canon L) (map canon L') ->
  canon (union1 L) = canon (union1 L').
Proof.
  intros F1 F2 C1 C2 HS.
  assert (P : Permutation (map canon (mk_union L)) (map canon (mk_union L'))).
  { apply NoDup_Permutation.
    - apply NoDup_map_cinj; [apply mk_union_NoDup | apply cinj_mk_union; assumption].
    - apply NoDup_map_cinj; [apply mk_union_NoDup | apply cinj_mk_union; assumption].
    - eapply seteq_trans; [apply mk_union_canon_set; exact F1|].
      eapply seteq_trans; [|apply seteq_sym, mk_union_canon_set; exact F2].
      apply J_seteq; [apply flatl_map_canon; exact F1 | apply flatl_map_canon; exact F2 | exact HS]. }
  unfold union1. destruct (mk_union L) as [|a [|b r]] eqn:E1; destruct (mk_union L') as [|a' [|b' r']] eqn:E2;
    try (apply Permutation_length in P; simpl in P; discriminate P).
  - reflexivity.
  - simpl in P. apply Permutation_length_1 in P. exact P.
  - apply canon_union_perm. exact P.
Qed.

Lemma existsb_map' {A B} (f : B -> bool) (g : A -> B) l : existsb f (map g l) = existsb (fun x => f (g x)) l.
Proof. induction l as [|x r IH]; [reflexivity|]. simpl. rewrite IH. reflexivity. Qed.
Lemma existsb_canon f T T' : (forall x, f (canon x) = f x) -> seteq (map canon T) (map canon T') -> existsb f T = existsb f T'.
Proof.
  intros Hf HS.
  assert (E : forall L, existsb f (map canon L) = existsb f L).
  { induction L as [|x r IH]; [reflexivity|]. simpl. rewrite Hf, IH. reflexivity. }
  rewrite <- (E T), <- (E T'). apply existsb_same. exact HS.
Qed.
Lemma existsb_remove_first {A} (f g : A -> bool) : (forall x, f x = true -> g x = false) ->
  forall l, existsb g (remove_first f l) = existsb g l.
Proof.
  intros H. induction l as [|x r IH]; [reflexivity|]. simpl. destruct (f x) eqn:E; [rewrite (H x E); reflexivity|].
  simpl. rewrite IH. reflexivity.
Qed.

Theorem finish_ceq T T' u u' : flatl T -> flatl T' -> cinj T -> cinj T' ->
  count is_unknown T <= 1 -> count is_unknown T' <= 1 ->
  seteq (map canon T) (map canon T') -> length T = length T' ->
  finish T = Some u -> finish T' = Some u' -> canon u = canon u'.
Proof.
  intros F1 F2 C1 C2 U1 U2 HS HL E1 E2.
  destruct (le_lt_dec 2 (length T)) as [Hlen|Hlen].
  2:{ destruct T as [|a [|b r]]; [discriminate| |simpl in Hlen; lia]. destruct T' as [|a' [|b' r']]; try discriminate HL.
      simpl in E1, E2. inversion E1; inversion E2; subst. specialize (HS (canon u)). simpl in HS.
      destruct (proj1 HS (or_introl eq_refl)) as [H|[]]. symmetry. exact H. }
  rewrite (finish_2 T Hlen) in E1. rewrite (finish_2 T') in E2 by lia. inversion E1; inversion E2; subst u u'. clear E1 E2.
  set (c := existsb is_unknown T && existsb (fun t => negb (is_unknown t) && negb (is_null t)) T).
  assert (EC : existsb is_unknown T' && existsb (fun t => negb (is_unknown t) && negb (is_null t)) T' = c).
  { unfold c. f_equal; symmetry; apply existsb_canon; try exact HS; intros x; [apply canon_is_unknown|].
    rewrite canon_is_unknown, canon_is_null. reflexivity. }
  assert (N1 : forall T0, existsb is_null (fin_T1 T0) = existsb is_null T0).
  { intros T0. unfold fin_T1.
    destruct (existsb is_unknown T0 && existsb (fun t => negb (is_unknown t) && negb (is_null t)) T0); [|reflexivity].
    apply existsb_remove_first.
    intros x Hx. destruct x; try discriminate; reflexivity. }
  assert (M2 : forall T0, count is_unknown T0 <= 1 -> forall x, In x (fin_T2 T0) <->
             In x T0 /\ is_null x = false /\
             (existsb is_unknown T0 && existsb (fun t => negb (is_unknown t) && negb (is_null t)) T0 = true -> is_unknown x = false)).
  { intros T0 HU x. unfold fin_T2, fin_T1. rewrite filter_In, negb_true_iff.
    destruct (existsb is_unknown T0 && existsb (fun t => negb (is_unknown t) && negb (is_null t)) T0).
    - split.
      + intros [H1 H2]. split; [eapply sub_In; [apply sub_remove_first | exact H1]|]. split; [exact H2|]. intros _.
        apply (remove_first_none is_unknown T0 HU x H1).
      + intros [H1 [H2 H3]]. split; [apply remove_first_keeps; [exact H1 | apply H3; reflexivity] | exact H2].
    - split; [intros [H1 H2]; repeat split; auto; discriminate | intros [H1 [H2 _]]; auto]. }
  assert (SL : seteq (map canon (fin_T2 T)) (map canon (fin_T2 T'))).
  { assert (K : forall A B cA cB, count is_unknown A <= 1 -> count is_unknown B <= 1 -> seteq (map canon A) (map canon B) ->
               existsb is_unknown A && existsb (fun t => negb (is_unknown t) && negb (is_null t)) A = cA ->
               existsb is_unknown B && existsb (fun t => negb (is_unknown t) && negb (is_null t)) B = cB -> cA = cB ->
               forall y, In y (map canon (fin_T2 A)) -> In y (map canon (fin_T2 B))).
    { intros A B cA cB UA UB SAB EA EB Ecc y Hy. apply in_map_iff in Hy. destruct Hy as [x [<- Hx]].
      apply (M2 A UA) in Hx. destruct Hx as [H1 [H2 H3]].
      assert (In (canon x) (map canon B)) as Hi by (apply SAB; apply in_map; exact H1).
      apply in_map_iff in Hi. destruct Hi as [z [Ez Hz]]. rewrite <- Ez. apply in_map. apply (M2 B UB). split; [exact Hz|].
      split; [rewrite <- canon_is_null, Ez, canon_is_null; exact H2|].
      intros Hc. rewrite <- canon_is_unknown, Ez, canon_is_unknown. apply H3. congruence. }
    intros y. split; [apply (K T T' c c U1 U2 HS eq_refl EC eq_refl) | apply (K T' T c c U2 U1 (seteq_sym _ _ HS) EC eq_refl eq_refl)]. }
  assert (SUB1 : forall x, In x (fin_T2 T) -> In x T) by (intros x Hx; apply (M2 T U1) in Hx; apply Hx).
  assert (SUB2 : forall x, In x (fin_T2 T') -> In x T') by (intros x Hx; apply (M2 T' U2) in Hx; apply Hx).
  assert (UE : canon (union1 (fin_T2 T)) = canon (union1 (fin_T2 T'))).
  { apply union1_ceq; try exact SL.
    - intros x Hx. apply F1. apply SUB1. exact Hx.
    - intros x Hx. apply F2. apply SUB2. exact Hx.
    - eapply cinj_sub; [exact SUB1 | exact C1].
    - eapply cinj_sub; [exact SUB2 | exact C2]. }
  rewrite (N1 T), (N1 T'), (existsb_canon is_null T T' canon_is_null HS).
  destruct (existsb is_null T'); simpl; rewrite UE; reflexivity.
Qed.

(* ------------------------------------------------------------------ *)
(* E.1c one step of _optimize_union: regroup classifies the members independently of their order, finish looks at
   the optimised members through membership only.  The recursive calls are abstracted as hypotheses.               *)
Lemma pdedup_fold_In : forall l acc p,
  In p (fold_left (fun acc p => if pmem p acc then acc else acc ++ [p]) l acc) <-> In p acc \/ In p l.
Proof.
  induction l as [|a l IH]; intros acc p; simpl; [tauto|]. rewrite IH.
  destruct (pmem a acc) eqn:E; [apply pmem_In in E; split; [tauto|]; intros [H|[<-|H]]; auto|].
  rewrite in_app_iff. simpl. tauto.
Qed.
Lemma pdedup_fold_NoDup : forall l acc, NoDup acc -> NoDup (fold_left (fun acc p => if pmem p acc then acc else acc ++ [p]) l acc).
Proof.
  induction l as [|a l IH]; intros acc N; simpl; [exact N|]. apply IH.
  destruct (pmem a acc) eqn:E; [exact N|].
  assert (~ In a acc) as Na by (intros Hi; apply pmem_In in Hi; congruence).
  clear E IH. induction acc as [|x r IHr]; simpl; [constructor; [intros []|constructor]|].
  inversion N as [|y s Hy Hs]; subst. constructor.
  - rewrite in_app_iff. simpl. intros [H|[H|[]]]; [contradiction|]. subst. apply Na. left. reflexivity.
  - apply IHr; [exact Hs | intros Hi; apply Na; right; exact Hi].
Qed.

(* the rebuilt list / mapping member: DUnion of related families of element types *)
Lemma flatten_concat : forall xs, flatten_union xs = concat (map flat xs).
Proof. induction xs as [|x r IH]; [reflexivity|]. rewrite flatten_cons, IH. reflexivity. Qed.
Lemma nmem_dunion xs : seteq (nmem (dunion xs)) (mk_union (concat (map flat xs))).
Proof.
  unfold dunion. rewrite nmem_flat. change (flat (TUnion (mk_union xs))) with (flatten_union (mk_union xs)).
  rewrite (flatl_flatten _ (flatl_mk_union xs)), (mk_union_of_flatten xs), flatten_concat.
  apply J_idem. apply flatl_concat. intros X HX. apply in_map_iff in HX. destruct HX as [z [<- _]]. apply flatl_flat.
Qed.
Theorem dunion_family xs ys : (forall x, In x xs -> exists y, In y ys /\ teq x y) ->
  (forall y, In y ys -> exists x, In x xs /\ teq x y) -> teq (dunion xs) (dunion ys).
Proof.
  intros A B. unfold teq.
  eapply leq_trans; [apply seteq_leq, nmem_dunion|]. eapply leq_trans; [|apply leq_sym, seteq_leq, nmem_dunion].
  apply J_concat_leq.
  - intros X HX. apply in_map_iff in HX. destruct HX as [z [<- _]]. apply flatl_flat.
  - intros X HX. apply in_map_iff in HX. destruct HX as [z [<- _]]. apply flatl_flat.
  - intros X HX. apply in_map_iff in HX. destruct HX as [x [<- Hx]]. destruct (A x Hx) as [y [Hy T]].
    exists (flat y). split; [apply in_map; exact Hy|]. rewrite <- !nmem_flat. exact T.
  - intros X HX. apply in_map_iff in HX. destruct HX as [y [<- Hy]]. destruct (B y Hy) as [x [Hx T]].
    exists (flat x). split; [apply in_map; exact Hx|]. rewrite <- !nmem_flat. exact T.
Qed.

Section Cong.
  Variable registry : list pseudo.
  Variable replaces : list (pseudo * pseudo).
  Variable peq : N -> N -> bool.
  Notation optimize := (optimize registry replaces peq).
  Notation regroup := (regroup registry replaces peq).

  Lemma str_result_same strs strs' : seteq strs strs' -> str_result replaces strs = str_result replaces strs'.
  Proof.
    intros HS. unfold str_result. rewrite (existsb_same is_str strs strs' HS).
    destruct (existsb is_str strs'); [reflexivity|].
    assert (PP : Permutation (pseudos_of strs) (pseudos_of strs')).
    { unfold pseudos_of, pdedup. apply NoDup_Permutation; try (apply pdedup_fold_NoDup; constructor).
      intros p. rewrite !pdedup_fold_In, !in_flat_map. split; intros [[]|[x [Hx Hp]]]; right; exists x; (split; [apply HS; exact Hx | exact Hp]). }
    pose proof (resolve_perm_multiset replaces replaces (fun x => conj (fun H => H) (fun H => H)) (Datatypes.S (length (pseudos_of strs))) _ _ PP) as RP.
    rewrite <- (Permutation_length PP).
    destruct strs as [|s0 r0]; destruct strs' as [|s0' r0'].
    - reflexivity.
    - exfalso. apply (HS s0'). left. reflexivity.
    - exfalso. apply (HS s0). left. reflexivity.
    - destruct (resolve replaces (Datatypes.S (length (pseudos_of (s0 :: r0)))) (pseudos_of (s0 :: r0))) as [|p [|q r]];
      destruct (resolve replaces (Datatypes.S (length (pseudos_of (s0 :: r0)))) (pseudos_of (s0' :: r0'))) as [|p' [|q' r']];
      try reflexivity; try (apply Permutation_length in RP; simpl in RP; discriminate RP).
      apply Permutation_length_1 in RP. subst. reflexivity.
  Qed.

  (* atoms are fixed by optimize *)
  Definition atomic (x : ty) : Prop :=
    is_union x = false /\ is_opt x = false /\ is_list x = false /\ is_dict x = false /\ is_obj x = false /\
    forall o l, x = TLit o l -> o = false /\ l <> [].
  Lemma optimize_atomic n x : atomic x -> optimize (Datatypes.S n) x = Some x.
  Proof.
    intros [A1 [A2 [A3 [A4 [A5 A6]]]]]. rewrite NormalForm.optimize_S. destruct x; try reflexivity; try discriminate.
    destruct (A6 _ _ eq_refl) as [-> Hn]. destruct ls; [congruence | reflexivity].
  Qed.
  Lemma optimize_atomic' n x t : atomic x -> optimize n x = Some t -> t = x.
  Proof. destruct n; [discriminate|]. intros A H. rewrite (optimize_atomic n x A) in H. inversion H. reflexivity. Qed.

  Lemma PL_cinj T : PL registry T -> cinj T.
  Proof.
    intros P a b Ha Hb E.
    assert (HD : is_dict a = is_dict b).
    { transitivity (is_dict (canon a)); [destruct a; reflexivity|]. rewrite E. destruct b; reflexivity. }
    assert (HO : is_obj a = is_obj b).
    { transitivity (is_obj (canon a)); [destruct a; reflexivity|]. rewrite E. destruct b; reflexivity. }
    assert (HL' : is_list a = is_list b).
    { transitivity (is_list (canon a)); [destruct a; reflexivity|]. rewrite E. destruct b; reflexivity. }
    destruct (is_list a) eqn:La; [apply (count_le1_eq is_list T); [apply (pl_list _ _ P) | | | |]; congruence|].
    destruct (is_dict a) eqn:Da; [apply (count_le1_eq is_dict T); [apply (pl_dict _ _ P) | | | |]; congruence|].
    destruct (is_obj a) eqn:Oa; [apply (count_le1_eq is_obj T); [apply (pl_obj _ _ P) | | | |]; congruence|].
    destruct (basic_parts a (PL_basic_In _ _ _ P Ha)) as [Ua [Pa _]].
    destruct (basic_parts b (PL_basic_In _ _ _ P Hb)) as [Ub [Pb _]].
    rewrite (canon_atom a) in E by assumption. rewrite (canon_atom b) in E by congruence. exact E.
  Qed.
  Lemma PL_flatl T : PL registry T -> flatl T.
  Proof. intros P x Hx. apply (basic_parts x (PL_basic_In _ _ _ P Hx)). Qed.

  Lemma G_member_atomic X x : G (TUnion X) -> In x X -> is_list x = false -> is_dict x = false -> is_obj x = false -> atomic x.
  Proof.
    intros HG Hx L D O. destruct (G_union_member X x HG Hx) as [[Rx Sx] [Ux Lx]].
    repeat split; try assumption; try (apply (R_not_opt_ptr _ Rx)).
    - destruct o; [exfalso; apply (Lx l); assumption | reflexivity].
    - subst x. destruct o; [exfalso; apply (Lx l); reflexivity|]. simpl in Rx. destruct l; [discriminate | discriminate].
  Qed.
  Lemma filter_atom_sub (f : ty -> bool) X Y : subm X Y ->
    (forall x, f x = true -> is_list x = false /\ is_dict x = false /\ is_obj x = false) ->
    forall x, In x (filter f X) -> In x (filter f Y).
  Proof.
    intros HS Hf x Hx. apply filter_In in Hx. destruct Hx as [Hx Fx]. destruct (HS x Hx) as [y [Hy D]].
    destruct (Hf x Fx) as [A [B C]]. apply (meq_atom x y D A B) in C. subst y. apply filter_In. auto.
  Qed.
  Lemma is_other_atom x : is_other registry x = true -> is_list x = false /\ is_dict x = false /\ is_obj x = false.
  Proof. unfold is_other. rewrite !andb_true_iff, !negb_true_iff. tauto. Qed.
  Lemma in_reg_atom x : in_reg registry x = true -> is_list x = false /\ is_dict x = false /\ is_obj x = false.
  Proof. destruct x; simpl; intros H; try discriminate; auto. Qed.
  Lemma remove_first_In_iff {A} (f : A -> bool) l x : count f l <= 1 -> (In x (remove_first f l) <-> In x l /\ f x = false).
  Proof.
    intros Hc. split.
    - intros H. split; [eapply sub_In; [apply sub_remove_first | exact H] | apply (remove_first_none f l Hc x H)].
    - intros [H1 H2]. apply remove_first_keeps; assumption.
  Qed.
  Lemma oth_of_seteq X Y : NoDup X -> NoDup Y -> seteq (filter (is_other registry) X) (filter (is_other registry) Y) ->
    seteq (oth_of registry X) (oth_of registry Y).
  Proof.
    intros NX NY HS. unfold oth_of.
    rewrite (existsb_same (ty_eqb TInt) _ _ HS), (existsb_same (ty_eqb TFloat) _ _ HS).
    destruct (existsb (ty_eqb TInt) (filter (is_other registry) Y) && existsb (ty_eqb TFloat) (filter (is_other registry) Y)); [|exact HS].
    assert (C : forall Z, NoDup Z -> count (ty_eqb TInt) (filter (is_other registry) Z) <= 1).
    { intros Z NZ. apply NoDup_count_le1; [apply NoDup_filter; exact NZ|]. intros a b Ha Hb. apply NormalForm.ty_eqb_eq in Ha, Hb. congruence. }
    intros x. rewrite !remove_first_In_iff by (apply C; assumption). rewrite (HS x). tauto.
  Qed.
  Lemma In_objs_of' m ts : In (TObj m) ts -> In m (objs_of ts).
  Proof. intros H. unfold objs_of. apply in_flat_map. exists (TObj m). split; [exact H | left; reflexivity]. Qed.
  Lemma In_lists_of' m ts : In (TList m) ts -> In m (lists_of ts).
  Proof. intros H. unfold lists_of. apply in_flat_map. exists (TList m). split; [exact H | left; reflexivity]. Qed.
  Lemma In_dicts_of' m ts : In (TDict m) ts -> In m (dicts_of ts).
  Proof. intros H. unfold dicts_of. apply in_flat_map. exists (TDict m). split; [exact H | left; reflexivity]. Qed.
  Lemma objs_nonempty X Y : subm X Y -> objs_of X <> [] -> objs_of Y <> [].
  Proof.
    intros HS H. destruct (objs_of X) as [|f r] eqn:E; [congruence|].
    assert (In f (objs_of X)) as Hi by (rewrite E; left; reflexivity). apply In_objs_of in Hi.
    destruct (HS _ Hi) as [y [Hy D]]. apply meq_inv in D.
    destruct D as [<-|[[a [b [E1 _]]]|[[a [b [E1 _]]]|[F' [G' [E1 [-> _]]]]]]]; try discriminate E1;
      intros E2; [apply In_objs_of' in Hy | apply In_objs_of' in Hy]; rewrite E2 in Hy; destruct Hy.
  Qed.
  Lemma lists_nonempty X Y : subm X Y -> lists_of X <> [] -> lists_of Y <> [].
  Proof.
    intros HS H. destruct (lists_of X) as [|f r] eqn:E; [congruence|].
    assert (In f (lists_of X)) as Hi by (rewrite E; left; reflexivity). apply In_lists_of in Hi.
    destruct (HS _ Hi) as [y [Hy D]]. apply meq_inv in D.
    destruct D as [<-|[[a [b [E1 [-> _]]]]|[[a [b [E1 _]]]|[F' [G' [E1 _]]]]]]; try discriminate E1;
      intros E2; [apply In_lists_of' in Hy | apply In_lists_of' in Hy]; rewrite E2 in Hy; destruct Hy.
  Qed.
  Lemma dicts_nonempty X Y : subm X Y -> dicts_of X <> [] -> dicts_of Y <> [].
  Proof.
    intros HS H. destruct (dicts_of X) as [|f r] eqn:E; [congruence|].
    assert (In f (dicts_of X)) as Hi by (rewrite E; left; reflexivity). apply In_dicts_of in Hi.
    destruct (HS _ Hi) as [y [Hy D]]. apply meq_inv in D.
    destruct D as [<-|[[a [b [E1 _]]]|[[a [b [E1 [-> _]]]]|[F' [G' [E1 _]]]]]]; try discriminate E1;
      intros E2; [apply In_dicts_of' in Hy | apply In_dicts_of' in Hy]; rewrite E2 in Hy; destruct Hy.
  Qed.
  Lemma Forall2_In_l {A B} (P : A -> B -> Prop) l l' x : Forall2 P l l' -> In x l -> exists y, In y l' /\ P x y.
  Proof.
    induction 1 as [|a b l l' Hab HF IH]; intros Hi; [destruct Hi|].
    destruct Hi as [<-|Hi]; [exists b; split; [left; reflexivity | exact Hab]|].
    destruct (IH Hi) as [y [Hy Py]]. exists y. split; [right; exact Hy | exact Py].
  Qed.

  Lemma regroup_half X Y n n' T T' : G (TUnion X) -> G (TUnion Y) -> leq X Y ->
    (forall u u', optimize n (TObj (merge_field_sets peq (objs_of X))) = Some u ->
                  optimize n' (TObj (merge_field_sets peq (objs_of Y))) = Some u' -> canon u = canon u') ->
    (forall u u', optimize n (TList (dunion (lists_of X))) = Some u ->
                  optimize n' (TList (dunion (lists_of Y))) = Some u' -> canon u = canon u') ->
    (forall u u', optimize n (TDict (dunion (dicts_of X))) = Some u ->
                  optimize n' (TDict (dunion (dicts_of Y))) = Some u' -> canon u = canon u') ->
    Forall2 (fun x t => optimize n x = Some t) (regroup X) T ->
    Forall2 (fun x t => optimize n' x = Some t) (regroup Y) T' ->
    forall y, In y (map canon T) -> In y (map canon T').
  Proof.
    intros GX GY [LXY LYX] HO HL HD FX FY y Hy.
    assert (NOX : forall x, In x X -> is_opt x = false) by (intros x Hx; apply (R_not_opt_ptr _ (proj1 (proj1 (G_union_member X x GX Hx))))).
    assert (NOY : forall x, In x Y -> is_opt x = false) by (intros x Hx; apply (R_not_opt_ptr _ (proj1 (proj1 (G_union_member Y x GY Hx))))).
    assert (NUX : forall x, In x X -> is_union x = false) by (intros x Hx; apply (proj1 (proj2 (G_union_member X x GX Hx)))).
    assert (NUY : forall x, In x Y -> is_union x = false) by (intros x Hx; apply (proj1 (proj2 (G_union_member Y x GY Hx)))).
    rewrite (regroup_noopt registry replaces peq X NOX NUX) in FX. rewrite (regroup_noopt registry replaces peq Y NOY NUY) in FY.
    assert (NDX : NoDup X) by (destruct GX as [RX _]; simpl in RX; apply andb_true_iff in RX; apply (raw_union_ok_parts X (proj1 RX))).
    assert (NDY : NoDup Y) by (destruct GY as [RY _]; simpl in RY; apply andb_true_iff in RY; apply (raw_union_ok_parts Y (proj1 RY))).
    assert (SO : seteq (oth_of registry X) (oth_of registry Y)).
    { apply oth_of_seteq; try assumption. intros x. split; apply filter_atom_sub; try assumption; apply is_other_atom. }
    assert (SS : str_result replaces (filter (in_reg registry) X) = str_result replaces (filter (in_reg registry) Y)).
    { apply str_result_same. intros x. split; apply filter_atom_sub; try assumption; apply in_reg_atom. }
    apply in_map_iff in Hy. destruct Hy as [t [<- Ht]].
    destruct (Forall2_In_r _ _ _ _ FX Ht) as [x [Hx Ox]].
    assert (FIN : forall x', In x' ((((oth_of registry Y ++ objp peq Y) ++ listp Y) ++ dictp Y) ++ str_result replaces (filter (in_reg registry) Y)) ->
                  (forall t', optimize n' x' = Some t' -> canon t = canon t') -> In (canon t) (map canon T')).
    { intros x' Hx' Hc. destruct (Forall2_In_l _ _ _ _ FY Hx') as [t' [Ht' Ot']]. rewrite (Hc t' Ot'). apply in_map. exact Ht'. }
    rewrite !in_app_iff in Hx. destruct Hx as [[[[Hx|Hx]|Hx]|Hx]|Hx].
    - pose proof (oth_of_In registry X x Hx) as [HxX Hoth]. destruct (is_other_atom x Hoth) as [A [B C]].
      pose proof (G_member_atomic X x GX HxX A B C) as AT. apply (optimize_atomic' n x t AT) in Ox. subst t.
      apply (FIN x); [rewrite !in_app_iff; left; left; left; left; apply SO; exact Hx|].
      intros t' Ot'. apply (optimize_atomic' n' x t' AT) in Ot'. subst t'. reflexivity.
    - unfold objp in Hx. destruct (objs_of X) as [|f0 r0] eqn:EX; [destruct Hx|]. rewrite <- EX in *. destruct Hx as [<-|[]].
      assert (NE : objs_of Y <> []) by (apply (objs_nonempty X Y LXY); rewrite EX; discriminate).
      apply (FIN (TObj (merge_field_sets peq (objs_of Y)))).
      + rewrite !in_app_iff. left. left. left. right. unfold objp. destruct (objs_of Y); [congruence | left; reflexivity].
      + intros t' Ot'. apply (HO t t' Ox Ot').
    - unfold listp in Hx. destruct (lists_of X) as [|f0 r0] eqn:EX; [destruct Hx|]. rewrite <- EX in *. destruct Hx as [<-|[]].
      assert (NE : lists_of Y <> []) by (apply (lists_nonempty X Y LXY); rewrite EX; discriminate).
      apply (FIN (TList (dunion (lists_of Y)))).
      + rewrite !in_app_iff. left. left. right. unfold listp. destruct (lists_of Y); [congruence | left; reflexivity].
      + intros t' Ot'. apply (HL t t' Ox Ot').
    - unfold dictp in Hx. destruct (dicts_of X) as [|f0 r0] eqn:EX; [destruct Hx|]. rewrite <- EX in *. destruct Hx as [<-|[]].
      assert (NE : dicts_of Y <> []) by (apply (dicts_nonempty X Y LXY); rewrite EX; discriminate).
      apply (FIN (TDict (dunion (dicts_of Y)))).
      + rewrite !in_app_iff. left. right. unfold dictp. destruct (dicts_of Y); [congruence | left; reflexivity].
      + intros t' Ot'. apply (HD t t' Ox Ot').
    - assert (AT : atomic x).
      { destruct (str_result_cases registry replaces (filter (in_reg registry) X)) as [E|[E|[p [E _]]]];
          [intros z Hz; apply filter_In in Hz; apply Hz | rewrite E in Hx; destruct Hx | |];
          rewrite E in Hx; destruct Hx as [<-|[]];
          repeat split; try reflexivity; try discriminate; intros ? ? E'; discriminate E'. }
      apply (optimize_atomic' n x t AT) in Ox. subst t.
      apply (FIN x); [rewrite !in_app_iff; right; rewrite <- SS; exact Hx|].
      intros t' Ot'. apply (optimize_atomic' n' x t' AT) in Ot'. subst t'. reflexivity.
  Qed.

  Lemma regroup_len X Y : G (TUnion X) -> G (TUnion Y) -> leq X Y -> length (regroup X) = length (regroup Y).
  Proof.
    intros GX GY [LXY LYX].
    assert (NOX : forall x, In x X -> is_opt x = false) by (intros x Hx; apply (R_not_opt_ptr _ (proj1 (proj1 (G_union_member X x GX Hx))))).
    assert (NOY : forall x, In x Y -> is_opt x = false) by (intros x Hx; apply (R_not_opt_ptr _ (proj1 (proj1 (G_union_member Y x GY Hx))))).
    assert (NUX : forall x, In x X -> is_union x = false) by (intros x Hx; apply (proj1 (proj2 (G_union_member X x GX Hx)))).
    assert (NUY : forall x, In x Y -> is_union x = false) by (intros x Hx; apply (proj1 (proj2 (G_union_member Y x GY Hx)))).
    rewrite (regroup_noopt registry replaces peq X NOX NUX), (regroup_noopt registry replaces peq Y NOY NUY).
    assert (NDX : NoDup X) by (destruct GX as [RX _]; simpl in RX; apply andb_true_iff in RX; apply (raw_union_ok_parts X (proj1 RX))).
    assert (NDY : NoDup Y) by (destruct GY as [RY _]; simpl in RY; apply andb_true_iff in RY; apply (raw_union_ok_parts Y (proj1 RY))).
    assert (SO : seteq (oth_of registry X) (oth_of registry Y)).
    { apply oth_of_seteq; try assumption. intros x. split; apply filter_atom_sub; try assumption; apply is_other_atom. }
    assert (SS : str_result replaces (filter (in_reg registry) X) = str_result replaces (filter (in_reg registry) Y)).
    { apply str_result_same. intros x. split; apply filter_atom_sub; try assumption; apply in_reg_atom. }
    assert (LO : length (oth_of registry X) = length (oth_of registry Y)).
    { apply Permutation_length. apply NoDup_Permutation; [| |exact SO].
      - eapply sub_NoDup; [eapply sub_trans; [apply oth_of_sub | apply sub_filter] | exact NDX].
      - eapply sub_NoDup; [eapply sub_trans; [apply oth_of_sub | apply sub_filter] | exact NDY]. }
    rewrite !app_length, LO, SS. f_equal. f_equal; [f_equal; [f_equal|]|].
    - unfold objp. pose proof (objs_nonempty X Y LXY) as A. pose proof (objs_nonempty Y X LYX) as B.
      destruct (objs_of X), (objs_of Y); try reflexivity; exfalso; [apply B | apply A]; congruence.
    - unfold listp. pose proof (lists_nonempty X Y LXY) as A. pose proof (lists_nonempty Y X LYX) as B.
      destruct (lists_of X), (lists_of Y); try reflexivity; exfalso; [apply B | apply A]; congruence.
    - unfold dictp. pose proof (dicts_nonempty X Y LXY) as A. pose proof (dicts_nonempty Y X LYX) as B.
      destruct (dicts_of X), (dicts_of Y); try reflexivity; exfalso; [apply B | apply A]; congruence.
  Qed.

  (* (d), union step: if the three rebuilt members (object, list, mapping) of two equivalent raw unions optimise to
     canon-equal results, so do the unions *)
  Theorem regroup_cong X Y : G (TUnion X) -> G (TUnion Y) -> leq X Y ->
    (forall n n' u u', optimize n (TObj (merge_field_sets peq (objs_of X))) = Some u ->
                       optimize n' (TObj (merge_field_sets peq (objs_of Y))) = Some u' -> canon u = canon u') ->
    (forall n n' u u', optimize n (TList (dunion (lists_of X))) = Some u ->
                       optimize n' (TList (dunion (lists_of Y))) = Some u' -> canon u = canon u') ->
    (forall n n' u u', optimize n (TDict (dunion (dicts_of X))) = Some u ->
                       optimize n' (TDict (dunion (dicts_of Y))) = Some u' -> canon u = canon u') ->
    forall f f' u u', optimize f (TUnion X) = Some u -> optimize f' (TUnion Y) = Some u' -> canon u = canon u'.
  Proof.
    intros GX GY L HO HL HD f f' u u' E1 E2.
    destruct f as [|n]; [discriminate|]. destruct f' as [|n']; [discriminate|].
    rewrite NormalForm.optimize_S in E1, E2.
    destruct (opt_list (optimize n) (regroup X)) as [T|] eqn:O1; [|discriminate].
    destruct (opt_list (optimize n') (regroup Y)) as [T'|] eqn:O2; [|discriminate].
    apply opt_list_Forall2 in O1, O2.
    assert (PLs : forall Z n0 T0, G (TUnion Z) -> Forall2 (fun x t => optimize n0 x = Some t) (regroup Z) T0 -> PL registry T0).
    { intros Z n0 T0 [RZ _] FZ. simpl in RZ. apply andb_true_iff in RZ. destruct RZ as [Hu Hr]. rewrite forallb_forall in Hr.
      pose proof (regroup_PL registry replaces peq Z Hu Hr) as PLL.
      apply (PL_skel registry (regroup Z)); [exact PLL|]. apply (Forall2_skel registry replaces peq n0 _ _ FZ).
      intros x Hx. apply (PL_basic_In _ _ _ PLL Hx). }
    pose proof (PLs X n T GX O1) as P1. pose proof (PLs Y n' T' GY O2) as P2.
    apply (finish_ceq T T' u u'); try assumption.
    - apply (PL_flatl T P1).
    - apply (PL_flatl T' P2).
    - apply (PL_cinj T P1).
    - apply (PL_cinj T' P2).
    - apply (pl_unk _ _ P1).
    - apply (pl_unk _ _ P2).
    - intros y. split.
      + apply (regroup_half X Y n n' T T' GX GY L (HO n n') (HL n n') (HD n n') O1 O2).
      + apply (regroup_half Y X n' n T' T GY GX (leq_sym _ _ L)); try assumption.
        * intros a b A B. symmetry. apply (HO n n' b a B A).
        * intros a b A B. symmetry. apply (HL n n' b a B A).
        * intros a b A B. symmetry. apply (HD n n' b a B A).
    - rewrite <- (F2_length _ _ _ O1), <- (F2_length _ _ _ O2). apply regroup_len; assumption.
  Qed.

  (* the hypotheses of regroup_cong are instances of the equivalence: the rebuilt members are equivalent *)
  Lemma lists_family X Y : subm X Y -> forall x, In x (lists_of X) -> exists y, In y (lists_of Y) /\ teq x y.
  Proof.
    intros HS x Hx. apply In_lists_of in Hx. destruct (HS _ Hx) as [y [Hy D]]. apply meq_inv in D.
    destruct D as [<-|[[a [b [E1 [-> T]]]]|[[a [b [E1 _]]]|[F' [G' [E1 _]]]]]]; try discriminate E1.
    - exists x. split; [apply In_lists_of'; exact Hy | apply teq_refl].
    - inversion E1; subst a. exists b. split; [apply In_lists_of'; exact Hy | exact T].
  Qed.
  Lemma dicts_family X Y : subm X Y -> forall x, In x (dicts_of X) -> exists y, In y (dicts_of Y) /\ teq x y.
  Proof.
    intros HS x Hx. apply In_dicts_of in Hx. destruct (HS _ Hx) as [y [Hy D]]. apply meq_inv in D.
    destruct D as [<-|[[a [b [E1 _]]]|[[a [b [E1 [-> T]]]]|[F' [G' [E1 _]]]]]]; try discriminate E1.
    - exists x. split; [apply In_dicts_of'; exact Hy | apply teq_refl].
    - inversion E1; subst a. exists b. split; [apply In_dicts_of'; exact Hy | exact T].
  Qed.
  Lemma objs_family X Y : subm X Y -> forall f, In f (objs_of X) -> exists g, In g (objs_of Y) /\ orel f g.
  Proof.
    intros HS f Hf. apply In_objs_of in Hf. destruct (HS _ Hf) as [y [Hy D]]. apply meq_inv in D.
    destruct D as [<-|[[a [b [E1 _]]]|[[a [b [E1 _]]]|[F' [G' [E1 [-> T]]]]]]]; try discriminate E1.
    - exists f. split; [apply In_objs_of'; exact Hy|]. intros k. destruct (lookup k f) as [a|]; [right; exists a, a; repeat split; apply subm_refl | left; auto].
    - inversion E1; subst F'. exists G'. split; [apply In_objs_of'; exact Hy | exact T].
  Qed.
  Lemma teq_flip x y : teq y x -> teq x y. Proof. apply teq_sym. Qed.
  Theorem regroup_lists_teq X Y : leq X Y -> teq (dunion (lists_of X)) (dunion (lists_of Y)).
  Proof.
    intros [A B]. apply dunion_family; [apply lists_family; exact A|].
    intros y Hy. destruct (lists_family Y X B y Hy) as [x [Hx T]]. exists x. split; [exact Hx | apply teq_sym; exact T].
  Qed.
  Theorem regroup_dicts_teq X Y : leq X Y -> teq (dunion (dicts_of X)) (dunion (dicts_of Y)).
  Proof.
    intros [A B]. apply dunion_family; [apply dicts_family; exact A|].
    intros y Hy. destruct (dicts_family Y X B y Hy) as [x [Hx T]]. exists x. split; [exact Hx | apply teq_sym; exact T].
  Qed.
  Lemma orel_sym f g : orel f g -> orel g f.
  Proof.
    intros H k. destruct (H k) as [[A B]|[a [b [A [B T]]]]]; [left; auto|]. right. exists b, a. repeat split; try assumption; apply T.
  Qed.
  Theorem regroup_objs_rel X Y : G (TUnion X) -> G (TUnion Y) -> leq X Y ->
    orelf (merge_field_sets peq (objs_of X)) (merge_field_sets peq (objs_of Y)).
  Proof.
    intros GX GY [A B].
    assert (GO : forall Z, G (TUnion Z) -> good_sets_G (objs_of Z)).
    { intros Z GZ s Hs. apply In_objs_of in Hs. destruct (G_union_member Z _ GZ Hs) as [Gs _].
      destruct (G_obj s Gs) as [N F]. split; [exact N|]. intros [k v] Hkv. apply (F k v Hkv). }
    apply merge_rel; [apply GO; exact GX | apply GO; exact GY|]. split.
    - apply objs_family. exact A.
    - intros g Hg. destruct (objs_family Y X B g Hg) as [f [Hf O]]. exists f. split; [exact Hf | apply orel_sym; exact O].
  Qed.
End Cong.

(* ------------------------------------------------------------------ *)
(* E.1d the induction: optimize respects teq / frel                       *)
Definition norm (m : ty) : ty := match m with TLit true _ => TStr | _ => m end.

Section Ind.
  Variable registry : list pseudo.
  Variable replaces : list (pseudo * pseudo).
  Variable peq : N -> N -> bool.
  Notation optimize := (optimize registry replaces peq).
  Notation regroup := (regroup registry replaces peq).

  Lemma optimize_det f f' t u u' : optimize f t = Some u -> optimize f' t = Some u' -> u = u'.
  Proof.
    intros A B. pose proof (optimize_mono registry replaces peq f (Nat.max f f') t u (Nat.le_max_l _ _) A) as A'.
    pose proof (optimize_mono registry replaces peq f' (Nat.max f f') t u' (Nat.le_max_r _ _) B) as B'. congruence.
  Qed.

  Lemma norm_props m : G m -> is_union m = false ->
    nmem m = [norm m] /\ G (norm m) /\ is_union (norm m) = false /\ (forall l, norm m <> TLit true l) /\
    depth (norm m) = depth m /\ (forall f u, optimize f m = Some u -> optimize f (norm m) = Some u).
  Proof.
    intros Gm Um.
    assert (C : (exists l, m = TLit true l) \/ (forall l, m <> TLit true l)).
    { destruct m; try (right; intros l E; discriminate E). destruct overflow; [left; eexists; reflexivity | right; intros l E; discriminate E]. }
    destruct C as [[l ->]|C].
    - destruct Gm as [Rm _]. simpl in Rm. destruct l; [|discriminate]. cbn [norm].
      split; [reflexivity|]. split; [split; reflexivity|]. split; [reflexivity|]. split; [intros l E; discriminate E|].
      split; [reflexivity|]. intros f u H. destruct f; [discriminate|]. exact H.
    - assert (E : norm m = m) by (destruct m; try reflexivity; destruct overflow; [exfalso; apply (C ls); reflexivity | reflexivity]).
      rewrite E. split; [apply nmem_member; assumption|]. split; [exact Gm|]. split; [exact Um|]. split; [exact C|].
      split; [reflexivity|]. intros f u H; exact H.
  Qed.

  Lemma pseudo_eqb_refl' p : pseudo_eqb p p = true. Proof. destruct p; reflexivity. Qed.
  Lemma regroup_single_atomic m : atomic m -> regroup [m] = [m].
  Proof.
    intros [A1 [A2 [A3 [A4 [A5 A6]]]]]. destruct m; try discriminate; try reflexivity.
    unfold Optimize.regroup. cbn [flat_map members_deep app fold_left split_step in_reg]. destruct (pmem p registry) eqn:E; [|reflexivity].
    cbn. rewrite pseudo_eqb_refl'. reflexivity.
  Qed.
  Lemma optimize_single_atomic f m u : atomic m -> optimize f (TUnion [m]) = Some u -> u = m.
  Proof.
    intros A H. destruct f as [|n]; [discriminate|]. rewrite NormalForm.optimize_S, (regroup_single_atomic m A) in H.
    cbn [opt_list] in H. destruct (optimize n m) as [t|] eqn:E; [|discriminate].
    apply (optimize_atomic' registry replaces peq n m t A) in E. subst t. simpl in H. inversion H. reflexivity.
  Qed.

  (* homogeneous unions: regroup returns the single rebuilt member *)
  Lemma objs_of_nil Y : (forall y, In y Y -> is_obj y = false) -> objs_of Y = [].
  Proof.
    induction Y as [|y r IH]; intros H; [reflexivity|]. unfold objs_of in *. cbn [flat_map].
    rewrite IH by (intros z Hz; apply H; right; exact Hz). specialize (H y (or_introl eq_refl)). destruct y; try reflexivity. discriminate.
  Qed.
  Lemma lists_of_nil Y : (forall y, In y Y -> is_list y = false) -> lists_of Y = [].
  Proof.
    induction Y as [|y r IH]; intros H; [reflexivity|]. unfold lists_of in *. cbn [flat_map].
    rewrite IH by (intros z Hz; apply H; right; exact Hz). specialize (H y (or_introl eq_refl)). destruct y; try reflexivity. discriminate.
  Qed.
  Lemma dicts_of_nil Y : (forall y, In y Y -> is_dict y = false) -> dicts_of Y = [].
  Proof.
    induction Y as [|y r IH]; intros H; [reflexivity|]. unfold dicts_of in *. cbn [flat_map].
    rewrite IH by (intros z Hz; apply H; right; exact Hz). specialize (H y (or_introl eq_refl)). destruct y; try reflexivity. discriminate.
  Qed.
  Lemma regroup_cat Y : (forall y, In y Y -> is_list y = true \/ is_dict y = true \/ is_obj y = true) ->
    regroup Y = (objp peq Y ++ listp Y) ++ dictp Y.
  Proof.
    intros H. rewrite regroup_noopt.
    2:{ intros y Hy. destruct (H y Hy) as [A|[A|A]]; destruct y; try discriminate; reflexivity. }
    2:{ intros y Hy. destruct (H y Hy) as [A|[A|A]]; destruct y; try discriminate; reflexivity. }
    assert (E1 : filter (is_other registry) Y = []).
    { apply filter_none. intros y Hy. unfold is_other. destruct (H y Hy) as [A|[A|A]]; rewrite A; simpl; rewrite ?andb_false_r; reflexivity. }
    assert (E2 : filter (in_reg registry) Y = []).
    { apply filter_none. intros y Hy. destruct (H y Hy) as [A|[A|A]]; destruct y; try discriminate; reflexivity. }
    unfold oth_of. rewrite E1, E2. cbn. rewrite app_nil_r. reflexivity.
  Qed.
  Lemma regroup_lists Y : Y <> [] -> (forall y, In y Y -> is_list y = true) -> regroup Y = [TList (dunion (lists_of Y))].
  Proof.
    intros NE H. rewrite regroup_cat by (intros y Hy; left; apply H; exact Hy).
    unfold objp, dictp, listp.
    rewrite objs_of_nil by (intros y Hy; specialize (H y Hy); destruct y; try discriminate; reflexivity).
    rewrite dicts_of_nil by (intros y Hy; specialize (H y Hy); destruct y; try discriminate; reflexivity).
    destruct Y as [|y r]; [congruence|]. specialize (H y (or_introl eq_refl)). destruct y; try discriminate. reflexivity.
  Qed.
  Lemma regroup_dicts Y : Y <> [] -> (forall y, In y Y -> is_dict y = true) -> regroup Y = [TDict (dunion (dicts_of Y))].
  Proof.
    intros NE H. rewrite regroup_cat by (intros y Hy; right; left; apply H; exact Hy).
    unfold objp, dictp, listp.
    rewrite objs_of_nil by (intros y Hy; specialize (H y Hy); destruct y; try discriminate; reflexivity).
    rewrite lists_of_nil by (intros y Hy; specialize (H y Hy); destruct y; try discriminate; reflexivity).
    destruct Y as [|y r]; [congruence|]. specialize (H y (or_introl eq_refl)). destruct y; try discriminate. reflexivity.
  Qed.
  Lemma regroup_objs Y : Y <> [] -> (forall y, In y Y -> is_obj y = true) -> regroup Y = [TObj (merge_field_sets peq (objs_of Y))].
  Proof.
    intros NE H. rewrite regroup_cat by (intros y Hy; right; right; apply H; exact Hy).
    unfold objp, dictp, listp.
    rewrite dicts_of_nil by (intros y Hy; specialize (H y Hy); destruct y; try discriminate; reflexivity).
    rewrite lists_of_nil by (intros y Hy; specialize (H y Hy); destruct y; try discriminate; reflexivity).
    destruct Y as [|y r]; [congruence|]. specialize (H y (or_introl eq_refl)). destruct y; try discriminate. reflexivity.
  Qed.
  Lemma optimize_single_regroup f Y z u : regroup Y = [z] -> optimize f (TUnion Y) = Some u ->
    exists n, f = Datatypes.S n /\ optimize n z = Some u.
  Proof.
    intros E H. destruct f as [|n]; [discriminate|]. exists n. split; [reflexivity|].
    rewrite NormalForm.optimize_S, E in H. cbn [opt_list] in H. destruct (optimize n z) as [t|]; [|discriminate].
    simpl in H. exact H.
  Qed.

  (* facts on the rebuilt members of a raw union *)
  Lemma objs_good Z : G (TUnion Z) -> good_sets_G (objs_of Z).
  Proof.
    intros GZ s Hs. apply In_objs_of in Hs. destruct (G_union_member Z _ GZ Hs) as [Gs _].
    destruct (G_obj s Gs) as [N F]. split; [exact N|]. intros [k v] Hkv. apply (F k v Hkv).
  Qed.
  Lemma merged_facts Z d : G (TUnion Z) -> depth (TUnion Z) < Datatypes.S d ->
    NoDup (map fst (merge_field_sets peq (objs_of Z))) /\
    forall k v, lookup k (merge_field_sets peq (objs_of Z)) = Some v -> RF1 v = true /\ S v = true /\ depth v < d.
  Proof.
    intros GZ DZ. pose proof (objs_good Z GZ) as GO.
    assert (RS : forall m, In m (objs_of Z) -> FS R m /\ FS S m).
    { intros m Hm. destruct (GO m Hm) as [_ B]. split; intros kv Hkv; apply (B kv Hkv). }
    destruct (merge_fold_S peq (objs_of Z) (true, []) ltac:(repeat split; intros kv []) RS) as [A [B C]].
    split; [apply keys_nodup_NoDup; exact C|]. intros k v L.
    pose proof (Sound.lookup_In k v _ L) as Hi. split; [apply (A _ Hi)|]. split; [apply (B _ Hi)|].
    destruct (objs_of Z) as [|s0 r0] eqn:E; [discriminate L|]. rewrite <- E in *.
    assert (H0 : In (TObj s0) Z) by (apply In_objs_of; rewrite E; left; reflexivity).
    pose proof (depth_member Z _ H0) as D0. pose proof (depth_obj_pos s0) as P0.
    assert (LE : depth v <= pred d).
    { apply (merge_depth peq (pred d) (objs_of Z) k v (good_sets_G_R _ GO)); [|exact L].
      intros s [k' v'] Hs Hkv. apply In_objs_of in Hs. pose proof (depth_member Z _ Hs) as D1.
      pose proof (depth_field s k' v' Hkv) as D2. simpl snd. lia. }
    lia.
  Qed.
  Lemma dunion_facts Z ls d : G (TUnion Z) -> depth (TUnion Z) < Datatypes.S d -> ls <> [] ->
    (forall x, In x ls -> In (TList x) Z \/ In (TDict x) Z) -> G (dunion ls) /\ depth (dunion ls) < d.
  Proof.
    intros GZ DZ NE H.
    assert (K : forall x, In x ls -> G x /\ Datatypes.S (depth x) <= depth (TUnion Z)).
    { intros x Hx. destruct (H x Hx) as [Hi|Hi]; destruct (G_union_member Z _ GZ Hi) as [Gm _]; pose proof (depth_member Z _ Hi) as D;
        [split; [apply G_list; exact Gm | exact D] | split; [apply G_dict; exact Gm | exact D]]. }
    split.
    - split; [apply dunion_R; [exact NE | intros x Hx; apply (K x Hx)] | apply dunion_S; intros x Hx; apply (K x Hx)].
    - destruct ls as [|x0 r0]; [congruence|]. destruct (K x0 (or_introl eq_refl)) as [_ D0].
      assert (LE : depth (dunion (x0 :: r0)) <= pred d).
      { apply depth_dunion. intros x Hx. destruct (K x Hx) as [_ D]. lia. }
      lia.
  Qed.
  Lemma teq_dunion_single x : teq x (dunion [x]).
  Proof.
    unfold teq. apply leq_sym. eapply leq_trans; [apply seteq_leq, nmem_dunion|]. cbn [map concat]. rewrite app_nil_r, <- nmem_flat. apply leq_refl.
  Qed.
  Lemma strip_nonopt a : is_opt a = false -> strip a = a.
  Proof. destruct a; try reflexivity. discriminate. Qed.
  Lemma orel_refl0 s : orel s s.
  Proof. intros k. destruct (lookup k s) as [a|]; [right; exists a, a; repeat split; apply subm_refl | left; auto]. Qed.
  Lemma orel_orelf F F' : (forall k v, lookup k F = Some v -> G v) -> (forall k v, lookup k F' = Some v -> G v) ->
    orel F F' -> orelf F F'.
  Proof.
    intros H1 H2 O k. destruct (O k) as [A|[a [b [La [Lb T]]]]]; [left; exact A|]. right. exists a, b. split; [exact La|]. split; [exact Lb|].
    pose proof (R_not_opt_ptr _ (proj1 (H1 k a La))) as [Oa _]. pose proof (R_not_opt_ptr _ (proj1 (H2 k b Lb))) as [Ob _].
    split; [congruence|]. rewrite (strip_nonopt a Oa), (strip_nonopt b Ob). exact T.
  Qed.

  Definition P3 (d : nat) : Prop := forall a b, depth a < d -> depth b < d -> G a -> G b -> teq a b ->
    forall f f' u u', optimize f a = Some u -> optimize f' b = Some u' -> canon u = canon u'.

  Lemma canon_wrap_opt w : canon (wrap_opt w) = wrap_opt (canon w).
  Proof. destruct w; reflexivity. Qed.
  Lemma optimize_opt f x u : optimize f (TOpt x) = Some u -> exists n w, f = Datatypes.S n /\ optimize n x = Some w /\ u = wrap_opt w.
  Proof.
    destruct f as [|n]; [discriminate|]. rewrite NormalForm.optimize_S. destruct (optimize n x) as [w|] eqn:E; [|discriminate].
    intros H. exists n, w. split; [reflexivity|]. split; [exact E|]. destruct w; inversion H; reflexivity.
  Qed.

  Section Step.
    Variable d : nat.
    Hypothesis IH : P3 d.

    Lemma field_cong v v' : RF1 v = true -> S v = true -> RF1 v' = true -> S v' = true -> depth v < d -> depth v' < d ->
      frel v v' -> forall f f' w w', optimize f v = Some w -> optimize f' v' = Some w' -> canon w = canon w'.
    Proof.
      intros R1 S1 R2 S2 D1 D2 [EO T] f f' w w' O1 O2.
      destruct v; try (destruct v'; try discriminate EO; cbn [strip] in T; apply (IH _ _ D1 D2 (conj R1 S1) (conj R2 S2) T f f' w w' O1 O2)).
      destruct v'; try discriminate EO. cbn [strip] in T. simpl in R1, S1, R2, S2, D1, D2.
      apply optimize_opt in O1, O2. destruct O1 as [n [x [-> [O1 ->]]]]. destruct O2 as [n' [x' [-> [O2 ->]]]].
      rewrite !canon_wrap_opt. f_equal. apply (IH _ _ D1 D2 (conj R1 S1) (conj R2 S2) T n n' x x' O1 O2).
    Qed.

    Lemma step_obj F F' :
      NoDup (map fst F) -> NoDup (map fst F') ->
      (forall k v, lookup k F = Some v -> RF1 v = true /\ S v = true /\ depth v < d) ->
      (forall k v, lookup k F' = Some v -> RF1 v = true /\ S v = true /\ depth v < d) ->
      orelf F F' -> forall f f' u u', optimize f (TObj F) = Some u -> optimize f' (TObj F') = Some u' -> canon u = canon u'.
    Proof.
      intros N1 N2 H1 H2 REL f f' u u' E1 E2.
      destruct f as [|n]; [discriminate|]. destruct f' as [|n']; [discriminate|].
      rewrite NormalForm.optimize_S in E1, E2.
      destruct (opt_fields (optimize n) F) as [g1|] eqn:O1; [|discriminate].
      destruct (opt_fields (optimize n') F') as [g2|] eqn:O2; [|discriminate].
      inversion E1; subst u. inversion E2; subst u'. clear E1 E2.
      destruct (opt_fields_lookup _ _ _ O1) as [K1 L1]. destruct (opt_fields_lookup _ _ _ O2) as [K2 L2].
      apply canon_obj_ext; [rewrite K1; exact N1 | rewrite K2; exact N2|].
      intros k. specialize (L1 k). specialize (L2 k).
      destruct (REL k) as [[R1 R2]|[v [v' [R1 [R2 FR]]]]].
      - rewrite R1 in L1. rewrite R2 in L2. rewrite L1, L2. reflexivity.
      - rewrite R1 in L1. rewrite R2 in L2. destruct L1 as [w [Lw Ow]]. destruct L2 as [w' [Lw' Ow']].
        rewrite Lw, Lw'. cbn [option_map]. f_equal.
        destruct (H1 k v R1) as [A1 [A2 A3]]. destruct (H2 k v' R2) as [B1 [B2 B3]].
        apply (field_cong v v' A1 A2 B1 B2 A3 B3 FR n n' w w' Ow Ow').
    Qed.

    Lemma step_list x y : G x -> G y -> depth x < d -> depth y < d -> teq x y ->
      forall f f' u u', optimize f (TList x) = Some u -> optimize f' (TList y) = Some u' -> canon u = canon u'.
    Proof.
      intros Gx Gy Dx Dy T f f' u u' E1 E2.
      destruct f as [|n]; [discriminate|]. destruct f' as [|n']; [discriminate|]. rewrite NormalForm.optimize_S in E1, E2.
      destruct (optimize n x) as [w|] eqn:O1; [|discriminate]. destruct (optimize n' y) as [w'|] eqn:O2; [|discriminate].
      inversion E1; inversion E2; subst. simpl. f_equal. apply (IH x y Dx Dy Gx Gy T n n' w w' O1 O2).
    Qed.
    Lemma step_dict x y : G x -> G y -> depth x < d -> depth y < d -> teq x y ->
      forall f f' u u', optimize f (TDict x) = Some u -> optimize f' (TDict y) = Some u' -> canon u = canon u'.
    Proof.
      intros Gx Gy Dx Dy T f f' u u' E1 E2.
      destruct f as [|n]; [discriminate|]. destruct f' as [|n']; [discriminate|]. rewrite NormalForm.optimize_S in E1, E2.
      destruct (optimize n x) as [w|] eqn:O1; [|discriminate]. destruct (optimize n' y) as [w'|] eqn:O2; [|discriminate].
      inversion E1; inversion E2; subst. simpl. f_equal. apply (IH x y Dx Dy Gx Gy T n n' w w' O1 O2).
    Qed.

    Lemma obj_fields_facts F : G (TObj F) -> depth (TObj F) < Datatypes.S d ->
      NoDup (map fst F) /\ (forall k v, lookup k F = Some v -> G v /\ depth v < d).
    Proof.
      intros GF DF. destruct (G_obj F GF) as [N Fv]. split; [apply keys_nodup_NoDup; exact N|].
      intros k v L. apply Sound.lookup_In in L. split; [apply (Fv k v L)|]. pose proof (depth_field F k v L). lia.
    Qed.
    Lemma G_fields_RF1 F : (forall k v, lookup k F = Some v -> G v /\ depth v < d) ->
      forall k v, lookup k F = Some v -> RF1 v = true /\ S v = true /\ depth v < d.
    Proof. intros H k v L. destruct (H k v L) as [[A B] C]. split; [apply R_RF1; exact A|]. split; assumption. Qed.
    Lemma meq_obj_orel F F' : meq (TObj F) (TObj F') -> orel F F'.
    Proof.
      intros M. apply meq_inv in M. destruct M as [E|[[a [b [E1 _]]]|[[a [b [E1 _]]]|[F1 [F2 [E1 [E2 O]]]]]]]; try discriminate E1.
      - inversion E; subst. apply orel_refl0.
      - inversion E1; inversion E2; subst. exact O.
    Qed.

    Lemma step_MM m m' : G m -> G m' -> depth m < Datatypes.S d -> depth m' < Datatypes.S d -> meq m m' ->
      forall f f' u u', optimize f m = Some u -> optimize f' m' = Some u' -> canon u = canon u'.
    Proof.
      intros Gm Gm' Dm Dm' M f f' u u' O1 O2. apply meq_inv in M.
      destruct M as [<-|[[x [y [-> [-> T]]]]|[[x [y [-> [-> T]]]]|[F [F' [-> [-> O]]]]]]].
      - rewrite (optimize_det _ _ _ _ _ O1 O2). reflexivity.
      - simpl in Dm, Dm'. apply (step_list x y (G_list _ Gm) (G_list _ Gm') ltac:(lia) ltac:(lia) T f f' u u' O1 O2).
      - simpl in Dm, Dm'. apply (step_dict x y (G_dict _ Gm) (G_dict _ Gm') ltac:(lia) ltac:(lia) T f f' u u' O1 O2).
      - destruct (obj_fields_facts F Gm Dm) as [N1 H1]. destruct (obj_fields_facts F' Gm' Dm') as [N2 H2].
        apply (step_obj F F' N1 N2 (G_fields_RF1 F H1) (G_fields_RF1 F' H2)) with (f := f) (f' := f'); try assumption.
        apply orel_orelf; [intros k v L; apply (H1 k v L) | intros k v L; apply (H2 k v L) | exact O].
    Qed.

    Lemma step_MU m Y : G m -> is_union m = false -> (forall l, m <> TLit true l) -> G (TUnion Y) ->
      depth m < Datatypes.S d -> depth (TUnion Y) < Datatypes.S d -> leq [m] Y ->
      forall f f' u u', optimize f m = Some u -> optimize f' (TUnion Y) = Some u' -> canon u = canon u'.
    Proof.
      intros Gm Um Lm GY Dm DY [A B] f f' u u' O1 O2.
      assert (HY : forall y, In y Y -> meq m y).
      { intros y Hy. destruct (B y Hy) as [m0 [[<-|[]] D]]. apply meq_sym. exact D. }
      assert (NE : Y <> []).
      { destruct (A m (or_introl eq_refl)) as [y [Hy _]]. intros E. rewrite E in Hy. destruct Hy. }
      assert (NDY : NoDup Y) by (destruct GY as [RY _]; simpl in RY; apply andb_true_iff in RY; apply (raw_union_ok_parts Y (proj1 RY))).
      assert (AT : atomic m -> canon u = canon u').
      { intros AT. pose proof AT as [_ [_ [A3 [A4 [A5 _]]]]].
        assert (EY : forall y, In y Y -> y = m) by (intros y Hy; symmetry; apply (meq_atom m y (HY y Hy) A3 A4 A5)).
        assert (Y = [m]) as ->.
        { destruct Y as [|y0 r]; [congruence|]. rewrite (EY y0 (or_introl eq_refl)) in *. destruct r as [|y1 r']; [reflexivity|].
          exfalso. inversion NDY as [|? ? Hn _]; subst. apply Hn. left. apply EY. right. left. reflexivity. }
        apply (optimize_single_atomic f' m u' AT) in O2. apply (optimize_atomic' registry replaces peq f m u AT) in O1. subst. reflexivity. }
      destruct m; try discriminate Um;
        try (apply AT; repeat split; try reflexivity; congruence).
      - (* TLit *) apply AT. split; [reflexivity|]. split; [reflexivity|]. split; [reflexivity|]. split; [reflexivity|].
        split; [reflexivity|]. intros o' l' E'. inversion E'; subst o' l'. destruct Gm as [Rm _].
        destruct overflow; [exfalso; apply (Lm ls); reflexivity|]. split; [reflexivity|]. simpl in Rm. destruct ls; discriminate.
      - destruct Gm as [Rm _]. discriminate Rm.
      - (* TList *)
        assert (HL : forall y, In y Y -> is_list y = true).
        { intros y Hy. pose proof (HY y Hy) as M. apply meq_inv in M.
          destruct M as [<-|[[a [b [_ [-> _]]]]|[[a [b [E1 _]]]|[a [b [E1 _]]]]]]; try discriminate E1; reflexivity. }
        destruct (optimize_single_regroup f' Y _ u' (regroup_lists Y NE HL) O2) as [n' [-> O2']].
        assert (NEL : lists_of Y <> []).
        { destruct Y as [|y0 r]; [congruence|]. pose proof (HL y0 (or_introl eq_refl)) as L0. destruct y0; try discriminate L0.
          intros E. assert (In y0 (lists_of (TList y0 :: r))) as Hi by (apply In_lists_of'; left; reflexivity). rewrite E in Hi. destruct Hi. }
        destruct (dunion_facts Y (lists_of Y) d GY DY NEL (fun x Hx => or_introl (In_lists_of x Y Hx))) as [Gd Dd].
        simpl in Dm.
        assert (B' : forall y, In y (lists_of Y) -> teq m y).
        { intros y Hy. apply In_lists_of in Hy. pose proof (HY _ Hy) as M. apply meq_inv in M.
          destruct M as [E|[[a [b [E1 [E2 T]]]]|[[a [b [E1 _]]]|[a [b [E1 _]]]]]]; try discriminate E1.
          - inversion E; subst. apply teq_refl.
          - inversion E1; inversion E2; subst. exact T. }
        apply (step_list m (dunion (lists_of Y)) (G_list _ Gm) Gd ltac:(lia) Dd) with (f := f) (f' := n'); try assumption.
        eapply teq_trans; [apply teq_dunion_single|]. apply dunion_family.
        + intros x0 [<-|[]]. destruct (lists_of Y) as [|y1 r1] eqn:E; [congruence|]. exists y1. split; [left; reflexivity|].
          apply B'. left. reflexivity.
        + intros y Hy. exists m. split; [left; reflexivity | apply B'; exact Hy].
      - (* TDict *)
        assert (HL : forall y, In y Y -> is_dict y = true).
        { intros y Hy. pose proof (HY y Hy) as M. apply meq_inv in M.
          destruct M as [<-|[[a [b [E1 _]]]|[[a [b [_ [-> _]]]]|[a [b [E1 _]]]]]]; try discriminate E1; reflexivity. }
        destruct (optimize_single_regroup f' Y _ u' (regroup_dicts Y NE HL) O2) as [n' [-> O2']].
        assert (NEL : dicts_of Y <> []).
        { destruct Y as [|y0 r]; [congruence|]. pose proof (HL y0 (or_introl eq_refl)) as L0. destruct y0; try discriminate L0.
          intros E. assert (In y0 (dicts_of (TDict y0 :: r))) as Hi by (apply In_dicts_of'; left; reflexivity). rewrite E in Hi. destruct Hi. }
        destruct (dunion_facts Y (dicts_of Y) d GY DY NEL (fun x Hx => or_intror (In_dicts_of x Y Hx))) as [Gd Dd].
        simpl in Dm.
        assert (B' : forall y, In y (dicts_of Y) -> teq m y).
        { intros y Hy. apply In_dicts_of in Hy. pose proof (HY _ Hy) as M. apply meq_inv in M.
          destruct M as [E|[[a [b [E1 _]]]|[[a [b [E1 [E2 T]]]]|[a [b [E1 _]]]]]]; try discriminate E1.
          - inversion E; subst. apply teq_refl.
          - inversion E1; inversion E2; subst. exact T. }
        apply (step_dict m (dunion (dicts_of Y)) (G_dict _ Gm) Gd ltac:(lia) Dd) with (f := f) (f' := n'); try assumption.
        eapply teq_trans; [apply teq_dunion_single|]. apply dunion_family.
        + intros x0 [<-|[]]. destruct (dicts_of Y) as [|y1 r1] eqn:E; [congruence|]. exists y1. split; [left; reflexivity|].
          apply B'. left. reflexivity.
        + intros y Hy. exists m. split; [left; reflexivity | apply B'; exact Hy].
      - (* TObj *)
        assert (HL : forall y, In y Y -> is_obj y = true).
        { intros y Hy. pose proof (HY y Hy) as M. apply meq_inv in M.
          destruct M as [<-|[[a [b [E1 _]]]|[[a [b [E1 _]]]|[a [b [_ [-> _]]]]]]]; try discriminate E1; reflexivity. }
        destruct (optimize_single_regroup f' Y _ u' (regroup_objs Y NE HL) O2) as [n' [-> O2']].
        destruct (merged_facts Y d GY DY) as [N2 H2]. destruct (obj_fields_facts fs Gm Dm) as [N1 H1].
        destruct (G_obj fs Gm) as [KN Fv].
        assert (REL : orelf fs (merge_field_sets peq (objs_of Y))).
        { rewrite <- (merge_single peq fs KN) at 1. apply merge_rel.
          - intros s [<-|[]]. split; [exact KN|]. intros [k v] Hkv. apply (Fv k v Hkv).
          - apply objs_good. exact GY.
          - split.
            + intros s [<-|[]]. destruct Y as [|y0 r]; [congruence|]. pose proof (HL y0 (or_introl eq_refl)) as L0.
              destruct y0; try discriminate L0. exists fs0. split; [apply In_objs_of'; left; reflexivity|].
              apply meq_obj_orel. apply HY. left. reflexivity.
            + intros g Hg. exists fs. split; [left; reflexivity|]. apply meq_obj_orel. apply HY. apply In_objs_of. exact Hg. }
        apply (step_obj fs _ N1 N2 (G_fields_RF1 fs H1) H2 REL f n' u u' O1 O2').
    Qed.

    Lemma step_UU X Y : G (TUnion X) -> G (TUnion Y) -> depth (TUnion X) < Datatypes.S d -> depth (TUnion Y) < Datatypes.S d ->
      leq X Y -> forall f f' u u', optimize f (TUnion X) = Some u -> optimize f' (TUnion Y) = Some u' -> canon u = canon u'.
    Proof.
      intros GX GY DX DY L. pose proof L as [LXY LYX]. apply (regroup_cong registry replaces peq X Y GX GY L).
      - intros n n' u u' O1 O2. destruct (merged_facts X d GX DX) as [N1 H1]. destruct (merged_facts Y d GY DY) as [N2 H2].
        apply (step_obj _ _ N1 N2 H1 H2 (regroup_objs_rel peq X Y GX GY L) n n' u u' O1 O2).
      - intros n n' u u' O1 O2. destruct (lists_of X) as [|x0 r0] eqn:EX.
        + assert (lists_of Y = []) as EY.
          { destruct (lists_of Y) as [|y0 r1] eqn:EY; [reflexivity|]. exfalso. apply (lists_nonempty Y X LYX); [rewrite EY; discriminate | exact EX]. }
          rewrite EY in O2. rewrite (optimize_det _ _ _ _ _ O1 O2). reflexivity.
        + rewrite <- EX in *. assert (NX : lists_of X <> []) by (rewrite EX; discriminate).
          pose proof (lists_nonempty X Y LXY NX) as NY.
          destruct (dunion_facts X (lists_of X) d GX DX NX (fun x Hx => or_introl (In_lists_of x X Hx))) as [G1 D1].
          destruct (dunion_facts Y (lists_of Y) d GY DY NY (fun x Hx => or_introl (In_lists_of x Y Hx))) as [G2 D2].
          apply (step_list _ _ G1 G2 D1 D2 (regroup_lists_teq X Y L) n n' u u' O1 O2).
      - intros n n' u u' O1 O2. destruct (dicts_of X) as [|x0 r0] eqn:EX.
        + assert (dicts_of Y = []) as EY.
          { destruct (dicts_of Y) as [|y0 r1] eqn:EY; [reflexivity|]. exfalso. apply (dicts_nonempty Y X LYX); [rewrite EY; discriminate | exact EX]. }
          rewrite EY in O2. rewrite (optimize_det _ _ _ _ _ O1 O2). reflexivity.
        + rewrite <- EX in *. assert (NX : dicts_of X <> []) by (rewrite EX; discriminate).
          pose proof (dicts_nonempty X Y LXY NX) as NY.
          destruct (dunion_facts X (dicts_of X) d GX DX NX (fun x Hx => or_intror (In_dicts_of x X Hx))) as [G1 D1].
          destruct (dunion_facts Y (dicts_of Y) d GY DY NY (fun x Hx => or_intror (In_dicts_of x Y Hx))) as [G2 D2].
          apply (step_dict _ _ G1 G2 D1 D2 (regroup_dicts_teq X Y L) n n' u u' O1 O2).
    Qed.

    Theorem P3_step : P3 (Datatypes.S d).
    Proof.
      intros a b Da Db Ga Gb T f f' u u' O1 O2. unfold teq in T.
      destruct (is_union a) eqn:Ua; destruct (is_union b) eqn:Ub.
      - destruct a; try discriminate Ua. destruct b; try discriminate Ub.
        apply (step_UU ts ts0 Ga Gb Da Db) with (f := f) (f' := f'); try assumption.
        eapply leq_trans; [apply leq_sym, seteq_leq, nmem_union; exact Ga|]. eapply leq_trans; [exact T|]. apply seteq_leq, nmem_union. exact Gb.
      - destruct a; try discriminate Ua.
        destruct (norm_props b Gb Ub) as [Nb [Gn [Un [Ln [Dn On]]]]]. symmetry.
        apply (step_MU (norm b) ts Gn Un Ln Ga ltac:(lia) Da) with (f := f') (f' := f); [|apply On; exact O2 | exact O1].
        rewrite <- Nb. eapply leq_trans; [apply leq_sym; exact T|]. apply seteq_leq, nmem_union. exact Ga.
      - destruct b; try discriminate Ub.
        destruct (norm_props a Ga Ua) as [Na [Gn [Un [Ln [Dn On]]]]].
        apply (step_MU (norm a) ts Gn Un Ln Gb ltac:(lia) Db) with (f := f) (f' := f'); [|apply On; exact O1 | exact O2].
        rewrite <- Na. eapply leq_trans; [exact T|]. apply seteq_leq, nmem_union. exact Gb.
      - destruct (norm_props a Ga Ua) as [Na [Gn [Un [Ln [Dn On]]]]].
        destruct (norm_props b Gb Ub) as [Nb [Gn' [Un' [Ln' [Dn' On']]]]].
        rewrite Na, Nb in T. apply leq_single in T.
        apply (step_MM (norm a) (norm b) Gn Gn' ltac:(lia) ltac:(lia) T f f' u u' (On _ _ O1) (On' _ _ O2)).
    Qed.
  End Step.

  Theorem P3_all : forall d, P3 d.
  Proof.
    induction d as [|d IH]; [intros a b Da; lia | apply P3_step; exact IH].
  Qed.

  (* statement (d) *)
  Theorem optimize_cong_thm : forall f f' a b u u',
    RF1 a = true -> S a = true -> RF1 b = true -> S b = true -> frel a b ->
    optimize f a = Some u -> optimize f' b = Some u' -> canon u = canon u'.
  Proof.
    intros f f' a b u u' R1 S1 R2 S2 FR O1 O2.
    apply (field_cong (Datatypes.S (Nat.max (depth a) (depth b))) (P3_all _) a b R1 S1 R2 S2 ltac:(lia) ltac:(lia) FR f f' u u' O1 O2).
  Qed.
End Ind.

(* ------------------------------------------------------------------ *)
(* E.2 the front end produces good field sets                           *)
Section Front.
  Variable registry : list pseudo.
  Variable replaces : list (pseudo * pseudo).
  Variable accepts : pseudo -> str -> bool.
  Variable n_regex : nat.
  Variable key_matches : nat -> str -> bool.
  Variable dict_fields : list str.
  Notation convert := (convert registry accepts n_regex key_matches dict_fields).
  Notation generate := (generate registry replaces accepts n_regex key_matches dict_fields).

  Lemma has_key_convert k r : has_key k (convert r) = existsb (fun kv => str_eqb k (fst kv)) r.
  Proof.
    induction r as [|[k2 x] r IH]; [reflexivity|]. unfold has_key in *. simpl. destruct (str_eqb k k2); [reflexivity | exact IH].
  Qed.
  Lemma keys_nodup_convert l : keys_nodup (convert l) = wf_nd l.
  Proof.
    induction l as [|[k x] r IH]; [reflexivity|].
    change (wf_nd ((k, x) :: r)) with (negb (existsb (fun kv => str_eqb k (fst kv)) r) && wf_nd r).
    change (convert ((k, x) :: r)) with ((k, detect registry accepts n_regex key_matches dict_fields (negb (existsb (str_eqb k) dict_fields)) x) :: convert r).
    cbn [keys_nodup]. rewrite has_key_convert, IH. reflexivity.
  Qed.
  Lemma convert_good samples : Forall (fun s => wf_json (JObj s) = true) samples -> good_sets_G (map convert samples).
  Proof.
    intros Hw s Hs. apply in_map_iff in Hs. destruct Hs as [kvs [<- Hk]]. rewrite Forall_forall in Hw. specialize (Hw _ Hk).
    split.
    - rewrite keys_nodup_convert. rewrite wf_json_obj in Hw. apply andb_true_iff in Hw. apply Hw.
    - intros kv Hkv. split; [apply (convert_FS registry accepts n_regex key_matches dict_fields kvs kv Hkv)|].
      apply (convert_FS_S registry accepts n_regex key_matches dict_fields kvs Hw kv Hkv).
  Qed.

  Lemma orel_refl s : orel s s.
  Proof. intros k. destruct (lookup k s) as [a|]; [right; exists a, a; repeat split; apply subm_refl | left; auto]. Qed.
  Lemma sets_rel_same_set (sets sets' : list fields) : (forall s, In s sets <-> In s sets') -> sets_rel sets sets'.
  Proof.
    intros H. split; intros s Hs; exists s; (split; [apply H; exact Hs | apply orel_refl]).
  Qed.

  (* (M) at the top level: the merged field sets of two sample lists that are equal as sets are equivalent *)
  Theorem frontend_rel s1 s2 : (forall x, In x s1 <-> In x s2) ->
    Forall (fun s => wf_json (JObj s) = true) s1 ->
    orelf (merge_field_sets N.eqb (map convert s1)) (merge_field_sets N.eqb (map convert s2)).
  Proof.
    intros Hs Hw.
    assert (Hw2 : Forall (fun s => wf_json (JObj s) = true) s2).
    { rewrite Forall_forall in *. intros x Hx. apply Hw. apply Hs. exact Hx. }
    apply merge_rel; [apply convert_good; exact Hw | apply convert_good; exact Hw2|].
    apply sets_rel_same_set. intros s. rewrite !in_map_iff. split; intros [x [E Hx]]; exists x; (split; [exact E | apply Hs; exact Hx]).
  Qed.

  (* ---------------------------------------------------------------- *)
  (* E.3 the theorem, from the congruence of optimize                  *)
  Section FromCongruence.
    (* statement (d): optimize respects the equivalence of fields (Optional flag equal, contents equal as sets of
       members up to the equivalence) on the terms merge_field_sets produces *)
    Hypothesis optimize_cong : forall f f' a b u u',
      RF1 a = true -> S a = true -> RF1 b = true -> S b = true -> frel a b ->
      optimize registry replaces N.eqb f a = Some u -> optimize registry replaces N.eqb f' b = Some u' ->
      canon u = canon u'.

    Theorem generate_perm_dup_cong : forall fuel fuel' s1 s2 f1 f2,
      (forall x, In x s1 <-> In x s2) ->
      Forall (fun s => wf_json (JObj s) = true) s1 ->
      generate fuel s1 = Some f1 -> generate fuel' s2 = Some f2 ->
      sem_eqb (TObj f1) (TObj f2) = true.
    Proof.
      intros fuel fuel' s1 s2 f1 f2 Hs Hw G1 G2.
      assert (Hw2 : Forall (fun s => wf_json (JObj s) = true) s2).
      { rewrite Forall_forall in *. intros x Hx. apply Hw. apply Hs. exact Hx. }
      pose proof (frontend_rel s1 s2 Hs Hw) as REL.
      set (M1 := merge_field_sets N.eqb (map convert s1)) in *.
      set (M2 := merge_field_sets N.eqb (map convert s2)) in *.
      assert (GS : forall s, Forall (fun s => wf_json (JObj s) = true) s ->
                 let M := merge_field_sets N.eqb (map convert s) in
                 FS RF1 M /\ FS S M /\ keys_nodup M = true).
      { intros s Hws. pose proof (convert_good s Hws) as Hg. cbv zeta.
        destruct (merge_fold_S N.eqb (map convert s) (true, []) ltac:(repeat split; intros kv []) ) as [A [B C]].
        - intros m Hm. destruct (Hg m Hm) as [_ Hm2]. split; intros kv Hkv; apply (Hm2 kv Hkv).
        - auto. }
      destruct (GS s1 Hw) as [A1 [B1 C1]]. destruct (GS s2 Hw2) as [A2 [B2 C2]]. fold M1 in A1, B1, C1. fold M2 in A2, B2, C2.
      unfold Detect.generate, optimize_fields in G1, G2. fold M1 in G1. fold M2 in G2.
      destruct (optimize registry replaces N.eqb fuel (TObj M1)) as [t1|] eqn:E1; [|discriminate].
      destruct t1; try discriminate. inversion G1; subst fs. clear G1.
      destruct (optimize registry replaces N.eqb fuel' (TObj M2)) as [t2|] eqn:E2; [|discriminate].
      destruct t2; try discriminate. inversion G2; subst fs. clear G2.
      destruct fuel as [|n]; [discriminate|]. destruct fuel' as [|n']; [discriminate|].
      rewrite NormalForm.optimize_S in E1, E2.
      destruct (opt_fields (optimize registry replaces N.eqb n) M1) as [g1|] eqn:O1; [|discriminate].
      destruct (opt_fields (optimize registry replaces N.eqb n') M2) as [g2|] eqn:O2; [|discriminate].
      inversion E1; subst g1. inversion E2; subst g2. clear E1 E2.
      destruct (opt_fields_lookup _ _ _ O1) as [K1 L1]. destruct (opt_fields_lookup _ _ _ O2) as [K2 L2].
      apply sem_eqb_iff. apply canon_obj_ext.
      - rewrite K1. apply keys_nodup_NoDup. exact C1.
      - rewrite K2. apply keys_nodup_NoDup. exact C2.
      - intros k. specialize (L1 k). specialize (L2 k).
        destruct (REL k) as [[R1 R2]|[v [v' [R1 [R2 FR]]]]].
        + rewrite R1 in L1. rewrite R2 in L2. rewrite L1, L2. reflexivity.
        + rewrite R1 in L1. rewrite R2 in L2. destruct L1 as [u [Lu Ou]]. destruct L2 as [u' [Lu' Ou']].
          rewrite Lu, Lu'. cbn [option_map]. f_equal.
          apply (optimize_cong n n' v v' u u'); try assumption.
          * apply (A1 (k, v)). apply Sound.lookup_In. exact R1.
          * apply (B1 (k, v)). apply Sound.lookup_In. exact R1.
          * apply (A2 (k, v')). apply Sound.lookup_In. exact R2.
          * apply (B2 (k, v')). apply Sound.lookup_In. exact R2.
    Qed.
  End FromCongruence.
End Front.

(* ------------------------------------------------------------------ *)
(* E.4 C07, unconditionally: no side condition on registry / replaces / accepts / key_matches / dict_fields / fuel *)
Theorem generate_perm_dup : forall registry replaces accepts n_regex key_matches dict_fields fuel fuel' s1 s2 f1 f2,
  (forall x, In x s1 <-> In x s2) ->
  Forall (fun s => wf_json (JObj s) = true) s1 ->
  generate registry replaces accepts n_regex key_matches dict_fields fuel s1 = Some f1 ->
  generate registry replaces accepts n_regex key_matches dict_fields fuel' s2 = Some f2 ->
  sem_eqb (TObj f1) (TObj f2) = true.
Proof.
  intros registry replaces accepts n_regex key_matches dict_fields fuel fuel' s1 s2 f1 f2 Hs Hw G1 G2.
  apply (generate_perm_dup_cong registry replaces accepts n_regex key_matches dict_fields
           (optimize_cong_thm registry replaces N.eqb) fuel fuel' s1 s2 f1 f2 Hs Hw G1 G2).
Qed.
(* permutations and duplications are special cases *)
Corollary generate_perm : forall registry replaces accepts n_regex key_matches dict_fields fuel fuel' s1 s2 f1 f2,
  Permutation s1 s2 ->
  Forall (fun s => wf_json (JObj s) = true) s1 ->
  generate registry replaces accepts n_regex key_matches dict_fields fuel s1 = Some f1 ->
  generate registry replaces accepts n_regex key_matches dict_fields fuel' s2 = Some f2 ->
  sem_eqb (TObj f1) (TObj f2) = true.
Proof.
  intros registry replaces accepts n_regex key_matches dict_fields fuel fuel' s1 s2 f1 f2 P.
  apply generate_perm_dup. intros x. split; [apply Permutation_in; exact P | apply Permutation_in, Permutation_sym; exact P].
Qed.

(* sanity tests of the statement (vm_compute): swap of the first sets, a duplicated sample, a key missing from the
   first sample only, literals, a nested object inside a list *)
Definition tk (n : N) : str := [n].
Definition ex_a : list (str * json) := [(tk 1, JInt 1); (tk 2, JStr (tk 7)); (tk 3, JArr [JObj [(tk 5, JInt 1); (tk 6, JNull)]])].
Definition ex_b : list (str * json) := [(tk 2, JFloat 1); (tk 3, JArr [JObj [(tk 6, JStr (tk 8)); (tk 5, JFloat 2)]; JInt 3])].
Definition ex_c : list (str * json) := [(tk 1, JNull); (tk 2, JStr (tk 9)); (tk 4, JObj [(tk 5, JInt 1)])].
Definition ex_run (s : list (list (str * json))) : option fields :=
  generate [PInt; PFloat] [(PInt, PFloat)] (fun _ _ => false) 0 (fun _ _ => false) [] 40 s.
Example perm_dup_test :
  match ex_run [ex_a; ex_b; ex_c], ex_run [ex_c; ex_a; ex_b; ex_a], ex_run [ex_b; ex_c; ex_c; ex_a] with
  | Some f1, Some f2, Some f3 => sem_eqb (TObj f1) (TObj f2) && sem_eqb (TObj f1) (TObj f3)
  | _, _, _ => false
  end = true.
Proof. vm_compute. reflexivity. Qed.

Print Assumptions ty_cmp_eq_iff.
Print Assumptions ty_cmp_trans.
Print Assumptions sort_ty_perm.
Print Assumptions canon_idem.
Print Assumptions sem_eqb_trans.
Print Assumptions mk_union_set_sem.
Print Assumptions merge_lookup_spec.
Print Assumptions merge_keys_status_set.
Print Assumptions merge_rel.
Print Assumptions finish_ceq.
Print Assumptions regroup_cong.
Print Assumptions regroup_lists_teq.
Print Assumptions regroup_objs_rel.
Print Assumptions frontend_rel.
Print Assumptions generate_perm_dup_cong.
Print Assumptions P3_all.
Print Assumptions optimize_cong_thm.
Print Assumptions generate_perm_dup.
Print Assumptions generate_perm.

(* Everything announced is proved; nothing is left open.
   Structure of (d) (optimize_cong_thm): P3 d := "optimize respects teq on raw terms (G = R /\ S) of depth < d on both
   sides, for any two fuels"; P3_all by induction on d (depth: atoms 0, TList/TDict/TObj +1, TUnion/TOpt +0;
   PermAux: dle_mk_union, depth_union1, depth_dunion, merge_depth).  P3_step splits on union/member on each side:
     step_UU  regroup_cong, its three hypotheses discharged by step_obj (merged_facts, regroup_objs_rel) and
              step_list / step_dict (dunion_facts, regroup_lists_teq / regroup_dicts_teq);
     step_MU  a single member against a union: the union is homogeneous, regroup returns the single rebuilt member
              (regroup_single_atomic, regroup_lists, regroup_dicts, regroup_objs; merge_single + merge_rel for objects);
              the union-against-member case is the same lemma read backwards;
     step_MM  meq_inv; members are first normalised by norm (TLit true [] counts as TStr, norm_props).
   field_cong lifts P3 to fields (Optional flag), step_obj to objects; optimize_det: the result does not depend on
   the fuel once optimize succeeds (NormalForm.optimize_mono). *)
