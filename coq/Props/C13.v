(* Props/C13.v — dict-field options turn objects into mappings, and only those.
   Statements only; proofs in Proofs/DictDecision.v.  That re.match('^(?:' + r + ')$') equals re.fullmatch(r) is a
   fact about Python's regex syntax: tied by X-infer with key_matches supplied by re, judged by the oracle. *)
From Coq Require Import List Bool Arith NArith.
From J2M.Model Require Import Base Union Merge Optimize Detect.
From J2M.Proofs Require Import DictDecision.

Theorem C13_all_keys_match_spec :
  forall (n_regex : nat) (key_matches : nat -> str -> bool) (ks : list str),
       all_keys_match n_regex key_matches ks = true <->
       (exists i : nat, i < n_regex /\ Forall (fun k : str => key_matches i k = true) ks).
Proof. exact DictDecision.all_keys_match_spec. Qed.

Theorem C13_dict_decision_iff :
  forall (registry : list pseudo) (accepts : pseudo -> str -> bool) (n_regex : nat)
         (key_matches : nat -> str -> bool) (dict_fields : list str) (cd : bool) 
         (kvs : list (str * json)),
       kvs <> nil ->
       (exists t : ty, detect registry accepts n_regex key_matches dict_fields cd (JObj kvs) = TDict t) <->
       cd = false \/ all_keys_match n_regex key_matches (map fst kvs) = true.
Proof. exact DictDecision.dict_decision_iff. Qed.

Theorem C13_dict_decision_empty :
  forall (registry : list pseudo) (accepts : pseudo -> str -> bool) (n_regex : nat)
         (key_matches : nat -> str -> bool) (dict_fields : list str) (cd : bool),
       detect registry accepts n_regex key_matches dict_fields cd (JObj nil) = TDict TUnknown.
Proof. exact DictDecision.dict_decision_empty. Qed.

Theorem C13_dict_decision_model :
  forall (registry : list pseudo) (accepts : pseudo -> str -> bool) (n_regex : nat)
         (key_matches : nat -> str -> bool) (dict_fields : list str) (cd : bool) 
         (kvs : list (str * json)),
       kvs <> nil ->
       ~ (cd = false \/ all_keys_match n_regex key_matches (map fst kvs) = true) ->
       exists fs : list (str * ty),
         detect registry accepts n_regex key_matches dict_fields cd (JObj kvs) = TObj fs /\
         map fst fs = map fst kvs /\ fs = convert registry accepts n_regex key_matches dict_fields kvs.
Proof. exact DictDecision.dict_decision_model. Qed.

Theorem C13_detect_obj_cases :
  forall (registry : list pseudo) (accepts : pseudo -> str -> bool) (n_regex : nat)
         (key_matches : nat -> str -> bool) (dict_fields : list str) (cd : bool) 
         (kvs : list (str * json)),
       (exists t : ty, detect registry accepts n_regex key_matches dict_fields cd (JObj kvs) = TDict t) \/
       (exists fs : list (str * ty),
          detect registry accepts n_regex key_matches dict_fields cd (JObj kvs) = TObj fs /\
          map fst fs = map fst kvs).
Proof. exact DictDecision.detect_obj_cases. Qed.

Theorem C13_convert_keys :
  forall (registry : list pseudo) (accepts : pseudo -> str -> bool) (n_regex : nat)
         (key_matches : nat -> str -> bool) (dict_fields : list str) (kvs : list (str * json)),
       map fst (convert registry accepts n_regex key_matches dict_fields kvs) = map fst kvs.
Proof. exact DictDecision.convert_keys. Qed.

Theorem C13_convert_field_named :
  forall (registry : list pseudo) (accepts : pseudo -> str -> bool) (n_regex : nat)
         (key_matches : nat -> str -> bool) (dict_fields : list str) (kvs : list (str * json)) 
         (k : str) (v : json),
       In (k, v) kvs ->
       NoDup (map fst kvs) ->
       In k dict_fields ->
       lookup k (convert registry accepts n_regex key_matches dict_fields kvs) =
       Some (detect registry accepts n_regex key_matches dict_fields false v).
Proof. exact DictDecision.convert_field_named. Qed.

Theorem C13_convert_field_unnamed :
  forall (registry : list pseudo) (accepts : pseudo -> str -> bool) (n_regex : nat)
         (key_matches : nat -> str -> bool) (dict_fields : list str) (kvs : list (str * json)) 
         (k : str) (v : json),
       In (k, v) kvs ->
       NoDup (map fst kvs) ->
       ~ In k dict_fields ->
       lookup k (convert registry accepts n_regex key_matches dict_fields kvs) =
       Some (detect registry accepts n_regex key_matches dict_fields true v).
Proof. exact DictDecision.convert_field_unnamed. Qed.

Theorem C13_array_elements_cd_true :
  forall (registry : list pseudo) (accepts : pseudo -> str -> bool) (n_regex : nat)
         (key_matches : nat -> str -> bool) (dict_fields : list str) (cd : bool) 
         (l : list json),
       detect registry accepts n_regex key_matches dict_fields cd (JArr l) =
       TList (elem_type (map (detect registry accepts n_regex key_matches dict_fields true) l)).
Proof. exact DictDecision.array_elements_cd_true. Qed.

Theorem C13_mapping_values_cd_true :
  forall (registry : list pseudo) (accepts : pseudo -> str -> bool) (n_regex : nat)
         (key_matches : nat -> str -> bool) (dict_fields : list str) (cd : bool) 
         (kvs : list (str * json)) (t : ty),
       detect registry accepts n_regex key_matches dict_fields cd (JObj kvs) = TDict t ->
       t =
       elem_type
         (map (fun kv : str * json => detect registry accepts n_regex key_matches dict_fields true (snd kv))
            kvs).
Proof. exact DictDecision.mapping_values_cd_true. Qed.

Theorem C13_dict_value_type :
  forall (registry : list pseudo) (accepts : pseudo -> str -> bool) (n_regex : nat)
         (key_matches : nat -> str -> bool) (dict_fields : list str) (cd : bool) 
         (kvs : list (str * json)) (t : ty),
       detect registry accepts n_regex key_matches dict_fields cd (JObj kvs) = TDict t ->
       t = elem_type (map (detect registry accepts n_regex key_matches dict_fields true) (map snd kvs)).
Proof. exact DictDecision.dict_value_type. Qed.

