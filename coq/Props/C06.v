(* Props/C06.v — output is a deterministic function of inputs and options.
   The model is a function: once the places where the implementation iterates a Python set are shown not to let the
   order through, determinism follows.  (T) Gen/IterSites.v is the list of set-iteration sites found in the package now;
   the translator fails on any iteration site that is not in the reviewed table.  The order-independence lemmas are
   merged from Proofs/OrderIndep.v when finished.  CPython's actual set layout is not modelled ("any permutation"
   over-approximates it); the hash-string caches are assumed transparent.  Tied by X-seeds: fresh processes under many
   PYTHONHASHSEED values. *)
From Coq Require Import List Bool Arith NArith String.
From J2M.Model Require Import Base Emit.
From J2M.Gen Require IterSites.
Import ListNotations.
Theorem C06_set_sites_reviewed : List.length IterSites.set_sites = 40 /\ IterSites.n_sites = 237.
Proof. split; reflexivity. Qed.
