(* Props/C06.v — output is a deterministic function of inputs and options.
   The model is a function: once the places where the implementation iterates a Python set are shown not to let the
   order through, determinism follows.  (T) Gen/IterSites.v is the list of set-iteration sites found in the package now;
   the translator fails on any iteration site that is not in the reviewed table.  The order-independence lemmas are
   merged from Proofs/OrderIndep.v when finished.  CPython's actual set layout is not modelled ("any permutation"
   over-approximates it); the hash-string caches are assumed transparent.  Tied by X-seeds: fresh processes under many
   PYTHONHASHSEED values. *)
From Coq Require Import List Bool Arith NArith String.
From Coq Require Import Permutation.
From J2M.Model Require Import Base Registry Optimize Layout Emit.
From J2M.Gen Require IterSites.
From J2M.Proofs Require Import OrderIndep.
Import ListNotations.
(* the obligation proper is that the translator succeeds (it fails on any unreviewed iteration site); this records that the
   regenerated list is the reviewed one: every set-iteration site is among all sites *)
Theorem C06_set_sites_reviewed : List.length IterSites.set_sites <= IterSites.n_sites /\ IterSites.set_sites <> [].
Proof. split; [vm_compute; repeat constructor | discriminate]. Qed.

(* ---- the places that iterate a set do not let the arrival order through (Proofs/OrderIndep.v) ---- *)
Theorem C06_set_of_strs_perm :
  forall l l' : list str, Permutation l l' -> set_of_strs l = set_of_strs l'.
Proof. exact OrderIndep.set_of_strs_perm. Qed.

Theorem C06_set_of_strs_ext :
  forall l l' : list str, same_elts l l' -> set_of_strs l = set_of_strs l'.
Proof. exact OrderIndep.set_of_strs_ext. Qed.

Theorem C06_distinct_words_perm :
  forall ws ws' : list str, Permutation ws ws' -> distinct_words ws = distinct_words ws'.
Proof. exact OrderIndep.distinct_words_perm. Qed.

Theorem C06_distinct_words_spec :
  forall (ws : list str) (w : str),
       In w (distinct_words ws) <-> In w ws /\ (forall o : str, In o ws -> o <> w -> is_substr o w = false).
Proof. exact OrderIndep.distinct_words_spec. Qed.

Theorem C06_compile_imports_perm :
  forall i i' : list (str * option (list str)),
       Permutation i i' -> compile_imports i = compile_imports i'.
Proof. exact OrderIndep.compile_imports_perm. Qed.

Theorem C06_resolve_perm_replaces :
  forall (R R' : list (pseudo * pseudo)) (fuel : nat) (qs qs' : list pseudo),
       Permutation R R' ->
       Permutation qs qs' -> forall p : pseudo, In p (resolve R fuel qs) <-> In p (resolve R' fuel qs').
Proof. exact OrderIndep.resolve_perm_replaces. Qed.

Theorem C06_resolve_singleton_perm :
  forall (R R' : list (pseudo * pseudo)) (qs qs' : list pseudo) (p : pseudo),
       Permutation R R' ->
       Permutation qs qs' ->
       resolve R (S (List.length qs)) qs = p :: nil <-> resolve R' (S (List.length qs')) qs' = p :: nil.
Proof. exact OrderIndep.resolve_singleton_perm. Qed.

Theorem C06_parents_of_perm :
  forall g g' : graph,
       Permutation (ps g) (ps g') ->
       ms g = ms g' -> forall m p : N, In p (parents_of g m) <-> In p (parents_of g' m).
Proof. exact OrderIndep.parents_of_perm. Qed.

Theorem C06_min_parent_ext :
  forall l l' : list N,
       same_elts l l' -> (forall x : N, In x l -> idx_ok x) -> min_parent l = min_parent l'.
Proof. exact OrderIndep.min_parent_ext. Qed.

Theorem C06_extract_root_spec :
  forall (g : graph) (m r : N), In r (extract_root g m) <-> is_root_of g m r.
Proof. exact OrderIndep.extract_root_spec. Qed.

Theorem C06_extract_root_perm :
  forall g g' : graph,
       Permutation (ps g) (ps g') ->
       ms g = ms g' -> forall m r : N, In r (extract_root g m) <-> In r (extract_root g' m).
Proof. exact OrderIndep.extract_root_perm. Qed.

Theorem C06_compose_flat_perm :
  forall g g' : graph,
       Permutation (ps g) (ps g') -> parents_ok g -> ms g = ms g' -> compose_flat g = compose_flat g'.
Proof. exact OrderIndep.compose_flat_perm. Qed.

Theorem C06_compose_nested_perm :
  forall g g' : graph,
       Permutation (ps g) (ps g') -> parents_ok g -> ms g = ms g' -> compose_nested g = compose_nested g'.
Proof. exact OrderIndep.compose_nested_perm. Qed.

Theorem C06_min_parent_order_dep :
  min_parent (cexA :: cexB :: nil) = cexA /\ min_parent (cexB :: cexA :: nil) = cexB.
Proof. exact OrderIndep.min_parent_order_dep. Qed.

