(* Props/C04.v — emitted classes denote exactly the inferred model graph.  This revision: what the field bodies of each
   generator contain, by case analysis on the emitter model (a default exactly when the field is optional; list / dict
   factories for optional containers; alias / metadata exactly when the label differs from the key).  The printer /
   parser round trip is merged from Proofs/ when finished; bytes are tied by X-emit, evaluated annotations by the oracle. *)
From Coq Require Import List Bool Arith NArith String.
From J2M.Model Require Import Base Framework Label Emit.
Import ListNotations.

Section C04.
  Variable is_printable_c : N -> bool.
  Let fb := field_body is_printable_c.
  Definition mk (fw : framework) (conv meta : bool) : opts := {| o_fw := fw; o_maxlit := 10; o_conv := conv; o_cu := true; o_meta := meta |}.

  (* the base generator never emits a body *)
  Theorem C04_base_no_body : forall conv meta name lab t optional, fb (mk FBase conv meta) name lab t optional = ([], None).
  Proof. reflexivity. Qed.

  (* pydantic: no alias needed -> the body is exactly the default, present iff optional *)
  Theorem C04_pydantic_default_iff : forall conv meta name t optional,
    snd (fb (mk FPydantic conv meta) name name t optional) =
    if optional then Some (match inner t with TList _ => s_ "[]" | TDict _ => s_ "{}" | _ => s_ "None" end) else None.
  Proof.
    intros. unfold fb, field_body. cbn [o_fw mk]. unfold str_eqb. destruct (list_eq_dec N.eq_dec name name) as [_|n]; [|congruence].
    cbn. destruct optional; reflexivity.
  Qed.
  (* pydantic: a renamed field carries alias=json(name); required fields get "..." *)
  Theorem C04_pydantic_alias : forall conv meta name lab t optional, str_eqb name lab = false ->
    snd (fb (mk FPydantic conv meta) name lab t optional) =
    Some (s_ "Field(" ++ (if optional then match inner t with TList _ => s_ "[]" | TDict _ => s_ "{}" | _ => s_ "None" end else s_ "...")
          ++ s_ ", " ++ s_ "alias=" ++ json_escape_raw name ++ s_ ")").
  Proof.
    intros conv meta name lab t optional H. unfold fb, field_body. cbn [o_fw mk]. rewrite H. cbn.
    destruct optional; reflexivity.
  Qed.
  (* dataclasses without metadata: the body is the bare default, present iff optional, factories for containers *)
  Theorem C04_dataclasses_default_iff : forall conv name lab t optional,
    snd (fb (mk FDataclasses conv false) name lab t optional) =
    if optional then Some (match inner t with
                           | TList _ => s_ "field(default_factory=list)" | TDict _ => s_ "field(default_factory=dict)"
                           | _ => s_ "None" end)
    else None.
  Proof.
    intros. unfold fb, field_body. cbn [o_fw o_meta mk]. destruct optional; [|reflexivity].
    destruct (inner t); reflexivity.
  Qed.
End C04.
