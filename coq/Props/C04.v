(* Props/C04.v — emitted classes denote exactly the inferred model graph.
   PART 1 (field bodies, proved here by case analysis on the emitter model): a default exactly when the field is optional;
   list / dict factories for optional containers; alias / metadata exactly when the label differs from the key.
   PART 2 (annotations; statements only, proofs in Proofs/AnnProps.v): parse_ann (Model/PyAnn.v) is a parser of the emitted
   annotation language; denote is the SPECIFICATION of what a type denotes under a generator's style (a syntax tree, written
   without reference to the printed text).  C04_parse_print: for EVERY type, style, name table and follow text, reading
   the text that print_ty printed gives back denote t, and nothing of the follow text is consumed — so the annotation text
   is unambiguous and denotes the inferred type.  C04_denote_injective says exactly which information a style erases
   (pseudo-type vs its plain type under the actual-type styles, a literal set that is not shown, the overflow flag).
   The side condition ann_wf excludes the empty Literal[] (C04_literal_empty_unreadable: Python rejects it too; the
   pipeline never prints it: optimize turns an overflowed or empty literal set into str before emission).  Ties: print_ty = metadata_to_typing byte for byte and
   parse_ann = CPython ast.parse on the printed texts (X-ann, tools/validate_pyann.py, every run); class bytes by X-emit.
   NOT PROVED: the normalisation typing applies when the text is evaluated (Optional[X] = Union[X, None], flattening):
   runtime; the oracle compares evaluated annotations with an independent rendering. *)
From Coq Require Import List Bool Arith NArith String.
From J2M.Model Require Import Base Framework Label Emit.
Import ListNotations.

Section C04.
  Variable is_printable_c : N -> bool.
  Let fb := field_body is_printable_c.
  Definition mk (fw : framework) (conv meta : bool) : opts := {| o_fw := fw; o_maxlit := 10; o_conv := conv; o_cu := true; o_meta := meta |}.

  (* the base generator never emits a body *)
  Theorem C04_base_no_body : forall conv meta name lab t optional, fb (mk FBase conv meta) name lab t optional = ([], None).
  Proof. reflexivity. Qed.

  (* pydantic: no alias needed -> the body is exactly the default, present iff optional *)
  Theorem C04_pydantic_default_iff : forall conv meta name t optional,
    snd (fb (mk FPydantic conv meta) name name t optional) =
    if optional then Some (match inner t with TList _ => s_ "[]" | TDict _ => s_ "{}" | _ => s_ "None" end) else None.
  Proof.
    intros. unfold fb, field_body. cbn [o_fw mk]. unfold str_eqb. destruct (list_eq_dec N.eq_dec name name) as [_|n]; [|congruence].
    cbn. destruct optional; reflexivity.
  Qed.
  (* pydantic: a renamed field carries alias=json(name); required fields get "..." *)
  Theorem C04_pydantic_alias : forall conv meta name lab t optional, str_eqb name lab = false ->
    snd (fb (mk FPydantic conv meta) name lab t optional) =
    Some (s_ "Field(" ++ (if optional then match inner t with TList _ => s_ "[]" | TDict _ => s_ "{}" | _ => s_ "None" end else s_ "...")
          ++ s_ ", " ++ s_ "alias=" ++ json_escape_raw name ++ s_ ")").
  Proof.
    intros conv meta name lab t optional H. unfold fb, field_body. cbn [o_fw mk]. rewrite H. cbn.
    destruct optional; reflexivity.
  Qed.
  (* dataclasses without metadata: the body is the bare default, present iff optional, factories for containers *)
  Theorem C04_dataclasses_default_iff : forall conv name lab t optional,
    snd (fb (mk FDataclasses conv false) name lab t optional) =
    if optional then Some (match inner t with
                           | TList _ => s_ "field(default_factory=list)" | TDict _ => s_ "field(default_factory=dict)"
                           | _ => s_ "None" end)
    else None.
  Proof.
    intros. unfold fb, field_body. cbn [o_fw o_meta mk]. destruct optional; [|reflexivity].
    destruct (inner t); reflexivity.
  Qed.
End C04.

(* ---- PART 2: annotations ---- *)
From J2M.Model Require Import PyLex PyAnn.
From J2M.Proofs Require Import AnnProps.

Theorem C04_parse_print :
  forall (names : N -> option str) (ctx : N -> option N) (o : opts) (t : ty) (i : list imp) (txt : str),
       print_ty names ctx o t = Some (i, txt) ->
       ann_wf names ctx o t = true ->
       forall rest : str,
       follow_ok rest = true ->
       exists n : nat,
         forall fuel : nat, n <= fuel -> parse_ann fuel (txt ++ rest) = Some (denote names ctx o t, rest).
Proof. exact AnnProps.parse_print. Qed.

Theorem C04_parse_print_fuel :
  forall (names : N -> option str) (ctx : N -> option N) (o : opts) (t : ty) (i : list imp) (txt : str),
       print_ty names ctx o t = Some (i, txt) ->
       ann_wf names ctx o t = true ->
       forall (rest : str) (fuel : nat),
       follow_ok rest = true ->
       ty_fuel t <= fuel -> parse_ann fuel (txt ++ rest) = Some (denote names ctx o t, rest).
Proof. exact AnnProps.parse_print_fuel. Qed.

Theorem C04_parse_print_all :
  forall (names : N -> option str) (ctx : N -> option N) (o : opts) (t : ty) (i : list imp) (txt : str),
       print_ty names ctx o t = Some (i, txt) ->
       ann_wf names ctx o t = true ->
       forall fuel : nat, ty_fuel t <= fuel -> parse_ann_all fuel txt = Some (denote names ctx o t).
Proof. exact AnnProps.parse_print_all. Qed.

Theorem C04_parse_ann_mono :
  forall (n m : nat) (s : str) (r : ann * str),
       parse_ann n s = Some r -> n <= m -> parse_ann m s = Some r.
Proof. exact AnnProps.parse_ann_mono. Qed.

Theorem C04_denote_erase :
  forall (names : N -> option str) (ctx : N -> option N) (o : opts) (t : ty),
       denote names ctx o (erase o t) = denote names ctx o t.
Proof. exact AnnProps.denote_erase. Qed.

Theorem C04_denote_injective :
  forall (names : N -> option str) (ctx : N -> option N) (dom : list N),
       (forall m m' : N, In m dom -> In m' dom -> qn names ctx m = qn names ctx m' -> m = m') ->
       forall (o : opts) (a b : ty),
       no_obj a = true ->
       no_obj b = true ->
       incl (ptrs a) dom ->
       incl (ptrs b) dom -> denote names ctx o a = denote names ctx o b <-> erase o a = erase o b.
Proof. exact AnnProps.denote_injective. Qed.

Theorem C04_literal_empty_unreadable :
  forall (fuel : nat) (rest : list N), parse_ann fuel (s_ "Literal[]" ++ rest) = None.
Proof. exact AnnProps.literal_empty_unreadable. Qed.

