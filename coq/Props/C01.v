(* Props/C01.v — generated models accept every sample they were inferred from.  Statements only; proofs in Proofs/Sound.v
   (inference stage, one merge+optimize step) and Proofs/GraphSound.v (the registry stage).
   ht = value semantics of the type IR relative to a model table (Sem/HasType.v); htg ... false = the strict reading in
   which Any admits nothing (Any only ever types the elements of containers observed empty); it implies ht (C01_htg_ht).
   MAIN THEOREM, C01_pipeline_sound: for EVERY list of well-formed samples, registry, sound + ranked replacement table, dict
   decision, fuel, similarity oracle R and root name, if generate, process_root and merge_models succeed then every sample
   is admitted by the final root model (TPtr (rho reps idx): the root's index followed through the recorded merges) in the
   final graph (rho reps i = fold_left (fun i r => if memN i (snd r) then fst r else i) reps i, Proofs/GraphSound.v) —
   including graphs made CYCLIC by merging (C01_example_root_merge_cyclic).  The proof goes by induction on
   the size of the value, not on the graph.  The stage theorems (proc, process_root, ptr_eq_g, opt_model, merge_group,
   merge_models; detect, mk_union, merge_field_sets, optimize, generate) are restated below; gwf / closed are invariants
   established from the empty graph, not premises of the main theorem.
   WHY the strict reading: under the liberal one a merge can drop List[Any] beside List[int] and lose a value
   (C01_optimize_any_refuted, C01_merge_group_any_refuted); generate types its samples strictly, so the conclusion holds
   for ht as well.
   NOT PROVED: the last mile (emitted text -> classes -> pydantic / attrs / dataclasses acceptance): tied by X-emit and
   judged by the oracle. *)
From Coq Require Import List Bool Arith NArith.
From J2M.Model Require Import Base Union Merge Optimize Detect.
From J2M.Sem Require Import HasType NF.
From J2M.Proofs Require Import Sound.

Theorem C01_detect_sound :
  forall (accepts : pseudo -> str -> bool) (mf : N -> option fields) (registry : list pseudo)
         (n_regex : nat) (key_matches : nat -> str -> bool) (dict_fields : list str) 
         (cd : bool) (v : json),
       wf_json v = true -> ht accepts mf v (detect registry accepts n_regex key_matches dict_fields cd v).
Proof. exact Sound.detect_sound. Qed.

Theorem C01_convert_sound :
  forall (accepts : pseudo -> str -> bool) (mf : N -> option fields) (registry : list pseudo)
         (n_regex : nat) (key_matches : nat -> str -> bool) (dict_fields : list str)
         (kvs : list (str * json)),
       wf_json (JObj kvs) = true ->
       obj_ok accepts mf (convert registry accepts n_regex key_matches dict_fields kvs) kvs.
Proof. exact Sound.convert_sound. Qed.

Theorem C01_mk_union_sound :
  forall (accepts : pseudo -> str -> bool) (mf : N -> option fields) (v : json) (ts : list ty),
       Exists (ht accepts mf v) ts -> Exists (ht accepts mf v) (mk_union ts).
Proof. exact Sound.mk_union_sound_ht. Qed.

Theorem C01_merge_field_sets_sound :
  forall (accepts : pseudo -> str -> bool) (mf : N -> option fields) (peq : N -> N -> bool)
         (sets : list fields) (objs : list (list (str * json))),
       (forall i j : N,
        peq i j = true -> forall v : json, ht accepts mf v (TPtr i) <-> ht accepts mf v (TPtr j)) ->
       Forall2 (fun (fs : fields) (l : list (str * json)) => obj_ok accepts mf fs l) sets objs ->
       Forall (fun fs : fields => okf fs = true) sets ->
       Forall (fun fs : fields => no_opt fs = true) (tl sets) ->
       Forall (obj_ok accepts mf (merge_field_sets peq sets)) objs.
Proof. exact Sound.merge_field_sets_sound_ht. Qed.

Theorem C01_optimize_sound_strict :
  forall (accepts : pseudo -> str -> bool) (mf : N -> option fields) (registry : list pseudo)
         (replaces : list (pseudo * pseudo)) (peq : N -> N -> bool),
       (forall i j : N,
        peq i j = true ->
        forall v : json, htg accepts mf false v (TPtr i) <-> htg accepts mf false v (TPtr j)) ->
       (forall a b : pseudo, In (a, b) replaces -> forall s : str, accepts a s = true -> accepts b s = true) ->
       forall rank : pseudo -> nat,
       forallb (fun pq : pseudo * pseudo => pseudo_eqb (fst pq) (snd pq) || (rank (fst pq) <? rank (snd pq)))
         replaces = true ->
       forall (fuel : nat) (t t' : ty),
       okT t = true ->
       optimize registry replaces peq fuel t = Some t' ->
       forall v : json, htg accepts mf false v t -> htg accepts mf false v t'.
Proof. exact Sound.optimize_sound_strict. Qed.

Theorem C01_generate_sound :
  forall (accepts : pseudo -> str -> bool) (mf : N -> option fields) (registry : list pseudo)
         (replaces : list (pseudo * pseudo)) (n_regex : nat) (key_matches : nat -> str -> bool)
         (dict_fields : list str),
       (forall a b : pseudo, In (a, b) replaces -> forall s : str, accepts a s = true -> accepts b s = true) ->
       forall rank : pseudo -> nat,
       forallb (fun pq : pseudo * pseudo => pseudo_eqb (fst pq) (snd pq) || (rank (fst pq) <? rank (snd pq)))
         replaces = true ->
       forall (fuel : nat) (samples : list (list (str * json))) (fs : fields),
       Forall (fun s : list (str * json) => wf_json (JObj s) = true) samples ->
       generate registry replaces accepts n_regex key_matches dict_fields fuel samples = Some fs ->
       Forall (fun s : list (str * json) => ht accepts mf (JObj s) (TObj fs)) samples.
Proof. exact Sound.generate_sound. Qed.

Theorem C01_merge_optimize_sound :
  forall (accepts : pseudo -> str -> bool) (mf : N -> option fields) (registry : list pseudo)
         (replaces : list (pseudo * pseudo)) (peq : N -> N -> bool),
       (forall i j : N,
        peq i j = true ->
        forall v : json, htg accepts mf false v (TPtr i) <-> htg accepts mf false v (TPtr j)) ->
       (forall a b : pseudo, In (a, b) replaces -> forall s : str, accepts a s = true -> accepts b s = true) ->
       forall rank : pseudo -> nat,
       forallb (fun pq : pseudo * pseudo => pseudo_eqb (fst pq) (snd pq) || (rank (fst pq) <? rank (snd pq)))
         replaces = true ->
       forall (sets : list fields) (fuel : nat) (fs' : fields),
       Forall (fun fs : fields => okf fs = true) sets ->
       optimize_fields registry replaces peq fuel (merge_field_sets peq sets) = Some fs' ->
       forall (fs : fields) (l : list (str * json)),
       In fs sets -> obj_okg accepts mf false fs l -> obj_okg accepts mf false fs' l.
Proof. exact Sound.merge_optimize_sound. Qed.

Theorem C01_merge_optimize_sound_ht :
  forall (accepts : pseudo -> str -> bool) (mf : N -> option fields) (registry : list pseudo)
         (replaces : list (pseudo * pseudo)) (peq : N -> N -> bool),
       (forall i j : N,
        peq i j = true -> forall v : json, ht accepts mf v (TPtr i) <-> ht accepts mf v (TPtr j)) ->
       (forall a b : pseudo, In (a, b) replaces -> forall s : str, accepts a s = true -> accepts b s = true) ->
       forall rank : pseudo -> nat,
       forallb (fun pq : pseudo * pseudo => pseudo_eqb (fst pq) (snd pq) || (rank (fst pq) <? rank (snd pq)))
         replaces = true ->
       (forall (i : N) (fs : fields), mf i = Some fs -> nounk (TObj fs) = true) ->
       forall (sets : list fields) (fuel : nat) (fs' : fields),
       Forall (fun fs : fields => okf fs = true) sets ->
       Forall (fun fs : list (str * ty) => nounk (TObj fs) = true) sets ->
       optimize_fields registry replaces peq fuel (merge_field_sets peq sets) = Some fs' ->
       forall (fs : fields) (l : list (str * json)),
       In fs sets -> obj_ok accepts mf fs l -> obj_ok accepts mf fs' l.
Proof. exact Sound.merge_optimize_sound_ht. Qed.

Theorem C01_htg_ht :
  forall (accepts : pseudo -> str -> bool) (mf : N -> option fields) (uk : bool) (v : json) (t : ty),
       htg accepts mf uk v t -> ht accepts mf v t.
Proof. exact Sound.htg_ht. Qed.

Theorem C01_optimize_any_refuted :
  let t := TUnion (TList TUnknown :: TList TInt :: nil) in
       optimize nil nil N.eqb 5 t = Some (TList TInt) /\
       ht (fun (_ : pseudo) (_ : str) => false) (fun _ : N => None) (JArr (JStr nil :: nil)) t /\
       ~ ht (fun (_ : pseudo) (_ : str) => false) (fun _ : N => None) (JArr (JStr nil :: nil)) (TList TInt).
Proof. exact Sound.optimize_any_refuted_raw. Qed.

Theorem C01_merge_opt_refuted :
  let a := 97%N :: nil in
       let sets := ((a, TInt) :: nil) :: ((a, TOpt TStr) :: nil) :: nil in
       let objs := ((a, JInt (Zpos 1)) :: nil) :: nil :: nil in
       merge_field_sets N.eqb sets = (a, TUnion (TOpt TStr :: TInt :: nil)) :: nil /\
       Forall2
         (fun (fs : fields) (l : list (str * json)) =>
          obj_ok (fun (_ : pseudo) (_ : str) => false) (fun _ : N => None) fs l) sets objs /\
       ~
       Forall
         (obj_ok (fun (_ : pseudo) (_ : str) => false) (fun _ : N => None) (merge_field_sets N.eqb sets))
         objs.
Proof. exact Sound.merge_opt_refuted. Qed.

(* ---- the registry stage (Proofs/GraphSound.v) ---- *)
From J2M.Model Require Import Registry Groups.
From J2M.Proofs Require Import RegistryInvAux RegistryInv GraphSound.

Theorem C01_pipeline_sound :
  forall (accepts : pseudo -> str -> bool) (registry : list pseudo) (replaces : list (pseudo * pseudo))
         (n_regex : nat) (key_matches : nat -> str -> bool) (dict_fields : list str),
       (forall a b : pseudo, In (a, b) replaces -> forall s : str, accepts a s = true -> accepts b s = true) ->
       forall rank : pseudo -> nat,
       forallb (fun pq : pseudo * pseudo => pseudo_eqb (fst pq) (snd pq) || (rank (fst pq) <? rank (snd pq)))
         replaces = true ->
       forall (R : nat -> nat -> bool) (fuel : nat) (samples : list (list (str * json))) 
         (fs : fields) (name : option str) (idx : N) (g1 g2 : graph) (reps : list (N * list N)),
       Forall (fun s : list (str * json) => wf_json (JObj s) = true) samples ->
       generate registry replaces accepts n_regex key_matches dict_fields fuel samples = Some fs ->
       process_root fs name empty_graph = (idx, g1) ->
       merge_models registry replaces R g1 = Some (g2, reps) ->
       Forall (fun s : list (str * json) => ht accepts (fields_of g2) (JObj s) (TPtr (rho reps idx))) samples.
Proof. exact GraphSound.pipeline_sound. Qed.

Theorem C01_pipeline_sound_strict :
  forall (accepts : pseudo -> str -> bool) (registry : list pseudo) (replaces : list (pseudo * pseudo))
         (n_regex : nat) (key_matches : nat -> str -> bool) (dict_fields : list str),
       (forall a b : pseudo, In (a, b) replaces -> forall s : str, accepts a s = true -> accepts b s = true) ->
       forall rank : pseudo -> nat,
       forallb (fun pq : pseudo * pseudo => pseudo_eqb (fst pq) (snd pq) || (rank (fst pq) <? rank (snd pq)))
         replaces = true ->
       forall (R : nat -> nat -> bool) (fuel : nat) (samples : list (list (str * json))) 
         (fs : fields) (name : option str) (idx : N) (g1 g2 : graph) (reps : list (N * list N)),
       Forall (fun s : list (str * json) => wf_json (JObj s) = true) samples ->
       generate registry replaces accepts n_regex key_matches dict_fields fuel samples = Some fs ->
       process_root fs name empty_graph = (idx, g1) ->
       merge_models registry replaces R g1 = Some (g2, reps) ->
       closed g2 /\
       gwf g2 /\
       Forall (fun s : list (str * json) => htg accepts (fields_of g2) false (JObj s) (TPtr (rho reps idx)))
         samples.
Proof. exact GraphSound.pipeline_sound_strict. Qed.

Theorem C01_proc_sound :
  forall (accepts : pseudo -> str -> bool) (t : ty) (par : option (N * str)) 
         (g : graph) (t' : ty) (g' : graph),
       proc t par g = (t', g') ->
       okt0 t = true ->
       ptrs_of t = nil ->
       gwf g ->
       (nxt g <= nxt g')%N /\
       gwf g' /\
       gok t' = true /\
       (forall i : N, (i < nxt g)%N -> fields_of g' i = fields_of g i) /\
       (forall (mf0 : N -> option fields) (uk : bool) (v : json),
        htg accepts mf0 uk v t -> htg accepts (fields_of g') uk v t') /\
       (forall (mf0 : N -> option fields) (v : json), ht accepts mf0 v t -> ht accepts (fields_of g') v t').
Proof. exact GraphSound.proc_sound. Qed.

Theorem C01_process_root_sound :
  forall (accepts : pseudo -> str -> bool) (fs : fields) (name : option str) 
         (g : graph) (idx : N) (g1 : graph),
       process_root fs name g = (idx, g1) ->
       okt0 (TObj fs) = true ->
       fptrs fs = nil ->
       closed g ->
       gwf g ->
       closed g1 /\
       gwf g1 /\
       idx = nxt g /\
       (forall i : N, (i < nxt g)%N -> fields_of g1 i = fields_of g i) /\
       (forall (mf0 : N -> option fields) (uk : bool) (l : list (str * json)),
        htg accepts mf0 uk (JObj l) (TObj fs) -> htg accepts (fields_of g1) uk (JObj l) (TPtr idx)).
Proof. exact GraphSound.process_root_sound. Qed.

Theorem C01_ptr_eq_g_sound :
  forall (accepts : pseudo -> str -> bool) (uk : bool) (g : graph),
       gwf g ->
       forall (fuel : nat) (i j : N),
       ptr_eq_g g fuel i j = true ->
       forall v : json, htg accepts (fields_of g) uk v (TPtr i) <-> htg accepts (fields_of g) uk v (TPtr j).
Proof. exact GraphSound.ptr_eq_g_sound. Qed.

Theorem C01_opt_model_sound :
  forall (accepts : pseudo -> str -> bool) (registry : list pseudo) (replaces : list (pseudo * pseudo)),
       (forall a b : pseudo, In (a, b) replaces -> forall s : str, accepts a s = true -> accepts b s = true) ->
       forall rank : pseudo -> nat,
       forallb (fun pq : pseudo * pseudo => pseudo_eqb (fst pq) (snd pq) || (rank (fst pq) <? rank (snd pq)))
         replaces = true ->
       forall (g : graph) (i : N) (g' : graph),
       gwf g ->
       opt_model registry replaces g i = Some g' ->
       gwf g' /\
       (forall (v : json) (t : ty),
        htg accepts (fields_of g) false v t -> htg accepts (fields_of g') false v t).
Proof. exact GraphSound.opt_model_sound. Qed.

Theorem C01_merge_group_sound :
  forall (accepts : pseudo -> str -> bool) (registry : list pseudo) (replaces : list (pseudo * pseudo)),
       (forall a b : pseudo, In (a, b) replaces -> forall s : str, accepts a s = true -> accepts b s = true) ->
       forall rank : pseudo -> nat,
       forallb (fun pq : pseudo * pseudo => pseudo_eqb (fst pq) (snd pq) || (rank (fst pq) <? rank (snd pq)))
         replaces = true ->
       forall (g : graph) (mbs : list N) (g' : graph),
       closed g ->
       gwf g ->
       merge_group registry replaces g mbs = Some g' ->
       gwf g' /\
       (forall (v : json) (t : ty),
        htg accepts (fields_of g) false v t -> htg accepts (fields_of g') false v (rename mbs (nxt g) t)).
Proof. exact GraphSound.merge_group_sound. Qed.

Theorem C01_merge_models_sound :
  forall (accepts : pseudo -> str -> bool) (registry : list pseudo) (replaces : list (pseudo * pseudo)),
       (forall a b : pseudo, In (a, b) replaces -> forall s : str, accepts a s = true -> accepts b s = true) ->
       forall rank : pseudo -> nat,
       forallb (fun pq : pseudo * pseudo => pseudo_eqb (fst pq) (snd pq) || (rank (fst pq) <? rank (snd pq)))
         replaces = true ->
       forall (R : nat -> nat -> bool) (g g' : graph) (reps : list (N * list N)),
       closed g ->
       gwf g ->
       merge_models registry replaces R g = Some (g', reps) ->
       closed g' /\
       gwf g' /\
       (forall (v : json) (i : N),
        htg accepts (fields_of g) false v (TPtr i) -> htg accepts (fields_of g') false v (TPtr (rho reps i))).
Proof. exact GraphSound.merge_models_sound. Qed.

Theorem C01_merge_group_any_refuted :
  closed ExAny.g0 /\
       gwf ExAny.g0 /\
       merge_group nil nil ExAny.g0 (0%N :: 1%N :: nil) = Some ExAny.g0' /\
       ht (fun (_ : pseudo) (_ : str) => false) (fields_of ExAny.g0) ExAny.v0 (TPtr 0) /\
       ~
       ht (fun (_ : pseudo) (_ : str) => false) (fields_of ExAny.g0') ExAny.v0
         (rename (0%N :: 1%N :: nil) 2 (TPtr 0)).
Proof. exact GraphSound.ExAny.merge_group_any_refuted. Qed.

Theorem C01_example_sibling_merge :
  Forall (fun s : list (str * json) => ht Ex.acc0 (fields_of Ex.g_sib) (JObj s) (TPtr 0)) Ex.samples.
Proof. exact GraphSound.Ex.sib_sound. Qed.

Theorem C01_example_root_merge_cyclic :
  Forall (fun s : list (str * json) => ht Ex.acc0 (fields_of Ex.g_root) (JObj s) (TPtr 3)) Ex.samples.
Proof. exact GraphSound.Ex.root_merge_sound. Qed.

