(* Props/C01.v — generated models accept every sample they were inferred from.  Statements only; proofs in Proofs/Sound.v.
   ht = value semantics of the type IR (Sem/HasType.v).  Proved: the whole inference stage (detect, union construction,
   field-set merge, simplification, generate) and the model-merging step (merge followed by optimize) admit every
   object they were inferred from.  htg ... false is the strict reading in which Any admits nothing (it only ever types
   the elements of containers observed empty); it implies ht.  The last mile (emitted text -> classes -> pydantic /
   attrs / dataclasses acceptance) is tied by X-emit and judged by the oracle, not proved. *)
From Coq Require Import List Bool Arith NArith.
From J2M.Model Require Import Base Union Merge Optimize Detect.
From J2M.Sem Require Import HasType NF.
From J2M.Proofs Require Import Sound.

Theorem C01_detect_sound :
  forall (accepts : pseudo -> str -> bool) (mf : N -> option fields) (registry : list pseudo)
         (n_regex : nat) (key_matches : nat -> str -> bool) (dict_fields : list str) 
         (cd : bool) (v : json),
       wf_json v = true -> ht accepts mf v (detect registry accepts n_regex key_matches dict_fields cd v).
Proof. exact Sound.detect_sound. Qed.

Theorem C01_convert_sound :
  forall (accepts : pseudo -> str -> bool) (mf : N -> option fields) (registry : list pseudo)
         (n_regex : nat) (key_matches : nat -> str -> bool) (dict_fields : list str)
         (kvs : list (str * json)),
       wf_json (JObj kvs) = true ->
       obj_ok accepts mf (convert registry accepts n_regex key_matches dict_fields kvs) kvs.
Proof. exact Sound.convert_sound. Qed.

Theorem C01_mk_union_sound :
  forall (accepts : pseudo -> str -> bool) (mf : N -> option fields) (v : json) (ts : list ty),
       Exists (ht accepts mf v) ts -> Exists (ht accepts mf v) (mk_union ts).
Proof. exact Sound.mk_union_sound_ht. Qed.

Theorem C01_merge_field_sets_sound :
  forall (accepts : pseudo -> str -> bool) (mf : N -> option fields) (peq : N -> N -> bool)
         (sets : list fields) (objs : list (list (str * json))),
       (forall i j : N,
        peq i j = true -> forall v : json, ht accepts mf v (TPtr i) <-> ht accepts mf v (TPtr j)) ->
       Forall2 (fun (fs : fields) (l : list (str * json)) => obj_ok accepts mf fs l) sets objs ->
       Forall (fun fs : fields => okf fs = true) sets ->
       Forall (fun fs : fields => no_opt fs = true) (tl sets) ->
       Forall (obj_ok accepts mf (merge_field_sets peq sets)) objs.
Proof. exact Sound.merge_field_sets_sound_ht. Qed.

Theorem C01_optimize_sound_strict :
  forall (accepts : pseudo -> str -> bool) (mf : N -> option fields) (registry : list pseudo)
         (replaces : list (pseudo * pseudo)) (peq : N -> N -> bool),
       (forall i j : N,
        peq i j = true ->
        forall v : json, htg accepts mf false v (TPtr i) <-> htg accepts mf false v (TPtr j)) ->
       (forall a b : pseudo, In (a, b) replaces -> forall s : str, accepts a s = true -> accepts b s = true) ->
       forall rank : pseudo -> nat,
       forallb (fun pq : pseudo * pseudo => pseudo_eqb (fst pq) (snd pq) || (rank (fst pq) <? rank (snd pq)))
         replaces = true ->
       forall (fuel : nat) (t t' : ty),
       okT t = true ->
       optimize registry replaces peq fuel t = Some t' ->
       forall v : json, htg accepts mf false v t -> htg accepts mf false v t'.
Proof. exact Sound.optimize_sound_strict. Qed.

Theorem C01_generate_sound :
  forall (accepts : pseudo -> str -> bool) (mf : N -> option fields) (registry : list pseudo)
         (replaces : list (pseudo * pseudo)) (n_regex : nat) (key_matches : nat -> str -> bool)
         (dict_fields : list str),
       (forall a b : pseudo, In (a, b) replaces -> forall s : str, accepts a s = true -> accepts b s = true) ->
       forall rank : pseudo -> nat,
       forallb (fun pq : pseudo * pseudo => pseudo_eqb (fst pq) (snd pq) || (rank (fst pq) <? rank (snd pq)))
         replaces = true ->
       forall (fuel : nat) (samples : list (list (str * json))) (fs : fields),
       Forall (fun s : list (str * json) => wf_json (JObj s) = true) samples ->
       generate registry replaces accepts n_regex key_matches dict_fields fuel samples = Some fs ->
       Forall (fun s : list (str * json) => ht accepts mf (JObj s) (TObj fs)) samples.
Proof. exact Sound.generate_sound. Qed.

Theorem C01_merge_optimize_sound :
  forall (accepts : pseudo -> str -> bool) (mf : N -> option fields) (registry : list pseudo)
         (replaces : list (pseudo * pseudo)) (peq : N -> N -> bool),
       (forall i j : N,
        peq i j = true ->
        forall v : json, htg accepts mf false v (TPtr i) <-> htg accepts mf false v (TPtr j)) ->
       (forall a b : pseudo, In (a, b) replaces -> forall s : str, accepts a s = true -> accepts b s = true) ->
       forall rank : pseudo -> nat,
       forallb (fun pq : pseudo * pseudo => pseudo_eqb (fst pq) (snd pq) || (rank (fst pq) <? rank (snd pq)))
         replaces = true ->
       forall (sets : list fields) (fuel : nat) (fs' : fields),
       Forall (fun fs : fields => okf fs = true) sets ->
       optimize_fields registry replaces peq fuel (merge_field_sets peq sets) = Some fs' ->
       forall (fs : fields) (l : list (str * json)),
       In fs sets -> obj_okg accepts mf false fs l -> obj_okg accepts mf false fs' l.
Proof. exact Sound.merge_optimize_sound. Qed.

Theorem C01_merge_optimize_sound_ht :
  forall (accepts : pseudo -> str -> bool) (mf : N -> option fields) (registry : list pseudo)
         (replaces : list (pseudo * pseudo)) (peq : N -> N -> bool),
       (forall i j : N,
        peq i j = true -> forall v : json, ht accepts mf v (TPtr i) <-> ht accepts mf v (TPtr j)) ->
       (forall a b : pseudo, In (a, b) replaces -> forall s : str, accepts a s = true -> accepts b s = true) ->
       forall rank : pseudo -> nat,
       forallb (fun pq : pseudo * pseudo => pseudo_eqb (fst pq) (snd pq) || (rank (fst pq) <? rank (snd pq)))
         replaces = true ->
       (forall (i : N) (fs : fields), mf i = Some fs -> nounk (TObj fs) = true) ->
       forall (sets : list fields) (fuel : nat) (fs' : fields),
       Forall (fun fs : fields => okf fs = true) sets ->
       Forall (fun fs : list (str * ty) => nounk (TObj fs) = true) sets ->
       optimize_fields registry replaces peq fuel (merge_field_sets peq sets) = Some fs' ->
       forall (fs : fields) (l : list (str * json)),
       In fs sets -> obj_ok accepts mf fs l -> obj_ok accepts mf fs' l.
Proof. exact Sound.merge_optimize_sound_ht. Qed.

Theorem C01_htg_ht :
  forall (accepts : pseudo -> str -> bool) (mf : N -> option fields) (uk : bool) (v : json) (t : ty),
       htg accepts mf uk v t -> ht accepts mf v t.
Proof. exact Sound.htg_ht. Qed.

Theorem C01_optimize_any_refuted :
  let t := TUnion (TList TUnknown :: TList TInt :: nil) in
       optimize nil nil N.eqb 5 t = Some (TList TInt) /\
       ht (fun (_ : pseudo) (_ : str) => false) (fun _ : N => None) (JArr (JStr nil :: nil)) t /\
       ~ ht (fun (_ : pseudo) (_ : str) => false) (fun _ : N => None) (JArr (JStr nil :: nil)) (TList TInt).
Proof. exact Sound.optimize_any_refuted_raw. Qed.

Theorem C01_merge_opt_refuted :
  let a := 97%N :: nil in
       let sets := ((a, TInt) :: nil) :: ((a, TOpt TStr) :: nil) :: nil in
       let objs := ((a, JInt (Zpos 1)) :: nil) :: nil :: nil in
       merge_field_sets N.eqb sets = (a, TUnion (TOpt TStr :: TInt :: nil)) :: nil /\
       Forall2
         (fun (fs : fields) (l : list (str * json)) =>
          obj_ok (fun (_ : pseudo) (_ : str) => false) (fun _ : N => None) fs l) sets objs /\
       ~
       Forall
         (obj_ok (fun (_ : pseudo) (_ : str) => false) (fun _ : N => None) (merge_field_sets N.eqb sets))
         objs.
Proof. exact Sound.merge_opt_refuted. Qed.

