(* Props/C09.v — string pseudo-types are detected soundly (detection order, resolution, disabled types).
   Statements only; proofs in Proofs/StrTypes.v.  The parse/render/parse round trip of float and date/time values
   is oracle-only (CPython dtoa, dateutil): tied by X-strtypes, not proved (DESIGN 6, C09). *)
From Coq Require Import List Bool Arith NArith.
From J2M.Model Require Import Base Union Merge Optimize Detect.
From J2M.Proofs Require Import StrTypes.

Theorem C09_detect_first_match :
  forall (registry : list pseudo) (accepts : pseudo -> str -> bool) (s : str) (p : pseudo),
       detect_str registry accepts s = TPseudo p <->
       (exists pre post : list pseudo,
          registry = pre ++ p :: post /\
          accepts p s = true /\ Forall (fun q : pseudo => accepts q s = false) pre).
Proof. exact StrTypes.detect_first_match. Qed.

Theorem C09_resolve_sound :
  forall (replaces : list (pseudo * pseudo)) (accepts : pseudo -> str -> bool),
       sound replaces accepts ->
       acyclic replaces ->
       forall (fuel : nat) (ps : list pseudo) (p : pseudo),
       In p ps ->
       exists q : pseudo,
         In q (resolve replaces fuel ps) /\ (forall s : str, accepts p s = true -> accepts q s = true).
Proof. exact StrTypes.resolve_sound. Qed.

Theorem C09_resolve_nonempty :
  forall replaces : list (pseudo * pseudo),
       acyclic replaces ->
       forall (fuel : nat) (ps : list pseudo), ps <> nil -> resolve replaces fuel ps <> nil.
Proof. exact StrTypes.resolve_nonempty. Qed.

Theorem C09_resolve_incl :
  forall (replaces : list (pseudo * pseudo)) (fuel : nat) (ps : list pseudo),
       incl (resolve replaces fuel ps) ps.
Proof. exact StrTypes.resolve_incl. Qed.

Theorem C09_str_result_sound :
  forall (registry : list pseudo) (replaces : list (pseudo * pseudo)) (accepts : pseudo -> str -> bool)
         (strs : list ty),
       sound replaces accepts ->
       acyclic replaces ->
       Forall (fun t : ty => in_reg registry t = true) strs ->
       forall (t : ty) (s : str),
       In t strs ->
       ht_str accepts s t -> exists r : ty, In r (str_result replaces strs) /\ ht_str accepts s r.
Proof. exact StrTypes.str_result_sound. Qed.

Theorem C09_str_result_shape :
  forall (replaces : list (pseudo * pseudo)) (strs : list ty),
       (str_result replaces strs = nil <-> strs = nil) /\
       (str_result replaces strs = nil \/
        str_result replaces strs = TStr :: nil \/
        (exists p : pseudo, str_result replaces strs = TPseudo p :: nil /\ In (TPseudo p) strs)).
Proof. exact StrTypes.str_result_shape. Qed.

Theorem C09_default_replaces_acyclic :
  acyclic ((PInt, PFloat) :: nil).
Proof. exact StrTypes.default_replaces_acyclic. Qed.

Theorem C09_resolve_cyclic_refuted :
  resolve ((PInt, PFloat) :: (PFloat, PInt) :: nil) 3 (PInt :: PFloat :: nil) = nil.
Proof. exact StrTypes.resolve_cyclic_empty. Qed.

Theorem C09_detect_no_disabled :
  forall (p : pseudo) (registry : list pseudo) (accepts : pseudo -> str -> bool) 
         (n_regex : nat) (key_matches : nat -> str -> bool) (dict_fields : list str),
       ~ In p registry ->
       forall (v : json) (cd : bool),
       mentions p (detect registry accepts n_regex key_matches dict_fields cd v) = false.
Proof. exact StrTypes.detect_no_disabled. Qed.

Theorem C09_optimize_no_disabled :
  forall (p : pseudo) (registry : list pseudo) (replaces : list (pseudo * pseudo))
         (ptr_eq : N -> N -> bool) (fuel : nat) (t t' : ty),
       optimize registry replaces ptr_eq fuel t = Some t' -> nom p t -> nom p t'.
Proof. exact StrTypes.optimize_no_disabled. Qed.

Theorem C09_generate_no_disabled :
  forall (p : pseudo) (registry : list pseudo) (replaces : list (pseudo * pseudo))
         (accepts : pseudo -> str -> bool) (n_regex : nat) (key_matches : nat -> str -> bool)
         (dict_fields : list str) (fuel : nat) (samples : list (list (str * json))) 
         (fs : fields),
       ~ In p registry ->
       generate registry replaces accepts n_regex key_matches dict_fields fuel samples = Some fs ->
       mentions p (TObj fs) = false.
Proof. exact StrTypes.generate_no_disabled. Qed.


(* (T) the registry regenerated from the source: registration order, replace pairs, acyclicity *)
From J2M.Gen Require StrReg.
Theorem C09_link_default_registry : StrReg.default_registry = (PInt :: PFloat :: PBool :: nil).
Proof. reflexivity. Qed.
Theorem C09_link_default_replaces_acyclic : acyclic StrReg.default_replaces.
Proof. exact StrTypes.default_replaces_acyclic. Qed.
Theorem C09_link_datetime_registration : StrReg.datetime_registration = (PDate :: PTime :: PDatetime :: nil).
Proof. reflexivity. Qed.
