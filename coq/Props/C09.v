(* Props/C09.v — string pseudo-types are detected soundly (detection order, resolution, disabled types).
   Statements only; proofs in Proofs/StrTypes.v, Proofs/GrammarProps.v, Proofs/GrammarLink.v.
   PART 1: for ANY acceptance oracle and replacement table: detection returns the first accepting registered type;
   resolution keeps, for every member, a survivor accepting everything the member accepts (premises: the table is sound
   for the oracle and acyclic); disabled types never appear.
   PART 2 (grammars): int_ok / float_ok / bool_ok (Model/Grammar.v) are explicit recognisers of what CPython's int(),
   float() and the lower-case boolean rule accept (tied by X-grammar: tools/validate_grammar.py, exhaustive short strings +
   structured random ones, every run).  C09_int_ok_float_ok: EVERY string int() accepts is accepted by float() — the fact
   the shipped replacement (IntString -> FloatString) relies on; C09_default_replaces_sound discharges the soundness
   premise of PART 1 for the table regenerated from the source, C09_resolve_sound_default is the resulting premise-free
   theorem.  Booleans are disjoint from both.
   NOT PROVED: the parse/render/parse round trip of float and date/time VALUES (CPython dtoa, dateutil) is oracle-only;
   the 4300-digit limit of int() is not modelled (it only shrinks what int() accepts). *)
From Coq Require Import List Bool Arith NArith.
From J2M.Model Require Import Base Union Merge Optimize Detect.
From J2M.Proofs Require Import StrTypes.

Theorem C09_detect_first_match :
  forall (registry : list pseudo) (accepts : pseudo -> str -> bool) (s : str) (p : pseudo),
       detect_str registry accepts s = TPseudo p <->
       (exists pre post : list pseudo,
          registry = pre ++ p :: post /\
          accepts p s = true /\ Forall (fun q : pseudo => accepts q s = false) pre).
Proof. exact StrTypes.detect_first_match. Qed.

Theorem C09_resolve_sound :
  forall (replaces : list (pseudo * pseudo)) (accepts : pseudo -> str -> bool),
       sound replaces accepts ->
       acyclic replaces ->
       forall (fuel : nat) (ps : list pseudo) (p : pseudo),
       In p ps ->
       exists q : pseudo,
         In q (resolve replaces fuel ps) /\ (forall s : str, accepts p s = true -> accepts q s = true).
Proof. exact StrTypes.resolve_sound. Qed.

Theorem C09_resolve_nonempty :
  forall replaces : list (pseudo * pseudo),
       acyclic replaces ->
       forall (fuel : nat) (ps : list pseudo), ps <> nil -> resolve replaces fuel ps <> nil.
Proof. exact StrTypes.resolve_nonempty. Qed.

Theorem C09_resolve_incl :
  forall (replaces : list (pseudo * pseudo)) (fuel : nat) (ps : list pseudo),
       incl (resolve replaces fuel ps) ps.
Proof. exact StrTypes.resolve_incl. Qed.

Theorem C09_str_result_sound :
  forall (registry : list pseudo) (replaces : list (pseudo * pseudo)) (accepts : pseudo -> str -> bool)
         (strs : list ty),
       sound replaces accepts ->
       acyclic replaces ->
       Forall (fun t : ty => in_reg registry t = true) strs ->
       forall (t : ty) (s : str),
       In t strs ->
       ht_str accepts s t -> exists r : ty, In r (str_result replaces strs) /\ ht_str accepts s r.
Proof. exact StrTypes.str_result_sound. Qed.

Theorem C09_str_result_shape :
  forall (replaces : list (pseudo * pseudo)) (strs : list ty),
       (str_result replaces strs = nil <-> strs = nil) /\
       (str_result replaces strs = nil \/
        str_result replaces strs = TStr :: nil \/
        (exists p : pseudo, str_result replaces strs = TPseudo p :: nil /\ In (TPseudo p) strs)).
Proof. exact StrTypes.str_result_shape. Qed.

Theorem C09_default_replaces_acyclic :
  acyclic ((PInt, PFloat) :: nil).
Proof. exact StrTypes.default_replaces_acyclic. Qed.

Theorem C09_resolve_cyclic_refuted :
  resolve ((PInt, PFloat) :: (PFloat, PInt) :: nil) 3 (PInt :: PFloat :: nil) = nil.
Proof. exact StrTypes.resolve_cyclic_empty. Qed.

Theorem C09_detect_no_disabled :
  forall (p : pseudo) (registry : list pseudo) (accepts : pseudo -> str -> bool) 
         (n_regex : nat) (key_matches : nat -> str -> bool) (dict_fields : list str),
       ~ In p registry ->
       forall (v : json) (cd : bool),
       mentions p (detect registry accepts n_regex key_matches dict_fields cd v) = false.
Proof. exact StrTypes.detect_no_disabled. Qed.

Theorem C09_optimize_no_disabled :
  forall (p : pseudo) (registry : list pseudo) (replaces : list (pseudo * pseudo))
         (ptr_eq : N -> N -> bool) (fuel : nat) (t t' : ty),
       optimize registry replaces ptr_eq fuel t = Some t' -> nom p t -> nom p t'.
Proof. exact StrTypes.optimize_no_disabled. Qed.

Theorem C09_generate_no_disabled :
  forall (p : pseudo) (registry : list pseudo) (replaces : list (pseudo * pseudo))
         (accepts : pseudo -> str -> bool) (n_regex : nat) (key_matches : nat -> str -> bool)
         (dict_fields : list str) (fuel : nat) (samples : list (list (str * json))) 
         (fs : fields),
       ~ In p registry ->
       generate registry replaces accepts n_regex key_matches dict_fields fuel samples = Some fs ->
       mentions p (TObj fs) = false.
Proof. exact StrTypes.generate_no_disabled. Qed.


(* (T) the registry regenerated from the source: registration order, replace pairs, acyclicity *)
From J2M.Gen Require StrReg.
Theorem C09_link_default_registry : StrReg.default_registry = (PInt :: PFloat :: PBool :: nil).
Proof. reflexivity. Qed.
Theorem C09_link_default_replaces_acyclic : acyclic StrReg.default_replaces.
Proof. exact StrTypes.default_replaces_acyclic. Qed.
Theorem C09_link_datetime_registration : StrReg.datetime_registration = (PDate :: PTime :: PDatetime :: nil).
Proof. reflexivity. Qed.

(* ---- PART 2: grammars ---- *)
From J2M.Model Require Import Grammar.
From J2M.Gen Require Import StrReg.
From J2M.Proofs Require Import GrammarProps GrammarLink.

Theorem C09_int_ok_float_ok :
  forall (is_space_c : N -> bool) (digit_val_c : N -> option N) (s : str),
       int_ok is_space_c digit_val_c s = true -> float_ok is_space_c digit_val_c s = true.
Proof. exact GrammarProps.int_ok_float_ok. Qed.

Theorem C09_int_or_float_is_float :
  forall (is_space_c : N -> bool) (digit_val_c : N -> option N) (s : str),
       int_ok is_space_c digit_val_c s || float_ok is_space_c digit_val_c s =
       float_ok is_space_c digit_val_c s.
Proof. exact GrammarProps.int_or_float_is_float. Qed.

Theorem C09_default_replaces_sound :
  forall (is_space_c : N -> bool) (digit_val_c : N -> option N) (lower_c : N -> str)
         (other : pseudo -> str -> bool),
       sound default_replaces (grammar_accepts is_space_c digit_val_c lower_c other).
Proof. exact GrammarLink.default_replaces_sound. Qed.

Theorem C09_float_not_int :
  let i := int_ok no_space no_digit in
       let f := float_ok no_space no_digit in
       (f (49%N :: 46%N :: 53%N :: nil) = true /\ i (49%N :: 46%N :: 53%N :: nil) = false) /\
       (f (49%N :: 101%N :: 51%N :: nil) = true /\ i (49%N :: 101%N :: 51%N :: nil) = false) /\
       (f (105%N :: 110%N :: 102%N :: nil) = true /\ i (105%N :: 110%N :: 102%N :: nil) = false) /\
       (f (49%N :: 46%N :: nil) = true /\ i (49%N :: 46%N :: nil) = false) /\
       (f (46%N :: 53%N :: nil) = true /\ i (46%N :: 53%N :: nil) = false) /\
       (f (45%N :: 78%N :: 97%N :: 78%N :: nil) = true /\ i (45%N :: 78%N :: 97%N :: 78%N :: nil) = false) /\
       f (49%N :: 95%N :: 48%N :: 46%N :: 53%N :: 95%N :: 48%N :: nil) = true /\
       i (49%N :: 95%N :: 48%N :: 46%N :: 53%N :: 95%N :: 48%N :: nil) = false.
Proof. exact GrammarProps.float_not_int. Qed.

Theorem C09_bool_not_int :
  forall (is_space_c : N -> bool) (digit_val_c : N -> option N) (lower_c : N -> str),
       (forall c : N,
        int_alpha (norm_c is_space_c digit_val_c c) = true ->
        ~ In 116%N (lower_c c) /\ ~ In 102%N (lower_c c)) ->
       forall s : str, bool_ok lower_c s = true -> int_ok is_space_c digit_val_c s = false.
Proof. exact GrammarProps.bool_not_int. Qed.

Theorem C09_bool_not_float :
  forall (is_space_c : N -> bool) (digit_val_c : N -> option N) (lower_c : N -> str),
       (forall c : N,
        float_alpha (norm_c is_space_c digit_val_c c) = true ->
        lower_c c = (if (c <? 127)%N then g_lower c else c) :: nil) ->
       forall s : str, bool_ok lower_c s = true -> float_ok is_space_c digit_val_c s = false.
Proof. exact GrammarProps.bool_not_float. Qed.

Theorem C09_int_ok_strip :
  forall (is_space_c : N -> bool) (digit_val_c : N -> option N) (ws1 s ws2 : list N),
       Forall (fun c : N => strip_c is_space_c digit_val_c c = true) ws1 ->
       Forall (fun c : N => strip_c is_space_c digit_val_c c = true) ws2 ->
       int_ok is_space_c digit_val_c (ws1 ++ s ++ ws2) = int_ok is_space_c digit_val_c s.
Proof. exact GrammarProps.int_ok_strip. Qed.

Theorem C09_float_ok_strip :
  forall (is_space_c : N -> bool) (digit_val_c : N -> option N) (ws1 s ws2 : list N),
       Forall (fun c : N => strip_c is_space_c digit_val_c c = true) ws1 ->
       Forall (fun c : N => strip_c is_space_c digit_val_c c = true) ws2 ->
       float_ok is_space_c digit_val_c (ws1 ++ s ++ ws2) = float_ok is_space_c digit_val_c s.
Proof. exact GrammarProps.float_ok_strip. Qed.

Theorem C09_resolve_sound_default :
  forall (is_space_c : N -> bool) (digit_val_c : N -> option N) (lower_c : N -> str)
         (other : pseudo -> str -> bool) (fuel : nat) (ps : list pseudo) (p : pseudo),
       In p ps ->
       exists q : pseudo,
         In q (resolve default_replaces fuel ps) /\
         (forall s : str,
          grammar_accepts is_space_c digit_val_c lower_c other p s = true ->
          grammar_accepts is_space_c digit_val_c lower_c other q s = true).
Proof. exact GrammarLink.resolve_sound_default. Qed.

