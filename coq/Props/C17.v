(* Props/C17.v — a failing run reports failure and leaves existing output untouched.
   Gen/Cli.v is regenerated from the statement order of cli.py:main / Cli.parse_args / Cli.run on every run. *)
From Coq Require Import List Bool Arith NArith.
From J2M.Model Require Import Base Cli.
From J2M.Gen Require Cli.
Import ListNotations.

(* (T) the effect order of the code that exists now satisfies the atomicity shape: nothing is truncated, written or
   printed before the last operation that can fail, the text is complete before the file is opened *)
Theorem C17_cli_ops_atomic_file : atomicb (Gen.Cli.cli_ops true) = true.
Proof. vm_compute. reflexivity. Qed.
Theorem C17_cli_ops_atomic_stdout : atomicb (Gen.Cli.cli_ops false) = true.
Proof. vm_compute. reflexivity. Qed.
Theorem C17_link_ops : Gen.Cli.parse_args_ops = [ParseArgv; MutateDefaultRegistry; LoadSamples; Validate; SetArgs]
  /\ Gen.Cli.run_ops_common = [MutateDefaultRegistry; Generate; Generate; Generate; Generate; Generate; Generate; BuildText].
Proof. split; reflexivity. Qed.
(* opening the file before generating would not be atomic *)
Example C17_reordered_not_atomic :
  atomicb [ParseArgv; LoadSamples; OpenTruncate; Generate; BuildText; WriteAll; ReturnMsg; Print] = false.
Proof. vm_compute. reflexivity. Qed.
