(* Props/C17.v — a failing run reports failure and leaves existing output untouched.
   Gen/Cli.v is regenerated from the statement order of cli.py:main / Cli.parse_args / Cli.run on every run. *)
From Coq Require Import List Bool Arith NArith.
From J2M.Model Require Import Base Cli.
From J2M.Gen Require Cli.
From J2M.Proofs Require Import CliProps.
Import ListNotations.

(* (T) the effect order of the code that exists now satisfies the atomicity shape: nothing is truncated, written or
   printed before the last operation that can fail, the text is complete before the file is opened *)
Theorem C17_cli_ops_atomic_file : atomicb (Gen.Cli.cli_ops true) = true.
Proof. vm_compute. reflexivity. Qed.
Theorem C17_cli_ops_atomic_stdout : atomicb (Gen.Cli.cli_ops false) = true.
Proof. vm_compute. reflexivity. Qed.
Theorem C17_link_ops : Gen.Cli.parse_args_ops = [ParseArgv; MutateDefaultRegistry; LoadSamples; Validate; SetArgs]
  /\ Gen.Cli.run_ops_common = [MutateDefaultRegistry; Generate; Generate; Generate; Generate; Generate; Generate; BuildText].
Proof. split; reflexivity. Qed.
(* opening the file before generating would not be atomic *)
Example C17_reordered_not_atomic :
  atomicb [ParseArgv; LoadSamples; OpenTruncate; Generate; BuildText; WriteAll; ReturnMsg; Print] = false.
Proof. vm_compute. reflexivity. Qed.

(* ---- for ALL fault schedules (Proofs/CliProps.v) ---- *)
Theorem C17_atomic_failure :
  forall (full : str) (faults : nat -> bool) (ops : list op) (file0 : option str),
       atomicb ops = true ->
       failed (run_ops full faults ops file0) = true ->
       file (run_ops full faults ops file0) = file0 /\ stdout (run_ops full faults ops file0) = nil.
Proof. exact CliProps.atomic_failure. Qed.

Theorem C17_atomic_success :
  forall (full : str) (faults : nat -> bool) (ops : list op) (file0 : option str),
       atomicb ops = true ->
       failed (run_ops full faults ops file0) = false ->
       file (run_ops full faults ops file0) = (if existsb is_write ops then Some full else file0) /\
       Forall (good_line full) (stdout (run_ops full faults ops file0)).
Proof. exact CliProps.atomic_success. Qed.

Theorem C17_main_ops_atomic :
  forall (pa rc rc' : list op) (b : bool),
       forallb pure_op pa = true ->
       rc = rc' ++ BuildText :: nil -> forallb pure_op rc' = true -> atomicb (main_ops pa rc b) = true.
Proof. exact CliProps.main_ops_atomic. Qed.

Theorem C17_main :
  forall (full : str) (faults : nat -> bool) (pa rc rc' : list op) (b : bool) (file0 : option str),
       forallb pure_op pa = true ->
       rc = rc' ++ BuildText :: nil ->
       forallb pure_op rc' = true ->
       let st := run_ops full faults (main_ops pa rc b) file0 in
       if failed st
       then file st = file0 /\ stdout st = nil
       else
        if b
        then file st = Some full /\ stdout st = MSG :: nil
        else file st = file0 /\ stdout st = full :: nil.
Proof. exact CliProps.C17_main. Qed.

Theorem C17_reordered_refuted :
  forall full old : str,
       atomicb reordered_ops = false /\
       (exists faults : nat -> bool,
          failed (run_ops full faults reordered_ops (Some old)) = true /\
          file (run_ops full faults reordered_ops (Some old)) = Some nil).
Proof. exact CliProps.reordered_refuted. Qed.

