(* Props/C14.v — a generation is independent of what the process did before.
   This revision: (T) the package's module- and class-level objects are the reviewed ones and exactly two of them carry
   state (Gen/Globals.v: the default string registry and the thread-local reference context); class-name conversion,
   the only thing rendering writes into a registry, is idempotent (Proofs/LabelProps.v).  The state-machine theorems
   (render_restores, failed_render_harmless, ...) are merged from Proofs/CtxProps.v when finished. *)
From Coq Require Import List Bool Arith NArith String.
From J2M.Model Require Import Base Label Emit Ctx.
From J2M.Gen Require Globals Labels.
From J2M.Proofs Require Import LabelProps CtxProps.
Import ListNotations.
Theorem C14_global_cells_link :
  Globals.global_cells = [s_ "dynamic_typing/models_meta.py:AbsoluteModelRef.Context.data"; s_ "dynamic_typing/string_serializable.py:registry"].
Proof. reflexivity. Qed.
Theorem C14_convert_class_name_idem :
  forall (unidecode_c : N -> str) (is_word_c : N -> bool) (is_decimal_c : N -> bool) (lower_c : N -> str),
  is_word_c 95%N = true -> (forall c, ascii_lower c = true -> is_word_c c = true) ->
  (forall c, (c < 128)%N -> unidecode_c c = [c]) -> (forall c d, In d (unidecode_c c) -> (d < 128)%N) ->
  forall cu s l,
  prepare_label unidecode_c is_word_c is_decimal_c lower_c Labels.blacklist Labels.ones cu false s = Some l ->
  prepare_label unidecode_c is_word_c is_decimal_c lower_c Labels.blacklist Labels.ones cu false l = Some l.
Proof. exact LabelProps.convert_idem_real. Qed.

(* ---- the state machines (Proofs/CtxProps.v) ---- *)
Theorem C14_render_restores_ctx :
  forall (st : tstate) (t : tid) (c : nat) (p : ctxmap) (k : nat),
       let st' := trun_from st (render_events t c p k) in
       (forall t' : tid, tls_get (slots st') t' = tls_get (slots st) t') /\
       reads st' = reads st ++ repeat (t, Some p) k /\ saved st' = (c, tls_get (slots st) t) :: saved st.
Proof. exact CtxProps.render_restores. Qed.

Theorem C14_render_reads_patched :
  forall (st : tstate) (t : tid) (c : nat) (p : ctxmap) (k : nat),
       reads_of t (trun_from st (render_events t c p k)) = reads_of t st ++ repeat (Some p) k.
Proof. exact CtxProps.render_reads_patched. Qed.

Theorem C14_convert_all_idem :
  forall conv : str -> option str,
       (forall s l : str, conv s = Some l -> conv l = Some l) ->
       forall ns ns' : names, convert_all conv ns = Some ns' -> convert_all conv ns' = Some ns'.
Proof. exact CtxProps.convert_all_idem. Qed.

Theorem C14_failed_render_same :
  forall conv : str -> option str,
       (forall s l : str, conv s = Some l -> conv l = Some l) ->
       forall (k : nat) (ns ns1 : names),
       convert_prefix conv k ns = Some ns1 -> convert_all conv ns1 = convert_all conv ns.
Proof. exact CtxProps.failed_render_same. Qed.

Theorem C14_render_twice_after_partial :
  forall conv : str -> option str,
       (forall s l : str, conv s = Some l -> conv l = Some l) ->
       forall (k : nat) (ns ns1 ns' : names),
       convert_prefix conv k ns = Some ns1 ->
       convert_all conv ns = Some ns' -> convert_all conv ns1 = Some ns' /\ convert_all conv ns' = Some ns'.
Proof. exact CtxProps.render_twice_after_partial. Qed.

Theorem C14_convert_preserves_indices :
  forall (conv : str -> option str) (k : nat) (ns ns' : names),
       convert_prefix conv k ns = Some ns' -> map fst ns' = map fst ns.
Proof. exact CtxProps.convert_preserves_indices. Qed.

