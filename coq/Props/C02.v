(* Props/C02.v — inferred types are tight.  tightb (Sem/Tight.v) is the decidable statement: every union member, element
   type, Optional, Literal string and Any is justified by an observation.  This revision: the statement on concrete
   inputs (non-vacuity, including the three documented widenings); generate_tight is being proved in Proofs/TightProps.v
   and merged when finished.  The model statement is tested on every case of the run (Views/Vtight.v), the implementation's
   final registry is judged by the oracle. *)
From Coq Require Import List Bool Arith NArith ZArith String.
From J2M.Model Require Import Base Union Merge Optimize Detect Emit.
From J2M.Sem Require Import Tight.
Import ListNotations.
Definition acc (p : pseudo) (s : str) : bool :=
  match p with
  | PInt => forallb (fun c => (48 <=? c)%N && (c <=? 57)%N) s && negb (match s with [] => true | _ => false end)
  | PFloat => forallb (fun c => ((48 <=? c)%N && (c <=? 57)%N) || N.eqb c 46) s && negb (match s with [] => true | _ => false end)
  | _ => false end.
Definition o1 : list (str * json) := [(s_ "a", JInt 1); (s_ "b", JArr []); (s_ "c", JStr (s_ "1"))].
Definition o2 : list (str * json) := [(s_ "a", JFloat 0); (s_ "b", JArr [JNull]); (s_ "c", JStr (s_ "1.5")); (s_ "d", JStr (s_ "x"))].
Example C02_example_tight :
  match generate [PInt; PFloat] [(PInt, PFloat)] acc 0 (fun _ _ => false) [] 30 [o1; o2] with
  | Some fs => tightb acc 30 [JObj o1; JObj o2] false (TObj fs)
  | None => false
  end = true.
Proof. vm_compute. reflexivity. Qed.
(* not tight: a member nobody exhibited, an Optional without a null or a missing key *)
Example C02_example_not_tight :
  tightb acc 10 [JObj o1] false (TObj [(s_ "a", TUnion [TInt; TBool])]) = false
  /\ tightb acc 10 [JObj o1] false (TObj [(s_ "a", TOpt TInt)]) = false.
Proof. vm_compute. split; reflexivity. Qed.
