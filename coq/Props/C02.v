(* Props/C02.v — inferred types are tight: nothing is admitted that no sample exhibited.  Statements only; proofs in
   Proofs/TightProps.v.  tightb (Sem/Tight.v) is the decidable statement: every union member, element type, Optional,
   Literal string and Any is justified by an observation; the three documented widenings are the three places where the
   evidence is weaker than inhabitation.  tight is its fuel-free twin.  Both hypotheses are necessary (the *_needed
   examples).  The registry stage (merged models) is judged by the oracle on the implementation's final registry. *)
From Coq Require Import List Bool Arith NArith ZArith.
From J2M.Model Require Import Base Union Merge Optimize Detect.
From J2M.Sem Require Import NF Tight.
From J2M.Proofs Require Import TightProps.

Theorem C02_generate_tight :
  forall (registry : list pseudo) (replaces : list (pseudo * pseudo)) (accepts : pseudo -> str -> bool)
         (n_regex : nat) (key_matches : nat -> str -> bool) (dict_fields : list str) 
         (fuel : nat) (samples : list (list (str * json))) (fs : fields),
       samples <> nil ->
       Forall (fun s : list (str * json) => wf_json (JObj s) = true) samples ->
       generate registry replaces accepts n_regex key_matches dict_fields fuel samples = Some fs ->
       exists n : nat, forall k : nat, n <= k -> tightb accepts k (map JObj samples) false (TObj fs) = true.
Proof. exact TightProps.generate_tight. Qed.

Theorem C02_generate_tight_spec :
  forall (registry : list pseudo) (replaces : list (pseudo * pseudo)) (accepts : pseudo -> str -> bool)
         (n_regex : nat) (key_matches : nat -> str -> bool) (dict_fields : list str) 
         (fuel : nat) (samples : list (list (str * json))) (fs : fields),
       samples <> nil ->
       Forall (fun s : list (str * json) => wf_json (JObj s) = true) samples ->
       generate registry replaces accepts n_regex key_matches dict_fields fuel samples = Some fs ->
       tight accepts (TObj fs) (map JObj samples) false.
Proof. exact TightProps.generate_tight_spec. Qed.

Theorem C02_tight_iff :
  forall (accepts : pseudo -> str -> bool) (t : ty) (obs : list json) (m : bool),
       tight accepts t obs m <-> (exists n : nat, forall k : nat, n <= k -> tightb accepts k obs m t = true).
Proof. exact TightProps.tight_iff. Qed.

Theorem C02_samples_nonempty_needed :
  ex_gen 5 nil = Some nil /\ (forall k : nat, tightb ex_acc k (map JObj nil) false (TObj nil) = false).
Proof. exact TightProps.samples_nonempty_needed. Qed.

Theorem C02_wf_needed :
  ex_gen 9 ex_dup = Some ((ex_k1, TUnion (TInt :: TLit false ((65%N :: nil) :: nil) :: nil)) :: nil) /\
       tightb ex_acc 20 (map JObj ex_dup) false
         (TObj ((ex_k1, TUnion (TInt :: TLit false ((65%N :: nil) :: nil) :: nil)) :: nil)) = false.
Proof. exact TightProps.wf_needed. Qed.

Theorem C02_merge_needs_witness :
  let obs := JObj ((ex_k1, JInt 1) :: (ex_k2, JInt 2) :: nil) :: nil in
       merge_field_sets N.eqb (((ex_k1, TInt) :: nil) :: ((ex_k2, TInt) :: nil) :: nil) =
       (ex_k1, TOpt TInt) :: (ex_k2, TOpt TInt) :: nil /\
       tightb ex_acc 20 obs false (TObj ((ex_k1, TInt) :: nil)) = true /\
       tightb ex_acc 20 obs false (TObj ((ex_k2, TInt) :: nil)) = true /\
       tightb ex_acc 20 obs false (TObj ((ex_k1, TOpt TInt) :: (ex_k2, TOpt TInt) :: nil)) = false.
Proof. exact TightProps.merge_needs_witness. Qed.

From Coq Require Import String.
From J2M.Model Require Import Emit.
Import ListNotations.
Definition acc (p : pseudo) (s : str) : bool :=
  match p with
  | PInt => forallb (fun c => (48 <=? c)%N && (c <=? 57)%N) s && negb (match s with [] => true | _ => false end)
  | PFloat => forallb (fun c => ((48 <=? c)%N && (c <=? 57)%N) || N.eqb c 46) s && negb (match s with [] => true | _ => false end)
  | _ => false end.
Definition o1 : list (str * json) := [(s_ "a", JInt 1); (s_ "b", JArr []); (s_ "c", JStr (s_ "1"))].
Definition o2 : list (str * json) := [(s_ "a", JFloat 0); (s_ "b", JArr [JNull]); (s_ "c", JStr (s_ "1.5")); (s_ "d", JStr (s_ "x"))].
Example C02_example_tight :
  match generate [PInt; PFloat] [(PInt, PFloat)] acc 0 (fun _ _ => false) [] 30 [o1; o2] with
  | Some fs => tightb acc 30 [JObj o1; JObj o2] false (TObj fs)
  | None => false
  end = true.
Proof. vm_compute. reflexivity. Qed.
(* not tight: a member nobody exhibited, an Optional without a null or a missing key *)
Example C02_example_not_tight :
  tightb acc 10 [JObj o1] false (TObj [(s_ "a", TUnion [TInt; TBool])]) = false
  /\ tightb acc 10 [JObj o1] false (TObj [(s_ "a", TOpt TInt)]) = false.
Proof. vm_compute. split; reflexivity. Qed.

(* ---- the SHARPER statement (Sem/Tight2.v, Proofs/Tight2Props.v): str needs a REASON among the strings observed at the
   position — a plain string (one no registered pseudo-type accepts) of length >= 20, more than 15 distinct plain strings,
   or two strings detected as different pseudo-types.  tightb2 = tightb with only that clause changed; it implies tightb;
   each reason is shown necessary; a premature overflow (str for 15 distinct short strings seen 16 times) is rejected.
   Remaining laxity: the mixed reason also licenses str where the replacement table would resolve the two pseudo-types. ---- *)
From J2M.Sem Require Import Tight2.
From J2M.Proofs Require Import Tight2Props.

Theorem C02_generate_tight2 :
  forall (registry : list pseudo) (replaces : list (pseudo * pseudo)) (accepts : pseudo -> str -> bool)
         (n_regex : nat) (key_matches : nat -> str -> bool) (dict_fields : list str) 
         (fuel : nat) (samples : list (list (str * json))) (fs : fields),
       samples <> nil ->
       Forall (fun s : list (str * json) => wf_json (JObj s) = true) samples ->
       generate registry replaces accepts n_regex key_matches dict_fields fuel samples = Some fs ->
       exists n : nat,
         forall k : nat, n <= k -> tightb2 registry accepts k (map JObj samples) false (TObj fs) = true.
Proof. exact Tight2Props.generate_tight2. Qed.

Theorem C02_tightb2_tightb :
  forall (registry : list pseudo) (accepts : pseudo -> str -> bool) (k : nat) 
         (obs : list json) (m : bool) (t : ty),
       tightb2 registry accepts k obs m t = true -> tightb accepts k obs m t = true.
Proof. exact Tight2Props.tightb2_tightb. Qed.

Theorem C02_tight2_iff :
  forall (registry : list pseudo) (accepts : pseudo -> str -> bool) (t : ty) 
         (obs : list json) (m : bool),
       tight2 registry accepts t obs m <->
       (exists n : nat, forall k : nat, n <= k -> tightb2 registry accepts k obs m t = true).
Proof. exact Tight2Props.tight2_iff. Qed.

Theorem C02_weak_reading_refuted :
  let obs := map JObj (x_samples (x_letters 2)) in
       tightb x_acc 10 obs false (TObj ((x_k, TStr) :: nil)) = true /\
       tightb2 x_reg x_acc 10 obs false (TObj ((x_k, TStr) :: nil)) = false /\
       x_gen nil 10 (x_samples (x_letters 2)) = Some ((x_k, TLit false (x_letters 2)) :: nil) /\
       tightb2 x_reg x_acc 10 obs false (TObj ((x_k, TLit false (x_letters 2)) :: nil)) = true.
Proof. exact Tight2Props.weak_reading_refuted. Qed.

Theorem C02_premature_overflow_rejected :
  let obs := map JObj (x_samples x_16_15) in
       List.length x_16_15 = 16 /\
       tightb x_acc 10 obs false (TObj ((x_k, TStr) :: nil)) = true /\
       tightb2 x_reg x_acc 10 obs false (TObj ((x_k, TStr) :: nil)) = false /\
       x_gen nil 10 (x_samples x_16_15) = Some ((x_k, TLit false (x_letters 15)) :: nil) /\
       tightb2 x_reg x_acc 10 obs false (TObj ((x_k, TLit false (x_letters 15)) :: nil)) = true.
Proof. exact Tight2Props.premature_overflow_rejected. Qed.

Theorem C02_reason_long_needed :
  let ss := repeat 97%N 20 :: nil in
       x_gen nil 10 (x_samples ss) = Some ((x_k, TStr) :: nil) /\
       x_reasons ss = (true, false, false) /\
       tightb2 x_reg x_acc 10 (map JObj (x_samples ss)) false (TObj ((x_k, TStr) :: nil)) = true.
Proof. exact Tight2Props.reason_long_needed. Qed.

Theorem C02_reason_many_needed :
  let ss := x_letters 16 in
       x_gen nil 10 (x_samples ss) = Some ((x_k, TStr) :: nil) /\
       x_reasons ss = (false, true, false) /\
       tightb2 x_reg x_acc 10 (map JObj (x_samples ss)) false (TObj ((x_k, TStr) :: nil)) = true.
Proof. exact Tight2Props.reason_many_needed. Qed.

Theorem C02_reason_mixed_needed :
  let ss := (49%N :: nil) :: (49%N :: 46%N :: 53%N :: nil) :: nil in
       x_gen nil 10 (x_samples ss) = Some ((x_k, TStr) :: nil) /\
       x_reasons ss = (false, false, true) /\
       tightb2 x_reg x_acc 10 (map JObj (x_samples ss)) false (TObj ((x_k, TStr) :: nil)) = true.
Proof. exact Tight2Props.reason_mixed_needed. Qed.

