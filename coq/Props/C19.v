(* Props/C19.v — header and preamble never corrupt the generated module.  Statements only; proofs in Proofs/PyLexProps.v.
   py_raw_triple_end / py_unescape are the model of CPython's tokenizer for raw triple-quoted and ordinary string literals
   (validated against ast / tokenize by tools/validate_pylex.py and, on every run, by the oracle of this check). *)
From Coq Require Import List Bool Arith NArith.
From J2M.Model Require Import Base Emit PyLex.
From J2M.Proofs Require Import PyLexProps.

Theorem C19_header_is_one_string :
  forall (line argv : str) (rest : list N),
       has_triple line = false ->
       exists body : str,
         firstn 4 (header_text line argv ++ rest) = 114%N :: 34%N :: 34%N :: 34%N :: nil /\
         py_raw_triple_end (skipn 4 (header_text line argv ++ rest)) = Some (body, (10%N :: nil) ++ rest) /\
         body =
         (10%N :: nil) ++ line ++ (10%N :: nil) ++ COMMAND_PREFIX ++ replace_triple argv ++ 10%N :: nil.
Proof. exact PyLexProps.header_is_one_string. Qed.

Theorem C19_replace_triple_never_ends :
  forall a : str, py_raw_triple_end (replace_triple a ++ 10%N :: nil) = None.
Proof. exact PyLexProps.replace_triple_never_ends. Qed.

Theorem C19_replace_triple_then_close :
  forall (a : str) (rest : list N),
       py_raw_triple_end (replace_triple a ++ (10%N :: nil) ++ TRIPLE ++ rest) =
       Some (replace_triple a ++ 10%N :: nil, rest).
Proof. exact PyLexProps.replace_triple_then_close. Qed.

Theorem C19_header_unrepaired_refuted :
  py_raw_triple_end
         (skipn 4
            (header_text_unrepaired (103%N :: nil) (34%N :: 34%N :: 34%N :: nil) ++
             120%N :: 61%N :: 49%N :: 10%N :: nil)) =
       Some
         ((10%N :: 103%N :: 10%N :: nil) ++ COMMAND_PREFIX,
          (10%N :: 34%N :: 34%N :: 34%N :: 10%N :: nil) ++ 120%N :: 61%N :: 49%N :: 10%N :: nil) /\
       py_raw_triple_end ((34%N :: 34%N :: 34%N :: 10%N :: nil) ++ 120%N :: 61%N :: 49%N :: 10%N :: nil) <>
       None /\
       py_raw_triple_end
         (skipn 3 ((34%N :: 34%N :: 34%N :: 10%N :: nil) ++ 120%N :: 61%N :: 49%N :: 10%N :: nil)) = None.
Proof. exact PyLexProps.header_unrepaired_refuted. Qed.

Theorem C19_unescape_json_raw :
  forall s : list N,
       (forall c : N, In c s -> (c < 1114112)%N) -> py_unescape (json_escape_raw s) = Some s.
Proof. exact PyLexProps.unescape_json_raw. Qed.

Theorem C19_unescape_repr :
  forall (is_printable_c : N -> bool) (s : list N),
       (forall c : N, In c s -> (c < 1114112)%N) -> py_unescape (py_repr is_printable_c s) = Some s.
Proof. exact PyLexProps.unescape_repr. Qed.


(* (T) the header template and the replacement pair regenerated from cli.py:version_string are the modelled ones *)
From J2M.Gen Require Cli.
From J2M.Model Require Import Cli.
Import ListNotations.
Theorem C19_header_link : forall version ctime argv,
  nth 0 Gen.Cli.header_template [] ++ nth 1 Gen.Cli.header_template [] ++ version ++ nth 2 Gen.Cli.header_template [] ++ ctime
  ++ nth 3 Gen.Cli.header_template [] ++ replace_triple argv ++ nth 4 Gen.Cli.header_template []
  = header_text (nth 1 Gen.Cli.header_template [] ++ version ++ nth 2 Gen.Cli.header_template [] ++ ctime) argv.
Proof.
  intros. unfold header_text, header_text_of, header_body_of, TRIPLE, COMMAND_PREFIX. cbn [nth Gen.Cli.header_template].
  repeat rewrite <- app_assoc. reflexivity.
Qed.
Theorem C19_replace_link : Gen.Cli.header_replace = (TRIPLE, [34; 34; 92; 34]%N).
Proof. reflexivity. Qed.

(* preamble: generate_code places it after the imports and before the classes; an empty or whitespace-only preamble is dropped *)
Theorem C19_empty_preamble_noop : forall is_space_c p, Forall (fun c => is_space_c c = true) p -> cli_preamble is_space_c (Some p) = None.
Proof.
  intros sp p H. unfold cli_preamble. destruct p as [|c r]; [reflexivity|].
  assert (L : forall l, Forall (fun c => sp c = true) l -> lstrip sp l = []).
  { induction l as [|x l IH]; intros Hl; [reflexivity|]. inversion Hl; subst. cbn. rewrite H2. auto. }
  unfold strip. rewrite (L _ H). reflexivity.
Qed.
