(* Props/C10.v — Literal annotations follow the documented limits and hold exact values.
   Statements only; proofs in Proofs/Literals.v, Proofs/LitLink.v.  The link_* theorems tie the regenerated Gen/Limits.v to
   the model.  PART 2 (the emitted text): the Literal annotation printed for a literal set reads back (parser of the
   annotation language, Model/PyAnn.v, tied to CPython by X-ann) as EXACTLY that set, whatever characters the strings hold;
   a set that is not shown reads back as str. *)
From Coq Require Import List Bool Arith NArith.
From J2M.Model Require Import Base Union Merge Optimize Detect.
From J2M.Gen Require Limits.
From J2M.Proofs Require Import Literals.

Theorem C10_link_MAX_LITERALS :
  Limits.MAX_LITERALS = MAX_LITERALS.
Proof. exact Literals.link_MAX_LITERALS. Qed.

Theorem C10_link_MAX_STRING_LENGTH :
  Limits.MAX_STRING_LENGTH = MAX_STRING_LENGTH.
Proof. exact Literals.link_MAX_STRING_LENGTH. Qed.

Theorem C10_link_lit_overflow :
  forall ls : list str, Limits.lit_overflow ls = lit_overflow ls.
Proof. exact Literals.link_lit_overflow. Qed.

Theorem C10_lit_overflow_spec :
  forall ls : list str,
       lit_overflow ls = false <-> length ls <= 15 /\ Forall (fun s : list N => length s < 20) ls.
Proof. exact Literals.lit_overflow_spec. Qed.

Theorem C10_mk_union_literal :
  forall ts : list ty,
       let fl := flatten_union ts in
       (forall (o : bool) (S : list str),
        In (TLit o S) (mk_union ts) ->
        o = false /\ kills fl = false /\ S = set_of_strs (lits_of fl) /\ S <> nil /\ lit_overflow S = false) /\
       (kills fl = false ->
        lits_of fl <> nil ->
        lit_overflow (set_of_strs (lits_of fl)) = false ->
        In (TLit false (set_of_strs (lits_of fl))) (mk_union ts)) /\
       (forall (o : bool) (S : list str) (o' : bool) (S' : list str),
        In (TLit o S) (mk_union ts) -> In (TLit o' S') (mk_union ts) -> o = o' /\ S = S') /\
       (kills fl = true \/ lits_of fl <> nil /\ lit_overflow (set_of_strs (lits_of fl)) = true ->
        (exists t : ty, In t fl /\ is_lit t = true) -> In TStr (mk_union ts)).
Proof. exact Literals.mk_union_literal. Qed.

Theorem C10_mk_union_str_iff :
  forall ts : list ty,
       let fl := flatten_union ts in
       In TStr (mk_union ts) <->
       kills fl = true \/ lits_of fl <> nil /\ lit_overflow (set_of_strs (lits_of fl)) = true.
Proof. exact Literals.mk_union_str_iff. Qed.

Theorem C10_mk_union_literal_limits :
  forall (ts : list ty) (o : bool) (S0 : list str),
       In (TLit o S0) (mk_union ts) ->
       o = false /\ S0 <> nil /\ length S0 <= 15 /\ Forall (fun s : list N => length s < 20) S0.
Proof. exact Literals.mk_union_literal_limits. Qed.

Theorem C10_mk_union_literal_exact :
  forall (ts : list ty) (o : bool) (S : list str) (s : str),
       In (TLit o S) (mk_union ts) ->
       In s S <-> (exists l : list str, In (TLit false l) (flatten_union ts) /\ In s l).
Proof. exact Literals.mk_union_literal_exact. Qed.

Theorem C10_detect_str_literal :
  forall (registry : list pseudo) (accepts : pseudo -> str -> bool) (s : str),
       (forall q : pseudo, In q registry -> accepts q s = false) ->
       detect_str registry accepts s = (if 20 <=? length s then TLit true nil else TLit false (s :: nil)).
Proof. exact Literals.detect_str_literal. Qed.

Theorem C10_lit_render_off :
  forall (fw : Framework.framework) (n : nat) (ls : list str),
       Limits.use_literals fw = false \/ n = 0 ->
       Limits.use_literals fw && Limits.lit_render_ok (Some n) ls = false.
Proof. exact Literals.lit_render_off. Qed.

Theorem C10_lit_render_ok_spec :
  forall (n : nat) (ls : list str), Limits.lit_render_ok (Some n) ls = true <-> length ls < n.
Proof. exact Literals.lit_render_ok_spec. Qed.

(* ---- PART 2: the emitted text ---- *)
From Coq Require Import String.
From J2M.Model Require Import Emit PyLex PyAnn.
From J2M.Proofs Require Import LitLink.

Theorem C10_literal_text_exact :
  forall (names : N -> option str) (ctx : N -> option N) (o : opts) (ov : bool) 
         (ls : list str) (i : list imp) (txt : str) (fuel : nat),
       print_ty names ctx o (TLit ov ls) = Some (i, txt) ->
       lit_shown o ls = true ->
       ls <> nil -> 2 + Datatypes.length ls <= fuel -> parse_ann_all fuel txt = Some (ALit ls).
Proof. exact LitLink.literal_text_exact. Qed.

Theorem C10_literal_text_hidden :
  forall (names : N -> option str) (ctx : N -> option N) (o : opts) (ov : bool) 
         (ls : list str) (i : list imp) (txt : str) (fuel : nat),
       print_ty names ctx o (TLit ov ls) = Some (i, txt) ->
       lit_shown o ls = false ->
       2 + Datatypes.length ls <= fuel -> parse_ann_all fuel txt = Some (AName (s_ "str")).
Proof. exact LitLink.literal_text_hidden. Qed.

