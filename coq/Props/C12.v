(* Props/C12.v — flat and nested layouts describe the same models.  Proofs in Proofs/LayoutProps.v (in progress:
   until they are merged this file carries the executable non-vacuity examples only; the layout functions are tied
   to the code by X-layout on both layouts of every explored registry). *)
From Coq Require Import List Bool Arith NArith.
From J2M.Model Require Import Base Registry Emit Layout.
Import ListNotations.

(* a root (registered last, as merged roots are) with children 1, 2 and a grandchild 3 under 1 *)
Definition ex_graph : graph :=
  {| ms := map (fun i => {| m_idx := i; m_fields := []; m_name := None; m_gen := None |}) [1; 2; 3; 0]%N;
     ps := [ {| p_tgt := 0; p_par := None; p_fld := None |}; {| p_tgt := 1; p_par := Some 0; p_fld := None |};
             {| p_tgt := 2; p_par := Some 0; p_fld := None |}; {| p_tgt := 3; p_par := Some 1; p_fld := None |} ]%N;
     nxt := 4%N |}.
Example C12_example_flat : compose_flat ex_graph = Some [Node 0 []; Node 1 []; Node 3 []; Node 2 []]%N.
Proof. vm_compute. reflexivity. Qed.
Example C12_example_nested : compose_nested ex_graph = Some ([Node 0 [Node 1 [Node 3 []]; Node 2 []]]%N, []).
Proof. vm_compute. reflexivity. Qed.
