(* Props/C12.v — flat and nested layouts describe the same models.  Statements only; proofs in Proofs/LayoutProps.v.
   The layout functions read the pointer table (stale pointers included), as the implementation does: tree_table is
   the tree shape of that table.  Live references always have a table entry (Props/C05: closed graph); the converse
   fails for a pointer dropped by a structural-equality shortcut in merge_field_sets (DESIGN 6, C12). *)
From Coq Require Import List Bool Arith NArith Permutation.
From J2M.Model Require Import Base Registry Emit Layout.
From J2M.Proofs Require Import LayoutProps.

Theorem C12_flat_perm :
  forall (g : graph) (l : list node),
       compose_flat g = Some l -> Permutation (flat_map flatten l) (map m_idx (ms g)) /\ Forall leaf_node l.
Proof. exact LayoutProps.flat_perm. Qed.

Theorem C12_flat_exactly_once :
  forall (g : graph) (l : list node),
       NoDup (map m_idx (ms g)) ->
       compose_flat g = Some l ->
       NoDup (flat_map flatten l) /\ (forall m : N, In m (flat_map flatten l) <-> In m (map m_idx (ms g))).
Proof. exact LayoutProps.flat_exactly_once. Qed.

Theorem C12_flat_none_iff :
  forall g : graph,
       compose_flat g = None <-> (exists m : N, In m (map m_idx (ms g)) /\ ptrs_to g m = nil).
Proof. exact LayoutProps.flat_none_iff. Qed.

Theorem C12_flat_root_first :
  forall (g : graph) (l : list node) (r : N),
       compose_flat g = Some l ->
       In r (map m_idx (ms g)) ->
       is_root g r ->
       (forall m : N, In m (map m_idx (ms g)) -> is_root g m -> m = r) ->
       exists rest : list node, l = Node r nil :: rest.
Proof. exact LayoutProps.flat_root_first. Qed.

Theorem C12_tree_flat_root_first :
  forall (g : graph) (r : N),
       tree_table g r -> exists rest : list node, compose_flat g = Some (Node r nil :: rest).
Proof. exact LayoutProps.tree_flat_root_first. Qed.

Theorem C12_nested_perm_tree :
  forall (g : graph) (r : N),
       tree_table g r ->
       exists t : node, compose_nested g = Some (t :: nil, nil) /\ Permutation (flatten t) (map m_idx (ms g)).
Proof. exact LayoutProps.nested_perm_tree. Qed.

Theorem C12_nested_placement :
  forall (g : graph) (r : N) (t : node),
       tree_table g r ->
       compose_nested g = Some (t :: nil, nil) ->
       forall p c : N, child_of t p c <-> In c (map m_idx (ms g)) /\ parents_of g c = p :: nil.
Proof. exact LayoutProps.nested_placement. Qed.

Theorem C12_nested_children_order :
  forall (g : graph) (r : N) (t : node),
       tree_table g r ->
       compose_nested g = Some (t :: nil, nil) ->
       forall (p : N) (l : list node),
       subtree t (Node p l) -> map label l = filter (is_child g p) (map m_idx (ms g)).
Proof. exact LayoutProps.nested_children_order. Qed.

Theorem C12_nested_child_referenced :
  forall (g : graph) (r : N) (t : node),
       tree_table g r ->
       compose_nested g = Some (t :: nil, nil) ->
       forall p c : N, child_of t p c -> exists q : ptr, In q (ps g) /\ p_tgt q = c /\ p_par q = Some p.
Proof. exact LayoutProps.nested_child_referenced. Qed.

Theorem C12_same_models :
  forall (g : graph) (r : N) (l : list node) (t : node),
       tree_table g r ->
       compose_flat g = Some l ->
       compose_nested g = Some (t :: nil, nil) -> Permutation (flat_map flatten l) (flatten t).
Proof. exact LayoutProps.same_models. Qed.

Import ListNotations.
(* a root (registered last, as merged roots are) with children 1, 2 and a grandchild 3 under 1 *)
Definition ex_graph : graph :=
  {| ms := map (fun i => {| m_idx := i; m_fields := []; m_name := None; m_gen := None |}) [1; 2; 3; 0]%N;
     ps := [ {| p_tgt := 0; p_par := None; p_fld := None |}; {| p_tgt := 1; p_par := Some 0; p_fld := None |};
             {| p_tgt := 2; p_par := Some 0; p_fld := None |}; {| p_tgt := 3; p_par := Some 1; p_fld := None |} ]%N;
     nxt := 4%N |}.
Example C12_example_flat : compose_flat ex_graph = Some [Node 0 []; Node 1 []; Node 3 []; Node 2 []]%N.
Proof. vm_compute. reflexivity. Qed.
Example C12_example_nested : compose_nested ex_graph = Some ([Node 0 [Node 1 [Node 3 []]; Node 2 []]]%N, []).
Proof. vm_compute. reflexivity. Qed.
