(* Props/C11.v — JSON keys survive renaming.  This revision: table links; the label theorems (label_fold, label_injective,
   convert_idem, ...) are merged from Proofs/LabelProps.v when finished.  prepare_label / underscore / camelize are tied
   to the code by X-names, the emitted alias / metadata literals by X-emit. *)
From Coq Require Import List Bool Arith NArith String.
From J2M.Model Require Import Base Framework Label Emit.
From J2M.Gen Require Labels.
Import ListNotations.
Theorem C11_metadata_name_link : Labels.METADATA_FIELD_NAME = s_ "J2M_ORIGINAL_FIELD".
Proof. reflexivity. Qed.
Theorem C11_blacklist_nodup_suffix :
  forallb (fun w => negb (existsb (str_eqb (w ++ [95%N])) Labels.blacklist)) Labels.blacklist = true.
Proof. vm_compute. reflexivity. Qed.
