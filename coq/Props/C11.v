(* Props/C11.v — JSON keys survive renaming.  Statements only; proofs in Proofs/LabelProps.v.  The *_real theorems are
   instantiated with the blacklist and 'ones' regenerated from models/base.py (Gen/Labels.v); the remaining premises are
   facts about the external per-character tables (str.lower, re \w, unidecode), checked over every code point by the
   harness on each run.  fold_key mentions neither inflection.underscore nor the blacklist. *)
From Coq Require Import List Bool Arith NArith String.
From J2M.Model Require Import Base Framework Label Emit.
From J2M.Gen Require Labels.
From J2M.Proofs Require Import LabelProps.

Theorem C11_label_fold :
  forall (unidecode_c : N -> str) (is_word_c is_decimal_c : N -> bool) (lower_c : N -> str),
       lower_c 95%N = 95%N :: nil ->
       (forall c : N, c <> 95%N -> ~ In 95%N (lower_c c)) ->
       is_word_c 45%N = false ->
       forall (cu : bool) (k l : str),
       prepare_label unidecode_c is_word_c is_decimal_c lower_c Labels.blacklist Labels.ones cu true k =
       Some l -> remove_us l = fold_key unidecode_c is_word_c lower_c Labels.ones cu k.
Proof. exact LabelProps.label_fold_real. Qed.

Theorem C11_label_injective :
  forall (unidecode_c : N -> str) (is_word_c is_decimal_c : N -> bool) (lower_c : N -> str),
       lower_c 95%N = 95%N :: nil ->
       (forall c : N, c <> 95%N -> ~ In 95%N (lower_c c)) ->
       is_word_c 45%N = false ->
       forall (cu : bool) (k1 k2 l1 l2 : str),
       prepare_label unidecode_c is_word_c is_decimal_c lower_c Labels.blacklist Labels.ones cu true k1 =
       Some l1 ->
       prepare_label unidecode_c is_word_c is_decimal_c lower_c Labels.blacklist Labels.ones cu true k2 =
       Some l2 ->
       fold_key unidecode_c is_word_c lower_c Labels.ones cu k1 <>
       fold_key unidecode_c is_word_c lower_c Labels.ones cu k2 -> l1 <> l2.
Proof. exact LabelProps.label_injective_real. Qed.

Theorem C11_label_none_iff :
  forall (unidecode_c : N -> str) (is_word_c is_decimal_c : N -> bool) (lower_c : N -> str)
         (blacklist ones : list str) (cu snake : bool) (k : str),
       prepare_label unidecode_c is_word_c is_decimal_c lower_c blacklist ones cu snake k = None <->
       stripped unidecode_c is_word_c cu k = nil.
Proof. exact LabelProps.label_none_iff. Qed.

Theorem C11_label_not_blacklisted :
  forall (unidecode_c : N -> str) (is_word_c is_decimal_c : N -> bool) (lower_c : N -> str)
         (cu snake : bool) (k l : str),
       prepare_label unidecode_c is_word_c is_decimal_c lower_c Labels.blacklist Labels.ones cu snake k =
       Some l -> existsb (str_eqb l) Labels.blacklist = false.
Proof. exact LabelProps.label_not_blacklisted_real. Qed.

Theorem C11_label_first_char :
  forall (unidecode_c : N -> str) (is_word_c is_decimal_c : N -> bool) (lower_c : N -> str),
       (forall c : N, ascii_digit c = true -> is_az (lower_c c) = false) ->
       (forall c : N, lower_c c <> nil) ->
       (forall c x : N, ascii_digit c = false -> hd_error (lower_c c) = Some x -> ascii_digit x = false) ->
       forall (cu snake : bool) (k l : str),
       prepare_label unidecode_c is_word_c is_decimal_c lower_c Labels.blacklist Labels.ones cu snake k =
       Some l -> l <> nil /\ (forall x : N, hd_error l = Some x -> ascii_digit x = false).
Proof. exact LabelProps.label_first_char_real. Qed.

Theorem C11_convert_idem :
  forall (unidecode_c : N -> str) (is_word_c is_decimal_c : N -> bool) (lower_c : N -> str),
       is_word_c 95%N = true ->
       (forall c : N, ascii_lower c = true -> is_word_c c = true) ->
       (forall c : N, (c < 128)%N -> unidecode_c c = c :: nil) ->
       (forall c d : N, In d (unidecode_c c) -> (d < 128)%N) ->
       forall (cu : bool) (s l : str),
       prepare_label unidecode_c is_word_c is_decimal_c lower_c Labels.blacklist Labels.ones cu false s =
       Some l ->
       prepare_label unidecode_c is_word_c is_decimal_c lower_c Labels.blacklist Labels.ones cu false l =
       Some l.
Proof. exact LabelProps.convert_idem_real. Qed.

Theorem C11_blacklist_ok_real :
  blacklist_ok Labels.blacklist = true.
Proof. exact LabelProps.blacklist_ok_real. Qed.

Import ListNotations.
Theorem C11_metadata_name_link : Labels.METADATA_FIELD_NAME = s_ "J2M_ORIGINAL_FIELD".
Proof. reflexivity. Qed.
Theorem C11_blacklist_nodup_suffix :
  forallb (fun w => negb (existsb (str_eqb (w ++ [95%N])) Labels.blacklist)) Labels.blacklist = true.
Proof. vm_compute. reflexivity. Qed.

(* ---- the original key is recoverable from the emitted literal (proofs: Proofs/PyLexProps.v via Proofs/KeyRecover.v);
   the body that carries the literal: C04_pydantic_alias (alias=json(key) exactly when the label differs from the key) ---- *)
From Coq Require Import String.
From J2M.Model Require Import Framework Emit PyLex.
From J2M.Proofs Require Import KeyRecover.

Theorem C11_alias_literal_recoverable :
  forall name : str, py_unescape (json_escape_raw name) = Some name.
Proof. exact KeyRecover.alias_literal_recoverable. Qed.

Theorem C11_metadata_literal_recoverable :
  forall (is_printable_c : N -> bool) (name : str),
       (forall c : N, In c name -> (c < 1114112)%N) ->
       metadata_kw is_printable_c name =
       (s_ "metadata", s_ "{'J2M_ORIGINAL_FIELD': " ++ py_repr is_printable_c name ++ s_ "}") /\
       py_unescape (py_repr is_printable_c name) = Some name.
Proof. exact KeyRecover.metadata_literal_recoverable. Qed.

