(* Props/C16.v — the command line is a faithful front end to the library pipeline.
   This revision: the defaults regenerated from the argparse declarations equal the documented ones; the option mapping,
   the regex anchoring template and the assembly expression are pinned by the translator (Gen/Cli.v fails to generate
   when they change).  The assembly theorems are merged from Proofs/CliProps.v when finished.  "stdout after the header =
   library result" is a correspondence (X-cli), not a theorem: partial. *)
From Coq Require Import List Bool Arith NArith ZArith String.
From J2M.Model Require Import Base Emit Cli.
From J2M.Gen Require Cli.
From J2M.Proofs Require Import CliProps.
Import ListNotations.
Theorem C16_defaults_link : Gen.Cli.cli_defaults = documented_defaults.
Proof. reflexivity. Qed.
Theorem C16_anchor_link : Gen.Cli.anchor_template = [s_ "^(?:"; s_ ")$"].
Proof. reflexivity. Qed.
(* a top-level list contributes its elements, an object contributes itself *)
Example C16_iter_examples :
  iter_json_file (JArr [JObj []; JObj [(s_ "a", JNull)]]) DASH = Some [JObj []; JObj [(s_ "a", JNull)]]
  /\ iter_json_file (JObj [(s_ "a", JNull)]) DASH = Some [JObj [(s_ "a", JNull)]]
  /\ iter_json_file (JObj [(s_ "d", JObj [(s_ "i", JArr [JObj []])])]) (s_ "d.i") = Some [JObj []]
  /\ iter_json_file (JObj [(s_ "d", JInt 5%Z)]) (s_ "d") = None.
Proof. vm_compute. repeat split; reflexivity. Qed.

(* ---- sample assembly (Proofs/CliProps.v) ---- *)
Theorem C16_iter_list :
  forall l : list json, iter_json_file (JArr l) DASH = Some l.
Proof. exact CliProps.iter_list. Qed.

Theorem C16_iter_obj :
  forall o : list (str * json), iter_json_file (JObj o) DASH = Some (JObj o :: nil).
Proof. exact CliProps.iter_obj. Qed.

Theorem C16_iter_scalar :
  forall d : json, is_container d = false -> iter_json_file d DASH = None /\ iter_json_file d nil = None.
Proof. exact CliProps.iter_scalar. Qed.

Theorem C16_dict_lookup_dotted :
  forall (f : nat) (d : json) (k : str) (rest : list N),
       nodot k = true ->
       dict_lookup (S f) d (k ++ (DOT :: nil) ++ rest) =
       match jget d k with
       | Some d' => dict_lookup f d' rest
       | None => None
       end.
Proof. exact CliProps.dict_lookup_dotted. Qed.

Theorem C16_dict_lookup_plain :
  forall (f : nat) (d : json) (k : str),
       nodot k = true -> k <> nil -> k <> DASH -> dict_lookup (S f) d k = jget d k.
Proof. exact CliProps.dict_lookup_plain. Qed.

Theorem C16_dict_lookup_fuel :
  forall (f1 f2 : nat) (d : json) (lk : list N),
       List.length lk < f1 -> List.length lk < f2 -> dict_lookup f1 d lk = dict_lookup f2 d lk.
Proof. exact CliProps.dict_lookup_fuel. Qed.

Theorem C16_assemble_split_docs :
  forall (d : list (str * list json)) (n lk : str) (d1 d2 : list json) (r : list marg),
       assemble_from d ({| a_name := n; a_lookup := lk; a_docs := d1 ++ d2 |} :: r) =
       assemble_from d
         ({| a_name := n; a_lookup := lk; a_docs := d1 |}
          :: {| a_name := n; a_lookup := lk; a_docs := d2 |} :: r).
Proof. exact CliProps.assemble_split_docs. Qed.

Theorem C16_assemble_split_list :
  forall (d : list (str * list json)) (pre : list marg) (n : str) (docs1 docs2 x y : list json)
         (r : list marg),
       assemble_from d
         (pre ++ {| a_name := n; a_lookup := DASH; a_docs := docs1 ++ JArr (x ++ y) :: docs2 |} :: r) =
       assemble_from d
         (pre ++ {| a_name := n; a_lookup := DASH; a_docs := docs1 ++ JArr x :: JArr y :: docs2 |} :: r).
Proof. exact CliProps.assemble_split_list. Qed.

Theorem C16_assemble_order :
  forall (models lists : list marg) (res : list (str * list json)) (n : str),
       assemble models lists = Some res ->
       lookup n res =
       (if touched n models || touched n lists
        then Some (samples_of n models ++ samples_of n lists)
        else None).
Proof. exact CliProps.assemble_order. Qed.

Theorem C16_assemble_failure :
  forall models lists : list marg,
       assemble models lists = None <->
       (exists (a : marg) (doc : json),
          In a (models ++ lists) /\ In doc (a_docs a) /\ iter_json_file doc (a_lookup a) = None).
Proof. exact CliProps.assemble_failure. Qed.

Theorem C16_assemble_keys :
  forall (models lists : list marg) (res : list (str * list json)),
       assemble models lists = Some res -> map fst res = keys_from nil (models ++ lists).
Proof. exact CliProps.assemble_keys. Qed.

