(* Props/C16.v — the command line is a faithful front end to the library pipeline.
   This revision: the defaults regenerated from the argparse declarations equal the documented ones; the option mapping,
   the regex anchoring template and the assembly expression are pinned by the translator (Gen/Cli.v fails to generate
   when they change).  The assembly theorems are merged from Proofs/CliProps.v when finished.  "stdout after the header =
   library result" is a correspondence (X-cli), not a theorem: partial. *)
From Coq Require Import List Bool Arith NArith ZArith String.
From J2M.Model Require Import Base Emit Cli.
From J2M.Gen Require Cli.
Import ListNotations.
Theorem C16_defaults_link : Gen.Cli.cli_defaults = documented_defaults.
Proof. reflexivity. Qed.
Theorem C16_anchor_link : Gen.Cli.anchor_template = [s_ "^(?:"; s_ ")$"].
Proof. reflexivity. Qed.
(* a top-level list contributes its elements, an object contributes itself *)
Example C16_iter_examples :
  iter_json_file (JArr [JObj []; JObj [(s_ "a", JNull)]]) DASH = Some [JObj []; JObj [(s_ "a", JNull)]]
  /\ iter_json_file (JObj [(s_ "a", JNull)]) DASH = Some [JObj [(s_ "a", JNull)]]
  /\ iter_json_file (JObj [(s_ "d", JObj [(s_ "i", JArr [JObj []])])]) (s_ "d.i") = Some [JObj []]
  /\ iter_json_file (JObj [(s_ "d", JInt 5%Z)]) (s_ "d") = None.
Proof. vm_compute. repeat split; reflexivity. Qed.
