(* Props/C15.v — generation works from any thread and concurrent runs do not interfere.
   The theorem covers the bookkeeping of the only shared mutable cell on the render path, the thread-local context slot
   (Model/Ctx.v); byte-code atomicity, the GIL, Jinja's and re's caches are not modelled: they are exercised by X-thread
   only.  Partial by nature.  The state-machine theorems are merged from Proofs/CtxProps.v when finished. *)
From Coq Require Import List Bool Arith NArith String.
From J2M.Model Require Import Base Emit Ctx.
From J2M.Gen Require Globals.
From J2M.Proofs Require Import CtxProps.
Import ListNotations.
(* a read in a thread that never entered a context is defined and sees no context (the repaired behaviour, D5) *)
Theorem C15_read_defined_any_thread : forall t, reads_of t (trun [Read t]) = [None].
Proof. intros t. unfold trun, reads_of. cbn. rewrite Nat.eqb_refl. reflexivity. Qed.
(* two threads rendering at the same time: each sees its own context, whatever the interleaving of these six events *)
Example C15_two_threads_example :
  forall p q : ctxmap,
  let s1 := [Enter 1 10 p; Enter 2 20 q; Read 1; Read 2; Exit 1 10; Read 2; Exit 2 20; Read 1; Read 2] in
  reads_of 1 (trun s1) = [Some p; None] /\ reads_of 2 (trun s1) = [Some q; Some q; None].
Proof. intros p q. cbn. split; reflexivity. Qed.
Theorem C15_global_cells_link : List.length Globals.global_cells = 2.
Proof. reflexivity. Qed.

(* ---- every interleaving (Proofs/CtxProps.v) ---- *)
Theorem C15_noninterference :
  forall sched : list ev,
       thread_owned sched -> forall t : tid, reads_of t (trun sched) = reads_of t (trun (project t sched)).
Proof. exact CtxProps.C15_noninterference. Qed.

Theorem C15_interleaving_independent :
  forall (s1 s2 : list ev) (t : tid),
       thread_owned s1 ->
       thread_owned s2 -> project t s1 = project t s2 -> reads_of t (trun s1) = reads_of t (trun s2).
Proof. exact CtxProps.C15_interleaving_independent. Qed.

Theorem C15_render_restores :
  forall (st : tstate) (t : tid) (c : nat) (p : ctxmap) (k : nat),
       let st' := trun_from st (render_events t c p k) in
       (forall t' : tid, tls_get (slots st') t' = tls_get (slots st) t') /\
       reads st' = reads st ++ repeat (t, Some p) k /\ saved st' = (c, tls_get (slots st) t) :: saved st.
Proof. exact CtxProps.render_restores. Qed.

Theorem C15_nested_restores :
  forall (st : tstate) (t : tid) (c1 c2 : nat) (p1 p2 : ctxmap),
       c1 <> c2 ->
       let st' := trun_from st (Enter t c1 p1 :: Enter t c2 p2 :: Exit t c2 :: Read t :: Exit t c1 :: nil) in
       (forall t' : tid, tls_get (slots st') t' = tls_get (slots st) t') /\
       reads st' = reads st ++ (t, Some p1) :: nil.
Proof. exact CtxProps.nested_restores. Qed.

Theorem C15_shared_id_interferes :
  thread_ownedb shared_id_sched = false /\
       reads_of 0 (trun shared_id_sched) = None :: nil /\
       reads_of 0 (trun (project 0 shared_id_sched)) = Some ((1%N, 2%N) :: nil) :: nil.
Proof. exact CtxProps.shared_id_interferes. Qed.

