(* Props/C05.v — models are merged exactly along the configured similarity relation.
   Statements only; proofs are in Proofs/Closure.v (group closure) and Proofs/RegistryInv.v (registry invariants). *)
From Coq Require Import List Bool Arith NArith Relations.
From J2M.Model Require Import Base Union Merge Optimize Cmp Groups Registry.
From J2M.Gen Require Cmp.
From J2M.Proofs Require Import ClosureAux Closure RegistryInvAux RegistryInv.
Import ListNotations.

(* (T) the comparators regenerated from registry.py are the modelled ones *)
Theorem C05_link_equals : forall a b, Gen.Cmp.cmp_equals a b = cmp_one CExact a b.
Proof. reflexivity. Qed.
Theorem C05_link_percent : forall num den a b, Gen.Cmp.cmp_percent num den a b = cmp_one (CPercent num den) a b.
Proof. reflexivity. Qed.
Theorem C05_link_number : forall n a b, Gen.Cmp.cmp_number n a b = cmp_one (CNumber n) a b.
Proof. reflexivity. Qed.
Theorem C05_link_default_policy : Gen.Cmp.default_policy = default_policy.
Proof. reflexivity. Qed.

(* two models end up in one group iff they are connected by a chain of pairs the comparator accepted;
   groups are duplicate-free subsets of the registry with >= 2 members, pairwise disjoint *)
Theorem C05_components : forall (R : nat -> nat -> bool) ms gs,
  NoDup ms -> merge_groups R ms = Some gs ->
  (forall a b, In a ms -> In b ms -> a <> b ->
     ((exists g, In g gs /\ In a g /\ In b g) <-> connected R ms a b))
  /\ (forall g, In g gs -> NoDup g /\ 2 <= length g /\ incl g ms)
  /\ (forall g1 g2, In g1 gs -> In g2 gs -> (exists x, In x g1 /\ In x g2) -> seteq g1 g2 = true).
Proof. exact Closure.C05_components. Qed.

(* the closure loop always finishes within its fuel: merge_models never fails for lack of iterations *)
Theorem C05_terminates : forall (R : nat -> nat -> bool) ms, NoDup ms -> merge_groups R ms <> None.
Proof. exact Closure.merge_groups_terminates. Qed.

Theorem C05_result_disjoint : forall fuel G gs, Groups.loop fuel G = Some gs -> pairwise_disjoint gs.
Proof. exact Closure.loop_result_disjoint. Qed.

(* ---- registry level: merged fields, untouched models, replacement list, reference closure ---- *)
Theorem C05_merge_field_sets_keys :
  forall (peq : N -> N -> bool) (sets : list fields),
       map fst (merge_field_sets peq sets) = dedup_keys (flat_map (fun fs : fields => map fst fs) sets).
Proof. exact RegistryInvAux.merge_field_sets_keys. Qed.

Theorem C05_merge_field_sets_has_key :
  forall (peq : N -> N -> bool) (sets : list fields) (k : str),
       has_key k (merge_field_sets peq sets) = existsb (has_key k) sets.
Proof. exact RegistryInvAux.merge_field_sets_has_key. Qed.

Theorem C05_optimize_ptrs :
  forall (registry : list pseudo) (replaces : list (pseudo * pseudo)) (peq : N -> N -> bool)
         (fuel : nat) (t t' : ty),
       optimize registry replaces peq fuel t = Some t' -> incl (ptrs_of t') (ptrs_of t).
Proof. exact RegistryInvAux.optimize_ptrs. Qed.

Theorem C05_process_root_closed :
  forall roots : list (fields * option str),
       (forall r : fields * option str, In r roots -> fptrs (fst r) = nil) ->
       closed (process_roots roots empty_graph).
Proof. exact RegistryInv.process_root_closed. Qed.

Theorem C05_merge_group_inv :
  forall (registry : list pseudo) (replaces : list (pseudo * pseudo)) (g : graph) 
         (mbs : list N) (g' : graph),
       closed g ->
       merge_group registry replaces g mbs = Some g' ->
       closed g' /\
       (forall j : N, registered g' j <-> registered g j /\ ~ In j mbs \/ j = nxt g) /\
       nxt g' = N.succ (nxt g) /\
       (forall j : N, ~ In j mbs -> j <> nxt g -> shape g' j = shape g j) /\
       (exists m : model,
          find_model g' (nxt g) = Some m /\
          map fst (m_fields m) = dedup_keys (flat_map (fun i : N => map fst (fields_of_d g i)) mbs)).
Proof. exact RegistryInv.merge_group_inv. Qed.

Theorem C05_merge_models_closed :
  forall (registry : list pseudo) (replaces : list (pseudo * pseudo)) (R : nat -> nat -> bool)
         (g g' : graph) (reps : list (N * list N)),
       closed g -> merge_models registry replaces R g = Some (g', reps) -> closed g'.
Proof. exact RegistryInv.merge_models_closed. Qed.

Theorem C05_untouched_unchanged :
  forall (registry : list pseudo) (replaces : list (pseudo * pseudo)) (R : nat -> nat -> bool)
         (g g' : graph) (reps : list (N * list N)) (i : N),
       closed g ->
       registered g i ->
       (forall (groups : list (list nat)) (grp : list nat),
        merge_groups R (seq 0 (length (ms g))) = Some groups ->
        In grp groups -> ~ In i (map (fun p : nat => nth p (map m_idx (ms g)) 0%N) grp)) ->
       merge_models registry replaces R g = Some (g', reps) ->
       registered g' i /\
       (exists m m' : model,
          find_model g i = Some m /\
          find_model g' i = Some m' /\
          m_name m' = m_name m /\ m_gen m' = m_gen m /\ map fst (m_fields m') = map fst (m_fields m)).
Proof. exact RegistryInv.untouched_unchanged. Qed.

Theorem C05_replaces_match :
  forall (registry : list pseudo) (replaces : list (pseudo * pseudo)) (R : nat -> nat -> bool)
         (g g' : graph) (reps : list (N * list N)) (groups : list (list nat)),
       closed g ->
       merge_groups R (seq 0 (length (ms g))) = Some groups ->
       merge_models registry replaces R g = Some (g', reps) ->
       let groupsN := groupsN_of g groups in
       length reps = length groups /\
       map snd reps = groupsN /\
       map fst reps = map (fun k : nat => (nxt g + N.of_nat k)%N) (seq 0 (length groups)) /\
       (forall (k : nat) (grp : list N),
        nth_error groupsN k = Some grp -> nth_error reps k = Some ((nxt g + N.of_nat k)%N, grp)) /\
       (forall r : N * list N,
        In r reps -> registered g' (fst r) /\ (forall i : N, In i (snd r) -> ~ registered g' i)) /\
       nxt g' = (nxt g + N.of_nat (length groups))%N.
Proof. exact RegistryInv.replaces_match. Qed.

Theorem C05_merged_fields_union :
  forall (registry : list pseudo) (replaces : list (pseudo * pseudo)) (R : nat -> nat -> bool)
         (g g' : graph) (reps : list (N * list N)) (groups : list (list nat)),
       closed g ->
       merge_groups R (seq 0 (length (ms g))) = Some groups ->
       merge_models registry replaces R g = Some (g', reps) ->
       forall (k : nat) (grp : list N),
       nth_error (groupsN_of g groups) k = Some grp ->
       exists m : model,
         find_model g' (nxt g + N.of_nat k) = Some m /\
         map fst (m_fields m) = member_keys g grp /\
         (forall key : str,
          has_key key (m_fields m) = existsb (fun i : N => has_key key (fields_of_d g i)) grp).
Proof. exact RegistryInv.merged_fields_union. Qed.

(* non-vacuity: a path 0-1-2 plus an isolated model and a separate pair *)
Example C05_example :
  merge_groups (fun a b => Nat.eqb (S a) b && negb (Nat.eqb a 2) && negb (Nat.eqb a 3)) [0; 1; 2; 3; 4; 5] = Some [[0; 1; 2]; [4; 5]].
Proof. vm_compute. reflexivity. Qed.
