(* Props/C03.v — the emitted module is loadable Python with every reference resolvable.
   PART 1 (labels; tables regenerated from models/base.py and the interpreter): every keyword is blacklisted; the suffix
   really escapes the blacklist.  Validity / injectivity of labels: Props/C11.v.
   PART 2 (class names and references; statements only, proofs in Proofs/NamesProps.v; model Model/Names.v tied by
   X-names(registry) on multi-root registries):
     C03_generate_names_distinct — after generate_names EVERY model has a name, and the names are pairwise distinct
       provided no explicit name is empty (premise necessary: C03_empty_names_counterexample); indices, fields, pointers are
       untouched; C03_fix_dups_pointwise says what is kept: the first holder of a name keeps it, a model whose name is
       unique is unchanged, a later holder gets <name>(_<index>)+.
     C03_unrepaired_code_refuted — the code before the D33 repair yields A, A_1B, A_1B; C03_fix_dups_conservative — the
       repair changes nothing where the old result was duplicate-free.
     C03_flat_refs_resolvable / C03_named_flat_refs_resolvable — in the flat layout of a closed graph (C05: merge_models
       keeps graphs closed) every model reference in a field targets exactly one placed class, which has a unique,
       non-empty name: exactly one class per model and every reference resolvable.
   PART 3 (field order, proofs in Proofs/EmitProps.v): the emitted class lists every field exactly once, all required
   fields before all optional ones (what dataclasses / attrs demand: no field without a default after one with a default).
   NOT PROVED: that the emitted text executes (CPython, the frameworks): the emitter is tied byte for byte by X-emit and
   loading is judged by CPython in the oracle; nested-layout scoping of quoted references is oracle-only. *)
From Coq Require Import List Bool Arith NArith String.
From J2M.Model Require Import Base Framework Label Emit.
From J2M.Gen Require Labels.
Import ListNotations.

(* every Python keyword is blacklisted, so prepare_label appends "_" to it *)
Theorem C03_keywords_blacklisted : forall k, In k Labels.keywords -> existsb (str_eqb k) Labels.blacklist = true.
Proof.
  intros k Hk.
  assert (H : forallb (fun k => existsb (str_eqb k) Labels.blacklist) Labels.keywords = true) by (vm_compute; reflexivity).
  rewrite forallb_forall in H. exact (H k Hk).
Qed.
(* a blacklisted word plus "_" is never blacklisted again: the suffix really removes the clash *)
Theorem C03_suffix_escapes_blacklist :
  forall w, In w Labels.blacklist -> existsb (str_eqb (w ++ [95%N])) Labels.blacklist = false.
Proof.
  intros w Hw.
  assert (H : forallb (fun w => negb (existsb (str_eqb (w ++ [95%N])) Labels.blacklist)) Labels.blacklist = true) by (vm_compute; reflexivity).
  rewrite forallb_forall in H. specialize (H w Hw). now apply negb_true_iff in H.
Qed.
Theorem C03_ones_link : Labels.ones = [[]; s_ "one"; s_ "two"; s_ "three"; s_ "four"; s_ "five"; s_ "six"; s_ "seven"; s_ "eight"; s_ "nine"].
Proof. reflexivity. Qed.

(* ---- PART 2: class names and references ---- *)
From J2M.Model Require Import Registry Layout Names.
From J2M.Proofs Require Import RegistryInvAux RegistryInv LayoutProps NamesProps.

Theorem C03_fresh_not_taken :
  forall (taken : list str) (idx n : str), ~ In (fresh (S (Datatypes.length taken)) taken idx n) taken.
Proof. exact NamesProps.fresh_not_taken. Qed.

Theorem C03_fix_dups_distinct :
  forall l : list model,
       (forall m : model, In m l -> exists n : str, m_name m = Some n /\ n <> nil) ->
       NoDup (names_of (fix_dups l)).
Proof. exact NamesProps.fix_dups_distinct. Qed.

Theorem C03_fix_dups_pointwise :
  forall l : list model,
       named l ->
       forall (i : nat) (m m' : model),
       nth_error l i = Some m ->
       nth_error (fix_dups l) i = Some m' ->
       m_idx m' = m_idx m /\
       m_fields m' = m_fields m /\
       (exists n' : str, m_name m' = Some n' /\ n' <> nil) /\
       (~ In (m_name m) (map m_name (firstn i l)) -> m' = m) /\
       (In (m_name m) (map m_name (firstn i l)) ->
        m_gen m' = Some true /\
        (exists k : nat,
           m_name m' = Some (nm m ++ List.concat (repeat (UNDERSCORE ++ index_str (m_idx m)) (S k))))).
Proof. exact NamesProps.fix_dups_pointwise. Qed.

Theorem C03_fix_dups_unique_id :
  forall l : list model, named l -> NoDup (names_of l) -> fix_dups l = l.
Proof. exact NamesProps.fix_dups_unique_id. Qed.

Theorem C03_generate_names_distinct :
  forall (d : N -> bool) (lo up : N -> str) (sg : str -> str) (g : graph),
       let g' := generate_names d lo up sg g in
       (forall m : model, In m (ms g') -> exists n : str, m_name m = Some n) /\
       ((forall (m : model) (n : str), In m (ms g) -> m_name m = Some n -> n <> nil) ->
        NoDup (names_of (ms g')) /\
        (forall m : model, In m (ms g') -> exists n : str, m_name m = Some n /\ n <> nil)) /\
       map m_idx (ms g') = map m_idx (ms g) /\
       map m_fields (ms g') = map m_fields (ms g) /\ ps g' = ps g /\ nxt g' = nxt g.
Proof. exact NamesProps.generate_names_distinct. Qed.

Theorem C03_empty_names_counterexample :
  names_of (fix_dups (mk 0 (Some nil) :: mk 1 (Some nil) :: nil)) = nil :: nil :: nil /\
       ~ NoDup (names_of (fix_dups (mk 0 (Some nil) :: mk 1 (Some nil) :: nil))).
Proof. exact NamesProps.fix_dups_empty_names_stay. Qed.

Theorem C03_unrepaired_code_refuted :
  names_of (fix_dups_old ex3) =
       A_ :: (A_ ++ UNDERSCORE ++ index_str 1) :: (A_ ++ UNDERSCORE ++ index_str 1) :: nil /\
       ~ NoDup (names_of (fix_dups_old ex3)) /\
       names_of (fix_dups ex3) =
       A_
       :: (A_ ++ UNDERSCORE ++ index_str 1 ++ UNDERSCORE ++ index_str 1)
          :: (A_ ++ UNDERSCORE ++ index_str 1) :: nil /\ NoDup (names_of (fix_dups ex3)).
Proof. exact NamesProps.fix_dups_old_refuted. Qed.

Theorem C03_fix_dups_conservative :
  forall l : list model,
       (forall m : model, In m l -> exists n : str, m_name m = Some n /\ n <> nil) ->
       NoDup (names_of (fix_dups_old l)) -> fix_dups l = fix_dups_old l.
Proof. exact NamesProps.fix_dups_conservative. Qed.

Theorem C03_flat_refs_resolvable :
  forall (g : graph) (l : list node),
       closed g ->
       compose_flat g = Some l ->
       forall (m : model) (i : N),
       In m (ms g) ->
       In i (fptrs (m_fields m)) ->
       In (m_idx m) (flat_map flatten l) /\
       count_occ N.eq_dec (flat_map flatten l) i = 1 /\
       (exists m' : model,
          In m' (ms g) /\ m_idx m' = i /\ (forall m'' : model, In m'' (ms g) -> m_idx m'' = i -> m'' = m')).
Proof. exact NamesProps.flat_refs_resolvable. Qed.

Theorem C03_named_flat_refs_resolvable :
  forall (d : N -> bool) (lo up : N -> str) (sg : str -> str) (g : graph) (l : list node),
       closed g ->
       (forall (m : model) (n : str), In m (ms g) -> m_name m = Some n -> n <> nil) ->
       let g' := generate_names d lo up sg g in
       compose_flat g' = Some l ->
       NoDup (names_of (ms g')) /\
       (forall (m : model) (i : N),
        In m (ms g') ->
        In i (fptrs (m_fields m)) ->
        count_occ N.eq_dec (flat_map flatten l) i = 1 /\
        (exists (m' : model) (n' : str),
           In m' (ms g') /\
           m_idx m' = i /\
           m_name m' = Some n' /\
           n' <> nil /\ (forall m'' : model, In m'' (ms g') -> m_idx m'' = i -> m'' = m'))).
Proof. exact NamesProps.named_flat_refs_resolvable. Qed.

(* ---- PART 3: field order ---- *)
From Coq Require Import Permutation.
From J2M.Proofs Require Import EmitProps.

Theorem C03_sort_fields_perm :
  forall (uf : bool) (fs : fields),
       Permutation (fst (sort_fields uf fs) ++ snd (sort_fields uf fs)) (map fst fs).
Proof. exact EmitProps.sort_fields_perm. Qed.

Theorem C03_sort_fields_required :
  forall (uf : bool) (fs : fields) (k : str),
       In k (fst (sort_fields uf fs)) -> exists t : ty, In (k, t) fs /\ is_opt t = false.
Proof. exact EmitProps.sort_fields_required. Qed.

Theorem C03_sort_fields_optional :
  forall (uf : bool) (fs : fields) (k : str),
       In k (snd (sort_fields uf fs)) -> exists t : ty, In (k, t) fs /\ is_opt t = true.
Proof. exact EmitProps.sort_fields_optional. Qed.

Theorem C03_sort_fields_stable :
  forall fs : fields,
       fst (sort_fields false fs) = map fst (filter (fun kt : str * ty => negb (is_opt (snd kt))) fs) /\
       snd (sort_fields false fs) = map fst (filter (fun kt : str * ty => is_opt (snd kt)) fs).
Proof. exact EmitProps.sort_fields_stable. Qed.

