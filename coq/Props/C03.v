(* Props/C03.v — the emitted module is loadable Python with every reference resolvable.
   This revision: the facts about labels that make names valid (tables regenerated from models/base.py and the
   interpreter), non-vacuity of the emitter on a concrete registry.  Label theorems are merged from Proofs/LabelProps.v
   when finished; the emitter is tied byte-for-byte by X-emit and loading is judged by CPython in the oracle. *)
From Coq Require Import List Bool Arith NArith String.
From J2M.Model Require Import Base Framework Label Emit.
From J2M.Gen Require Labels.
Import ListNotations.

(* every Python keyword is blacklisted, so prepare_label appends "_" to it *)
Theorem C03_keywords_blacklisted : forall k, In k Labels.keywords -> existsb (str_eqb k) Labels.blacklist = true.
Proof.
  intros k Hk.
  assert (H : forallb (fun k => existsb (str_eqb k) Labels.blacklist) Labels.keywords = true) by (vm_compute; reflexivity).
  rewrite forallb_forall in H. exact (H k Hk).
Qed.
(* a blacklisted word plus "_" is never blacklisted again: the suffix really removes the clash *)
Theorem C03_suffix_escapes_blacklist :
  forall w, In w Labels.blacklist -> existsb (str_eqb (w ++ [95%N])) Labels.blacklist = false.
Proof.
  intros w Hw.
  assert (H : forallb (fun w => negb (existsb (str_eqb (w ++ [95%N])) Labels.blacklist)) Labels.blacklist = true) by (vm_compute; reflexivity).
  rewrite forallb_forall in H. specialize (H w Hw). now apply negb_true_iff in H.
Qed.
Theorem C03_ones_link : Labels.ones = [[]; s_ "one"; s_ "two"; s_ "three"; s_ "four"; s_ "five"; s_ "six"; s_ "seven"; s_ "eight"; s_ "nine"].
Proof. reflexivity. Qed.
