(* Props/C08.v — type simplification reaches a stable normal form.  Statements only; proofs in Proofs/NormalForm.v.
   nf / ordered / nfo / raw_* are the decidable predicates of Sem/NF.v; wf3, opt_top, lits_bounded, samples_wf are the
   decidable side conditions the proofs forced (each refuted without it, see the *_refuted examples). *)
From Coq Require Import List Bool Arith NArith.
From J2M.Model Require Import Base Union Merge Optimize Detect.
From J2M.Sem Require Import NF.
From J2M.Proofs Require Import NormalForm.
Import ListNotations.

Theorem C08_mk_union_raw_ok :
  forall ts : list ty,
       (forall t : ty, In t (flatten_union ts) -> is_opt t = false /\ is_ptr t = false) ->
       mk_union ts <> nil -> raw_union_ok (mk_union ts) = true.
Proof. exact NormalForm.mk_union_raw_ok. Qed.

Theorem C08_generate_nfo :
  forall (registry : list pseudo) (replaces : list (pseudo * pseudo)) (accepts : pseudo -> str -> bool)
         (n_regex : nat) (key_matches : nat -> str -> bool) (dict_fields : list str) 
         (fuel : nat) (samples : list (list (str * json))) (fs : fields),
       generate registry replaces accepts n_regex key_matches dict_fields fuel samples = Some fs ->
       nfo registry (TObj fs) = true.
Proof. exact NormalForm.generate_nfo. Qed.

Theorem C08_generate_second_pass_id :
  forall (registry : list pseudo) (replaces : list (pseudo * pseudo)) (accepts : pseudo -> str -> bool)
         (n_regex : nat) (key_matches : nat -> str -> bool) (dict_fields : list str) 
         (fuel : nat) (samples : list (list (str * json))) (fs : fields) (peq : N -> N -> bool) 
         (fuel' : nat) (fs' : fields),
       samples_wf samples = true ->
       generate registry replaces accepts n_regex key_matches dict_fields fuel samples = Some fs ->
       optimize_fields registry replaces peq fuel' fs = Some fs' -> fs' = fs.
Proof. exact NormalForm.generate_second_pass_id. Qed.

Theorem C08_generate_second_pass_total :
  forall (registry : list pseudo) (replaces : list (pseudo * pseudo)) (accepts : pseudo -> str -> bool)
         (n_regex : nat) (key_matches : nat -> str -> bool) (dict_fields : list str) 
         (fuel : nat) (samples : list (list (str * json))) (fs : fields) (peq : N -> N -> bool),
       samples_wf samples = true ->
       generate registry replaces accepts n_regex key_matches dict_fields fuel samples = Some fs ->
       exists n : nat,
         forall fuel' : nat, n <= fuel' -> optimize_fields registry replaces peq fuel' fs = Some fs.
Proof. exact NormalForm.generate_second_pass_total. Qed.

Theorem C08_optimize_raw_nfo :
  forall (registry : list pseudo) (replaces : list (pseudo * pseudo)) (fuel : nat) (t t' : ty),
       raw_field t = true ->
       opt_top t = true ->
       lits_bounded t = true -> optimize registry replaces N.eqb fuel t = Some t' -> nfo registry t' = true.
Proof. exact NormalForm.optimize_raw_nfo. Qed.

Theorem C08_optimize_fields_nfo :
  forall (registry : list pseudo) (replaces : list (pseudo * pseudo)) (fuel : nat) (fs fs' : fields),
       raw_fields fs = true ->
       opt_top (TObj fs) = true ->
       lits_bounded (TObj fs) = true ->
       optimize_fields registry replaces N.eqb fuel fs = Some fs' -> nfo registry (TObj fs') = true.
Proof. exact NormalForm.optimize_fields_nfo. Qed.

Theorem C08_optimize_nfo_id :
  forall (registry : list pseudo) (replaces : list (pseudo * pseudo)) (peq : N -> N -> bool)
         (fuel : nat) (t t' : ty),
       nfo registry t = true -> wf3 t = true -> optimize registry replaces peq fuel t = Some t' -> t' = t.
Proof. exact NormalForm.optimize_nfo_id. Qed.

Theorem C08_optimize_total_nfo :
  forall (registry : list pseudo) (replaces : list (pseudo * pseudo)) (peq : N -> N -> bool) (t : ty),
       nfo registry t = true ->
       wf3 t = true ->
       exists n : nat, forall fuel : nat, n <= fuel -> optimize registry replaces peq fuel t <> None.
Proof. exact NormalForm.optimize_total_nfo. Qed.

Theorem C08_optimize_raw_nfo_refuted_literal :
  raw_field cex_lit = true /\
       opt_top cex_lit = true /\
       match optimize (PInt :: nil) nil N.eqb 10 cex_lit with
       | Some t => nfo (PInt :: nil) t
       | None => true
       end = false.
Proof. exact NormalForm.optimize_raw_nfo_refuted_literal. Qed.

Theorem C08_optimize_raw_nfo_refuted_optional :
  raw_field cex_opt = true /\
       lits_bounded cex_opt = true /\
       match optimize nil nil N.eqb 10 cex_opt with
       | Some t => nfo nil t
       | None => true
       end = false.
Proof. exact NormalForm.optimize_raw_nfo_refuted_optional. Qed.

Theorem C08_optimize_nfo_id_refuted_keys :
  nfo nil cex3_keys = true /\
       match optimize nil nil N.eqb 10 cex3_keys with
       | Some t => ty_eqb t cex3_keys
       | None => true
       end = false.
Proof. exact NormalForm.optimize_nfo_id_refuted_keys. Qed.

(* non-vacuity: a non-trivial raw field set, its normal form, and the second pass *)
Definition ex_raw : fields :=
  [([97%N], TUnion [TList TUnknown; TList TNull; TInt; TFloat; TPseudo PInt; TPseudo PBool; TLit false [[120%N]]])].
Example C08_example_raw : raw_fields ex_raw = true.
Proof. vm_compute. reflexivity. Qed.
Example C08_example_nfo :
  match optimize_fields [PInt; PFloat; PBool] [(PInt, PFloat)] N.eqb 20 ex_raw with
  | Some fs => nfo [PInt; PFloat; PBool] (TObj fs) && match optimize_fields [PInt; PFloat; PBool] [(PInt, PFloat)] N.eqb 20 fs with
                                                       | Some fs' => ty_eqb (TObj fs) (TObj fs') | None => false end
  | None => false
  end = true.
Proof. vm_compute. reflexivity. Qed.
