(* Props/C08.v — type simplification reaches a stable normal form.  Statements only; proofs in Proofs/NormalForm.v.
   nf / ordered / nfo / raw_* are the decidable predicates of Sem/NF.v; wf3, opt_top, lits_bounded, samples_wf are the
   decidable side conditions the proofs forced (each refuted without it, see the *_refuted examples). *)
From Coq Require Import List Bool Arith NArith.
From J2M.Model Require Import Base Union Merge Optimize Detect.
From J2M.Sem Require Import NF.
From J2M.Proofs Require Import NormalForm.
Import ListNotations.

Theorem C08_mk_union_raw_ok :
  forall ts : list ty,
       (forall t : ty, In t (flatten_union ts) -> is_opt t = false /\ is_ptr t = false) ->
       mk_union ts <> nil -> raw_union_ok (mk_union ts) = true.
Proof. exact NormalForm.mk_union_raw_ok. Qed.

Theorem C08_generate_nfo :
  forall (registry : list pseudo) (replaces : list (pseudo * pseudo)) (accepts : pseudo -> str -> bool)
         (n_regex : nat) (key_matches : nat -> str -> bool) (dict_fields : list str) 
         (fuel : nat) (samples : list (list (str * json))) (fs : fields),
       generate registry replaces accepts n_regex key_matches dict_fields fuel samples = Some fs ->
       nfo registry (TObj fs) = true.
Proof. exact NormalForm.generate_nfo. Qed.

Theorem C08_generate_second_pass_id :
  forall (registry : list pseudo) (replaces : list (pseudo * pseudo)) (accepts : pseudo -> str -> bool)
         (n_regex : nat) (key_matches : nat -> str -> bool) (dict_fields : list str) 
         (fuel : nat) (samples : list (list (str * json))) (fs : fields) (peq : N -> N -> bool) 
         (fuel' : nat) (fs' : fields),
       samples_wf samples = true ->
       generate registry replaces accepts n_regex key_matches dict_fields fuel samples = Some fs ->
       optimize_fields registry replaces peq fuel' fs = Some fs' -> fs' = fs.
Proof. exact NormalForm.generate_second_pass_id. Qed.

Theorem C08_generate_second_pass_total :
  forall (registry : list pseudo) (replaces : list (pseudo * pseudo)) (accepts : pseudo -> str -> bool)
         (n_regex : nat) (key_matches : nat -> str -> bool) (dict_fields : list str) 
         (fuel : nat) (samples : list (list (str * json))) (fs : fields) (peq : N -> N -> bool),
       samples_wf samples = true ->
       generate registry replaces accepts n_regex key_matches dict_fields fuel samples = Some fs ->
       exists n : nat,
         forall fuel' : nat, n <= fuel' -> optimize_fields registry replaces peq fuel' fs = Some fs.
Proof. exact NormalForm.generate_second_pass_total. Qed.

Theorem C08_optimize_raw_nfo :
  forall (registry : list pseudo) (replaces : list (pseudo * pseudo)) (fuel : nat) (t t' : ty),
       raw_field t = true ->
       opt_top t = true ->
       lits_bounded t = true -> optimize registry replaces N.eqb fuel t = Some t' -> nfo registry t' = true.
Proof. exact NormalForm.optimize_raw_nfo. Qed.

Theorem C08_optimize_fields_nfo :
  forall (registry : list pseudo) (replaces : list (pseudo * pseudo)) (fuel : nat) (fs fs' : fields),
       raw_fields fs = true ->
       opt_top (TObj fs) = true ->
       lits_bounded (TObj fs) = true ->
       optimize_fields registry replaces N.eqb fuel fs = Some fs' -> nfo registry (TObj fs') = true.
Proof. exact NormalForm.optimize_fields_nfo. Qed.

Theorem C08_optimize_nfo_id :
  forall (registry : list pseudo) (replaces : list (pseudo * pseudo)) (peq : N -> N -> bool)
         (fuel : nat) (t t' : ty),
       nfo registry t = true -> wf3 t = true -> optimize registry replaces peq fuel t = Some t' -> t' = t.
Proof. exact NormalForm.optimize_nfo_id. Qed.

Theorem C08_optimize_total_nfo :
  forall (registry : list pseudo) (replaces : list (pseudo * pseudo)) (peq : N -> N -> bool) (t : ty),
       nfo registry t = true ->
       wf3 t = true ->
       exists n : nat, forall fuel : nat, n <= fuel -> optimize registry replaces peq fuel t <> None.
Proof. exact NormalForm.optimize_total_nfo. Qed.

Theorem C08_optimize_raw_nfo_refuted_literal :
  raw_field cex_lit = true /\
       opt_top cex_lit = true /\
       match optimize (PInt :: nil) nil N.eqb 10 cex_lit with
       | Some t => nfo (PInt :: nil) t
       | None => true
       end = false.
Proof. exact NormalForm.optimize_raw_nfo_refuted_literal. Qed.

Theorem C08_optimize_raw_nfo_refuted_optional :
  raw_field cex_opt = true /\
       lits_bounded cex_opt = true /\
       match optimize nil nil N.eqb 10 cex_opt with
       | Some t => nfo nil t
       | None => true
       end = false.
Proof. exact NormalForm.optimize_raw_nfo_refuted_optional. Qed.

Theorem C08_optimize_nfo_id_refuted_keys :
  nfo nil cex3_keys = true /\
       match optimize nil nil N.eqb 10 cex3_keys with
       | Some t => ty_eqb t cex3_keys
       | None => true
       end = false.
Proof. exact NormalForm.optimize_nfo_id_refuted_keys. Qed.

(* non-vacuity: a non-trivial raw field set, its normal form, and the second pass *)
Definition ex_raw : fields :=
  [([97%N], TUnion [TList TUnknown; TList TNull; TInt; TFloat; TPseudo PInt; TPseudo PBool; TLit false [[120%N]]])].
Example C08_example_raw : raw_fields ex_raw = true.
Proof. vm_compute. reflexivity. Qed.
Example C08_example_nfo :
  match optimize_fields [PInt; PFloat; PBool] [(PInt, PFloat)] N.eqb 20 ex_raw with
  | Some fs => nfo [PInt; PFloat; PBool] (TObj fs) && match optimize_fields [PInt; PFloat; PBool] [(PInt, PFloat)] N.eqb 20 fs with
                                                       | Some fs' => ty_eqb (TObj fs) (TObj fs') | None => false end
  | None => false
  end = true.
Proof. vm_compute. reflexivity. Qed.

(* ---- the REGISTRY stage (Proofs/RegistryNF.v).  nfw = ordered normal form + well-formed literals; sn = the semi-normal
   form that _merge followed by ONE simplification pass reaches (it still allows int beside float, Any beside a concrete
   member, str beside another string type, a repeated pointer); gnf / gsn: every model of the graph is nfw / sn.
   C08_pipeline_nfo: for EVERY run generate -> process_root -> merge_models that succeeds, every model of the final registry
   is in ordered normal form, and a further pass over any model (or all of them) that succeeds returns the SAME graph.
   C08_one_pass_not_enough / C08_final_pass_repairs: the second pass of merge_models is load-bearing — after the merge and
   one pass a merged model can still hold int beside float (the Optional member hid a second int and list.remove drops only
   one); the final pass repairs it.  The pass order does not matter: opt_model does not depend on the pointer comparison
   (GraphSound.optimize_gok).  NOT PROVED: that a further pass never runs out of the model's fuel (OPT_FUEL = 60 stands for
   Python's recursion limit): the stability statement is an implication. ---- *)
From J2M.Model Require Import Registry Groups.
From J2M.Proofs Require Import RegistryInvAux RegistryInv GraphSound RegistryNF.

Theorem C08_pipeline_nfo :
  forall (registry : list pseudo) (replaces : list (pseudo * pseudo)) (accepts : pseudo -> str -> bool)
         (n_regex : nat) (key_matches : nat -> str -> bool) (dict_fields : list str) 
         (R : nat -> nat -> bool) (fuel : nat) (samples : list (list (str * json))) 
         (fs : fields) (name : option str) (idx : N) (g1 g2 : graph) (reps : list (N * list N)),
       samples_wf samples = true ->
       generate registry replaces accepts n_regex key_matches dict_fields fuel samples = Some fs ->
       process_root fs name empty_graph = (idx, g1) ->
       merge_models registry replaces R g1 = Some (g2, reps) ->
       gnf registry g2 /\
       (forall (i : N) (g3 : graph), opt_model registry replaces g2 i = Some g3 -> g3 = g2) /\
       (forall (l : list N) (g3 : graph), opt_all registry replaces l (Some g2) = Some g3 -> g3 = g2).
Proof. exact RegistryNF.pipeline_nfo. Qed.

Theorem C08_merge_models_nfo :
  forall (registry : list pseudo) (replaces : list (pseudo * pseudo)) (R : nat -> nat -> bool)
         (g g' : graph) (reps : list (N * list N)),
       closed g -> gwf g -> gsn g -> merge_models registry replaces R g = Some (g', reps) -> gnf registry g'.
Proof. exact RegistryNF.merge_models_nfo. Qed.

Theorem C08_merge_models_stable :
  forall (registry : list pseudo) (replaces : list (pseudo * pseudo)) (R : nat -> nat -> bool)
         (g g' : graph) (reps : list (N * list N)),
       closed g ->
       gwf g ->
       gsn g ->
       merge_models registry replaces R g = Some (g', reps) ->
       (forall (i : N) (g2 : graph), opt_model registry replaces g' i = Some g2 -> g2 = g') /\
       (forall (l : list N) (g2 : graph), opt_all registry replaces l (Some g') = Some g2 -> g2 = g').
Proof. exact RegistryNF.merge_models_stable. Qed.

Theorem C08_opt_model_nfo :
  forall (registry : list pseudo) (replaces : list (pseudo * pseudo)) (g : graph) (i : N) (g' : graph),
       gwf g ->
       (forall fs : fields, fields_of g i = Some fs -> snf fs = true) ->
       opt_model registry replaces g i = Some g' ->
       exists fs' : fields,
         fields_of g' i = Some fs' /\
         nfw registry fs' = true /\ (forall j : N, j <> i -> find_model g' j = find_model g j).
Proof. exact RegistryNF.opt_model_nfo. Qed.

Theorem C08_merge_group_gsn :
  forall (registry : list pseudo) (replaces : list (pseudo * pseudo)) (g : graph) 
         (mbs : list N) (g1 : graph),
       closed g -> gwf g -> gsn g -> merge_group registry replaces g mbs = Some g1 -> gsn g1.
Proof. exact RegistryNF.merge_group_gsn. Qed.

Theorem C08_optimize_sn_nfo :
  forall (registry : list pseudo) (replaces : list (pseudo * pseudo)) (peq : N -> N -> bool)
         (fuel : nat) (t t' : ty),
       sn t = true ->
       optimize registry replaces peq fuel t = Some t' -> nfo registry t' = true /\ wf3 t' = true.
Proof. exact RegistryNF.optimize_sn_nfo. Qed.

Theorem C08_optimize_mm_sn :
  forall (registry : list pseudo) (replaces : list (pseudo * pseudo)) (peq : N -> N -> bool)
         (fuel : nat) (t t' : ty),
       mm t = true -> optimize registry replaces peq fuel t = Some t' -> sn t' = true.
Proof. exact RegistryNF.optimize_mm_sn. Qed.

Theorem C08_one_pass_not_enough :
  merge_group nil nil Cex.g1 (1%N :: 2%N :: 3%N :: nil) = Some Cex.g_mid /\
       fields_of Cex.g_mid 4 =
       Some ((Cex.kx, TOpt (TUnion (TBool :: TInt :: TFloat :: nil))) :: (Cex.ky, TOpt TInt) :: nil) /\
       nfw nil (fields_of_d Cex.g_mid 4) = false /\ snf (fields_of_d Cex.g_mid 4) = true.
Proof. exact RegistryNF.Cex.merge_group_not_nfo. Qed.

Theorem C08_final_pass_repairs :
  merge_models nil nil Cex.R3 Cex.g1 = Some (Cex.g2, (4%N, 1%N :: 2%N :: 3%N :: nil) :: nil) /\
       mm_mid nil nil Cex.R3 Cex.g1 = Some (Cex.g_mid, (4%N, 1%N :: 2%N :: 3%N :: nil) :: nil) /\
       fields_of Cex.g2 4 =
       Some ((Cex.kx, TOpt (TUnion (TBool :: TFloat :: nil))) :: (Cex.ky, TOpt TInt) :: nil) /\
       all_nfw nil Cex.g2 = true /\ pass_all nil nil Cex.g2 = Some Cex.g2.
Proof. exact RegistryNF.Cex.merge_models_nfo_run. Qed.

