(* Props/C08.v — type simplification reaches a stable normal form.  Statements only; proofs are in Proofs/. *)
From Coq Require Import List Bool Arith NArith.
From J2M.Model Require Import Base Union Merge Optimize.
From J2M.Sem Require Import NF.
Import ListNotations.

(* non-vacuity: a non-trivial raw field set, its normal form, and the second pass *)
Definition ex_raw : fields :=
  [([97%N], TUnion [TList TUnknown; TList TNull; TInt; TFloat; TPseudo PInt; TPseudo PBool; TLit false [[120%N]]])].
Example C08_example_raw : raw_fields ex_raw = true.
Proof. vm_compute. reflexivity. Qed.
Example C08_example_nfo :
  match optimize_fields [PInt; PFloat; PBool] [(PInt, PFloat)] N.eqb 20 ex_raw with
  | Some fs => nfo [PInt; PFloat; PBool] (TObj fs) && match optimize_fields [PInt; PFloat; PBool] [(PInt, PFloat)] N.eqb 20 fs with
                                                       | Some fs' => ty_eqb (TObj fs) (TObj fs') | None => false end
  | None => false
  end = true.
Proof. vm_compute. reflexivity. Qed.
