(* Props/C18.v — generated attrs / dataclass models construct from their samples and convert.
   This revision: non-vacuity examples of the converter model (Model/Converters.v, tied by X-conv on every sample object
   of the run); run_path_correct is merged from Proofs/ when finished. *)
From Coq Require Import List Bool Arith NArith String.
From J2M.Model Require Import Base Emit Converters.
Import ListNotations.
Definition acc_int (p : pseudo) (s : str) : bool := match p with PInt => forallb (fun c => (48 <=? c)%N && (c <=? 57)%N) s | _ => false end.
(* Optional[List[IntString]] : path O.L.S ; None is kept (D13, fixed), strings are parsed, the list is mapped *)
Example C18_example_path : path_of (TOpt (TList (TPseudo PInt))) = Some (Some (s_ "OLS")).
Proof. reflexivity. Qed.
Example C18_example_none : run_path acc_int (s_ "OLS") JNull (TOpt (TList (TPseudo PInt))) false = Some (VRaw JNull).
Proof. reflexivity. Qed.
Example C18_example_list :
  run_path acc_int (s_ "OLS") (JArr [JStr (s_ "1"); JStr (s_ "42")]) (TOpt (TList (TPseudo PInt))) false
  = Some (VList [VParsed PInt (s_ "1"); VParsed PInt (s_ "42")]).
Proof. reflexivity. Qed.
Example C18_example_spec :
  convert_spec 5 (TOpt (TList (TPseudo PInt))) (JArr [JStr (s_ "1"); JStr (s_ "42")]) = VList [VParsed PInt (s_ "1"); VParsed PInt (s_ "42")].
Proof. reflexivity. Qed.
