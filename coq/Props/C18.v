(* Props/C18.v — generated attrs / dataclass models construct from their samples and convert.  Statements only; proofs in
   Proofs/ConvProps.v.  Model: Model/Converters.v (run_path = the Python post-init converter walking a path such as "OLS";
   convert_spec = the specification: parse at pseudo-typed leaves, keep null, map over lists and mappings, leave the rest),
   Model/Emit.v (path_of / string_field_paths = get_string_field_paths).  Tie: X-conv runs run_path and the real
   __post_init__ on every sample object of the run.
   PROVED, for every type, value, acceptance oracle and model table: on a value that inhabits its annotation (ht) the
   converter never raises and returns exactly convert_spec (C18_run_path_correct / never_raises); post_init keeps the key
   order, converts every field that has a path and leaves every other field untouched (the C18_post_init theorems).  The premise
   NoDup (map fst fs) is necessary (C18_dup_fields_counterexample) and holds for Python dicts.  The code before the D13
   repair is refuted (C18_unrepaired_code_refuted).
   NOT PROVED here: that the value of the sample inhabits the annotation is C01 (Sound.generate_sound); the constructor of
   attrs / dataclasses itself and the per-field converter= form (D14, known finding) are runtime behaviour, covered by the
   oracle only. *)
From Coq Require Import List Bool Arith NArith ZArith String.
From J2M.Model Require Import Base Emit Converters.
From J2M.Sem Require Import HasType.
From J2M.Proofs Require Import ConvProps.
Import ListNotations.
Definition acc_int (p : pseudo) (s : str) : bool := match p with PInt => forallb (fun c => (48 <=? c)%N && (c <=? 57)%N) s | _ => false end.
(* Optional[List[IntString]] : path O.L.S ; None is kept (D13, fixed), strings are parsed, the list is mapped *)
Example C18_example_path : path_of (TOpt (TList (TPseudo PInt))) = Some (Some (s_ "OLS")).
Proof. reflexivity. Qed.
Example C18_example_none : run_path acc_int (s_ "OLS") JNull (TOpt (TList (TPseudo PInt))) false = Some (VRaw JNull).
Proof. reflexivity. Qed.
Example C18_example_list :
  run_path acc_int (s_ "OLS") (JArr [JStr (s_ "1"); JStr (s_ "42")]) (TOpt (TList (TPseudo PInt))) false
  = Some (VList [VParsed PInt (s_ "1"); VParsed PInt (s_ "42")]).
Proof. reflexivity. Qed.
Example C18_example_spec :
  convert_spec 5 (TOpt (TList (TPseudo PInt))) (JArr [JStr (s_ "1"); JStr (s_ "42")]) = VList [VParsed PInt (s_ "1"); VParsed PInt (s_ "42")].
Proof. reflexivity. Qed.

Theorem C18_path_of_shape_iff :
  forall (t : ty) (p : str), path_of t = Some (Some p) <-> shape p t.
Proof. exact ConvProps.path_of_shape_iff. Qed.

Theorem C18_path_of_tokens :
  forall (t : ty) (p : str),
       path_of t = Some (Some p) ->
       exists q : list N, p = q ++ 83%N :: nil /\ Forall (fun c : N => c = 79%N \/ c = 76%N \/ c = 68%N) q.
Proof. exact ConvProps.path_of_tokens. Qed.

Theorem C18_run_path_correct :
  forall (accepts : pseudo -> str -> bool) (mf : N -> option fields) (t : ty) (p : str) (v : json),
       ht accepts mf v t ->
       path_of t = Some (Some p) ->
       exists n : nat,
         n = Datatypes.length p /\
         (forall fuel : nat, n <= fuel -> run_path accepts p v t false = Some (convert_spec fuel t v)).
Proof. exact ConvProps.run_path_correct. Qed.

Theorem C18_run_path_never_raises :
  forall (accepts : pseudo -> str -> bool) (mf : N -> option fields) (t : ty) (p : str) (v : json),
       ht accepts mf v t -> path_of t = Some (Some p) -> run_path accepts p v t false <> None.
Proof. exact ConvProps.run_path_never_raises. Qed.

Theorem C18_post_init_correct :
  forall (accepts : pseudo -> str -> bool) (mf : N -> option fields) (fs : list (str * ty))
         (paths : list (str * str)) (obj : list (str * json)),
       NoDup (map fst fs) ->
       string_field_paths fs = Some paths ->
       obj_ok accepts mf fs obj ->
       post_init accepts fs obj = Some (map (fun kv : str * json => (fst kv, conv_field fs kv)) obj).
Proof. exact ConvProps.post_init_correct. Qed.

Theorem C18_post_init_lookup_path :
  forall (accepts : pseudo -> str -> bool) (mf : N -> option fields) (fs : list (str * ty))
         (paths : list (str * str)) (obj : list (str * json)),
       NoDup (map fst fs) ->
       string_field_paths fs = Some paths ->
       obj_ok accepts mf fs obj ->
       NoDup (map fst obj) ->
       exists res : list (str * cval),
         post_init accepts fs obj = Some res /\
         map fst res = map fst obj /\
         (forall (k : str) (v : json) (t : ty) (p : str),
          In (k, v) obj ->
          lookup k fs = Some t ->
          path_of t = Some (Some p) ->
          forall fuel : nat, Datatypes.length p <= fuel -> lookup k res = Some (convert_spec fuel t v)).
Proof. exact ConvProps.post_init_lookup_path. Qed.

Theorem C18_post_init_lookup_nopath :
  forall (accepts : pseudo -> str -> bool) (mf : N -> option fields) (fs : list (str * ty))
         (paths : list (str * str)) (obj : list (str * json)),
       NoDup (map fst fs) ->
       string_field_paths fs = Some paths ->
       obj_ok accepts mf fs obj ->
       NoDup (map fst obj) ->
       exists res : list (str * cval),
         post_init accepts fs obj = Some res /\
         (forall (k : str) (v : json) (t : ty),
          In (k, v) obj -> lookup k fs = Some t -> path_of t = Some None -> lookup k res = Some (VRaw v)).
Proof. exact ConvProps.post_init_lookup_nopath. Qed.

Theorem C18_unrepaired_code_refuted :
  forall (accepts : pseudo -> str -> bool) (mf : N -> option fields),
       ~
       (forall (t : ty) (p : str) (v : json),
        ht accepts mf v t -> path_of t = Some (Some p) -> run_path_old accepts p v t false <> None).
Proof. exact ConvProps.run_path_old_not_safe. Qed.

Theorem C18_dup_fields_counterexample :
  let acc := fun (_ : pseudo) (_ : str) => true in
       let mf := fun _ : N => None in
       let fs := (97%N :: nil, TInt) :: (97%N :: nil, TPseudo PInt) :: nil in
       let obj := (97%N :: nil, JInt Z0) :: nil in
       string_field_paths fs = Some ((97%N :: nil, nil) :: nil) /\
       obj_ok acc mf fs obj /\ post_init acc fs obj = None.
Proof. exact ConvProps.post_init_dup_fields_raises. Qed.

