(* Props/C07.v — sample order and repetition do not change what is inferred.  Statements only; proofs in
   Proofs/PermAux.v and Proofs/PermProps.v.
   FULL STATEMENT, PROVED (C07_generate_perm_dup): for sample lists equal as SETS (so: any permutation, any repetition),
   for every registry, replacement table, acceptance oracle, dict decision and fuel on which both runs succeed, the results
   of generate are equal up to field and member order (sem_eqb, decided by canon: C07_sem_eqb_iff).  C07_generate_perm is
   the permutation corollary.  Supporting statements kept: DUnion construction depends only on the set of flattened
   members; the key set and the required/optional status of every key of a merge depend only on the set of field sets.
   The registry stages (merge_models) are NOT covered by this theorem: they are covered by the oracle of the check
   (graph canonical form over permuted / duplicated samples) and by Views/Vperm.v on the model. *)
From Coq Require Import List Bool Arith NArith ZArith Permutation.
From J2M.Model Require Import Base Union Merge Optimize Detect Canon.
From J2M.Sem Require Import NF.
From J2M.Proofs Require Import NormalForm PermAux PermProps.

Theorem C07_sem_eqb_iff :
  forall a b : ty, sem_eqb a b = true <-> canon a = canon b.
Proof. exact PermAux.sem_eqb_iff. Qed.

Theorem C07_mk_union_set_sem :
  forall ts ts' : list ty,
       (forall x : ty, In x (flatten_union ts) <-> In x (flatten_union ts')) ->
       sem_eqb (TUnion (mk_union ts)) (TUnion (mk_union ts')) = true.
Proof. exact PermAux.mk_union_set_sem. Qed.

Theorem C07_merge_keys_status_set :
  forall (peq : N -> N -> bool) (sets sets' : list fields),
       good_sets_R sets ->
       good_sets_R sets' ->
       (forall s : fields, In s sets <-> In s sets') ->
       forall k : str,
       has_key k (merge_field_sets peq sets) = has_key k (merge_field_sets peq sets') /\
       (forall v v' : ty,
        lookup k (merge_field_sets peq sets) = Some v ->
        lookup k (merge_field_sets peq sets') = Some v' -> is_opt v = is_opt v').
Proof. exact PermAux.merge_keys_status_set. Qed.

Theorem C07_generate_perm_dup :
  forall (registry : list pseudo) (replaces : list (pseudo * pseudo)) (accepts : pseudo -> str -> bool)
         (n_regex : nat) (key_matches : nat -> str -> bool) (dict_fields : list str)
         (fuel fuel' : nat) (s1 s2 : list (list (str * json))) (f1 f2 : fields),
       (forall x : list (str * json), In x s1 <-> In x s2) ->
       Forall (fun s : list (str * json) => wf_json (JObj s) = true) s1 ->
       generate registry replaces accepts n_regex key_matches dict_fields fuel s1 = Some f1 ->
       generate registry replaces accepts n_regex key_matches dict_fields fuel' s2 = Some f2 ->
       sem_eqb (TObj f1) (TObj f2) = true.
Proof. exact PermProps.generate_perm_dup. Qed.

Theorem C07_generate_perm :
  forall (registry : list pseudo) (replaces : list (pseudo * pseudo)) (accepts : pseudo -> str -> bool)
         (n_regex : nat) (key_matches : nat -> str -> bool) (dict_fields : list str)
         (fuel fuel' : nat) (s1 s2 : list (list (str * json))) (f1 f2 : fields),
       Permutation s1 s2 ->
       Forall (fun s : list (str * json) => wf_json (JObj s) = true) s1 ->
       generate registry replaces accepts n_regex key_matches dict_fields fuel s1 = Some f1 ->
       generate registry replaces accepts n_regex key_matches dict_fields fuel' s2 = Some f2 ->
       sem_eqb (TObj f1) (TObj f2) = true.
Proof. exact PermProps.generate_perm. Qed.

From Coq Require Import String.
From J2M.Model Require Import Emit.
Import ListNotations.
Definition s1 : list (str * json) := [(s_ "a", JInt 1); (s_ "b", JStr (s_ "x"))].
Definition s2 : list (str * json) := [(s_ "a", JFloat 0); (s_ "c", JNull)].
Definition s3 : list (str * json) := [(s_ "b", JStr (s_ "y")); (s_ "a", JNull)].
Definition gen (l : list (list (str * json))) := generate [] [] (fun _ _ => false) 0 (fun _ _ => false) [] 30 l.
Example C07_example_perm_dup :
  match gen [s1; s2; s3], gen [s3; s1; s2; s1] with
  | Some f, Some f' => sem_eqb (TObj f) (TObj f') && negb (ty_eqb (TObj f) (TObj f'))
  | _, _ => false
  end = true.
Proof. vm_compute. reflexivity. Qed.

(* ---- the model of Python == on type metadata is the implementation's sorted comparison (Model/PyStr.v, Model/Merge.v py_eq;
   tied by X-pyeq, tools/validate_pyeq.py).  It is ORDER SENSITIVE on raw dicts with one key set: samples that are equal under
   Python == but differ in JSON type (1 / 1.0 / true) make such unions arrive in different member orders.  The theorems above
   hold for this exact relation: the shortcut "equal -> keep the old type" and the general branch "unite the members" give
   results that are equal up to order either way. ---- *)
From J2M.Model Require Import PyStr.
From J2M.Proofs Require Import Sound.

Theorem C07_py_eq_is_sorted_comparison :
  forall (peq : N -> N -> bool) (xs ys : list ty),
       py_eq peq (TUnion xs) (TUnion ys) = true <->
       Forall2 (fun x y : ty => py_eq peq x y = true) (ssort xs) (ssort ys).
Proof. exact Sound.py_eq_union_sorted. Qed.

Theorem C07_py_eq_order_sensitive :
  py_eq N.eqb (TUnion (TObj ((97%N :: nil, TBool) :: nil) :: TObj ((97%N :: nil, TInt) :: nil) :: nil))
         (TUnion (TObj ((97%N :: nil, TInt) :: nil) :: TObj ((97%N :: nil, TBool) :: nil) :: nil)) = false /\
       py_eq N.eqb (TUnion (TObj ((97%N :: nil, TBool) :: nil) :: TObj ((97%N :: nil, TInt) :: nil) :: nil))
         (TUnion (TObj ((97%N :: nil, TBool) :: nil) :: TObj ((97%N :: nil, TInt) :: nil) :: nil)) = true.
Proof. exact Sound.py_eq_order_sensitive. Qed.

Theorem C07_py_eq_order_free :
  py_eq N.eqb (TUnion (TInt :: TList TStr :: nil)) (TUnion (TList TStr :: TInt :: nil)) = true /\
       py_eq N.eqb
         (TUnion (TObj ((97%N :: nil, TBool) :: nil) :: TInt :: TObj ((98%N :: nil, TBool) :: nil) :: nil))
         (TUnion (TObj ((98%N :: nil, TBool) :: nil) :: TObj ((97%N :: nil, TBool) :: nil) :: TInt :: nil)) =
       true.
Proof. exact Sound.py_eq_order_free. Qed.

