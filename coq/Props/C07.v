(* Props/C07.v — sample order and repetition do not change what is inferred.
   This revision: sem_eqb (equality up to field / member order, Model/Canon.v) on a concrete permuted and duplicated input;
   generate_perm_dup is being proved in Proofs/PermProps.v and merged when finished.  The model statement is tested on
   every case of the run (Views/Vperm.v) and the implementation by the oracle on all permutations of <=4 samples. *)
From Coq Require Import List Bool Arith NArith ZArith String.
From J2M.Model Require Import Base Union Merge Optimize Detect Canon Emit.
Import ListNotations.
Definition s1 : list (str * json) := [(s_ "a", JInt 1); (s_ "b", JStr (s_ "x"))].
Definition s2 : list (str * json) := [(s_ "a", JFloat 0); (s_ "c", JNull)].
Definition s3 : list (str * json) := [(s_ "b", JStr (s_ "y")); (s_ "a", JNull)].
Definition gen (l : list (list (str * json))) := generate [] [] (fun _ _ => false) 0 (fun _ _ => false) [] 30 l.
Example C07_example_perm_dup :
  match gen [s1; s2; s3], gen [s3; s1; s2; s1] with
  | Some f, Some f' => sem_eqb (TObj f) (TObj f') && negb (ty_eqb (TObj f) (TObj f'))
  | _, _ => false
  end = true.
Proof. vm_compute. reflexivity. Qed.
