"""Implementation side of the correspondence: thin wrappers over /repo's public API (no source hooks)."""
import copy
import os
import re

from . import coqterm as ct
from .common import setup_import_path
from .gen import all_keys, all_strings

setup_import_path()

PSEUDO_ORDER = ["IntString", "FloatString", "BooleanString", "IsoDateString", "IsoTimeString", "IsoDatetimeString"]


def pseudo_classes():
    import json_to_models.dynamic_typing as dt
    return {n: getattr(dt, n) for n in PSEUDO_ORDER}


_LIVE_REPLACES = None


def live_replaces():
    """The replace pairs the package registers NOW: the decorators of string_serializable.py plus register_datetime_classes on
    a fresh registry.  Read in a fresh process (other calls of this process may have mutated the default registry), once."""
    global _LIVE_REPLACES
    if _LIVE_REPLACES is None:
        import json
        import subprocess
        from . import common
        code = ("import json\n"
                "from json_to_models.dynamic_typing import StringSerializableRegistry, register_datetime_classes\n"
                "from json_to_models.dynamic_typing.string_serializable import registry\n"
                "r2 = StringSerializableRegistry(); register_datetime_classes(r2)\n"
                "print(json.dumps(sorted({(a.__name__, b.__name__) for a, b in set(registry.replaces) | set(r2.replaces)})))\n")
        p = subprocess.run([common.PY, "-c", code], capture_output=True, text=True, env=dict(os.environ, PYTHONPATH=common.REPO), timeout=120)
        if p.returncode != 0:
            raise RuntimeError("cannot read the registered replace pairs: " + p.stderr[-400:])
        _LIVE_REPLACES = tuple(tuple(x) for x in json.loads(p.stdout))
    return _LIVE_REPLACES


def make_registry(names=("IntString", "FloatString", "BooleanString")):
    """A fresh StringSerializableRegistry holding the named classes in that order, with the replace pairs the package
    registers (live_replaces).  Built without reading this process's default registry, which other calls may have mutated."""
    from json_to_models.dynamic_typing import StringSerializableRegistry
    cl = pseudo_classes()
    reg = StringSerializableRegistry()
    for n in names:
        reg.types.append(cl[n])
    for a, b in live_replaces():
        if a in names and b in names:
            reg.replaces.add((cl[a], cl[b]))
    return reg


def accepts(cls, s):
    try:
        cls.to_internal_value(s)
        return True
    except ValueError:
        return False


def err_tag(e):
    return type(e).__name__ if type(e).__name__ in ("IndexError", "ValueError", "TypeError", "RecursionError", "KeyError") else "Other:" + type(e).__name__


def run_generate(samples, reg_names=("IntString", "FloatString", "BooleanString"), dkr=None, dkf=None):
    """-> (fields | None, error tag | None, generator)"""
    from json_to_models.generator import MetadataGenerator
    reg = make_registry(reg_names)
    g = MetadataGenerator(reg, dict_keys_regex=list(dkr) if dkr else None, dict_keys_fields=list(dkf) if dkf else None)
    try:
        return g.generate(*copy.deepcopy(samples)), None, g
    except (IndexError, ValueError, TypeError, RecursionError, KeyError, StopIteration) as e:
        return None, err_tag(e), g


def infer_case_term(samples, reg_names, dkr, dkf, result):
    """Coq record term for Views/Vinfer.case"""
    cl = pseudo_classes()
    reg = make_registry(reg_names)
    strings = sorted(set().union(*[all_strings(s) for s in samples]) if samples else [])
    acc = [(s, [n for n in reg_names if accepts(cl[n], s)]) for s in strings]
    keys = sorted(set().union(*[all_keys(s) for s in samples]) if samples else [])
    rx = [[(k, bool(re.compile(r).match(k))) for k in keys] for r in (dkr or [])]
    reps = [(a.__name__, b.__name__) for a, b in reg.replaces]
    reps.sort()
    return ("{| c_registry := " + ct.clist([ct.PSEUDO[n] for n in reg_names]) +
            "; c_replaces := " + ct.clist([f"({ct.PSEUDO[a]}, {ct.PSEUDO[b]})" for a, b in reps]) +
            "; c_accepts := " + ct.clist([f"({ct.cstr(s)}, {ct.clist([ct.PSEUDO[n] for n in l])})" for s, l in acc]) +
            "; c_regex := " + ct.clist([ct.clist([f"({ct.cstr(k)}, {ct.cbool(b)})" for k, b in tab]) for tab in rx]) +
            "; c_dict_fields := " + ct.clist([ct.cstr(k) for k in (dkf or [])]) +
            "; c_samples := " + ct.clist([ct.cobj(s) for s in samples]) +
            "; c_expected := " + ct.copt(result, ct.cfields) + " |}")


def make_cmp(spec):
    """spec: None (default) | list of ('exact',) | ('percent', p) | ('number', n)"""
    from json_to_models.registry import ModelFieldsEquals, ModelFieldsNumberMatch, ModelFieldsPercentMatch
    if not spec:
        return ()
    out = []
    for s in spec:
        if s[0] == "exact":
            out.append(ModelFieldsEquals())
        elif s[0] == "percent":
            out.append(ModelFieldsPercentMatch(s[1]))
        elif s[0] == "number":
            out.append(ModelFieldsNumberMatch(s[1]))
        else:
            raise ValueError(s)
    return tuple(out)


def run_registry(roots, cmp_spec=None, gen=None, table=None):
    """roots: list of (fields as returned by generate(), name or None). Runs process_meta_data + merge_models.
    table: optional set of frozenset({i,j}) index pairs -> table-driven comparator (ignores key sets).
    -> dict(reg=registry, pairs=[(i,j)], replaces=[(idx, [idx..])] | error=tag)"""
    from json_to_models.registry import ModelRegistry, ModelCmp
    from json_to_models.generator import MetadataGenerator
    gen = gen or MetadataGenerator(make_registry())
    reg = ModelRegistry(*make_cmp(cmp_spec))
    pairs = []
    orig = reg._models_cmp_fn

    def cmpw(a, b):
        if table is not None:
            r = frozenset((ct.index_to_n(a.index), ct.index_to_n(b.index))) in table
        else:
            r = orig(a, b)
        if r:
            pairs.append((ct.index_to_n(a.index), ct.index_to_n(b.index)))
        return r
    reg._models_cmp_fn = cmpw
    out = {"reg": reg, "pairs": pairs, "gen": gen}
    try:
        for fields, name in roots:
            reg.process_meta_data(fields, name)
        out["pre_keys"] = {ct.index_to_n(m.index): list(m.type.keys()) for m in reg.models}
        reps = reg.merge_models(gen)
        out["replaces"] = [(ct.index_to_n(m.index), sorted(ct.index_to_n(x.index) for x in grp)) for m, grp in reps]
        out["error"] = None
    except (IndexError, ValueError, TypeError, RecursionError, KeyError, StopIteration) as e:
        out["error"] = err_tag(e)
    return out


def all_pointers(reg):
    seen = {}
    for m in reg.models:
        for p in m.pointers:
            seen[id(p)] = p
        for p in m.child_pointers:
            seen[id(p)] = p
    return list(seen.values())


def registry_case_term(roots_terms, reg_names, res):
    """roots_terms: list of (coq fields term, name|None) captured BEFORE process_meta_data mutated the dicts"""
    reg0 = make_registry(reg_names)
    reps = sorted((a.__name__, b.__name__) for a, b in reg0.replaces)
    if res["error"] is None:
        r = res["reg"]
        ems = ct.clist([f"({ct.index_to_n(m.index)}%N, {ct.cfields(m.type)}, {ct.copt(m.name, ct.cstr)}, {ct.copt(m.is_name_generated, ct.cbool)})"
                        for m in r.models])
        ptrs = all_pointers(r)
        eps = ct.clist([f"({ct.index_to_n(p.type.index)}%N, {ct.copt(p.parent, lambda q: str(ct.index_to_n(q.index)) + '%N')}, {ct.copt(p.parent_field_name, ct.cstr)})"
                        for p in ptrs])
        ereps = ct.clist([f"({i}%N, {ct.clist([str(x) + '%N' for x in grp])})" for i, grp in res["replaces"]])
        exp = f"(Some ({ems}, {eps}, {ereps}))"
    else:
        exp = "None"
    return ("{| c_registry := " + ct.clist([ct.PSEUDO[n] for n in reg_names]) +
            "; c_replaces := " + ct.clist([f"({ct.PSEUDO[a]}, {ct.PSEUDO[b]})" for a, b in reps]) +
            "; c_roots := " + ct.clist([f"({f}, {ct.copt(n, ct.cstr)})" for f, n in roots_terms]) +
            "; c_pairs := " + ct.clist([f"({a}%N, {b}%N)" for a, b in res["pairs"]]) +
            "; c_expected := " + exp + " |}")
