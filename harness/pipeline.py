"""The library pipeline (generate -> registry -> merge -> names -> structure -> code) with every option explicit,
and a loader that imports emitted text as a real module (pydantic / dataclasses look up sys.modules[cls.__module__])."""
import copy
import sys
import types

from . import impl
from .common import setup_import_path

setup_import_path()

FRAMEWORKS = ("base", "pydantic", "sqlmodel", "attrs", "dataclasses")
DEFAULT_OPTS = dict(fw="pydantic", structure="flat", cmp=None, rn=("IntString", "FloatString", "BooleanString"),
                    dkr=None, dkf=None, max_literals=10, converters=False, meta=False, unidecode=True, preamble=None,
                    root_name="Root")


def generator_class(fw):
    from json_to_models.models.attr import AttrsModelCodeGenerator
    from json_to_models.models.base import GenericModelCodeGenerator
    from json_to_models.models.dataclasses import DataclassModelCodeGenerator
    from json_to_models.models.pydantic import PydanticModelCodeGenerator
    from json_to_models.models.sqlmodel import SqlModelCodeGenerator
    return {"base": GenericModelCodeGenerator, "pydantic": PydanticModelCodeGenerator, "attrs": AttrsModelCodeGenerator,
            "dataclasses": DataclassModelCodeGenerator, "sqlmodel": SqlModelCodeGenerator}[fw]


def generator_kwargs(o):
    kw = dict(max_literals=o["max_literals"], post_init_converters=o["converters"], convert_unicode=o["unidecode"])
    if o["fw"] in ("attrs", "dataclasses"):
        kw["meta"] = o["meta"]
    return kw


def build_registry(samples_by_root, o):
    """samples_by_root: list of (name, [samples]) -> (ModelRegistry, MetadataGenerator)"""
    from json_to_models.generator import MetadataGenerator
    from json_to_models.registry import ModelRegistry
    sreg = impl.make_registry(o["rn"])
    g = MetadataGenerator(sreg, dict_keys_regex=list(o["dkr"]) if o["dkr"] else None,
                          dict_keys_fields=list(o["dkf"]) if o["dkf"] else None)
    r = ModelRegistry(*impl.make_cmp(o["cmp"]))
    for name, samples in samples_by_root:
        r.process_meta_data(g.generate(*copy.deepcopy(samples)), name)
    r.merge_models(g)
    r.generate_names()
    return r, g


def render(reg, o):
    from json_to_models.models.base import generate_code
    from json_to_models.models.structure import compose_models, compose_models_flat
    st = (compose_models if o["structure"] == "nested" else compose_models_flat)(reg.models_map)
    return generate_code(st, generator_class(o["fw"]), class_generator_kwargs=generator_kwargs(o), preamble=o["preamble"])


def run(samples, **opts):
    """-> (code, registry).  Raises whatever the library raises."""
    o = dict(DEFAULT_OPTS)
    o.update(opts)
    reg, _ = build_registry([(o["root_name"], samples)], o)
    return render(reg, o), reg


def _ptrs(t, acc):
    from json_to_models.dynamic_typing import BaseType, ModelPtr
    if isinstance(t, dict):
        for v in t.values():
            _ptrs(v, acc)
    elif isinstance(t, ModelPtr):
        acc.append(t)
    elif isinstance(t, BaseType):
        for x in t:
            _ptrs(x, acc)
    return acc


def referrers(reg):
    """model index -> set of indices of the models whose fields reference it (live references only)"""
    ref = {m.index: set() for m in reg.models}
    for m in reg.models:
        for p in _ptrs(m.type, []):
            ref.setdefault(p.type.index, set()).add(m.index)
    return ref


def tree_shaped(reg):
    """every model is referenced from at most one class, never from itself, and exactly the unreferenced models are roots"""
    ref = referrers(reg)
    for i, rs in ref.items():
        if len(rs) > 1 or i in rs:
            return False
    # no cycles: walk up from every model
    for i in ref:
        seen, cur = set(), i
        while ref.get(cur):
            if cur in seen:
                return False
            seen.add(cur)
            (cur,) = ref[cur]
    return True


_n = [0]


def load(code, name=None):
    """exec emitted text as a module registered in sys.modules; resolves pydantic forward references"""
    _n[0] += 1
    name = name or f"j2m_generated_{_n[0]}"
    m = types.ModuleType(name)
    sys.modules[name] = m
    try:
        exec(compile(code, name, "exec"), m.__dict__)
        for v in list(m.__dict__.values()):
            if isinstance(v, type) and v.__module__ == name:
                _update_refs(v, m.__dict__)
    except BaseException:
        sys.modules.pop(name, None)
        raise
    return m


def _update_refs(cls, ns, seen=None):
    """resolve forward references with the class scope chain: module globals, enclosing classes' nested classes, own nested"""
    seen = seen if seen is not None else set()
    if cls in seen:
        return
    seen.add(cls)
    local = dict(ns)
    local[cls.__name__] = cls
    for v in list(vars(cls).values()):
        if isinstance(v, type) and v.__module__ == cls.__module__:
            local[v.__name__] = v
    for v in list(vars(cls).values()):
        if isinstance(v, type) and v.__module__ == cls.__module__:
            _update_refs(v, local, seen)
    if hasattr(cls, "update_forward_refs"):
        cls.update_forward_refs(**local)


def unload(m):
    sys.modules.pop(m.__name__, None)
