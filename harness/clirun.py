"""Running the real command line in fresh subprocesses (python -m json_to_models), in parallel."""
import os
import shutil
import subprocess
import sys
import tempfile
from concurrent.futures import ThreadPoolExecutor

from . import common


def run_cli(argv, cwd, hashseed="0", timeout=120):
    env = common.child_env(hashseed)
    try:
        p = subprocess.run([common.PY, "-m", "json_to_models"] + list(argv), cwd=cwd, env=env, capture_output=True,
                           timeout=timeout)
        return p.returncode, p.stdout.decode("utf8", "replace"), p.stderr.decode("utf8", "replace")
    except subprocess.TimeoutExpired:
        return 124, "", "TIMEOUT"


def strip_header(out):
    """-> (header text, rest) ; the header is the first r\"\"\"...\"\"\" block"""
    if not out.startswith('r"""\n'):
        return None, out
    i = out.find('\n"""\n', 4)
    if i < 0:
        return None, out
    return out[:i + 5], out[i + 5:]


class Sandbox:
    def __init__(self, tag):
        self.dir = tempfile.mkdtemp(prefix=f"cli-{tag}-", dir=common.BUILD)

    def write(self, name, text, mode="w"):
        p = os.path.join(self.dir, name)
        os.makedirs(os.path.dirname(p), exist_ok=True)
        with open(p, mode, **({"encoding": "utf8"} if "b" not in mode else {})) as f:
            f.write(text)
        return p

    def read(self, name):
        p = os.path.join(self.dir, name)
        if not os.path.exists(p):
            return None
        return open(p, "rb").read()

    def close(self):
        shutil.rmtree(self.dir, ignore_errors=True)


def parallel(fn, items, workers=None):
    with ThreadPoolExecutor(max_workers=workers or common.NPROC) as ex:
        return list(ex.map(fn, items))
