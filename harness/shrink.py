"""Greedy shrinking of failing cases (drop samples, drop keys, simplify values, shorten lists/strings)."""
import copy


def _candidates(v):
    """simpler variants of one JSON value"""
    if isinstance(v, dict):
        for k in list(v):
            d = dict(v)
            del d[k]
            yield d
        for k in list(v):
            for c in _candidates(v[k]):
                d = dict(v)
                d[k] = c
                yield d
    elif isinstance(v, list):
        for i in range(len(v)):
            yield v[:i] + v[i + 1:]
        for i in range(len(v)):
            for c in _candidates(v[i]):
                yield v[:i] + [c] + v[i + 1:]
    elif isinstance(v, str):
        if len(v) > 1:
            yield v[:len(v) // 2]
            yield v[1:]
    elif isinstance(v, bool) or v is None:
        return
    elif isinstance(v, (int, float)):
        if v not in (0, 1):
            yield 1


def shrink_samples(samples, fails, budget=400):
    """samples: list of dicts; fails(samples) -> bool.  Returns a locally minimal failing list."""
    cur = copy.deepcopy(samples)
    steps = 0
    improved = True
    while improved and steps < budget:
        improved = False
        # drop a sample
        for i in range(len(cur)):
            if len(cur) <= 1:
                break
            cand = cur[:i] + cur[i + 1:]
            steps += 1
            try:
                if fails(copy.deepcopy(cand)):
                    cur = cand
                    improved = True
                    break
            except Exception:
                pass
        if improved:
            continue
        for i in range(len(cur)):
            done = False
            for c in _candidates(cur[i]):
                if not isinstance(c, dict):
                    continue
                cand = cur[:i] + [c] + cur[i + 1:]
                steps += 1
                if steps > budget:
                    break
                try:
                    if fails(copy.deepcopy(cand)):
                        cur = cand
                        improved = True
                        done = True
                        break
                except Exception:
                    pass
            if done:
                break
    return cur
