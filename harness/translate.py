"""(T) Fail-closed translator: regenerates coq/Gen/*.v from /repo's working tree on every run.

Each gen_* function walks the Python `ast` of one source file, recognises a closed list of shapes and prints
Coq text.  Anything it does not recognise raises Unsupported, which the checks treat as a broken tie (never as
success).  Files are rewritten only when their content changes so that `make` stays incremental."""
import ast
import os

from .common import COQ, REPO

PKG = os.path.join(REPO, "json_to_models")


class Unsupported(Exception):
    pass


def parse(rel):
    path = os.path.join(PKG, rel)
    return ast.parse(open(path, encoding="utf8").read(), filename=path)


def find_class(tree, name):
    for n in ast.walk(tree):
        if isinstance(n, ast.ClassDef) and n.name == name:
            return n
    raise Unsupported(f"class {name} not found")


def find_func(node, name):
    for n in node.body:
        if isinstance(n, (ast.FunctionDef,)) and n.name == name:
            return n
    raise Unsupported(f"function {name} not found in {getattr(node, 'name', 'module')}")


def class_const(cls, name):
    for n in cls.body:
        if isinstance(n, ast.Assign) and len(n.targets) == 1 and isinstance(n.targets[0], ast.Name) and n.targets[0].id == name:
            return n.value
        if isinstance(n, ast.AnnAssign) and isinstance(n.target, ast.Name) and n.target.id == name and n.value is not None:
            return n.value
    raise Unsupported(f"constant {name} not found in class {cls.name}")


def coq_str(s):
    return "[" + ";".join(str(ord(c)) for c in s) + "]%N"


def nat_const(node):
    if isinstance(node, ast.Constant) and isinstance(node.value, int) and not isinstance(node.value, bool) and 0 <= node.value < 5000:
        return str(node.value)
    raise Unsupported(f"expected a small non-negative int constant, got {ast.dump(node)}")


class Expr:
    """boolean / nat expressions over lengths and named constants -> Coq (nat arithmetic, bool connectives)"""

    def __init__(self, names, self_attrs=None, lam_depth=0):
        self.names = names            # python name -> coq text
        self.self_attrs = self_attrs or {}

    def nat(self, n):
        if isinstance(n, ast.Call) and isinstance(n.func, ast.Name) and n.func.id == "len" and len(n.args) == 1 and not n.keywords:
            return f"(length {self.coll(n.args[0])})"
        if isinstance(n, ast.Constant):
            return nat_const(n)
        if isinstance(n, ast.Attribute) and isinstance(n.value, ast.Name) and n.value.id == "self" and n.attr in self.self_attrs:
            return self.self_attrs[n.attr]
        if isinstance(n, ast.Name) and n.id in self.names:
            return self.names[n.id]
        raise Unsupported(f"nat expression {ast.dump(n)}")

    def coll(self, n):
        if isinstance(n, ast.Name) and n.id in self.names:
            return self.names[n.id]
        if isinstance(n, ast.Attribute) and isinstance(n.value, ast.Name) and n.value.id == "self" and n.attr in self.self_attrs:
            return self.self_attrs[n.attr]
        if isinstance(n, ast.BinOp) and isinstance(n.op, ast.BitAnd):
            return f"(set_inter {self.coll(n.left)} {self.coll(n.right)})"
        if isinstance(n, ast.BinOp) and isinstance(n.op, ast.BitOr):
            return f"(set_union {self.coll(n.left)} {self.coll(n.right)})"
        raise Unsupported(f"collection expression {ast.dump(n)}")

    def cmp(self, op, a, b):
        if isinstance(op, ast.Gt):
            return f"(Nat.ltb {b} {a})"
        if isinstance(op, ast.GtE):
            return f"(Nat.leb {b} {a})"
        if isinstance(op, ast.Lt):
            return f"(Nat.ltb {a} {b})"
        if isinstance(op, ast.LtE):
            return f"(Nat.leb {a} {b})"
        if isinstance(op, ast.Eq):
            return f"(Nat.eqb {a} {b})"
        raise Unsupported(f"comparison {op}")

    def bool(self, n):
        if isinstance(n, ast.BoolOp):
            parts = [self.bool(v) for v in n.values]
            op = "orb" if isinstance(n.op, ast.Or) else "andb"
            out = parts[-1]
            for p in reversed(parts[:-1]):
                out = f"({op} {p} {out})"
            return out
        if isinstance(n, ast.Compare) and len(n.ops) == 1:
            return self.cmp(n.ops[0], self.nat(n.left), self.nat(n.comparators[0]))
        if (isinstance(n, ast.Call) and isinstance(n.func, ast.Name) and n.func.id == "any" and len(n.args) == 1
                and isinstance(n.args[0], ast.Call) and isinstance(n.args[0].func, ast.Name) and n.args[0].func.id == "map"
                and len(n.args[0].args) == 2 and isinstance(n.args[0].args[0], ast.Lambda)):
            lam = n.args[0].args[0]
            if len(lam.args.args) != 1:
                raise Unsupported("lambda arity")
            v = lam.args.args[0].arg
            inner = Expr(dict(self.names, **{v: v}), self.self_attrs)
            return f"(existsb (fun {v} => {inner.bool(lam.body)}) {self.coll(n.args[0].args[1])})"
        raise Unsupported(f"boolean expression {ast.dump(n)}")


HEADER = ("(* GENERATED by harness/translate.py from {src} — do not edit; rewritten on every run *)\n"
          "From Coq Require Import List Bool Arith NArith ZArith.\nFrom J2M.Model Require Import Base.\nImport ListNotations.\n\n")


# ----------------------------------------------------------------------------------------------------------------

def gen_limits():
    """complex.py: StringLiteral limits, overflow rule, render test; base.py DEFAULT_MAX_LITERALS; styles"""
    tree = parse("dynamic_typing/complex.py")
    cls = find_class(tree, "StringLiteral")
    ml = nat_const(class_const(cls, "MAX_LITERALS"))
    msl = nat_const(class_const(cls, "MAX_STRING_LENGTH"))
    init = find_func(cls, "__init__")
    if [a.arg for a in init.args.args] != ["self", "literals"]:
        raise Unsupported("StringLiteral.__init__ signature")
    body = [s for s in init.body if not (isinstance(s, ast.Expr) and isinstance(s.value, ast.Constant))]
    if len(body) != 2:
        raise Unsupported("StringLiteral.__init__ body has %d statements" % len(body))
    a0, a1 = body
    if not (isinstance(a0, ast.Assign) and isinstance(a0.targets[0], ast.Attribute) and a0.targets[0].attr == "_overflow"):
        raise Unsupported("first statement of StringLiteral.__init__ is not self._overflow = ...")
    ex = Expr({"literals": "literals"}, {"MAX_LITERALS": "MAX_LITERALS", "MAX_STRING_LENGTH": "MAX_STRING_LENGTH"})
    overflow = ex.bool(a0.value)
    # self._literals = frozenset() if self._overflow else literals
    ok = (isinstance(a1, ast.Assign) and isinstance(a1.targets[0], ast.Attribute) and a1.targets[0].attr == "_literals"
          and isinstance(a1.value, ast.IfExp) and ast.unparse(a1.value.test) == "self._overflow"
          and ast.unparse(a1.value.body) == "frozenset()" and ast.unparse(a1.value.orelse) == "literals")
    if not ok:
        raise Unsupported("second statement of StringLiteral.__init__: " + ast.unparse(a1))
    # to_typing_code
    ttc = find_func(cls, "to_typing_code")
    src = ast.unparse(ttc)
    stmts = [s for s in ttc.body if not (isinstance(s, ast.Expr) and isinstance(s.value, ast.Constant))]
    want0 = "options = self.get_options_for_type(self, types_style)"
    if ast.unparse(stmts[0]) != want0 or len(stmts) != 3:
        raise Unsupported("StringLiteral.to_typing_code prologue")
    if0 = stmts[1]
    if not (isinstance(if0, ast.If) and ast.unparse(if0.test) == "options.get(self.TypeStyle.use_literals)" and not if0.orelse
            and len(if0.body) == 2 and ast.unparse(if0.body[0]) == "limit = options.get(self.TypeStyle.max_literals)"):
        raise Unsupported("StringLiteral.to_typing_code: use_literals test")
    if1 = if0.body[1]
    if not (isinstance(if1, ast.If) and not if1.orelse and isinstance(if1.test, ast.BoolOp) and isinstance(if1.test.op, ast.Or)
            and len(if1.test.values) == 2 and ast.unparse(if1.test.values[0]) == "limit is None"):
        raise Unsupported("StringLiteral.to_typing_code: limit test")
    ex2 = Expr({"limit": "limit"}, {"literals": "literals"})
    render = ex2.bool(if1.test.values[1])
    want_body = ["parts = ', '.join((json.dumps(s, ensure_ascii=False) for s in sorted(self.literals)))",
                 "return ([(Literal.__module__, 'Literal')], f'Literal[{parts}]')"]
    got_body = [ast.unparse(s) for s in if1.body]
    if got_body != want_body:
        raise Unsupported("StringLiteral.to_typing_code: literal rendering changed: " + repr(got_body))
    if ast.unparse(stmts[2]) != "return ([], 'str')":
        raise Unsupported("StringLiteral.to_typing_code: fallback")
    # DEFAULT_MAX_LITERALS and the per-framework use_literals / use_actual_type tables
    base = parse("models/base.py")
    g = find_class(base, "GenericModelCodeGenerator")
    dml = nat_const(class_const(g, "DEFAULT_MAX_LITERALS"))

    def style(rel, clsname, inherit=None):
        c = find_class(parse(rel), clsname)
        try:
            d = class_const(c, "default_types_style")
        except Unsupported:
            if inherit is None:
                raise
            return inherit
        if not isinstance(d, ast.Dict):
            raise Unsupported("default_types_style is not a dict literal")
        out = {"use_literals": None, "use_actual_type": False}
        for k, v in zip(d.keys, d.values):
            kn = ast.unparse(k)
            if not isinstance(v, ast.Dict) or len(v.keys) != 1:
                raise Unsupported("style entry shape")
            opt = ast.unparse(v.keys[0])
            val = v.values[0]
            if not (isinstance(val, ast.Constant) and isinstance(val.value, bool)):
                raise Unsupported("style value")
            if (kn, opt) == ("StringLiteral", "StringLiteral.TypeStyle.use_literals"):
                out["use_literals"] = val.value
            elif (kn, opt) == ("StringSerializable", "StringSerializable.TypeStyle.use_actual_type"):
                out["use_actual_type"] = val.value
            else:
                raise Unsupported(f"unknown style entry {kn}: {opt}")
        if out["use_literals"] is None:
            out["use_literals"] = False
        return out
    st_base = style("models/base.py", "GenericModelCodeGenerator")
    st_pyd = style("models/pydantic.py", "PydanticModelCodeGenerator")
    st_sql = style("models/sqlmodel.py", "SqlModelCodeGenerator", inherit=st_pyd)
    st_attrs = style("models/attr.py", "AttrsModelCodeGenerator")
    st_dc = style("models/dataclasses.py", "DataclassModelCodeGenerator", inherit=st_base)
    # max_literals is forced into the style by __init__
    init_src = ast.unparse(find_func(g, "__init__"))
    if "resolved_types_style[StringLiteral][StringLiteral.TypeStyle.max_literals] = int(max_literals)" not in init_src:
        raise Unsupported("GenericModelCodeGenerator.__init__ no longer sets max_literals in the style")
    b = lambda x: "true" if x else "false"
    out = HEADER.format(src="dynamic_typing/complex.py, models/*.py")
    out += f"Definition MAX_LITERALS : nat := {ml}.\nDefinition MAX_STRING_LENGTH : nat := {msl}.\n"
    out += f"Definition lit_overflow (literals : list str) : bool := {overflow}.\n"
    out += ("Definition lit_render_ok (limit : option nat) (literals : list str) : bool :=\n"
            f"  match limit with None => true | Some limit => {render} end.\n")
    out += f"Definition DEFAULT_MAX_LITERALS : nat := {dml}.\n"
    out += "From J2M.Model Require Export Framework.\n"
    out += ("Definition use_literals (fw : framework) : bool :=\n  match fw with "
            f"FBase => {b(st_base['use_literals'])} | FPydantic => {b(st_pyd['use_literals'])} | FSqlmodel => {b(st_sql['use_literals'])}"
            f" | FAttrs => {b(st_attrs['use_literals'])} | FDataclasses => {b(st_dc['use_literals'])} end.\n")
    out += ("Definition use_actual_type (fw : framework) : bool :=\n  match fw with "
            f"FBase => {b(st_base['use_actual_type'])} | FPydantic => {b(st_pyd['use_actual_type'])} | FSqlmodel => {b(st_sql['use_actual_type'])}"
            f" | FAttrs => {b(st_attrs['use_actual_type'])} | FDataclasses => {b(st_dc['use_actual_type'])} end.\n")
    return out


def gen_labels():
    """models/base.py: blacklist ingredients, ones, METADATA_FIELD_NAME; the interpreter's keyword list / builtins as data"""
    import builtins
    import keyword
    tree = parse("models/base.py")
    want = {
        "keywords_set": "set(keyword.kwlist)",
        "builtins_set": "set(__builtins__.keys())",
    }
    found = {}
    literal_sets = {}          # module-level names bound to a set of string literals (other_common_names_set, ...)
    bl_expr = None
    ones = None
    meta_name = None
    for n in tree.body:
        if isinstance(n, ast.Assign) and len(n.targets) == 1 and isinstance(n.targets[0], ast.Name):
            nm = n.targets[0].id
            if nm in want:
                found[nm] = ast.unparse(n.value)
            elif nm == "blacklist_words":
                bl_expr = n.value
            elif nm.endswith("_set"):
                if not (isinstance(n.value, ast.Set) and all(isinstance(e, ast.Constant) and isinstance(e.value, str) for e in n.value.elts)):
                    raise Unsupported(f"{nm} is not a set of string literals")
                literal_sets[nm] = sorted(e.value for e in n.value.elts)
            elif nm == "ones":
                if not (isinstance(n.value, ast.List) and all(isinstance(e, ast.Constant) and isinstance(e.value, str) for e in n.value.elts)):
                    raise Unsupported("ones is not a list of string literals")
                ones = [e.value for e in n.value.elts]
            elif nm == "METADATA_FIELD_NAME":
                if not (isinstance(n.value, ast.Constant) and isinstance(n.value.value, str)):
                    raise Unsupported("METADATA_FIELD_NAME")
                meta_name = n.value.value
    for k, v in want.items():
        if found.get(k) != v:
            raise Unsupported(f"{k} = {found.get(k)!r}, expected {v!r}")
    if bl_expr is None or ones is None or meta_name is None or "other_common_names_set" not in literal_sets:
        raise Unsupported("blacklist_words / other_common_names_set / ones / METADATA_FIELD_NAME missing")
    # blacklist_words = frozenset(A | B | ...): a union of keywords_set, builtins_set and literal sets, nothing else
    if not (isinstance(bl_expr, ast.Call) and isinstance(bl_expr.func, ast.Name) and bl_expr.func.id == "frozenset"
            and len(bl_expr.args) == 1 and not bl_expr.keywords):
        raise Unsupported("blacklist_words = " + ast.unparse(bl_expr))

    def union_names(e):
        if isinstance(e, ast.BinOp) and isinstance(e.op, ast.BitOr):
            return union_names(e.left) + union_names(e.right)
        if isinstance(e, ast.Name):
            return [e.id]
        raise Unsupported("blacklist_words: unsupported operand " + ast.unparse(e))
    parts = union_names(bl_expr.args[0])
    if "keywords_set" not in parts or "builtins_set" not in parts:
        raise Unsupported("blacklist_words does not include keywords_set and builtins_set: " + ast.unparse(bl_expr))
    other = []
    for nm in parts:
        if nm in want:
            continue
        if nm not in literal_sets:
            raise Unsupported(f"blacklist_words: {nm} is not a set of string literals")
        other += literal_sets[nm]
    bl = sorted(set(keyword.kwlist) | set(builtins.__dict__.keys()) | set(other))
    out = HEADER.format(src="models/base.py (+ keyword.kwlist and builtins of /venv/bin/python)")
    out += "Definition blacklist : list str :=\n  [" + ";\n   ".join(coq_str(w) for w in bl) + "].\n"
    out += "Definition ones : list str := [" + "; ".join(coq_str(w) for w in ones) + "].\n"
    out += "Definition keywords : list str := [" + "; ".join(coq_str(w) for w in sorted(keyword.kwlist)) + "].\n"
    out += f"Definition METADATA_FIELD_NAME : str := {coq_str(meta_name)}.\n"
    return out


def gen_cmp():
    """registry.py: comparator bodies, defaults, the any() combination, the default policy"""
    from fractions import Fraction
    tree = parse("registry.py")

    def ret_expr(clsname):
        c = find_class(tree, clsname)
        f = find_func(c, "cmp")
        if [a.arg for a in f.args.args] != ["self", "fields_a", "fields_b"]:
            raise Unsupported(f"{clsname}.cmp signature")
        body = [st for st in f.body if not (isinstance(st, ast.Expr) and isinstance(st.value, ast.Constant))]
        if len(body) != 1 or not isinstance(body[0], ast.Return):
            raise Unsupported(f"{clsname}.cmp body")
        return c, body[0].value

    names = {"fields_a": "a", "fields_b": "b"}
    # exact
    _, e = ret_expr("ModelFieldsEquals")
    if not (isinstance(e, ast.Compare) and len(e.ops) == 1 and isinstance(e.ops[0], ast.Eq)
            and ast.unparse(e.left) == "fields_a" and ast.unparse(e.comparators[0]) == "fields_b"):
        raise Unsupported("ModelFieldsEquals.cmp: " + ast.unparse(e))
    exact = "(set_eqb a b)"
    # percent: len(a & b) / len(a | b) >= self.percent_fields
    c, e = ret_expr("ModelFieldsPercentMatch")
    ex = Expr(names)
    if not (isinstance(e, ast.Compare) and len(e.ops) == 1 and isinstance(e.left, ast.BinOp) and isinstance(e.left.op, ast.Div)
            and ast.unparse(e.comparators[0]) == "self.percent_fields"):
        raise Unsupported("ModelFieldsPercentMatch.cmp: " + ast.unparse(e))
    L, R = ex.nat(e.left.left), ex.nat(e.left.right)
    op = e.ops[0]
    # L/R op num/den  <=>  (den*L) op (num*R)   for R > 0
    percent = ex.cmp(op, f"(den * {L})", f"(num * {R})")
    percent = f"match {R} with O => None | _ => Some {percent} end"
    dflt = class_const(c, "DEFAULT")
    if not (isinstance(dflt, ast.Constant) and isinstance(dflt.value, (int, float))):
        raise Unsupported("ModelFieldsPercentMatch.DEFAULT")
    fr = Fraction(repr(dflt.value))
    init = find_func(c, "__init__")
    if ast.unparse(init.args) != "self, percent_fields: float=DEFAULT" or "self.percent_fields = percent_fields" not in ast.unparse(init):
        raise Unsupported("ModelFieldsPercentMatch.__init__")
    # number
    c2, e = ret_expr("ModelFieldsNumberMatch")
    ex2 = Expr(names, {"number_fields": "n"})
    number = ex2.bool(e)
    d2 = nat_const(class_const(c2, "DEFAULT"))
    init2 = find_func(c2, "__init__")
    if ast.unparse(init2.args) != "self, number_fields: int=DEFAULT" or "self.number_fields = number_fields" not in ast.unparse(init2):
        raise Unsupported("ModelFieldsNumberMatch.__init__")
    # registry: default policy and the any() combination over key sets
    reg = find_class(tree, "ModelRegistry")
    dm = ast.unparse(class_const(reg, "DEFAULT_MODELS_CMP"))
    if dm != "(ModelFieldsPercentMatch(), ModelFieldsNumberMatch())":
        raise Unsupported("DEFAULT_MODELS_CMP = " + dm)
    fn = find_func(reg, "_models_cmp_fn")
    body = [ast.unparse(st) for st in fn.body if not (isinstance(st, ast.Expr) and isinstance(st.value, ast.Constant))]
    want = ["fields_a = set(model_a.type.keys())", "fields_b = set(model_b.type.keys())",
            "return any((cmp.cmp(fields_a, fields_b) for cmp in self._models_cmp))"]
    if body != want:
        raise Unsupported("_models_cmp_fn body: " + repr(body))
    ini = ast.unparse(find_func(reg, "__init__"))
    if "self._models_cmp = models_cmp or self.DEFAULT_MODELS_CMP" not in ini:
        raise Unsupported("ModelRegistry.__init__ default comparators")
    out = HEADER.format(src="registry.py")
    out += "From J2M.Model Require Import Cmp.\n"
    out += f"Definition cmp_equals (a b : list str) : option bool := Some {exact}.\n"
    out += f"Definition cmp_percent (num den : nat) (a b : list str) : option bool := {percent}.\n"
    out += f"Definition cmp_number (n : nat) (a b : list str) : option bool := Some {number}.\n"
    out += f"Definition DEFAULT_PERCENT : nat * nat := ({fr.numerator}, {fr.denominator}).\n"
    out += f"Definition DEFAULT_NUMBER : nat := {d2}.\n"
    out += "Definition default_policy : list cmp_spec := [CPercent (fst DEFAULT_PERCENT) (snd DEFAULT_PERCENT); CNumber DEFAULT_NUMBER].\n"
    return out


def gen_strreg():
    """string_serializable.py: default registry registrations and replace pairs; string_datetime.register_datetime_classes;
    remove / remove_by_name bodies are pinned by shape"""
    tree = parse("dynamic_typing/string_serializable.py")
    names = {"IntString": "PInt", "FloatString": "PFloat", "BooleanString": "PBool", "IsoDateString": "PDate",
             "IsoTimeString": "PTime", "IsoDatetimeString": "PDatetime"}
    regs, reps = [], []
    actual = {}
    for n in tree.body:
        if isinstance(n, ast.ClassDef):
            for d in n.decorator_list:
                if (isinstance(d, ast.Call) and isinstance(d.func, ast.Attribute) and d.func.attr == "add"
                        and isinstance(d.func.value, ast.Name) and d.func.value.id == "registry"):
                    if n.name not in names:
                        raise Unsupported(f"unknown registered class {n.name}")
                    regs.append(names[n.name])
                    for kw in d.keywords:
                        if kw.arg != "replace_types" or not isinstance(kw.value, ast.Tuple):
                            raise Unsupported("registry.add arguments")
                        for e in kw.value.elts:
                            if not (isinstance(e, ast.Name) and e.id in names):
                                raise Unsupported("replace_types element")
                            reps.append((names[e.id], names[n.name]))
                    if d.args:
                        raise Unsupported("registry.add positional arguments")
            if n.name in names:
                at = class_const(n, "actual_type")
                actual[n.name] = ast.unparse(at)
    cls = find_class(tree, "StringSerializableRegistry")
    want = {
        "__iter__": "return iter(self.types)",
        "__contains__": "return item in self.types",
        "remove_by_name": "for cls in self.types[:]:\n    if cls.__name__ == name or cls.actual_type.__name__ == name:\n        self.remove(cls)",
        "remove": "self.types.remove(cls)\nfor base, replace in list(self.replaces):\n    if replace is cls or base is cls:\n        self.replaces.remove((base, replace))",
    }
    for fn, body in want.items():
        f = find_func(cls, fn)
        got = "\n".join(ast.unparse(st) for st in f.body if not (isinstance(st, ast.Expr) and isinstance(st.value, ast.Constant)))
        if got != body:
            raise Unsupported(f"StringSerializableRegistry.{fn} changed: {got!r}")
    add = ast.unparse(find_func(cls, "add"))
    for frag in ("self.types.append(cls)", "for t in replace_types:", "self.replaces.add((t, cls))"):
        if frag not in add:
            raise Unsupported("StringSerializableRegistry.add changed")
    dt = parse("dynamic_typing/string_datetime.py")
    f = find_func(dt, "register_datetime_classes")
    body = [ast.unparse(st) for st in f.body if not (isinstance(st, ast.Expr) and isinstance(st.value, ast.Constant))]
    if body != ["registry.add(cls=IsoDateString)", "registry.add(cls=IsoTimeString)", "registry.add(cls=IsoDatetimeString)"]:
        raise Unsupported("register_datetime_classes body: " + repr(body))
    for n in dt.body:
        if isinstance(n, ast.ClassDef) and n.name in names:
            actual[n.name] = ast.unparse(class_const(n, "actual_type"))
    want_actual = {"IntString": "int", "FloatString": "float", "BooleanString": "bool", "IsoDateString": "date",
                   "IsoTimeString": "time", "IsoDatetimeString": "datetime"}
    if actual != want_actual:
        raise Unsupported("actual_type table: " + repr(actual))
    # the generator consults the registry in registration order and stops at the first parser that does not raise ValueError
    gt = parse("generator.py")
    dtf = find_func(find_class(gt, "MetadataGenerator"), "_detect_type")
    tail = ast.unparse(dtf.body[-1].orelse[-1].orelse[-1].orelse[-1]) if False else ast.unparse(dtf)
    frag = "for t in self.str_types_registry:\n            try:\n                value = t.to_internal_value(value)\n            except ValueError:\n                continue\n            return t\n        return StringLiteral({value})"
    if frag not in tail:
        raise Unsupported("_detect_type: the string branch changed")
    out = HEADER.format(src="dynamic_typing/string_serializable.py, string_datetime.py, generator.py")
    out += "Definition default_registry : list pseudo := [" + "; ".join(regs) + "].\n"
    out += "Definition default_replaces : list (pseudo * pseudo) := [" + "; ".join(f"({a}, {b})" for a, b in reps) + "].\n"
    out += "Definition datetime_registration : list pseudo := [PDate; PTime; PDatetime].\n"
    return out


def gen_cli():
    """cli.py: effect order of main / parse_args / run, argparse defaults, option mapping, regex anchoring, header template,
    preamble handling; models/base.py: the assembly expression of generate_code"""
    tree = parse("cli.py")
    cli = find_class(tree, "Cli")

    def stmts(fn):
        return [st for st in fn.body if not (isinstance(st, ast.Expr) and isinstance(st.value, ast.Constant))]

    # ---- main()
    mainf = find_func(tree, "main")
    ms = [ast.unparse(st) for st in stmts(mainf)]
    want_main = ["import os",
                 "if os.getenv('TRAVIS', None) or os.getenv('FORCE_COVERAGE', None):\n    import coverage\n    coverage.process_startup()",
                 "cli = Cli()", "cli.parse_args()", "print(cli.run())"]
    if ms != want_main:
        raise Unsupported("main() changed: " + repr(ms))
    # ---- parse_args: classify each statement
    def classify_parse(st):
        u = ast.unparse(st)
        if u == "parser = self.argparser":
            return None
        if u == "namespace = parser.parse_args(args)":
            return "ParseArgv"
        if u == "parser = getattr(FileLoaders, namespace.input_format)":
            return None
        if isinstance(st, (ast.Assign, ast.AnnAssign)):
            val = st.value
            # plain reads of the namespace (and one list comprehension over namespace.merge)
            names = {n.id for n in ast.walk(val) if isinstance(n, ast.Name)}
            calls = [ast.unparse(c.func) for c in ast.walk(val) if isinstance(c, ast.Call)]
            if names <= {"namespace", "m"} and set(calls) <= {"m.split"}:
                return None
            raise Unsupported("parse_args: unexpected assignment " + u)
        if u == "for name in namespace.disable_str_serializable_types:\n    registry.remove_by_name(name)":
            return "MutateDefaultRegistry"
        if u == "self.setup_models_data(namespace.model or (), namespace.list or (), parser)":
            return "LoadSamples"
        if u == "self.validate(merge_policy, framework, code_generator)":
            return "Validate"
        if u.startswith("self.set_args(merge_policy, structure, framework, code_generator, code_generator_kwargs_raw, dict_keys_regex, dict_keys_fields, disable_unicode_conversion, preamble)"):
            return "SetArgs"
        raise Unsupported("parse_args: unknown statement " + u)
    pa = [c for c in (classify_parse(st) for st in stmts(find_func(cli, "parse_args"))) if c]
    # ---- run
    runf = find_func(cli, "run")
    rs = stmts(runf)
    ops = []
    for st in rs[:-1]:
        u = ast.unparse(st)
        if u == "if self.enable_datetime:\n    register_datetime_classes()":
            ops.append("MutateDefaultRegistry")
        elif u in ("generator = MetadataGenerator(dict_keys_regex=self.dict_keys_regex, dict_keys_fields=self.dict_keys_fields)",
                   "registry = ModelRegistry(*self.merge_policy)",
                   "for name, data in self.models_data.items():\n    meta = generator.generate(*data)\n    registry.process_meta_data(meta, name)",
                   "registry.merge_models(generator)", "registry.generate_names()",
                   "structure = self.structure_fn(registry.models_map)"):
            ops.append("Generate")
        elif u == ("output = self.version_string + generate_code(structure, self.model_generator, "
                   "class_generator_kwargs=self.model_generator_kwargs, preamble=self.preamble)"):
            ops.append("BuildText")
        else:
            raise Unsupported("run: unknown statement " + u)
    last = rs[-1]
    want_last = ("if self.output_file:\n    output.encode('utf-8')\n    with open(self.output_file, 'w', encoding='utf-8') as f:\n        f.write(output)\n"
                 "    return f'Output is written to {self.output_file}'\nelse:\n    return output")
    if ast.unparse(last) != want_last:
        raise Unsupported("run: the output branch changed: " + ast.unparse(last))
    # no other open( / print( / sys.stdout / .write( in the file
    src = open(os.path.join(PKG, "cli.py"), encoding="utf8").read()
    io_sites = {"open(": src.count("open("), "print(": src.count("print("), ".write(": src.count(".write("), "sys.stdout": src.count("sys.stdout")}
    want_io = {"open(": 4, "print(": 2, ".write(": 1, "sys.stdout": 0}     # path.open() x3 in FileLoaders + the -o file; yaml message + main
    if io_sites != want_io:
        raise Unsupported("I/O sites of cli.py changed: " + repr(io_sites))
    # ---- set_args: option mapping, anchoring, preamble
    sa = ast.unparse(find_func(cli, "set_args"))
    for frag in ["self.model_generator_kwargs = dict(post_init_converters=self.strings_converters, convert_unicode=not disable_unicode_conversion, max_literals=self.max_literals)",
                 "self.dict_keys_regex = [re.compile(f'^(?:{r})$') for r in dict_keys_regex] if dict_keys_regex else ()",
                 "self.dict_keys_fields = dict_keys_fields or ()",
                 "if preamble:\n        preamble = preamble.strip()\n    self.preamble = preamble or None",
                 "self.structure_fn = self.STRUCTURE_FN_MAPPING[structure]",
                 "self.merge_policy.append(self.MODEL_CMP_MAPPING[name](*args))"]:
        if frag not in sa:
            raise Unsupported("set_args changed: missing " + frag[:60])
    maps = {"MODEL_CMP_MAPPING": "{'percent': convert_args(ModelFieldsPercentMatch, lambda s: float(s) / 100), 'number': convert_args(ModelFieldsNumberMatch, int), 'exact': ModelFieldsEquals}",
            "STRUCTURE_FN_MAPPING": "{'nested': compose_models, 'flat': compose_models_flat}",
            "MODEL_GENERATOR_MAPPING": "{'base': convert_args(GenericModelCodeGenerator), 'attrs': convert_args(AttrsModelCodeGenerator, meta=bool_js_style), 'dataclasses': convert_args(DataclassModelCodeGenerator, meta=bool_js_style, post_init_converters=bool_js_style), 'pydantic': convert_args(PydanticModelCodeGenerator), 'sqlmodel': convert_args(SqlModelCodeGenerator)}"}
    for k, v in maps.items():
        if ast.unparse(class_const(cli, k)) != v:
            raise Unsupported(f"{k} changed: " + ast.unparse(class_const(cli, k)))
    # ---- argparse defaults
    ap = find_func(cli, "_create_argparser")
    dflt = {}
    for c in ast.walk(ap):
        if isinstance(c, ast.Call) and isinstance(c.func, ast.Attribute) and c.func.attr == "add_argument":
            flags = [a.value for a in c.args if isinstance(a, ast.Constant)]
            kw = {k.arg: k.value for k in c.keywords}
            dflt[flags[-1]] = (ast.unparse(kw["default"]) if "default" in kw else None,
                               ast.unparse(kw["action"]) if "action" in kw else None,
                               ast.unparse(kw["choices"]) if "choices" in kw else None)
    want_d = {"--framework": ("'base'", None, "list(cls.MODEL_GENERATOR_MAPPING.keys()) + ['custom']"),
              "--structure": ("'flat'", None, "list(cls.STRUCTURE_FN_MAPPING.keys())"),
              "--merge": ("['percent', 'number']", None, None),
              "--max-strings-literals": ("GenericModelCodeGenerator.DEFAULT_MAX_LITERALS", None, None),
              "--input-format": ("'json'", None, "['json', 'yaml', 'ini']"),
              "--datetime": (None, "'store_true'", None), "--strings-converters": (None, "'store_true'", None),
              "--no-unidecode": (None, "'store_true'", None), "--output": ("''", None, None),
              "--preamble": (None, None, None), "--disable-str-serializable-types": ("[]", None, None)}
    for k, v in want_d.items():
        if dflt.get(k) != v:
            raise Unsupported(f"argparse default of {k} changed: {dflt.get(k)}")
    # ---- header
    vs = find_func(cli, "version_string")
    vb = [ast.unparse(st) for st in stmts(vs)]
    want_vs = ["command = ' '.join(sys.argv).replace('\"\"\"', '\"\"\\\\\"')",
               "return f'r\"\"\"\\ngenerated by json2python-models v{VERSION} at {datetime.now().ctime()}\\ncommand: {command}\\n\"\"\"\\n'"]
    if vb != want_vs:
        raise Unsupported("version_string changed: " + repr(vb))
    # ---- generate_code assembly
    base = parse("models/base.py")
    gc = find_func(base, "generate_code")
    gb = [ast.unparse(st) for st in stmts(gc)]
    want_gc = ["(root, mapping) = structure",
               "with AbsoluteModelRef.inject(mapping):\n    (imports, classes) = _generate_code(root, class_generator, class_generator_kwargs or {})\n    imports_str = ''",
               "if imports:\n    imports_str = compile_imports(imports) + objects_delimiter",
               "if preamble:\n    imports_str += preamble + objects_delimiter",
               "return imports_str + objects_delimiter.join(classes) + '\\n'"]
    gb = [x.replace("root, mapping = structure", "(root, mapping) = structure").replace("imports, classes = _generate_code", "(imports, classes) = _generate_code") for x in gb]
    if gb != want_gc:
        raise Unsupported("generate_code changed: " + repr(gb))
    out = HEADER.format(src="cli.py, models/base.py")
    out += "From J2M.Model Require Import Emit Cli.\n"
    out += "Definition parse_args_ops : list op := [" + "; ".join(pa) + "].\n"
    out += "Definition run_ops_common : list op := [" + "; ".join(ops) + "].\n"
    out += "Definition cli_ops (with_file : bool) : list op := main_ops parse_args_ops run_ops_common with_file.\n"
    dml = nat_const(class_const(find_class(base, "GenericModelCodeGenerator"), "DEFAULT_MAX_LITERALS"))
    out += ("Definition cli_defaults : defaults := {| d_framework := " + coq_str("base") + "; d_structure := " + coq_str("flat") +
            "; d_merge := [" + coq_str("percent") + "; " + coq_str("number") + f"]; d_max_literals := {dml}; d_input_format := " + coq_str("json") +
            "; d_datetime := false; d_strings_converters := false; d_disable_unicode := false; d_output := [] |}.\n")
    out += "Definition anchor_template : list str := [" + coq_str("^(?:") + "; " + coq_str(")$") + "].   (* prefix, suffix around the user's regex *)\n"
    out += ("Definition header_template : list str := [" + "; ".join(coq_str(x) for x in ['r"""\n', "generated by json2python-models v", " at ", "\ncommand: ", '\n"""\n']) +
            "].   (* fragments around VERSION, ctime, command *)\n")
    out += "Definition header_replace : str * str := (" + coq_str('"""') + ", " + coq_str('""\\"') + ").\n"
    return out


REVIEWED_GLOBALS = {
    # (file, scope, name): "constant" (never written after import) | "state" (mutated at run time: modelled in Model/Ctx.v)
    ("cli.py", ".Cli", "MODEL_CMP_MAPPING"): "constant", ("cli.py", ".Cli", "STRUCTURE_FN_MAPPING"): "constant",
    ("cli.py", ".Cli", "MODEL_GENERATOR_MAPPING"): "constant", ("generator.py", "", "_static_types"): "constant",
    ("dynamic_typing/base.py", ".UnknownType", "__slots__"): "constant", ("dynamic_typing/base.py", ".NoneType", "__slots__"): "constant",
    ("dynamic_typing/base.py", "", "Unknown"): "constant", ("dynamic_typing/base.py", "", "Null"): "constant",
    ("dynamic_typing/complex.py", ".SingleType", "__slots__"): "constant", ("dynamic_typing/complex.py", ".ComplexType", "__slots__"): "constant",
    ("dynamic_typing/complex.py", ".StringLiteral", "__slots__"): "constant",
    ("dynamic_typing/models_meta.py", ".AbsoluteModelRef.Context", "data"): "state",
    ("dynamic_typing/string_datetime.py", "", "_dt_args_getter"): "constant", ("dynamic_typing/string_datetime.py", "", "_d_args_getter"): "constant",
    ("dynamic_typing/string_datetime.py", "", "_t_args_getter"): "constant",
    ("dynamic_typing/string_serializable.py", "", "registry"): "state",
    ("models/attr.py", ".AttrsModelCodeGenerator", "ATTRS"): "constant", ("models/attr.py", ".AttrsModelCodeGenerator", "ATTRIB"): "constant",
    ("models/attr.py", ".AttrsModelCodeGenerator", "default_types_style"): "constant",
    ("models/base.py", "", "keywords_set"): "constant", ("models/base.py", "", "builtins_set"): "constant",
    ("models/base.py", "", "other_common_names_set"): "constant", ("models/base.py", "", "blacklist_words"): "constant",
    ("models/base.py", "", "imported_names_set"): "constant",
    # tuples of immutable datetime defaults (read by index only) and the tuple of default comparators (never mutated)
    ("dynamic_typing/string_datetime.py", "", "_check_values_date"): "constant",
    ("dynamic_typing/string_datetime.py", "", "_check_values_time"): "constant",
    ("registry.py", ".ModelRegistry", "DEFAULT_MODELS_CMP"): "constant",
    ("models/base.py", "", "ones"): "constant",
    ("models/base.py", ".GenericModelCodeGenerator", "BODY"): "constant", ("models/base.py", ".GenericModelCodeGenerator", "STR_CONVERT_DECORATOR"): "constant",
    ("models/base.py", ".GenericModelCodeGenerator", "FIELD"): "constant", ("models/base.py", ".GenericModelCodeGenerator", "default_types_style"): "constant",
    ("models/dataclasses.py", ".DataclassModelCodeGenerator", "DC_DECORATOR"): "constant", ("models/dataclasses.py", ".DataclassModelCodeGenerator", "DC_FIELD"): "constant",
    ("models/pydantic.py", ".PydanticModelCodeGenerator", "PYDANTIC_FIELD"): "constant",
    ("models/pydantic.py", ".PydanticModelCodeGenerator", "default_types_style"): "constant",
    ("models/utils.py", "", "T"): "constant", ("models/utils.py", ".PositionsDict", "INC"): "constant",
}


def gen_globals():
    """whole package: module- and class-level objects that could carry state between calls; writers of the two state cells"""
    found = {}
    sources = {}
    for root, _, files in os.walk(PKG):
        for f in sorted(files):
            if not f.endswith(".py"):
                continue
            path = os.path.join(root, f)
            rel = os.path.relpath(path, PKG)
            src = open(path, encoding="utf8").read()
            sources[rel] = src
            tree = ast.parse(src)

            def scan(body, scope):
                for n in body:
                    if isinstance(n, (ast.Assign, ast.AnnAssign)):
                        v = n.value
                        if v is None:
                            continue
                        t = n.targets[0] if isinstance(n, ast.Assign) else n.target
                        # anything that holds a mutable object somewhere inside (a tuple of lists, a dict in a tuple, a call)
                        mut = (ast.Dict, ast.List, ast.Set, ast.DictComp, ast.ListComp, ast.SetComp, ast.Call)
                        if isinstance(v, mut) or (isinstance(v, ast.Tuple) and any(isinstance(x, mut) for x in ast.walk(v))):
                            found[(rel, scope, ast.unparse(t))] = True
                    elif isinstance(n, ast.ClassDef):
                        scan(n.body, scope + "." + n.name)
            scan(tree.body, "")
            for n in ast.walk(tree):
                if isinstance(n, (ast.Global, ast.Nonlocal)):
                    raise Unsupported(f"{rel}: global/nonlocal statement")
    new = sorted(k for k in found if k not in REVIEWED_GLOBALS)
    gone = sorted(k for k in REVIEWED_GLOBALS if k not in found)
    if new:
        raise Unsupported("unreviewed module/class-level object(s): " + repr(new))
    if gone:
        raise Unsupported("reviewed object(s) disappeared: " + repr(gone))
    # constants must not be written anywhere in the package
    allsrc = "\n".join(sources.values())
    for (rel, scope, name), kind in REVIEWED_GLOBALS.items():
        if kind != "constant" or name.startswith("__"):
            continue
        for pat in (f"{name}.add(", f"{name}.append(", f"{name}.update(", f"{name}.clear(", f"{name}.remove(", f"{name}.pop(",
                    f"{name}.setdefault(", f"{name}[", f"del {name}"):
            i = allsrc.find(pat)
            while i >= 0:
                ctx = allsrc[max(0, i - 40):i + 60]
                # reads such as self.MODEL_CMP_MAPPING[name] / STRUCTURE_FN_MAPPING[structure] are fine; assignments are not
                line = allsrc[allsrc.rfind("\n", 0, i) + 1: allsrc.find("\n", i)]
                if pat.endswith("[") and not __import__("re").search(r"\b" + name + r"\[[^\]]*\]\s*(=|\+=)[^=]", line):
                    i = allsrc.find(pat, i + 1)
                    continue
                if name in ("resolved_types_style",):
                    i = allsrc.find(pat, i + 1)
                    continue
                raise Unsupported(f"constant {name} is written: {line.strip()}")
    # per-instance copies: the shared style dict is deep-copied before it is written
    base_src = sources["models/base.py"]
    if "resolved_types_style = copy.deepcopy(self.default_types_style)" not in base_src:
        raise Unsupported("default_types_style is no longer deep-copied per generator")
    # cached_classmethod (a process-wide cache) must stay unused; cached_method stores on the instance
    uses = sum(src.count("cached_classmethod") for src in sources.values())
    if uses != 1:
        raise Unsupported(f"cached_classmethod is used ({uses} occurrences)")
    if "setattr(self, '__cache__', {})" not in sources["utils.py"]:
        raise Unsupported("cached_method no longer stores its cache on the instance")
    # writers of the state cells
    writers = []
    for rel, src in sources.items():
        for pat, cell in ((".data.context =", "ctx"), ("registry.remove_by_name(", "registry"), ("registry.add(", "registry"),
                          ("register_datetime_classes()", "registry"), ("self.types.append(", "registry-object"),
                          ("self.types.remove(", "registry-object"), ("self.replaces.add(", "registry-object"), ("self.replaces.remove(", "registry-object")):
            c = src.count(pat)
            if c:
                writers.append((rel, pat, c))
    want = [("cli.py", "registry.remove_by_name(", 1), ("cli.py", "register_datetime_classes()", 1),
            ("dynamic_typing/models_meta.py", ".data.context =", 2),
            ("dynamic_typing/string_datetime.py", "registry.add(", 3),
            ("dynamic_typing/string_serializable.py", "registry.add(", 3),
            ("dynamic_typing/string_serializable.py", "self.types.append(", 1), ("dynamic_typing/string_serializable.py", "self.types.remove(", 1),
            ("dynamic_typing/string_serializable.py", "self.replaces.add(", 1), ("dynamic_typing/string_serializable.py", "self.replaces.remove(", 1)]
    if sorted(writers) != sorted(want):
        raise Unsupported("writers of the state cells changed: " + repr(sorted(writers)))
    state = sorted(f"{rel}:{scope.lstrip('.')}{'.' if scope else ''}{name}" for (rel, scope, name), k in REVIEWED_GLOBALS.items() if k == "state")
    out = HEADER.format(src="the whole package")
    out += "Definition global_cells : list str := [" + "; ".join(coq_str(x) for x in state) + "].\n"
    out += f"Definition reviewed_constants : nat := {sum(1 for k in REVIEWED_GLOBALS.values() if k == 'constant')}.\n"
    return out


ITER_CALLS = {'list', 'tuple', 'sorted', 'next', 'iter', 'permutations', 'combinations', 'chain', 'map', 'filter', 'any', 'all', 'min', 'max',
              'sum', 'set', 'frozenset', 'zip', 'enumerate', 'dict'}


def iteration_sites():
    out = []
    for root, _, files in os.walk(PKG):
        for f in sorted(files):
            if not f.endswith(".py"):
                continue
            path = os.path.join(root, f)
            rel = os.path.relpath(path, PKG)
            tree = ast.parse(open(path, encoding="utf8").read())

            def visit(n, stack):
                if isinstance(n, (ast.FunctionDef, ast.ClassDef, ast.AsyncFunctionDef)):
                    stack = stack + [n.name]
                q = ".".join(stack) or "<module>"
                if isinstance(n, ast.For):
                    out.append((rel, q, "for", ast.unparse(n.iter)))
                if isinstance(n, (ast.ListComp, ast.SetComp, ast.DictComp, ast.GeneratorExp)):
                    for g in n.generators:
                        out.append((rel, q, "comp", ast.unparse(g.iter)))
                if isinstance(n, ast.Starred) and isinstance(n.ctx, ast.Load):
                    out.append((rel, q, "star", ast.unparse(n.value)))
                if isinstance(n, ast.Call):
                    fn = n.func.id if isinstance(n.func, ast.Name) else (n.func.attr if isinstance(n.func, ast.Attribute) else None)
                    if fn in ITER_CALLS or fn in ("join", "extend", "update", "from_iterable"):
                        for a in n.args:
                            if not isinstance(a, (ast.Constant, ast.Lambda, ast.Starred, ast.GeneratorExp, ast.ListComp, ast.SetComp, ast.DictComp)):
                                out.append((rel, q, "call:" + fn, ast.unparse(a)))
                for c in ast.iter_child_nodes(n):
                    visit(c, stack)
            visit(tree, [])
    return sorted(set(out))


def gen_itersites():
    """whole package: every iteration site must be in the reviewed table harness/iter_sites.json (fail-closed)"""
    import json
    table = json.load(open(os.path.join(os.path.dirname(os.path.abspath(__file__)), "iter_sites.json")))["sites"]
    known = {(t["file"], t["function"], t["kind"], t["expr"]): t for t in table}
    found = iteration_sites()
    new = [x for x in found if x not in known]
    if new:
        raise Unsupported("unreviewed iteration site(s): " + repr(new[:4]))
    sets = sorted({f"{t['file']}:{t['function']}:{t['expr']}" for k, t in known.items() if t["class"] == "set" and k in set(found)})
    out = HEADER.format(src="the whole package (iteration sites)")
    out += f"Definition n_sites : nat := {len(found)}.\n"
    out += "Definition set_sites : list str := [\n  " + ";\n  ".join(coq_str(x) for x in sets) + "].\n"
    return out


GENERATORS = {
    "Limits": gen_limits,
    "Labels": gen_labels,
    "Cmp": gen_cmp,
    "StrReg": gen_strreg,
    "Cli": gen_cli,
    "Globals": gen_globals,
    "IterSites": gen_itersites,
}


def run_all():
    os.makedirs(os.path.join(COQ, "Gen"), exist_ok=True)
    status = {}
    for name, fn in GENERATORS.items():
        path = os.path.join(COQ, "Gen", name + ".v")
        try:
            txt = fn()
            status[name] = None
        except Unsupported as e:
            status[name] = f"Unsupported: {e}"
            txt = (f"(* translator failed for {name}: {e} *)\n"
                   "Definition translator_failed : True := I.\n")
        except Exception as e:  # a crash of the translator is a broken tie as well
            status[name] = f"{type(e).__name__}: {e}"
            txt = f"(* translator crashed for {name} *)\nDefinition translator_failed : True := I.\n"
        if not os.path.exists(path) or open(path).read() != txt:
            open(path, "w").write(txt)
    return status


if __name__ == "__main__":
    import json
    print(json.dumps(run_all(), indent=1))
