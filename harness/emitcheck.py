"""Executable statements about an emitted module, checked against the registry it was rendered from
(independent of the Coq model): used by the oracles of C03, C04, C11."""
import ast
import dataclasses
import keyword
import typing
import unicodedata
from inspect import isclass

from . import modast, pipeline, validate

RESERVED = {
    "pydantic": "pydantic-reserved", "sqlmodel": "pydantic-reserved",
}


def expected_typing(t, fw, max_literals, cls_of):
    """the typing object the inferred type denotes under the framework's style"""
    from json_to_models.dynamic_typing import (DDict, DList, DOptional, DUnion, ModelPtr, Null, StringLiteral,
                                               StringSerializable, Unknown)
    if isclass(t):
        if issubclass(t, StringSerializable):
            return t.actual_type if fw in ("pydantic", "sqlmodel") else t
        return t
    if isinstance(t, ModelPtr):
        return cls_of(t.type.index)
    if t is Unknown:
        return typing.Any
    if t is Null:
        return type(None)
    if isinstance(t, StringLiteral):
        if fw != "attrs" and len(t.literals) < int(max_literals):
            return typing.Literal[tuple(sorted(t.literals))]
        return str
    if isinstance(t, DOptional):
        return typing.Optional[expected_typing(t.type, fw, max_literals, cls_of)]
    if isinstance(t, DList):
        return typing.List[expected_typing(t.type, fw, max_literals, cls_of)]
    if isinstance(t, DDict):
        return typing.Dict[str, expected_typing(t.type, fw, max_literals, cls_of)]
    if isinstance(t, DUnion):
        return typing.Union[tuple(expected_typing(x, fw, max_literals, cls_of) for x in t.types)]
    raise TypeError(t)


def same_type(a, b):
    if a == b:
        return True
    oa, ob = typing.get_origin(a), typing.get_origin(b)
    if oa is typing.Literal and ob is typing.Literal:
        return set(typing.get_args(a)) == set(typing.get_args(b))
    if oa is not None and oa == ob:
        xa, xb = typing.get_args(a), typing.get_args(b)
        if oa is typing.Union:
            return len(xa) == len(xb) and all(any(same_type(x, y) for y in xb) for x in xa)
        return len(xa) == len(xb) and all(same_type(x, y) for x, y in zip(xa, xb))
    return False


def field_table(cls, fw):
    """name -> (original key or None, has_default, default kind)"""
    from json_to_models.models.base import METADATA_FIELD_NAME
    out = {}
    if fw in ("pydantic", "sqlmodel"):
        for n, f in cls.__fields__.items():
            d = "required" if f.required else ("list" if f.default == [] and isinstance(f.default, list) else
                                                "dict" if f.default == {} and isinstance(f.default, dict) else
                                                "none" if f.default is None else "other")
            out[n] = (f.alias if f.alias != n else None, not f.required, d)
    elif fw == "dataclasses":
        for f in dataclasses.fields(cls):
            if f.default_factory is not dataclasses.MISSING:
                d = "list" if f.default_factory is list else "dict" if f.default_factory is dict else "other"
            elif f.default is not dataclasses.MISSING:
                d = "none" if f.default is None else "other"
            else:
                d = "required"
            out[f.name] = (f.metadata.get(METADATA_FIELD_NAME), d != "required", d)
    elif fw == "attrs":
        import attr
        for a in attr.fields(cls):
            if a.default is attr.NOTHING:
                d = "required"
            elif isinstance(a.default, attr.Factory):
                d = "list" if a.default.factory is list else "dict" if a.default.factory is dict else "other"
            else:
                d = "none" if a.default is None else "other"
            out[a.name] = (a.metadata.get(METADATA_FIELD_NAME), d != "required", d)
    else:
        for n in getattr(cls, "__annotations__", {}):
            has = n in vars(cls)
            out[n] = (None, has, ("none" if vars(cls)[n] is None else "list" if vars(cls)[n] == [] else "dict" if vars(cls)[n] == {} else "other") if has else "required")
    return out


def check(code, reg, o, want=("load", "classes", "fields", "keys", "types", "defaults")):
    """-> list of (kind, message).  reg: the registry the code was rendered from (names already converted)."""
    from json_to_models.dynamic_typing import DDict, DList, DOptional, Null, Unknown
    from json_to_models.models.base import prepare_label
    fw = o["fw"]
    out = []
    try:
        classes, tree = modast.class_tree(code)
    except SyntaxError as e:
        return [("load", f"emitted text is not Python: {e}")]
    flat = modast.flatten(classes)
    imported = modast.imported_names(tree)
    models = list(reg.models)
    if "classes" in want:
        if len(flat) != len(models):
            out.append(("classes", f"{len(flat)} classes for {len(models)} models"))
        seen_scope = {}
        for c, parent in flat:
            nm = c["name"]
            if not nm.isidentifier() or keyword.iskeyword(nm):
                out.append(("classes", f"class name {nm!r} is not a valid identifier"))
            key = (parent["name"] if parent else None, nm)
            if key in seen_scope:
                out.append(("classes", f"class name {nm!r} defined twice in one scope"))
            seen_scope[key] = 1
            if nm in imported:
                out.append(("import-shadow", f"class {nm} shadows an imported name"))
    by_name = {}
    for m in models:
        by_name.setdefault(unicodedata.normalize("NFKC", m.name), []).append(m)     # the parser NFKC-normalises identifiers
    cu = o["unidecode"]

    def label(k):
        if fw == "sqlmodel" and k in ("id", "pk"):
            return k
        return prepare_label(k, convert_unicode=cu, to_snake_case=True)
    if "fields" in want:
        for c, parent in flat:
            ms = by_name.get(c["name"], [])
            if len(ms) != 1:
                out.append(("classes", f"class {c['name']} corresponds to {len(ms)} models"))
                continue
            m = ms[0]
            kept = [k for k, t in m.type.items() if not (fw in ("pydantic", "sqlmodel") and (t is Unknown or t is Null))]
            names = [f[0] for f in c["fields"]]
            for n in names:
                if not n.isidentifier() or keyword.iskeyword(n):
                    out.append(("fields", f"field name {n!r} of {c['name']} is not a valid identifier"))
                if n in imported:
                    out.append(("import-shadow", f"field {n} of {c['name']} shadows an imported name"))
            if len(set(names)) != len(names):
                dup = sorted({n for n in names if names.count(n) > 1})
                ks = [k for k in kept if label(k) in dup]
                # which kind: keys that are equal after the property's case / punctuation folding are outside its domain
                # (D34); a digit-first key against the spelling of its digit is D12; anything else contradicts label_injective
                import re as _re
                from unidecode import unidecode as _ud
                fold = lambda k: _re.sub(r"[\W_]", "", _ud(k) if cu else k).lower()       # noqa: E731
                groups = {}
                for k in ks:
                    groups.setdefault(label(k), []).append(k)
                kinds = set()
                for lab_, g_ in groups.items():
                    if len({fold(k) for k in g_}) == 1:
                        kinds.add("folded-collision")
                    elif any(_re.sub(r"\W", "", _ud(k) if cu else k)[:1].isdigit() for k in g_):     # first WORD character is a digit
                        kinds.add("digit-spelled-collision")
                    else:
                        kinds.add("field-collision")
                kind_ = "field-collision" if "field-collision" in kinds else sorted(kinds)[0]
                out.append((kind_, f"keys {ks} of {c['name']} give the same field name {dup}"))
            if len(names) != len(kept):
                out.append(("fields", f"class {c['name']} has {len(names)} fields for {len(kept)} keys"))
    if not any(w in want for w in ("load", "keys", "types", "defaults")):
        return out
    # a nested class and a field of the enclosing class with one name: the field rebinds the class
    clash_any = any(parent is not None and any(f[0] == c["name"] for f in parent["fields"]) for c, parent in flat)
    # ---- load
    try:
        mod = pipeline.load(code)
    except Exception as e:  # noqa
        # D27: a field named like a nested class of the same body: the name resolves to the wrong object (NameError), or the
        # class object is taken for the field's default (dataclasses / attrs: "non-default argument follows default argument")
        d27 = clash_any and (isinstance(e, NameError) or (isinstance(e, (TypeError, ValueError)) and "default" in str(e)))
        out.append(("field-equals-class-name" if d27 else "load",
                    f"module does not load: {type(e).__name__}: {str(e)[:160]}"))
        return out
    try:
        v = validate.Validator(mod, fw, label)
        cls_by_model = {}

        def find_cls(container, chain):
            for val in vars(container).values():
                if isinstance(val, type) and val.__module__ == mod.__name__:
                    ms = by_name.get(val.__name__, [])
                    if len(ms) == 1:
                        cls_by_model[ms[0].index] = val
                    find_cls(val, chain + [val])
        find_cls(mod, [])
        for m in models:
            cls = cls_by_model.get(m.index)
            if cls is None:
                clash = clash_any
                out.append(("field-equals-class-name" if clash else "classes",
                            f"no class object for model {m.index} ({m.name})" + (": a field of an enclosing class has the name of a nested class" if clash else "")))
                continue
            try:
                hints = v.hints(cls)
            except Exception as e:  # noqa
                out.append(("field-equals-class-name" if clash_any and isinstance(e, NameError) else "load",
                            f"annotations of {cls.__name__} do not evaluate: {type(e).__name__}: {str(e)[:120]}"))
                continue
            try:
                ft = field_table(cls, fw)
            except Exception as e:  # noqa
                out.append(("load", f"field table of {cls.__name__}: {type(e).__name__}: {str(e)[:120]}"))
                continue
            labels_of_model = [label(k) for k, t in m.type.items() if not (fw in ("pydantic", "sqlmodel") and (t is Unknown or t is Null))]
            if len(set(labels_of_model)) != len(labels_of_model):
                # two keys of this model collapse onto one field name: reported once as field-collision above; the per-key
                # comparisons below would only restate it (which key the surviving field belongs to is arbitrary)
                continue
            for k, t in m.type.items():
                if fw in ("pydantic", "sqlmodel") and (t is Unknown or t is Null):
                    continue
                raw = label(k)
                lab = unicodedata.normalize("NFKC", raw)          # the compiler NFKC-normalises identifiers
                if lab not in ft:
                    # a key equal to the model's own (unconverted) name gets the class-style label (one cache shared by
                    # convert_class_name and convert_field_name): accept that spelling of the sanitised key as well
                    for alt in (k, prepare_label(k, convert_unicode=cu, to_snake_case=False)):
                        if unicodedata.normalize("NFKC", alt) in ft:
                            raw, lab = alt, unicodedata.normalize("NFKC", alt)
                            break
                if lab not in ft:
                    out.append(("field-equals-class-name" if clash_any else "keys", f"{cls.__name__}: no field for key {k!r} (expected name {lab!r})"))
                    continue
                orig, has_default, dkind = ft[lab]
                attaches = fw in ("pydantic", "sqlmodel") or (fw in ("attrs", "dataclasses") and o["meta"])
                if "keys" in want and attaches:
                    if lab != k and orig != k:
                        kind = "nfkc-renamed" if raw == k and lab != raw else "keys"
                        out.append((kind, f"{cls.__name__}.{lab}: original key {k!r} is not recoverable (attached: {orig!r})"))
                    if lab == k and orig not in (None, k):
                        out.append(("keys", f"{cls.__name__}.{lab}: attached key {orig!r} differs from the key {k!r}"))
                if "types" in want:
                    try:
                        exp = expected_typing(t, fw, o["max_literals"], lambda i: cls_by_model[i])
                        if not same_type(hints[lab], exp):
                            out.append(("types", f"{cls.__name__}.{lab}: annotation {hints[lab]!r:.100} but the inferred type denotes {exp!r:.100}"))
                    except KeyError as e:
                        out.append(("types", f"{cls.__name__}.{lab}: {e!r}"))
                if "defaults" in want:
                    is_opt = isinstance(t, DOptional)
                    if is_opt != has_default:
                        out.append(("defaults" if fw != "base" else "base-no-defaults",
                                    f"{cls.__name__}.{lab}: optional={is_opt} but has_default={has_default}"))
                    elif is_opt:
                        wantk = "list" if isinstance(t.type, DList) else "dict" if isinstance(t.type, DDict) else "none"
                        if dkind != wantk:
                            out.append(("defaults", f"{cls.__name__}.{lab}: default kind {dkind}, expected {wantk}"))
    finally:
        pipeline.unload(mod)
    return out


def reserved_tags(reg, o):
    """tags of the listed name-clash findings that this registry can trigger (computed from the input, not from the failure)"""
    from json_to_models.models.base import prepare_label
    fw, cu = o["fw"], o["unidecode"]
    tags = set()
    typing_names = {"List", "Optional", "Union", "Literal", "Dict", "Any", "Field", "BaseModel", "SQLModel", "dataclass", "field", "attr",
                    "ClassType", "convert_strings", "IntString", "FloatString", "BooleanString", "IsoDateString", "IsoTimeString",
                    "IsoDatetimeString", "date", "time", "datetime", "optional"}
    labels = set()
    converted = {}
    for m in reg.models:
        try:
            cn = prepare_label(m.name, convert_unicode=cu, to_snake_case=False)
        except Exception:  # noqa
            cn = None
        if cn is not None:
            converted.setdefault(cn, set()).add(m.name)
        if cn in typing_names:
            tags.add("class-shadows-import")
        for k in m.type:
            try:
                lab = prepare_label(k, convert_unicode=cu, to_snake_case=True)
                labels.add(lab)
                if lab.startswith("_"):
                    tags.add("leading-underscore")
                if not lab.isidentifier() and not cu and any(ord(c) > 127 for c in lab):
                    # D25 is about NON-ASCII word characters that are not identifier characters, with transliteration off; an
                    # ASCII label that is not an identifier (2x, a-b) is never the listed finding
                    tags.add("non-identifier-key-char")
            except IndexError:
                tags.add("empty-label")
    if any(len(v) > 1 for v in converted.values()):
        # D35: names are de-duplicated by the registry BEFORE they are sanitised; two different names can sanitise to one
        tags.add("class-names-collapse")
    if labels & typing_names:
        tags.add("field-shadows-import")
    if fw in ("pydantic", "sqlmodel"):
        import pydantic.v1 as pv
        if labels & (set(dir(pv.BaseModel)) | {"Config"}):
            tags.add("pydantic-reserved-key")
    if fw == "attrs" and labels & {"self", "attr"}:
        tags.add("attrs-reserved-key")
    return tags
