"""Implementation side of X-names: prepare_label / underscore / camelize with the per-character oracle tables."""
import re

from . import coqterm as ct
from .common import setup_import_path

setup_import_path()

KEY_ALPHABET = list("abcxyzABCXYZ0189_- .'\"\\$/") + ["é", "ß", "İ", "ǅ", "ﬁ", "ж", "Ж", "中", "٣", "３", "²", "ñ", "Å", "\n", "ı",
                                                      "\u2028", "\x85", "\u2029", "\x0c", "\x1c", "\r", "\t",
                                                      "\u0301", "\u0308", "\u212b", "\u2126"]       # combining marks, NFC singletons
KEYWORD_KEYS = ["class", "def", "import", "list", "dict", "type", "id", "str", "None", "True", "async", "print", "object",
                "datetime", "date", "time", "schema", "field", "Field", "self", "json", "copy", "Optional", "List", "Any",
                "BaseModel", "attr", "dataclass", "Literal", "Union"]
STYLE_KEYS = ["snake_case_key", "camelCaseKey", "PascalCaseKey", "kebab-case-key", "with1digit2", "HTTPResponse", "userID",
              "XMLHttpRequest", "a", "A", "aB", "Ab", "x_1", "key with space", "dotted.key", "$ref", "@type", "a__b", "__a",
              "_a", "1x", "one_x", "9", "0abc", "été", "naïve", "Straße", "ключ", "名前", "ﬁle", "İstanbul",
              "cafe\u0301", "nai\u0308ve", "A\u030angstrom", "o\u0302m",
              "@2x", "#1_hit", "(3d)_model", "-1d", " 1st"]                              # first WORD character is a digit           # decomposed (NFD) spellings


def tables(strings, cu):
    from unidecode import unidecode
    chars = set()
    for s in strings:
        chars.update(s)
    if cu:
        for c in list(chars):
            chars.update(unidecode(c))
    more = set()
    for c in chars:
        more.update(c.lower())
        more.update(c.upper())
    chars |= more
    chars = sorted(chars)
    wre = re.compile(r"\w")
    dre = re.compile(r"\d")
    cp = lambda c: f"{ord(c)}%N"
    return {
        "unidecode": ct.clist([f"({cp(c)}, {ct.cstr(unidecode(c))})" for c in chars]),
        "word": ct.clist([f"({cp(c)}, {ct.cbool(bool(wre.match(c)))})" for c in chars]),
        "decimal": ct.clist([f"({cp(c)}, {ct.cbool(bool(dre.match(c)))})" for c in chars]),
        "lower": ct.clist([f"({cp(c)}, {ct.cstr(c.lower())})" for c in chars]),
        "upper": ct.clist([f"({cp(c)}, {ct.cstr(c.upper())})" for c in chars]),
    }


def label_case(s, cu, snake):
    import inflection
    from json_to_models.models.base import blacklist_words, prepare_label
    try:
        lab = prepare_label(s, convert_unicode=cu, to_snake_case=snake)
    except IndexError:
        lab = None
    und = inflection.underscore(s)
    cam = inflection.camelize(s)
    t = tables([s], cu)
    # the blacklist is a big set: pass the entries that could matter for this case (the label with/without suffix)
    cands = set()
    if lab is not None:
        cands = {lab, lab[:-1]} & set(blacklist_words)
    term = ("{| c_unidecode := " + t["unidecode"] + "; c_word := " + t["word"] + "; c_decimal := " + t["decimal"] +
            "; c_lower := " + t["lower"] + "; c_upper := " + t["upper"] +
            "; c_blacklist := " + ct.clist([ct.cstr(x) for x in sorted(cands)]) +
            f"; c_cu := {ct.cbool(cu)}; c_snake := {ct.cbool(snake)}; c_input := {ct.cstr(s)}" +
            "; c_label := " + ct.copt(lab, ct.cstr) + "; c_underscore := " + ct.cstr(und) + "; c_camelize := " + ct.cstr(cam) + " |}")
    return term, lab


def random_key(r):
    k = r.random()
    if k < 0.25:
        return r.choice(STYLE_KEYS)
    if k < 0.35:
        return r.choice(KEYWORD_KEYS)
    n = r.randint(1, 8)
    return "".join(r.choice(KEY_ALPHABET) for _ in range(n))


def oracle_hypotheses():
    """the premises of the *_real label theorems about the external tables, checked over every code point.
    -> list of violations (empty when all hold)"""
    from unidecode import unidecode
    W = re.compile(r"\w")
    bad = []
    if W.match("-"):
        bad.append("is_word_c 45 = false fails")
    if not W.match("_"):
        bad.append("is_word_c 95 = true fails")
    if not all(W.match(chr(c)) for c in range(97, 123)):
        bad.append("ascii lower-case letters are word characters fails")
    for c in range(0x110000):
        if 0xD800 <= c <= 0xDFFF:
            continue
        ch = chr(c)
        lo = ch.lower()
        if c == 95 and lo != "_":
            bad.append("lower_c 95 = [95] fails")
        if c != 95 and "_" in lo:
            bad.append(f"lower_c {c} contains 95")
        if lo == "":
            bad.append(f"lower_c {c} = []")
        if "0" <= ch <= "9" and "a" <= lo <= "z":
            bad.append(f"lower of digit {c} is a letter")
        if not ("0" <= ch <= "9") and lo and "0" <= lo[0] <= "9":
            bad.append(f"lower_c {c} starts with an ASCII digit")
        u = unidecode(ch)
        if c < 128 and u != ch:
            bad.append(f"unidecode_c {c} <> [{c}]")
        if any(ord(x) >= 128 for x in u):
            bad.append(f"unidecode_c {c} is not ASCII")
        if len(bad) > 5:
            break
    return bad
