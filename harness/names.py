"""Implementation side of X-names: prepare_label / underscore / camelize with the per-character oracle tables."""
import re

from . import coqterm as ct
from .common import setup_import_path

setup_import_path()

KEY_ALPHABET = list("abcxyzABCXYZ0189_- .'\"\\$/") + ["é", "ß", "İ", "ǅ", "ﬁ", "ж", "Ж", "中", "٣", "３", "²", "ñ", "Å", "\n", "ı"]
KEYWORD_KEYS = ["class", "def", "import", "list", "dict", "type", "id", "str", "None", "True", "async", "print", "object",
                "datetime", "date", "time", "schema", "field", "Field", "self", "json", "copy", "Optional", "List", "Any",
                "BaseModel", "attr", "dataclass", "Literal", "Union"]
STYLE_KEYS = ["snake_case_key", "camelCaseKey", "PascalCaseKey", "kebab-case-key", "with1digit2", "HTTPResponse", "userID",
              "XMLHttpRequest", "a", "A", "aB", "Ab", "x_1", "key with space", "dotted.key", "$ref", "@type", "a__b", "__a",
              "_a", "1x", "one_x", "9", "0abc", "été", "naïve", "Straße", "ключ", "名前", "ﬁle", "İstanbul"]


def tables(strings, cu):
    from unidecode import unidecode
    chars = set()
    for s in strings:
        chars.update(s)
    if cu:
        for c in list(chars):
            chars.update(unidecode(c))
    more = set()
    for c in chars:
        more.update(c.lower())
        more.update(c.upper())
    chars |= more
    chars = sorted(chars)
    wre = re.compile(r"\w")
    dre = re.compile(r"\d")
    cp = lambda c: f"{ord(c)}%N"
    return {
        "unidecode": ct.clist([f"({cp(c)}, {ct.cstr(unidecode(c))})" for c in chars]),
        "word": ct.clist([f"({cp(c)}, {ct.cbool(bool(wre.match(c)))})" for c in chars]),
        "decimal": ct.clist([f"({cp(c)}, {ct.cbool(bool(dre.match(c)))})" for c in chars]),
        "lower": ct.clist([f"({cp(c)}, {ct.cstr(c.lower())})" for c in chars]),
        "upper": ct.clist([f"({cp(c)}, {ct.cstr(c.upper())})" for c in chars]),
    }


def label_case(s, cu, snake):
    import inflection
    from json_to_models.models.base import blacklist_words, prepare_label
    try:
        lab = prepare_label(s, convert_unicode=cu, to_snake_case=snake)
    except IndexError:
        lab = None
    und = inflection.underscore(s)
    cam = inflection.camelize(s)
    t = tables([s], cu)
    # the blacklist is a big set: pass the entries that could matter for this case (the label with/without suffix)
    cands = set()
    if lab is not None:
        cands = {lab, lab[:-1]} & set(blacklist_words)
    term = ("{| c_unidecode := " + t["unidecode"] + "; c_word := " + t["word"] + "; c_decimal := " + t["decimal"] +
            "; c_lower := " + t["lower"] + "; c_upper := " + t["upper"] +
            "; c_blacklist := " + ct.clist([ct.cstr(x) for x in sorted(cands)]) +
            f"; c_cu := {ct.cbool(cu)}; c_snake := {ct.cbool(snake)}; c_input := {ct.cstr(s)}" +
            "; c_label := " + ct.copt(lab, ct.cstr) + "; c_underscore := " + ct.cstr(und) + "; c_camelize := " + ct.cstr(cam) + " |}")
    return term, lab


def random_key(r):
    k = r.random()
    if k < 0.25:
        return r.choice(STYLE_KEYS)
    if k < 0.35:
        return r.choice(KEYWORD_KEYS)
    n = r.randint(1, 8)
    return "".join(r.choice(KEY_ALPHABET) for _ in range(n))
