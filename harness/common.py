"""Shared infrastructure of the checks: paths, environment, Coq build, case evaluation inside coqc,
evidence / replay / known-finding bookkeeping, verdict."""
import fcntl
import hashlib
import json
import os
import re
import shutil
import subprocess
import sys
import time

VERIF = os.path.dirname(os.path.dirname(os.path.abspath(__file__)))
REPO = os.environ.get("J2M_REPO", "/repo")
BUILD = os.path.join(VERIF, "build")
COQ = os.path.join(VERIF, "coq")
PY = "/venv/bin/python"
NPROC = int(os.environ.get("VERIF_JOBS", "16"))

FORBIDDEN = re.compile(r"\b(Admitted|admit|Axiom|Axioms|Parameter|Parameters|Conjecture|Abort All|"
                       r"Unset Guard Checking|Unset Positivity Checking|Unset Universe Checking|bypass_check|"
                       r"Admit Obligations|native_compute)\b")


def child_env(hashseed="0", extra=None):
    e = dict(os.environ)
    e["PYTHONPATH"] = REPO + os.pathsep + os.path.join(VERIF, "stubs")
    e["PYTHONHASHSEED"] = str(hashseed)
    e["PIP_NO_INDEX"] = "1"
    e["J2M_REPO"] = REPO
    e["PYTHONDONTWRITEBYTECODE"] = "1"
    if extra:
        e.update(extra)
    return e


def setup_import_path():
    """make `import json_to_models` resolve to /repo's working tree in this process"""
    for p in (os.path.join(VERIF, "stubs"), REPO):
        if p in sys.path:
            sys.path.remove(p)
        sys.path.insert(0, p)
    sys.dont_write_bytecode = True


def run(cmd, timeout, cwd=None, env=None, input=None):
    try:
        p = subprocess.run(cmd, cwd=cwd, env=env, input=input, capture_output=True, text=True, timeout=timeout)
        return p.returncode, p.stdout, p.stderr
    except subprocess.TimeoutExpired as e:
        return 124, (e.stdout or b"").decode("utf8", "replace") if isinstance(e.stdout, bytes) else (e.stdout or ""), "TIMEOUT"


class Lock:
    def __init__(self, name="build.lock"):
        os.makedirs(BUILD, exist_ok=True)
        self.path = os.path.join(BUILD, name)

    def __enter__(self):
        self.f = open(self.path, "w")
        fcntl.flock(self.f, fcntl.LOCK_EX)
        return self

    def __exit__(self, *a):
        fcntl.flock(self.f, fcntl.LOCK_UN)
        self.f.close()


# ----------------------------------------------------------------------------------------------------------------
# Coq build


def coq_sources():
    """every .v file of the development, except work in progress listed in coq/.wip (an uncommitted, optional file: one
    relative path per line; used while a proof file is being written so that the shared build does not wait for it)"""
    wip = set()
    wp = os.path.join(COQ, ".wip")
    if os.path.exists(wp):
        wip = {l.strip() for l in open(wp) if l.strip()}
    out = []
    for d in ("Model", "Sem", "Proofs", "Props", "Views"):
        p = os.path.join(COQ, d)
        if os.path.isdir(p):
            out += [os.path.join(d, f) for f in sorted(os.listdir(p)) if f.endswith(".v") and os.path.join(d, f) not in wip]
    return out


def scan_forbidden():
    bad = []
    for rel in coq_sources() + [os.path.join("Gen", f) for f in sorted(os.listdir(os.path.join(COQ, "Gen"))) if f.endswith(".v")]:
        txt = open(os.path.join(COQ, rel)).read()
        txt = re.sub(r"\(\*.*?\*\)", "", txt, flags=re.S)
        for m in FORBIDDEN.finditer(txt):
            bad.append(f"{rel}: {m.group(0)}")
    return bad


def ensure_build(log=None):
    """translator -> coq/Gen/*.v ; coq_makefile ; make -k.  Returns dict(status)."""
    from . import translate
    t0 = time.time()
    with Lock():
        tr = translate.run_all()          # {module: error-or-None}; writes only changed files
        gens = sorted(f for f in os.listdir(os.path.join(COQ, "Gen")) if f.endswith(".v"))
        files = coq_sources()
        # order matters only for readability; coqdep sorts dependencies
        proj = ["-Q Model J2M.Model", "-Q Sem J2M.Sem", "-Q Gen J2M.Gen", "-Q Proofs J2M.Proofs", "-Q Props J2M.Props",
                "-Q Views J2M.Views"] + [os.path.join("Gen", g) for g in gens] + files
        projtxt = "\n".join(proj) + "\n"
        pp = os.path.join(COQ, "_CoqProject")
        if not os.path.exists(pp) or open(pp).read() != projtxt:
            open(pp, "w").write(projtxt)
        if (not os.path.exists(os.path.join(COQ, "Makefile"))
                or os.path.getmtime(os.path.join(COQ, "Makefile")) < os.path.getmtime(pp)):
            rc, o, e = run(["coq_makefile", "-f", "_CoqProject", "-o", "Makefile"], 60, cwd=COQ)
            if rc:
                return {"ok": False, "translator": tr, "failed": ["coq_makefile"], "log": o + e, "wall_s": time.time() - t0}
        rc, o, e = run(["make", "-k", f"-j{NPROC}"], 1500, cwd=COQ)
        text = o + "\n" + e
        os.makedirs(BUILD, exist_ok=True)
        open(os.path.join(BUILD, "make.log"), "w").write(text)
        failed = sorted(set(re.findall(r'File "\./([\w/]+\.v)", line', text)) |
                        set(m + ".v" for m in re.findall(r"\*\*\* \[[^\]]*?: ([\w/]+)\.vo\] Error", text)))
        if rc == 124:
            failed.append("make: TIMEOUT")
        forb = scan_forbidden()
    return {"ok": rc == 0 and not forb and not any(tr.values()), "translator": tr, "failed": failed,
            "forbidden": forb, "log": text[-4000:], "wall_s": round(time.time() - t0, 2)}


def vo_ok(rel):
    """rel like 'Props/C08.v': compiled and not older than its source"""
    src = os.path.join(COQ, rel)
    vo = src[:-2] + ".vo"
    return os.path.exists(vo) and os.path.getmtime(vo) >= os.path.getmtime(src)


def theorems_of(rel):
    txt = open(os.path.join(COQ, rel)).read()
    txt = re.sub(r"\(\*.*?\*\)", "", txt, flags=re.S)
    return re.findall(r"^\s*(?:Theorem|Lemma|Corollary|Example)\s+([\w']+)", txt, flags=re.M)


def print_assumptions(rel, names, workdir):
    """-> {name: 'closed' | [axioms]} by running coqc on a scratch file"""
    mod = "J2M." + rel[:-2].replace("/", ".")
    body = f"Require Import {mod}.\n" + "".join(f'Print Assumptions {n}.\nGoal True. idtac "@@END {n}". exact I. Qed.\n' for n in names)
    path = os.path.join(workdir, "Assump_" + rel[:-2].replace("/", "_") + ".v")
    open(path, "w").write(body)
    rc, o, e = run(["coqc"] + coq_flags() + [path], 300, cwd=workdir)
    res = {}
    if rc:
        return {n: ["<coqc failed: " + (e or o)[-300:] + ">"] for n in names}
    chunks = re.split(r"@@END ([\w']+)", o)
    # chunks: text0, name0, text1, name1, ...
    for i in range(0, len(chunks) - 1, 2):
        txt, n = chunks[i], chunks[i + 1]
        if "Closed under the global context" in txt:
            res[n] = "closed"
        else:
            res[n] = [l.split(":")[0].strip() for l in txt.splitlines() if re.match(r"^\S.* :", l) and "Axioms" not in l] or [txt.strip()[:200]]
    for n in names:
        res.setdefault(n, ["<no output>"])
    return res


def coq_flags():
    fl = []
    for d in ("Model", "Sem", "Gen", "Proofs", "Props", "Views"):
        fl += ["-Q", os.path.join(COQ, d), "J2M." + d]
    return fl


def eval_cases(view, case_terms, workdir, shard=300, header="", timeout=600):
    """Evaluate `J2M.Views.<view>.report cases` inside coqc, sharded and in parallel.
    report must return (total, bad, [first bad indices]) : nat * nat * list nat.
    -> (n_total, bad_indices(list, global), errors(list of str))"""
    os.makedirs(workdir, exist_ok=True)
    shards = [case_terms[i:i + shard] for i in range(0, len(case_terms), shard)]
    procs = []
    for si, sh in enumerate(shards):
        path = os.path.join(workdir, f"cases_{view}_{si}.v")
        with open(path, "w") as f:
            f.write("From Coq Require Import List NArith ZArith Bool. Import ListNotations.\n")
            f.write("From J2M.Model Require Import Base.\n")
            f.write(f"From J2M.Views Require Import {view}.\n{header}\n")
            f.write(f"Definition cases : list {view}.case := [\n" + ";\n".join(sh) + "\n].\n")
            f.write(f"Eval vm_compute in ({view}.report cases).\n")
        procs.append((si, path))
    results = {}
    running = []
    errors = []
    todo = list(procs)
    t0 = time.time()
    while todo or running:
        while todo and len(running) < NPROC:
            si, path = todo.pop(0)
            p = subprocess.Popen(["timeout", str(timeout), "coqc"] + coq_flags() + [path], cwd=workdir,
                                 stdout=subprocess.PIPE, stderr=subprocess.PIPE, text=True)
            running.append((si, p))
        still = []
        for si, p in running:
            if p.poll() is None:
                still.append((si, p))
            else:
                o, e = p.communicate()
                results[si] = (p.returncode, o, e)
        running = still
        if running:
            time.sleep(0.05)
    total = 0
    bad = []
    for si, sh in enumerate(shards):
        rc, o, e = results[si]
        m = re.search(r"=\s*\(\s*(\d+)\s*,\s*(\d+)\s*,\s*\[([\d;\s]*)\]\s*\)", o)
        if rc or not m:
            errors.append(f"shard {si}: coqc rc={rc}: {(e or o)[-600:]}")
            continue
        total += int(m.group(1))
        nbad = int(m.group(2))
        idx = [int(x) for x in re.findall(r"\d+", m.group(3))]
        bad += [si * shard + i for i in idx]
        if nbad > len(idx):
            bad += [si * shard + idx[-1]] * 0  # only the first few indices are printed
    return total, bad, errors


# ----------------------------------------------------------------------------------------------------------------
# verdict bookkeeping


def load_known_findings():
    p = os.path.join(VERIF, "known_findings.json")
    if not os.path.exists(p):
        return []
    return json.load(open(p))["findings"]


class Check:
    def __init__(self, prop, tier, seed):
        self.prop, self.tier, self.seed = prop, tier, seed
        self.t0 = time.time()
        self.evaluations = 0
        self.nontrivial = set()
        self.samples = []
        self.violations = []       # (replay path, note)
        self.known_hits = {}       # finding id -> count
        self.notes = {}
        self.obligations = []      # (name, ok, detail)
        self.views = {}            # view -> dict(cases, disagreements)
        self.known = [f for f in load_known_findings() if f["property"] == prop]
        self.workdir = os.path.join(BUILD, f"run-{prop}-{os.getpid()}")
        os.makedirs(self.workdir, exist_ok=True)
        self.assumptions = []
        self.trusted = []

    # -- cases
    def count(self, key=None, nontrivial=True, sample=None):
        self.evaluations += 1
        if nontrivial and key is not None:
            self.nontrivial.add(hashlib.sha1(repr(key).encode()).hexdigest()[:16])
        if sample is not None and len(self.samples) < 5:
            self.samples.append(sample)

    def obligation(self, name, ok, detail=""):
        self.obligations.append((name, bool(ok), detail))

    def replay_path(self, payload):
        d = os.path.join(VERIF, "replays", self.prop)
        os.makedirs(d, exist_ok=True)
        txt = json.dumps(payload, indent=1, sort_keys=True, default=str, ensure_ascii=False)
        h = hashlib.sha1(txt.encode("utf8", "surrogatepass")).hexdigest()[:12]
        p = os.path.join(d, h + ".json")
        with open(p, "w", encoding="utf8", errors="surrogatepass") as f:
            f.write(txt)
        return p

    def classify(self, detail):
        """detail: dict with at least 'classifier_tags': set of strings.  -> finding id or None"""
        tags = set(detail.get("tags", ()))
        for f in self.known:
            if f.get("status") == "known" and f.get("tag") in tags:
                return f["id"]
        return None

    def fail(self, kind, payload, note="", tags=()):
        """an oracle failure / disagreement with a concrete input"""
        payload = dict(payload)
        payload.update({"property": self.prop, "kind": kind, "seed": self.seed, "tier": self.tier, "note": note,
                        "tags": sorted(tags)})
        fid = self.classify(payload)
        if fid:
            self.known_hits[fid] = self.known_hits.get(fid, 0) + 1
            return False
        if len(self.violations) < 20:
            self.violations.append((self.replay_path(payload), note, False))
        else:
            self.violations.append((None, note, False))
        return True

    def fail_nowitness(self, what, payload=None):
        """a proof obligation / correspondence no longer checks and no failing input was found"""
        payload = dict(payload or {})
        payload.update({"property": self.prop, "kind": "no-failing-input-found", "broken": what, "seed": self.seed,
                        "tier": self.tier})
        self.violations.append((self.replay_path(payload), what, True))

    def finish(self, level="proof", rule="", extra=None, exhaustive=False):
        wall = time.time() - self.t0
        for fid, n in sorted(self.known_hits.items()):
            f = [x for x in self.known if x["id"] == fid][0]
            print(f"KNOWN-FINDING: property={self.prop} {fid}: {f['description']} ({n} case(s) this run)")
        seen = set()
        for path, note, nowit in self.violations:
            if path is None or path in seen:
                continue
            seen.add(path)
            print(f"VIOLATION property={self.prop} replay={path}" + (" no-failing-input-found" if nowit else ""))
        n_obl = len(self.obligations)
        n_ok = sum(1 for _, ok, _ in self.obligations if ok)
        cov = {
            "obligations": n_obl, "discharged": n_ok,
            "obligation_list": [{"name": n, "ok": ok, "detail": d} for n, ok, d in self.obligations],
            "checker_cmd": "make -C coq (coqc 8.16.1, full .vo build) + coqc Print Assumptions per theorem; "
                           "correspondence: coqc vm_compute of the model on the implementation's inputs",
            "trusted_base": self.trusted,
            "evaluations": self.evaluations, "distinct_nontrivial": len(self.nontrivial), "rule": rule,
            "samples": self.samples[:5] or ["<none>"],
            "views": self.views, "known_findings_hit": self.known_hits, "exhaustive": exhaustive,
        }
        cov.update(self.notes)
        if extra:
            cov.update(extra)
        ev = {"property_id": self.prop, "tier": self.tier, "seed": self.seed, "level": level, "coverage": cov,
              "assumptions": self.assumptions, "wall_s": round(wall, 2), "violations": len(seen)}
        os.makedirs(os.path.join(VERIF, "evidence"), exist_ok=True)
        with open(os.path.join(VERIF, "evidence", self.prop + ".json"), "w") as f:
            json.dump(ev, f, indent=1, default=str)
        shutil.rmtree(self.workdir, ignore_errors=True)
        print(f"{self.prop}: tier={self.tier} seed={self.seed} obligations={n_ok}/{n_obl} evaluations={self.evaluations} "
              f"distinct={len(self.nontrivial)} violations={len(seen)} known={sum(self.known_hits.values())} wall={wall:.1f}s")
        return 1 if seen else 0


def run_repro(fid, timeout=900):
    """findings/repro.py <id> against /repo's working tree, in a fresh process -> None (passes) | failure text"""
    p = subprocess.run([PY, os.path.join(VERIF, "findings", "repro.py"), fid], capture_output=True, text=True,
                       env=dict(child_env(), J2M_REPO=REPO), timeout=timeout)
    line = [l for l in p.stdout.splitlines() if l.startswith(fid + " ")]
    if p.returncode == 0 and line and line[0].split()[1] == "OK":
        return None
    return (line[0] if line else (p.stdout + p.stderr)[-400:]).strip()


def run_fixed_repros(chk):
    import ast as _ast
    have = {n.name for n in _ast.parse(open(os.path.join(VERIF, "findings", "repro.py")).read()).body if isinstance(n, _ast.FunctionDef)}
    ids = sorted({f["id"] for f in chk.known if f.get("status") == "fixed" and f["id"] in have},
                 key=lambda k: int(re.sub(r"\D", "", k)))
    ran = []
    for fid in ids:
        try:
            why = run_repro(fid)
        except subprocess.TimeoutExpired:
            why = "timeout"
        chk.count(key=("repro", fid))
        ran.append(fid)
        if why:
            chk.fail("oracle", {"finding": fid, "replay_cmd": f"PYTHONPATH=/repo /venv/bin/python findings/repro.py {fid}"},
                     f"the repaired defect {fid} is back: {why}")
    chk.notes["fixed_findings_replayed"] = ran


class time_limit:
    """with time_limit(30): ...  raises TimeoutError in the main thread when the body runs longer (the group-closure loop of
    merge_models is super-linear: a few generated registries with many mutually similar models take minutes)"""

    def __init__(self, seconds):
        self.seconds = seconds

    def _fire(self, *_):
        raise TimeoutError(f"longer than {self.seconds} s")

    def __enter__(self):
        import signal
        self._old = signal.signal(signal.SIGALRM, self._fire)
        signal.setitimer(signal.ITIMER_REAL, self.seconds)

    def __exit__(self, *exc):
        import signal
        signal.setitimer(signal.ITIMER_REAL, 0)
        signal.signal(signal.SIGALRM, self._old)
        return False
