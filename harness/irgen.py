"""IR-level generator: a finite universe of ~40 depth<=2 types (as specs) and builders into implementation objects.
A spec is a JSON-able structure: "int" | "float" | "bool" | "str" | "null" | "unknown" | "IntString" ... |
{"lit": [..]} | {"list": spec} | {"dict": spec} | {"opt": spec} | {"union": [specs]} | {"obj": [[key, spec], ...]}"""
from itertools import combinations_with_replacement

from .common import setup_import_path

setup_import_path()

ATOMS = ["int", "float", "bool", "str", "null", "unknown", "IntString", "FloatString", "BooleanString"]
UNIVERSE = ATOMS + [
    {"lit": ["a"]}, {"lit": ["b"]}, {"lit": ["a", "b"]}, {"lit": ["x" * 20]},
    {"list": "int"}, {"list": "str"}, {"list": "unknown"}, {"list": "null"}, {"list": {"lit": ["a"]}},
    {"list": "IntString"}, {"list": {"union": ["int", "str"]}}, {"list": {"obj": [["a", "int"]]}}, {"list": {"list": "int"}},
    {"dict": "int"}, {"dict": "unknown"}, {"dict": "FloatString"}, {"dict": {"list": "int"}},
    {"obj": [["a", "int"]]}, {"obj": [["a", "str"]]}, {"obj": [["b", "int"]]}, {"obj": [["a", "int"], ["b", "str"]]},
    {"obj": [["a", {"lit": ["a"]}]]}, {"obj": [["a", {"list": "int"}]]},
    {"union": ["int", "str"]}, {"union": ["float", {"lit": ["b"]}]}, {"union": ["IntString", "null"]},
]
# members that only exist at the model-merging stage (Optional inside a union): two passes are run there
UNIVERSE_OPT = [{"opt": "int"}, {"opt": "str"}, {"opt": {"list": "int"}}, {"opt": "IntString"}, {"opt": {"lit": ["a"]}},
                {"opt": {"obj": [["a", "int"]]}}, {"opt": {"union": ["int", "str"]}}, {"opt": "float"}]


def build(spec):
    from json_to_models.dynamic_typing import (DDict, DList, DOptional, DUnion, Null, StringLiteral, Unknown)
    import json_to_models.dynamic_typing as dt
    if isinstance(spec, str):
        if spec in ("int", "float", "bool", "str"):
            return {"int": int, "float": float, "bool": bool, "str": str}[spec]
        if spec == "null":
            return Null
        if spec == "unknown":
            return Unknown
        return getattr(dt, spec)
    (k, v), = spec.items()
    if k == "lit":
        return StringLiteral(set(v))
    if k == "list":
        return DList(build(v))
    if k == "dict":
        return DDict(build(v))
    if k == "opt":
        return DOptional(build(v))
    if k == "union":
        return DUnion(*[build(x) for x in v])
    if k == "obj":
        return {kk: build(x) for kk, x in v}
    raise ValueError(spec)


def multisets(universe, kmax):
    for k in range(1, kmax + 1):
        for c in combinations_with_replacement(range(len(universe)), k):
            yield [universe[i] for i in c]
