"""Implementation side of X-emit: snapshot registry + structure, run generate_code, build the Vemit case term."""
import re

from . import coqterm as ct, pipeline
from .common import setup_import_path

setup_import_path()
FWC = {"base": "FBase", "pydantic": "FPydantic", "sqlmodel": "FSqlmodel", "attrs": "FAttrs", "dataclasses": "FDataclasses"}


def char_tables(strings, cu):
    from unidecode import unidecode
    chars = set()
    for s in strings:
        chars.update(s)
    if cu:
        for c in list(chars):
            chars.update(unidecode(c))
    more = set()
    for c in chars:
        more.update(c.lower())
        more.update(c.upper())
    chars |= more
    chars = sorted(chars)
    wre, dre = re.compile(r"\w"), re.compile(r"\d")
    cp = lambda c: f"{ord(c)}%N"
    return ("c_unidecode := " + ct.clist([f"({cp(c)}, {ct.cstr(unidecode(c))})" for c in chars if unidecode(c) != c]) +
            "; c_word := " + ct.clist([f"({cp(c)}, true)" for c in chars if wre.match(c)]) +
            "; c_decimal := " + ct.clist([f"({cp(c)}, true)" for c in chars if dre.match(c)]) +
            "; c_lower := " + ct.clist([f"({cp(c)}, {ct.cstr(c.lower())})" for c in chars if c.lower() != c]) +
            "; c_upper := " + ct.clist([f"({cp(c)}, {ct.cstr(c.upper())})" for c in chars if c.upper() != c]) +
            "; c_printable := " + ct.clist([f"({cp(c)}, false)" for c in chars if not c.isprintable()]))


def node_term(d):
    return f"(Node {ct.index_to_n(d['model'].index)}%N " + ct.clist([node_term(x) for x in d["nested"]]) + ")"


def snapshot(reg, structure):
    root, mapping = structure
    models = [(m.index, m.name, ct.cfields(m.type), list(m.type.keys())) for m in reg.models]
    strings = set()
    for m in reg.models:
        if m.name:
            strings.add(m.name)
        strings.update(m.type.keys())
    ctx = [(ct.index_to_n(k.index), ct.index_to_n(v.index)) for k, v in mapping.items() if not isinstance(v, str)]
    return {"models": models, "root": ct.clist([node_term(d) for d in root]), "ctx": ctx, "strings": strings}


def emit_case(reg, o, structure=None):
    """-> (coq term, text or None, error tag or None). Mutates reg's model names (as rendering does)."""
    from json_to_models.models.base import generate_code
    from json_to_models.models.structure import compose_models, compose_models_flat
    if structure is None:
        structure = (compose_models if o["structure"] == "nested" else compose_models_flat)(reg.models_map)
    snap = snapshot(reg, structure)
    try:
        text = generate_code(structure, pipeline.generator_class(o["fw"]), class_generator_kwargs=pipeline.generator_kwargs(o),
                             preamble=o["preamble"])
        err = None
    except Exception as e:  # noqa
        text, err = None, type(e).__name__ + ": " + str(e)[:200]
    after = [(ct.index_to_n(m.index), m.name) for m in reg.models]
    strings = set(snap["strings"])
    tabs = char_tables(strings, o["unidecode"])
    term = ("{| " + tabs +
            f"; c_fw := {FWC[o['fw']]}; c_maxlit := {int(o['max_literals'])}; c_conv := {ct.cbool(o['converters'])}" +
            f"; c_cu := {ct.cbool(o['unidecode'])}; c_meta := {ct.cbool(o['meta'])}" +
            "; c_models := " + ct.clist([f"({ct.index_to_n(i)}%N, {ct.copt(n, ct.cstr)}, {f})" for i, n, f, _ in snap["models"]]) +
            "; c_root := " + snap["root"] +
            "; c_ctx := " + ct.clist([f"({a}%N, {b}%N)" for a, b in snap["ctx"]]) +
            "; c_preamble := " + ct.copt(o["preamble"] or None, ct.cstr) +
            "; c_expected := " + ct.copt(text, ct.cstr) +
            "; c_names_after := " + (ct.clist([f"({i}%N, {ct.copt(n, ct.cstr)})" for i, n in after]) if text is not None else "[]") + " |}")
    return term, text, err


def layout_case(reg, nested):
    """-> (coq term, structure or None)"""
    from json_to_models.models.structure import compose_models, compose_models_flat
    from . import impl
    ptrs = []
    for m in reg.models:
        for p in m.pointers:
            ptrs.append((ct.index_to_n(m.index), None if p.parent is None else ct.index_to_n(p.parent.index)))
    try:
        st = (compose_models if nested else compose_models_flat)(reg.models_map)
        root, mapping = st
        exp = ("(Some (" + ct.clist([node_term(d) for d in root]) + ", " +
               ct.clist([f"({ct.index_to_n(k.index)}%N, {ct.index_to_n(v.index)}%N)" for k, v in mapping.items()]) + "))")
    except Exception:  # noqa
        st, exp = None, "None"
    term = ("{| c_models := " + ct.clist([f"{ct.index_to_n(m.index)}%N" for m in reg.models]) +
            "; c_ptrs := " + ct.clist([f"({t}%N, {ct.copt(p, lambda q: str(q) + '%N')})" for t, p in ptrs]) +
            f"; c_nested := {ct.cbool(nested)}; c_expected := {exp} |}}")
    return term, st


def gennames_case(reg):
    """snapshot before generate_names, run it, -> Vgennames case term.  Mutates reg (names)."""
    import inflection
    from . import impl
    before = [(ct.index_to_n(m.index), m.name, m.is_name_generated) for m in reg.models]
    ptrs = impl.all_pointers(reg)
    pt = [(ct.index_to_n(p.type.index), None if p.parent is None else ct.index_to_n(p.parent.index), p.parent_field_name) for p in ptrs]
    words = {inflection.underscore(f) for _, par, f in pt if par is not None and f is not None}
    chars = set()
    for _, _, f in pt:
        if f:
            chars.update(f)
    more = set()
    for c in chars:
        more.update(c.lower()); more.update(c.upper())
    for w in words:
        for c in inflection.singularize(w):
            more.add(c); more.update(c.upper()); more.update(c.lower())
    chars |= more
    dre = re.compile(r"\d")
    cp = lambda c: f"{ord(c)}%N"
    reg.generate_names()
    after = [(ct.index_to_n(m.index), m.name, m.is_name_generated) for m in reg.models]
    row = lambda x: f"({x[0]}%N, {ct.copt(x[1], ct.cstr)}, {ct.copt(x[2], ct.cbool)})"
    return ("{| c_decimal := " + ct.clist([f"({cp(c)}, true)" for c in sorted(chars) if dre.match(c)]) +
            "; c_lower := " + ct.clist([f"({cp(c)}, {ct.cstr(c.lower())})" for c in sorted(chars) if c.lower() != c]) +
            "; c_upper := " + ct.clist([f"({cp(c)}, {ct.cstr(c.upper())})" for c in sorted(chars) if c.upper() != c]) +
            "; c_singular := " + ct.clist([f"({ct.cstr(w)}, {ct.cstr(inflection.singularize(w))})" for w in sorted(words)]) +
            "; c_models := " + ct.clist([row(x) for x in before]) +
            "; c_ptrs := " + ct.clist([f"({t}%N, {ct.copt(p, lambda q: str(q) + '%N')}, {ct.copt(f, ct.cstr)})" for t, p, f in pt]) +
            "; c_expected := " + ct.clist([row(x) for x in after]) + " |}")
