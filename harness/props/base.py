"""Helpers shared by the per-property check modules."""
import json
import os
import re
import subprocess

from .. import common

# axioms that the standard library itself declares; none is expected, any that shows up is reported in the evidence
STDLIB_AXIOMS = {"functional_extensionality_dep", "classic", "proof_irrelevance", "JMeq_eq", "eq_rect_eq",
                 "propositional_extensionality", "constructive_definite_description"}

TRUSTED = [
    "Coq 8.16.1 kernel (coqc); vm_compute is used for reflexive obligations and for evaluating the model on cases; native_compute is not used",
    "no extraction: the model's executable definitions are evaluated inside coqc",
    "harness/translate.py (fail-closed ast translator producing coq/Gen/*.v)",
    "harness (generators, conversion of implementation values to Coq terms, canonical comparison in coq/Views/*.v)",
    "oracles supplied per case by running the real library code: accepts (string pseudo-type parsers), key_matches (re), "
    "per-character tables (unidecode, str.lower/upper, \\w, identifier classes), singularize",
    "CPython, pydantic.v1, attrs, dataclasses as judges of 'loads' and 'accepts' in the oracle (S)",
]


def proof_obligations(chk, build, prop_files, gen_modules=()):
    ok_all = True
    for gm in gen_modules:
        err = build["translator"].get(gm, "module not produced")
        chk.obligation(f"translator:{gm}", err is None, err or "")
        ok_all &= err is None
    if build.get("forbidden"):
        chk.obligation("no forbidden vernacular (Axiom/Admitted/...)", False, "; ".join(build["forbidden"][:5]))
        ok_all = False
    else:
        chk.obligation("no forbidden vernacular (Axiom/Admitted/...)", True)
    for rel in prop_files:
        if not os.path.exists(os.path.join(common.COQ, rel)):
            chk.obligation(rel, False, "file missing")
            ok_all = False
            continue
        if not common.vo_ok(rel):
            m = re.search(r'File "\./(\S+?)", line (\d+)[^\n]*\n(Error:[^\n]*(?:\n[^\n]+){0,6})', build.get("log", ""))
            chk.obligation(rel, False, "does not compile" + (f" ({m.group(1)}:{m.group(2)} {m.group(3)[:300]})" if m else ""))
            ok_all = False
            continue
        names = [n for n in common.theorems_of(rel)]
        res = common.print_assumptions(rel, names, chk.workdir)
        for n in names:
            r = res[n]
            good = r == "closed" or all(a in STDLIB_AXIOMS for a in r)
            chk.obligation(f"{rel}:{n}", good, "Closed under the global context" if r == "closed" else "axioms: " + ", ".join(r))
            ok_all &= good
    if chk.tier == "thorough":
        # independent re-check of the compiled property modules and everything they depend on, with the axiom summary
        for rel in prop_files:
            if not common.vo_ok(rel):
                continue
            mod = "J2M." + rel[:-2].replace("/", ".")
            try:
                p = subprocess.run(["timeout", "2400", "coqchk", "-silent", "-o"] + common.coq_flags() + [mod],
                                   cwd=common.COQ, capture_output=True, text=True)
                out = p.stdout + p.stderr
                m = re.search(r"\* Axioms:\s*(.*?)\n\s*\n", out, re.S)
                axioms = m.group(1).strip() if m else "?"
                unsafe = re.findall(r"relying on [^:]+:\s*(?!<none>)(\S.*)", out) + re.findall(r"positivity is assumed:\s*(?!<none>)(\S.*)", out)
                good = p.returncode == 0 and axioms == "<none>" and not unsafe
                chk.obligation(f"coqchk -o {mod}", good, f"exit {p.returncode}; Axioms: {axioms[:300]}" + (f"; unsafe: {unsafe[:3]}" if unsafe else ""))
            except Exception as e:  # noqa
                good = False
                chk.obligation(f"coqchk -o {mod}", False, f"{type(e).__name__}: {e}")
            ok_all &= good
    chk.trusted = list(TRUSTED)
    return ok_all


def load_replay(path):
    return json.load(open(path, encoding="utf8", errors="surrogatepass"))


def conclude(chk, proofs_ok, disagreements, oracle_failed):
    """broken obligation / disagreeing view without a failing input -> VIOLATION ... no-failing-input-found"""
    if (not proofs_ok or disagreements) and not oracle_failed:
        what = [n for n, ok, _ in chk.obligations if not ok] + sorted({d.get("view", "?") for d in disagreements})
        chk.fail_nowitness("; ".join(what), {"disagreements": disagreements[:5],
                                             "obligations": [o for o in chk.obligations if not o[1]]})


def run_view(chk, view, label, terms, meta, disagreements, shard=100, header="", extra=None):
    if not terms:
        chk.views[label] = {"cases": 0, "disagreements": 0, "errors": []}
        return
    tot, bad, errs = common.eval_cases(view, terms, chk.workdir, shard=shard, header=header)
    chk.views[label] = dict({"cases": tot, "disagreements": len(bad), "errors": errs[:2]}, **(extra or {}))
    for b in bad[:5]:
        d = dict(meta[b]) if isinstance(meta[b], dict) else {"case": meta[b]}
        d["view"] = label
        disagreements.append(d)
    if errs:
        disagreements.append({"view": label, "error": errs[0]})


EMIT_HEADER = "From J2M.Model Require Import Framework Emit."
