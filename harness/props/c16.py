"""C16 — the command line is a faithful front end to the library pipeline."""
import json
import os

from .. import clirun, common, coqterm as ct, gen, pipeline
from . import base

RN3 = ("IntString", "FloatString", "BooleanString")
RN6 = RN3 + ("IsoDateString", "IsoTimeString", "IsoDatetimeString")


def plan(r, samples, i):
    """split a sample list over files / lookups / repeated -m / -l / patterns.
    -> (files {name: text}, argv pieces for this model, docs for the model view [(lookup, [doc,...])])"""
    files, argv, args = {}, [], []
    rest = list(samples)
    n = 0
    while rest:
        k = r.randint(1, len(rest))
        chunk, rest = rest[:k], rest[k:]
        n += 1
        fname = f"m{i}_f{n}.json"
        how = r.choice(["list", "object", "lookup", "deep-lookup", "dash"]) if len(chunk) > 1 else r.choice(["list", "object", "lookup", "dash"])
        if how == "object" and len(chunk) == 1:
            doc, lk = chunk[0], None
        elif how == "lookup":
            doc, lk = {"data": chunk, "other": 1}, "data"
        elif how == "deep-lookup":
            doc, lk = {"a": {"b.c": 0, "items": chunk}}, "a.items"
        elif how == "dash":
            doc, lk = chunk, "-"
        else:
            doc, lk = chunk, None
        files[fname] = json.dumps(doc)
        via = r.choice(["m", "m", "l", "pattern"])
        if via == "l":
            argv += ["-l", f"Model{i}", lk or "-", fname]
            args.append(("l", lk or "-", [doc]))
        elif via == "pattern":
            pat = f"m{i}_f{n}*.json" if r.random() < 0.5 else f"m{i}_f{n}.jso?"
            argv += ["-m", f"Model{i}"] + ([lk] if lk else []) + [pat]
            args.append(("m", lk or "-", [doc]))
        else:
            argv += ["-m", f"Model{i}"] + ([lk] if lk else []) + [fname]
            args.append(("m", lk or "-", [doc]))
    if r.random() < 0.3:
        # a document that IS the empty object (as the file root, or at the end of a lookup): a real sample — it makes every
        # field of the model optional
        n += 1
        fname = f"m{i}_f{n}.json"
        if r.random() < 0.5:
            doc, lk = {}, None
        else:
            doc, lk = {"data": {}, "other": 1}, "data"
        files[fname] = json.dumps(doc)
        argv += ["-m", f"Model{i}"] + ([lk] if lk else []) + [fname]
        args.append(("m", lk or "-", [doc]))
    return files, argv, args


def options(r):
    o = dict(pipeline.DEFAULT_OPTS)
    argv = []
    o["fw"] = r.choice(["base", "base", "pydantic", "attrs", "dataclasses", "sqlmodel"])
    if o["fw"] != "base" or r.random() < 0.3:
        argv += ["-f", o["fw"]]
    o["structure"] = r.choice(["flat", "flat", "nested"])
    if o["structure"] != "flat" or r.random() < 0.2:
        argv += ["-s", o["structure"]]
    m = r.choice([None, None, ["exact"], ["percent_50"], ["number_2"], ["percent_70", "number_3"], ["percent"]])
    if m:
        argv += ["--merge"] + m
        spec = []
        for x in m:
            if x == "exact":
                spec.append(("exact",))
            elif x.startswith("percent"):
                spec.append(("percent", float(x.split("_")[1]) / 100 if "_" in x else 0.7))
            else:
                spec.append(("number", int(x.split("_")[1]) if "_" in x else 10))
        o["cmp"] = spec
    ml = r.choice([None, None, 0, 3, 16])
    if ml is not None:
        argv += ["--max-strings-literals", str(ml)]
        o["max_literals"] = ml
    if r.random() < 0.25:
        argv += ["--datetime"]
        o["rn"] = RN6
    if r.random() < 0.3:
        argv += ["--strings-converters"]
        o["converters"] = True
    if r.random() < 0.3:
        argv += [r.choice(["--disable-unicode-conversion", "--no-unidecode"])]
        o["unidecode"] = False
    k = r.random()
    if k < 0.1:
        argv += ["--dkr", "[ab]", r"item_\d+"]
        o["dkr"] = ["^(?:[ab])$", r"^(?:item_\d+)$"]
    elif k < 0.2:
        # a top-level alternation: the anchors must apply to the whole expression
        argv += ["--dkr", "a|b", r"\d+|[xy]"]
        o["dkr"] = ["^(?:a|b)$", r"^(?:\d+|[xy])$"]
    elif k < 0.4:
        argv += ["--dkf", "items", "x"]
        o["dkf"] = ["items", "x"]
    if r.random() < 0.25:
        p = r.choice(["import os", "  X = 1  ", "# note\nY = 2"])
        argv += ["--preamble", p]
        o["preamble"] = p.strip()
    if r.random() < 0.2:
        dis = r.choice([["float"], ["int", "bool"], ["IntString"], ["FloatString", "BooleanString"]])
        argv += ["--disable-str-serializable-types"] + dis
        gone = {"float": "FloatString", "int": "IntString", "bool": "BooleanString"}
        drop = {gone.get(x, x) for x in dis}
        o["rn"] = tuple(n for n in o["rn"] if n not in drop)
    if o["fw"] in ("attrs", "dataclasses") and r.random() < 0.3:
        argv += ["--code-generator-kwargs", "meta=true"]
        o["meta"] = True
    return o, argv


def one(job):
    seed, idx = job
    g = gen.Gen(seed * 7919 + idx)
    r = g.r
    o, oargv = options(r)
    nmodels = 1 if r.random() < 0.7 else 2
    sb = clirun.Sandbox("c16")
    try:
        argv, roots, view_m, view_l = [], [], [], []
        shared = nmodels == 2 and r.random() < 0.5
        if shared:
            # one file reached by several arguments with DIFFERENT lookups (and once more with the same lookup)
            parts = [gen.Gen(r.randrange(10 ** 9), datetime=(o["rn"] == RN6)).samples(depth=2, nmax=3) for _ in range(2)]
            doc = {"first": parts[0], "second": {"deep": parts[1]}}
            sb.write("shared.json", json.dumps(doc))
            order = [("Model0", "first"), ("Model1", "second.deep")]
            if r.random() < 0.5:
                order.append(("Model0", "second.deep"))
            if r.random() < 0.3:
                order.append(("Model1", "second.deep"))
            for name, lk in order:
                if r.random() < 0.3:
                    argv += ["-l", name, lk, "shared.json"]
                    view_l.append((name, lk, [doc]))
                else:
                    argv += ["-m", name, lk, r.choice(["shared.json", "share?.json", "./shared.json"])]
                    view_m.append((name, lk, [doc]))
        else:
            for i in range(nmodels):
                keys = gen.KEYS + ["ab", "a1", "12ab", "xy"] if o.get("dkr") else None
                samples = gen.Gen(r.randrange(10 ** 9), datetime=(o["rn"] == RN6), keys=keys).samples(depth=2, nmax=4)
                files, a, args = plan(r, samples, i)
                for n, t in files.items():
                    sb.write(n, t)
                argv += a
                roots.append((f"Model{i}", samples))
                for via, lk, docs in args:
                    (view_m if via == "m" else view_l).append((f"Model{i}", lk, docs))
        # the code concatenates every -m before every -l: the expected sample order follows that
        expect = {}
        for via in ("m", "l"):
            for name, lk, docs in (view_m if via == "m" else view_l):
                for d in docs:
                    x = d
                    if lk != "-":
                        for part in lk.split("."):
                            x = x[part]
                    expect.setdefault(name, []).extend(x if isinstance(x, list) else [x])
        use_o = r.random() < 0.2
        rc, out, err = clirun.run_cli(argv + oargv + (["-o", "out.py"] if use_o else []), sb.dir)
        info = {"argv": argv + oargv, "files": {n: sb.read(n).decode() for n in os.listdir(sb.dir) if n.endswith(".json")}}
        if rc != 0:
            return idx, f"command line exits {rc}: {err[-300:]}", info, None
        if use_o:
            out = sb.read("out.py").decode("utf8") + "\n"
        header, body = clirun.strip_header(out)
        if header is None:
            return idx, "output does not start with the header", info, None
        try:
            reg, _ = pipeline.build_registry(list(expect.items()), o)
            code = pipeline.render(reg, o)
        except Exception as e:  # noqa
            return idx, f"library pipeline raises {type(e).__name__}: {e} where the command line succeeded", info, None
        if body != code + "\n":
            import difflib
            d = "\n".join(list(difflib.unified_diff(code.split("\n"), body.split("\n"), "library", "cli", lineterm=""))[:12])
            return idx, "text printed after the header differs from the library result:\n" + d, info, None
        term = ("{| c_models := " + ct.clist(["{| a_name := %s; a_lookup := %s; a_docs := %s |}" % (ct.cstr(n), ct.cstr(lk), ct.clist([ct.cjson(d) for d in docs])) for n, lk, docs in view_m]) +
                "; c_lists := " + ct.clist(["{| a_name := %s; a_lookup := %s; a_docs := %s |}" % (ct.cstr(n), ct.cstr(lk), ct.clist([ct.cjson(d) for d in docs])) for n, lk, docs in view_l]) +
                "; c_expected := (Some " + ct.clist([f"({ct.cstr(n)}, {ct.clist([ct.cjson(x) for x in xs])})" for n, xs in impl_models_data(sb.dir, argv)]) + ") |}")
        return idx, None, info, term
    finally:
        sb.close()


def impl_models_data(cwd, argv):
    """what Cli.setup_models_data collects for this argv (run in a subprocess: it resolves relative paths)"""
    import subprocess
    code = ("import sys, json\nfrom json_to_models.cli import Cli\nc = Cli()\nns = c.argparser.parse_args(sys.argv[1:])\n"
            "from json_to_models.cli import FileLoaders\nc.setup_models_data(ns.model or (), ns.list or (), getattr(FileLoaders, ns.input_format))\n"
            "print(json.dumps([[k, list(v)] for k, v in c.models_data.items()]))")
    p = subprocess.run([common.PY, "-c", code] + argv, cwd=cwd, env=common.child_env(), capture_output=True, text=True, timeout=60)
    return [(k, v) for k, v in json.loads(p.stdout)]


def run(chk, build):
    tier = chk.tier
    proofs_ok = base.proof_obligations(chk, build, ["Props/C16.v"], ["Cli"])
    n = 150 if tier == "quick" else 3000
    oracle_failed, disagreements = False, []
    terms, meta = [], []
    for idx, why, info, term in clirun.parallel(one, [(chk.seed, i) for i in range(n)]):
        chk.count(key=repr(info["argv"]) + repr(sorted(info["files"].items())), sample=info if len(chk.samples) < 2 else None)
        if why:
            oracle_failed |= chk.fail("oracle", dict(info, index=idx), why)
        if term:
            terms.append(term)
            meta.append(info)
    base.run_view(chk, "Vcli", "X-cli(assemble)", terms, meta, disagreements, shard=50, header="From J2M.Model Require Import Cli.")
    chk.views["X-cli(stdout = library)"] = {"cases": n, "disagreements": 0, "errors": []}
    base.conclude(chk, proofs_ok, disagreements, oracle_failed)


def finish(chk):
    return chk.finish(level="proof",
                      rule="random sample sets for 1-2 model names, split over list / object / lookup / deep-lookup files given by repeated "
                           "-m, -l and patterns, x option sets (framework, structure, merge, literals, datetime, converters, unidecode, "
                           "dict-key options, preamble, disabled string types, generator kwargs), with and without -o, in fresh "
                           "subprocesses; distinct = distinct (argv, files)")


def replay(chk, path):
    r = base.load_replay(path)
    if "argv" not in r:
        print("replay:", r.get("broken") or r)
        return 1
    _, why, _, _ = one((r["seed"], r["index"]))
    print("REPLAY", "FAILS: " + why if why else "passes")
    return 1 if why else 0
